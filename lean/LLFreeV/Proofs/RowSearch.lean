/-
  Sequential specification of `Bitfield::set_first_zeros` for orders 0..6 (row bit search,
  using the proved specification of the regenerated `first_zeros_aligned`).
-/
import LLFreeV.Proofs.LowerInv
import LLFreeV.Props.C23
namespace LLFree
open Prog

/-- outcome of a search inside one bitfield -/
inductive SearchRes (m : Mem) (F0 : Nat) (hf order : Nat) : Mem → Res Nat → Prop where
  /-- found: offset `off` (relative to the bitfield) of an aligned block that was free and is now set -/
  | found (m' : Mem) (off : Nat) (hlt : off + 2 ^ order ≤ hf) (hal : off % 2 ^ order = 0)
      (hfree : blockAll m (F0 + off) (2 ^ order) false)
      (hset : BitsSet m m' (F0 + off) (2 ^ order) true) (hsame : SameButBits m m') :
      SearchRes m F0 hf order m' (.ok off)
  /-- nothing found: the memory is unchanged and no aligned block of the bitfield is free -/
  | none (hno : ∀ off, off + 2 ^ order ≤ hf → off % 2 ^ order = 0 → ¬ blockAll m (F0 + off) (2 ^ order) false) :
      SearchRes m F0 hf order m (.error .memory)

section
variable {g : Geom} (ok : GeomOk g)
include ok

/-- every row index is visited by the rotated scan `k ↦ (k + s) % rows` -/
theorem rot_surj (s r : Nat) (hr : r < g.rows) : ∃ k, k < g.rows ∧ (k + s % g.rows) % g.rows = r := by
  have hpos := ok.rows_pos
  have hs : s % g.rows < g.rows := Nat.mod_lt _ hpos
  by_cases h : s % g.rows ≤ r
  · exact ⟨r - s % g.rows, by omega, by rw [Nat.sub_add_cancel h]; exact Nat.mod_eq_of_lt hr⟩
  · refine ⟨r + g.rows - s % g.rows, by omega, ?_⟩
    have : r + g.rows - s % g.rows + s % g.rows = r + g.rows := by omega
    rw [this, Nat.add_mod_right]; exact Nat.mod_eq_of_lt hr

/-- an aligned block of order ≤ 6 of a bitfield lies in one row at an aligned bit position -/
theorem block_row_decomp (off order : Nat) (ho : order ≤ 6) (hal : off % 2 ^ order = 0) :
    off = (off / 64) * 64 + off % 64 ∧ (off % 64) % 2 ^ order = 0 ∧ off % 64 + 2 ^ order ≤ 64 := by
  refine ⟨(Nat.div_add_mod' off 64).symm, ?_, aligned_in_row ok off order ho hal⟩
  have h2 : 2 ^ order ∣ 64 := ⟨2 ^ (6 - order), by rw [← Nat.pow_add, show order + (6 - order) = 6 by omega]⟩
  exact Nat.mod_eq_zero_of_dvd ((Nat.dvd_mod_iff h2).2 (Nat.dvd_of_mod_eq_zero hal))

/-- the row loop of `set_first_zeros` -/
theorem setFirstZeros_go_spec (m : Mem) (h startRow order : Nat) (ho : order ≤ 6)
    (hrows : h * g.rows + g.rows ≤ m.rows.size) :
    ∀ (cnt i : Nat), i + cnt = g.rows →
      -- rows visited so far hold no free block
      (∀ k, k < i → ∀ p, p < 64 → p % 2 ^ order = 0 →
        ¬ blockAll m ((h * g.rows + (k + startRow % g.rows) % g.rows) * 64 + p) (2 ^ order) false) →
      ∃ m' r, runSolo (Bitfield.setFirstZeros.go g h startRow order cnt i) m = (m', .ok r) ∧
        SearchRes m (h * g.hugeFrames) g.hugeFrames order m' r := by
  intro cnt
  induction cnt with
  | zero =>
    intro i hi hvis
    refine ⟨m, .error .memory, by rw [Bitfield.setFirstZeros.go]; rfl, ?_⟩
    apply SearchRes.none
    intro off hlt hal hfree
    obtain ⟨hdec, _, _⟩ := block_row_decomp ok off order ho hal
    have hr : off / 64 < g.rows := by
      have : off < g.rows * 64 := by rw [ok.rows_mul]; have : 0 < 2 ^ order := Nat.pos_of_ne_zero (by simp); omega
      omega
    obtain ⟨k, hk, hkr⟩ := rot_surj ok startRow (off / 64) hr
    apply hvis k (by omega) (off % 64) (Nat.mod_lt _ (by decide)) (by
      have h2 : 2 ^ order ∣ 64 := ⟨2 ^ (6 - order), by rw [← Nat.pow_add, show order + (6 - order) = 6 by omega]⟩
      exact Nat.mod_eq_zero_of_dvd ((Nat.dvd_mod_iff h2).2 (Nat.dvd_of_mod_eq_zero hal)))
    rw [hkr]
    have e : (h * g.rows + off / 64) * 64 + off % 64 = h * g.hugeFrames + off := by
      rw [Nat.add_mul, Nat.mul_assoc, ok.rows_mul]; omega
    rw [e]; exact hfree
  | succ cnt ih =>
    intro i hi hvis
    rw [Bitfield.setFirstZeros.go]
    generalize hidx : (i + startRow % g.rows) % g.rows = idx
    have hidxlt : idx < g.rows := by rw [← hidx]; exact Nat.mod_lt _ ok.rows_pos
    have hR : h * g.rows + idx < m.rows.size := by omega
    obtain ⟨v, hv⟩ : ∃ v, m.rows[h * g.rows + idx]? = some v := ⟨_, Array.getElem?_eq_getElem hR⟩
    simp only [runSolo_bind, rowIdx]
    rw [runSolo_tryUpdate_some (k := .row) _ (by simpa using hv)]
    have hspec := C23.fza_spec v order ho
    cases hf : Gen.fza v order with
    | none =>
      -- this row has no free block: continue
      rw [hf] at hspec
      simp only [Option.map_none, andThen_ok]
      apply ih (i + 1) (by omega)
      intro k hk p hp hpa
      by_cases e : k = i
      · subst e
        rw [hidx]
        intro hfree
        apply hspec p hp hpa
        exact (row_block_iff m _ p (2 ^ order) v false hv (by
          have := aligned_in_row ok p order ho hpa
          have : p % 64 = p := Nat.mod_eq_of_lt hp
          omega)).2 hfree
      · exact hvis k (by omega) p hp hpa
    | some res =>
      obtain ⟨v', off⟩ := res
      rw [hf] at hspec
      obtain ⟨hoff, hoffa, hofree, _, hbits⟩ := hspec
      simp only [Option.map_some, andThen_ok, hf, runSolo_pure]
      have hin : off + 2 ^ order ≤ 64 := by
        have := aligned_in_row ok off order ho hoffa
        have : off % 64 = off := Nat.mod_eq_of_lt hoff
        omega
      have e : (h * g.rows + idx) * 64 + off = h * g.hugeFrames + (idx * 64 + off) := by
        rw [Nat.add_mul, Nat.mul_assoc, ok.rows_mul]; omega
      refine ⟨_, _, rfl, ?_⟩
      apply SearchRes.found
      · -- inside the bitfield
        have : (idx + 1) * 64 ≤ g.rows * 64 := Nat.mul_le_mul_right _ hidxlt
        rw [ok.rows_mul] at this; omega
      · -- aligned
        have h2 : 2 ^ order ∣ 64 := ⟨2 ^ (6 - order), by rw [← Nat.pow_add, show order + (6 - order) = 6 by omega]⟩
        have : 2 ^ order ∣ idx * 64 + off :=
          Nat.dvd_add (Nat.dvd_trans h2 (Nat.dvd_mul_left _ _)) (Nat.dvd_of_mod_eq_zero hoffa)
        exact Nat.mod_eq_zero_of_dvd this
      · rw [← e]
        exact (row_block_iff m _ off (2 ^ order) v false hv hin).1 hofree
      · rw [← e]
        apply row_write_bits m _ off (2 ^ order) v v' true hv hin
        intro j
        rw [hbits j]
        by_cases hj : off ≤ j ∧ j < off + 2 ^ order ∧ j < 64
        · simp [hj.1, hj.2.1, hj.2.2]
        · simp only [hj, if_false]
          have : (decide (off ≤ j) && decide (j < off + 2 ^ order) && decide (j < 64)) = false := by
            apply Bool.eq_false_iff.2; intro hh; simp at hh; exact hj ⟨hh.1.1, hh.1.2, hh.2⟩
          simp [this]
      · exact SameButBits.set_row _ _ _

/-- **`Bitfield::set_first_zeros`, orders 0..6**: finds an aligned free block of the bitfield if
    there is one (the lowest in the first row that has one, scanning from the hint row), sets
    exactly its bits; otherwise reports `Memory` and changes nothing. -/
theorem setFirstZeros_small_spec (m : Mem) (h startRow order : Nat) (ho : order ≤ 6)
    (hrows : h * g.rows + g.rows ≤ m.rows.size) :
    ∃ m' r, runSolo (Bitfield.setFirstZeros g h startRow order) m = (m', .ok r) ∧
      SearchRes m (h * g.hugeFrames) g.hugeFrames order m' r := by
  unfold Bitfield.setFirstZeros
  have : ¬ order > 6 := by omega
  simp only [this, if_false]
  exact setFirstZeros_go_spec ok m h startRow order ho hrows g.rows 0 (by omega) (fun k hk => by omega)

end
end LLFree
