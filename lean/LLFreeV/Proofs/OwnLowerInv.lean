/-
  The invariant of the lower allocator under interleavings (`LInv`) and its preservation by
  every atomic step of every thread whose program is `SafeL`.
-/
import LLFreeV.Proofs.OwnLower
namespace LLFree
open Prog

/-! ### counting -/

theorem blockSum_point (f f' : Nat → Nat) (n k : Nat) (hk : k < n) (h : ∀ j, j ≠ k → f' j = f j) :
    blockSum f' n + f k = blockSum f n + f' k := by
  induction n with
  | zero => omega
  | succ n ih =>
    rw [blockSum, blockSum]
    by_cases e : k = n
    · subst e
      have : blockSum f' k = blockSum f k := blockSum_congr _ _ _ (fun j hj => h j (by omega))
      omega
    · have := ih (by omega)
      rw [h n (fun x => e x.symm)]
      omega

theorem le_blockSum (f : Nat → Nat) (n k : Nat) (hk : k < n) : f k ≤ blockSum f n := by
  induction n with
  | zero => omega
  | succ n ih =>
    rw [blockSum]
    by_cases e : k = n
    · subst e; omega
    · have := ih (by omega); omega

theorem countP_add_le {τ : Type} (l : List τ) (p q : τ → Bool) (h : ∀ x, x ∈ l → q x = true → p x = false) :
    l.countP p + l.countP q ≤ l.length := by
  induction l with
  | nil => simp
  | cons a l ih =>
    have := ih (fun x hx => h x (List.mem_cons_of_mem _ hx))
    rw [List.countP_cons, List.countP_cons, List.length_cons]
    have ha := h a (List.mem_cons_self)
    cases hq : q a with
    | false => cases hp : p a <;> simp <;> omega
    | true => rw [ha hq]; simp; omega

theorem zerosRow_le (v : BitVec 64) : zerosRow v ≤ 64 := by
  unfold zerosRow
  have := List.countP_le_length (p := fun b => !v.getLsbD b) (l := List.range 64)
  simpa using this

section
variable {g : Geom}

/-- the row of frame `h * hugeFrames + (r * 64 + k)` -/
theorem frame_of_row (okg : GeomOk g) (h r k : Nat) (hk : k < 64) :
    (h * g.hugeFrames + (r * 64 + k)) / 64 = h * g.rows + r ∧ (h * g.hugeFrames + (r * 64 + k)) % 64 = k := by
  rw [okg.frame_row, okg.frame_bit]
  constructor <;> omega

theorem rowTerm_eq (okg : GeomOk g) (m : Mem) (h r : Nat) (v : BitVec 64) (hv : m.rows[h * g.rows + r]? = some v) :
    (List.range 64).countP (fun k => !m.bit (h * g.hugeFrames + (r * 64 + k))) = zerosRow v := by
  unfold zerosRow
  apply countP_range_eq_of_eq
  intro k hk
  obtain ⟨e1, e2⟩ := frame_of_row okg h r k hk
  unfold Mem.bit
  rw [e1, hv, e2]

/-- a write of row `i` changes the zero count of its huge frame by the difference of the rows -/
theorem zerosIn_set_row (okg : GeomOk g) (m : Mem) (i : Nat) (old new : BitVec 64) (hv : m.rows[i]? = some old) :
    zerosIn g (m.set .row i new) (i / g.rows) + zerosRow old = zerosIn g m (i / g.rows) + zerosRow new := by
  have hrp := okg.rows_pos
  have hi : i < m.rows.size := (Array.getElem?_eq_some_iff.1 hv).1
  have hsplit : i / g.rows * g.rows + i % g.rows = i := by
    have := Nat.div_add_mod i g.rows; rw [Nat.mul_comm] at this; exact this
  have hr0 : i % g.rows < g.rows := Nat.mod_lt _ hrp
  rw [zerosIn_rows okg, zerosIn_rows okg]
  have hv' : m.rows[i / g.rows * g.rows + i % g.rows]? = some old := by rw [hsplit]; exact hv
  have hnew : (m.set .row i new).rows[i / g.rows * g.rows + i % g.rows]? = some new := by
    rw [hsplit]; simp [hi]
  have t1 := rowTerm_eq okg m (i / g.rows) (i % g.rows) old hv'
  have t2 := rowTerm_eq okg (m.set .row i new) (i / g.rows) (i % g.rows) new hnew
  have key := blockSum_point
    (fun r => (List.range 64).countP (fun k => !m.bit (i / g.rows * g.hugeFrames + (r * 64 + k))))
    (fun r => (List.range 64).countP (fun k => !(m.set .row i new).bit (i / g.rows * g.hugeFrames + (r * 64 + k))))
    g.rows (i % g.rows) hr0 (by
      intro j hj
      apply countP_range_eq_of_eq
      intro k hk
      obtain ⟨e1, _⟩ := frame_of_row okg (i / g.rows) j k hk
      rw [Mem.bit_set_row m i new hi, if_neg]
      rw [e1]; intro e; apply hj; omega)
  rw [t1, t2] at key
  exact key

/-- … and leaves the other huge frames alone -/
theorem zerosIn_set_row_other (okg : GeomOk g) (m : Mem) (i : Nat) (new : BitVec 64) (hi : i < m.rows.size) (h : Nat)
    (hne : h ≠ i / g.rows) : zerosIn g (m.set .row i new) h = zerosIn g m h := by
  apply zerosIn_congr
  intro j hj
  rw [Mem.bit_set_row m i new hi, if_neg]
  rw [okg.frame_row]
  intro e
  apply hne
  have : j / 64 < g.rows := by
    have := okg.rows_mul
    apply Nat.div_lt_of_lt_mul; omega
  rw [← e, Nat.mul_comm, Nat.mul_add_div okg.rows_pos, Nat.div_eq_of_lt this]; rfl

/-- frames held as bits are not zero bits -/
theorem zerosIn_add_cntH_le (m : Mem) (own : Owned) (h : Nat) (hheld : ∀ f, own f = true → m.bit f = true) :
    zerosIn g m h + cntH g own h ≤ g.hugeFrames := by
  unfold zerosIn cntH
  have := countP_add_le (List.range g.hugeFrames) (fun i => !m.bit (h * g.hugeFrames + i)) (fun i => own (h * g.hugeFrames + i))
    (fun x _ hq => by simp [hheld _ hq])
  simpa using this

theorem cntH_eq_zero_of_full (m : Mem) (own : Owned) (h : Nat) (hheld : ∀ f, own f = true → m.bit f = true)
    (hz : zerosIn g m h = g.hugeFrames) : cntH g own h = 0 := by
  have := zerosIn_add_cntH_le (g := g) m own h hheld
  omega

end

/-! ### the invariant -/

/-- total of the threads' accounts on huge frame `h` -/
def usum (n : Nat) (ghs : Nat → Gh) (h : Nat) : Nat := blockSum (fun k => (ghs k).u h) n

structure LInv {α : Type} (strict : Bool) (g : Geom) (n : Nat) (F : Nat) (Post : α → Gh → Prop) (m : Mem)
    (ths : Nat → Th α) (ghs : Nat → Gh) : Prop where
  safe : ∀ k, Th.SafeL strict g Post (ghs k) (ths k)
  disjS : ∀ j k, j ≠ k → ∀ f, (ghs j).ownS f = true → (ghs k).ownS f = false
  heldS : ∀ k f, (ghs k).ownS f = true → m.bit f = true
  disjH : ∀ j k, j ≠ k → ∀ h, (ghs j).ownH h = true → (ghs k).ownH h = false
  heldH : ∀ k h, (ghs k).ownH h = true → Huge.isHuge (m.hugeE h) = true
  /-- a whole-huge allocation has an empty bitfield and no open accounts -/
  marker : ∀ h, Huge.isHuge (m.hugeE h) = true → zerosIn g m h = g.hugeFrames ∧ usum n ghs h = 0
  /-- counter + open accounts = zero bits -/
  count : ∀ h, Huge.isHuge (m.hugeE h) = false → m.hugeE h + usum n ghs h = zerosIn g m h
  /-- frames outside the managed range `F` stay allocated and are held by nobody -/
  outside : ∀ f, F ≤ f → m.bit f = true
  outsideOwn : ∀ k f, F ≤ f → (ghs k).ownS f = false

section
variable {α : Type} {strict : Bool} {g : Geom} {n : Nat} {F : Nat} {Post : α → Gh → Prop} {m : Mem} {ths : Nat → Th α} {ghs : Nat → Gh}

/-- **the counters never over-report** (what crash recovery and the huge allocation rely on) -/
theorem LInv.counter_le (inv : LInv strict g n F Post m ths ghs) (h : Nat) (hm : Huge.isHuge (m.hugeE h) = false) :
    m.hugeE h ≤ zerosIn g m h := by
  have := inv.count h hm; omega

theorem LInv.known (inv : LInv strict g n F Post m ths ghs) (k i : Nat) (v : BitVec 64) (hv : m.rows[i]? = some v) :
    Known (ghs k).ownS i v := by
  intro b hb ho
  have := inv.heldS k _ ho
  unfold Mem.bit at this
  have e1 : (i * 64 + b) / 64 = i := by omega
  have e2 : (i * 64 + b) % 64 = b := by omega
  rw [e1, hv, e2] at this
  exact this

theorem LInv.knownE (inv : LInv strict g n F Post m ths ghs) (k : Nat) (hk : k < n) (h : Nat) :
    KnownE g (ghs k) h (m.hugeE h) := by
  refine ⟨inv.heldH k h, fun hm => by have := inv.count h hm; have := zerosIn_le (g := g) m h; omega, fun hpos => ?_⟩
  have hle : (ghs k).u h ≤ usum n ghs h := le_blockSum (fun j => (ghs j).u h) n k hk
  cases hm : Huge.isHuge (m.hugeE h) with
  | true =>
    obtain ⟨hz, hu⟩ := inv.marker h hm
    have := cntH_eq_zero_of_full m (ghs k).ownS h (inv.heldS k) hz
    omega
  | false =>
    refine ⟨rfl, ?_⟩
    have h1 := inv.count h hm
    have h2 := zerosIn_add_cntH_le (g := g) m (ghs k).ownS h (inv.heldS k)
    omega

theorem usum_fupd (ghs : Nat → Gh) (n k : Nat) (hk : k < n) (gh' : Gh) (h : Nat) :
    usum n (fupd ghs k gh') h + (ghs k).u h = usum n ghs h + gh'.u h := by
  unfold usum
  have := blockSum_point (fun j => (ghs j).u h) (fun j => (fupd ghs k gh' j).u h) n k hk
    (fun j hj => by rw [fupd_other _ _ _ _ hj])
  simp only [fupd_same] at this
  exact this

theorem usum_fupd_same (ghs : Nat → Gh) (n k : Nat) (gh' : Gh) (h : Nat) (he : gh'.u h = (ghs k).u h) :
    usum n (fupd ghs k gh') h = usum n ghs h := by
  unfold usum
  apply blockSum_congr
  intro j _
  by_cases e : j = k
  · subst e; simp only [fupd_same]; exact he
  · rw [fupd_other _ _ _ _ e]

theorem fupd_ownS (ghs : Nat → Gh) (k : Nat) (gh' : Gh) :
    (fun j => (fupd ghs k gh' j).ownS) = fupd (fun j => (ghs j).ownS) k gh'.ownS := by
  funext j
  by_cases e : j = k
  · subst e; simp
  · simp [fupd, e]

/-- a step of thread `k` that writes nothing -/
theorem LInv.set_thread (inv : LInv strict g n F Post m ths ghs) (k : Nat) (t' : Th α)
    (hs : Th.SafeL strict g Post (ghs k) t') : LInv strict g n F Post m (fupd ths k t') ghs := by
  refine ⟨?_, inv.disjS, inv.heldS, inv.disjH, inv.heldH, inv.marker, inv.count, inv.outside, inv.outsideOwn⟩
  intro j
  by_cases e : j = k
  · subst e; simp only [fupd_same]; exact hs
  · rw [fupd_other _ _ _ _ e]; exact inv.safe j

/-- a write of the tree array or the slots does not touch what the invariant talks about -/
theorem LInv.other_mem (inv : LInv strict g n F Post m ths ghs) (m' : Mem) (hr : m'.rows = m.rows) (hh : m'.huge = m.huge)
    (k : Nat) (t' : Th α) (hs : Th.SafeL strict g Post (ghs k) t') : LInv strict g n F Post m' (fupd ths k t') ghs := by
  have hbit : ∀ f, m'.bit f = m.bit f := by intro f; unfold Mem.bit; rw [hr]
  have hE : ∀ h, m'.hugeE h = m.hugeE h := by intro h; unfold Mem.hugeE; rw [hh]
  have hz : ∀ h, zerosIn g m' h = zerosIn g m h := fun h => zerosIn_congr g m m' h (fun i _ => hbit _)
  have base := inv.set_thread k t' hs
  refine ⟨base.safe, base.disjS, fun j f hf => by rw [hbit]; exact inv.heldS j f hf, base.disjH,
    fun j h hf => by rw [hE]; exact inv.heldH j h hf, fun h hm => ?_, fun h hm => ?_,
    fun f hf => by rw [hbit]; exact inv.outside f hf, inv.outsideOwn⟩
  · rw [hE] at hm; rw [hz]; exact inv.marker h hm
  · rw [hE] at hm; rw [hE, hz]; exact inv.count h hm

/-- a legal write of row `i` by thread `k` -/
theorem LInv.write_row (okg : GeomOk g) (inv : LInv strict g n F Post m ths ghs) (k : Nat) (hk : k < n) (i : Nat)
    (old new : BitVec 64) (hv : m.rows[i]? = some old) (gh' : Gh) (tr : TransRow g (ghs k) gh' i old new)
    (t' : Th α) (hs : Th.SafeL strict g Post gh' t') :
    LInv strict g n F Post (m.set .row i new) (fupd ths k t') (fupd ghs k gh') := by
  have hi : i < m.rows.size := (Array.getElem?_eq_some_iff.1 hv).1
  obtain ⟨hd, hh⟩ := own_write m (fun j => (ghs j).ownS) inv.disjS inv.heldS k i old new hv gh'.ownS tr.bits
  rw [← fupd_ownS] at hd hh
  have hownH : ∀ j, (fupd ghs k gh' j).ownH = (ghs j).ownH := by
    intro j
    by_cases e : j = k
    · subst e; simp only [fupd_same]; exact tr.ownH
    · rw [fupd_other _ _ _ _ e]
  have hsum := usum_fupd ghs n k hk gh' (i / g.rows)
  have hzero := zerosIn_set_row okg m i old new hv
  have hacct := tr.acct
  have hout : ∀ f, F ≤ f → (m.set .row i new).bit f = true ∧ gh'.ownS f = false := by
    intro f hf
    have hb0 := inv.outside f hf
    have ho0 := inv.outsideOwn k f hf
    rw [Mem.bit_set_row m i new hi]
    by_cases hr : f / 64 = i
    · rw [if_pos hr]
      have hfe : f = i * 64 + f % 64 := by have := Nat.div_add_mod f 64; omega
      have hb : f % 64 < 64 := Nat.mod_lt _ (by decide)
      have hold : old.getLsbD (f % 64) = true := by
        unfold Mem.bit at hb0; rw [hr, hv] at hb0; exact hb0
      cases hn : new.getLsbD (f % 64) with
      | true =>
        refine ⟨rfl, ?_⟩
        have := tr.bits.keep (f % 64) hb (by rw [hold, hn])
        rw [← hfe] at this; rw [this]; exact ho0
      | false =>
        have := (tr.bits.release (f % 64) hb hold hn).1
        rw [← hfe, ho0] at this; cases this
    · rw [if_neg hr]
      exact ⟨hb0, by rw [tr.bits.other f hr]; exact ho0⟩
  refine ⟨?_, hd, hh, ?_, ?_, ?_, ?_, fun f hf => (hout f hf).1, ?_⟩
  rotate_right
  · intro j f hf
    by_cases e : j = k
    · subst e; simp only [fupd_same]; exact (hout f hf).2
    · rw [fupd_other _ _ _ _ e]; exact inv.outsideOwn j f hf
  · intro j
    by_cases e : j = k
    · subst e; simp only [fupd_same]; exact hs
    · rw [fupd_other _ _ _ _ e, fupd_other _ _ _ _ e]; exact inv.safe j
  · intro j1 j2 hne h hf
    rw [hownH] at hf ⊢
    exact inv.disjH j1 j2 hne h hf
  · intro j h hf
    rw [hownH] at hf
    rw [Mem.hugeE_set_row]; exact inv.heldH j h hf
  · intro h hm
    rw [Mem.hugeE_set_row] at hm
    obtain ⟨hz, hu⟩ := inv.marker h hm
    by_cases e : h = i / g.rows
    · subst e
      have hle : (ghs k).u (i / g.rows) ≤ usum n ghs (i / g.rows) := le_blockSum (fun j => (ghs j).u (i / g.rows)) n k hk
      have hold := zerosRow_le old
      have hnew := zerosRow_le new
      -- the row was entirely zero
      have hfull := (zerosIn_eq_full_iff (g := g) m (i / g.rows)).1 hz
      have hold64 : zerosRow old = 64 := by
        unfold zerosRow
        have : (List.range 64).countP (fun b => !old.getLsbD b) = (List.range 64).length := by
          apply List.countP_eq_length.2
          intro b hb
          have hb' : b < 64 := List.mem_range.1 hb
          have hrp := okg.rows_pos
          have hr0 : i % g.rows < g.rows := Nat.mod_lt _ hrp
          have hlt : i % g.rows * 64 + b < g.hugeFrames := by
            have := okg.rows_mul
            have : (i % g.rows + 1) * 64 ≤ g.rows * 64 := Nat.mul_le_mul_right _ hr0
            rw [Nat.add_mul] at this; omega
          have hb0 := hfull (i % g.rows * 64 + b) hlt
          obtain ⟨e1, e2⟩ := frame_of_row okg (i / g.rows) (i % g.rows) b hb'
          unfold Mem.bit at hb0
          have hsplit : i / g.rows * g.rows + i % g.rows = i := by
            have := Nat.div_add_mod i g.rows; rw [Nat.mul_comm] at this; exact this
          rw [e1, hsplit, hv, e2] at hb0
          simp [hb0]
        simpa using this
      constructor <;> omega
    · rw [zerosIn_set_row_other okg m i new hi h e, usum_fupd_same ghs n k gh' h (tr.other h e)]
      exact ⟨hz, hu⟩
  · intro h hm
    rw [Mem.hugeE_set_row] at hm ⊢
    have hc := inv.count h hm
    by_cases e : h = i / g.rows
    · subst e; omega
    · rw [zerosIn_set_row_other okg m i new hi h e, usum_fupd_same ghs n k gh' h (tr.other h e)]
      exact hc

/-- a legal write of table entry `h` by thread `k` -/
theorem LInv.write_huge (hhf : Huge.isHuge g.hugeFrames = false) (inv : LInv strict g n F Post m ths ghs) (k : Nat) (hk : k < n)
    (h : Nat) (old new : Nat) (hv : m.huge[h]? = some old) (gh' : Gh) (tr : TransE g (ghs k) gh' h old new)
    (t' : Th α) (hs : Th.SafeL strict g Post gh' t') :
    LInv strict g n F Post (m.set .huge h new) (fupd ths k t') (fupd ghs k gh') := by
  have hi : h < m.huge.size := (Array.getElem?_eq_some_iff.1 hv).1
  have hold : m.hugeE h = old := by unfold Mem.hugeE; rw [hv]; rfl
  have hE : ∀ x, (m.set .huge h new).hugeE x = if x = h then new else m.hugeE x := Mem.hugeE_set_huge m h new hi
  have hz : ∀ x, zerosIn g (m.set .huge h new) x = zerosIn g m x := fun x => zerosIn_congr g m _ x (fun _ _ => rfl)
  have hbit : ∀ f, (m.set .huge h new).bit f = m.bit f := fun _ => rfl
  have hsafe : ∀ j, Th.SafeL strict g Post (fupd ghs k gh' j) (fupd ths k t' j) := by
    intro j
    by_cases e : j = k
    · subst e; simp only [fupd_same]; exact hs
    · rw [fupd_other _ _ _ _ e, fupd_other _ _ _ _ e]; exact inv.safe j
  have hS : gh'.ownS = (ghs k).ownS := by cases tr with
    | counter _ _ _ _ s _ => exact s
    | take _ _ s _ _ => exact s
    | give _ _ _ s _ _ => exact s
  have hownS : ∀ j, (fupd ghs k gh' j).ownS = (ghs j).ownS := by
    intro j
    by_cases e : j = k
    · subst e; simp only [fupd_same]; exact hS
    · rw [fupd_other _ _ _ _ e]
  have hdS : ∀ j1 j2, j1 ≠ j2 → ∀ f, (fupd ghs k gh' j1).ownS f = true → (fupd ghs k gh' j2).ownS f = false := by
    intro j1 j2 hne f hf; rw [hownS] at hf ⊢; exact inv.disjS j1 j2 hne f hf
  have hhS : ∀ j f, (fupd ghs k gh' j).ownS f = true → (m.set .huge h new).bit f = true := by
    intro j f hf; rw [hownS] at hf; rw [hbit]; exact inv.heldS j f hf
  cases tr with
  | counter h1 h2 acct other s hh =>
    have hownH : ∀ j, (fupd ghs k gh' j).ownH = (ghs j).ownH := by
      intro j
      by_cases e : j = k
      · subst e; simp only [fupd_same]; exact hh
      · rw [fupd_other _ _ _ _ e]
    have hsum := usum_fupd ghs n k hk gh' h
    refine ⟨hsafe, hdS, hhS, ?_, ?_, ?_, ?_, fun f hf => by rw [hbit]; exact inv.outside f hf,
      fun j f hf => by rw [hownS]; exact inv.outsideOwn j f hf⟩
    · intro j1 j2 hne x hf; rw [hownH] at hf ⊢; exact inv.disjH j1 j2 hne x hf
    · intro j x hf
      rw [hownH] at hf
      have := inv.heldH j x hf
      rw [hE]
      by_cases e : x = h
      · subst e; rw [hold, h1] at this; cases this
      · rw [if_neg e]; exact this
    · intro x hm
      rw [hE] at hm
      by_cases e : x = h
      · subst e; rw [if_pos rfl, h2] at hm; cases hm
      · rw [if_neg e] at hm
        rw [hz, usum_fupd_same ghs n k gh' x (other x e)]
        exact inv.marker x hm
    · intro x hm
      rw [hE] at hm ⊢
      by_cases e : x = h
      · subst e
        rw [if_pos rfl, hz]
        have := inv.count x (by rw [hold]; exact h1)
        rw [hold] at this
        omega
      · rw [if_neg e] at hm ⊢
        rw [hz, usum_fupd_same ghs n k gh' x (other x e)]
        exact inv.count x hm
  | take h1 h2 s u hh =>
    have hsum : ∀ x, usum n (fupd ghs k gh') x = usum n ghs x := fun x => usum_fupd_same ghs n k gh' x (by rw [u])
    have hnot : Huge.isHuge (m.hugeE h) = false := by rw [hold, h1]; exact hhf
    have hnone : ∀ j, (ghs j).ownH h = false := by
      intro j
      cases ho : (ghs j).ownH h with
      | false => rfl
      | true => have := inv.heldH j h ho; rw [hnot] at this; cases this
    have hownH : ∀ j x, (fupd ghs k gh' j).ownH x = if j = k then ((ghs k).ownH x || decide (x = h)) else (ghs j).ownH x := by
      intro j x
      by_cases e : j = k
      · subst e; simp only [fupd_same, if_true]; exact hh x
      · rw [fupd_other _ _ _ _ e, if_neg e]
    refine ⟨hsafe, hdS, hhS, ?_, ?_, ?_, ?_, fun f hf => by rw [hbit]; exact inv.outside f hf,
      fun j f hf => by rw [hownS]; exact inv.outsideOwn j f hf⟩
    · intro j1 j2 hne x hf
      rw [hownH] at hf ⊢
      by_cases e1 : j1 = k
      · rw [if_pos e1] at hf
        rw [if_neg (fun e2 => hne (e1.trans e2.symm))]
        simp only [Bool.or_eq_true, decide_eq_true_eq] at hf
        rcases hf with hf | hf
        · exact inv.disjH k j2 (fun e => hne (e1.trans e)) x hf
        · rw [hf]; exact hnone j2
      · rw [if_neg e1] at hf
        by_cases e2 : j2 = k
        · rw [if_pos e2]
          have h1' := inv.disjH j1 k e1 x hf
          have : x ≠ h := fun e => by rw [e, hnone j1] at hf; cases hf
          simp [h1', this]
        · rw [if_neg e2]; exact inv.disjH j1 j2 hne x hf
    · intro j x hf
      rw [hownH] at hf
      rw [hE]
      by_cases e : x = h
      · rw [if_pos e]; exact h2
      · rw [if_neg e]
        by_cases e1 : j = k
        · rw [if_pos e1] at hf
          simp only [Bool.or_eq_true, decide_eq_true_eq] at hf
          rcases hf with hf | hf
          · exact inv.heldH k x hf
          · exact absurd hf e
        · rw [if_neg e1] at hf; exact inv.heldH j x hf
    · intro x hm
      rw [hE] at hm
      rw [hz, hsum]
      by_cases e : x = h
      · subst e
        have hc := inv.count x hnot
        have hle := zerosIn_le (g := g) m x
        rw [hold, h1] at hc
        constructor <;> omega
      · rw [if_neg e] at hm; exact inv.marker x hm
    · intro x hm
      rw [hE] at hm ⊢
      by_cases e : x = h
      · rw [if_pos e, h2] at hm; cases hm
      · rw [if_neg e] at hm ⊢; rw [hz, hsum]; exact inv.count x hm
  | give h1 h2 h3 s u hh =>
    have hsum : ∀ x, usum n (fupd ghs k gh') x = usum n ghs x := fun x => usum_fupd_same ghs n k gh' x (by rw [u])
    have hwas : Huge.isHuge (m.hugeE h) = true := by rw [hold]; exact h1
    have hownH : ∀ j x, (fupd ghs k gh' j).ownH x = if j = k then ((ghs k).ownH x && !decide (x = h)) else (ghs j).ownH x := by
      intro j x
      by_cases e : j = k
      · subst e; simp only [fupd_same, if_true]; exact hh x
      · rw [fupd_other _ _ _ _ e, if_neg e]
    have hsub : ∀ j x, (fupd ghs k gh' j).ownH x = true → (ghs j).ownH x = true ∧ x ≠ h := by
      intro j x hf
      rw [hownH] at hf
      by_cases e1 : j = k
      · rw [if_pos e1] at hf
        simp only [Bool.and_eq_true, Bool.not_eq_true', decide_eq_false_iff_not] at hf
        rw [e1]; exact hf
      · rw [if_neg e1] at hf
        refine ⟨hf, fun e => ?_⟩
        rw [e] at hf
        have := inv.disjH k j (fun x => e1 x.symm) h h3
        rw [this] at hf; cases hf
    refine ⟨hsafe, hdS, hhS, ?_, ?_, ?_, ?_, fun f hf => by rw [hbit]; exact inv.outside f hf,
      fun j f hf => by rw [hownS]; exact inv.outsideOwn j f hf⟩
    · intro j1 j2 hne x hf
      obtain ⟨hf1, hx⟩ := hsub j1 x hf
      have := inv.disjH j1 j2 hne x hf1
      rw [hownH]
      by_cases e2 : j2 = k
      · rw [if_pos e2]; rw [e2] at this; simp [this]
      · rw [if_neg e2]; exact this
    · intro j x hf
      obtain ⟨hf1, hx⟩ := hsub j x hf
      rw [hE, if_neg hx]; exact inv.heldH j x hf1
    · intro x hm
      rw [hE] at hm
      by_cases e : x = h
      · rw [if_pos e, h2, hhf] at hm; cases hm
      · rw [if_neg e] at hm; rw [hz, hsum]; exact inv.marker x hm
    · intro x hm
      rw [hE] at hm ⊢
      rw [hz, hsum]
      by_cases e : x = h
      · subst e
        rw [if_pos rfl, h2]
        obtain ⟨hzz, hu⟩ := inv.marker x hwas
        omega
      · rw [if_neg e] at hm ⊢; exact inv.count x hm

theorem LInv.knownE' (inv : LInv strict g n F Post m ths ghs) (k : Nat) (hk : k < n) (h e : Nat) (hv : m.huge[h]? = some e) :
    KnownE g (ghs k) h e := by
  have := inv.knownE k hk h
  have he : m.hugeE h = e := by unfold Mem.hugeE; rw [hv]; rfl
  rw [he] at this; exact this

/-- the thread state after the load of an `update` loop -/
theorem afterUpdL_row (gh : Gh) (i : Nat) (f : BitVec 64 → Upd (BitVec 64))
    (c : Except (BitVec 64) (BitVec 64) → Prog α) (o : BitVec 64) (hk : Known gh.ownS i o)
    (hp : SafeL strict g Post gh (.upd .row i f c)) :
    Th.SafeL strict g Post gh (Th.afterUpd .row i f o c) := by
  have h1 := hp o hk
  unfold Th.afterUpd
  cases hf : f o with
  | skip => rw [hf] at h1; exact h1
  | set v => rw [hf] at h1; exact ⟨h1, hp⟩
  | panic s => rw [hf] at h1; exact h1

theorem afterUpdL_huge (gh : Gh) (i : Nat) (f : Nat → Upd Nat)
    (c : Except Nat Nat → Prog α) (o : Nat) (hk : KnownE g gh i o)
    (hp : SafeL strict g Post gh (.upd .huge i f c)) :
    Th.SafeL strict g Post gh (Th.afterUpd .huge i f o c) := by
  have h1 := hp o hk
  unfold Th.afterUpd
  cases hf : f o with
  | skip => rw [hf] at h1; exact h1
  | set v => rw [hf] at h1; exact ⟨h1, hp⟩
  | panic s => rw [hf] at h1; exact h1

theorem afterUpdL_tree (gh : Gh) (i : Nat) (f : Tree → Upd Tree)
    (c : Except Tree Tree → Prog α) (o : Tree)
    (hp : SafeL strict g Post gh (.upd .tree i f c)) :
    Th.SafeL strict g Post gh (Th.afterUpd .tree i f o c) := by
  have h1 := hp o
  unfold Th.afterUpd
  cases hf : f o with
  | skip => rw [hf] at h1; exact h1
  | set v => rw [hf] at h1; exact ⟨h1, hp⟩
  | panic s => rw [hf] at h1; exact h1

theorem afterUpdL_slot (gh : Gh) (i : Nat) (f : Kind.slot.Val → Upd Kind.slot.Val)
    (c : Except Kind.slot.Val Kind.slot.Val → Prog α) (o : Kind.slot.Val)
    (hp : SafeL strict g Post gh (.upd .slot i f c)) :
    Th.SafeL strict g Post gh (Th.afterUpd .slot i f o c) := by
  have h1 := hp o
  unfold Th.afterUpd
  cases hf : f o with
  | skip => rw [hf] at h1; exact h1
  | set v => rw [hf] at h1; exact ⟨h1, hp⟩
  | panic s => rw [hf] at h1; exact h1

/-- **Every atomic step of every thread preserves the invariant**; no step panics (other than
    by an index outside the buffers), and a finished thread satisfies its postcondition. -/
theorem LInv.step (okg : GeomOk g) (hhf : Huge.isHuge g.hugeFrames = false)
    (inv : LInv strict g n F Post m ths ghs) (k : Nat) (hk : k < n) :
    match (ths k).step m with
    | .done a => Post a (ghs k)
    | .dead s => s = oobMsg ∨ (strict = false ∧ UpperMsg s)
    | .step t' m' _ => ∃ gh', LInv strict g n F Post m' (fupd ths k t') (fupd ghs k gh') := by
  have hs := inv.safe k
  have self : ∀ t', Th.SafeL strict g Post (ghs k) t' → ∃ gh', LInv strict g n F Post m (fupd ths k t') (fupd ghs k gh') := by
    intro t' h; exact ⟨ghs k, by rw [fupd_self]; exact inv.set_thread k t' h⟩
  have selfm : ∀ m' t', m'.rows = m.rows → m'.huge = m.huge → Th.SafeL strict g Post (ghs k) t' →
      ∃ gh', LInv strict g n F Post m' (fupd ths k t') (fupd ghs k gh') := by
    intro m' t' h1 h2 h; exact ⟨ghs k, by rw [fupd_self]; exact inv.other_mem m' h1 h2 k t' h⟩
  cases ht : ths k with
  | «at» p =>
    rw [ht] at hs
    cases p with
    | ret a => exact hs
    | panic s => exact Or.inr hs
    | load kd i c =>
      simp only [Th.step]
      cases hv : m.get? kd i with
      | none => exact Or.inl rfl
      | some v =>
        simp only
        cases kd with
        | row => exact self _ (hs v (inv.known k i v (by simpa using hv)))
        | huge => exact self _ (hs v (inv.knownE' k hk i v (by simpa using hv)))
        | tree => exact self _ (hs v)
        | slot => exact self _ (hs v)
    | store kd i v c =>
      cases kd with
      | row => exact hs.elim
      | huge => exact hs.elim
      | tree =>
        simp only [Th.step]
        cases hv : m.get? .tree i with
        | none => exact Or.inl rfl
        | some o => exact selfm _ _ rfl rfl hs
      | slot =>
        simp only [Th.step]
        cases hv : m.get? .slot i with
        | none => exact Or.inl rfl
        | some o => exact selfm _ _ rfl rfl hs
    | swap kd i v c =>
      cases kd with
      | row => exact hs.elim
      | huge => exact hs.elim
      | tree =>
        simp only [Th.step]
        cases hv : m.get? .tree i with
        | none => exact Or.inl rfl
        | some o => exact selfm _ _ rfl rfl (hs o)
      | slot =>
        simp only [Th.step]
        cases hv : m.get? .slot i with
        | none => exact Or.inl rfl
        | some o => exact selfm _ _ rfl rfl (hs o)
    | cas kd i e nw c =>
      cases kd with
      | row =>
        simp only [Th.step]
        cases hv : m.get? .row i with
        | none => exact Or.inl rfl
        | some o =>
          simp only
          have hkn := inv.known k i o (by simpa using hv)
          obtain ⟨h1, h2⟩ := hs o hkn
          by_cases he : o = e
          · simp only [he, if_true]
            obtain ⟨gh', tr, hsafe⟩ := h1 he
            subst he
            exact ⟨gh', inv.write_row okg k hk i o nw (by simpa using hv) gh' tr _ hsafe⟩
          · simp only [he, if_false]
            exact self _ (h2 he)
      | huge =>
        simp only [Th.step]
        cases hv : m.get? .huge i with
        | none => exact Or.inl rfl
        | some o =>
          simp only
          have hkn := inv.knownE' k hk i o (by simpa using hv)
          obtain ⟨h1, h2⟩ := hs o hkn
          by_cases he : o = e
          · simp only [he, if_true]
            obtain ⟨gh', tr, hsafe⟩ := h1 he
            subst he
            exact ⟨gh', inv.write_huge hhf k hk i o nw (by simpa using hv) gh' tr _ hsafe⟩
          · simp only [he, if_false]
            exact self _ (h2 he)
      | tree =>
        simp only [Th.step]
        cases hv : m.get? .tree i with
        | none => exact Or.inl rfl
        | some o =>
          simp only
          by_cases he : o = e
          · simp only [he, if_true]; exact selfm _ _ rfl rfl (hs _)
          · simp only [he, if_false]; exact self _ (hs _)
      | slot =>
        simp only [Th.step]
        cases hv : m.get? .slot i with
        | none => exact Or.inl rfl
        | some o =>
          simp only
          by_cases he : o = e
          · simp only [he, if_true]; exact selfm _ _ rfl rfl (hs _)
          · simp only [he, if_false]; exact self _ (hs _)
    | casPart i sh w e nw c =>
      simp only [Th.step]
      cases hv : m.get? .row i with
      | none => exact Or.inl rfl
      | some o =>
        simp only
        have hkn := inv.known k i o (by simpa using hv)
        obtain ⟨h1, h2⟩ := hs o hkn
        cases hc : casPartVal o sh w e nw with
        | none => exact self _ (h2 hc)
        | some r =>
          obtain ⟨gh', tr, hsafe⟩ := h1 r hc
          exact ⟨gh', inv.write_row okg k hk i o r (by simpa using hv) gh' tr _ hsafe⟩
    | upd kd i f c =>
      cases kd with
      | row =>
        simp only [Th.step]
        cases hv : m.get? .row i with
        | none => exact Or.inl rfl
        | some o =>
          simp only
          exact self _ (afterUpdL_row (ghs k) i f c o (inv.known k i o (by simpa using hv)) hs)
      | huge =>
        simp only [Th.step]
        cases hv : m.get? .huge i with
        | none => exact Or.inl rfl
        | some o =>
          simp only
          exact self _ (afterUpdL_huge (ghs k) i f c o (inv.knownE' k hk i o (by simpa using hv)) hs)
      | tree =>
        simp only [Th.step]
        cases hv : m.get? .tree i with
        | none => exact Or.inl rfl
        | some o => simp only; exact self _ (afterUpdL_tree (ghs k) i f c o hs)
      | slot =>
        simp only [Th.step]
        cases hv : m.get? .slot i with
        | none => exact Or.inl rfl
        | some o => simp only; exact self _ (afterUpdL_slot (ghs k) i f c o hs)
  | updCas kd i f cur new c =>
    rw [ht] at hs
    cases kd with
    | row =>
      obtain ⟨⟨gh', tr, hsafe⟩, hupd⟩ := hs
      simp only [Th.step]
      cases hv : m.get? .row i with
      | none => exact Or.inl rfl
      | some o =>
        simp only
        by_cases he : o = cur
        · simp only [he, if_true]
          subst he
          exact ⟨gh', inv.write_row okg k hk i o new (by simpa using hv) gh' tr _ hsafe⟩
        · simp only [he, if_false]
          exact self _ (afterUpdL_row (ghs k) i f c o (inv.known k i o (by simpa using hv)) hupd)
    | huge =>
      obtain ⟨⟨gh', tr, hsafe⟩, hupd⟩ := hs
      simp only [Th.step]
      cases hv : m.get? .huge i with
      | none => exact Or.inl rfl
      | some o =>
        simp only
        by_cases he : o = cur
        · simp only [he, if_true]
          subst he
          exact ⟨gh', inv.write_huge hhf k hk i o new (by simpa using hv) gh' tr _ hsafe⟩
        · simp only [he, if_false]
          exact self _ (afterUpdL_huge (ghs k) i f c o (inv.knownE' k hk i o (by simpa using hv)) hupd)
    | tree =>
      obtain ⟨hsafe, hupd⟩ := hs
      simp only [Th.step]
      cases hv : m.get? .tree i with
      | none => exact Or.inl rfl
      | some o =>
        simp only
        by_cases he : o = cur
        · simp only [he, if_true]; subst he; exact selfm _ _ rfl rfl hsafe
        · simp only [he, if_false]; exact self _ (afterUpdL_tree (ghs k) i f c o hupd)
    | slot =>
      obtain ⟨hsafe, hupd⟩ := hs
      simp only [Th.step]
      cases hv : m.get? .slot i with
      | none => exact Or.inl rfl
      | some o =>
        simp only
        by_cases he : o = cur
        · simp only [he, if_true]; subst he; exact selfm _ _ rfl rfl hsafe
        · simp only [he, if_false]; exact self _ (afterUpdL_slot (ghs k) i f c o hupd)

/-- **The invariant holds in every state of every interleaving** of the `n` threads. -/
theorem LInv.run (okg : GeomOk g) (hhf : Huge.isHuge g.hugeFrames = false) (sched : List Nat) (hsched : ∀ k ∈ sched, k < n) :
    ∀ (m : Mem) (ths : Nat → Th α) (ghs : Nat → Gh), LInv strict g n F Post m ths ghs →
      ∃ ghs', LInv strict g n F Post (concRun sched (m, ths)).1 (concRun sched (m, ths)).2 ghs' := by
  induction sched with
  | nil => exact fun m ths ghs inv => ⟨ghs, inv⟩
  | cons k rest ih =>
    intro m ths ghs inv
    unfold concRun
    simp only [List.foldl_cons]
    have hk : k < n := hsched k List.mem_cons_self
    have hrest : ∀ j ∈ rest, j < n := fun j hj => hsched j (List.mem_cons_of_mem _ hj)
    have hstep := inv.step okg hhf k hk
    unfold concStep
    simp only
    cases hs : (ths k).step m with
    | done a => simp only; exact ih hrest m ths ghs inv
    | dead s => simp only; exact ih hrest m ths ghs inv
    | step t' m' a =>
      rw [hs] at hstep
      obtain ⟨gh', inv'⟩ := hstep
      exact ih hrest m' (fupd ths k t') (fupd ghs k gh') inv'

end
end LLFree
