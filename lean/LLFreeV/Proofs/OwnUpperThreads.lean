/-
  Any number of threads calling the public interface — `LLFree::get` (with or without a target
  frame, every order, every path: local reservations, tree search, stealing, demotion),
  `LLFree::put` of blocks they hold (at their allocation order) and `LLFree::drain` — in any interleaving,
  started from ANY contents of the volatile tree array and local slots:

  * every successful allocation returns a block no thread holds: small/small, huge/huge and
    small/huge blocks never overlap,
  * counters never over-report, every reachable state is a legal crash image, and recovery from
    it keeps every holding allocated.

  Panics of upper-level consistency checks are tolerated here (`SafeL false`: a thread that traps
  keeps what it holds); that they do not occur is C03/C09, not C01.
-/
import LLFreeV.Proofs.OwnUpper
import LLFreeV.Proofs.OwnLowerThreads
namespace LLFree
open Prog

/-- facts about holdings and counters that follow from the invariant alone -/
structure ConcFacts (g : Geom) (F : Nat) (m : Mem) (ghs : Nat → Gh) : Prop where
  disjS : ∀ j k, j ≠ k → ∀ f, (ghs j).ownS f = true → (ghs k).ownS f = false
  disjH : ∀ j k, j ≠ k → ∀ h, (ghs j).ownH h = true → (ghs k).ownH h = false
  disjSH : ∀ j k f, (ghs j).ownS f = true → (ghs k).ownH (f / g.hugeFrames) = false
  heldS : ∀ k f, (ghs k).ownS f = true → m.bit f = true
  heldH : ∀ k h, (ghs k).ownH h = true → Huge.isHuge (m.hugeE h) = true
  counter_le : ∀ h, Huge.isHuge (m.hugeE h) = false → m.hugeE h ≤ zerosIn g m h
  marker : ∀ h, Huge.isHuge (m.hugeE h) = true → zerosIn g m h = g.hugeFrames
  /-- every held block lies inside the managed range `F` -/
  inRangeS : ∀ k f, (ghs k).ownS f = true → f < F
  inRangeH : ∀ k h, (ghs k).ownH h = true → (h + 1) * g.hugeFrames ≤ F

theorem LInv.facts {α : Type} {strict : Bool} {g : Geom} (okg : GeomOk g) {n F : Nat} {Post : α → Gh → Prop} {m : Mem}
    {ths : Nat → Th α} {ghs : Nat → Gh} (I : LInv strict g n F Post m ths ghs) : ConcFacts g F m ghs := by
  refine ⟨I.disjS, I.disjH, ?_, I.heldS, I.heldH, fun h hm => I.counter_le h hm, fun h hm => (I.marker h hm).1, ?_, ?_⟩
  rotate_left
  · intro k f hf
    refine Nat.lt_of_not_le (fun hge => ?_)
    rw [I.outsideOwn k f hge] at hf; cases hf
  · intro k h hH
    have hz := (I.marker h (I.heldH k h hH)).1
    have hall := (zerosIn_eq_full_iff m h).1 hz
    have hpos := okg.hf_pos
    refine Nat.le_of_not_lt (fun hlt => ?_)
    have h1 := hall (g.hugeFrames - 1) (by omega)
    have h2 := I.outside (h * g.hugeFrames + (g.hugeFrames - 1)) (by rw [Nat.add_mul] at hlt; omega)
    rw [h1] at h2; cases h2
  intro j k f hf
  cases hH : (ghs k).ownH (f / g.hugeFrames) with
  | false => rfl
  | true =>
    have hz := (I.marker _ (I.heldH k _ hH)).1
    have hall := (zerosIn_eq_full_iff m (f / g.hugeFrames)).1 hz (f % g.hugeFrames) (Nat.mod_lt _ okg.hf_pos)
    rw [frame_split] at hall
    rw [I.heldS j f hf] at hall; cases hall

/-- recovery from a state satisfying the invariant keeps every holding -/
theorem LInv.recovers {α : Type} {c : Cfg} (ok : GeomOk16 c.geom) {n : Nat} {Post : α → Gh → Prop} {m : Mem}
    {ths : Nat → Th α} {ghs : Nat → Gh} (I : LInv true c.geom n c.frames Post m ths ghs ∨ LInv false c.geom n c.frames Post m ths ghs)
    (hr : m.rows.size = c.nhuge * c.geom.rows) (hh : m.huge.size = c.ntrees * c.geom.treeHuge) (ht : m.trees.size = c.ntrees) :
    Runs m (Lower.recover c.geom c.ntrees c.nhuge) (fun _ m'' => LowerInv c m'' ∧
      (∀ k f, (ghs k).ownS f = true → m''.bit f = true) ∧
      (∀ k h, (ghs k).ownH h = true → Huge.isHuge (m''.hugeE h) = true)) := by
  have okg := ok.toGeomOk
  have key : ∀ (s : Bool), LInv s c.geom n c.frames Post m ths ghs → Runs m (Lower.recover c.geom c.ntrees c.nhuge) (fun _ m'' => LowerInv c m'' ∧
      (∀ k f, (ghs k).ownS f = true → m''.bit f = true) ∧
      (∀ k h, (ghs k).ownH h = true → Huge.isHuge (m''.hugeE h) = true)) := by
    intro s I
    have ci : CrashInv c m := by
      cases s with
      | true => exact I.crashInv okg hr hh
      | false =>
        -- `crashInv` does not depend on the mode: rebuild the `true` instance's proof inline
        have hbeyond : ∀ h, c.nhuge ≤ h → zerosIn c.geom m h = 0 := by
          intro h hh'
          unfold zerosIn
          apply List.countP_eq_zero.2
          intro i hi
          have hrow : m.rows[(h * c.geom.hugeFrames + i) / 64]? = none := by
            apply Array.getElem?_eq_none
            rw [hr, okg.frame_row]
            have : c.nhuge * c.geom.rows ≤ h * c.geom.rows := Nat.mul_le_mul_right _ hh'
            omega
          unfold Mem.bit
          rw [hrow]; simp
        refine ⟨hr, hh, ?_, ?_, I.outside⟩
        · intro h hge
          have hz := hbeyond h hge
          cases hm : Huge.isHuge (m.hugeE h) with
          | true => have := (I.marker h hm).1; have := okg.hf_pos; omega
          | false => have := I.count h hm; omega
        · intro h _ hm
          have hz := (I.marker h hm).1
          have hall := (zerosIn_eq_full_iff m h).1 hz
          have hpos := okg.hf_pos
          refine Nat.le_of_not_lt (fun hlt => ?_)
          have h1 := hall (c.geom.hugeFrames - 1) (by omega)
          have h2 := I.outside (h * c.geom.hugeFrames + (c.geom.hugeFrames - 1)) (by rw [Nat.add_mul] at hlt; omega)
          rw [h1] at h2; cases h2
    have F := I.facts okg
    apply Runs.mono (recover_spec ok _ ci ht)
    rintro _ m'' ⟨hinv, hmark, hbits, _, _⟩
    refine ⟨hinv, ?_, ?_⟩
    · intro k f hf
      have hset := F.heldS k f hf
      have hnm : Huge.isHuge (m.hugeE (f / c.geom.hugeFrames)) = false := by
        cases hm : Huge.isHuge (m.hugeE (f / c.geom.hugeFrames)) with
        | false => rfl
        | true =>
          have hall := (zerosIn_eq_full_iff _ (f / c.geom.hugeFrames)).1 (F.marker _ hm) (f % c.geom.hugeFrames) (Nat.mod_lt _ okg.hf_pos)
          rw [frame_split] at hall
          rw [hset] at hall; cases hall
      rw [hbits f hnm]; exact hset
    · intro k h hH
      rw [hmark h]; exact F.heldH k h hH
  rcases I with I | I
  · exact key true I
  · exact key false I

/-- commands of a thread at the public interface -/
inductive UCmd where
  | get (frame : Option Nat) (r : Request)
  | putS (idx : Nat) (cls : Nat) (loc : Option Nat)
  | putH (idx : Nat) (cls : Nat) (loc : Option Nat)
  | drain

def runU (c : Cfg) : List UCmd → Held → Prog Held
  | [], held => pure held
  | .get frame r :: rest, held => do
    let res ← get c frame r
    match res with
    | .ok (f, _) =>
      if r.order < c.geom.hugeOrder then runU c rest { held with small := ⟨f / c.geom.hugeFrames, f, r.order⟩ :: held.small }
      else runU c rest { held with huge := ⟨f, r.order⟩ :: held.huge }
    | .error _ => runU c rest held
  | .putS idx cls loc :: rest, held =>
    match held.small[idx]? with
    | some b => do
      let res ← put c b.i ⟨b.order, cls, loc⟩
      match res with
      | .ok _ => runU c rest { held with small := held.small.eraseIdx idx }
      | .error _ => runU c rest held
    | none => runU c rest held
  | .putH idx cls loc :: rest, held =>
    match held.huge[idx]? with
    | some b => do
      let res ← put c b.frame ⟨b.order, cls, loc⟩
      match res with
      | .ok _ => runU c rest { held with huge := held.huge.eraseIdx idx }
      | .error _ => runU c rest held
    | none => runU c rest held
  | .drain :: rest, held => do
    drain c
    runU c rest held

/-- **A thread at the public interface is safe** (panic-tolerant), whatever the others do and
    whatever the volatile arrays contain. -/
theorem runU_safe {c : Cfg} (ok : GeomOk16 c.geom) (cmds : List UCmd) :
    ∀ (held : Held), HeldOkL c.geom held →
      SafeL false c.geom (fun held' gh' => gh' = ghOf c.geom held' ∧ HeldOkL c.geom held') (ghOf c.geom held) (runU c cmds held) := by
  have okg := ok.toGeomOk
  induction cmds with
  | nil => intro held hok; exact ⟨rfl, hok⟩
  | cons cmd rest ih =>
    intro held hok
    cases cmd with
    | get frame r =>
      unfold runU
      apply SafeL.bind _ _ _ (get_L c ok (ghOf c.geom held) frame r)
      intro res gh1 h1
      cases res with
      | error e => have h1' : gh1 = ghOf c.geom held := h1; rw [h1']; exact ih held hok
      | ok x =>
        obtain ⟨f, k⟩ := x
        have hb : GotBlock c.geom (ghOf c.geom held) r.order f gh1 := h1
        unfold GotBlock at hb
        simp only
        by_cases ho : r.order < c.geom.hugeOrder
        · rw [if_pos ho] at hb ⊢
          obtain ⟨hal, h1, hnone⟩ := hb
          rw [h1, ghOf_addS]
          apply ih
          have hsm : SmallOk c.geom ⟨f / c.geom.hugeFrames, f, r.order⟩ := ⟨ho, hal, rfl⟩
          refine ⟨⟨⟨by show r.order ≤ c.geom.hugeOrder; omega, aligned_mod_hf okg f r.order (by omega) hal⟩, ?_, hok.1⟩, ?_, hok.2.2⟩
          · intro x hx
            unfold Blk.has at hx
            rw [blk_start _ hsm] at hx
            exact hnone x hx
          · intro b hb
            rcases List.mem_cons.1 hb with e | e
            · rw [e]; exact hsm
            · exact hok.2.1 b e
        · rw [if_neg ho] at hb ⊢
          obtain ⟨_, hfit, h1, hnone⟩ := hb
          rw [h1, ghOf_addH]
          apply ih
          exact ⟨hok.1, hok.2.1, ⟨Nat.le_of_not_lt ho, hfit⟩, hnone, hok.2.2⟩
    | putS idx cls loc =>
      unfold runU
      cases hg : held.small[idx]? with
      | none => exact ih held hok
      | some b =>
        simp only
        have hbm : b ∈ held.small := List.mem_of_getElem? hg
        have hsm := hok.2.1 b hbm
        have hst := blk_start b hsm
        have hheld : HoldsBlock c.geom (ghOf c.geom held) b.order b.i := by
          unfold HoldsBlock; rw [if_pos hsm.1]
          exact fun f hf => ownedBy_of_mem c.geom held.small b hbm f (by unfold Blk.has; rw [hst]; exact hf)
        apply SafeL.bind _ _ _ (put_L c ok (ghOf c.geom held) b.i ⟨b.order, cls, loc⟩ hheld)
        intro res gh1 h1
        cases res with
        | error e => have h1' : gh1 = ghOf c.geom held := h1; rw [h1']; exact ih held hok
        | ok u =>
          have h1' : gh1 = dropBlock c.geom (ghOf c.geom held) b.order b.i := h1
          unfold dropBlock at h1'
          rw [if_pos hsm.1] at h1'
          simp only
          obtain ⟨e1, e2⟩ := ownedBy_eraseIdx c.geom held.small idx b hok.1 hg
          have : gh1 = ghOf c.geom { held with small := held.small.eraseIdx idx } := by
            rw [h1']
            refine Gh.ext' _ _ ?_ rfl (fun _ => rfl)
            show subBlock (ownedBy c.geom held.small) b.i (2 ^ b.order) = ownedBy c.geom (held.small.eraseIdx idx)
            rw [e1, hst]
          rw [this]
          apply ih
          exact ⟨e2, fun b' hb' => hok.2.1 b' (List.mem_of_mem_eraseIdx hb'), hok.2.2⟩
    | drain =>
      unfold runU
      apply SafeL.bind _ _ _ (Neut.safeL (ghOf c.geom held) _ (drain_neut c))
      rintro _ gh1 ⟨rfl, _⟩
      exact ih held hok
    | putH idx cls loc =>
      unfold runU
      cases hg : held.huge[idx]? with
      | none => exact ih held hok
      | some b =>
        simp only
        have hbm : b ∈ held.huge := List.mem_of_getElem? hg
        have hbok := hok.2.2.mem b hbm
        have hnot : ¬ b.order < c.geom.hugeOrder := Nat.not_lt.2 hbok.1
        have hheld : HoldsBlock c.geom (ghOf c.geom held) b.order b.frame := by
          unfold HoldsBlock; rw [if_neg hnot]
          exact ⟨hbok.2, fun x hx => ownedHBy_of_mem c.geom held.huge b hbm x hx⟩
        apply SafeL.bind _ _ _ (put_L c ok (ghOf c.geom held) b.frame ⟨b.order, cls, loc⟩ hheld)
        intro res gh1 h1
        cases res with
        | error e => have h1' : gh1 = ghOf c.geom held := h1; rw [h1']; exact ih held hok
        | ok u =>
          have h1' : gh1 = dropBlock c.geom (ghOf c.geom held) b.order b.frame := h1
          unfold dropBlock at h1'
          rw [if_neg hnot] at h1'
          simp only
          obtain ⟨e1, e2⟩ := ownedHBy_eraseIdx c.geom held.huge idx b hok.2.2 hg
          have : gh1 = ghOf c.geom { held with huge := held.huge.eraseIdx idx } := by
            rw [h1']
            refine Gh.ext' _ _ rfl ?_ (fun _ => rfl)
            funext x
            show (ownedHBy c.geom held.huge x && !inBlockF (b.frame / c.geom.hugeFrames) (2 ^ (b.order - c.geom.hugeOrder)) x) =
              ownedHBy c.geom (held.huge.eraseIdx idx) x
            rw [e1 x]; rfl
          rw [this]
          apply ih
          exact ⟨hok.1, hok.2.1, e2⟩


/-- a quiescent lower state with `n` threads about to run programs that are safe from the empty
    holdings satisfies the invariant — whatever the tree array and the slots contain -/
theorem LInv.init_gen {α : Type} {c : Cfg} (ok : GeomOk16 c.geom) (m : Mem) (inv : LowerInv c m) (n : Nat) (strict : Bool)
    (Post : α → Gh → Prop) (progs : Nat → Prog α)
    (hs : ∀ k, SafeL strict c.geom Post (ghOf c.geom ⟨[], []⟩) (progs k)) :
    LInv strict c.geom n c.frames Post m (fun k => Th.at (progs k)) (fun _ => ghOf c.geom ⟨[], []⟩) := by
  have okg := ok.toGeomOk
  have hus : ∀ h, usum n (fun _ => ghOf c.geom ⟨[], []⟩) h = 0 := fun h => blockSum_zero n
  have hbeyond : ∀ h, c.nhuge ≤ h → zerosIn c.geom m h = 0 := by
    intro h hh
    unfold zerosIn
    apply List.countP_eq_zero.2
    intro i hi
    have hrow : m.rows[(h * c.geom.hugeFrames + i) / 64]? = none := by
      apply Array.getElem?_eq_none
      rw [inv.rowsSize, okg.frame_row]
      have : c.nhuge * c.geom.rows ≤ h * c.geom.rows := Nat.mul_le_mul_right _ hh
      omega
    unfold Mem.bit
    rw [hrow]; simp
  refine ⟨fun k => hs k, ?_, ?_, ?_, ?_, ?_, ?_, ?_, ?_⟩
  · intro j k _ f hf; simp [ghOf, ownedBy] at hf
  · intro k f hf; simp [ghOf, ownedBy] at hf
  · intro j k _ h hf; simp [ghOf, ownedHBy] at hf
  · intro k h hf; simp [ghOf, ownedHBy] at hf
  · intro h hm
    by_cases hh : h < c.nhuge
    · exact ⟨(zerosIn_eq_full_iff m h).2 (inv.marker h hh hm).2, hus h⟩
    · rw [inv.beyond h (by omega)] at hm; cases hm
  · intro h hm
    rw [hus h, Nat.add_zero]
    by_cases hh : h < c.nhuge
    · exact inv.count h hh hm
    · rw [inv.beyond h (by omega), hbeyond h (by omega)]
  · exact inv.outside
  · intro k f _; simp [ghOf, ownedBy]

/-- **C01 for the whole allocator, every interleaving.** Threads `k < n` call `get` (any
    request, with or without target), `put` (blocks they hold, at their allocation order) in
    any order; the tree array and the local slots hold ANYTHING at the start (`m.trees`,
    `m.slots` are unconstrained) — only the lower state is quiescent. After any schedule:
    the blocks held by the threads are pairwise disjoint (small/small, huge/huge, small/huge),
    marked allocated, the counters do not over-report, a finished thread holds exactly the
    valid aligned disjoint blocks its calls returned and it has not freed, and a crash at this
    instant followed by recovery keeps every holding allocated. -/
theorem upper_threads_safe {c : Cfg} (ok : GeomOk16 c.geom) (m : Mem) (inv : LowerInv c m) (ht : m.trees.size = c.ntrees)
    (n : Nat) (cmds : Nat → List UCmd) (sched : List Nat) (hsched : ∀ k ∈ sched, k < n) :
    ∃ ghs, ConcFacts c.geom c.frames (concRun sched (m, fun k => Th.at (runU c (cmds k) ⟨[], []⟩))).1 ghs ∧
      (∀ k, k < n → match ((concRun sched (m, fun k => Th.at (runU c (cmds k) ⟨[], []⟩))).2 k).step
            (concRun sched (m, fun k => Th.at (runU c (cmds k) ⟨[], []⟩))).1 with
        | .done held => ghs k = ghOf c.geom held ∧ HeldOkL c.geom held
        | _ => True) ∧
      Runs (concRun sched (m, fun k => Th.at (runU c (cmds k) ⟨[], []⟩))).1
        (Lower.recover c.geom c.ntrees c.nhuge) (fun _ m'' => LowerInv c m'' ∧
          (∀ k f, (ghs k).ownS f = true → m''.bit f = true) ∧
          (∀ k h, (ghs k).ownH h = true → Huge.isHuge (m''.hugeE h) = true)) := by
  have okg := ok.toGeomOk
  have hhf : Huge.isHuge c.geom.hugeFrames = false := isHuge_of_le ok _ (Nat.le_refl _)
  have I0 := LInv.init_gen ok m inv n false _ (fun k => runU c (cmds k) ⟨[], []⟩)
    (fun k => runU_safe ok (cmds k) ⟨[], []⟩ ⟨trivial, (fun b hb => by cases hb), trivial⟩)
  obtain ⟨ghs, I⟩ := LInv.run okg hhf sched hsched m _ _ I0
  have hsz := concRun_sizes sched m (fun k => Th.at (runU c (cmds k) ⟨[], []⟩))
  refine ⟨ghs, I.facts okg, ?_, ?_⟩
  · intro k hk
    have := I.step okg hhf k hk
    cases hs : ((concRun sched (m, fun k => Th.at (runU c (cmds k) ⟨[], []⟩))).2 k).step
        (concRun sched (m, fun k => Th.at (runU c (cmds k) ⟨[], []⟩))).1 with
    | done a => rw [hs] at this; exact this
    | dead s => trivial
    | step t' m'' a => trivial
  · exact LInv.recovers ok (Or.inr I) (by rw [hsz.1]; exact inv.rowsSize) (by rw [hsz.2.1]; exact inv.hugeSize)
      (by rw [hsz.2.2.1]; exact ht)

end LLFree
