/-
  Lifting the bitfield-level ownership proofs (`SafeR`, Own*.lean) to the lower-level protocol
  (`SafeL`): a row-only program that is `SafeR` with a ghost invariant `G` bounding how many
  frames it may hold at any moment is `SafeL` for a thread whose accounts cover that bound; the
  account of a huge frame moves exactly against the number of its frames the thread holds.
-/
import LLFreeV.Proofs.OwnLowerInv
namespace LLFree
open Prog

/-! ### counting held frames -/

theorem countP_range_le_add (N a n : Nat) (p q : Nat → Bool) (han : a + n ≤ N)
    (hout : ∀ i, i < N → ¬ (a ≤ i ∧ i < a + n) → q i = true → p i = true) :
    (List.range N).countP q ≤ (List.range N).countP p + n := by
  have hsplit : List.range N = List.range' 0 a ++ (List.range' a n ++ List.range' (a + n) (N - (a + n))) := by
    rw [List.range_eq_range']
    have e2 : List.range' a n ++ List.range' (a + n) (N - (a + n)) = List.range' a (n + (N - (a + n))) := by
      rw [List.range'_append_1]
    have e3 : List.range' 0 a ++ List.range' a (n + (N - (a + n))) = List.range' 0 (a + (n + (N - (a + n)))) := by
      have := List.range'_append_1 (s := 0) (m := a) (n := n + (N - (a + n)))
      simpa using this
    rw [e2, e3]
    congr 1; omega
  rw [hsplit]
  simp only [List.countP_append]
  have h1 : (List.range' 0 a).countP q ≤ (List.range' 0 a).countP p := by
    apply List.countP_mono_left
    intro i hi
    have := List.mem_range'_1.1 hi
    exact hout i (by omega) (by omega)
  have h3 : (List.range' (a + n) (N - (a + n))).countP q ≤ (List.range' (a + n) (N - (a + n))).countP p := by
    apply List.countP_mono_left
    intro i hi
    have := List.mem_range'_1.1 hi
    exact hout i (by omega) (by omega)
  have h2 : (List.range' a n).countP q ≤ n := by
    have := List.countP_le_length (p := q) (l := List.range' a n)
    simpa using this
  omega

/-- per-element 0/1 balance lifts to counts -/
theorem countP_balance {τ : Type} (l : List τ) (a b c d : τ → Bool)
    (h : ∀ x, x ∈ l → (a x).toNat + (b x).toNat = (c x).toNat + (d x).toNat) :
    l.countP a + l.countP b = l.countP c + l.countP d := by
  induction l with
  | nil => simp
  | cons x l ih =>
    have := ih (fun y hy => h y (List.mem_cons_of_mem _ hy))
    have hx := h x List.mem_cons_self
    simp only [List.countP_cons]
    revert hx
    cases a x <;> cases b x <;> cases c x <;> cases d x <;> simp <;> omega

/-- frames of row `i` the thread holds -/
def cntRow (own : Owned) (i : Nat) : Nat := (List.range 64).countP (fun b => own (i * 64 + b))

/-- a legal write of a row moves held frames against zero bits -/
theorem Trans.balance {own own' : Owned} {i : Nat} {old new : BitVec 64} (tr : Trans own own' i old new)
    (hk : Known own i old) : cntRow own' i + zerosRow new = cntRow own i + zerosRow old := by
  unfold cntRow zerosRow
  apply countP_balance
  intro b hb
  have hb' : b < 64 := List.mem_range.1 hb
  by_cases hsame : old.getLsbD b = new.getLsbD b
  · rw [tr.keep b hb' hsame, hsame]
  · cases ho : old.getLsbD b with
    | false =>
      have hn : new.getLsbD b = true := by
        cases hn : new.getLsbD b with
        | true => rfl
        | false => rw [ho, hn] at hsame; exact absurd rfl hsame
      have h1 := tr.claim b hb' ho hn
      have h2 : own (i * 64 + b) = false := by
        cases h2 : own (i * 64 + b) with
        | false => rfl
        | true => have := hk b hb' h2; rw [ho] at this; cases this
      rw [h1, h2, hn]; rfl
    | true =>
      have hn : new.getLsbD b = false := by
        cases hn : new.getLsbD b with
        | false => rfl
        | true => rw [ho, hn] at hsame; exact absurd rfl hsame
      obtain ⟨h1, h2⟩ := tr.release b hb' ho hn
      rw [h1, h2, hn]; rfl

section
variable {g : Geom}

theorem cntH_rows (okg : GeomOk g) (own : Owned) (h : Nat) :
    cntH g own h = blockSum (fun r => cntRow own (h * g.rows + r)) g.rows := by
  unfold cntH
  have : g.hugeFrames = g.rows * 64 := okg.rows_mul.symm
  rw [this, countP_range_mul]
  apply blockSum_congr
  intro r _
  unfold cntRow
  apply countP_range_eq_of_eq
  intro k _
  congr 1
  rw [← this, ← okg.rows_mul, Nat.add_mul, Nat.mul_assoc]; omega

theorem cntH_congr (own own' : Owned) (h : Nat) (he : ∀ i, i < g.hugeFrames → own' (h * g.hugeFrames + i) = own (h * g.hugeFrames + i)) :
    cntH g own' h = cntH g own h := by
  unfold cntH
  apply countP_range_eq_of_eq
  intro i hi; rw [he i hi]

theorem cntH_mono (own own' : Owned) (h : Nat) (he : ∀ f, own f = true → own' f = true) : cntH g own h ≤ cntH g own' h := by
  unfold cntH
  apply List.countP_mono_left
  intro i _ hi; exact he _ hi

/-- a legal write of row `i`: the held frames of its huge frame move against the row's zero bits -/
theorem Trans.balanceH (okg : GeomOk g) {own own' : Owned} {i : Nat} {old new : BitVec 64} (tr : Trans own own' i old new)
    (hk : Known own i old) : cntH g own' (i / g.rows) + zerosRow new = cntH g own (i / g.rows) + zerosRow old := by
  have hrp := okg.rows_pos
  have hsplit : i / g.rows * g.rows + i % g.rows = i := by
    have := Nat.div_add_mod i g.rows; rw [Nat.mul_comm] at this; exact this
  have hr0 : i % g.rows < g.rows := Nat.mod_lt _ hrp
  rw [cntH_rows okg, cntH_rows okg]
  have key := blockSum_point (fun r => cntRow own (i / g.rows * g.rows + r)) (fun r => cntRow own' (i / g.rows * g.rows + r))
    g.rows (i % g.rows) hr0 (by
      intro j hj
      unfold cntRow
      apply countP_range_eq_of_eq
      intro b hb
      apply tr.other
      intro e
      apply hj
      have : (i / g.rows * g.rows + j) * 64 + b = (i / g.rows * g.rows + j) * 64 + b := rfl
      omega)
  simp only [hsplit] at key
  have := tr.balance hk
  omega

/-- … and the other huge frames are untouched -/
theorem Trans.cntH_other (okg : GeomOk g) {own own' : Owned} {i : Nat} {old new : BitVec 64} (tr : Trans own own' i old new)
    (x : Nat) (hx : x ≠ i / g.rows) : cntH g own' x = cntH g own x := by
  apply cntH_congr
  intro j hj
  apply tr.other
  rw [okg.frame_row]
  intro e
  apply hx
  have : j / 64 < g.rows := by
    have := okg.rows_mul
    apply Nat.div_lt_of_lt_mul; omega
  rw [← e, Nat.mul_comm, Nat.mul_add_div okg.rows_pos, Nat.div_eq_of_lt this]; rfl

theorem inBlockF_other (h x off n i : Nat) (hfit : off + n ≤ g.hugeFrames) (hi : i < g.hugeFrames) (hx : x ≠ h) :
    inBlockF (h * g.hugeFrames + off) n (x * g.hugeFrames + i) = false := by
  unfold inBlockF
  simp only [Bool.and_eq_false_iff, decide_eq_false_iff_not]
  rcases Nat.lt_or_gt_of_ne hx with hlt | hgt
  · left
    have : (x + 1) * g.hugeFrames ≤ h * g.hugeFrames := Nat.mul_le_mul_right _ hlt
    rw [Nat.add_mul] at this; omega
  · right
    have : (h + 1) * g.hugeFrames ≤ x * g.hugeFrames := Nat.mul_le_mul_right _ hgt
    rw [Nat.add_mul] at this; omega

theorem inBlockF_same (h off n i : Nat) :
    inBlockF (h * g.hugeFrames + off) n (h * g.hugeFrames + i) = (decide (off ≤ i) && decide (i < off + n)) := by
  unfold inBlockF
  congr 1
  · simp
  · apply decide_eq_decide.2; omega

/-- anything between `own` and `own + block` holds at most `n` more frames of huge frame `h`,
    and exactly the same frames of every other huge frame -/
theorem cntH_between_add (own o : Owned) (h off n : Nat) (hfit : off + n ≤ g.hugeFrames)
    (hb : Between own (addBlock own (h * g.hugeFrames + off) n) o) (x : Nat) :
    cntH g o x ≤ cntH g own x + (if x = h then n else 0) := by
  by_cases e : x = h
  · subst e
    rw [if_pos rfl]
    unfold cntH
    apply countP_range_le_add _ off n _ _ hfit
    intro i hi hnot hq
    have := hb.2 _ hq
    unfold addBlock at this
    rw [inBlockF_same] at this
    simp only [Bool.or_eq_true, Bool.and_eq_true, decide_eq_true_eq] at this
    rcases this with h1 | h1
    · exact h1
    · exact absurd h1 hnot
  · rw [if_neg e, Nat.add_zero]
    apply Nat.le_of_eq
    apply cntH_congr
    intro i hi
    cases ho : o (x * g.hugeFrames + i) with
    | true =>
      have := hb.2 _ ho
      unfold addBlock at this
      rw [inBlockF_other h x off n i hfit hi e] at this
      simp at this; rw [this]
    | false =>
      cases hw : own (x * g.hugeFrames + i) with
      | false => rfl
      | true => rw [hb.1 _ hw] at ho; cases ho

theorem cntH_between_sub (own o lo : Owned) (hb : Between lo own o) (x : Nat) : cntH g o x ≤ cntH g own x :=
  cntH_mono o own x hb.2

theorem cntH_addBlock (own : Owned) (h off n : Nat) (hfit : off + n ≤ g.hugeFrames)
    (hnone : ∀ f, inBlockF (h * g.hugeFrames + off) n f = true → own f = false) (x : Nat) :
    cntH g (addBlock own (h * g.hugeFrames + off) n) x = cntH g own x + (if x = h then n else 0) := by
  by_cases e : x = h
  · subst e
    rw [if_pos rfl]
    unfold cntH
    apply countP_range_raise _ off n _ _ hfit
    · intro i h1 h2
      have hin : inBlockF (x * g.hugeFrames + off) n (x * g.hugeFrames + i) = true := by
        rw [inBlockF_same]; simp [h1, h2]
      exact ⟨hnone _ hin, by unfold addBlock; rw [hin]; simp⟩
    · intro i hi hnot
      unfold addBlock
      rw [inBlockF_same]
      have : (decide (off ≤ i) && decide (i < off + n)) = false := by
        by_cases a : off ≤ i <;> by_cases c : i < off + n <;> simp [a, c] <;> exact hnot ⟨a, c⟩
      rw [this]; simp
  · rw [if_neg e, Nat.add_zero]
    apply cntH_congr
    intro i hi
    unfold addBlock
    rw [inBlockF_other h x off n i hfit hi e]; simp

theorem cntH_subBlock (own : Owned) (h off n : Nat) (hfit : off + n ≤ g.hugeFrames)
    (hall : ∀ f, inBlockF (h * g.hugeFrames + off) n f = true → own f = true) (x : Nat) :
    cntH g (subBlock own (h * g.hugeFrames + off) n) x + (if x = h then n else 0) = cntH g own x := by
  by_cases e : x = h
  · subst e
    rw [if_pos rfl]
    unfold cntH
    symm
    apply countP_range_raise _ off n _ _ hfit
    · intro i h1 h2
      have hin : inBlockF (x * g.hugeFrames + off) n (x * g.hugeFrames + i) = true := by
        rw [inBlockF_same]; simp [h1, h2]
      exact ⟨by unfold subBlock; rw [hin]; simp, hall _ hin⟩
    · intro i hi hnot
      unfold subBlock
      rw [inBlockF_same]
      have : (decide (off ≤ i) && decide (i < off + n)) = false := by
        by_cases a : off ≤ i <;> by_cases c : i < off + n <;> simp [a, c] <;> exact hnot ⟨a, c⟩
      rw [this]; simp
  · rw [if_neg e, Nat.add_zero]
    apply cntH_congr
    intro i hi
    unfold subBlock
    rw [inBlockF_other h x off n i hfit hi e]; simp

/-! ### the lifting -/

/-- the thread's ghost when it holds `o` instead of `gh.ownS`, all else being equal: every
    account moves against the number of frames held -/
def liftGh (g : Geom) (gh : Gh) (o : Owned) : Gh :=
  { ownS := o, ownH := gh.ownH, u := fun x => gh.u x + cntH g gh.ownS x - cntH g o x }

/-- the accounts cover what is held -/
def Covered (g : Geom) (gh : Gh) (o : Owned) : Prop := ∀ x, cntH g o x ≤ gh.u x + cntH g gh.ownS x

theorem liftGh_self (gh : Gh) : liftGh g gh gh.ownS = gh := by
  unfold liftGh
  cases gh with
  | mk s hh u => simp only [Gh.mk.injEq, true_and]; funext x; omega

theorem Covered.self (gh : Gh) : Covered g gh gh.ownS := fun x => by omega

theorem TransRow.ofTrans (okg : GeomOk g) (gh : Gh) {o o' : Owned} {i : Nat} {old new : BitVec 64}
    (tr : Trans o o' i old new) (hk : Known o i old) (hc : Covered g gh o) (hc' : Covered g gh o') :
    TransRow g (liftGh g gh o) (liftGh g gh o') i old new := by
  refine ⟨tr, rfl, ?_, ?_⟩
  · show gh.u (i / g.rows) + cntH g gh.ownS (i / g.rows) - cntH g o' (i / g.rows) + zerosRow old =
      gh.u (i / g.rows) + cntH g gh.ownS (i / g.rows) - cntH g o (i / g.rows) + zerosRow new
    have := tr.balanceH okg hk
    have h1 := hc (i / g.rows)
    have h2 := hc' (i / g.rows)
    omega
  · intro x hx
    show gh.u x + cntH g gh.ownS x - cntH g o' x = gh.u x + cntH g gh.ownS x - cntH g o x
    rw [tr.cntH_other okg x hx]

/-- **Lifting**: a `SafeR` program whose intermediate holdings are covered by the thread's
    accounts is `SafeL`; the final ghost is the lifted one. -/
theorem SafeR.lift {α : Type} {strict : Bool} (okg : GeomOk g) (gh : Gh) (G : Owned → Prop) (hG : ∀ o, G o → Covered g gh o)
    (Post : α → Owned → Prop) :
    ∀ (p : Prog α) (o : Owned), Covered g gh o → SafeR G Post o p →
      SafeL strict g (fun a gh' => ∃ o', Covered g gh o' ∧ gh' = liftGh g gh o' ∧ Post a o') (liftGh g gh o) p := by
  intro p
  induction p with
  | ret a => exact fun o hc hp => ⟨o, hc, rfl, hp⟩
  | panic s => exact fun o _ hp => hp.elim
  | load k i c ih =>
    intro o hc hp
    cases k with
    | row => exact fun v hv => ih v o hc (hp v hv)
    | huge => exact fun v _ => ih v o hc (hp v)
    | tree => exact fun v => ih v o hc (hp v)
    | slot => exact fun v => ih v o hc (hp v)
  | store k i v c ih => intro o _ hp; exact hp.elim
  | swap k i v c ih => intro o _ hp; exact hp.elim
  | cas k i e n c ih =>
    intro o hc hp
    cases k with
    | row =>
      intro cur hk
      obtain ⟨h1, h2⟩ := hp cur hk
      refine ⟨fun he => ?_, fun hne => ih _ o hc (h2 hne)⟩
      obtain ⟨o', ht, hg, hs⟩ := h1 he
      subst he
      exact ⟨liftGh g gh o', TransRow.ofTrans okg gh ht hk hc (hG o' hg), ih _ o' (hG o' hg) hs⟩
    | huge => exact hp.elim
    | tree => exact hp.elim
    | slot => exact hp.elim
  | casPart i sh w e n c ih =>
    intro o hc hp cur hk
    obtain ⟨h1, h2⟩ := hp cur hk
    refine ⟨fun r hr => ?_, fun hn => ih _ o hc (h2 hn)⟩
    obtain ⟨o', ht, hg, hs⟩ := h1 r hr
    exact ⟨liftGh g gh o', TransRow.ofTrans okg gh ht hk hc (hG o' hg), ih _ o' (hG o' hg) hs⟩
  | upd k i f c ih =>
    intro o hc hp
    cases k with
    | row =>
      intro cur hk
      have := hp cur hk
      cases hf : f cur with
      | skip => rw [hf] at this; exact ih _ o hc this
      | set v =>
        rw [hf] at this
        obtain ⟨o', ht, hg, hs⟩ := this
        exact ⟨liftGh g gh o', TransRow.ofTrans okg gh ht hk hc (hG o' hg), ih _ o' (hG o' hg) hs⟩
      | panic s => rw [hf] at this; exact this.elim
    | huge => exact hp.elim
    | tree => exact hp.elim
    | slot => exact hp.elim

end
end LLFree
