/-
  `SafeU` for the public calls: `LLFree::get` on every path, `LLFree::put`, `LLFree::drain`.
  Ghost effect: a successful `get` of `2^order` frames in tree `i` raises the thread's `base i`
  by `2^order`; a failing one leaves the ghost as it was; a `put` lowers it.
-/
import LLFreeV.Proofs.ConcUpperOps
import LLFreeV.Proofs.ConcLowRes
namespace LLFree
open Prog

section
variable {α β : Type} {c : Cfg}

/-- sequencing after a lower-only program -/
theorem SafeU.bind_low {P : α → Prop} {Post : β → UGh → Prop} (ug : UGh) (p : Prog α) (f : α → Prog β)
    (hp : LowRes P p) (h : ∀ a, P a → SafeU c Post ug (f a)) : SafeU c Post ug (p >>= f) :=
  SafeU.bind f p ug (LowRes.safeU ug p hp) (fun a o ho => by obtain ⟨hP, rfl⟩ := ho; exact h a hP)

/-- ghost effect of an allocation attempt -/
def UGetPostU (tf : Nat) (ug : UGh) (n : Nat) : Res (Nat × Nat) → UGh → Prop
  | .ok (f, _), ug' => ug' = ug.addBase (f / tf) n
  | .error _, ug' => ug' = ug

theorem treeRows_pos (okg : GeomOk c.geom) : 0 < c.geom.treeRows := by
  have h1 := okg.treeRows_mul; have h2 := okg.tf_pos
  rcases Nat.eq_zero_or_pos c.geom.treeRows with h | h
  · rw [h] at h1; omega
  · exact h

theorem UGh.sub_add_cancel (ug : UGh) (i n : Nat) : (ug.addBase i n).subBase i n = ug := UGh.subBase_addBase ug i n

theorem UGh.setTok_none_of_none (ug : UGh) (i : Nat) (h : ug.tok i = none) : ug.setTok i none = ug := by
  apply UGh.ext'
  · intro j; rfl
  · intro j; simp only [UGh.setTok_tok]; split
    · rename_i e; rw [e, h]
    · rfl

theorem SafeU.bind_classLocals {Post : α → UGh → Prop} (ug : UGh) (cls : Nat) (f : Option Nat → Prog α)
    (hcls : cls < 8) (h : SafeU c Post ug (f ((c.slotRange cls).map (·.2)))) : SafeU c Post ug (Locals.classLocals c cls >>= f) := by
  unfold Locals.classLocals Locals.classRange
  have hc : ¬ cls ≥ 8 := by omega
  simp only [hc, if_false]; exact h

theorem tree_rows44 (ok : CfgOk c) (i : Nat) (hi : i < c.ntrees) : i * c.geom.treeRows < 2 ^ 44 := by
  have h1 := ok.rows44
  have : (i + 1) * c.geom.treeRows ≤ c.ntrees * c.geom.treeRows := Nat.mul_le_mul_right _ hi
  rw [Nat.add_mul, Nat.one_mul] at this
  omega

/-- a frame of tree `i < ntrees` has a row index the 44-bit field holds -/
theorem frame_row44 (ok : CfgOk c) (f i : Nat) (hf : f / c.geom.treeFrames = i) (hi : i < c.ntrees) : f / 64 < 2 ^ 44 := by
  have okg := ok.geom.toGeomOk
  have h1 := ok.rows44
  have htf := okg.treeRows_mul
  have hlt : f < (i + 1) * c.geom.treeFrames := by
    rw [← hf, Nat.mul_comm]; exact Nat.lt_mul_div_succ f okg.tf_pos
  have h2 : (i + 1) * c.geom.treeFrames ≤ c.ntrees * c.geom.treeFrames := Nat.mul_le_mul_right _ hi
  have h3 : f < c.ntrees * c.geom.treeRows * 64 := by rw [Nat.mul_assoc, htf]; omega
  have : f / 64 < c.ntrees * c.geom.treeRows := Nat.div_lt_of_lt_mul (by rw [Nat.mul_comm]; exact h3)
  omega

/-- `LLFree::reserve_or_steal` for a class that has slots -/
theorem reserveOrSteal_U (ok : CfgOk c) (ug : UGh) (i order cls loc : Nat) (hcls : cls < 8)
    (rng : Nat × Nat) (hr : c.slotRange cls = some rng) (hpos : 0 < rng.2) :
    SafeU c (UGetPostU c.geom.treeFrames ug (2 ^ order)) ug (reserveOrSteal c i order cls loc) := by
  have okg := ok.geom.toGeomOk
  have htr := treeRows_pos okg
  unfold reserveOrSteal
  generalize 2 ^ order = n
  apply SafeU.bind _ _ _ (treesRos_U ug i cls n hcls)
  intro r ug1 h1
  cases r with
  | none => simp only [RosPost] at h1; subst h1; rfl
  | some x =>
    obtain ⟨reserved, free, tcls⟩ := x
    simp only
    apply SafeU.bind_low ug1 _ _ (lowerGet_low c.geom okg (i * c.geom.treeRows) order none)
    intro lr ⟨hlerr, hlok⟩
    have htree : ∀ f, lr = .ok f → f / c.geom.treeFrames = i := by
      intro f hf
      have := hlok f hf
      simp only at this
      rw [this, row_tree okg, Nat.mul_div_cancel _ htr]
    cases reserved with
    | false =>
      simp only [RosPost] at h1
      subst h1
      cases lr with
      | ok frame =>
        simp only [Bool.false_eq_true, if_false]
        show UGetPostU _ ug _ (.ok (frame, tcls)) _
        simp only [UGetPostU, htree frame rfl]
      | error e =>
        simp only [Bool.false_eq_true, if_false]
        apply SafeU.bind _ _ _ (tput_U ok _ i n (by simp [UGh.addBase_base]))
        intro _ ug2 h2
        subst h2
        show UGetPostU _ ug _ (.error e) _
        simp only [UGetPostU, UGh.sub_add_cancel]
    | true =>
      simp only [RosPost] at h1
      obtain ⟨hc, htok, hnf, hftf, hint, h1⟩ := h1
      subst hc
      subst h1
      cases lr with
      | error e =>
        simp only [if_true]
        apply SafeU.bind _ _ _ (tunreserve_U ok _ i free tcls tcls (by simp [UGh.addBase_base, UGh.setTok_base])
          (by simp [UGh.setTok_tok]) (Nat.le_refl _) hcls)
        intro _ ug2 h2
        subst h2
        show UGetPostU _ ug _ (.error e) _
        simp only [UGetPostU]
        apply UGh.ext'
        · intro j; simp only [UGh.setTok_base, UGh.subBase_base, UGh.addBase_base]; split <;> omega
        · intro j; simp only [UGh.setTok_tok, UGh.subBase_tok, UGh.addBase_tok]
          split
          · rename_i e; rw [e, htok]
          · rfl
      | ok frame =>
        simp only [if_true]
        have hfi := htree frame rfl
        apply SafeU.bind_classLocals _ _ _ hcls
        rw [hr]
        simp only [Option.map]
        have hne : ¬ rng.2 = 0 := by omega
        simp only [hne, if_false]
        have hnlt : ¬ free < n := by omega
        simp only [hnlt, if_false]
        rw [hfi]
        have hb : free - n ≤ ((ug.addBase i free).setTok i (some tcls)).base i := by
          simp only [UGh.setTok_base, UGh.addBase_base, if_true]; omega
        have h19 := ok.tf19
        apply SafeU.bind _ _ _ (localsSwap_U okg _ tcls _ i (free - n) tcls (by simp [UGh.setTok_tok]) (Nat.le_refl _) hb hcls rng hr
          (Nat.mod_lt _ hpos) (tree_rows44 ok i hint) (by omega))
        intro old ug2 h2
        cases old with
        | none =>
          simp only [SwapPostU] at h2
          subst h2
          show UGetPostU _ ug _ (.ok (frame, tcls)) _
          simp only [UGetPostU, hfi]
          apply UGh.ext'
          · intro j; simp only [UGh.setTok_base, UGh.subBase_base, UGh.addBase_base]; split <;> omega
          · intro j; simp only [UGh.setTok_tok, UGh.subBase_tok, UGh.addBase_tok]
            split
            · rename_i e; rw [e, htok]
            · rfl
        | some o =>
          simp only [SwapPostU] at h2
          obtain ⟨hne', hto, h2⟩ := h2
          subst h2
          have hto' : ug.tok (o.row / c.geom.treeRows) = none := by
            simp only [UGh.setTok_tok, UGh.addBase_tok, if_neg hne'] at hto; exact hto
          simp only
          apply SafeU.bind _ _ _ (tunreserve_U ok _ (o.row / c.geom.treeRows) o.free tcls tcls
            (by simp [UGh.addBase_base, UGh.setTok_base]) (by simp [UGh.setTok_tok]) (Nat.le_refl _) hcls)
          intro _ ug3 h3
          subst h3
          show UGetPostU _ ug _ (.ok (frame, tcls)) _
          simp only [UGetPostU, hfi]
          apply UGh.ext'
          · intro j
            simp only [UGh.setTok_base, UGh.subBase_base, UGh.addBase_base]
            by_cases e1 : j = o.row / c.geom.treeRows
            · subst e1; simp [hne']
            · have hne'' : ¬ i = o.row / c.geom.treeRows := fun x => hne' x.symm
              by_cases e2 : j = i
              · subst e2; simp [hne'']; omega
              · simp [e1, e2]
          · intro j
            simp only [UGh.setTok_tok, UGh.subBase_tok, UGh.addBase_tok]
            by_cases e1 : j = o.row / c.geom.treeRows
            · subst e1; simp [hto']
            · by_cases e2 : j = i
              · subst e2; simp [e1, htok]
              · simp [e1, e2]

end

section
variable {α β : Type} {c : Cfg}

/-- `LLFree::steal_global` -/
theorem stealGlobal_U (ok : CfgOk c) (ug : UGh) (i cls order : Nat) (frame : Option Nat) (hcls : cls < 8)
    (hfr : ∀ x, frame = some x → x / c.geom.treeFrames = i) :
    SafeU c (UGetPostU c.geom.treeFrames ug (2 ^ order)) ug (stealGlobal c i cls order frame) := by
  have okg := ok.geom.toGeomOk
  have htr := treeRows_pos okg
  unfold stealGlobal
  generalize 2 ^ order = n
  apply SafeU.bind _ _ _ (treesSteal_U ug i cls n hcls)
  intro r ug1 h1
  cases r with
  | none => simp only at h1; subst h1; rfl
  | some k =>
    simp only at h1
    subst h1
    simp only
    apply SafeU.bind_low _ _ _ (lowerGet_low c.geom okg (i * c.geom.treeRows) order frame)
    intro lr ⟨_, hlok⟩
    cases lr with
    | ok f =>
      have hfi : f / c.geom.treeFrames = i := by
        have := hlok f rfl
        cases frame with
        | some x => simp only at this; rw [this]; exact hfr x rfl
        | none => simp only at this; rw [this, row_tree okg, Nat.mul_div_cancel _ htr]
      show UGetPostU _ ug _ (.ok (f, k)) _
      simp only [UGetPostU, hfi]
    | error e =>
      simp only
      apply SafeU.bind _ _ _ (tput_U ok _ i n (by simp [UGh.addBase_base]))
      intro _ ug2 h2
      subst h2
      show UGetPostU _ ug _ (.error e) _
      simp only [UGetPostU, UGh.sub_add_cancel]

/-- ghost effect of `get_local` -/
def ULocalPostU (tf : Nat) (ug : UGh) (n : Nat) : LocalRes → UGh → Prop
  | .ok (f, _), ug' => ug' = ug.addBase (f / tf) n
  | .error _, ug' => ug' = ug

/-- the common part of `get_local`: allocate from the tree of the reservation that paid -/
theorem getLocal_tail_U (ok : CfgOk c) (ug : UGh) (order cls loc row n : Nat) (frame : Option Nat)
    (hfr : ∀ x, frame = some x → row / c.geom.treeRows = x / c.geom.treeFrames) (hcls : cls < 8)
    (hloc : ∀ rng, c.slotRange cls = some rng → loc < rng.2) (hrow : row / c.geom.treeRows < c.ntrees) :
    SafeU c (ULocalPostU c.geom.treeFrames ug n) (ug.addBase (row / c.geom.treeRows) n)
      (do
        let lr ← Lower.get c.geom row order frame
        match lr with
        | .ok f => do
          if row ≠ f / 64 then Locals.setStart c cls loc (f / 64)
          return (.ok (f, cls) : LocalRes)
        | .error e => do
          tput c (row / c.geom.treeRows) n
          return .error (e, some (row / c.geom.treeRows))) := by
  have okg := ok.geom.toGeomOk
  apply SafeU.bind_low _ _ _ (lowerGet_low c.geom okg row order frame)
  intro lr ⟨_, hlok⟩
  cases lr with
  | ok f =>
    have hfi : f / c.geom.treeFrames = row / c.geom.treeRows := by
      have := hlok f rfl
      cases frame with
      | some x => simp only at this; rw [this]; exact (hfr x rfl).symm
      | none => simp only at this; rw [this, row_tree okg]
    simp only
    split
    · apply SafeU.bind _ _ _ (localsSetStart_U _ cls loc (f / 64) hcls hloc (frame_row44 ok f _ hfi hrow))
      intro _ ug2 h2
      subst h2
      show ULocalPostU _ ug n (.ok (f, cls)) _
      simp only [ULocalPostU, hfi]
    · show ULocalPostU _ ug n (.ok (f, cls)) _
      simp only [ULocalPostU, hfi]
  | error e =>
    simp only
    apply SafeU.bind _ _ _ (tput_U ok _ (row / c.geom.treeRows) n (by simp [UGh.addBase_base]))
    intro _ ug2 h2
    subst h2
    show ULocalPostU _ ug n (.error _) _
    simp only [ULocalPostU, UGh.sub_add_cancel]

theorem frame_tree_filter (frame : Option Nat) (row tr tf : Nat) (h : ∀ i, frame.map (· / tf) = some i → row / tr = i) :
    ∀ x, frame = some x → row / tr = x / tf := by
  intro x hx; subst hx; exact h _ rfl

/-- `get_local(…, sync = false)` -/
theorem getLocalNoSync_U (ok : CfgOk c) (ug : UGh) (order cls loc : Nat) (frame : Option Nat) (hcls : cls < 8)
    (hloc : ∀ rng, c.slotRange cls = some rng → loc < rng.2) :
    SafeU c (ULocalPostU c.geom.treeFrames ug (2 ^ order)) ug (getLocalNoSync c order cls loc frame) := by
  unfold getLocalNoSync
  generalize 2 ^ order = n
  apply SafeU.bind _ _ _ (localsGet_U ug cls loc _ n hcls hloc)
  intro r ug1 h1
  cases r with
  | ok row =>
    simp only [LGetPostU] at h1
    obtain ⟨h1, hflt, hrow⟩ := h1
    subst h1
    exact getLocal_tail_U ok ug order cls loc row n frame (frame_tree_filter frame row _ _ hflt) hcls hloc hrow
  | error e =>
    simp only [LGetPostU] at h1
    subst h1
    cases e with
    | some res => rfl
    | none => rfl

/-- `LLFree::get_local(…, sync = true)` -/
theorem getLocal_U (ok : CfgOk c) (ug : UGh) (order cls loc : Nat) (frame : Option Nat) (hcls : cls < 8)
    (hloc : ∀ rng, c.slotRange cls = some rng → loc < rng.2) :
    SafeU c (ULocalPostU c.geom.treeFrames ug (2 ^ order)) ug (getLocal c order cls loc frame) := by
  have hns := getLocalNoSync_U ok ug order cls loc frame hcls hloc
  unfold getLocal
  generalize 2 ^ order = n at hns ⊢
  apply SafeU.bind _ _ _ (localsGet_U ug cls loc _ n hcls hloc)
  intro r ug1 h1
  cases r with
  | ok row =>
    simp only [LGetPostU] at h1
    obtain ⟨h1, hflt, hrow⟩ := h1
    subst h1
    exact getLocal_tail_U ok ug order cls loc row n frame (frame_tree_filter frame row _ _ hflt) hcls hloc hrow
  | error e =>
    simp only [LGetPostU] at h1
    subst ug1
    cases e with
    | none => rfl
    | some res =>
      simp only
      split
      · apply SafeU.bind _ _ _ (treesSync_U ug (res.row / c.geom.treeRows) _)
        intro s ug2 h2
        cases s with
        | none => simp only at h2; subst ug2; rfl
        | some free =>
          simp only at h2
          subst h2
          simp only
          apply SafeU.bind _ _ _ (localsPut_U _ cls loc (res.row / c.geom.treeRows) free (by simp [UGh.addBase_base]) hcls hloc)
          intro b ug3 h3
          cases b with
          | true =>
            simp only [if_true] at h3
            subst h3
            rw [UGh.sub_add_cancel]
            simp only [if_true]
            exact hns
          | false =>
            simp only [Bool.false_eq_true, if_false] at h3
            subst h3
            simp only [Bool.false_eq_true, if_false]
            apply SafeU.bind _ _ _ (tput_U ok _ (res.row / c.geom.treeRows) free (by simp [UGh.addBase_base]))
            intro _ ug4 h4
            subst h4
            show ULocalPostU _ ug n (.error _) _
            simp only [ULocalPostU, UGh.sub_add_cancel]
      · rfl

end

section
variable {c : Cfg}

/-! ### tree searches -/
section
variable {β : Type} (Post : Res β → UGh → Prop) (ug : UGh) (access : Nat → Prog (Res β))
  (hA : ∀ i, SafeU c Post ug (access i)) (hErr : ∀ ug', Post (.error .memory) ug' → ug' = ug)
  (hMem : Post (.error .memory) ug)
include hA hErr hMem

theorem tryBest_U : ∀ l, SafeU c Post ug (Trees.searchBest.tryBest access l) := by
  intro l
  induction l with
  | nil => unfold Trees.searchBest.tryBest; exact hMem
  | cons x rest ih =>
    obtain ⟨_, i⟩ := x
    unfold Trees.searchBest.tryBest
    apply SafeU.bind _ _ _ (hA i)
    intro r ug1 h1
    split
    · have := hErr ug1 h1; subst this; exact ih
    · exact h1

theorem searchBestScan_U (tf ntrees nbuf start : Nat) (rate : Nat → Nat → Policy) (hnt : 0 < ntrees) :
    ∀ cnt i (best : Best), SafeU c Post ug (Trees.searchBest.scan tf ntrees nbuf start rate access cnt i best) := by
  intro cnt
  induction cnt with
  | zero => intro i best; unfold Trees.searchBest.scan; exact tryBest_U Post ug access hA hErr hMem _
  | succ cnt ih =>
    intro i best
    unfold Trees.searchBest.scan
    split
    · omega
    · show SafeU c Post ug (Prog.bind (loadK .tree _) _)
      simp only [loadK, Prog.bind]
      intro tree
      dsimp only
      split
      · exact ih _ _
      · split
        · apply SafeU.bind _ _ _ (hA _)
          intro r ug1 h1
          split
          · have := hErr ug1 h1; subst this; exact ih _ _
          · exact h1
        · exact ih _ _
        · exact ih _ _

theorem searchBest_U (tf ntrees nbuf start offset len : Nat) (rate : Nat → Nat → Policy) (hnt : 0 < ntrees) :
    SafeU c Post ug (Trees.searchBest tf ntrees nbuf start offset len rate access) := by
  unfold Trees.searchBest
  exact searchBestScan_U Post ug access hA hErr hMem _ _ _ _ _ hnt _ _ _

end

theorem UGetPostU_err (tf : Nat) (ug : UGh) (n : Nat) (ug' : UGh) (h : UGetPostU tf ug n (.error .memory) ug') : ug' = ug := h

/-- `LLFree::search_and_reserve` -/
theorem searchAndReserve_U (ok : CfgOk c) (ug : UGh) (order cls loc start : Nat) (hcls : cls < 8)
    (rng : Nat × Nat) (hr : c.slotRange cls = some rng) (hpos : 0 < rng.2) (hnt : 0 < c.ntrees) :
    SafeU c (UGetPostU c.geom.treeFrames ug (2 ^ order)) ug (searchAndReserve c order cls loc start) := by
  unfold searchAndReserve
  have hros := fun i => reserveOrSteal_U ok ug i order cls loc hcls rng hr hpos
  dsimp only
  refine SafeU.bind (Q := UGetPostU c.geom.treeFrames ug (2 ^ order)) _ _ _ ?_ ?_
  · split
    · exact searchBest_U _ ug _ hros (UGetPostU_err _ ug _) rfl _ _ _ _ _ _ _ hnt
    · rfl
  · intro r1 ug1 h1
    split
    · rw [UGetPostU_err _ ug _ ug1 h1]
      exact searchBest_U _ ug _ hros (UGetPostU_err _ ug _) rfl _ _ _ _ _ _ _ hnt
    · exact h1

/-- `LLFree::steal_local` -/
theorem stealLocal_U (ok : CfgOk c) (ug : UGh) (r : Request) (frame : Option Nat) :
    SafeU c (UGetPostU c.geom.treeFrames ug (2 ^ r.order)) ug (stealLocal c r frame) := by
  have okg := ok.geom.toGeomOk
  unfold stealLocal
  generalize 2 ^ r.order = n
  apply SafeU.bind _ _ _ (stealAny_U ug r.cls r.loc _ n)
  intro s ug1 h1
  cases s with
  | none => simp only [StealPostU] at h1; subst ug1; rfl
  | some res =>
    simp only [StealPostU] at h1
    obtain ⟨h1, hflt, _⟩ := h1
    subst h1
    simp only
    apply SafeU.bind_low _ _ _ (lowerGet_low c.geom okg res.row r.order frame)
    intro lr ⟨hlerr, hlok⟩
    cases lr with
    | ok f =>
      have hfi : f / c.geom.treeFrames = res.row / c.geom.treeRows := by
        have := hlok f rfl
        cases frame with
        | some x => simp only at this; rw [this]; exact (hflt _ rfl).symm
        | none => simp only at this; rw [this, row_tree okg]
      show UGetPostU _ ug n (.ok (f, res.cls)) _
      simp only [UGetPostU, hfi]
    | error e =>
      have := hlerr e rfl
      subst this
      simp only
      apply SafeU.bind _ _ _ (tput_U ok _ (res.row / c.geom.treeRows) n (by simp [UGh.addBase_base]))
      intro _ ug2 h2
      subst h2
      show UGetPostU _ ug n (.error _) _
      simp only [UGetPostU, UGh.sub_add_cancel]

end

section
variable {c : Cfg}

/-- allocate from tree `row / treeRows` with `n` frames of credit there -/
theorem demote_tail_U (ok : CfgOk c) (ug : UGh) (r : Request) (row n : Nat) (frame : Option Nat)
    (hfr : ∀ x, frame = some x → row / c.geom.treeRows = x / c.geom.treeFrames) :
    SafeU c (UGetPostU c.geom.treeFrames ug n) (ug.addBase (row / c.geom.treeRows) n)
      (do
        let lr ← Lower.get c.geom row r.order frame
        match lr with
        | .error .memory => do tput c (row / c.geom.treeRows) n; return .error .memory
        | .error e => return .error e
        | .ok f => return (.ok (f, r.cls) : Res (Nat × Nat))) := by
  have okg := ok.geom.toGeomOk
  apply SafeU.bind_low _ _ _ (lowerGet_low c.geom okg row r.order frame)
  intro lr ⟨hlerr, hlok⟩
  cases lr with
  | ok f =>
    have hfi : f / c.geom.treeFrames = row / c.geom.treeRows := by
      have := hlok f rfl
      cases frame with
      | some x => simp only at this; rw [this]; exact (hfr x rfl).symm
      | none => simp only at this; rw [this, row_tree okg]
    show UGetPostU _ ug n (.ok (f, r.cls)) _
    simp only [UGetPostU, hfi]
  | error e =>
    have := hlerr e rfl
    subst this
    simp only
    apply SafeU.bind _ _ _ (tput_U ok _ (row / c.geom.treeRows) n (by simp [UGh.addBase_base]))
    intro _ ug2 h2
    subst h2
    show UGetPostU _ ug n (.error _) _
    simp only [UGetPostU, UGh.sub_add_cancel]

/-- `LLFree::demote_local` -/
theorem demoteLocal_U (ok : CfgOk c) (ug : UGh) (r : Request) (frame : Option Nat) (hcls : r.cls < 8) (hloc : r.locOk c) :
    SafeU c (UGetPostU c.geom.treeFrames ug (2 ^ r.order)) ug (demoteLocal c r frame) := by
  unfold demoteLocal
  generalize 2 ^ r.order = n
  apply SafeU.bind _ _ _ (demoteAny_U ok ug r.cls r.loc _ n hcls hloc)
  intro d ug1 h1
  cases d with
  | none => simp only [DemotePostU] at h1; subst ug1; rfl
  | some x =>
    obtain ⟨row, old⟩ := x
    cases old with
    | none =>
      simp only [DemotePostU] at h1
      obtain ⟨hflt, h1⟩ := h1
      subst h1
      simp only
      exact demote_tail_U ok ug r row n frame (frame_tree_filter frame row _ _ hflt)
    | some o =>
      simp only [DemotePostU] at h1
      obtain ⟨hflt, hto, hoc, b, hob, h1⟩ := h1
      subst h1
      simp only
      apply SafeU.bind _ _ _ (tunreserve_U ok _ (o.row / c.geom.treeRows) o.free o.cls b
        (by simp [UGh.addBase_base, UGh.setTok_base]) (by simp [UGh.setTok_tok]) (by rw [hoc]; exact hob) (by rw [hoc]; exact hcls))
      intro _ ug2 h2
      have : ug2 = ug.addBase (row / c.geom.treeRows) n := by
        rw [h2]
        apply UGh.ext'
        · intro j
          simp only [UGh.setTok_base, UGh.subBase_base, UGh.addBase_base]
          by_cases e1 : j = o.row / c.geom.treeRows <;> simp [e1]
        · intro j
          simp only [UGh.setTok_tok, UGh.subBase_tok, UGh.addBase_tok]
          by_cases e1 : j = o.row / c.geom.treeRows
          · subst e1; simp [hto]
          · simp [e1]
      subst this
      exact demote_tail_U ok ug r row n frame (frame_tree_filter frame row _ _ hflt)

/-- the out-of-memory fallback of `get` -/
theorem getFallback_U (ok : CfgOk c) (ug : UGh) (r : Request) (frame : Option Nat) (hcls : r.cls < 8) (hloc : r.locOk c) :
    SafeU c (UGetPostU c.geom.treeFrames ug (2 ^ r.order)) ug (getFallback c r frame) := by
  unfold getFallback
  apply SafeU.bind _ _ _ (stealLocal_U ok ug r frame)
  intro s ug1 h1
  split
  · rw [UGetPostU_err _ ug _ ug1 h1]; exact demoteLocal_U ok ug r frame hcls hloc
  · exact h1

/-- `get_at` through the own reservation -/
theorem getAtLocal_U (ok : CfgOk c) (ug : UGh) (frame : Nat) (r : Request) (hcls : r.cls < 8) (hloc : r.locOk c) :
    SafeU c (fun (x : Option (Res (Nat × Nat))) ug' => match x with
        | some res => UGetPostU c.geom.treeFrames ug (2 ^ r.order) res ug'
        | none => ug' = ug) ug (getAtLocal c frame r) := by
  unfold getAtLocal
  cases hl : r.loc with
  | none => rfl
  | some l =>
    simp only
    apply SafeU.bind _ _ _ (getLocal_U ok ug r.order r.cls l (some frame) hcls (fun rng hr => hloc l rng hl hr))
    intro lr ug1 h1
    cases lr with
    | ok x => obtain ⟨f, k⟩ := x; exact h1
    | error x =>
      obtain ⟨e, st⟩ := x
      cases e <;> exact h1

/-- `LLFree::get_at` -/
theorem getAt_U (ok : CfgOk c) (ug : UGh) (frame : Nat) (r : Request) (hcls : r.cls < 8) (hloc : r.locOk c) :
    SafeU c (UGetPostU c.geom.treeFrames ug (2 ^ r.order)) ug (getAt c frame r) := by
  unfold getAt
  apply SafeU.bind _ _ _ (getAtLocal_U ok ug frame r hcls hloc)
  intro v ug1 h1
  cases v with
  | some x => exact h1
  | none =>
    simp only at h1
    subst ug1
    simp only
    apply SafeU.bind _ _ _ (stealGlobal_U ok ug (frame / c.geom.treeFrames) r.cls r.order (some frame) hcls
      (fun x hx => by cases hx; rfl))
    intro g1 ug2 h2
    split
    · rw [UGetPostU_err _ ug _ ug2 h2]; exact getFallback_U ok ug r (some frame) hcls hloc
    · exact h2

/-- `get` without target, before the fallback; `cl` is the slot count of the class -/
theorem getFirst_U (ok : CfgOk c) (ug : UGh) (r : Request) (hcls : r.cls < 8) (hloc : r.locOk c) (hnt : 0 < c.ntrees) :
    SafeU c (UGetPostU c.geom.treeFrames ug (2 ^ r.order)) ug (getFirst c r ((c.slotRange r.cls).map (·.2))) := by
  unfold getFirst
  have hsg := fun i => stealGlobal_U ok ug i r.cls r.order none hcls (fun x hx => by cases hx)
  have hglobal := fun start rate => searchBest_U (UGetPostU c.geom.treeFrames ug (2 ^ r.order)) ug
    (fun i => stealGlobal c i r.cls r.order none) hsg (UGetPostU_err _ ug _) rfl c.tf c.ntrees 8 start 0 c.ntrees rate hnt
  dsimp only
  cases hl : r.loc with
  | none => exact hglobal _ _
  | some l =>
    cases hr : c.slotRange r.cls with
    | none => exact hglobal _ _
    | some rng =>
      simp only [Option.map]
      split
      · rename_i hlen
        simp only [Bool.and_eq_true, decide_eq_true_eq] at hlen
        apply SafeU.bind _ _ _ (getLocal_U ok ug r.order r.cls l none hcls (fun rng' h' => hloc l rng' hl h'))
        intro lr ug1 h1
        split
        · exact h1
        · have : ug1 = ug := h1
          subst ug1
          exact searchAndReserve_U ok ug _ _ _ _ hcls rng hr hlen.1 hnt
        · exact h1
      · exact hglobal _ _

/-- `check` writes nothing; if it passes, the allocator manages at least one frame -/
theorem check_U (ug : UGh) (frame : Nat) (r : Request) (hcls : r.cls < 8) :
    SafeU c (fun (ck : Res Unit) ug' => ug' = ug ∧ (ck = .ok () → 0 < c.frames)) ug (check c frame r) := by
  unfold check
  split
  · exact ⟨rfl, fun h => by cases h⟩
  · split
    · exact ⟨rfl, fun h => by cases h⟩
    · rename_i hin
      split
      · exact ⟨rfl, fun h => by cases h⟩
      · apply SafeU.bind_classLocals _ _ _ hcls
        refine ⟨rfl, fun _ => ?_⟩
        have hp : 0 < 2 ^ r.order := Nat.pos_of_ne_zero (by simp)
        have hle : frame + 2 ^ r.order ≤ c.frames := by
          apply Classical.byContradiction
          intro hn
          apply hin
          simp [hn]
        omega

theorem ntrees_pos (okg : GeomOk c.geom) (h : 0 < c.frames) : 0 < c.ntrees := by
  unfold Cfg.ntrees
  apply Nat.div_pos
  · have := okg.tf_pos; omega
  · exact okg.tf_pos

/-- **`LLFree::get`** for a valid request: a success in tree `i` raises the thread's `base i` by
    the block size, a failure leaves the ghost unchanged, and no consistency check of the upper
    level can trap — on every path -/
theorem get_U (ok : CfgOk c) (ug : UGh) (frame : Option Nat) (r : Request) (hcls : r.cls < 8) (hloc : r.locOk c) :
    SafeU c (UGetPostU c.geom.treeFrames ug (2 ^ r.order)) ug (get c frame r) := by
  unfold get
  apply SafeU.bind _ _ _ (check_U ug _ r hcls)
  intro ck ug1 ⟨h1, hfr⟩
  subst ug1
  cases ck with
  | error e => rfl
  | ok _ =>
    have hnt := ntrees_pos ok.geom.toGeomOk (hfr rfl)
    cases frame with
    | some f => exact getAt_U ok ug f r hcls hloc
    | none =>
      simp only
      apply SafeU.bind_classLocals _ _ _ hcls
      apply SafeU.bind _ _ _ (getFirst_U ok ug r hcls hloc hnt)
      intro first ug1 h1
      split
      · rw [UGetPostU_err _ ug _ ug1 h1]; exact getFallback_U ok ug r none hcls hloc
      · exact h1

/-- ghost effect of `put` -/
def UPutPostU (tf : Nat) (ug : UGh) (frame n : Nat) : Res Unit → UGh → Prop
  | .ok _, ug' => ug' = ug.subBase (frame / tf) n
  | .error _, ug' => ug' = ug

/-- **`LLFree::put`** by a thread whose `base` covers the block -/
theorem put_U (ok : CfgOk c) (ug : UGh) (frame : Nat) (r : Request) (hb : 2 ^ r.order ≤ ug.base (frame / c.geom.treeFrames))
    (hcls : r.cls < 8) (hloc : r.locOk c) :
    SafeU c (UPutPostU c.geom.treeFrames ug frame (2 ^ r.order)) ug (put c frame r) := by
  unfold put
  apply SafeU.bind _ _ _ (check_U ug _ r hcls)
  intro ck ug1 ⟨h1, _⟩
  subst ug1
  cases ck with
  | error e => rfl
  | ok _ =>
    simp only
    apply SafeU.bind_low _ _ _ (lowerPut_low c.geom retries frame r.order)
    intro lp _
    cases lp with
    | error e => rfl
    | ok _ =>
      simp only
      generalize 2 ^ r.order = n at hb ⊢
      cases hl : r.loc with
      | none =>
        dsimp only [Bind.bind, Pure.pure, Prog.bind]
        simp only [Bool.false_eq_true, if_false]
        apply SafeU.bind _ _ _ (tput_U ok ug _ n hb)
        intro _ ug2 h2
        exact h2
      | some l =>
        simp only
        apply SafeU.bind _ _ _ (localsPut_U ug r.cls l _ n hb hcls (fun rng hr => hloc l rng hl hr))
        intro b ug2 h2
        cases b with
        | true => simp only [if_true] at h2 ⊢; exact h2
        | false =>
          simp only [Bool.false_eq_true, if_false] at h2 ⊢
          subst ug2
          apply SafeU.bind _ _ _ (tput_U ok ug _ n hb)
          intro _ ug3 h3
          exact h3

end

end LLFree
