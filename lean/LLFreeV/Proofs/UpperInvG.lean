/-
  The upper invariant with the allocation-state side abstracted: `UpperInvG c H P R F m` is
  `UpperInv` without the lower invariant and with an arbitrary per-tree reference count `F i` in
  place of `freeInTree`. Sequentially `F = freeInTree`; under interleavings `F i` is the number
  of frames of tree `i` that are free *or held by some thread* (constant under the steps of the
  lower allocator), and `P`/`R` collect the ghost state of all threads.
-/
import LLFreeV.Proofs.UpperMem
namespace LLFree
open Prog

structure UpperInvG (c : Cfg) (H : Nat → Nat) (P : Nat → Nat) (R : Nat → Prop) (F : Nat → Nat) (m : Mem) : Prop where
  treesSize : m.trees.size = c.ntrees
  slotsSize : m.slots.size = c.nslots
  treeCls : ∀ (i : Nat) (t : Tree), m.trees[i]? = some t → t.cls < 8
  slotTree : ∀ (s : Nat) (l : LTree) (k : Nat), m.slots[s]? = some l → l.present = true → c.slotClass s k →
    ∃ t : Tree, m.trees[l.row / c.geom.treeRows]? = some t ∧ t.reserved = true ∧ k ≤ t.cls
  slotCls : ∀ (s : Nat) (l : LTree), m.slots[s]? = some l → l.present = true → ∃ k, c.slotClass s k
  slotInj : ∀ (s s' : Nat) (l l' : LTree), m.slots[s]? = some l → m.slots[s']? = some l' → l.present = true → l'.present = true →
    l.row / c.geom.treeRows = l'.row / c.geom.treeRows → s = s'
  slotNotR : ∀ (s : Nat) (l : LTree), m.slots[s]? = some l → l.present = true → ¬ R (l.row / c.geom.treeRows)
  resSlot : ∀ (i : Nat) (t : Tree), m.trees[i]? = some t → t.reserved = true →
    R i ∨ ∃ s : Nat, ∃ l : LTree, m.slots[s]? = some l ∧ l.present = true ∧ l.row / c.geom.treeRows = i
  counter : ∀ (i : Nat) (t : Tree), m.trees[i]? = some t →
    t.free + m.slotFree c.geom.treeRows i + P i + H i = F i

section
variable {c : Cfg} {H : Nat → Nat} {P : Nat → Nat} {R : Nat → Prop} {F : Nat → Nat} {m : Mem}

theorem UpperInv.toG (inv : UpperInv c H P R m) : UpperInvG c H P R (m.freeInTree c.geom) m :=
  ⟨inv.treesSize, inv.slotsSize, inv.treeCls, inv.slotTree, inv.slotCls, inv.slotInj, inv.slotNotR, inv.resSlot, inv.counter⟩

theorem UpperInvG.toInv (inv : UpperInvG c H P R (m.freeInTree c.geom) m) (low : LowerInv c m) : UpperInv c H P R m :=
  ⟨low, inv.treesSize, inv.slotsSize, inv.treeCls, inv.slotTree, inv.slotCls, inv.slotInj, inv.slotNotR, inv.resSlot, inv.counter⟩

/-- the reference count and the ghost parameters may be replaced by equal ones; the memory by
    one with the same trees and slots -/
theorem UpperInvG.congr {P' : Nat → Nat} {R' : Nat → Prop} {F' : Nat → Nat} {m' : Mem}
    (inv : UpperInvG c H P R F m) (ht : m'.trees = m.trees) (hs : m'.slots = m.slots)
    (hP : ∀ i, P' i = P i) (hR : ∀ i, R' i ↔ R i) (hF : ∀ i, F' i = F i) : UpperInvG c H P' R' F' m' := by
  have hsf : ∀ i, m'.slotFree c.geom.treeRows i = m.slotFree c.geom.treeRows i := by
    intro i; unfold Mem.slotFree; rw [hs]
  refine ⟨by rw [ht]; exact inv.treesSize, by rw [hs]; exact inv.slotsSize, ?_, ?_, ?_, ?_, ?_, ?_, ?_⟩
  · intro i t h; rw [ht] at h; exact inv.treeCls i t h
  · intro s l k h hp hk; rw [hs] at h; rw [ht]; exact inv.slotTree s l k h hp hk
  · intro s l h hp; rw [hs] at h; exact inv.slotCls s l h hp
  · intro s s' l l' h h' hp hp' e; rw [hs] at h h'; exact inv.slotInj s s' l l' h h' hp hp' e
  · intro s l h hp hr; rw [hs] at h; exact inv.slotNotR s l h hp ((hR _).1 hr)
  · intro i t h hr
    rw [ht] at h
    rcases inv.resSlot i t h hr with h1 | ⟨s, l, h2, h3, h4⟩
    · left; exact (hR i).2 h1
    · right; exact ⟨s, l, by rw [hs]; exact h2, h3, h4⟩
  · intro i t h
    rw [ht] at h
    rw [hsf, hP, hF]; exact inv.counter i t h

/-- **Writing a tree entry.** The caller supplies what the slots that point to the tree, the
    reserved flag and the counters need; every other tree is untouched. -/
theorem UpperInvG.set_tree (inv : UpperInvG c H P R F m) (i : Nat) (t t' : Tree) (h : m.trees[i]? = some t)
    (H' : Nat → Nat) (P' : Nat → Nat) (R' : Nat → Prop)
    (hcls : t'.cls < 8)
    (hslot : ∀ (s : Nat) (l : LTree) (k : Nat), m.slots[s]? = some l → l.present = true → c.slotClass s k →
      l.row / c.geom.treeRows = i → t'.reserved = true ∧ k ≤ t'.cls)
    (hres : t'.reserved = true → R' i ∨ ∃ s : Nat, ∃ l : LTree, m.slots[s]? = some l ∧ l.present = true ∧ l.row / c.geom.treeRows = i)
    (hRi : R' i → ∀ (s : Nat) (l : LTree), m.slots[s]? = some l → l.present = true → l.row / c.geom.treeRows ≠ i)
    (hR : ∀ j, j ≠ i → (R' j ↔ R j))
    (hP : ∀ j, j ≠ i → P' j = P j)
    (hH : ∀ j, j ≠ i → H' j = H j)
    (heq : t'.free + m.slotFree c.geom.treeRows i + P' i + H' i = F i) :
    UpperInvG c H' P' R' F (m.set .tree i t') := by
  have hi : i < m.trees.size := (Array.getElem?_eq_some_iff.1 h).1
  have hget : ∀ j, (m.set .tree i t').trees[j]? = if j = i then some t' else m.trees[j]? := by
    intro j
    simp only [Mem.set_tree_trees, Array.getElem?_setIfInBounds]
    by_cases e : i = j
    · subst e; simp [hi]
    · have : ¬ j = i := fun e' => e e'.symm
      simp [e, this]
  refine {
    treesSize := by simp only [Mem.set_tree_trees, Array.size_setIfInBounds]; exact inv.treesSize
    slotsSize := inv.slotsSize
    treeCls := ?_, slotTree := ?_, slotCls := inv.slotCls, slotInj := inv.slotInj, slotNotR := ?_,
    resSlot := ?_, counter := ?_ }
  · intro j x hx
    rw [hget] at hx
    split at hx
    · cases hx; exact hcls
    · exact inv.treeCls j x hx
  · intro s l k hs hp hk
    rw [hget]
    by_cases e : l.row / c.geom.treeRows = i
    · simp only [e, if_true]
      obtain ⟨h1, h2⟩ := hslot s l k hs hp hk e
      exact ⟨t', rfl, h1, h2⟩
    · simp only [e, if_false]
      exact inv.slotTree s l k hs hp hk
  · intro s l hs hp hr
    by_cases e : l.row / c.geom.treeRows = i
    · rw [e] at hr; exact hRi hr s l hs hp e
    · exact inv.slotNotR s l hs hp ((hR _ e).1 hr)
  · intro j x hx hr
    rw [hget] at hx
    split at hx
    · rename_i e; cases hx; subst e; exact hres hr
    · rename_i e
      rcases inv.resSlot j x hx hr with h1 | h1
      · left; exact (hR j e).2 h1
      · right; exact h1
  · intro j x hx
    rw [hget] at hx
    split at hx
    · rename_i e; cases hx; subst e; exact heq
    · rename_i e; rw [hP j e, hH j e]; exact inv.counter j x hx


/-- **Writing a slot.** -/
theorem UpperInvG.set_slot (inv : UpperInvG c H P R F m) (s : Nat) (l l' : LTree) (h : m.slots[s]? = some l)
    (P' : Nat → Nat) (R' : Nat → Prop)
    (hnew : l'.present = true → (∃ k, c.slotClass s k) ∧ ∀ k, c.slotClass s k →
      ∃ t : Tree, m.trees[l'.row / c.geom.treeRows]? = some t ∧ t.reserved = true ∧ k ≤ t.cls)
    (hinj : l'.present = true → ∀ (s' : Nat) (x : LTree), m.slots[s']? = some x → x.present = true →
      x.row / c.geom.treeRows = l'.row / c.geom.treeRows → s' = s)
    (hnotR : l'.present = true → ¬ R' (l'.row / c.geom.treeRows))
    (hRsub : ∀ j, R' j → R j ∨ (l.present = true ∧ l.row / c.geom.treeRows = j))
    (hold : l.present = true → (l'.present = true ∧ l'.row / c.geom.treeRows = l.row / c.geom.treeRows) ∨ R' (l.row / c.geom.treeRows))
    (hRkeep : ∀ j, R j → R' j ∨ (l'.present = true ∧ l'.row / c.geom.treeRows = j))
    (hP : ∀ i, LTree.freeFor c.geom.treeRows i l' + P' i = LTree.freeFor c.geom.treeRows i l + P i) :
    UpperInvG c H P' R' F (m.set .slot s l') := by
  have hs : s < m.slots.size := (Array.getElem?_eq_some_iff.1 h).1
  have hget : ∀ j, (m.set .slot s l').slots[j]? = if j = s then some l' else m.slots[j]? := by
    intro j
    simp only [Mem.set_slot_slots, Array.getElem?_setIfInBounds]
    by_cases e : s = j
    · subst e; simp [hs]
    · have : ¬ j = s := fun e' => e e'.symm
      simp [e, this]
  have hsf := Mem.slotFree_set_slot m c.geom.treeRows s l l' h
  refine {
    treesSize := inv.treesSize
    slotsSize := by simp only [Mem.set_slot_slots, Array.size_setIfInBounds]; exact inv.slotsSize
    treeCls := inv.treeCls, slotTree := ?_, slotCls := ?_, slotInj := ?_, slotNotR := ?_,
    resSlot := ?_, counter := ?_ }
  · intro s1 x k hx hp hk
    rw [hget] at hx
    split at hx
    · rename_i e; cases hx; subst e; exact (hnew hp).2 k hk
    · exact inv.slotTree s1 x k hx hp hk
  · intro s1 x hx hp
    rw [hget] at hx
    split at hx
    · rename_i e; cases hx; subst e; exact (hnew hp).1
    · exact inv.slotCls s1 x hx hp
  · intro s1 s2 x1 x2 h1 h2 p1 p2 e
    rw [hget] at h1 h2
    split at h1 <;> split at h2
    · rename_i e1 e2; rw [e1, e2]
    · rename_i e1 e2; cases h1; rw [e1]; exact (hinj p1 s2 x2 h2 p2 e.symm).symm
    · rename_i e1 e2; cases h2; rw [e2]; exact hinj p2 s1 x1 h1 p1 e
    · exact inv.slotInj s1 s2 x1 x2 h1 h2 p1 p2 e
  · intro s1 x hx hp hr
    rw [hget] at hx
    split at hx
    · cases hx; exact hnotR hp hr
    · rename_i e1
      rcases hRsub _ hr with h1 | ⟨h1, h2⟩
      · exact inv.slotNotR s1 x hx hp h1
      · exact e1 (inv.slotInj s1 s x l hx h hp h1 h2.symm)
  · intro j t ht hr
    rcases inv.resSlot j t ht hr with h1 | ⟨s0, x, hx, hp, e⟩
    · rcases hRkeep j h1 with h2 | ⟨h2, h3⟩
      · left; exact h2
      · right; exact ⟨s, l', by rw [hget]; simp, h2, h3⟩
    · by_cases es : s0 = s
      · subst es
        rw [h] at hx; cases hx
        rcases hold hp with ⟨h2, h3⟩ | h2
        · right; exact ⟨s0, l', by rw [hget]; simp, h2, by rw [h3]; exact e⟩
        · left; rw [← e]; exact h2
      · right; exact ⟨s0, x, by rw [hget]; simp [es]; exact hx, hp, e⟩
  · intro j t ht
    have := inv.counter j t ht
    have h1 := hsf j
    have h2 := hP j
    omega


end
end LLFree
