/-
  The tree-entry transitions of the hand-written model (`Model/Trees.lean`) are the ones the
  translator regenerates from `core/src/trees.rs` on every run (`Gen/Tree.lean`): for every
  entry and every argument the two agree — same new entry, same refusal, a panic exactly when
  the other panics (messages are not compared) — under the side conditions the bit-field setters
  of the source impose (a tree holds fewer than 2^28 frames, class ids have 3 bits).
-/
import LLFreeV.Gen.Tree
import LLFreeV.Model.Trees
import LLFreeV.Proofs.GenSim
namespace LLFree.GenTree
open LLFree LLFree.Gen.T

def ofR : R Tree → Upd Tree
  | .ok t => .set t
  | .error s => .panic s

def ofRO : R (Option Tree) → Upd Tree
  | .ok (some t) => .set t
  | .ok none => .skip
  | .error s => .panic s

def opOf : Option Gen.T.Op → Option Tree.Op
  | none => none
  | some .online => some .online
  | some .offline => some .offline

theorem withFree_ok (self : Tree) (v : Nat) (h : v < 2 ^ 28) : withFree self v = .ok { self with free := v } := by
  unfold withFree; rw [if_pos h]; rfl
theorem withClass_ok (self : Tree) (v : Nat) (h : v < 8) : withClass self v = .ok { self with cls := v } := by
  unfold withClass; rw [if_pos (by omega)]; rfl
theorem withClass_err (self : Tree) (v : Nat) (h : ¬ v < 8) : withClass self v = .error "value out of bounds" := by
  unfold withClass; rw [if_neg (by omega)]; rfl
theorem withReserved_ok (self : Tree) (v : Bool) : withReserved self v = .ok { self with reserved := v } := rfl

/-- `Tree::with` -/
theorem with_eq (tf free : Nat) (reserved : Bool) (cls : Nat) (htf : tf < 2 ^ 28) :
    Sim (ofR (with' tf free reserved cls)) (Tree.with tf free reserved cls) := by
  unfold with' Tree.with Tree.clsOk
  by_cases h : free ≤ tf
  · have h' : ¬ free > tf := by omega
    by_cases hc : cls < 8
    · simp [h, h', hc, withFree_ok _ _ (show free < 2 ^ 28 by omega), withReserved_ok, withClass_ok _ _ hc, ofR, Tree.zero,
        bind, Except.bind, pure, Except.pure]
    · simp [h, h', hc, withFree_ok _ _ (show free < 2 ^ 28 by omega), withReserved_ok, withClass_err _ _ hc, ofR, Tree.zero,
        bind, Except.bind, pure, Except.pure]
  · have h' : free > tf := by omega
    simp [h, h', ofR, bind, Except.bind, throw, throwThe, MonadExceptOf.throw]

/-- `Tree::put` -/
theorem put_eq (tf : Nat) (self : Tree) (free : Nat) (policy : PolicyFn) (dflt : Nat) (htf : tf < 2 ^ 28) :
    Sim (ofR (Gen.T.put tf self free policy dflt)) (Tree.put tf self free policy dflt) := by
  unfold Gen.T.put Tree.put Tree.clsOk
  by_cases h : self.free + free ≤ tf
  · have h' : ¬ self.free + free > tf := by omega
    have hw : ∀ t : Tree, withFree t (self.free + free) = .ok { t with free := self.free + free } :=
      fun t => withFree_ok t _ (by omega)
    by_cases hc : (self.free + free == tf && !self.reserved && policy self.cls dflt (self.free + free) != .invalid) = true
    · by_cases hd : dflt < 8
      · simp [h, h', hc, hd, hw, withClass_ok _ _ hd, ofR, bind, Except.bind, pure, Except.pure]
      · simp [h, h', hc, hd, hw, withClass_err _ _ hd, ofR, bind, Except.bind, pure, Except.pure]
    · simp [h, h', hc, hw, ofR, bind, Except.bind, pure, Except.pure]
  · have h' : self.free + free > tf := by omega
    simp [h, h', ofR, bind, Except.bind, throw, throwThe, MonadExceptOf.throw]

/-- `Tree::steal` -/
theorem steal_eq (self : Tree) (cls free : Nat) (policy : PolicyFn) (hc : cls < 8) (hs : self.cls < 8) (hf : self.free < 2 ^ 28) :
    Sim (ofRO (Gen.T.steal self cls free policy)) (Upd.ofOption (Tree.steal self cls free policy)) := by
  unfold Gen.T.steal Tree.steal
  have hw : ∀ t : Tree, withFree t (self.free - free) = .ok { t with free := self.free - free } :=
    fun t => withFree_ok t _ (by omega)
  by_cases hge : free ≤ self.free
  · cases hr : self.reserved
    · cases hp : policy cls self.cls free <;>
        simp [hge, hr, hp, hw, isMatch, withClass_ok _ _ hc, withClass_ok _ _ hs, ofRO, Upd.ofOption, bind, Except.bind, pure, Except.pure]
    · simp [hge, hr, ofRO, Upd.ofOption, pure, Except.pure]
  · simp [hge, ofRO, Upd.ofOption, pure, Except.pure]

/-- `Tree::reserve_or_steal` -/
theorem reserveOrSteal_eq (tf : Nat) (self : Tree) (free : Nat) (policy : PolicyFn) (cls : Nat) (htf : tf < 2 ^ 28) (hf : self.free < 2 ^ 28) :
    Sim (ofRO (Gen.T.reserveOrSteal tf self free policy cls)) (Tree.reserveOrSteal tf self free policy cls) := by
  unfold Gen.T.reserveOrSteal Tree.reserveOrSteal
  have hw : ∀ t : Tree, withFree t (self.free - free) = .ok { t with free := self.free - free } :=
    fun t => withFree_ok t _ (by omega)
  have hwith := with_eq tf 0 true cls htf
  by_cases hge : free ≤ self.free
  · cases hr : self.reserved
    · cases hp : policy cls self.cls free
      case «match» n =>
        simp only [hge, hr, hp, isMatch, decide_true, Bool.not_false, Bool.and_self, if_true, Bool.true_or, ge_iff_le]
        revert hwith
        cases with' tf 0 true cls <;> cases Tree.with tf 0 true cls <;> simp [ofR, ofRO, Sim, bind, Except.bind, pure, Except.pure]
      case demote =>
        simp only [hge, hr, hp, isMatch, decide_true, Bool.not_false, Bool.and_self, if_true, Bool.false_or, beq_self_eq_true, ge_iff_le]
        revert hwith
        cases with' tf 0 true cls <;> cases Tree.with tf 0 true cls <;> simp [ofR, ofRO, Sim, bind, Except.bind, pure, Except.pure]
      case steal => simp [hge, hr, hp, hw, isMatch, ofRO, bind, Except.bind, pure, Except.pure]
      case invalid => simp [hge, hr, hp, hw, isMatch, ofRO, bind, Except.bind, pure, Except.pure]
    · simp [hge, hr, ofRO, pure, Except.pure]
  · simp [hge, ofRO, pure, Except.pure]

/-- `Tree::sync_steal` -/
theorem syncSteal_eq (self : Tree) (min : Nat) :
    Sim (ofRO (Gen.T.syncSteal self min)) (Upd.ofOption (Tree.syncSteal self min)) := by
  unfold Gen.T.syncSteal Tree.syncSteal
  by_cases h : (self.reserved && decide (self.free ≥ min)) = true
  · simp [h, withFree_ok _ 0 (by omega), ofRO, Upd.ofOption, bind, Except.bind, pure, Except.pure]
  · simp [h, ofRO, Upd.ofOption, pure, Except.pure]

/-- `Tree::unreserve_add` -/
theorem unreserveAdd_eq (tf : Nat) (self : Tree) (free cls : Nat) (policy : PolicyFn) (dflt : Nat) (htf : tf < 2 ^ 28) (hs : self.cls < 8) :
    Sim (ofRO (Gen.T.unreserveAdd tf self free cls policy dflt)) (Tree.unreserveAdd tf self free cls policy dflt) := by
  unfold Gen.T.unreserveAdd Tree.unreserveAdd Tree.clsOk
  have key : ∀ t : Tree, Sim (ofRO (do let x ← Gen.T.put tf t free policy dflt; pure (some x))) (Tree.put tf t free policy dflt) := by
    intro t
    have := put_eq tf t free policy dflt htf
    revert this
    cases Gen.T.put tf t free policy dflt <;> cases Tree.put tf t free policy dflt <;> simp [ofR, ofRO, Sim, bind, Except.bind, pure, Except.pure]
  cases hr : self.reserved
  · simp [ofRO, pure, Except.pure]
  · cases hp : policy cls self.cls free
    case «match» n =>
      have := key { self with reserved := false }
      simpa [hp, isMatch, withReserved_ok, withClass_ok _ _ hs, bind, Except.bind, pure, Except.pure] using this
    case demote =>
      by_cases hc : cls < 8
      · have := key { self with reserved := false, cls := cls }
        simpa [hp, hc, isMatch, withReserved_ok, withClass_ok _ _ hc, bind, Except.bind, pure, Except.pure] using this
      · simp [hp, hc, isMatch, withReserved_ok, withClass_err _ _ hc, ofRO, bind, Except.bind, pure, Except.pure]
    case steal => simp [hp, isMatch, ofRO, bind, Except.bind, throw, throwThe, MonadExceptOf.throw]
    case invalid => simp [hp, isMatch, ofRO, bind, Except.bind, throw, throwThe, MonadExceptOf.throw]

set_option hygiene false in
/-- the body of `change_eq` once the matcher is decided (`h1`, `h3`, `hm` in scope) -/
local macro "chg_body" : tactic => `(tactic| (
  cases ccls with
  | none =>
    cases op with
    | none => simp [h1, h3, hm, opOf, ofRO, bind, Except.bind, pure, Except.pure]
    | some o =>
      cases o with
      | offline => simp [h1, h3, hm, opOf, withFree, h28, ofRO, bind, Except.bind, pure, Except.pure]
      | online =>
        by_cases hz : self.free = 0
        · have hm0 : mfree = 0 := by omega
          by_cases hf : ff < 2 ^ 28 <;>
            simp [h1, hm, hz, hf, hm0, opOf, withFree, ofRO, bind, Except.bind, pure, Except.pure, throw, throwThe, MonadExceptOf.throw]
        · by_cases hf : ff < 2 ^ 28 <;>
            simp [h1, h3, hm, hz, hf, opOf, withFree, ofRO, bind, Except.bind, pure, Except.pure, throw, throwThe, MonadExceptOf.throw]
  | some k =>
    by_cases hk : k < 8
    · have hk' : k < 2 ^ 3 := by omega
      cases op with
      | none => simp [h1, h3, hm, hk, hk', opOf, withClass, ofRO, bind, Except.bind, pure, Except.pure]
      | some o =>
        cases o with
        | offline => simp [h1, h3, hm, hk, hk', opOf, withClass, withFree, h28, ofRO, bind, Except.bind, pure, Except.pure]
        | online =>
          by_cases hz : self.free = 0
          · have hm0 : mfree = 0 := by omega
            by_cases hf : ff < 2 ^ 28 <;>
              simp [h1, hm, hz, hf, hm0, hk, hk', opOf, withClass, withFree, ofRO, bind, Except.bind, pure, Except.pure, throw, throwThe, MonadExceptOf.throw]
          · by_cases hf : ff < 2 ^ 28 <;>
              simp [h1, h3, hm, hz, hf, hk, hk', opOf, withClass, withFree, ofRO, bind, Except.bind, pure, Except.pure, throw, throwThe, MonadExceptOf.throw]
    · have hk' : ¬ k < 2 ^ 3 := by omega
      simp [h1, h3, hm, hk, hk', withClass, ofRO, bind, Except.bind, pure, Except.pure, throw, throwThe, MonadExceptOf.throw]))

/-- `Tree::change` -/
theorem change_eq (self : Tree) (mcls : Option Nat) (mfree : Nat) (ccls : Option Nat) (op : Option Gen.T.Op) (ff : Nat) :
    Sim (ofRO (Gen.T.change self mcls mfree ⟨ccls, op⟩ ff)) (Tree.change self mcls mfree ccls (opOf op) ff) := by
  unfold Gen.T.change Tree.change Tree.matchCls Tree.clsOk Tree.changeOp
  have h28 : (0 : Nat) < 2 ^ 28 := by omega
  by_cases h1 : self.reserved = false
  case neg => simp [h1, ofRO, pure, Except.pure]
  by_cases h3 : mfree ≤ self.free
  case neg => simp [h1, h3, ofRO, pure, Except.pure]
  cases mcls with
  | none => have hm : True := trivial; chg_body
  | some mk =>
    by_cases hm : mk = self.cls
    · chg_body
    · simp [h1, h3, hm, ofRO, pure, Except.pure]

end LLFree.GenTree
