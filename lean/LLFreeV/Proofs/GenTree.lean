/-
  The tree-entry transitions of the hand-written model (`Model/Trees.lean`) are the ones the
  translator regenerates from `core/src/trees.rs` on every run (`Gen/Tree.lean`): for every
  entry and every argument the two agree — same new entry, same refusal, a panic exactly when
  the other panics (messages are not compared) — under the side conditions the bit-field setters
  of the source impose (a tree holds fewer than 2^28 frames, class ids have 3 bits).
-/
import LLFreeV.Gen.Tree
import LLFreeV.Gen.Local
import LLFreeV.Gen.Huge
import LLFreeV.Gen.Policy
import LLFreeV.Model.Policies
import LLFreeV.Model.Lower
import LLFreeV.Model.Trees
import LLFreeV.Model.Locals
namespace LLFree.GenTree
open LLFree LLFree.Gen.T

/-- outcomes agree up to the panic message -/
def Sim {β : Type} : Upd β → Upd β → Prop
  | .skip, .skip => True
  | .set a, .set b => a = b
  | .panic _, .panic _ => True
  | _, _ => False

def ofR : R Tree → Upd Tree
  | .ok t => .set t
  | .error s => .panic s

def ofRO : R (Option Tree) → Upd Tree
  | .ok (some t) => .set t
  | .ok none => .skip
  | .error s => .panic s

def opOf : Option Gen.T.Op → Option Tree.Op
  | none => none
  | some .online => some .online
  | some .offline => some .offline

@[simp] theorem sim_skip {β : Type} : Sim (.skip : Upd β) .skip := trivial
@[simp] theorem sim_set {β : Type} (a b : β) : Sim (.set a) (.set b) ↔ a = b := Iff.rfl
@[simp] theorem sim_panic {β : Type} (s t : String) : Sim (.panic s : Upd β) (.panic t) := trivial

theorem withFree_ok (self : Tree) (v : Nat) (h : v < 2 ^ 28) : withFree self v = .ok { self with free := v } := by
  unfold withFree; rw [if_pos h]; rfl
theorem withClass_ok (self : Tree) (v : Nat) (h : v < 8) : withClass self v = .ok { self with cls := v } := by
  unfold withClass; rw [if_pos (by omega)]; rfl
theorem withClass_err (self : Tree) (v : Nat) (h : ¬ v < 8) : withClass self v = .error "value out of bounds" := by
  unfold withClass; rw [if_neg (by omega)]; rfl
theorem withReserved_ok (self : Tree) (v : Bool) : withReserved self v = .ok { self with reserved := v } := rfl

/-- `Tree::with` -/
theorem with_eq (tf free : Nat) (reserved : Bool) (cls : Nat) (htf : tf < 2 ^ 28) :
    Sim (ofR (with' tf free reserved cls)) (Tree.with tf free reserved cls) := by
  unfold with' Tree.with Tree.clsOk
  by_cases h : free ≤ tf
  · have h' : ¬ free > tf := by omega
    by_cases hc : cls < 8
    · simp [h, h', hc, withFree_ok _ _ (show free < 2 ^ 28 by omega), withReserved_ok, withClass_ok _ _ hc, ofR, Tree.zero,
        bind, Except.bind, pure, Except.pure]
    · simp [h, h', hc, withFree_ok _ _ (show free < 2 ^ 28 by omega), withReserved_ok, withClass_err _ _ hc, ofR, Tree.zero,
        bind, Except.bind, pure, Except.pure]
  · have h' : free > tf := by omega
    simp [h, h', ofR, bind, Except.bind, throw, throwThe, MonadExceptOf.throw]

/-- `Tree::put` -/
theorem put_eq (tf : Nat) (self : Tree) (free : Nat) (policy : PolicyFn) (dflt : Nat) (htf : tf < 2 ^ 28) :
    Sim (ofR (Gen.T.put tf self free policy dflt)) (Tree.put tf self free policy dflt) := by
  unfold Gen.T.put Tree.put Tree.clsOk
  by_cases h : self.free + free ≤ tf
  · have h' : ¬ self.free + free > tf := by omega
    have hw : ∀ t : Tree, withFree t (self.free + free) = .ok { t with free := self.free + free } :=
      fun t => withFree_ok t _ (by omega)
    by_cases hc : (self.free + free == tf && !self.reserved && policy self.cls dflt (self.free + free) != .invalid) = true
    · by_cases hd : dflt < 8
      · simp [h, h', hc, hd, hw, withClass_ok _ _ hd, ofR, bind, Except.bind, pure, Except.pure]
      · simp [h, h', hc, hd, hw, withClass_err _ _ hd, ofR, bind, Except.bind, pure, Except.pure]
    · simp [h, h', hc, hw, ofR, bind, Except.bind, pure, Except.pure]
  · have h' : self.free + free > tf := by omega
    simp [h, h', ofR, bind, Except.bind, throw, throwThe, MonadExceptOf.throw]

/-- `Tree::steal` -/
theorem steal_eq (self : Tree) (cls free : Nat) (policy : PolicyFn) (hc : cls < 8) (hs : self.cls < 8) (hf : self.free < 2 ^ 28) :
    Sim (ofRO (Gen.T.steal self cls free policy)) (Upd.ofOption (Tree.steal self cls free policy)) := by
  unfold Gen.T.steal Tree.steal
  have hw : ∀ t : Tree, withFree t (self.free - free) = .ok { t with free := self.free - free } :=
    fun t => withFree_ok t _ (by omega)
  by_cases hge : free ≤ self.free
  · cases hr : self.reserved
    · cases hp : policy cls self.cls free <;>
        simp [hge, hr, hp, hw, isMatch, withClass_ok _ _ hc, withClass_ok _ _ hs, ofRO, Upd.ofOption, bind, Except.bind, pure, Except.pure]
    · simp [hge, hr, ofRO, Upd.ofOption, pure, Except.pure]
  · simp [hge, ofRO, Upd.ofOption, pure, Except.pure]

/-- `Tree::reserve_or_steal` -/
theorem reserveOrSteal_eq (tf : Nat) (self : Tree) (free : Nat) (policy : PolicyFn) (cls : Nat) (htf : tf < 2 ^ 28) (hf : self.free < 2 ^ 28) :
    Sim (ofRO (Gen.T.reserveOrSteal tf self free policy cls)) (Tree.reserveOrSteal tf self free policy cls) := by
  unfold Gen.T.reserveOrSteal Tree.reserveOrSteal
  have hw : ∀ t : Tree, withFree t (self.free - free) = .ok { t with free := self.free - free } :=
    fun t => withFree_ok t _ (by omega)
  have hwith := with_eq tf 0 true cls htf
  by_cases hge : free ≤ self.free
  · cases hr : self.reserved
    · cases hp : policy cls self.cls free
      case «match» n =>
        simp only [hge, hr, hp, isMatch, decide_true, Bool.not_false, Bool.and_self, if_true, Bool.true_or, ge_iff_le]
        revert hwith
        cases with' tf 0 true cls <;> cases Tree.with tf 0 true cls <;> simp [ofR, ofRO, Sim, bind, Except.bind, pure, Except.pure]
      case demote =>
        simp only [hge, hr, hp, isMatch, decide_true, Bool.not_false, Bool.and_self, if_true, Bool.false_or, beq_self_eq_true, ge_iff_le]
        revert hwith
        cases with' tf 0 true cls <;> cases Tree.with tf 0 true cls <;> simp [ofR, ofRO, Sim, bind, Except.bind, pure, Except.pure]
      case steal => simp [hge, hr, hp, hw, isMatch, ofRO, bind, Except.bind, pure, Except.pure]
      case invalid => simp [hge, hr, hp, hw, isMatch, ofRO, bind, Except.bind, pure, Except.pure]
    · simp [hge, hr, ofRO, pure, Except.pure]
  · simp [hge, ofRO, pure, Except.pure]

/-- `Tree::sync_steal` -/
theorem syncSteal_eq (self : Tree) (min : Nat) :
    Sim (ofRO (Gen.T.syncSteal self min)) (Upd.ofOption (Tree.syncSteal self min)) := by
  unfold Gen.T.syncSteal Tree.syncSteal
  by_cases h : (self.reserved && decide (self.free ≥ min)) = true
  · simp [h, withFree_ok _ 0 (by omega), ofRO, Upd.ofOption, bind, Except.bind, pure, Except.pure]
  · simp [h, ofRO, Upd.ofOption, pure, Except.pure]

/-- `Tree::unreserve_add` -/
theorem unreserveAdd_eq (tf : Nat) (self : Tree) (free cls : Nat) (policy : PolicyFn) (dflt : Nat) (htf : tf < 2 ^ 28) (hs : self.cls < 8) :
    Sim (ofRO (Gen.T.unreserveAdd tf self free cls policy dflt)) (Tree.unreserveAdd tf self free cls policy dflt) := by
  unfold Gen.T.unreserveAdd Tree.unreserveAdd Tree.clsOk
  have key : ∀ t : Tree, Sim (ofRO (do let x ← Gen.T.put tf t free policy dflt; pure (some x))) (Tree.put tf t free policy dflt) := by
    intro t
    have := put_eq tf t free policy dflt htf
    revert this
    cases Gen.T.put tf t free policy dflt <;> cases Tree.put tf t free policy dflt <;> simp [ofR, ofRO, Sim, bind, Except.bind, pure, Except.pure]
  cases hr : self.reserved
  · simp [ofRO, pure, Except.pure]
  · cases hp : policy cls self.cls free
    case «match» n =>
      have := key { self with reserved := false }
      simpa [hp, isMatch, withReserved_ok, withClass_ok _ _ hs, bind, Except.bind, pure, Except.pure] using this
    case demote =>
      by_cases hc : cls < 8
      · have := key { self with reserved := false, cls := cls }
        simpa [hp, hc, isMatch, withReserved_ok, withClass_ok _ _ hc, bind, Except.bind, pure, Except.pure] using this
      · simp [hp, hc, isMatch, withReserved_ok, withClass_err _ _ hc, ofRO, bind, Except.bind, pure, Except.pure]
    case steal => simp [hp, isMatch, ofRO, bind, Except.bind, throw, throwThe, MonadExceptOf.throw]
    case invalid => simp [hp, isMatch, ofRO, bind, Except.bind, throw, throwThe, MonadExceptOf.throw]

set_option hygiene false in
/-- the body of `change_eq` once the matcher is decided (`h1`, `h3`, `hm` in scope) -/
local macro "chg_body" : tactic => `(tactic| (
  cases ccls with
  | none =>
    cases op with
    | none => simp [h1, h3, hm, opOf, ofRO, bind, Except.bind, pure, Except.pure]
    | some o =>
      cases o with
      | offline => simp [h1, h3, hm, opOf, withFree, h28, ofRO, bind, Except.bind, pure, Except.pure]
      | online =>
        by_cases hz : self.free = 0
        · have hm0 : mfree = 0 := by omega
          by_cases hf : ff < 2 ^ 28 <;>
            simp [h1, hm, hz, hf, hm0, opOf, withFree, ofRO, bind, Except.bind, pure, Except.pure, throw, throwThe, MonadExceptOf.throw]
        · by_cases hf : ff < 2 ^ 28 <;>
            simp [h1, h3, hm, hz, hf, opOf, withFree, ofRO, bind, Except.bind, pure, Except.pure, throw, throwThe, MonadExceptOf.throw]
  | some k =>
    by_cases hk : k < 8
    · have hk' : k < 2 ^ 3 := by omega
      cases op with
      | none => simp [h1, h3, hm, hk, hk', opOf, withClass, ofRO, bind, Except.bind, pure, Except.pure]
      | some o =>
        cases o with
        | offline => simp [h1, h3, hm, hk, hk', opOf, withClass, withFree, h28, ofRO, bind, Except.bind, pure, Except.pure]
        | online =>
          by_cases hz : self.free = 0
          · have hm0 : mfree = 0 := by omega
            by_cases hf : ff < 2 ^ 28 <;>
              simp [h1, hm, hz, hf, hm0, hk, hk', opOf, withClass, withFree, ofRO, bind, Except.bind, pure, Except.pure, throw, throwThe, MonadExceptOf.throw]
          · by_cases hf : ff < 2 ^ 28 <;>
              simp [h1, h3, hm, hz, hf, hk, hk', opOf, withClass, withFree, ofRO, bind, Except.bind, pure, Except.pure, throw, throwThe, MonadExceptOf.throw]
    · have hk' : ¬ k < 2 ^ 3 := by omega
      simp [h1, h3, hm, hk, hk', withClass, ofRO, bind, Except.bind, pure, Except.pure, throw, throwThe, MonadExceptOf.throw]))

/-- `Tree::change` -/
theorem change_eq (self : Tree) (mcls : Option Nat) (mfree : Nat) (ccls : Option Nat) (op : Option Gen.T.Op) (ff : Nat) :
    Sim (ofRO (Gen.T.change self mcls mfree ⟨ccls, op⟩ ff)) (Tree.change self mcls mfree ccls (opOf op) ff) := by
  unfold Gen.T.change Tree.change Tree.matchCls Tree.clsOk Tree.changeOp
  have h28 : (0 : Nat) < 2 ^ 28 := by omega
  by_cases h1 : self.reserved = false
  case neg => simp [h1, ofRO, pure, Except.pure]
  by_cases h3 : mfree ≤ self.free
  case neg => simp [h1, h3, ofRO, pure, Except.pure]
  cases mcls with
  | none => have hm : True := trivial; chg_body
  | some mk =>
    by_cases hm : mk = self.cls
    · chg_body
    · simp [h1, h3, hm, ofRO, pure, Except.pure]

/-! ### local reservations (`impl LocalTree`, `Gen/Local.lean`) -/
section
open LLFree.Gen.L

def ofRL : Gen.L.R LTree → Upd LTree
  | .ok t => .set t
  | .error s => .panic s

def ofROL : Gen.L.R (Option LTree) → Upd LTree
  | .ok (some t) => .set t
  | .ok none => .skip
  | .error s => .panic s

/-- `LocalTree::with` -/
theorem lwith_eq (row free : Nat) : Sim (ofRL (Gen.L.with' row free)) (LTree.with row free) := by
  unfold Gen.L.with' LTree.with
  by_cases hr : row < 2 ^ 44
  · have hr' : ¬ row ≥ 2 ^ 44 := by omega
    by_cases hf : free < 2 ^ 19
    · have hf' : ¬ free ≥ 2 ^ 19 := by omega
      simp [hr, hf, hr', hf', Gen.L.withRow, Gen.L.withFree, Gen.L.withPresent, LTree.zero, ofRL, bind, Except.bind, pure, Except.pure]
    · have hf' : free ≥ 2 ^ 19 := by omega
      simp [hr, hf, hr', hf', Gen.L.withRow, Gen.L.withFree, Gen.L.withPresent, LTree.zero, ofRL, bind, Except.bind, pure, Except.pure,
        throw, throwThe, MonadExceptOf.throw]
  · have hr' : row ≥ 2 ^ 44 := by omega
    simp [hr, hr', Gen.L.withRow, LTree.zero, ofRL, bind, Except.bind, pure, Except.pure, throw, throwThe, MonadExceptOf.throw]

/-- `LocalTree::none` -/
theorem lnone_eq : Gen.L.none' = .ok LTree.none := rfl

/-- `LocalTree::get` -/
theorem lget_eq (tr : Nat) (self : LTree) (tree : Option Nat) (free : Nat) (hf : self.free < 2 ^ 19) :
    Sim (ofROL (Gen.L.get tr self tree free)) (Upd.ofOption (LTree.get tr self tree free)) := by
  unfold Gen.L.get LTree.get
  have hw : self.free - free < 2 ^ 19 := by omega
  cases hp : self.present
  · simp [ofROL, Upd.ofOption, pure, Except.pure]
  · cases tree with
    | none =>
      by_cases hge : free ≤ self.free <;>
        simp [hp, hge, hw, Gen.L.withFree, ofROL, Upd.ofOption, bind, Except.bind, pure, Except.pure]
    | some i =>
      by_cases hi : self.row / tr = i
      · by_cases hge : free ≤ self.free <;>
          simp [hp, hi, hge, hw, Gen.L.withFree, ofROL, Upd.ofOption, bind, Except.bind, pure, Except.pure]
      · simp [hp, hi, ofROL, Upd.ofOption, pure, Except.pure]

/-- `LocalTree::put` -/
theorem lput_eq (tr tf : Nat) (self : LTree) (tree free : Nat) (htf : tf < 2 ^ 19) :
    Sim (ofROL (Gen.L.put tr tf self tree free)) (LTree.put tr tf self tree free) := by
  unfold Gen.L.put LTree.put
  cases hp : self.present
  · simp [ofROL, pure, Except.pure]
  · by_cases hi : self.row / tr = tree
    · by_cases hle : self.free + free ≤ tf
      · have h1 : ¬ self.free + free > tf := by omega
        have h2 : self.free + free < 2 ^ 19 := by omega
        simp [hp, hi, hle, h1, h2, Gen.L.withFree, ofROL, bind, Except.bind, pure, Except.pure]
      · have h1 : self.free + free > tf := by omega
        simp [hp, hi, hle, h1, ofROL, bind, Except.bind, pure, Except.pure, throw, throwThe, MonadExceptOf.throw]
    · simp [hp, hi, ofROL, pure, Except.pure]

/-- `LocalTree::set_start` -/
theorem lsetStart_eq (tr : Nat) (self : LTree) (row : Nat) :
    Sim (ofROL (Gen.L.setStart tr self row)) (LTree.setStart tr self row) := by
  unfold Gen.L.setStart LTree.setStart
  by_cases hc : (self.present && self.row / tr == row / tr && self.row != row) = true
  · by_cases hr : row < 2 ^ 44
    · have : ¬ row ≥ 2 ^ 44 := by omega
      simp [hc, hr, this, Gen.L.withRow, ofROL, bind, Except.bind, pure, Except.pure]
    · have : row ≥ 2 ^ 44 := by omega
      simp [hc, hr, this, Gen.L.withRow, ofROL, bind, Except.bind, pure, Except.pure, throw, throwThe, MonadExceptOf.throw]
  · simp [hc, ofROL, pure, Except.pure]

end

/-! ### table entries of the lower allocator (`impl HugeEntry`, `Gen/Huge.lean`) -/
section
open LLFree.Gen.H

def ofRON : Gen.H.R (Option Nat) → Upd Nat
  | .ok (some t) => .set t
  | .ok none => .skip
  | .error s => .panic s

theorem hnewHuge_eq : Gen.H.newHuge = .ok HugeMarker := rfl
theorem hnewWith_eq (f : Nat) : Gen.H.newWith f = .ok (Huge.newWith f) := by
  unfold Gen.H.newWith Gen.H.withCount Huge.newWith
  have : f % 2 ^ 16 < 2 ^ 16 := Nat.mod_lt _ (by omega)
  simp [this, bind, Except.bind, pure, Except.pure]
theorem hhuge_eq (e : Nat) : Gen.H.huge e = .ok (Huge.isHuge e) := rfl
theorem hfree_eq (e : Nat) : Gen.H.free e = .ok (Huge.free e) := by
  unfold Gen.H.free Huge.free
  rw [hhuge_eq]
  cases Huge.isHuge e <;> rfl

/-- `HugeEntry::dec` -/
theorem hdec_eq (e n : Nat) : Sim (ofRON (Gen.H.dec e n)) (Upd.ofOption (Huge.dec e n)) := by
  unfold Gen.H.dec Huge.dec
  simp only [hhuge_eq, hfree_eq, hnewWith_eq]
  cases hh : Huge.isHuge e
  · by_cases hge : n ≤ Huge.free e
    · simp [hge, csub, hnewWith_eq, ofRON, Upd.ofOption, bind, Except.bind, pure, Except.pure]
    · simp [hge, ofRON, Upd.ofOption, bind, Except.bind, pure, Except.pure]
  · simp [ofRON, Upd.ofOption, bind, Except.bind, pure, Except.pure]

/-- `HugeEntry::inc` (the source evaluates `Bitfield::LEN - num_frames` only for an entry that is not
    a marker; the model traps on `n > len` regardless — callers pass `n ≤ len`) -/
theorem hinc_eq (len e n : Nat) (hn : n ≤ len) : Sim (ofRON (Gen.H.inc len e n)) (Huge.inc len e n) := by
  unfold Gen.H.inc Huge.inc
  have hn' : ¬ n > len := by omega
  simp only [hhuge_eq, hfree_eq]
  cases hh : Huge.isHuge e
  · by_cases hle : Huge.free e ≤ len - n
    · simp [hn, hn', hle, csub, hnewWith_eq, ofRON, bind, Except.bind, pure, Except.pure]
    · simp [hn, hn', hle, csub, ofRON, bind, Except.bind, pure, Except.pure]
  · simp [hn', ofRON, bind, Except.bind, pure, Except.pure]

end

/-! ### the built-in policies (`Gen/Policy.lean`) -/

theorem simple_eq (tf : Nat) : Gen.P.simple tf = simplePolicy tf := by
  funext r t f
  unfold Gen.P.simple simplePolicy orderedPolicy
  by_cases h1 : r > t <;> by_cases h2 : r < t <;> by_cases h3 : f ≥ tf / 2 <;> by_cases h4 : f ≥ tf / 64 <;> simp [h1, h2, h3, h4]

theorem movable_eq (tf : Nat) : Gen.P.movable tf = movablePolicy tf := by
  funext r t f
  unfold Gen.P.movable movablePolicy orderedPolicy
  by_cases h1 : r > t <;> by_cases h2 : r < t <;> by_cases h3 : f ≥ tf / 2 <;> by_cases h4 : f ≥ tf / 64 <;> simp [h1, h2, h3, h4]

theorem eval_eq (pmin pmax gmin gmax : Nat) : Gen.P.eval pmin pmax gmin gmax = evalPolicy pmin pmax gmin gmax := by
  funext r t f
  unfold Gen.P.eval evalPolicy orderedPolicy
  by_cases h1 : r > t <;> by_cases h2 : r < t <;> simp [h1, h2]

end LLFree.GenTree
