/-
  Sequential specification of `Lower::get_at` (targeted allocation) against the ownership
  specification, with preservation of `LowerInv`.
-/
import LLFreeV.Proofs.LowerPut
namespace LLFree
open Prog
section
variable {c : Cfg}

/-- the specification allows allocating the block: every frame of it is free -/
def GetAllowed (c : Cfg) (m : Mem) (frame order : Nat) : Prop :=
  ∀ i, i < 2 ^ order → m.allocated c.geom (frame + i) = false

/-- abstract effect of a successful allocation of the block -/
structure GetPost (c : Cfg) (m m' : Mem) (frame order : Nat) : Prop where
  alloc : ∀ f, m'.allocated c.geom f = (m.allocated c.geom f || inBlock frame order f)
  whole : ∀ h, m'.whole h = (m.whole h || (decide (c.geom.hugeOrder ≤ order) &&
    (decide (frame / c.geom.hugeFrames ≤ h) && decide (h * c.geom.hugeFrames < frame + 2 ^ order))))
  trees : m'.trees = m.trees
  slots : m'.slots = m.slots
  inv : LowerInv c m'

theorem Mem.set_huge_twice (m : Mem) (i : Nat) (v : Nat) (h : m.huge[i]? = some v) (w : Nat) :
    (m.set .huge i w).set .huge i v = m := by
  have hlt : i < m.huge.size := (Array.getElem?_eq_some_iff.1 h).1
  apply Mem.ext'
  · rfl
  · simp only [Mem.set_huge_huge]
    apply Array.ext_getElem?
    intro j
    simp only [Array.getElem?_setIfInBounds, Array.size_setIfInBounds]
    by_cases e : i = j
    · subst e
      simp [hlt]
      have := (Array.getElem?_eq_some_iff.1 h).2
      exact this.symm
    · simp [e]
  · rfl
  · rfl

/-- under the invariant, a huge frame's frames are all free iff its entry is the full counter -/
theorem LowerInv.huge_free_iff (okg : GeomOk c.geom) (h16 : c.geom.hugeFrames < 65535) {m : Mem} (inv : LowerInv c m)
    (h : Nat) (hh : h < c.nhuge) :
    (∀ i, i < c.geom.hugeFrames → m.allocated c.geom (h * c.geom.hugeFrames + i) = false) ↔
      m.hugeE h = c.geom.hugeFrames := by
  have hHF := okg.hf_pos
  constructor
  · intro hall
    have h0 := hall 0 hHF
    unfold Mem.allocated at h0
    rw [Nat.add_zero, Nat.mul_div_cancel _ hHF] at h0
    have hnm : Huge.isHuge (m.hugeE h) = false := by
      cases hx : Huge.isHuge (m.hugeE h) with
      | false => rfl
      | true => rw [hx] at h0; simp at h0
    rw [inv.count h hh hnm, zerosIn_eq_full_iff]
    intro i hi
    have := hall i hi
    unfold Mem.allocated at this
    rw [div_hf_mul_add c.geom hHF h i hi, hnm] at this
    simpa using this
  · intro hfull i hi
    have hnm : Huge.isHuge (m.hugeE h) = false := by
      rw [hfull]; simp [Huge.isHuge, HugeMarker]; omega
    have := (inv.full_in_range hHF h hh hnm hfull).2 i hi
    unfold Mem.allocated
    rw [div_hf_mul_add c.geom hHF h i hi, hnm, this]; rfl

/-- **`Lower::get_at` refines the ownership specification** (sequential). -/
theorem lower_getAt_refines (ok : GeomOk16 c.geom) (m : Mem) (inv : LowerInv c m) (frame order : Nat)
    (hb : BlockOk c frame order) :
    (GetAllowed c m frame order →
      ∃ m', runSolo (Lower.getAt c.geom frame order) m = (m', .ok (.ok ())) ∧ GetPost c m m' frame order) ∧
    (¬ GetAllowed c m frame order → runSolo (Lower.getAt c.geom frame order) m = (m, .ok (.error .memory))) := by
  have okg : GeomOk c.geom := ok.toGeomOk
  have hHF := okg.hf_pos
  have hlt16 := ok.hf_lt
  have hpos : 0 < 2 ^ order := Nat.pos_of_ne_zero (by simp)
  have hidx := okg.hugeIdx_eq frame
  by_cases ho : order < c.geom.hugeOrder
  · -- small orders: decrement the counter, then set the bits
    have hh : frame / c.geom.hugeFrames < c.nhuge := nhuge_lt_of_frame okg frame _ hpos hb.inRange
    obtain ⟨hal', hfit⟩ := block_in_huge okg frame order (Nat.le_of_lt ho) hb.aligned
    have hF := (frame_decomp c.geom frame).symm
    have hhsz := huge_lt_size okg inv _ hh
    generalize hhdef : frame / c.geom.hugeFrames = h at *
    have hE : m.get? .huge h = some (m.hugeE h) := by
      simp only [Mem.get?_huge]; unfold Mem.hugeE
      rw [Array.getElem?_eq_getElem hhsz]; simp
    have hrows := rows_of_huge okg inv h hh
    have hblk : ∀ f, inBlock frame order f = true → f / c.geom.hugeFrames = h := by
      intro f hf
      simp only [inBlock, Bool.and_eq_true, decide_eq_true_eq] at hf
      apply div_eq_of_in_huge c.geom hHF <;> omega
    have hno : ¬ order ≥ c.geom.hugeOrder := by omega
    have hprog : runSolo (Lower.getAt c.geom frame order) m =
        Outcome.andThen (runSolo (tryUpdate .huge h (fun e => Huge.dec e (2 ^ order))) m) (fun r m1 =>
          match r with
          | .ok _ =>
            Outcome.andThen (runSolo (Bitfield.toggle c.geom h frame order false) m1) (fun tg m2 =>
              match tg with
              | .ok _ => (m2, .ok (.ok ()))
              | .error _ =>
                Outcome.andThen (runSolo (updK .huge h (fun e => Huge.inc c.geom.hugeFrames e (2 ^ order))) m2) (fun u m3 =>
                  match u with
                  | .ok _ => (m3, .ok (.error .memory))
                  | .error _ => (m3, .panic "called `Result::unwrap()` on an `Err` value")))
          | .error _ => (m1, .ok (.error .memory))) := by
      unfold Lower.getAt
      simp only [hno, if_false, runSolo_bind, hugeIdx, hidx, hhdef]
      congr 1
      funext r m1
      cases r with
      | error e => rfl
      | ok v =>
        simp only [runSolo_bind]
        congr 1
        funext tg m2
        cases tg with
        | ok _ => rfl
        | error e =>
          simp only [runSolo_bind]
          congr 1
          funext u m3
          cases u <;> rfl
    rw [hprog, runSolo_tryUpdate_some _ hE]
    by_cases hm : Huge.isHuge (m.hugeE h) = true
    · -- allocated as a whole: nothing is free
      have hdec : Huge.dec (m.hugeE h) (2 ^ order) = none := by simp [Huge.dec, hm]
      simp only [hdec, andThen_ok]
      refine ⟨fun ha => ?_, fun _ => by first | rfl | trivial⟩
      have := ha 0 hpos
      unfold Mem.allocated at this
      rw [Nat.add_zero, hhdef, hm] at this
      simp at this
    · have hnm : Huge.isHuge (m.hugeE h) = false := by simpa using hm
      have hfree : Huge.free (m.hugeE h) = m.hugeE h := Huge.free_of_not_huge _ hnm
      have hcnt := inv.count h hh hnm
      have hallowed_iff : GetAllowed c m frame order ↔ blockAll m frame (2 ^ order) false := by
        unfold GetAllowed blockAll
        constructor
        · intro ha i hi
          have := ha i hi
          unfold Mem.allocated at this
          rw [hblk (frame + i) (by simp [inBlock]; omega), hnm] at this
          simpa using this
        · intro ha i hi
          unfold Mem.allocated
          rw [hblk (frame + i) (by simp [inBlock]; omega), hnm, ha i hi]; rfl
      by_cases hge : m.hugeE h ≥ 2 ^ order
      · have hdec : Huge.dec (m.hugeE h) (2 ^ order) = some (m.hugeE h - 2 ^ order) := by
          have hle := inv.entry_le ok h hh hnm
          simp [Huge.dec, hnm, hfree, hge, Huge.newWith_small _ (show m.hugeE h - 2 ^ order < 65536 by omega)]
        simp only [hdec, andThen_ok]
        -- the toggle on the memory with the decremented counter
        let m1 := m.set .huge h (m.hugeE h - 2 ^ order)
        have hrows1 : h * c.geom.rows + c.geom.rows ≤ m1.rows.size := hrows
        have hts := toggle_spec okg m1 h frame order false (Nat.le_of_lt ho) hal' hrows1
        simp only [hF] at hts
        have hbit1 : ∀ f, m1.bit f = m.bit f := fun f => rfl
        have hall_iff : blockAll m1 frame (2 ^ order) false ↔ blockAll m frame (2 ^ order) false := by
          unfold blockAll; simp only [hbit1]
        by_cases hall : blockAll m frame (2 ^ order) false
        · simp only [hall_iff.2 hall, if_true, Bool.not_false] at hts
          obtain ⟨m2, hm2, hbits, hsame⟩ := hts
          refine ⟨fun _ => ⟨m2, ?_, ?_⟩, fun hn => absurd (hallowed_iff.2 hall) hn⟩
          · show Outcome.andThen (runSolo (Bitfield.toggle c.geom h frame order false) m1) _ = _
            rw [hm2]; rfl
          · -- postcondition
            have hbits' : BitsSet m m2 frame (2 ^ order) true := fun f => by rw [hbits f, hbit1]
            have hE2 : ∀ h', m2.hugeE h' = if h' = h then m.hugeE h - 2 ^ order else m.hugeE h' := by
              intro h'
              have : m2.hugeE h' = m1.hugeE h' := by unfold Mem.hugeE; rw [hsame.huge]
              rw [this]; exact Mem.hugeE_set_huge m h _ hhsz h'
            have hz : zerosIn c.geom m h = zerosIn c.geom m2 h + 2 ^ order := by
              apply zerosIn_alloc m m2 h (frame % c.geom.hugeFrames) (2 ^ order) hfit
              · rw [hF]; exact hbits'
              · rw [hF]; exact hall
            have hnm2 : ∀ h', Huge.isHuge (m2.hugeE h') = Huge.isHuge (m.hugeE h') := by
              intro h'
              rw [hE2]
              by_cases e : h' = h
              · have hle := inv.entry_le ok h hh hnm
                have : Huge.isHuge (m.hugeE h - 2 ^ order) = false := by simp [Huge.isHuge, HugeMarker]; omega
                simp [e, this, hnm]
              · simp [e]
            have inv2 : LowerInv c m2 := by
              apply LowerInv.of_local hHF inv m2 h
              · rw [hsame.size]; rfl
              · rw [hsame.huge]; simp [m1]
              · intro h' hne; rw [hE2]; simp [hne]
              · intro f hne
                rw [hbits' f]
                have : ¬ (frame ≤ f ∧ f < frame + 2 ^ order) := by
                  intro hcon
                  exact hne (hblk f (by simp [inBlock, hcon.1, hcon.2]))
                simp [this]
              · exact hh
              · intro hcon; rw [hnm2, hnm] at hcon; cases hcon
              · intro _; rw [hE2]; simp only [if_true]; omega
              · intro f hf he
                rw [hbits' f]
                by_cases hcon : frame ≤ f ∧ f < frame + 2 ^ order
                · simp [hcon]
                · simp only [hcon, if_false]; exact inv.outside f hf
            refine ⟨?_, ?_, by rw [hsame.trees]; rfl, by rw [hsame.slots]; rfl, inv2⟩
            · intro f
              unfold Mem.allocated
              rw [hnm2, hbits' f]
              by_cases hcon : frame ≤ f ∧ f < frame + 2 ^ order
              · simp [hcon, inBlock]
              · have : inBlock frame order f = false := by
                  unfold inBlock; rw [← Bool.decide_and]; simp [hcon]
                simp [hcon, this]
            · intro h'
              unfold Mem.whole
              rw [hnm2]
              have : decide (c.geom.hugeOrder ≤ order) = false := by simp; omega
              simp [this]
        · simp only [(not_congr hall_iff).2 hall, if_false] at hts
          refine ⟨fun ha => absurd (hallowed_iff.1 ha) hall, fun _ => ?_⟩
          show Outcome.andThen (runSolo (Bitfield.toggle c.geom h frame order false) m1) _ = _
          rw [hts]
          simp only [andThen_ok]
          -- undo the decrement
          have hE1 : m1.get? .huge h = some (m.hugeE h - 2 ^ order) := by
            simp only [Mem.get?_huge, m1, Mem.set_huge_huge, Array.getElem?_setIfInBounds, hhsz, if_true]
          rw [runSolo_updK_some (k := .huge) _ hE1]
          have hle := inv.entry_le ok h hh hnm
          have hnm1 : Huge.isHuge (m.hugeE h - 2 ^ order) = false := by simp [Huge.isHuge, HugeMarker]; omega
          have hinc : Huge.inc c.geom.hugeFrames (m.hugeE h - 2 ^ order) (2 ^ order) = .set (m.hugeE h) := by
            have h1 : ¬ 2 ^ order > c.geom.hugeFrames := by omega
            have h2 : m.hugeE h - 2 ^ order ≤ c.geom.hugeFrames - 2 ^ order := by omega
            have h3 : Huge.newWith (m.hugeE h - 2 ^ order + 2 ^ order) = m.hugeE h := by
              rw [Nat.sub_add_cancel hge]; exact Huge.newWith_small _ (by omega)
            simp [Huge.inc, h1, hnm1, Huge.free_of_not_huge _ hnm1, h2, h3]
          rw [hinc]
          simp only [andThen_ok]
          have : m1.set .huge h (m.hugeE h) = m :=
            Mem.set_huge_twice m h (m.hugeE h) (by simpa using hE) _
          rw [this]
      · -- not enough free frames in this huge frame
        have hdec : Huge.dec (m.hugeE h) (2 ^ order) = none := by
          simp [Huge.dec, hnm, hfree]; omega
        simp only [hdec, andThen_ok]
        refine ⟨fun ha => ?_, fun _ => by first | rfl | trivial⟩
        -- if the block were free there would be at least 2^order zero bits
        exfalso
        have hall := hallowed_iff.1 ha
        apply hge
        rw [hcnt]
        -- count the zeros of the block
        have : 2 ^ order ≤ zerosIn c.geom m h := by
          unfold zerosIn
          have hsub : (List.range' (frame % c.geom.hugeFrames) (2 ^ order)).countP
              (fun i => !m.bit (h * c.geom.hugeFrames + i)) = 2 ^ order := by
            have : (List.range' (frame % c.geom.hugeFrames) (2 ^ order)).countP (fun i => !m.bit (h * c.geom.hugeFrames + i)) =
                (List.range' (frame % c.geom.hugeFrames) (2 ^ order)).length := by
              rw [List.countP_eq_length]
              intro i hi
              have hi' := List.mem_range'_1.1 hi
              have := hall (i - frame % c.geom.hugeFrames) (by omega)
              have e : frame + (i - frame % c.geom.hugeFrames) = h * c.geom.hugeFrames + i := by omega
              rw [e] at this
              simp [this]
            rw [this, List.length_range']
          have hsl : (List.range' (frame % c.geom.hugeFrames) (2 ^ order)).Sublist (List.range c.geom.hugeFrames) := by
            rw [List.range_eq_range']
            have : List.range' 0 c.geom.hugeFrames =
                List.range' 0 (frame % c.geom.hugeFrames) ++ (List.range' (frame % c.geom.hugeFrames) (2 ^ order) ++
                  List.range' (frame % c.geom.hugeFrames + 2 ^ order) (c.geom.hugeFrames - (frame % c.geom.hugeFrames + 2 ^ order))) := by
              rw [List.range'_append_1, ]
              have := List.range'_append_1 (s := 0) (m := frame % c.geom.hugeFrames)
                (n := 2 ^ order + (c.geom.hugeFrames - (frame % c.geom.hugeFrames + 2 ^ order)))
              simp only [Nat.zero_add] at this
              rw [this]; congr 1; omega
            rw [this]
            exact List.Sublist.trans (List.sublist_append_left _ _) (List.sublist_append_right _ _)
          have := List.Sublist.countP_le (p := fun i => !m.bit (h * c.geom.hugeFrames + i)) hsl
          omega
        exact this
  · -- huge orders
    have hge : c.geom.hugeOrder ≤ order := by omega
    obtain ⟨hfit, _⟩ := okg.huge_block_fits frame order hge hb.ord hb.aligned
    generalize hh0 : frame / c.geom.hugeFrames = h0 at *
    generalize hn : 2 ^ (order - c.geom.hugeOrder) = n at *
    have hnpos : 0 < n := by rw [← hn]; exact Nat.pos_of_ne_zero (by simp)
    have h2o : 2 ^ order = n * c.geom.hugeFrames := by
      rw [← hn]; show _ = _ * 2 ^ c.geom.hugeOrder
      rw [← Nat.pow_add]; congr 1; omega
    have hmod : frame % c.geom.hugeFrames = 0 := by
      have : c.geom.hugeFrames ∣ frame := Nat.dvd_trans ⟨n, by rw [h2o, Nat.mul_comm]⟩ (Nat.dvd_of_mod_eq_zero hb.aligned)
      exact Nat.mod_eq_zero_of_dvd this
    have hdec := frame_decomp c.geom frame
    rw [hh0, hmod, Nat.add_zero] at hdec
    have hlast : h0 + n ≤ c.nhuge := by
      have h1 : (h0 + n) * c.geom.hugeFrames ≤ c.frames := by
        rw [Nat.add_mul, ← hdec, ← h2o]; exact hb.inRange
      exact le_ceil_div c.frames c.geom.hugeFrames (h0 + n) hHF h1
    have hsz : h0 + n ≤ m.huge.size := by
      rw [inv.hugeSize]
      have : c.nhuge ≤ c.ntrees * c.geom.treeHuge := okg.ceil_hf_le c.frames
      omega
    have hnw : Huge.newWith c.geom.hugeFrames = c.geom.hugeFrames := Huge.newWith_small _ (by omega)
    have hcr := casRange_spec .huge h0 c.geom.hugeFrames HugeMarker "undo failed" m n m 0
      (by simpa using RangeAre.empty .huge m h0 _) (fun i hi => by omega)
      (by intro i hi
          simp only [Nat.zero_add] at hi
          simp only [Mem.get?_huge]
          rw [Array.getElem?_eq_getElem (by omega)]; rfl)
    have hcond : (∀ i, 0 ≤ i → i < 0 + n → m.get? .huge (h0 + i) = some c.geom.hugeFrames) ↔
        ∀ i, i < n → m.hugeE (h0 + i) = c.geom.hugeFrames := by
      constructor
      · intro hh i hi
        have := hh i (by omega) (by omega)
        simp only [Mem.get?_huge] at this
        unfold Mem.hugeE; rw [this]; rfl
      · intro hh i _ hi
        have := hh i (by omega)
        simp only [Mem.get?_huge]
        rw [Array.getElem?_eq_getElem (by omega)]
        unfold Mem.hugeE at this
        rw [Array.getElem?_eq_getElem (by omega)] at this
        simp only [Option.getD_some] at this
        rw [this]
    -- frame ↔ huge index arithmetic
    have hfr : ∀ i j, i < n → j < c.geom.hugeFrames → frame + (i * c.geom.hugeFrames + j) = (h0 + i) * c.geom.hugeFrames + j := by
      intro i j _ _; rw [Nat.add_mul, ← hdec]; omega
    have hallowed_iff : GetAllowed c m frame order ↔ ∀ i, i < n → m.hugeE (h0 + i) = c.geom.hugeFrames := by
      unfold GetAllowed
      constructor
      · intro ha i hi
        apply (inv.huge_free_iff okg hlt16 (h0 + i) (by omega)).1
        intro j hj
        have := ha (i * c.geom.hugeFrames + j) (by
          rw [h2o]
          have : (i + 1) * c.geom.hugeFrames ≤ n * c.geom.hugeFrames := Nat.mul_le_mul_right _ hi
          rw [Nat.add_mul, Nat.one_mul] at this; omega)
        rwa [hfr i j hi hj] at this
      · intro ha k hk
        rw [h2o] at hk
        have hi : k / c.geom.hugeFrames < n := (Nat.div_lt_iff_lt_mul hHF).2 hk
        have hj : k % c.geom.hugeFrames < c.geom.hugeFrames := Nat.mod_lt _ hHF
        have := (inv.huge_free_iff okg hlt16 (h0 + k / c.geom.hugeFrames) (by omega)).2 (ha _ hi) _ hj
        rw [← hfr _ _ hi hj] at this
        have e : k / c.geom.hugeFrames * c.geom.hugeFrames + k % c.geom.hugeFrames = k := Nat.div_add_mod' _ _
        rwa [e] at this
    have hrun : runSolo (Lower.getAt c.geom frame order) m =
        Outcome.andThen (runSolo (casRange .huge h0 c.geom.hugeFrames HugeMarker "undo failed" n 0) m)
          (fun ok m' => (m', .ok (if ok then .ok () else .error .memory))) := by
      unfold Lower.getAt
      have h1 : order ≥ c.geom.hugeOrder := hge
      have h2 : ¬ (h0 % c.geom.treeHuge + n > c.geom.treeHuge) := by omega
      simp only [h1, if_true, h2, if_false, runSolo_bind, casAll, hugeIdx, hidx, hnw, hn, hh0]
      rfl
    rw [hrun]
    constructor
    · intro ha
      have hall := hallowed_iff.1 ha
      obtain ⟨m', hm', hra⟩ := hcr.1 (hcond.2 hall)
      rw [hm']
      refine ⟨m', rfl, ?_⟩
      simp only [Nat.add_zero] at hra
      obtain ⟨hbb, he, ht, hs, hrs, hhs⟩ := RangeAre.huge_post hra hsz
      have inv' : LowerInv c m' := by
        apply LowerInv.of_huge_change hHF hlt16 inv m' hbb hrs hhs
        intro h
        rw [he]
        by_cases hin' : h0 ≤ h ∧ h < h0 + n
        · right; right
          refine ⟨by omega, ?_, by simp [hin']⟩
          have := hall (h - h0) (by omega)
          rwa [show h0 + (h - h0) = h by omega] at this
        · left; simp [hin']
      have hcover : ∀ h, (h0 ≤ h ∧ h < h0 + n) ↔ (h0 ≤ h ∧ h * c.geom.hugeFrames < frame + 2 ^ order) := by
        intro h
        constructor
        · intro ⟨h1, h2⟩
          refine ⟨h1, ?_⟩
          have : (h + 1) * c.geom.hugeFrames ≤ (h0 + n) * c.geom.hugeFrames := Nat.mul_le_mul_right _ h2
          rw [Nat.add_mul, Nat.one_mul, Nat.add_mul, ← hdec, ← h2o] at this
          omega
        · intro ⟨h1, h2⟩
          refine ⟨h1, ?_⟩
          apply Nat.lt_of_mul_lt_mul_right (a := c.geom.hugeFrames)
          rw [Nat.add_mul, ← hdec, ← h2o]; exact h2
      have hmark : Huge.isHuge HugeMarker = true := rfl
      refine ⟨?_, ?_, ht, hs, inv'⟩
      · intro f
        unfold Mem.allocated
        rw [he, hbb]
        by_cases hib : frame ≤ f ∧ f < frame + 2 ^ order
        · have hcov : h0 ≤ f / c.geom.hugeFrames ∧ f / c.geom.hugeFrames < h0 + n := by
            rw [hcover]
            refine ⟨by rw [← hh0]; exact Nat.div_le_div_right hib.1, ?_⟩
            have := Nat.div_mul_le_self f c.geom.hugeFrames
            omega
          rw [if_pos hcov, hmark]
          simp [inBlock, hib.1, hib.2]
        · have hcov : ¬ (h0 ≤ f / c.geom.hugeFrames ∧ f / c.geom.hugeFrames < h0 + n) := by
            rw [hcover]
            intro ⟨h1, h2⟩
            apply hib
            have h3 := Nat.lt_mul_div_succ f hHF
            rw [Nat.mul_comm, Nat.add_mul, Nat.one_mul] at h3
            have h4 := Nat.div_mul_le_self f c.geom.hugeFrames
            have h5 : h0 * c.geom.hugeFrames ≤ f / c.geom.hugeFrames * c.geom.hugeFrames := Nat.mul_le_mul_right _ h1
            constructor
            · omega
            · have hq : frame + 2 ^ order = (h0 + n) * c.geom.hugeFrames := by rw [Nat.add_mul, ← hdec, ← h2o]
              rw [hq] at h2 ⊢
              have : f / c.geom.hugeFrames < h0 + n := Nat.lt_of_mul_lt_mul_right h2
              have : (f / c.geom.hugeFrames + 1) * c.geom.hugeFrames ≤ (h0 + n) * c.geom.hugeFrames := Nat.mul_le_mul_right _ this
              rw [Nat.add_mul, Nat.one_mul] at this
              omega
          have : inBlock frame order f = false := by
            unfold inBlock; rw [← Bool.decide_and]; simp [hib]
          rw [if_neg hcov, this]; simp
      · intro h
        unfold Mem.whole
        rw [he]
        simp only [hh0]
        have hd : decide (c.geom.hugeOrder ≤ order) = true := by simp [hge]
        by_cases hcov : h0 ≤ h ∧ h < h0 + n
        · have h2 := (hcover h).1 hcov
          rw [if_pos hcov, hmark, hd]
          simp [h2.1, h2.2]
        · have h2 : ¬ (h0 ≤ h ∧ h * c.geom.hugeFrames < frame + 2 ^ order) := fun hh => hcov ((hcover h).2 hh)
          rw [if_neg hcov]
          have : (decide (h0 ≤ h) && decide (h * c.geom.hugeFrames < frame + 2 ^ order)) = false := by
            rw [← Bool.decide_and]; simp [h2]
          rw [this]; simp
    · intro hn'
      rw [hcr.2 (fun hh => hn' (hallowed_iff.2 (hcond.1 hh)))]
      rfl

end
end LLFree

namespace LLFree
open Prog
section
variable {c : Cfg}

/-- a free block inside huge frame `h` is counted by the zero count -/
theorem blockAll_false_le_zeros (g : Geom) (m : Mem) (h o n : Nat) (hfit : o + n ≤ g.hugeFrames)
    (hall : blockAll m (h * g.hugeFrames + o) n false) : n ≤ zerosIn g m h := by
  unfold zerosIn
  have hsub : (List.range' o n).countP (fun i => !m.bit (h * g.hugeFrames + i)) = n := by
    have : (List.range' o n).countP (fun i => !m.bit (h * g.hugeFrames + i)) = (List.range' o n).length := by
      rw [List.countP_eq_length]
      intro i hi
      have hi' := List.mem_range'_1.1 hi
      have := hall (i - o) (by omega)
      rw [show h * g.hugeFrames + o + (i - o) = h * g.hugeFrames + i by omega] at this
      simp [this]
    rw [this, List.length_range']
  have hsl : (List.range' o n).Sublist (List.range g.hugeFrames) := by
    rw [List.range_eq_range']
    have : List.range' 0 g.hugeFrames = List.range' 0 o ++ (List.range' o n ++ List.range' (o + n) (g.hugeFrames - (o + n))) := by
      rw [List.range'_append_1]
      have := List.range'_append_1 (s := 0) (m := o) (n := n + (g.hugeFrames - (o + n)))
      simp only [Nat.zero_add] at this
      rw [this]; congr 1; omega
    rw [this]
    exact List.Sublist.trans (List.sublist_append_left _ _) (List.sublist_append_right _ _)
  have := List.Sublist.countP_le (p := fun i => !m.bit (h * g.hugeFrames + i)) hsl
  omega

/-- a free block lies inside the managed range (frames outside are marked allocated) -/
theorem free_block_in_range {m : Mem} (inv : LowerInv c m) (frame n : Nat) (hn : 0 < n)
    (hall : blockAll m frame n false) : frame + n ≤ c.frames := by
  apply Nat.le_of_not_lt
  intro hlt
  have := inv.outside (frame + (n - 1)) (by omega)
  rw [hall (n - 1) (by omega)] at this
  cases this

/-- The abstract effect of "counter of huge frame `h` decremented, bits of a free block set". -/
theorem getPost_of_small (ok : GeomOk16 c.geom) {m : Mem} (inv : LowerInv c m) (m2 : Mem) (h off order : Nat)
    (ho : order < c.geom.hugeOrder) (hh : h < c.nhuge) (hfit : off + 2 ^ order ≤ c.geom.hugeFrames)
    (hnm : Huge.isHuge (m.hugeE h) = false) (hge : 2 ^ order ≤ m.hugeE h)
    (hall : blockAll m (h * c.geom.hugeFrames + off) (2 ^ order) false)
    (hbits : BitsSet m m2 (h * c.geom.hugeFrames + off) (2 ^ order) true)
    (hhuge : m2.huge = m.huge.setIfInBounds h (m.hugeE h - 2 ^ order))
    (htrees : m2.trees = m.trees) (hslots : m2.slots = m.slots) (hsize : m2.rows.size = m.rows.size) :
    GetPost c m m2 (h * c.geom.hugeFrames + off) order := by
  have okg : GeomOk c.geom := ok.toGeomOk
  have hHF := okg.hf_pos
  have hlt16 := ok.hf_lt
  have hhsz := huge_lt_size okg inv h hh
  generalize hfr : h * c.geom.hugeFrames + off = frame at *
  have hblk : ∀ f, inBlock frame order f = true → f / c.geom.hugeFrames = h := by
    intro f hf
    simp only [inBlock, Bool.and_eq_true, decide_eq_true_eq] at hf
    apply div_eq_of_in_huge c.geom hHF <;> omega
  have hE2 : ∀ h', m2.hugeE h' = if h' = h then m.hugeE h - 2 ^ order else m.hugeE h' := by
    intro h'
    unfold Mem.hugeE
    rw [hhuge, Array.getElem?_setIfInBounds]
    by_cases e : h = h'
    · subst e
      simp only [hhsz, if_true, Option.getD_some]
      unfold Mem.hugeE
      rw [Array.getElem?_eq_getElem hhsz]
    · have : ¬ h' = h := fun e' => e e'.symm
      simp [e, this]
  have hz : zerosIn c.geom m h = zerosIn c.geom m2 h + 2 ^ order := by
    apply zerosIn_alloc m m2 h off (2 ^ order) hfit
    · rw [hfr]; exact hbits
    · rw [hfr]; exact hall
  have hle := inv.entry_le ok h hh hnm
  have hnm2 : ∀ h', Huge.isHuge (m2.hugeE h') = Huge.isHuge (m.hugeE h') := by
    intro h'
    rw [hE2]
    by_cases e : h' = h
    · have hlt : m.hugeE h - 2 ^ order < 65535 :=
        (fun (e n HF : Nat) (h1 : e ≤ HF) (h2 : HF < 65535) => (by omega : e - n < 65535)) _ _ _ hle hlt16
      have : Huge.isHuge (m.hugeE h - 2 ^ order) = false := by
        simp only [Huge.isHuge, HugeMarker, beq_eq_false_iff_ne, ne_eq]; omega
      simp [e, this, hnm]
    · simp [e]
  have inv2 : LowerInv c m2 := by
    apply LowerInv.of_local hHF inv m2 h
    · exact hsize
    · rw [hhuge]; simp
    · intro h' hne; rw [hE2]; simp [hne]
    · intro f hne
      rw [hbits f]
      have : ¬ (frame ≤ f ∧ f < frame + 2 ^ order) := by
        intro hcon
        exact hne (hblk f (by simp [inBlock, hcon.1, hcon.2]))
      simp [this]
    · exact hh
    · intro hcon; rw [hnm2, hnm] at hcon; cases hcon
    · intro _
      rw [hE2]; simp only [if_true]
      have := inv.count h hh hnm
      omega
    · intro f hf he
      rw [hbits f]
      by_cases hcon : frame ≤ f ∧ f < frame + 2 ^ order
      · simp [hcon]
      · simp only [hcon, if_false]; exact inv.outside f hf
  refine ⟨?_, ?_, htrees, hslots, inv2⟩
  · intro f
    unfold Mem.allocated
    rw [hnm2, hbits f]
    by_cases hcon : frame ≤ f ∧ f < frame + 2 ^ order
    · simp [hcon, inBlock]
    · have : inBlock frame order f = false := by
        unfold inBlock; rw [← Bool.decide_and]; simp [hcon]
      simp [hcon, this]
  · intro h'
    unfold Mem.whole
    rw [hnm2]
    have : decide (c.geom.hugeOrder ≤ order) = false := by simp; omega
    simp [this]

end
end LLFree
