/-
  Reading and writing the typed memory; frame-level view of the bitfields.
-/
import LLFreeV.Proofs.Run
import LLFreeV.Proofs.Bits
namespace LLFree
open Prog

/-- the allocation bit of frame `f` (row `f / 64`, bit `f % 64`); missing rows read as set -/
def Mem.bit (m : Mem) (f : Nat) : Bool :=
  match m.rows[f / 64]? with
  | some r => r.getLsbD (f % 64)
  | none => true

/-- huge entry `h` (missing entries read as 0) -/
def Mem.hugeE (m : Mem) (h : Nat) : Nat := m.huge[h]?.getD 0

@[simp] theorem Mem.get?_row (m : Mem) (i : Nat) : m.get? .row i = m.rows[i]? := rfl
@[simp] theorem Mem.get?_huge (m : Mem) (i : Nat) : m.get? .huge i = m.huge[i]? := rfl
@[simp] theorem Mem.get?_tree (m : Mem) (i : Nat) : m.get? .tree i = m.trees[i]? := rfl
@[simp] theorem Mem.get?_slot (m : Mem) (i : Nat) : m.get? .slot i = m.slots[i]? := rfl

@[simp] theorem Mem.set_row_rows (m : Mem) (i : Nat) (v : BitVec 64) :
    (m.set .row i v).rows = m.rows.setIfInBounds i v := rfl
@[simp] theorem Mem.set_row_huge (m : Mem) (i : Nat) (v : BitVec 64) : (m.set .row i v).huge = m.huge := rfl
@[simp] theorem Mem.set_row_trees (m : Mem) (i : Nat) (v : BitVec 64) : (m.set .row i v).trees = m.trees := rfl
@[simp] theorem Mem.set_row_slots (m : Mem) (i : Nat) (v : BitVec 64) : (m.set .row i v).slots = m.slots := rfl
@[simp] theorem Mem.set_huge_huge (m : Mem) (i : Nat) (v : Nat) :
    (m.set .huge i v).huge = m.huge.setIfInBounds i v := rfl
@[simp] theorem Mem.set_huge_rows (m : Mem) (i : Nat) (v : Nat) : (m.set .huge i v).rows = m.rows := rfl
@[simp] theorem Mem.set_huge_trees (m : Mem) (i : Nat) (v : Nat) : (m.set .huge i v).trees = m.trees := rfl
@[simp] theorem Mem.set_huge_slots (m : Mem) (i : Nat) (v : Nat) : (m.set .huge i v).slots = m.slots := rfl
@[simp] theorem Mem.set_tree_trees (m : Mem) (i : Nat) (v : Tree) :
    (m.set .tree i v).trees = m.trees.setIfInBounds i v := rfl
@[simp] theorem Mem.set_tree_rows (m : Mem) (i : Nat) (v : Tree) : (m.set .tree i v).rows = m.rows := rfl
@[simp] theorem Mem.set_tree_huge (m : Mem) (i : Nat) (v : Tree) : (m.set .tree i v).huge = m.huge := rfl
@[simp] theorem Mem.set_tree_slots (m : Mem) (i : Nat) (v : Tree) : (m.set .tree i v).slots = m.slots := rfl
@[simp] theorem Mem.set_slot_slots (m : Mem) (i : Nat) (v : LTree) :
    (m.set .slot i v).slots = m.slots.setIfInBounds i v := rfl
@[simp] theorem Mem.set_slot_rows (m : Mem) (i : Nat) (v : LTree) : (m.set .slot i v).rows = m.rows := rfl
@[simp] theorem Mem.set_slot_huge (m : Mem) (i : Nat) (v : LTree) : (m.set .slot i v).huge = m.huge := rfl
@[simp] theorem Mem.set_slot_trees (m : Mem) (i : Nat) (v : LTree) : (m.set .slot i v).trees = m.trees := rfl

/-- bit view after writing a row -/
theorem Mem.bit_set_row (m : Mem) (i : Nat) (v : BitVec 64) (hi : i < m.rows.size) (f : Nat) :
    (m.set .row i v).bit f = if f / 64 = i then v.getLsbD (f % 64) else m.bit f := by
  unfold Mem.bit
  simp only [Mem.set_row_rows, Array.getElem?_setIfInBounds]
  by_cases h : i = f / 64
  · subst h; simp [hi]
  · have : ¬ f / 64 = i := fun e => h e.symm
    simp [h, this]

theorem Mem.bit_set_huge (m : Mem) (i v : Nat) (f : Nat) : (m.set .huge i v).bit f = m.bit f := rfl

theorem Mem.hugeE_set_huge (m : Mem) (i v : Nat) (hi : i < m.huge.size) (h : Nat) :
    (m.set .huge i v).hugeE h = if h = i then v else m.hugeE h := by
  unfold Mem.hugeE
  simp only [Mem.set_huge_huge, Array.getElem?_setIfInBounds]
  by_cases e : i = h
  · subst e; simp [hi]
  · have : ¬ h = i := fun e' => e e'.symm
    simp [e, this]

theorem Mem.hugeE_set_row (m : Mem) (i : Nat) (v : BitVec 64) (h : Nat) : (m.set .row i v).hugeE h = m.hugeE h := rfl

/-! ### sequential semantics of the primitive programs with known memory contents -/

theorem runSolo_loadK_some {k : Kind} {i : Nat} {m : Mem} {v : k.Val} (h : m.get? k i = some v) :
    runSolo (loadK k i) m = (m, .ok v) := by
  rw [runSolo_loadK, h]

theorem runSolo_storeK_some {k : Kind} {i : Nat} {m : Mem} {o : k.Val} (v : k.Val) (h : m.get? k i = some o) :
    runSolo (storeK k i v) m = (m.set k i v, .ok ()) := by
  simp only [storeK, runSolo, h]

theorem runSolo_swapK_some {k : Kind} {i : Nat} {m : Mem} {o : k.Val} (v : k.Val) (h : m.get? k i = some o) :
    runSolo (swapK k i v) m = (m.set k i v, .ok o) := by
  simp only [swapK, runSolo, h]

theorem runSolo_casK_some {k : Kind} {i : Nat} {m : Mem} {o : k.Val} (e n : k.Val) (h : m.get? k i = some o) :
    runSolo (casK k i e n) m = if o = e then (m.set k i n, .ok (.ok o)) else (m, .ok (.error o)) := by
  simp only [casK, runSolo, h]

theorem runSolo_casPartK_some {i : Nat} {m : Mem} {o : BitVec 64} (sh w : Nat) (e n : BitVec 64)
    (h : m.rows[i]? = some o) :
    runSolo (casPartK i sh w e n) m =
      match casPartVal o sh w e n with
      | some r => (m.set .row i r, .ok true)
      | none => (m, .ok false) := by
  simp only [casPartK, runSolo, Mem.get?_row, h]
  cases casPartVal o sh w e n <;> rfl

theorem runSolo_updK_some {k : Kind} {i : Nat} {m : Mem} {o : k.Val} (f : k.Val → Upd k.Val)
    (h : m.get? k i = some o) :
    runSolo (updK k i f) m =
      match f o with
      | .skip => (m, .ok (.error o))
      | .set v => (m.set k i v, .ok (.ok o))
      | .panic s => (m, .panic s) := by
  simp only [updK, runSolo, h]
  cases f o <;> rfl

theorem runSolo_tryUpdate_some {k : Kind} {i : Nat} {m : Mem} {o : k.Val} (f : k.Val → Option k.Val)
    (h : m.get? k i = some o) :
    runSolo (tryUpdate k i f) m =
      match f o with
      | none => (m, .ok (.error o))
      | some v => (m.set k i v, .ok (.ok o)) := by
  simp only [tryUpdate, runSolo, h]
  cases f o <;> rfl

end LLFree
