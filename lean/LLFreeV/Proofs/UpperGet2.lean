/-
  `Locals::get`, `set_start`, `Trees::sync` and `LLFree::get_local` against the upper invariant.
-/
import LLFreeV.Proofs.UpperGet1
namespace LLFree
open Prog

theorem LTree.get_eq_some (tr : Nat) (l : LTree) (tree : Option Nat) (n : Nat) (l' : LTree) :
    l.get tr tree n = some l' ↔ l.present = true ∧ (∀ t, tree = some t → l.row / tr = t) ∧ l.free ≥ n ∧
      l' = { l with free := l.free - n } := by
  cases tree with
  | none =>
    simp only [LTree.get, Bool.and_true]
    by_cases hp : l.present = true
    · by_cases hn : l.free ≥ n
      · simp [hp, hn]; exact eq_comm
      · simp [hp, hn]
    · simp [hp]
  | some i =>
    simp only [LTree.get]
    by_cases hp : l.present = true
    · by_cases hi : l.row / tr = i
      · by_cases hn : l.free ≥ n
        · simp [hp, hn, hi]; exact eq_comm
        · simp [hp, hn, hi]
      · simp [hp, hi]
    · simp [hp]

section
variable {c : Cfg} {H : Nat → Nat} {P : Nat → Nat} {R : Nat → Prop} {m : Mem}

/-- changing counter/start row of a present slot inside its tree -/
theorem UpperInv.set_slot_same_tree (inv : UpperInv c H P R m) (s : Nat) (l l' : LTree) (hl : m.slots[s]? = some l)
    (hp : l.present = true) (hp' : l'.present = true) (hrow : l'.row / c.geom.treeRows = l.row / c.geom.treeRows)
    (P' : Nat → Nat) (hP : ∀ j, j ≠ l.row / c.geom.treeRows → P' j = P j)
    (hsum : l'.free + P' (l.row / c.geom.treeRows) = l.free + P (l.row / c.geom.treeRows)) :
    UpperInv c H P' R (m.set .slot s l') := by
  apply inv.set_slot s l l' hl P' R
  · intro _
    refine ⟨inv.slotCls s l hl hp, ?_⟩
    intro k hk
    rw [hrow]; exact inv.slotTree s l k hl hp hk
  · intro _ s' x hx hxp e
    rw [hrow] at e
    exact inv.slotInj s' s x l hx hl hxp hp e
  · intro _; rw [hrow]; exact inv.slotNotR s l hl hp
  · intro j hj; left; exact hj
  · intro _; left; exact ⟨hp', hrow⟩
  · intro j hj; left; exact hj
  · intro i
    by_cases e : i = l.row / c.geom.treeRows
    · subst e
      rw [LTree.freeFor_self _ l hp]
      have := LTree.freeFor_self c.geom.treeRows l' hp'
      rw [hrow] at this
      rw [this]; exact hsum
    · rw [LTree.freeFor_other _ _ l (fun h => e h.symm), LTree.freeFor_other _ _ l' (by rw [hrow]; exact fun h => e h.symm), hP i e]

/-- what `Locals::get` returns -/
def LocalsGot (c : Cfg) (H : Nat → Nat) (P : Nat → Nat) (R : Nat → Prop) (m : Mem) (s : Nat) (tree : Option Nat) (n : Nat)
    (r : Except (Option Reservation) Nat) (m' : Mem) : Prop :=
  match r with
  | .ok row => (∀ t, tree = some t → row / c.geom.treeRows = t) ∧ row / c.geom.treeRows < c.ntrees ∧
      UpperInv c H (gset P (row / c.geom.treeRows) (P (row / c.geom.treeRows) + n)) R m' ∧ SameAlloc m m' ∧
      m'.trees = m.trees ∧ ∃ l' : LTree, m'.slots[s]? = some l' ∧ l'.present = true ∧ l'.row = row
  | .error res => m = m' ∧ ∀ x, res = some x → x.row / c.geom.treeRows < c.ntrees

theorem locals_get_spec (ok : CfgOk c) (inv : UpperInv c H P R m) (cls loc : Nat) (tree : Option Nat) (n : Nat) (hcls : cls < 8)
    (rng : Nat × Nat) (hr : c.slotRange cls = some rng) (hloc : loc < rng.2) :
    Runs m (Locals.get c cls loc tree n) (fun r m' => LocalsGot c H P R m (rng.1 + loc) tree n r m') := by
  obtain ⟨l, hl⟩ := inv.slot_get ok cls rng hr loc hloc
  unfold Locals.get
  apply Runs.bind (classRange_spec m cls hcls (fun r m' => r = some rng ∧ m = m') ⟨hr, rfl⟩)
  rintro _ _ ⟨rfl, rfl⟩
  simp only
  apply Runs.bind (slotIdx_spec m rng loc hloc (fun r m' => r = rng.1 + loc ∧ m = m') ⟨rfl, rfl⟩)
  rintro _ _ ⟨rfl, rfl⟩
  have hrange : ∀ x : LTree, m.slots[rng.1 + loc]? = some x → x.present = true → x.row / c.geom.treeRows < c.ntrees := by
    intro x hx hxp
    obtain ⟨k, hk⟩ := inv.slotCls _ x hx hxp
    obtain ⟨t, ht, _, _⟩ := inv.slotTree _ x k hx hxp hk
    exact inv.tree_lt _ t ht
  cases hg : l.get c.geom.treeRows tree n with
  | some l' =>
    have hdec := (LTree.get_eq_some c.geom.treeRows l tree n l').1 hg
    obtain ⟨hp, htree, hge, rfl⟩ := hdec
    apply Runs.bind (Runs.tryUpdate_some (Q := fun r m' => r = .ok l ∧ m.set .slot (rng.1 + loc) { l with free := l.free - n } = m')
      (by simpa using hl) hg ⟨rfl, rfl⟩)
    rintro _ _ ⟨rfl, rfl⟩
    apply Runs.pure
    refine ⟨htree, hrange l hl hp, ?_, ⟨rfl, rfl⟩, rfl, { l with free := l.free - n }, ?_, hp, rfl⟩
    · refine inv.set_slot_same_tree _ l { l with free := l.free - n } hl hp hp rfl
        (gset P (l.row / c.geom.treeRows) (P (l.row / c.geom.treeRows) + n)) ?_ ?_
      · intro j hj; exact gset_other _ _ _ j hj
      · simp only [gset_same]; omega
    · have hsz : rng.1 + loc < m.slots.size := (Array.getElem?_eq_some_iff.1 hl).1
      simp [Mem.set_slot_slots, hsz]
  | none =>
    apply Runs.bind (Runs.tryUpdate_none (Q := fun r m' => r = .error l ∧ m = m') (by simpa using hl) hg ⟨rfl, rfl⟩)
    rintro _ _ ⟨rfl, rfl⟩
    apply Runs.pure
    refine ⟨rfl, ?_⟩
    intro x hx
    by_cases hp : l.present = true
    · simp only [hp, if_true] at hx
      cases hx
      exact hrange l hl hp
    · simp [hp] at hx

/-- `Locals::set_start`: only the start row inside the reserved tree changes -/
theorem locals_setStart_spec (ok : CfgOk c) (inv : UpperInv c H P R m) (cls loc row : Nat) (hcls : cls < 8)
    (rng : Nat × Nat) (hr : c.slotRange cls = some rng) (hloc : loc < rng.2) (hrow : row < 2 ^ 44) :
    Runs m (Locals.setStart c cls loc row) (fun _ m' => UpperInv c H P R m' ∧ SameAlloc m m' ∧ m'.trees = m.trees) := by
  obtain ⟨l, hl⟩ := inv.slot_get ok cls rng hr loc hloc
  unfold Locals.setStart
  apply Runs.bind (classRange_spec m cls hcls (fun r m' => r = some rng ∧ m = m') ⟨hr, rfl⟩)
  rintro _ _ ⟨rfl, rfl⟩
  simp only
  apply Runs.bind (slotIdx_spec m rng loc hloc (fun r m' => r = rng.1 + loc ∧ m = m') ⟨rfl, rfl⟩)
  rintro _ _ ⟨rfl, rfl⟩
  by_cases hcnd : (l.present && l.row / c.geom.treeRows == row / c.geom.treeRows && l.row != row) = true
  · have hf : LTree.setStart c.geom.treeRows l row = .set { l with row := row } := by
      unfold LTree.setStart
      have : ¬ row ≥ 2 ^ 44 := by omega
      simp only [hcnd, if_true, this, if_false]
    simp only [Bool.and_eq_true, beq_iff_eq] at hcnd
    apply Runs.bind (Runs.upd_set (Q := fun r m' => r = .ok l ∧ m.set .slot (rng.1 + loc) { l with row := row } = m')
      (by simpa using hl) hf ⟨rfl, rfl⟩)
    rintro _ _ ⟨rfl, rfl⟩
    apply Runs.pure
    refine ⟨?_, ⟨rfl, rfl⟩, rfl⟩
    exact inv.set_slot_same_tree _ l { l with row := row } hl hcnd.1.1 hcnd.1.1 hcnd.1.2.symm P (fun _ _ => rfl) rfl
  · have hf : LTree.setStart c.geom.treeRows l row = .skip := by
      unfold LTree.setStart
      simp only [hcnd, Bool.false_eq_true, if_false]
    apply Runs.bind (Runs.upd_skip (Q := fun r m' => r = .error l ∧ m = m') (by simpa using hl) hf ⟨rfl, rfl⟩)
    rintro _ _ ⟨rfl, rfl⟩
    exact Runs.pure ⟨inv, SameAlloc.refl _, rfl⟩

/-- `Trees::sync`: the whole counter of a reserved tree becomes unaccounted -/
theorem trees_sync_spec (inv : UpperInv c H P R m) (i min : Nat) (hi : i < c.ntrees) :
    Runs m (Trees.sync i min) (fun r m' => match r with
      | some f => min ≤ f ∧ UpperInv c H (gset P i (P i + f)) R m' ∧ SameAlloc m m' ∧ m'.slots = m.slots
      | none => m = m') := by
  obtain ⟨t, ht⟩ := inv.tree_get i hi
  unfold Trees.sync
  by_cases hcnd : (t.reserved && decide (t.free ≥ min)) = true
  · have hf : t.syncSteal min = some { t with free := 0 } := by
      unfold Tree.syncSteal; simp only [hcnd, if_true]
    simp only [Bool.and_eq_true, decide_eq_true_eq] at hcnd
    apply Runs.bind (Runs.tryUpdate_some (Q := fun r m' => r = .ok t ∧ m.set .tree i { t with free := 0 } = m')
      (by simpa using ht) hf ⟨rfl, rfl⟩)
    rintro _ _ ⟨rfl, rfl⟩
    apply Runs.pure
    refine ⟨hcnd.2, ?_, ⟨rfl, rfl⟩, rfl⟩
    refine inv.set_tree_counter i t { t with free := 0 } ht (gset P i (P i + t.free)) rfl (inv.treeCls i t ht) (fun _ => rfl) ?_ ?_
    · intro j hj; exact gset_other _ _ _ j hj
    · simp only [gset_same]; omega
  · have hf : t.syncSteal min = none := by
      unfold Tree.syncSteal; simp only [hcnd, Bool.false_eq_true, if_false]
    apply Runs.bind (Runs.tryUpdate_none (Q := fun r m' => r = .error t ∧ m = m') (by simpa using ht) hf ⟨rfl, rfl⟩)
    rintro _ _ ⟨rfl, rfl⟩
    exact Runs.pure rfl

/-- outcome of an attempt through the caller's own reservation -/
def LocalOutcome (c : Cfg) (m : Mem) (order : Nat) (frame : Option Nat) (r : LocalRes) (m' : Mem) : Prop :=
  match r with
  | .ok (f, k) => k < 8 ∧ f % 2 ^ order = 0 ∧ GetAllowed c m f order ∧ (∀ x, frame = some x → f = x) ∧
      AllocEffect c m m' f order
  | .error (e, st) => e = .memory ∧ SameAlloc m m' ∧ ∀ t, st = some t → t < c.ntrees

theorem gset_gset_cancel (i a : Nat) (j : Nat) : (fun _ => 0 : Nat → Nat) j =
    gset (gset (fun _ => 0) i (0 + a)) i (gset (fun _ => 0) i (0 + a) i - a) j := by
  by_cases e : j = i
  · subst e; simp
  · simp [gset, e]

theorem row_lt_of_tree (ok : CfgOk c) (f : Nat) (h : f / c.geom.treeFrames < c.ntrees) : f / 64 < 2 ^ 44 := by
  have okg := ok.geom.toGeomOk
  have h1 := ok.rows44
  have h2 : f < c.ntrees * c.geom.treeFrames := (Nat.div_lt_iff_lt_mul okg.tf_pos).1 h
  rw [← okg.treeRows_mul, ← Nat.mul_assoc] at h2
  have : f / 64 < c.ntrees * c.geom.treeRows := (Nat.div_lt_iff_lt_mul (by decide)).2 h2
  omega

theorem row_tree (okg : GeomOk c.geom) (row : Nat) : row * 64 / c.geom.treeFrames = row / c.geom.treeRows := by
  rw [← okg.treeRows_mul, Nat.mul_comm c.geom.treeRows 64, ← Nat.div_div_eq_div_mul, Nat.mul_div_cancel _ (by decide)]

/-- the part of `get_local` after the reservation handed out `2^order` frames -/
theorem getLocal_ok_branch (ok : CfgOk c) (m m1 : Mem) (order cls loc row : Nat) (frame : Option Nat)
    (hcls : cls < 8) (rng : Nat × Nat) (hr : c.slotRange cls = some rng) (hloc : loc < rng.2)
    (hto : order ≤ c.geom.treeOrder) (hframe : ∀ x, frame = some x → BlockOk c x order)
    (hr1 : LocalsGot c H (fun _ => 0) (fun _ => False) m (rng.1 + loc) (frame.map (· / c.tf)) (2 ^ order) (.ok row) m1) :
    Runs m1 (do
        let lr ← Lower.get c.g row order frame
        match lr with
        | .ok f => do
          if row ≠ f / 64 then Locals.setStart c cls loc (f / 64)
          return .ok (f, cls)
        | .error e => do
          tput c (row / c.g.treeRows) (2 ^ order)
          return .error (e, some (row / c.g.treeRows)) : Prog LocalRes)
      (fun r m' => UpperInv0 c H m' ∧ LocalOutcome c m order frame r m') := by
  have okg := ok.geom.toGeomOk
  obtain ⟨htree, hlt, inv1, same1, htrees, l', hl', hp', hrow'⟩ := hr1
  have hfr : ∀ x, frame = some x → BlockOk c x order ∧ x / c.geom.treeFrames = row / c.geom.treeRows := by
    intro x hx
    refine ⟨hframe x hx, ?_⟩
    have := htree (x / c.tf) (by rw [hx]; rfl)
    exact this.symm
  apply Runs.bind (lower_get_upper ok inv1 row order (row / c.geom.treeRows) frame hto hlt (by simp)
    (fun _ => row_tree okg row) hfr)
  rintro lr m2 hlr
  cases lr with
  | ok f =>
    obtain ⟨hft, hal, hallowed, post, hfx, inv2⟩ := hlr
    have inv2' : UpperInv0 c H m2 := inv2.congrP _ (gset_gset_cancel _ _)
    simp only
    have hfin : UpperInv0 c H m2 ∧ LocalOutcome c m order frame (.ok (f, cls)) m2 :=
      ⟨inv2', hcls, hal, hallowed.congr same1, hfx, AllocEffect.of_post same1 post (SameAlloc.refl _)⟩
    by_cases hne : row ≠ f / 64
    · rw [if_pos hne]
      have hflt : f / 64 < 2 ^ 44 := row_lt_of_tree ok f (by rw [hft]; exact hlt)
      apply Runs.bind (locals_setStart_spec ok inv2' cls loc (f / 64) hcls rng hr hloc hflt)
      rintro _ m3 ⟨inv3, same3, _⟩
      apply Runs.pure
      exact ⟨inv3, hcls, hal, hallowed.congr same1, hfx, AllocEffect.of_post same1 post same3⟩
    · rw [if_neg hne]
      exact Runs.pure hfin
  | error e =>
    obtain ⟨rfl, rfl, _⟩ := hlr
    simp only
    apply Runs.bind (tput_spec ok inv1 (row / c.g.treeRows) (2 ^ order) hlt (by simp))
    rintro _ m3 ⟨inv3, same3⟩
    apply Runs.pure
    exact ⟨inv3.congrP _ (gset_gset_cancel _ _), rfl, same1.trans same3, fun t h => by cases h; exact hlt⟩

/-- `get_local(.., sync = false)` -/
theorem getLocalNoSync_spec (ok : CfgOk c) (inv : UpperInv0 c H m) (order cls loc : Nat) (frame : Option Nat)
    (hcls : cls < 8) (rng : Nat × Nat) (hr : c.slotRange cls = some rng) (hloc : loc < rng.2)
    (hto : order ≤ c.geom.treeOrder) (hframe : ∀ x, frame = some x → BlockOk c x order) :
    Runs m (getLocalNoSync c order cls loc frame) (fun r m' => UpperInv0 c H m' ∧ LocalOutcome c m order frame r m') := by
  unfold getLocalNoSync
  apply Runs.bind (locals_get_spec ok inv cls loc (frame.map (· / c.tf)) (2 ^ order) hcls rng hr hloc)
  rintro r m1 hr1
  cases r with
  | error res =>
    obtain ⟨rfl, hres⟩ := hr1
    cases res with
    | none => exact Runs.pure ⟨inv, rfl, SameAlloc.refl _, fun t h => by cases h⟩
    | some x => exact Runs.pure ⟨inv, rfl, SameAlloc.refl _, fun t h => by cases h; exact hres x rfl⟩
  | ok row => exact getLocal_ok_branch ok m m1 order cls loc row frame hcls rng hr hloc hto hframe hr1

theorem LocalOutcome.trans_same {a b d : Mem} {order : Nat} {frame : Option Nat} {r : LocalRes}
    (h1 : SameAlloc a b) (h2 : LocalOutcome c b order frame r d) : LocalOutcome c a order frame r d := by
  cases r with
  | ok x =>
    obtain ⟨f, k⟩ := x
    obtain ⟨hk, hal, hallowed, hfx, heff⟩ := h2
    refine ⟨hk, hal, hallowed.congr h1, hfx, ?_⟩
    constructor
    · intro x; rw [heff.1, Mem.allocated_congr c.geom a b h1.1 h1.2]
    · intro h; rw [heff.2, Mem.whole_congr a b h1.2]
  | error x =>
    obtain ⟨e, st⟩ := x
    obtain ⟨he, hs, ht⟩ := h2
    exact ⟨he, h1.trans hs, ht⟩

/-- **`get_local`** (with synchronisation of frames freed into the reserved tree) -/
theorem getLocal_spec (ok : CfgOk c) (inv : UpperInv0 c H m) (order cls loc : Nat) (frame : Option Nat)
    (hcls : cls < 8) (rng : Nat × Nat) (hr : c.slotRange cls = some rng) (hloc : loc < rng.2)
    (hto : order ≤ c.geom.treeOrder) (hframe : ∀ x, frame = some x → BlockOk c x order) :
    Runs m (getLocal c order cls loc frame) (fun r m' => UpperInv0 c H m' ∧ LocalOutcome c m order frame r m') := by
  unfold getLocal
  apply Runs.bind (locals_get_spec ok inv cls loc (frame.map (· / c.tf)) (2 ^ order) hcls rng hr hloc)
  rintro r m1 hr1
  cases r with
  | ok row => exact getLocal_ok_branch ok m m1 order cls loc row frame hcls rng hr hloc hto hframe hr1
  | error res =>
    obtain ⟨rfl, hres⟩ := hr1
    cases res with
    | none => exact Runs.pure ⟨inv, rfl, SameAlloc.refl _, fun t h => by cases h⟩
    | some x =>
      have hxt := hres x rfl
      simp only
      by_cases hlow : x.free < 2 ^ order
      · rw [if_pos hlow]
        apply Runs.bind (trees_sync_spec inv (x.row / c.g.treeRows) (2 ^ order - x.free) hxt)
        rintro s m2 hs
        cases s with
        | none =>
          subst hs
          exact Runs.pure ⟨inv, rfl, SameAlloc.refl _, fun t h => by cases h; exact hxt⟩
        | some free =>
          obtain ⟨hmin, inv2, same2, _⟩ := hs
          simp only
          apply Runs.bind (locals_put_spec ok inv2 cls loc (x.row / c.g.treeRows) free hcls rng hr hloc (by simp))
          rintro b m3 ⟨same3, hb⟩
          cases b with
          | true =>
            simp only [if_true] at hb ⊢
            have inv3 : UpperInv0 c H m3 := hb.congrP _ (gset_gset_cancel _ _)
            apply Runs.mono (getLocalNoSync_spec ok inv3 order cls loc frame hcls rng hr hloc hto hframe)
            rintro r m4 ⟨inv4, out⟩
            exact ⟨inv4, out.trans_same (same2.trans same3)⟩
          | false =>
            simp only [Bool.false_eq_true, if_false] at hb ⊢
            subst hb
            apply Runs.bind (tput_spec ok inv2 (x.row / c.g.treeRows) free hxt (by simp))
            rintro _ m4 ⟨inv4, same4⟩
            apply Runs.pure
            exact ⟨inv4.congrP _ (gset_gset_cancel _ _), rfl, same2.trans same4, fun t h => by cases h; exact hxt⟩
      · rw [if_neg hlow]
        exact Runs.pure ⟨inv, rfl, SameAlloc.refl _, fun t h => by cases h; exact hxt⟩

end
end LLFree
