/-
  Step bounds of the public interface (`Within`, see `Bound.lean`): `get` (every path: local
  reservation, sync, reserve-or-steal search, global steal, steal/demote from other slots), `put`,
  `drain`, `change_tree` — bounded by explicit functions of the configuration alone (geometry,
  number of trees, number of slots, retry constant).
-/
import LLFreeV.Proofs.BoundLower
import LLFreeV.Proofs.CfgOk
import LLFreeV.Model.Upper
namespace LLFree
open Prog

/-! ### trees -/
section
variable (tf : Nat) (policy : PolicyFn) (dflt : Nat)

theorem treesSync_within (i min : Nat) : Within 2 (Trees.sync i min) := by
  unfold Trees.sync; wauto []
theorem treesSteal_within (i cls free : Nat) : Within 2 (Trees.steal policy i cls free) := by
  unfold Trees.steal; wauto []
theorem treesPut_within (i free : Nat) : Within 2 (Trees.put tf policy dflt i free) := by
  unfold Trees.put; wauto []
theorem treesRos_within (i cls free : Nat) : Within 2 (Trees.reserveOrSteal tf policy i cls free) := by
  unfold Trees.reserveOrSteal; wauto []
theorem treesUnreserve_within (i free cls : Nat) : Within 2 (Trees.unreserve tf policy dflt i free cls) := by
  unfold Trees.unreserve; wauto []

theorem sbuf_add_length {τ : Type} (le : τ → τ → Bool) (n : Nat) (buf : List τ) (v : τ) (h : buf.length ≤ n) :
    (SortedBuffer.add le n buf v).length ≤ n := by
  unfold SortedBuffer.add
  have hsplit : (buf.takeWhile (fun x => !le v x)).length + (buf.dropWhile (fun x => !le v x)).length = buf.length := by
    rw [← List.length_append, List.takeWhile_append_dropWhile]
  simp only
  split
  · simp only [List.length_append, List.length_cons]; omega
  · split
    · exact h
    · rename_i lo' heq
      rw [heq] at hsplit
      simp only [List.length_append, List.length_cons] at hsplit ⊢; omega

variable {β : Type} (access : Nat → Prog (Res β)) (A : Nat) (hA : ∀ i, Within A (access i))
include hA

theorem tryBest_within : ∀ l, Within (l.length * A) (Trees.searchBest.tryBest access l) := by
  intro l
  induction l with
  | nil => unfold Trees.searchBest.tryBest; wauto []
  | cons x rest ih =>
    obtain ⟨_, i⟩ := x
    unfold Trees.searchBest.tryBest
    rw [List.length_cons, Nat.succ_mul]
    wauto [hA, ih]

theorem searchBestScan_within (ntrees nbuf start : Nat) (rate : Nat → Nat → Policy) :
    ∀ cnt i (best : Best), best.length ≤ nbuf →
      Within (cnt * (A + 1) + nbuf * A) (Trees.searchBest.scan tf ntrees nbuf start rate access cnt i best) := by
  intro cnt
  induction cnt with
  | zero =>
    intro i best hb
    unfold Trees.searchBest.scan
    refine (tryBest_within access A hA best.reverse).mono ?_
    rw [List.length_reverse]
    have := Nat.mul_le_mul_right A hb
    omega
  | succ cnt ih =>
    intro i best hb
    unfold Trees.searchBest.scan
    rw [Nat.succ_mul]
    have hadd := fun v => sbuf_add_length bestLe nbuf best v hb
    have ih0 := fun i => ih i best hb
    have ih1 := fun i v => ih i _ (hadd v)
    wauto [hA, ih0, ih1]

theorem searchBest_within (ntrees nbuf start offset len : Nat) (rate : Nat → Nat → Policy) :
    Within (len * (A + 1) + nbuf * A) (Trees.searchBest tf ntrees nbuf start offset len rate access) := by
  unfold Trees.searchBest
  refine (searchBestScan_within tf access A hA ntrees nbuf start rate (len - offset) offset [] (by simp)).mono ?_
  have := Nat.mul_le_mul_right (A + 1) (Nat.sub_le len offset)
  omega

theorem searchScan_within (ntrees start : Nat) :
    ∀ cnt i, Within (cnt * A) (Trees.search.scan ntrees start access cnt i) := by
  intro cnt
  induction cnt with
  | zero => intro i; unfold Trees.search.scan; wauto []
  | succ cnt ih => intro i; unfold Trees.search.scan; rw [Nat.succ_mul]; wauto [hA, ih]

theorem search_within (ntrees start offset len : Nat) :
    Within (len * A) (Trees.search ntrees start offset len access) := by
  unfold Trees.search
  exact (searchScan_within access A hA ntrees start (len - offset) offset).mono
    (Nat.mul_le_mul_right A (Nat.sub_le len offset))

end

/-! ### local slots -/
section
variable (c : Cfg)

theorem classRange_within (cls : Nat) : Within 0 (Locals.classRange c cls) := by
  unfold Locals.classRange; wauto []
theorem classLocals_within (cls : Nat) : Within 0 (Locals.classLocals c cls) := by
  unfold Locals.classLocals; wauto [classRange_within]
theorem slotIdx_within (rng : Nat × Nat) (loc : Nat) : Within 0 (Locals.slotIdx rng loc) := by
  unfold Locals.slotIdx; wauto []
theorem localsGet_within (cls loc : Nat) (tree : Option Nat) (free : Nat) : Within 2 (Locals.get c cls loc tree free) := by
  unfold Locals.get; wauto [classRange_within, slotIdx_within]
theorem localsPut_within (cls loc tree free : Nat) : Within 2 (Locals.put c cls loc tree free) := by
  unfold Locals.put; wauto [classRange_within, slotIdx_within]
theorem localsSwap_within (cls loc tree free : Nat) : Within 1 (Locals.swap c cls loc tree free) := by
  unfold Locals.swap; wauto [classRange_within, slotIdx_within]
theorem localsSetStart_within (cls index row : Nat) : Within 2 (Locals.setStart c cls index row) := by
  unfold Locals.setStart; wauto [classRange_within, slotIdx_within]

theorem stealSlots_within (tree : Option Nat) (a1 a2 a3 : Nat) (rng : Nat × Nat) :
    ∀ cnt j, Within (cnt * 2) (Locals.stealAny.slots c tree a1 a2 a3 rng cnt j) := by
  intro cnt
  induction cnt with
  | zero => intro j; unfold Locals.stealAny.slots; wauto []
  | succ cnt ih => intro j; unfold Locals.stealAny.slots; rw [Nat.succ_mul]; wauto [ih, localsGet_within]

theorem stealClasses_within (cls : Nat) (tree : Option Nat) (a1 a2 : Nat) :
    ∀ cnt i, Within (cnt * (c.nslots * 2)) (Locals.stealAny.classes c cls tree a1 a2 cnt i) := by
  intro cnt
  induction cnt with
  | zero => intro i; unfold Locals.stealAny.classes; wauto []
  | succ cnt ih =>
    intro i
    unfold Locals.stealAny.classes
    rw [Nat.succ_mul]
    dsimp only
    cases hr : c.slotRange ((i + cls) % 8) with
    | none => dsimp only; wauto [ih]
    | some rng =>
      have hin := slotRange_in c _ rng hr
      have hs := stealSlots_within c tree a1 a2 ((i + cls) % 8) rng rng.2 0
      dsimp only
      wauto [ih, hs]

theorem stealAny_within (cls : Nat) (index tree : Option Nat) (free : Nat) :
    Within (8 * (c.nslots * 2)) (Locals.stealAny c cls index tree free) := by
  unfold Locals.stealAny
  exact stealClasses_within c _ _ _ _ 8 0

theorem demoteSlots_within (a1 : Nat) (loc tree : Option Nat) (a2 : Nat) (own rng : Nat × Nat) :
    ∀ cnt j, Within (cnt * 2 + 1) (Locals.demoteAny.slots c a1 loc tree a2 own rng cnt j) := by
  intro cnt
  induction cnt with
  | zero => intro j; unfold Locals.demoteAny.slots; wauto []
  | succ cnt ih => intro j; unfold Locals.demoteAny.slots; rw [Nat.succ_mul]; wauto [ih, slotIdx_within]

theorem demoteClasses_within (cls : Nat) (loc tree : Option Nat) (free : Nat) (own : Nat × Nat) :
    ∀ cnt i, Within (cnt * (c.nslots * 2 + 1)) (Locals.demoteAny.classes c cls loc tree free own cnt i) := by
  intro cnt
  induction cnt with
  | zero => intro i; unfold Locals.demoteAny.classes; wauto []
  | succ cnt ih =>
    intro i
    unfold Locals.demoteAny.classes
    rw [Nat.succ_mul]
    dsimp only
    cases hr : c.slotRange ((i + cls) % 8) with
    | none => dsimp only; wauto [ih]
    | some rng =>
      have hin := slotRange_in c _ rng hr
      have hs := demoteSlots_within c cls loc tree free own rng rng.2 0
      dsimp only
      wauto [ih, hs]

theorem demoteAny_within (cls : Nat) (loc tree : Option Nat) (free : Nat) :
    Within (7 * (c.nslots * 2 + 1)) (Locals.demoteAny c cls loc tree free) := by
  unfold Locals.demoteAny
  wauto [classRange_within, demoteClasses_within]

variable (unreserve : Nat → Nat → Nat → Prog Unit) (U : Nat) (hU : ∀ a b d, Within U (unreserve a b d))
include hU

theorem drainSlots_within (cls base : Nat) :
    ∀ cnt j, Within (cnt * (U + 1)) (Locals.drain.slots unreserve cls base cnt j) := by
  intro cnt
  induction cnt with
  | zero => intro j; unfold Locals.drain.slots; wauto []
  | succ cnt ih => intro j; unfold Locals.drain.slots; rw [Nat.succ_mul]; wauto [ih, hU]

theorem drainClasses_within :
    ∀ cnt i, Within (cnt * (c.nslots * (U + 1))) (Locals.drain.classes c unreserve cnt i) := by
  intro cnt
  induction cnt with
  | zero => intro i; unfold Locals.drain.classes; wauto []
  | succ cnt ih =>
    intro i
    unfold Locals.drain.classes
    rw [Nat.succ_mul]
    cases hr : c.slotRange i with
    | none => dsimp only; wauto [ih]
    | some rng =>
      have hin := slotRange_in c _ rng hr
      have hs := drainSlots_within unreserve U hU i rng.1 rng.2 0
      have hle : rng.2 * (U + 1) ≤ c.nslots * (U + 1) := Nat.mul_le_mul_right _ (by omega)
      dsimp only
      wauto [ih, hs]

theorem localsDrain_within : Within (8 * (c.nslots * (U + 1))) (Locals.drain c unreserve) := by
  unfold Locals.drain
  exact drainClasses_within c unreserve U hU 8 0

end
/-! ### the public interface -/
section
variable (c : Cfg)

theorem check_within (frame : Nat) (r : Request) : Within 0 (check c frame r) := by
  unfold check; wauto [classLocals_within]
  try dsimp only [Cfg.g, Cfg.tf]
theorem tput_within (i free : Nat) : Within 2 (tput c i free) := treesPut_within _ _ _ _ _
theorem tunreserve_within (i free cls : Nat) : Within 2 (tunreserve c i free cls) := treesUnreserve_within _ _ _ _ _ _


theorem reserveOrSteal_within (i order cls loc : Nat) : Within (attemptB c) (reserveOrSteal c i order cls loc) := by
  unfold reserveOrSteal attemptB
  try dsimp only [Cfg.g, Cfg.tf]
  wauto [treesRos_within, lowerGet_within, classLocals_within, localsSwap_within, tunreserve_within, tput_within]

theorem stealGlobal_within (i cls order : Nat) (frame : Option Nat) : Within (attemptB c) (stealGlobal c i cls order frame) := by
  unfold stealGlobal attemptB
  try dsimp only [Cfg.g, Cfg.tf]
  wauto [treesSteal_within, lowerGet_within, tput_within]

theorem getLocalNoSync_within (order cls loc : Nat) (frame : Option Nat) :
    Within (attemptB c) (getLocalNoSync c order cls loc frame) := by
  unfold getLocalNoSync attemptB
  try dsimp only [Cfg.g, Cfg.tf]
  wauto [localsGet_within, lowerGet_within, localsSetStart_within, tput_within]

theorem getLocal_within (order cls loc : Nat) (frame : Option Nat) :
    Within (2 * attemptB c) (getLocal c order cls loc frame) := by
  have hns := getLocalNoSync_within c order cls loc frame
  unfold getLocal
  try dsimp only [Cfg.g, Cfg.tf]
  unfold attemptB at hns ⊢
  try dsimp only [Cfg.g, Cfg.tf]
  wauto [hns, localsGet_within, lowerGet_within, localsSetStart_within, tput_within, treesSync_within, localsPut_within]


theorem searchAndReserve_within (order cls loc start : Nat) :
    Within (searchB2 c) (searchAndReserve c order cls loc start) := by
  unfold searchAndReserve searchB2
  try dsimp only [Cfg.g, Cfg.tf]
  have hros := fun i => reserveOrSteal_within c i order cls loc
  have hnear : max (c.ntrees / 16) 4 ≤ c.ntrees + 4 := by omega
  have hmul := Nat.mul_le_mul_right (attemptB c + 1) hnear
  refine Within.bind ((c.ntrees + 4) * (attemptB c + 1) + 3 * attemptB c) ?_ (fun r1 => ?_) (by omega)
  · split
    · exact (searchBest_within _ _ _ hros _ _ _ _ _ _).mono (by omega)
    · exact Within.pure _ _
  · split
    · exact (searchBest_within _ _ _ hros _ _ _ _ _ _).mono (by omega)
    · exact Within.pure _ _


theorem stealLocal_within (r : Request) (frame : Option Nat) :
    Within (8 * (c.nslots * 2) + lowerGetB c.geom + 2) (stealLocal c r frame) := by
  unfold stealLocal
  try dsimp only [Cfg.g, Cfg.tf]
  wauto [stealAny_within, lowerGet_within, tput_within]

theorem demoteLocal_within (r : Request) (frame : Option Nat) :
    Within (7 * (c.nslots * 2 + 1) + lowerGetB c.geom + 4) (demoteLocal c r frame) := by
  unfold demoteLocal
  try dsimp only [Cfg.g, Cfg.tf]
  refine Within.bind _ (demoteAny_within c _ _ _ _) (fun d => ?_) (by omega)
  split
  · exact Within.pure _ _
  · refine Within.bind 2 ?_ (fun _ => ?_) (by omega)
    · split
      · exact tunreserve_within c _ _ _
      · exact Within.pure _ _
    · wauto [lowerGet_within, tput_within]

theorem getFallback_within (r : Request) (frame : Option Nat) : Within (fallbackB c) (getFallback c r frame) := by
  unfold getFallback fallbackB
  try dsimp only [Cfg.g, Cfg.tf]
  wauto [stealLocal_within, demoteLocal_within]


theorem getAtLocal_within (frame : Nat) (r : Request) : Within (2 * attemptB c) (getAtLocal c frame r) := by
  unfold getAtLocal
  try dsimp only [Cfg.g, Cfg.tf]
  wauto [getLocal_within]

theorem getAt_upper_within (frame : Nat) (r : Request) :
    Within (2 * attemptB c + attemptB c + fallbackB c) (getAt c frame r) := by
  unfold getAt
  try dsimp only [Cfg.g, Cfg.tf]
  wauto [getAtLocal_within, stealGlobal_within, getFallback_within]

theorem getFirst_within (r : Request) (cl : Option Nat) :
    Within (2 * attemptB c + searchB2 c + c.ntrees * (attemptB c + 1) + 8 * attemptB c) (getFirst c r cl) := by
  unfold getFirst
  try dsimp only [Cfg.g, Cfg.tf]
  have hsg := fun i => stealGlobal_within c i r.cls r.order none
  have hglobal := fun start rate => searchBest_within c.tf (fun i => stealGlobal c i r.cls r.order none) _ hsg c.ntrees 8 start 0 c.ntrees rate
  wauto [getLocal_within, searchAndReserve_within, hglobal]

theorem get_within (frame : Option Nat) (r : Request) : Within (getB c) (get c frame r) := by
  unfold get getB
  try dsimp only [Cfg.g, Cfg.tf]
  wauto [check_within, getAt_upper_within, classLocals_within, getFirst_within, getFallback_within]


theorem put_within (frame : Nat) (r : Request) : Within (putB c) (put c frame r) := by
  unfold put putB
  try dsimp only [Cfg.g, Cfg.tf]
  wauto [check_within, lowerPut_within, localsPut_within, tput_within]


theorem drain_within : Within (drainB c) (drain c) := by
  unfold drain drainB
  try dsimp only [Cfg.g, Cfg.tf]
  exact localsDrain_within c _ 2 (fun a b d => tunreserve_within c _ _ _)

end

/-! ### `change_tree` and the queries -/
section
variable (c : Cfg)

theorem treeFoldGo_within (g : Geom) (t : Nat) (divide : Bool) :
    ∀ cnt k ff fh, Within cnt (Lower.treeFold.go g t divide cnt k ff fh) := by
  intro cnt
  induction cnt with
  | zero => intro k ff fh; unfold Lower.treeFold.go; wauto []
  | succ cnt ih => intro k ff fh; unfold Lower.treeFold.go; wauto [ih]

theorem isZeroGo_within (g : Geom) (h : Nat) : ∀ cnt r, Within cnt (Bitfield.isZero.go g h cnt r) := by
  intro cnt
  induction cnt with
  | zero => intro r; unfold Bitfield.isZero.go; wauto []
  | succ cnt ih => intro r; unfold Bitfield.isZero.go; unfold Bitfield.getRow; wauto [ih]

theorem statsAt_within (g : Geom) (frame order : Nat) : Within (g.treeHuge + 3) (Lower.statsAt g frame order) := by
  unfold Lower.statsAt Lower.treeFold
  have hz : Within 1 (Bitfield.isZero g (frame / g.hugeFrames) frame 0) := by
    unfold Bitfield.isZero Bitfield.getRow
    have : ¬ 2 ^ 0 > 64 := by decide
    simp only [this, if_false]
    wauto []
  refine Within.load' (fun _ => ?_) (by omega)
  by_cases h0 : order = 0
  · simp only [h0, if_true]
    wauto [hz]
  · simp only [h0, if_false]
    by_cases h1 : order = g.hugeOrder
    · simp only [h1, if_true]
      wauto []
    · simp only [h1, if_false]
      by_cases h2 : order = g.treeOrder
      · simp only [h2, if_true]
        wauto [treeFoldGo_within]
      · simp only [h2, if_false]
        wauto []


theorem changeTree_within (mid mcls : Option Nat) (mfree : Nat) (ccls : Option Nat) (op : Option Tree.Op) :
    Within (changeB c) (changeTree c mid mcls mfree ccls op) := by
  unfold changeTree changeB
  try dsimp only [Cfg.g, Cfg.tf]
  have hat : ∀ i, Within (c.geom.treeHuge + 6)
      (if i ≥ c.ntrees then (pure (.error .argument) : Prog (Res Unit)) else do
        let ff ← (do
          if op ≠ some .online then return 0
          let e : Tree ← loadK .tree i
          match e.change mcls mfree ccls none 0 with
          | .set s =>
            if s.free = 0 then do
              let st ← Lower.statsAt c.geom (i * c.geom.treeFrames) c.geom.treeOrder
              return st.freeFrames
            else return 0
          | _ => return 0 : Prog Nat)
        let r ← updK .tree i (fun (e : Tree) => e.change mcls mfree ccls op ff)
        match r with
        | .ok _ => return .ok ()
        | .error _ => return .error .memory) := by
    intro i
    split
    · exact Within.pure _ _
    · refine Within.bind (c.geom.treeHuge + 4) ?_ (fun _ => ?_) (by omega)
      · wauto [statsAt_within]
      · wauto []
  cases mid with
  | some i => exact (hat i).mono (by omega)
  | none =>
    refine (search_within _ _ hat c.ntrees 0 0 c.ntrees).mono ?_
    omega

end

/-! ### statistics -/
section
variable (c : Cfg)

theorem lowerStatsGo_within (g : Geom) : ∀ cnt t s, Within (cnt * g.treeHuge) (Lower.stats.go g cnt t s) := by
  intro cnt
  induction cnt with
  | zero => intro t s; unfold Lower.stats.go; wauto []
  | succ cnt ih =>
    intro t s
    unfold Lower.stats.go Lower.treeFold
    rw [Nat.succ_mul]
    wauto [ih, treeFoldGo_within]

theorem stats_within : Within (statsB c) (stats c) := by
  unfold stats Lower.stats statsB
  exact lowerStatsGo_within c.geom c.ntrees 0 {}

theorem treesStatsGo_within : ∀ cnt i s, Within cnt (Trees.stats.go c cnt i s) := by
  intro cnt
  induction cnt with
  | zero => intro i s; unfold Trees.stats.go; wauto []
  | succ cnt ih => intro i s; unfold Trees.stats.go; wauto [ih]

section
variable {σ : Type} (f : σ → Nat → LTree → Prog σ) (F : Nat) (hF : ∀ a b t, Within F (f a b t))
include hF

theorem foldSlotsSlots_within (cls base : Nat) :
    ∀ cnt j acc, Within (cnt * (F + 1)) (Locals.foldSlots.slots f cls base cnt j acc) := by
  intro cnt
  induction cnt with
  | zero => intro j acc; unfold Locals.foldSlots.slots; wauto []
  | succ cnt ih =>
    intro j acc
    unfold Locals.foldSlots.slots
    rw [Nat.succ_mul]
    refine Within.bind 1 (Within.loadK _ _) (fun t => ?_) (by omega)
    have hrest := fun acc' => ih (j + 1) acc'
    wauto [hF, hrest]

theorem foldSlotsClasses_within :
    ∀ cnt i acc, Within (cnt * (c.nslots * (F + 1))) (Locals.foldSlots.classes c f cnt i acc) := by
  intro cnt
  induction cnt with
  | zero => intro i acc; unfold Locals.foldSlots.classes; wauto []
  | succ cnt ih =>
    intro i acc
    unfold Locals.foldSlots.classes
    rw [Nat.succ_mul]
    have hrest := fun acc' => ih (i + 1) acc'
    cases hr : c.slotRange i with
    | none => dsimp only; wauto [hrest]
    | some rng =>
      have hin := slotRange_in c _ rng hr
      have hle : rng.2 * (F + 1) ≤ c.nslots * (F + 1) := Nat.mul_le_mul_right _ (by omega)
      have hs := foldSlotsSlots_within f F hF i rng.1 rng.2 0 acc
      dsimp only
      wauto [hs, hrest]

theorem foldSlots_within (init : σ) : Within (8 * (c.nslots * (F + 1))) (Locals.foldSlots c f init) := by
  unfold Locals.foldSlots
  exact foldSlotsClasses_within c f F hF 8 0 init

end

theorem treeStats_within : Within (treeStatsB c) (treeStats c) := by
  unfold treeStats treeStatsB Trees.stats
  refine Within.bind c.ntrees (treesStatsGo_within c _ _ _) (fun s => ?_) (by omega)
  refine Within.bind (8 * (c.nslots * 1)) (foldSlots_within c _ 0 (fun _ _ _ => Within.pure _ _) s) (fun s => ?_) (by omega)
  refine (foldSlots_within c _ 1 (fun _ _ _ => ?_) s).mono (by omega)
  wauto []

theorem isFreeGo_within (g : Geom) (t i : Nat) : ∀ cnt k, Within cnt (Lower.isFree.go g t i cnt k) := by
  intro cnt
  induction cnt with
  | zero => intro k; unfold Lower.isFree.go; wauto []
  | succ cnt ih => intro k; unfold Lower.isFree.go; wauto [ih]

/-- `is_free` for the orders the source accepts -/
theorem isFree_within (g : Geom) (frame order : Nat) :
    Within (g.treeHuge + g.rows + 3) (Lower.isFree g frame order) := by
  unfold Lower.isFree
  by_cases hge : order ≥ g.hugeOrder
  · simp only [hge, if_true]
    split
    · exact Within.panic _ _
    · rename_i hfit
      exact (isFreeGo_within g _ _ _ 0).mono (by omega)
  · simp only [hge, if_false]
    have hz : Within (g.rows + 1) (Bitfield.isZero g (frame / g.hugeFrames) frame order) := by
      unfold Bitfield.isZero
      dsimp only
      split
      · have h64 : (frame + 2 ^ order) / 64 - frame / 64 ≤ 2 ^ order / 64 + 1 := by omega
        have := pow_div_le_rows g order (by omega)
        exact (isZeroGo_within g _ _ _).mono (by omega)
      · unfold Bitfield.getRow; wauto []
    wauto [hz]

end

end LLFree
