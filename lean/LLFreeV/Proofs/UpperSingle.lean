/-
  C11: completeness of base-order allocation through one slot, without a drain.
  Exact results of the slot / tree-counter helpers, then: `get_local` succeeds when the slot's
  reservation still has a frame, or when its tree's global counter has one (sync); otherwise it
  reports `Memory` without touching anything.
-/
import LLFreeV.Proofs.UpperComplete
namespace LLFree
open Prog

/-- the sequential semantics is deterministic: two facts about one run combine -/
theorem Runs.and {α : Type} {m : Mem} {p : Prog α} {Q1 Q2 : α → Mem → Prop} (h1 : Runs m p Q1) (h2 : Runs m p Q2) :
    Runs m p (fun a m' => Q1 a m' ∧ Q2 a m') := by
  obtain ⟨m1, a1, e1, q1⟩ := h1
  obtain ⟨m2, a2, e2, q2⟩ := h2
  rw [e1] at e2
  injection e2 with e3 e4
  injection e4 with e5
  subst e3; subst e5
  exact ⟨m1, a1, e1, q1, q2⟩

/-- partial correctness: *if* the run finishes without panic, its result satisfies `Q` -/
def Part {α : Type} (m : Mem) (p : Prog α) (Q : α → Mem → Prop) : Prop :=
  ∀ m' a, runSolo p m = (m', .ok a) → Q a m'

theorem Runs.toPart {α : Type} {m : Mem} {p : Prog α} {Q : α → Mem → Prop} (h : Runs m p Q) : Part m p Q := by
  obtain ⟨m1, a1, e1, q1⟩ := h
  intro m' a e
  rw [e1] at e
  injection e with e3 e4
  injection e4 with e5
  subst e3; subst e5
  exact q1

theorem Runs.withPart {α : Type} {m : Mem} {p : Prog α} {Q1 Q2 : α → Mem → Prop} (h1 : Runs m p Q1) (h2 : Part m p Q2) :
    Runs m p (fun a m' => Q1 a m' ∧ Q2 a m') := by
  obtain ⟨m1, a1, e1, q1⟩ := h1
  exact ⟨m1, a1, e1, q1, h2 m1 a1 e1⟩

theorem Part.bind {α β : Type} {m : Mem} {p : Prog α} {f : α → Prog β} {R : α → Mem → Prop} {Q : β → Mem → Prop}
    (h : Part m p R) (hf : ∀ a m', R a m' → Part m' (f a) Q) : Part m (p >>= f) Q := by
  intro m'' b e
  rw [runSolo_bind] at e
  cases hr : runSolo p m with
  | mk m1 o =>
    rw [hr] at e
    cases o with
    | ok a => exact hf a m1 (h m1 a hr) m'' b e
    | panic s => simp at e

theorem Part.pure {α : Type} {m : Mem} {a : α} {Q : α → Mem → Prop} (q : Q a m) : Part m (Pure.pure a : Prog α) Q := by
  intro m' a' e
  have : (m, Outcome.ok a) = (m', Outcome.ok a') := e
  injection this with e1 e2
  injection e2 with e3
  subst e1; subst e3; exact q

theorem Part.trivial {α : Type} {m : Mem} (p : Prog α) : Part m p (fun _ _ => True) := fun _ _ _ => True.intro

theorem Part.mono {α : Type} {m : Mem} {p : Prog α} {Q R : α → Mem → Prop} (h : Part m p Q) (hq : ∀ a m', Q a m' → R a m') :
    Part m p R := fun m' a e => hq a m' (h m' a e)

section
variable {c : Cfg} {H : Nat → Nat} {m : Mem}

/-- exact result of `Locals::get` -/
theorem locals_get_exact (cls loc : Nat) (tree : Option Nat) (n : Nat) (hcls : cls < 8)
    (rng : Nat × Nat) (hr : c.slotRange cls = some rng) (hloc : loc < rng.2) (l : LTree) (hl : m.slots[rng.1 + loc]? = some l) :
    Runs m (Locals.get c cls loc tree n) (fun r m' => match l.get c.geom.treeRows tree n with
      | some l' => r = .ok l.row ∧ m' = m.set .slot (rng.1 + loc) l'
      | none => r = .error (if l.present then some (l.asReservation cls) else none) ∧ m' = m) := by
  unfold Locals.get
  apply Runs.bind (classRange_spec m cls hcls (fun r m' => r = some rng ∧ m = m') ⟨hr, rfl⟩)
  rintro _ _ ⟨rfl, rfl⟩
  simp only
  apply Runs.bind (slotIdx_spec m rng loc hloc (fun r m' => r = rng.1 + loc ∧ m = m') ⟨rfl, rfl⟩)
  rintro _ _ ⟨rfl, rfl⟩
  cases hg : l.get c.geom.treeRows tree n with
  | some l' =>
    apply Runs.bind (Runs.tryUpdate_some (Q := fun r m' => r = .ok l ∧ m.set .slot (rng.1 + loc) l' = m')
      (by simpa using hl) hg ⟨rfl, rfl⟩)
    rintro _ _ ⟨rfl, rfl⟩
    exact Runs.pure ⟨rfl, rfl⟩
  | none =>
    apply Runs.bind (Runs.tryUpdate_none (Q := fun r m' => r = .error l ∧ m = m') (by simpa using hl) hg ⟨rfl, rfl⟩)
    rintro _ _ ⟨rfl, rfl⟩
    exact Runs.pure ⟨rfl, rfl⟩

/-- exact result of `Trees::sync` -/
theorem trees_sync_exact (i min : Nat) (tt : Tree) (ht : m.trees[i]? = some tt) :
    Runs m (Trees.sync i min) (fun r m' =>
      if tt.reserved = true ∧ tt.free ≥ min then r = some tt.free ∧ m' = m.set .tree i { tt with free := 0 }
      else r = none ∧ m' = m) := by
  unfold Trees.sync
  by_cases hcnd : tt.reserved = true ∧ tt.free ≥ min
  · simp only [if_pos hcnd]
    have hf : tt.syncSteal min = some { tt with free := 0 } := by
      unfold Tree.syncSteal; simp [hcnd.1, hcnd.2]
    apply Runs.bind (Runs.tryUpdate_some (Q := fun r m' => r = .ok tt ∧ m.set .tree i { tt with free := 0 } = m')
      (by simpa using ht) hf ⟨rfl, rfl⟩)
    rintro _ _ ⟨rfl, rfl⟩
    exact Runs.pure ⟨rfl, rfl⟩
  · simp only [if_neg hcnd]
    have hf : tt.syncSteal min = none := by
      unfold Tree.syncSteal
      by_cases h1 : tt.reserved = true <;> by_cases h2 : tt.free ≥ min <;> simp [h1, h2]
      exact hcnd ⟨h1, h2⟩
    apply Runs.bind (Runs.tryUpdate_none (Q := fun r m' => r = .error tt ∧ m = m') (by simpa using ht) hf ⟨rfl, rfl⟩)
    rintro _ _ ⟨rfl, rfl⟩
    exact Runs.pure ⟨rfl, rfl⟩

/-- exact result of `Locals::put` into a slot that holds the tree (no overflow of the counter) -/
theorem locals_put_exact (cls loc tree n : Nat) (hcls : cls < 8)
    (rng : Nat × Nat) (hr : c.slotRange cls = some rng) (hloc : loc < rng.2) (l : LTree) (hl : m.slots[rng.1 + loc]? = some l)
    (hp : l.present = true) (ht : l.row / c.geom.treeRows = tree) (hfit : l.free + n ≤ c.geom.treeFrames) :
    Runs m (Locals.put c cls loc tree n) (fun b m' => b = true ∧ m' = m.set .slot (rng.1 + loc) { l with free := l.free + n }) := by
  unfold Locals.put
  apply Runs.bind (classRange_spec m cls hcls (fun r m' => r = some rng ∧ m = m') ⟨hr, rfl⟩)
  rintro _ _ ⟨rfl, rfl⟩
  simp only
  apply Runs.bind (slotIdx_spec m rng loc hloc (fun r m' => r = rng.1 + loc ∧ m = m') ⟨rfl, rfl⟩)
  rintro _ _ ⟨rfl, rfl⟩
  have hf : LTree.put c.geom.treeRows c.geom.treeFrames l tree n = .set { l with free := l.free + n } := by
    unfold LTree.put
    have : ¬ l.free + n > c.geom.treeFrames := by omega
    simp [hp, ht, this]
  apply Runs.bind (Runs.upd_set (Q := fun r m' => r = .ok l ∧ m.set .slot (rng.1 + loc) { l with free := l.free + n } = m')
    (by simpa using hl) hf ⟨rfl, rfl⟩)
  rintro _ _ ⟨rfl, rfl⟩
  exact Runs.pure ⟨rfl, rfl⟩

/-- a reservation that still holds a frame yields a frame: the tail of `get_local` after
    `Locals::get` succeeded cannot fail for a base-order request -/
theorem okBranch_succeeds (ok : CfgOk c) (m m1 : Mem) (cls loc row : Nat)
    (hcls : cls < 8) (rng : Nat × Nat) (hr : c.slotRange cls = some rng) (hloc : loc < rng.2)
    (hr1 : LocalsGot c H (fun _ => 0) (fun _ => False) m (rng.1 + loc) (none : Option Nat) (2 ^ 0) (.ok row) m1) :
    Runs m1 (do
        let lr ← Lower.get c.g row 0 none
        match lr with
        | .ok f => do
          if row ≠ f / 64 then Locals.setStart c cls loc (f / 64)
          return .ok (f, cls)
        | .error e => do
          tput c (row / c.g.treeRows) (2 ^ 0)
          return .error (e, some (row / c.g.treeRows)) : Prog LocalRes)
      (fun r m' => (UpperInv0 c H m' ∧ LocalOutcome c m 0 none r m') ∧ ∃ x, r = .ok x) := by
  have okg := ok.geom.toGeomOk
  apply Runs.withPart (getLocal_ok_branch ok m m1 0 cls loc row none hcls rng hr hloc (Nat.zero_le _) (fun x h => by cases h) hr1)
  obtain ⟨htree, hlt, inv1, same1, htrees, l', hl', hp', hrow'⟩ := hr1
  refine Part.bind (Runs.toPart (lower_get_upper ok inv1 row 0 (row / c.geom.treeRows) none (Nat.zero_le _) hlt (by simp)
    (fun _ => row_tree okg row) (fun x h => by cases h))) ?_
  rintro lr m2 hlr
  cases lr with
  | ok f =>
    simp only
    by_cases hne : row ≠ f / 64
    · rw [if_pos hne]
      refine Part.bind (Part.trivial _) ?_
      intro _ _ _
      exact Part.pure ⟨_, rfl⟩
    · rw [if_neg hne]
      exact Part.pure ⟨_, rfl⟩
  | error e =>
    -- impossible: the tree holds a free frame (the one the reservation just handed out)
    exfalso
    obtain ⟨_, _, hno⟩ := hlr
    obtain ⟨t, ht⟩ := inv1.tree_get _ hlt
    have hle := inv1.counterLe _ t ht
    simp only [gset_same] at hle
    obtain ⟨f, h2, h3, h4⟩ := exists_free_frame (m := m1) okg (row / c.geom.treeRows) (by omega)
    exact hno rfl f h2 h3 h4

/-- `get_local(sync = false)` through a reservation that still holds a frame succeeds -/
theorem getLocalNoSync_succeeds (ok : CfgOk c) (inv : UpperInv0 c H m) (cls loc : Nat)
    (hcls : cls < 8) (rng : Nat × Nat) (hr : c.slotRange cls = some rng) (hloc : loc < rng.2)
    (l : LTree) (hl : m.slots[rng.1 + loc]? = some l) (hp : l.present = true) (hf : 1 ≤ l.free) :
    Runs m (getLocalNoSync c 0 cls loc none) (fun r m' => (UpperInv0 c H m' ∧ LocalOutcome c m 0 none r m') ∧ ∃ x, r = .ok x) := by
  unfold getLocalNoSync
  have hg : l.get c.geom.treeRows none (2 ^ 0) = some { l with free := l.free - 2 ^ 0 } :=
    (LTree.get_eq_some _ l none _ _).2 ⟨hp, (fun t h => by cases h), by simpa using hf, rfl⟩
  apply Runs.bind (Runs.and (locals_get_spec ok inv cls loc none (2 ^ 0) hcls rng hr hloc)
    (locals_get_exact cls loc none (2 ^ 0) hcls rng hr hloc l hl))
  rintro r m1 ⟨hr1, hex⟩
  rw [hg] at hex
  obtain ⟨rfl, _⟩ := hex
  exact okBranch_succeeds ok m m1 cls loc l.row hcls rng hr hloc hr1

/-- the three ways `get_local` can end for a base-order request through slot `l` -/
def LocalCases (c : Cfg) (m : Mem) (l : LTree) (r : LocalRes) (m' : Mem) : Prop :=
  (∃ x, r = .ok x) ∨
  (m' = m ∧ l.present = false ∧ r = .error (.memory, none)) ∨
  (m' = m ∧ l.present = true ∧ l.free = 0 ∧ r = .error (.memory, some (l.row / c.geom.treeRows)) ∧
    ∀ tt : Tree, m.trees[l.row / c.geom.treeRows]? = some tt → ¬ (tt.reserved = true ∧ tt.free ≥ 1))

/-- **`get_local` (with sync), base order, complete case analysis** -/
theorem getLocal_cases (ok : CfgOk c) (inv : UpperInv0 c H m) (cls loc : Nat)
    (hcls : cls < 8) (rng : Nat × Nat) (hr : c.slotRange cls = some rng) (hloc : loc < rng.2)
    (l : LTree) (hl : m.slots[rng.1 + loc]? = some l) :
    Runs m (getLocal c 0 cls loc none) (fun r m' => (UpperInv0 c H m' ∧ LocalOutcome c m 0 none r m') ∧ LocalCases c m l r m') := by
  have okg := ok.geom.toGeomOk
  unfold getLocal
  apply Runs.bind (Runs.and (locals_get_spec ok inv cls loc none (2 ^ 0) hcls rng hr hloc)
    (locals_get_exact cls loc none (2 ^ 0) hcls rng hr hloc l hl))
  rintro r m1 ⟨hr1, hex⟩
  cases hg : l.get c.geom.treeRows none (2 ^ 0) with
  | some l' =>
    rw [hg] at hex
    obtain ⟨rfl, _⟩ := hex
    apply Runs.mono (okBranch_succeeds ok m m1 cls loc l.row hcls rng hr hloc hr1)
    rintro r m' ⟨h1, h2⟩
    exact ⟨h1, Or.inl h2⟩
  | none =>
    rw [hg] at hex
    obtain ⟨hrr, hm1⟩ := hex
    have hm1' := hm1.symm
    subst hm1'
    subst hrr
    by_cases hp : l.present = true
    · -- present but empty
      have hfree : l.free = 0 := by
        have : ¬ l.free ≥ 2 ^ 0 := by
          intro hge
          have := (LTree.get_eq_some c.geom.treeRows l none (2 ^ 0) { l with free := l.free - 2 ^ 0 }).2
            ⟨hp, (fun t h => by cases h), hge, rfl⟩
          rw [hg] at this; cases this
        simp at this; exact this
      simp only [hp, if_true]
      have hxt : l.row / c.g.treeRows < c.ntrees := by
        obtain ⟨k, hk⟩ := inv.slotCls _ l hl hp
        obtain ⟨t, ht, _, _⟩ := inv.slotTree _ l k hl hp hk
        exact inv.tree_lt _ t ht
      obtain ⟨tt, htt⟩ := inv.tree_get _ hxt
      have hlow : (l.asReservation cls).free < 2 ^ 0 := by show l.free < 2 ^ 0; rw [hfree]; simp
      rw [if_pos hlow]
      have hmin : 2 ^ 0 - (l.asReservation cls).free = 1 := by show 2 ^ 0 - l.free = 1; rw [hfree]
      rw [hmin]
      apply Runs.bind (Runs.and (trees_sync_spec inv ((l.asReservation cls).row / c.g.treeRows) 1 hxt)
        (trees_sync_exact ((l.asReservation cls).row / c.g.treeRows) 1 tt htt))
      rintro s m2 ⟨hs, hsx⟩
      by_cases hcnd : tt.reserved = true ∧ tt.free ≥ 1
      · rw [if_pos hcnd] at hsx
        obtain ⟨rfl, hm2⟩ := hsx
        obtain ⟨_, inv2, same2, hslots2⟩ := hs
        simp only
        have hl2 : m2.slots[rng.1 + loc]? = some l := by rw [hslots2]; exact hl
        have hfit : l.free + tt.free ≤ c.geom.treeFrames := by
          have h1 : tt.free + m.slotFree c.geom.treeRows (l.row / c.geom.treeRows) + 0 ≤ m.freeInTree c.geom (l.row / c.geom.treeRows) :=
            inv.counterLe _ tt htt
          have h2 := Mem.freeInTree_le m c.geom (l.row / c.geom.treeRows)
          omega
        apply Runs.bind (Runs.and (locals_put_spec ok inv2 cls loc ((l.asReservation cls).row / c.g.treeRows) tt.free hcls rng hr hloc (by simp))
          (locals_put_exact cls loc ((l.asReservation cls).row / c.g.treeRows) tt.free hcls rng hr hloc l hl2 hp rfl hfit))
        rintro b m3 ⟨⟨same3, hb⟩, rfl, hm3⟩
        simp only [if_true] at hb ⊢
        have inv3 : UpperInv0 c H m3 := hb.congrP _ (gset_gset_cancel _ _)
        have hsz : rng.1 + loc < m2.slots.size := (Array.getElem?_eq_some_iff.1 hl2).1
        have hl3 : m3.slots[rng.1 + loc]? = some { l with free := l.free + tt.free } := by
          rw [hm3]; simp [Mem.set_slot_slots, hsz]
        apply Runs.mono (getLocalNoSync_succeeds ok inv3 cls loc hcls rng hr hloc _ hl3 hp (by show 1 ≤ l.free + tt.free; omega))
        rintro r m4 ⟨⟨inv4, out⟩, hok⟩
        exact ⟨⟨inv4, out.trans_same (same2.trans same3)⟩, Or.inl hok⟩
      · rw [if_neg hcnd] at hsx
        obtain ⟨hss, hm2⟩ := hsx
        have hm2' := hm2.symm
        subst hm2'
        subst hss
        simp only
        apply Runs.pure
        refine ⟨⟨inv, rfl, SameAlloc.refl _, fun t h => by cases h; exact hxt⟩, Or.inr (Or.inr ⟨rfl, hp, hfree, rfl, ?_⟩)⟩
        intro tt' htt'
        have := htt.symm.trans htt'
        injection this with this
        subst this; exact hcnd
    · have hp' : l.present = false := by cases h : l.present <;> simp_all
      simp only [hp', Bool.false_eq_true, if_false]
      exact Runs.pure ⟨⟨inv, rfl, SameAlloc.refl _, fun t h => by cases h⟩, Or.inr (Or.inl ⟨rfl, hp', rfl⟩)⟩

theorem exists_of_sum_pos : ∀ (l : List Nat), 1 ≤ l.sum → ∃ x, x ∈ l ∧ 1 ≤ x
  | [], h => by simp at h
  | a :: rest, h => by
    rw [List.sum_cons] at h
    by_cases ha : 1 ≤ a
    · exact ⟨a, List.mem_cons_self, ha⟩
    · obtain ⟨x, hx, h1⟩ := exists_of_sum_pos rest (by omega)
      exact ⟨x, List.mem_cons_of_mem _ hx, h1⟩

/-- a tree with cached frames has a slot that holds some -/
theorem slot_of_slotFree (tr i : Nat) (h : 1 ≤ m.slotFree tr i) :
    ∃ s : Nat, ∃ l' : LTree, m.slots[s]? = some l' ∧ l'.present = true ∧ l'.row / tr = i ∧ 1 ≤ l'.free := by
  unfold Mem.slotFree at h
  obtain ⟨x, hx, h1⟩ := exists_of_sum_pos _ h
  obtain ⟨l', hl', rfl⟩ := List.mem_map.1 hx
  obtain ⟨s, hs, hget⟩ := List.getElem_of_mem hl'
  refine ⟨s, l', ?_, ?_⟩
  · rw [← hget]
    have hs' : s < m.slots.size := by simpa using hs
    rw [Array.getElem?_eq_getElem hs']
    simp
  · unfold LTree.freeFor at h1
    by_cases hc : (l'.present && l'.row / tr == i) = true
    · rw [if_pos hc] at h1
      simp only [Bool.and_eq_true, beq_iff_eq] at hc
      exact ⟨hc.1, hc.2, h1⟩
    · rw [if_neg hc] at h1; omega

/-- **C11.** One class, one local slot (only the caller's slot can hold a reservation), no
    offline trees, more trees than slots: a base-order allocation through the slot succeeds
    whenever any frame is free — whether the frame was freed through the slot or without naming
    it, and without a drain. -/
theorem single_slot_get_complete (ok : CfgOk c) (inv : UpperInv0 c (fun _ => 0) m) (r : Request) (ho : r.order = 0)
    (hcls : r.cls < 8) (lo : Nat) (hlo : r.loc = some lo) (rng : Nat × Nat) (hrng : c.slotRange r.cls = some rng)
    (hloc : lo < rng.2) (hnt : rng.2 < c.ntrees) (hv : C08.ArgsValid c 0 r)
    (hsingle : ∀ s (l' : LTree), m.slots[s]? = some l' → l'.present = true → s = rng.1 + lo)
    (f : Nat) (hfree : m.allocated c.geom f = false) :
    Runs m (get c none r) (fun res m' => (∃ x, res = .ok x) ∧ UpperInv0 c (fun _ => 0) m' ∧ GetOutcome c m 0 none res m') := by
  have okg := ok.geom.toGeomOk
  have hntp : 0 < c.ntrees := by omega
  obtain ⟨l, hl⟩ := inv.slot_get ok r.cls rng hrng lo hloc
  -- the tree of the free frame
  have hfr : f < c.frames := by
    refine Nat.lt_of_not_le (fun hge => ?_)
    have := inv.lower.outside f hge
    unfold Mem.allocated at hfree
    rw [this] at hfree; simp at hfree
  have hi : f / c.geom.treeFrames < c.ntrees := by
    unfold Cfg.ntrees
    apply (Nat.div_lt_iff_lt_mul okg.tf_pos).2
    have := Nat.lt_mul_div_succ (c.frames + c.geom.treeFrames - 1) okg.tf_pos
    rw [Nat.mul_comm, Nat.add_mul, Nat.one_mul] at this
    omega
  obtain ⟨ti, hti⟩ := inv.tree_get _ hi
  have hfit : 1 ≤ m.freeInTree c.geom (f / c.geom.treeFrames) := by
    unfold Mem.freeInTree
    apply List.countP_pos_iff.2
    refine ⟨f % c.geom.treeFrames, List.mem_range.2 (Nat.mod_lt _ okg.tf_pos), ?_⟩
    have : f / c.geom.treeFrames * c.geom.treeFrames + f % c.geom.treeFrames = f := by
      have := Nat.div_add_mod f c.geom.treeFrames; rw [Nat.mul_comm] at this; exact this
    rw [this, hfree]; rfl
  have hceq := inv.counterEq _ ti hti rfl
  -- what a failing `get_local` implies: some unreserved tree has a positive counter
  have husable : (l.present = false ∨ (l.present = true ∧ l.free = 0 ∧
      ∀ tt : Tree, m.trees[l.row / c.geom.treeRows]? = some tt → ¬ (tt.reserved = true ∧ tt.free ≥ 1))) →
      Usable m (f / c.geom.treeFrames) := by
    intro hfail
    have hnoslot : ¬ 1 ≤ m.slotFree c.geom.treeRows (f / c.geom.treeFrames) := by
      intro hsf
      obtain ⟨s, l', hl', hp', _, hf'⟩ := slot_of_slotFree c.geom.treeRows _ hsf
      have := hsingle s l' hl' hp'
      subst this
      rw [hl] at hl'; injection hl' with hl'; subst hl'
      rcases hfail with h | ⟨_, h0, _⟩
      · rw [h] at hp'; cases hp'
      · omega
    have htf : 1 ≤ ti.free := by omega
    refine ⟨ti, hti, ?_, htf⟩
    cases hres : ti.reserved with
    | false => rfl
    | true =>
      exfalso
      rcases inv.resSlot _ ti hti hres with h | ⟨s, l', hl', hp', hrow'⟩
      · exact h
      · have := hsingle s l' hl' hp'
        subst this
        rw [hl] at hl'; injection hl' with hl'; subst hl'
        rcases hfail with h | ⟨_, _, hno⟩
        · rw [h] at hp'; cases hp'
        · rw [hrow'] at hno
          exact hno ti hti ⟨hres, htf⟩
  have hchk := C08.check_valid c m 0 r hcls hv
  unfold get
  apply Runs.bind (Runs.of_eq hchk (Q := fun x m' => x = .ok () ∧ m = m') ⟨rfl, rfl⟩)
  rintro _ _ ⟨rfl, rfl⟩
  simp only
  apply Runs.bind (classLocals_runs m r.cls hcls (fun x m' => x = some rng.2 ∧ m = m') (by rw [hrng]; exact ⟨rfl, rfl⟩))
  rintro _ _ ⟨rfl, rfl⟩
  have hfirst : Runs m (getFirst c r (some rng.2))
      (fun res m' => res ≠ .error .memory ∧ (UpperInv0 c (fun _ => 0) m' ∧ GetOutcome c m 0 none res m')) := by
    unfold getFirst
    simp only [Option.getD_some, hlo]
    have hlen : ¬ rng.2 = 0 := by omega
    simp only [hlen, if_false]
    have hsi : c.ntrees / rng.2 * lo < c.ntrees := div_mul_lt _ _ _ hloc hntp
    have hcond : (decide (rng.2 > 0) && decide (rng.2 < c.ntrees)) = true := by simp; omega
    rw [if_pos hcond, ho]
    apply Runs.bind (getLocal_cases ok inv r.cls lo hcls rng hrng hloc l hl)
    rintro lr m1 ⟨⟨inv1, out1⟩, hcase⟩
    rcases hcase with ⟨x, rfl⟩ | ⟨rfl, hp, rfl⟩ | ⟨rfl, hp, h0, rfl, hno⟩
    · obtain ⟨fr, k⟩ := x
      exact Runs.pure ⟨by simp, inv1, out1⟩
    · simp only [Option.getD_none]
      exact searchAndReserve_finds ok inv r.cls lo _ hcls rng hrng (by omega) hsi _ hi (husable (Or.inl hp))
    · simp only [Option.getD_some]
      have hxt : l.row / c.geom.treeRows < c.ntrees := by
        obtain ⟨k, hk⟩ := inv.slotCls _ l hl hp
        obtain ⟨t, ht, _, _⟩ := inv.slotTree _ l k hl hp hk
        exact inv.tree_lt _ t ht
      exact searchAndReserve_finds ok inv r.cls lo _ hcls rng hrng (by omega) hxt _ hi (husable (Or.inr ⟨hp, h0, hno⟩))
  apply Runs.bind hfirst
  rintro res m' ⟨hne, inv', out⟩
  cases res with
  | ok v => exact Runs.pure ⟨⟨v, rfl⟩, inv', out⟩
  | error e => exact absurd (by rw [out.1]) hne

end
end LLFree
