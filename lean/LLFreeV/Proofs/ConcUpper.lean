/-
  The upper level (tree entries and local slots) under arbitrary interleavings: ghost state,
  legal transitions and the per-thread safety predicate `SafeU`.

  Ghost state of a thread (`UGh`):
  * `base i` — the frames of tree `i` the thread has taken out of the upper counters (tree entry,
    reservations) and not given back: its blocks in that tree plus whatever it carries between
    two accesses of a call;
  * `tok i = some b` — the thread carries the reservation of tree `i` (the entry is reserved and
    no slot names it); `b` is a lower bound of the entry's class.

  `SafeU c Post ug p`: every write of `p` to a tree entry or a slot is a legal transition for a
  thread with ghost `ug`, whatever values its loads return (other threads may have written
  anything legal in between). Accesses of rows and table entries are ignored here (they are the
  subject of `SafeL`); panics are tolerated (a thread that traps keeps what it carries).
-/
import LLFreeV.Proofs.UpperInvG
import LLFreeV.Proofs.OwnLower
namespace LLFree
open Prog

structure UGh where
  base : Nat → Nat
  tok : Nat → Option Nat

/-- legal write of tree entry `i` -/
structure UTransT (ug ug' : UGh) (i : Nat) (old new : Tree) : Prop where
  cls8 : old.cls < 8 → new.cls < 8
  acct : new.free + ug'.base i = old.free + ug.base i
  baseOther : ∀ j, j ≠ i → ug'.base j = ug.base j
  tokOther : ∀ j, j ≠ i → ug'.tok j = ug.tok j
  flag :
    -- counters move; a reserved entry keeps its class
    (new.reserved = old.reserved ∧ (old.reserved = true → new.cls = old.cls) ∧ ug'.tok i = ug.tok i) ∨
    -- reserve: the thread now carries the reservation
    (old.reserved = false ∧ new.reserved = true ∧ ug'.tok i = some new.cls) ∨
    -- unreserve: only by the carrier
    ((ug.tok i).isSome = true ∧ new.reserved = false ∧ ug'.tok i = none)

/-- legal write of a slot of class `k` (`tr` = rows per tree) -/
inductive UTransS (tr k : Nat) (ug ug' : UGh) (old new : LTree) : Prop where
  /-- the reservation stays (or the slot stays empty): only its counter moves -/
  | same (hp : new.present = old.present) (ht : old.present = true → new.row / tr = old.row / tr)
      (acct : ∀ i, LTree.freeFor tr i new + ug'.base i = LTree.freeFor tr i old + ug.base i)
      (tok : ug'.tok = ug.tok)
  /-- the reservation is replaced: the thread receives the old one and must carry the new one -/
  | move (acct : ∀ i, LTree.freeFor tr i new + ug'.base i = LTree.freeFor tr i old + ug.base i)
      (hnew : new.present = true → ∃ b, ug.tok (new.row / tr) = some b ∧ k ≤ b)
      (tok : ∀ j, ug'.tok j =
        if new.present = true ∧ new.row / tr = j then none
        else if old.present = true ∧ old.row / tr = j then some k else ug.tok j)

/-- what a thread knows about a slot value it reads: the slot does not name a tree whose
    reservation the thread carries -/
def KnownS (tr tf nt : Nat) (ug : UGh) (o : LTree) : Prop :=
  o.present = true → ug.tok (o.row / tr) = none ∧ o.free + ug.base (o.row / tr) ≤ tf ∧ o.row / tr < nt

/-- what a thread knows about a tree entry it reads: if it carries the reservation, the entry is
    reserved and its class is at least the recorded bound -/
def KnownT (tf nt : Nat) (ug : UGh) (i : Nat) (t : Tree) : Prop :=
  (∀ b, ug.tok i = some b → t.reserved = true ∧ b ≤ t.cls) ∧ t.free + ug.base i ≤ tf ∧ t.cls < 8 ∧ i < nt

def SafeU {α : Type} (c : Cfg) (Post : α → UGh → Prop) : UGh → Prog α → Prop
  | ug, .ret a => Post a ug
  | _, .panic s => LowerMsg s
  | ug, .load _ _ cont => ∀ v, SafeU c Post ug (cont v)
  | ug, .store .row _ _ cont => SafeU c Post ug cont
  | ug, .store .huge _ _ cont => SafeU c Post ug cont
  | _, .store .tree _ _ _ => False
  | _, .store .slot _ _ _ => False
  | ug, .swap .row _ _ cont => ∀ o, SafeU c Post ug (cont o)
  | ug, .swap .huge _ _ cont => ∀ o, SafeU c Post ug (cont o)
  | _, .swap .tree _ _ _ => False
  | ug, .swap .slot s v cont => ∀ o : LTree, KnownS c.geom.treeRows c.geom.treeFrames c.ntrees ug o →
      ∃ k ug', c.slotClass s k ∧ UTransS c.geom.treeRows k ug ug' o v ∧ SafeU c Post ug' (cont o)
  | ug, .cas .row _ _ _ cont => ∀ r, SafeU c Post ug (cont r)
  | ug, .cas .huge _ _ _ cont => ∀ r, SafeU c Post ug (cont r)
  | _, .cas .tree _ _ _ _ => False
  | _, .cas .slot _ _ _ _ => False
  | ug, .casPart _ _ _ _ _ cont => ∀ r, SafeU c Post ug (cont r)
  | ug, .upd .row _ f cont => (∀ cur s, f cur = .panic s → LowerMsg s) ∧ ∀ r, SafeU c Post ug (cont r)
  | ug, .upd .huge _ f cont => (∀ cur s, f cur = .panic s → LowerMsg s) ∧ ∀ r, SafeU c Post ug (cont r)
  | ug, .upd .tree i f cont => ∀ cur : Tree, KnownT c.geom.treeFrames c.ntrees ug i cur → match f cur with
      | .skip => SafeU c Post ug (cont (.error cur))
      | .set v => ∃ ug', UTransT ug ug' i cur v ∧ SafeU c Post ug' (cont (.ok cur))
      | .panic s => LowerMsg s
  | ug, .upd .slot s f cont => ∀ cur : LTree, KnownS c.geom.treeRows c.geom.treeFrames c.ntrees ug cur → match f cur with
      | .skip => SafeU c Post ug (cont (.error cur))
      | .set v => ∃ k ug', c.slotClass s k ∧ UTransS c.geom.treeRows k ug ug' cur v ∧ SafeU c Post ug' (cont (.ok cur))
      | .panic s => LowerMsg s

section
variable {α β : Type} {c : Cfg}

theorem SafeU.bind {Q : α → UGh → Prop} {P : β → UGh → Prop} (f : α → Prog β) :
    ∀ (p : Prog α) (ug : UGh), SafeU c Q ug p → (∀ a o, Q a o → SafeU c P o (f a)) → SafeU c P ug (p >>= f) := by
  intro p
  show ∀ ug, SafeU c Q ug p → _ → SafeU c P ug (p.bind f)
  induction p with
  | ret a => exact fun ug hp hf => hf a ug hp
  | panic s => exact fun _ hp _ => hp
  | load k i cont ih => exact fun ug hp hf v => ih v ug (hp v) hf
  | store k i v cont ih =>
    intro ug hp hf
    cases k with
    | row => exact ih ug hp hf
    | huge => exact ih ug hp hf
    | tree => exact hp
    | slot => exact hp
  | swap k i v cont ih =>
    intro ug hp hf
    cases k with
    | row => exact fun o => ih o ug (hp o) hf
    | huge => exact fun o => ih o ug (hp o) hf
    | tree => exact hp
    | slot =>
      intro o hkn
      obtain ⟨k, ug', hk, ht, hs⟩ := hp o hkn
      exact ⟨k, ug', hk, ht, ih o ug' hs hf⟩
  | cas k i e n cont ih =>
    intro ug hp hf
    cases k with
    | row => exact fun r => ih r ug (hp r) hf
    | huge => exact fun r => ih r ug (hp r) hf
    | tree => exact hp
    | slot => exact hp
  | casPart i sh w e n cont ih => exact fun ug hp hf r => ih r ug (hp r) hf
  | upd k i fu cont ih =>
    intro ug hp hf
    cases k with
    | row => exact ⟨hp.1, fun r => ih r ug (hp.2 r) hf⟩
    | huge => exact ⟨hp.1, fun r => ih r ug (hp.2 r) hf⟩
    | tree =>
      intro cur hkn
      have := hp cur hkn
      cases hg : fu cur with
      | skip => rw [hg] at this; exact ih _ ug this hf
      | set v =>
        rw [hg] at this
        obtain ⟨ug', ht, hs⟩ := this
        exact ⟨ug', ht, ih _ ug' hs hf⟩
      | panic s => rw [hg] at this; exact this
    | slot =>
      intro cur hkn
      have := hp cur hkn
      cases hg : fu cur with
      | skip => rw [hg] at this; exact ih _ ug this hf
      | set v =>
        rw [hg] at this
        obtain ⟨k, ug', hk, ht, hs⟩ := this
        exact ⟨k, ug', hk, ht, ih _ ug' hs hf⟩
      | panic s => rw [hg] at this; exact this

theorem SafeU.mono {P Q : α → UGh → Prop} (h : ∀ a o, P a o → Q a o) (p : Prog α) (ug : UGh)
    (hp : SafeU c P ug p) : SafeU c Q ug p := by
  have := SafeU.bind (c := c) (Q := P) (P := Q) (fun a => Prog.ret a) p ug hp (fun a o ha => h a o ha)
  have e : p >>= (fun a => Prog.ret a) = p := Prog.bind_ret_self p
  rw [e] at this; exact this

/-- a program that touches neither tree entries nor slots, all of whose results satisfy `P` -/
def LowRes {α : Type} (P : α → Prop) : Prog α → Prop
  | .ret a => P a
  | .panic s => LowerMsg s
  | .load .row _ cont => ∀ v, LowRes P (cont v)
  | .load .huge _ cont => ∀ v, LowRes P (cont v)
  | .load .tree _ _ => False
  | .load .slot _ _ => False
  | .store .row _ _ cont => LowRes P cont
  | .store .huge _ _ cont => LowRes P cont
  | .store .tree _ _ _ => False
  | .store .slot _ _ _ => False
  | .swap .row _ _ cont => ∀ o, LowRes P (cont o)
  | .swap .huge _ _ cont => ∀ o, LowRes P (cont o)
  | .swap .tree _ _ _ => False
  | .swap .slot _ _ _ => False
  | .cas .row _ _ _ cont => ∀ r, LowRes P (cont r)
  | .cas .huge _ _ _ cont => ∀ r, LowRes P (cont r)
  | .cas .tree _ _ _ _ => False
  | .cas .slot _ _ _ _ => False
  | .casPart _ _ _ _ _ cont => ∀ r, LowRes P (cont r)
  | .upd .row _ f cont => (∀ cur s, f cur = .panic s → LowerMsg s) ∧ ∀ r, LowRes P (cont r)
  | .upd .huge _ f cont => (∀ cur s, f cur = .panic s → LowerMsg s) ∧ ∀ r, LowRes P (cont r)
  | .upd .tree _ _ _ => False
  | .upd .slot _ _ _ => False

theorem LowRes.bind {P : α → Prop} {Q : β → Prop} (f : α → Prog β) :
    ∀ (p : Prog α), LowRes P p → (∀ a, P a → LowRes Q (f a)) → LowRes Q (p >>= f) := by
  intro p
  show LowRes P p → _ → LowRes Q (p.bind f)
  induction p with
  | ret a => exact fun hp hf => hf a hp
  | panic s => exact fun hp _ => hp
  | load k i cont ih =>
    intro hp hf
    cases k with
    | row => exact fun v => ih v (hp v) hf
    | huge => exact fun v => ih v (hp v) hf
    | tree => exact hp
    | slot => exact hp
  | store k i v cont ih =>
    intro hp hf
    cases k with
    | row => exact ih hp hf
    | huge => exact ih hp hf
    | tree => exact hp
    | slot => exact hp
  | swap k i v cont ih =>
    intro hp hf
    cases k with
    | row => exact fun o => ih o (hp o) hf
    | huge => exact fun o => ih o (hp o) hf
    | tree => exact hp
    | slot => exact hp
  | cas k i e n cont ih =>
    intro hp hf
    cases k with
    | row => exact fun r => ih r (hp r) hf
    | huge => exact fun r => ih r (hp r) hf
    | tree => exact hp
    | slot => exact hp
  | casPart i sh w e n cont ih => exact fun hp hf r => ih r (hp r) hf
  | upd k i fu cont ih =>
    intro hp hf
    cases k with
    | row => exact ⟨hp.1, fun r => ih r (hp.2 r) hf⟩
    | huge => exact ⟨hp.1, fun r => ih r (hp.2 r) hf⟩
    | tree => exact hp
    | slot => exact hp

theorem LowRes.mono {P Q : α → Prop} (h : ∀ a, P a → Q a) (p : Prog α) (hp : LowRes P p) : LowRes Q p := by
  have := LowRes.bind (P := P) (Q := Q) (fun a => Prog.ret a) p hp (fun a ha => h a ha)
  have e : p >>= (fun a => Prog.ret a) = p := Prog.bind_ret_self p
  rw [e] at this; exact this

/-- a lower-only program is safe for the upper protocol and leaves the upper ghost alone -/
theorem LowRes.safeU {P : α → Prop} (ug : UGh) :
    ∀ (p : Prog α), LowRes P p → SafeU c (fun a ug' => P a ∧ ug' = ug) ug p := by
  intro p
  induction p with
  | ret a => exact fun hp => ⟨hp, rfl⟩
  | panic s => exact fun hp => hp
  | load k i cont ih =>
    intro hp
    cases k with
    | row => exact fun v => ih v (hp v)
    | huge => exact fun v => ih v (hp v)
    | tree => exact hp.elim
    | slot => exact hp.elim
  | store k i v cont ih =>
    intro hp
    cases k with
    | row => exact ih hp
    | huge => exact ih hp
    | tree => exact hp.elim
    | slot => exact hp.elim
  | swap k i v cont ih =>
    intro hp
    cases k with
    | row => exact fun o => ih o (hp o)
    | huge => exact fun o => ih o (hp o)
    | tree => exact hp.elim
    | slot => exact hp.elim
  | cas k i e n cont ih =>
    intro hp
    cases k with
    | row => exact fun r => ih r (hp r)
    | huge => exact fun r => ih r (hp r)
    | tree => exact hp.elim
    | slot => exact hp.elim
  | casPart i sh w e n cont ih => exact fun hp r => ih r (hp r)
  | upd k i fu cont ih =>
    intro hp
    cases k with
    | row => exact ⟨hp.1, fun r => ih r (hp.2 r)⟩
    | huge => exact ⟨hp.1, fun r => ih r (hp.2 r)⟩
    | tree => exact hp.elim
    | slot => exact hp.elim

end

/-- `SafeU` for a thread between two accesses -/
def Th.SafeU {α : Type} (c : Cfg) (Post : α → UGh → Prop) (ug : UGh) : Th α → Prop
  | .at p => LLFree.SafeU c Post ug p
  | .updCas .row i f _ _ cont => LLFree.SafeU c Post ug (.upd .row i f cont)
  | .updCas .huge i f _ _ cont => LLFree.SafeU c Post ug (.upd .huge i f cont)
  | .updCas .tree i f cur new cont =>
      (∃ ug', UTransT ug ug' i cur new ∧ LLFree.SafeU c Post ug' (cont (.ok cur))) ∧
      LLFree.SafeU c Post ug (.upd .tree i f cont)
  | .updCas .slot s f cur new cont =>
      (∃ k ug', c.slotClass s k ∧ UTransS c.geom.treeRows k ug ug' cur new ∧ LLFree.SafeU c Post ug' (cont (.ok cur))) ∧
      LLFree.SafeU c Post ug (.upd .slot s f cont)

end LLFree
