/-
  Agreement of a regenerated transition (`Gen/*.lean`, `Except String`) with the model's (`Upd`):
  same new value, same refusal, panic exactly together (messages are not compared).
-/
import LLFreeV.Model.Prog
namespace LLFree.GenTree
open LLFree

/-- outcomes agree up to the panic message -/
def Sim {β : Type} : Upd β → Upd β → Prop
  | .skip, .skip => True
  | .set a, .set b => a = b
  | .panic _, .panic _ => True
  | _, _ => False

@[simp] theorem sim_skip {β : Type} : Sim (.skip : Upd β) .skip := trivial
@[simp] theorem sim_set {β : Type} (a b : β) : Sim (.set a) (.set b) ↔ a = b := Iff.rfl
@[simp] theorem sim_panic {β : Type} (s t : String) : Sim (.panic s : Upd β) (.panic t) := trivial

end LLFree.GenTree
