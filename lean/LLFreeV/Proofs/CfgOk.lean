/-
  The structural part of `CfgOk` (slot ranges inside the slot array, ranges of different classes
  disjoint) holds for *every* class list; what remains to check for a configuration is
  elementary: geometry, class ids below 8, default class, bit-field widths, ordered policy.
-/
import LLFreeV.Proofs.UpperInv
namespace LLFree

def sumCnt (l : List (Nat × Nat)) : Nat := (l.map (·.2)).sum

theorem foldl_add_eq (l : List Nat) (a : Nat) : l.foldl (· + ·) a = a + l.sum := by
  induction l generalizing a with
  | nil => simp
  | cons x xs ih => simp only [List.foldl_cons, List.sum_cons]; rw [ih]; omega

theorem Cfg.nslots_eq (c : Cfg) : c.nslots = sumCnt c.classes := by
  unfold Cfg.nslots sumCnt
  rw [foldl_add_eq]; omega

/-- characterisation of the slot-range table -/
theorem slotRange_go_spec (k : Nat) (l : List (Nat × Nat)) (off : Nat) (acc rng : Option (Nat × Nat))
    (h : Cfg.slotRange.go k l off acc = rng) :
    (rng = acc ∧ ∀ e ∈ l, e.1 ≠ k) ∨
    ∃ l1 cnt l2, l = l1 ++ (k, cnt) :: l2 ∧ rng = some (off + sumCnt l1, cnt) ∧ ∀ e ∈ l2, e.1 ≠ k := by
  induction l generalizing off acc with
  | nil =>
    left
    simp only [Cfg.slotRange.go] at h
    exact ⟨h.symm, by simp⟩
  | cons e rest ih =>
    obtain ⟨id, cnt⟩ := e
    simp only [Cfg.slotRange.go] at h
    rcases ih (off + cnt) _ h with ⟨h1, h2⟩ | ⟨l1, cnt', l2, h1, h2, h3⟩
    · by_cases e : id = k
      · right
        subst e
        refine ⟨[], cnt, rest, rfl, ?_, h2⟩
        simp only [if_true] at h1
        simp [sumCnt, h1]
      · left
        simp only [e, if_false] at h1
        refine ⟨h1, ?_⟩
        intro x hx
        rcases List.mem_cons.1 hx with hx | hx
        · rw [hx]; exact e
        · exact h2 x hx
    · right
      refine ⟨(id, cnt) :: l1, cnt', l2, by rw [h1]; rfl, ?_, h3⟩
      rw [h2]
      simp only [sumCnt, List.map_cons, List.sum_cons]
      congr 2; omega

theorem slotRange_spec (c : Cfg) (k : Nat) (rng : Nat × Nat) (h : c.slotRange k = some rng) :
    ∃ l1 l2, c.classes = l1 ++ (k, rng.2) :: l2 ∧ rng.1 = sumCnt l1 ∧ ∀ e ∈ l2, e.1 ≠ k := by
  unfold Cfg.slotRange at h
  rcases slotRange_go_spec k c.classes 0 none (some rng) h with ⟨h1, _⟩ | ⟨l1, cnt, l2, h1, h2, h3⟩
  · cases h1
  · cases h2
    exact ⟨l1, l2, h1, by simp, h3⟩

theorem sumCnt_append (a b : List (Nat × Nat)) : sumCnt (a ++ b) = sumCnt a + sumCnt b := by
  simp [sumCnt]

theorem sumCnt_cons (e : Nat × Nat) (b : List (Nat × Nat)) : sumCnt (e :: b) = e.2 + sumCnt b := by
  simp [sumCnt]

/-- slot ranges lie inside the slot array -/
theorem slotRange_in (c : Cfg) (k : Nat) (rng : Nat × Nat) (h : c.slotRange k = some rng) : rng.1 + rng.2 ≤ c.nslots := by
  obtain ⟨l1, l2, h1, h2, _⟩ := slotRange_spec c k rng h
  rw [c.nslots_eq, h1, sumCnt_append, sumCnt_cons, h2]
  simp only
  omega

/-- ranges of different class ids are disjoint -/
theorem slotRange_disj (c : Cfg) (k k' : Nat) (rng rng' : Nat × Nat) (h : c.slotRange k = some rng)
    (h' : c.slotRange k' = some rng') (hne : k ≠ k') : rng.1 + rng.2 ≤ rng'.1 ∨ rng'.1 + rng'.2 ≤ rng.1 := by
  obtain ⟨l1, l2, h1, h2, _⟩ := slotRange_spec c k rng h
  obtain ⟨l1', l2', h1', h2', _⟩ := slotRange_spec c k' rng' h'
  rw [h1] at h1'
  rcases List.append_eq_append_iff.1 h1' with ⟨a, ha1, ha2⟩ | ⟨a, ha1, ha2⟩
  · -- l1' = l1 ++ a, (k, _) :: l2 = a ++ (k', _) :: l2'
    cases a with
    | nil =>
      simp only [List.nil_append] at ha2
      have := (List.cons.inj ha2).1
      exact absurd (congrArg Prod.fst this) hne
    | cons e a =>
      left
      simp only [List.cons_append] at ha2
      have he := (List.cons.inj ha2).1
      rw [h2, h2', ha1, sumCnt_append, sumCnt_cons, ← he]
      simp only
      omega
  · cases a with
    | nil =>
      simp only [List.nil_append] at ha2
      have := (List.cons.inj ha2).1
      exact absurd (congrArg Prod.fst this).symm hne
    | cons e a =>
      right
      simp only [List.cons_append] at ha2
      have he := (List.cons.inj ha2).1
      rw [h2, h2', ha1, sumCnt_append, sumCnt_cons, ← he]
      simp only
      omega

/-- a configured class id occurs in the class list -/
theorem slotRange_mem (c : Cfg) (k : Nat) (rng : Nat × Nat) (h : c.slotRange k = some rng) : (k, rng.2) ∈ c.classes := by
  obtain ⟨l1, l2, h1, _, _⟩ := slotRange_spec c k rng h
  rw [h1]; simp

/-- **`CfgOk` from elementary checks.** -/
theorem CfgOk.of_checks (c : Cfg) (geom : GeomOk16 c.geom) (dflt : c.dflt < 8) (tf19 : c.geom.treeFrames < 2 ^ 19)
    (rows44 : c.ntrees * c.geom.treeRows < 2 ^ 44) (policy : OrderedPolicy c.policy)
    (ids : ∀ e ∈ c.classes, e.1 < 8) : CfgOk c :=
  { geom := geom, dflt := dflt, tf19 := tf19, rows44 := rows44, policy := policy
    rangeIn := slotRange_in c
    clsLt := fun k rng h => ids _ (slotRange_mem c k rng h)
    rangeDisj := fun k k' rng rng' h h' hne => slotRange_disj c k k' rng rng' h h' hne }

end LLFree
