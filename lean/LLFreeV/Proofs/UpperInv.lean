/-
  The upper-level invariant: how the tree counters and the local reservations relate to the
  allocation state held by the lower allocator.
-/
import LLFreeV.Proofs.Hoare
import LLFreeV.Proofs.LowerGet
import LLFreeV.Model.Upper
import LLFreeV.Model.Policies
namespace LLFree
open Prog

/-- number of free frames of tree `i` in the allocation state -/
def Mem.freeInTree (m : Mem) (g : Geom) (i : Nat) : Nat :=
  (List.range g.treeFrames).countP (fun k => !m.allocated g (i * g.treeFrames + k))

/-- what slot value `s` contributes to tree `i` -/
def LTree.freeFor (tr : Nat) (i : Nat) (s : LTree) : Nat :=
  if s.present && s.row / tr == i then s.free else 0

/-- frames of tree `i` cached in local reservations -/
def Mem.slotFree (m : Mem) (tr : Nat) (i : Nat) : Nat :=
  (m.slots.toList.map (LTree.freeFor tr i)).sum

/-- the class whose slot range contains slot index `s` -/
def Cfg.slotClass (c : Cfg) (s : Nat) (k : Nat) : Prop :=
  ∃ rng, c.slotRange k = some rng ∧ rng.1 ≤ s ∧ s < rng.1 + rng.2

/-- the repository's policies: ordered by class id, `Match` for equal classes -/
def OrderedPolicy (p : PolicyFn) : Prop :=
  ∃ rate : Nat → Policy, (∀ f, ∃ q, rate f = .match q) ∧ p = orderedPolicy rate

/-- static well-formedness of a configuration -/
structure CfgOk (c : Cfg) : Prop where
  geom : GeomOk16 c.geom
  dflt : c.dflt < 8
  /-- the 19-bit counter of a local reservation holds a tree -/
  tf19 : c.geom.treeFrames < 2 ^ 19
  /-- the 44-bit row index of a local reservation addresses every row -/
  rows44 : c.ntrees * c.geom.treeRows < 2 ^ 44
  /-- the 28-bit tree counter holds a tree -/
  policy : OrderedPolicy c.policy
  /-- slot ranges lie inside the slot array and ranges of different classes are disjoint -/
  rangeIn : ∀ k rng, c.slotRange k = some rng → rng.1 + rng.2 ≤ c.nslots
  /-- class ids are 0..7 -/
  clsLt : ∀ k rng, c.slotRange k = some rng → k < 8
  rangeDisj : ∀ k k' rng rng', c.slotRange k = some rng → c.slotRange k' = some rng' → k ≠ k' →
    rng.1 + rng.2 ≤ rng'.1 ∨ rng'.1 + rng'.2 ≤ rng.1

/-- **The upper invariant**, with ghost parameters describing calls in progress:
    * `H i`: the number of free frames of tree `i` that are hidden (taken offline and not
      restored): they are in no counter on purpose;
    * `P i`: free frames of tree `i` that are currently in no counter (taken from a counter and
      not yet allocated, or freed and not yet added to a counter);
    * `R`: trees that are reserved while their reservation is being moved between slots.
    Between calls `P = 0` and `R = ∅` (`UpperInv0`). -/
structure UpperInv (c : Cfg) (H : Nat → Nat) (P : Nat → Nat) (R : Nat → Prop) (m : Mem) : Prop where
  lower : LowerInv c m
  treesSize : m.trees.size = c.ntrees
  slotsSize : m.slots.size = c.nslots
  /-- class fields fit -/
  treeCls : ∀ (i : Nat) (t : Tree), m.trees[i]? = some t → t.cls < 8
  /-- a present slot of class `k` points to a reserved tree in range of a class `≥ k` -/
  slotTree : ∀ (s : Nat) (l : LTree) (k : Nat), m.slots[s]? = some l → l.present = true → c.slotClass s k →
    ∃ t : Tree, m.trees[l.row / c.geom.treeRows]? = some t ∧ t.reserved = true ∧ k ≤ t.cls
  /-- present slots lie in a configured range -/
  slotCls : ∀ (s : Nat) (l : LTree), m.slots[s]? = some l → l.present = true → ∃ k, c.slotClass s k
  /-- no two slots hold the same tree, and a tree in `R` is held by no slot -/
  slotInj : ∀ (s s' : Nat) (l l' : LTree), m.slots[s]? = some l → m.slots[s']? = some l' → l.present = true → l'.present = true →
    l.row / c.geom.treeRows = l'.row / c.geom.treeRows → s = s'
  slotNotR : ∀ (s : Nat) (l : LTree), m.slots[s]? = some l → l.present = true → ¬ R (l.row / c.geom.treeRows)
  /-- a reserved tree is held by a slot (or in transit) -/
  resSlot : ∀ (i : Nat) (t : Tree), m.trees[i]? = some t → t.reserved = true →
    R i ∨ ∃ s : Nat, ∃ l : LTree, m.slots[s]? = some l ∧ l.present = true ∧ l.row / c.geom.treeRows = i
  /-- **exact accounting**: tree counter + local reservations + frames in transit + hidden frames
      are exactly the free frames of the tree -/
  counter : ∀ (i : Nat) (t : Tree), m.trees[i]? = some t →
    t.free + m.slotFree c.geom.treeRows i + P i + H i = m.freeInTree c.geom i

/-- the counters never promise more than is free -/
theorem UpperInv.counterLe {c : Cfg} {H : Nat → Nat} {P : Nat → Nat} {R : Nat → Prop} {m : Mem} (inv : UpperInv c H P R m)
    (i : Nat) (t : Tree) (h : m.trees[i]? = some t) : t.free + m.slotFree c.geom.treeRows i + P i ≤ m.freeInTree c.geom i := by
  have := inv.counter i t h; omega

/-- … and exactly what is free when nothing of the tree is hidden -/
theorem UpperInv.counterEq {c : Cfg} {H : Nat → Nat} {P : Nat → Nat} {R : Nat → Prop} {m : Mem} (inv : UpperInv c H P R m)
    (i : Nat) (t : Tree) (h : m.trees[i]? = some t) (hn : H i = 0) :
    t.free + m.slotFree c.geom.treeRows i + P i = m.freeInTree c.geom i := by
  have := inv.counter i t h; omega

/-- the invariant between calls -/
abbrev UpperInv0 (c : Cfg) (H : Nat → Nat) (m : Mem) : Prop := UpperInv c H (fun _ => 0) (fun _ => False) m

/-! ### counting free frames of a tree -/

theorem Mem.freeInTree_le (m : Mem) (g : Geom) (i : Nat) : m.freeInTree g i ≤ g.treeFrames := by
  unfold Mem.freeInTree
  have := List.countP_le_length (p := fun k => !m.allocated g (i * g.treeFrames + k)) (l := List.range g.treeFrames)
  simpa using this

/-- an aligned block of order ≤ TREE_ORDER lies inside one tree -/
theorem block_in_tree {g : Geom} (ok : GeomOk g) (f order : Nat) (hto : order ≤ g.treeOrder) (hal : f % 2 ^ order = 0) :
    f / g.treeFrames * g.treeFrames ≤ f ∧ f + 2 ^ order ≤ f / g.treeFrames * g.treeFrames + g.treeFrames := by
  obtain ⟨k, hk, hto'⟩ := ok.treeOrder_eq
  have htf : g.treeFrames = 2 ^ g.treeOrder := by
    show g.treeHuge * 2 ^ g.hugeOrder = _
    rw [hk, hto', ← Nat.pow_add]
  have hsplit : g.treeFrames = 2 ^ (g.treeOrder - order) * 2 ^ order := by
    rw [htf, ← Nat.pow_add]; congr 1; omega
  generalize 2 ^ (g.treeOrder - order) = q at hsplit
  generalize 2 ^ order = b at *
  have hb : 0 < b := by
    rcases Nat.eq_zero_or_pos b with h | h
    · subst h; have := ok.tf_pos; rw [hsplit] at this; simp at this
    · exact h
  have h1 := Nat.div_mul_le_self f g.treeFrames
  refine ⟨h1, ?_⟩
  -- f = b * x, tree boundary = b * (q * t)
  obtain ⟨x, hx⟩ : ∃ x, f = b * x := ⟨f / b, by have := Nat.div_add_mod f b; omega⟩
  have h2 := Nat.lt_mul_div_succ f ok.tf_pos
  generalize f / g.treeFrames = t at *
  rw [hsplit] at h2 ⊢
  subst hx
  -- b * x < q*b*(t+1)  →  x < q*(t+1) → x + 1 ≤ q*(t+1)
  have : x < q * (t + 1) := by
    have : b * x < b * (q * (t + 1)) := by
      calc b * x < q * b * (t + 1) := h2
        _ = b * (q * (t + 1)) := by rw [Nat.mul_comm q b, Nat.mul_assoc]
    exact Nat.lt_of_mul_lt_mul_left this
  calc b * x + b = b * (x + 1) := by rw [Nat.mul_add, Nat.mul_one]
    _ ≤ b * (q * (t + 1)) := Nat.mul_le_mul_left _ this
    _ = t * (q * b) + q * b := by
        rw [Nat.mul_add, Nat.mul_one, Nat.mul_add]
        congr 1
        · rw [Nat.mul_comm q t, ← Nat.mul_assoc, Nat.mul_comm b t, Nat.mul_assoc, Nat.mul_comm b q]
        · exact Nat.mul_comm b q

section
variable {c : Cfg}

/-- allocating a free block lowers the free count of its tree by the block size and leaves
    every other tree alone -/
theorem freeInTree_get (ok : GeomOk c.geom) (m m' : Mem) (f order : Nat) (hto : order ≤ c.geom.treeOrder)
    (hal : f % 2 ^ order = 0) (hfree : GetAllowed c m f order) (post : GetPost c m m' f order) (i : Nat) :
    m.freeInTree c.geom i = m'.freeInTree c.geom i + (if i = f / c.geom.treeFrames then 2 ^ order else 0) := by
  obtain ⟨hlo, hhi⟩ := block_in_tree ok f order hto hal
  unfold Mem.freeInTree
  by_cases hi : i = f / c.geom.treeFrames
  · simp only [hi, if_true]
    apply countP_range_raise c.geom.treeFrames (f - f / c.geom.treeFrames * c.geom.treeFrames) (2 ^ order)
    · omega
    · intro k h1 h2
      have e : f / c.geom.treeFrames * c.geom.treeFrames + k = f + (k - (f - f / c.geom.treeFrames * c.geom.treeFrames)) := by omega
      rw [post.alloc, e]
      have hin : inBlock f order (f + (k - (f - f / c.geom.treeFrames * c.geom.treeFrames))) = true := by
        simp only [inBlock, Bool.and_eq_true, decide_eq_true_eq]; omega
      rw [hin, hfree _ (by omega)]
      simp
    · intro k hk hnot
      rw [post.alloc]
      have hout : inBlock f order (f / c.geom.treeFrames * c.geom.treeFrames + k) = false := by
        simp only [inBlock, Bool.and_eq_false_iff, decide_eq_false_iff_not]
        by_cases h : f ≤ f / c.geom.treeFrames * c.geom.treeFrames + k
        · right; omega
        · left; exact h
      rw [hout]; simp
  · simp only [hi, if_false, Nat.add_zero]
    apply countP_range_eq_of_eq
    intro k hk
    rw [post.alloc]
    have hout : inBlock f order (i * c.geom.treeFrames + k) = false := by
      simp only [inBlock, Bool.and_eq_false_iff, decide_eq_false_iff_not]
      rcases Nat.lt_or_gt_of_ne hi with h | h
      · -- i < f / tf: below
        left
        have : (i + 1) * c.geom.treeFrames ≤ f / c.geom.treeFrames * c.geom.treeFrames := Nat.mul_le_mul_right _ h
        rw [Nat.add_mul, Nat.one_mul] at this
        omega
      · right
        have : (f / c.geom.treeFrames + 1) * c.geom.treeFrames ≤ i * c.geom.treeFrames := Nat.mul_le_mul_right _ h
        rw [Nat.add_mul, Nat.one_mul] at this
        omega
    rw [hout]; simp

/-- freeing a block raises the free count of its tree by the block size -/
theorem freeInTree_put (ok : GeomOk c.geom) (m m' : Mem) (f order : Nat) (hto : order ≤ c.geom.treeOrder)
    (hal : f % 2 ^ order = 0) (halloc : ∀ k, k < 2 ^ order → m.allocated c.geom (f + k) = true)
    (post : PutPost c m m' f order) (i : Nat) :
    m'.freeInTree c.geom i = m.freeInTree c.geom i + (if i = f / c.geom.treeFrames then 2 ^ order else 0) := by
  obtain ⟨hlo, hhi⟩ := block_in_tree ok f order hto hal
  unfold Mem.freeInTree
  by_cases hi : i = f / c.geom.treeFrames
  · simp only [hi, if_true]
    apply countP_range_raise c.geom.treeFrames (f - f / c.geom.treeFrames * c.geom.treeFrames) (2 ^ order)
    · omega
    · intro k h1 h2
      have e : f / c.geom.treeFrames * c.geom.treeFrames + k = f + (k - (f - f / c.geom.treeFrames * c.geom.treeFrames)) := by omega
      rw [post.alloc, e]
      have hin : inBlock f order (f + (k - (f - f / c.geom.treeFrames * c.geom.treeFrames))) = true := by
        simp only [inBlock, Bool.and_eq_true, decide_eq_true_eq]; omega
      rw [hin, halloc _ (by omega)]
      simp
    · intro k hk hnot
      rw [post.alloc]
      have hout : inBlock f order (f / c.geom.treeFrames * c.geom.treeFrames + k) = false := by
        simp only [inBlock, Bool.and_eq_false_iff, decide_eq_false_iff_not]
        by_cases h : f ≤ f / c.geom.treeFrames * c.geom.treeFrames + k
        · right; omega
        · left; exact h
      rw [hout]; simp
  · simp only [hi, if_false, Nat.add_zero]
    apply countP_range_eq_of_eq
    intro k hk
    rw [post.alloc]
    have hout : inBlock f order (i * c.geom.treeFrames + k) = false := by
      simp only [inBlock, Bool.and_eq_false_iff, decide_eq_false_iff_not]
      rcases Nat.lt_or_gt_of_ne hi with h | h
      · left
        have : (i + 1) * c.geom.treeFrames ≤ f / c.geom.treeFrames * c.geom.treeFrames := Nat.mul_le_mul_right _ h
        rw [Nat.add_mul, Nat.one_mul] at this
        omega
      · right
        have : (f / c.geom.treeFrames + 1) * c.geom.treeFrames ≤ i * c.geom.treeFrames := Nat.mul_le_mul_right _ h
        rw [Nat.add_mul, Nat.one_mul] at this
        omega
    rw [hout]; simp

end
end LLFree
