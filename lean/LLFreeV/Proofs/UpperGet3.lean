/-
  `Trees::reserve_or_steal`, `Locals::swap` and `LLFree::reserve_or_steal` against the upper invariant.
-/
import LLFreeV.Proofs.UpperGet2
namespace LLFree
open Prog

section
variable {c : Cfg} {H : Nat → Nat} {P : Nat → Nat} {R : Nat → Prop} {m : Mem}

/-- a slot index belongs to at most one class -/
theorem slotClass_unique (ok : CfgOk c) (s k k' : Nat) (h : c.slotClass s k) (h' : c.slotClass s k') : k = k' := by
  obtain ⟨rng, hr, h1, h2⟩ := h
  obtain ⟨rng', hr', h1', h2'⟩ := h'
  by_cases e : k = k'
  · exact e
  · rcases ok.rangeDisj k k' rng rng' hr hr' e with h3 | h3 <;> omega

/-- `Tree::reserve_or_steal` under an ordered policy -/
theorem Tree.reserveOrSteal_ordered (ok : CfgOk c) (t : Tree) (cls n : Nat) (hcls : cls < 8) :
    (t.free ≥ n ∧ t.reserved = false ∧ cls ≤ t.cls →
      Tree.reserveOrSteal c.tf t n c.policy cls = .set ⟨0, true, cls⟩) ∧
    (t.free ≥ n ∧ t.reserved = false ∧ t.cls < cls →
      Tree.reserveOrSteal c.tf t n c.policy cls = .set { t with free := t.free - n }) ∧
    (¬ (t.free ≥ n ∧ t.reserved = false) → Tree.reserveOrSteal c.tf t n c.policy cls = .skip) := by
  have hwith : Tree.with c.tf 0 true cls = .set ⟨0, true, cls⟩ := by
    unfold Tree.with
    have : Tree.clsOk cls = true := by simp [Tree.clsOk, hcls]
    simp [this]
  refine ⟨?_, ?_, ?_⟩
  · rintro ⟨h1, h2, h3⟩
    unfold Tree.reserveOrSteal
    have hc : (decide (t.free ≥ n) && !t.reserved) = true := by simp [h1, h2]
    simp only [hc, if_true]
    rcases Nat.lt_or_eq_of_le h3 with h | h
    · rw [ordered_lt ok.policy cls t.cls n h]
      simp only [h2, Bool.not_false, if_true]; exact hwith
    · obtain ⟨q, hq⟩ := ordered_eq ok.policy cls n
      rw [← h, hq]
      simp only [h2, Bool.not_false, if_true]; exact hwith
  · rintro ⟨h1, h2, h3⟩
    unfold Tree.reserveOrSteal
    have hc : (decide (t.free ≥ n) && !t.reserved) = true := by simp [h1, h2]
    simp only [hc, if_true]
    rw [ordered_gt ok.policy cls t.cls n h3]
  · intro h
    unfold Tree.reserveOrSteal
    have hc : (decide (t.free ≥ n) && !t.reserved) = false := by
      cases hr : t.reserved <;> simp_all
    simp only [hc, Bool.false_eq_true, if_false]

/-- what `Trees::reserve_or_steal` did to tree `i` -/
def TreesReserved (c : Cfg) (H : Nat → Nat) (P : Nat → Nat) (R : Nat → Prop) (m : Mem) (i cls n : Nat)
    (r : Option (Bool × Nat × Nat)) (m' : Mem) : Prop :=
  match r with
  | none => m = m' ∧ ∀ t : Tree, m.trees[i]? = some t → ¬ (t.free ≥ n ∧ t.reserved = false)
  | some (true, free, k) => k = cls ∧ n ≤ free ∧ free ≤ c.geom.treeFrames ∧
      UpperInv c H (gset P i (P i + free)) (fun j => R j ∨ j = i) m' ∧ SameAlloc m m' ∧ m'.slots = m.slots ∧
      m'.trees[i]? = some ⟨0, true, cls⟩
  | some (false, _, k) => k < 8 ∧ UpperInv c H (gset P i (P i + n)) R m' ∧ SameAlloc m m' ∧ m'.slots = m.slots

theorem trees_reserveOrSteal_spec (ok : CfgOk c) (inv : UpperInv c H P R m) (i cls n : Nat) (hi : i < c.ntrees) (hcls : cls < 8) :
    Runs m (Trees.reserveOrSteal c.tf c.policy i cls n) (fun r m' => TreesReserved c H P R m i cls n r m') := by
  obtain ⟨t, ht⟩ := inv.tree_get i hi
  obtain ⟨h1, h2, h3⟩ := Tree.reserveOrSteal_ordered ok t cls n hcls
  have hsz : i < m.trees.size := (Array.getElem?_eq_some_iff.1 ht).1
  unfold Trees.reserveOrSteal
  by_cases hc : t.free ≥ n ∧ t.reserved = false
  · by_cases hk : cls ≤ t.cls
    · have hf := h1 ⟨hc.1, hc.2, hk⟩
      apply Runs.bind (Runs.upd_set (Q := fun r m' => r = .ok t ∧ m.set .tree i ⟨0, true, cls⟩ = m')
        (by simpa using ht) hf ⟨rfl, rfl⟩)
      rintro _ _ ⟨rfl, rfl⟩
      simp only [hf]
      apply Runs.pure
      have hle := inv.counterLe i t ht
      have htf := Mem.freeInTree_le m c.geom i
      refine ⟨rfl, hc.1, by omega, ?_, ⟨rfl, rfl⟩, rfl, by simp [Mem.set_tree_trees, hsz]⟩
      have hnoslot : ∀ (s : Nat) (l : LTree), m.slots[s]? = some l → l.present = true → l.row / c.geom.treeRows ≠ i := by
        intro s l hs hp e
        obtain ⟨k, hk'⟩ := inv.slotCls s l hs hp
        obtain ⟨x, hx, hxr, _⟩ := inv.slotTree s l k hs hp hk'
        rw [e, ht] at hx; cases hx
        rw [hc.2] at hxr; cases hxr
      apply inv.set_tree i t ⟨0, true, cls⟩ ht H (gset P i (P i + t.free)) (fun j => R j ∨ j = i) hcls
      · intro s l k hs hp _ e; exact absurd e (hnoslot s l hs hp)
      · intro _; left; right; rfl
      · intro _; exact hnoslot
      · intro j hj; exact ⟨fun h => h.elim id (fun e => absurd e hj), Or.inl⟩
      · intro j hj; exact gset_other _ _ _ j hj
      · intro j _; rfl
      · have := inv.counter i t ht; simp only [gset_same]; omega
    · have hf := h2 ⟨hc.1, hc.2, by omega⟩
      apply Runs.bind (Runs.upd_set (Q := fun r m' => r = .ok t ∧ m.set .tree i { t with free := t.free - n } = m')
        (by simpa using ht) hf ⟨rfl, rfl⟩)
      rintro _ _ ⟨rfl, rfl⟩
      simp only [hf]
      apply Runs.pure
      simp only [hc.2]
      refine ⟨inv.treeCls i t ht, ?_, ⟨rfl, rfl⟩, rfl⟩
      refine inv.set_unreserved' i t ⟨t.free - n, false, t.cls⟩ ht hc.2 rfl (inv.treeCls i t ht) (gset P i (P i + n)) ?_ ?_
      · intro j hj; exact gset_other _ _ _ j hj
      · simp only [gset_same]; omega
  · apply Runs.bind (Runs.upd_skip (Q := fun r m' => r = .error t ∧ m = m') (by simpa using ht) (h3 hc) ⟨rfl, rfl⟩)
    rintro _ _ ⟨rfl, rfl⟩
    exact Runs.pure ⟨rfl, fun t' ht' => by rw [ht] at ht'; cases ht'; exact hc⟩

/-- what `Locals::swap` did: the new reservation of tree `i` is installed; the previous one
    (if any) is in transit -/
def SwapPost (c : Cfg) (H : Nat → Nat) (P : Nat → Nat) (R : Nat → Prop) (m : Mem) (cls i fr : Nat)
    (old : Option Reservation) (m' : Mem) : Prop :=
  SameAlloc m m' ∧ m'.trees = m.trees ∧
  match old with
  | none => UpperInv c H (gset P i (P i - fr)) (fun j => R j ∧ j ≠ i) m'
  | some o => o.cls = cls ∧ o.row / c.geom.treeRows ≠ i ∧
      (∃ t : Tree, m.trees[o.row / c.geom.treeRows]? = some t ∧ t.reserved = true ∧ cls ≤ t.cls) ∧
      UpperInv c H (gset (gset P i (P i - fr)) (o.row / c.geom.treeRows) (P (o.row / c.geom.treeRows) + o.free))
        (fun j => (R j ∧ j ≠ i) ∨ j = o.row / c.geom.treeRows) m'

theorem locals_swap_spec (ok : CfgOk c) (inv : UpperInv c H P R m) (cls loc i fr : Nat) (hcls : cls < 8)
    (rng : Nat × Nat) (hr : c.slotRange cls = some rng) (hloc : loc < rng.2) (hi : i < c.ntrees)
    (hfr : fr ≤ c.geom.treeFrames) (hRi : R i)
    (hti : ∃ t : Tree, m.trees[i]? = some t ∧ t.reserved = true ∧ cls ≤ t.cls) (hP : fr ≤ P i) :
    Runs m (Locals.swap c cls loc i fr) (fun old m' => SwapPost c H P R m cls i fr old m') := by
  have okg := ok.geom.toGeomOk
  obtain ⟨l, hl⟩ := inv.slot_get ok cls rng hr loc hloc
  have htr : 0 < c.geom.treeRows := by
    have h1 := okg.treeRows_mul; have h2 := okg.tf_pos
    rcases Nat.eq_zero_or_pos c.geom.treeRows with h | h
    · rw [h] at h1; omega
    · exact h
  have hrowdiv : i * c.geom.treeRows / c.geom.treeRows = i := Nat.mul_div_cancel _ htr
  unfold Locals.swap
  apply Runs.bind (classRange_spec m cls hcls (fun r m' => r = some rng ∧ m = m') ⟨hr, rfl⟩)
  rintro _ _ ⟨rfl, rfl⟩
  simp only
  apply Runs.bind (slotIdx_spec m rng loc hloc (fun r m' => r = rng.1 + loc ∧ m = m') ⟨rfl, rfl⟩)
  rintro _ _ ⟨rfl, rfl⟩
  have hwith : LTree.with (i * c.geom.treeRows) fr = .set ⟨i * c.geom.treeRows, fr, true⟩ := by
    unfold LTree.with
    have h1 : ¬ i * c.geom.treeRows ≥ 2 ^ 44 := by
      have := ok.rows44
      have : i * c.geom.treeRows < c.ntrees * c.geom.treeRows := Nat.mul_lt_mul_of_pos_right hi htr
      omega
    have h2 : ¬ fr ≥ 2 ^ 19 := by have := ok.tf19; omega
    simp only [h1, h2, if_false]
  rw [hwith]
  simp only
  apply Runs.bind (p := swapK .slot (rng.1 + loc) ⟨i * c.geom.treeRows, fr, true⟩)
    (R := fun o m' => l = o ∧ m.set .slot (rng.1 + loc) ⟨i * c.geom.treeRows, fr, true⟩ = m')
    (Runs.swap (k := .slot) (i := rng.1 + loc) (o := l) _ (by simpa using hl) ⟨rfl, rfl⟩)
  rintro _ _ ⟨rfl, rfl⟩
  apply Runs.pure
  refine ⟨⟨rfl, rfl⟩, rfl, ?_⟩
  obtain ⟨ti, hti1, hti2, hti3⟩ := hti
  have hslotcls := slotClass_of_range (c := c) cls rng hr loc hloc
  -- facts shared by both cases
  have hnew : (⟨i * c.geom.treeRows, fr, true⟩ : LTree).present = true →
      (∃ k, c.slotClass (rng.1 + loc) k) ∧ ∀ k, c.slotClass (rng.1 + loc) k →
        ∃ t : Tree, m.trees[(⟨i * c.geom.treeRows, fr, true⟩ : LTree).row / c.geom.treeRows]? = some t ∧ t.reserved = true ∧ k ≤ t.cls := by
    intro _
    refine ⟨⟨cls, hslotcls⟩, ?_⟩
    intro k hk
    have := slotClass_unique ok _ k cls hk hslotcls
    subst this
    exact ⟨ti, by simpa [hrowdiv] using hti1, hti2, hti3⟩
  have hinj : (⟨i * c.geom.treeRows, fr, true⟩ : LTree).present = true → ∀ (s' : Nat) (x : LTree), m.slots[s']? = some x →
      x.present = true → x.row / c.geom.treeRows = (⟨i * c.geom.treeRows, fr, true⟩ : LTree).row / c.geom.treeRows → s' = rng.1 + loc := by
    intro _ s' x hx hxp e
    simp only [hrowdiv] at e
    exact absurd (by rw [e]; exact hRi) (inv.slotNotR s' x hx hxp)
  by_cases hp : l.present = true
  · simp only [hp, if_true]
    have hne : l.row / c.geom.treeRows ≠ i := fun e => inv.slotNotR _ l hl hp (by rw [e]; exact hRi)
    obtain ⟨tl, htl1, htl2, htl3⟩ := inv.slotTree _ l cls hl hp hslotcls
    refine ⟨rfl, hne, ⟨tl, htl1, htl2, htl3⟩, ?_⟩
    apply inv.set_slot _ l _ hl _ _ hnew hinj
    · intro _ h
      simp only [hrowdiv] at h
      rcases h with h | h
      · exact h.2 rfl
      · exact hne h.symm
    · intro j hj
      rcases hj with hj | hj
      · left; exact hj.1
      · right; exact ⟨hp, hj.symm⟩
    · intro _; right; right; rfl
    · intro j hj
      by_cases e : j = i
      · right; exact ⟨rfl, by simp only [hrowdiv]; exact e.symm⟩
      · left; left; exact ⟨hj, e⟩
    · intro j
      simp only [LTree.asReservation]
      by_cases e1 : j = i
      · subst e1
        have h1 : LTree.freeFor c.geom.treeRows j ⟨j * c.geom.treeRows, fr, true⟩ = fr := by
          have := LTree.freeFor_self c.geom.treeRows ⟨j * c.geom.treeRows, fr, true⟩ rfl
          simp only [hrowdiv] at this; exact this
        rw [h1, LTree.freeFor_other _ _ l hne, gset_other _ _ _ _ (fun e => hne e.symm), gset_same]
        omega
      · have h1 : LTree.freeFor c.geom.treeRows j ⟨i * c.geom.treeRows, fr, true⟩ = 0 :=
          LTree.freeFor_other _ _ _ (by simp only [hrowdiv]; exact fun e => e1 e.symm)
        rw [h1]
        by_cases e2 : j = l.row / c.geom.treeRows
        · subst e2
          rw [LTree.freeFor_self _ l hp, gset_same]; omega
        · rw [LTree.freeFor_other _ _ l (fun e => e2 e.symm), gset_other _ _ _ _ e2, gset_other _ _ _ _ e1]
  · have hpf : l.present = false := by simpa using hp
    simp only [hpf, Bool.false_eq_true, if_false]
    apply inv.set_slot _ l _ hl _ _ hnew hinj
    · intro _ h
      simp only [hrowdiv] at h
      exact h.2 rfl
    · intro j hj; left; exact hj.1
    · intro h; rw [hpf] at h; cases h
    · intro j hj
      by_cases e : j = i
      · right; exact ⟨rfl, by simp only [hrowdiv]; exact e.symm⟩
      · left; exact ⟨hj, e⟩
    · intro j
      rw [LTree.freeFor_absent _ _ l hpf]
      by_cases e1 : j = i
      · subst e1
        have h1 : LTree.freeFor c.geom.treeRows j ⟨j * c.geom.treeRows, fr, true⟩ = fr := by
          have := LTree.freeFor_self c.geom.treeRows ⟨j * c.geom.treeRows, fr, true⟩ rfl
          simp only [hrowdiv] at this; exact this
        rw [h1, gset_same]; omega
      · have h1 : LTree.freeFor c.geom.treeRows j ⟨i * c.geom.treeRows, fr, true⟩ = 0 :=
          LTree.freeFor_other _ _ _ (by simp only [hrowdiv]; exact fun e => e1 e.symm)
        rw [h1, gset_other _ _ _ _ e1]

theorem classLocals_runs (m : Mem) (k : Nat) (hk : k < 8) (Q : Option Nat → Mem → Prop)
    (q : Q ((c.slotRange k).map (·.2)) m) : Runs m (Locals.classLocals c k) Q :=
  Runs.of_eq (C08.classLocals_spec c m k hk) q

/-- **`LLFree::reserve_or_steal`**: reserve tree `i` for the caller's slot (returning the
    previous reservation to its tree) or take the frames from its counter, then allocate -/
theorem reserveOrSteal_spec' (ok : CfgOk c) (inv : UpperInv0 c H m) (i order cls loc : Nat) (hi : i < c.ntrees)
    (hcls : cls < 8) (hto : order ≤ c.geom.treeOrder) (rng : Nat × Nat) (hr : c.slotRange cls = some rng) (hpos : 0 < rng.2) :
    Runs m (reserveOrSteal c i order cls loc) (fun r m' => UpperInv0 c H m' ∧ GetOutcome c m order none r m' ∧ (∀ e, r = .error e → NoRoom c m i order)) := by
  have okg := ok.geom.toGeomOk
  have htr : i * c.g.treeRows * 64 / c.geom.treeFrames = i := by
    show i * c.geom.treeRows * 64 / _ = i
    rw [Nat.mul_assoc, okg.treeRows_mul, Nat.mul_div_cancel _ okg.tf_pos]
  unfold reserveOrSteal
  apply Runs.bind (trees_reserveOrSteal_spec ok inv i cls (2 ^ order) hi hcls)
  rintro r m1 hr1
  match r, hr1 with
  | none, hr1 =>
    obtain ⟨rfl, hwhy⟩ := hr1
    exact Runs.pure ⟨inv, ⟨rfl, SameAlloc.refl _⟩, fun _ _ => Or.inl hwhy⟩
  | some (false, free, k), hr1 =>
    obtain ⟨hk, inv1, same1, hslots⟩ := hr1
    simp only
    apply Runs.bind (lower_get_upper ok inv1 (i * c.g.treeRows) order i none hto hi (by simp) (fun _ => htr) (fun x h => by cases h))
    rintro lr m2 hlr
    cases lr with
    | ok f =>
      obtain ⟨hft, hal, hallowed, post, hfx, inv2⟩ := hlr
      simp only [Bool.false_eq_true, if_false]
      apply Runs.pure
      exact ⟨inv2.congrP _ (gset_gset_cancel _ _), ⟨hk, hal, hallowed.congr same1, hfx,
        AllocEffect.of_post same1 post (SameAlloc.refl _)⟩, fun e h => by cases h⟩
    | error e =>
      obtain ⟨rfl, rfl, hno⟩ := hlr
      simp only [Bool.false_eq_true, if_false]
      apply Runs.bind (tput_spec ok inv1 i (2 ^ order) hi (by simp))
      rintro _ m3 ⟨inv3, same3⟩
      apply Runs.pure
      exact ⟨inv3.congrP _ (gset_gset_cancel _ _), ⟨rfl, same1.trans same3⟩,
        fun _ _ => Or.inr (fun f h1 h2 h3 => hno rfl f h1 h2 (h3.congr same1.symm))⟩
  | some (true, free, k), hr1 =>
    obtain ⟨rfl, hfn, hftf, inv1, same1, hslots, htree1⟩ := hr1
    simp only
    apply Runs.bind (lower_get_upper ok inv1 (i * c.g.treeRows) order i none hto hi (by simp; exact hfn) (fun _ => htr) (fun x h => by cases h))
    rintro lr m2 hlr
    cases lr with
    | error e =>
      obtain ⟨rfl, rfl, hno⟩ := hlr
      simp only [if_true]
      apply Runs.bind (tunreserve_spec ok inv1 i free k ⟨0, true, k⟩ htree1 rfl (Or.inr rfl) (Nat.le_refl _) (by simp))
      rintro _ m3 ⟨inv3, same3, _⟩
      apply Runs.pure
      refine ⟨(inv3.congrP _ ?_).congrR _ ?_, ⟨rfl, same1.trans same3⟩,
        fun _ _ => Or.inr (fun f h1 h2 h3 => hno rfl f h1 h2 (h3.congr same1.symm))⟩
      · intro j
        by_cases e : j = i
        · subst e; simp
        · simp [gset, e]
      · intro j
        constructor
        · intro h; exact h.elim
        · rintro ⟨h1, h2⟩; rcases h1 with h1 | h1; exact h1.elim; exact h2 h1
    | ok f =>
      obtain ⟨hft, hal, hallowed, post, hfx, inv2⟩ := hlr
      simp only [if_true]
      apply Runs.bind (classLocals_runs m2 k hcls (fun r m' => r = some rng.2 ∧ m2 = m') (by rw [hr]; exact ⟨rfl, rfl⟩))
      rintro _ _ ⟨rfl, rfl⟩
      simp only
      have hne : ¬ rng.2 = 0 := by omega
      simp only [hne, if_false]
      have hnlt : ¬ free < 2 ^ order := by omega
      simp only [hnlt, if_false]
      have hfdiv : f / c.tf = i := hft
      rw [hfdiv]
      have htree2 : m2.trees[i]? = some ⟨0, true, k⟩ := by rw [post.trees]; exact htree1
      have hP2 : free - 2 ^ order ≤ gset (gset (fun _ => 0) i (0 + free)) i (gset (fun _ => 0) i (0 + free) i - 2 ^ order) i := by
        simp
      apply Runs.bind (locals_swap_spec ok inv2 k (loc % rng.2) i (free - 2 ^ order) hcls rng hr (Nat.mod_lt _ hpos) hi
        (by omega) (Or.inr rfl) ⟨⟨0, true, k⟩, htree2, rfl, Nat.le_refl _⟩ hP2)
      rintro old m3 ⟨same3, htrees3, hold⟩
      have heff : AllocEffect c m m3 f order := AllocEffect.of_post same1 post same3
      match old, hold with
      | none, hold =>
        simp only
        apply Runs.pure
        refine ⟨(hold.congrP _ ?_).congrR _ ?_, ⟨hcls, hal, hallowed.congr same1, hfx, heff⟩, fun e h => by cases h⟩
        · intro j
          by_cases e : j = i
          · subst e; simp
          · simp [gset, e]
        · intro j
          constructor
          · intro h; exact h.elim
          · rintro ⟨h1, h2⟩; rcases h1 with h1 | h1; exact h1.elim; exact h2 h1
      | some o, hold =>
        obtain ⟨hocls, hone, ⟨to, hto1, hto2, hto3⟩, inv3⟩ := hold
        simp only
        have hto1' : m3.trees[o.row / c.geom.treeRows]? = some to := by rw [htrees3]; exact hto1
        apply Runs.bind (tunreserve_spec ok inv3 (o.row / c.g.treeRows) o.free k to hto1' hto2 (Or.inr rfl) hto3 (by simp))
        rintro _ m4 ⟨inv4, same4, _⟩
        apply Runs.pure
        refine ⟨(inv4.congrP _ ?_).congrR _ ?_, ⟨hcls, hal, hallowed.congr same1, hfx,
          AllocEffect.of_post same1 post (same3.trans same4)⟩, fun e h => by cases h⟩
        · intro j
          by_cases e1 : j = o.row / c.geom.treeRows
          · subst e1; simp [gset, hone]
          · by_cases e2 : j = i
            · subst e2; simp [gset, e1]
            · simp [gset, e1, e2]
        · intro j
          constructor
          · intro h; exact h.elim
          · rintro ⟨h1, h2⟩
            rcases h1 with ⟨h1, h3⟩ | h1
            · rcases h1 with h1 | h1; exact h1.elim; exact h3 h1
            · exact h2 h1

theorem reserveOrSteal_spec (ok : CfgOk c) (inv : UpperInv0 c H m) (i order cls loc : Nat) (hi : i < c.ntrees)
    (hcls : cls < 8) (hto : order ≤ c.geom.treeOrder) (rng : Nat × Nat) (hr : c.slotRange cls = some rng) (hpos : 0 < rng.2) :
    Runs m (reserveOrSteal c i order cls loc) (fun r m' => UpperInv0 c H m' ∧ GetOutcome c m order none r m') :=
  (reserveOrSteal_spec' ok inv i order cls loc hi hcls hto rng hr hpos).mono (fun _ _ h => ⟨h.1, h.2.1⟩)

end
end LLFree
