/-
  `LLFree::tree_stats`: the fold over the local slots (`Locals::foldSlots`) as a list fold, and
  from it: the program never panics in an invariant state, reads only, returns
  free_frames = Σ tree counters + Σ counters of the present slots, and the per-class free
  counts add up to exactly that total.
-/
import LLFreeV.Proofs.ClassSum
import LLFreeV.Proofs.UpperOps
namespace LLFree
open Prog

/-- present slots of class `i` with indices `base + j .. base + j + cnt` -/
def slotsFrom (m : Mem) (i base : Nat) : Nat → Nat → List (Nat × LTree)
  | 0, _ => []
  | cnt+1, j =>
    (match m.slots[base + j]? with
      | some t => if t.present then [(i, t)] else []
      | none => []) ++ slotsFrom m i base cnt (j + 1)

/-- present slots of the classes `i .. i + cnt`, in the order `foldSlots` visits them -/
def slotsOfFrom (c : Cfg) (m : Mem) : Nat → Nat → List (Nat × LTree)
  | 0, _ => []
  | cnt+1, i =>
    (match c.slotRange i with
      | some rng => slotsFrom m i rng.1 rng.2 0
      | none => []) ++ slotsOfFrom c m cnt (i + 1)

/-- all present slots with their class, in visiting order -/
def slotsOf (c : Cfg) (m : Mem) : List (Nat × LTree) := slotsOfFrom c m 8 0

section
variable {σ : Type} (c : Cfg) (m : Mem) (f : σ → Nat → LTree → Prog σ) (g : σ → Nat → LTree → σ)

theorem foldSlots_slots_runs (P : Nat → LTree → Prop) (hf : ∀ acc cls t, P cls t → Runs m (f acc cls t) (fun acc' m' => m = m' ∧ acc' = g acc cls t))
    (cls base : Nat) : ∀ (cnt j : Nat) (acc : σ), base + j + cnt ≤ m.slots.size →
      (∀ p ∈ slotsFrom m cls base cnt j, P p.1 p.2) →
      Runs m (Locals.foldSlots.slots f cls base cnt j acc)
        (fun acc' m' => m = m' ∧ acc' = (slotsFrom m cls base cnt j).foldl (fun a p => g a p.1 p.2) acc) := by
  intro cnt
  induction cnt with
  | zero => intro j acc _ _; unfold Locals.foldSlots.slots; exact Runs.pure ⟨rfl, rfl⟩
  | succ cnt ih =>
    intro j acc hsz hP
    unfold Locals.foldSlots.slots
    have hlt : base + j < m.slots.size := by omega
    have hE : m.slots[base + j]? = some m.slots[base + j] := Array.getElem?_eq_getElem hlt
    apply Runs.bind (Runs.load (k := .slot) (Q := fun t m' => t = m.slots[base + j] ∧ m = m') (v := m.slots[base + j]) (by rw [Mem.get?_slot]; exact hE) ⟨rfl, rfl⟩)
    rintro _ _ ⟨rfl, rfl⟩
    show Runs m (if m.slots[base + j].present = true then _ else _) _
    by_cases hp : m.slots[base + j].present = true
    · rw [if_pos hp]
      have hmem : (cls, m.slots[base + j]) ∈ slotsFrom m cls base (cnt + 1) j := by
        unfold slotsFrom; rw [hE]; simp [hp]
      apply Runs.bind (hf acc cls _ (hP _ hmem))
      rintro _ _ ⟨rfl, rfl⟩
      apply Runs.mono (ih (j + 1) _ (by omega) (fun p hp' => hP p (by unfold slotsFrom; exact List.mem_append_right _ hp')))
      rintro acc' m' ⟨rfl, rfl⟩
      refine ⟨rfl, ?_⟩
      conv => rhs; unfold slotsFrom
      rw [hE]; simp [hp]
    · rw [if_neg hp]
      apply Runs.bind (Runs.pure (Q := fun a m' => a = acc ∧ m = m') ⟨rfl, rfl⟩)
      rintro _ _ ⟨rfl, rfl⟩
      apply Runs.mono (ih (j + 1) _ (by omega) (fun p hp' => hP p (by unfold slotsFrom; exact List.mem_append_right _ hp')))
      rintro acc' m' ⟨rfl, rfl⟩
      refine ⟨rfl, ?_⟩
      conv => rhs; unfold slotsFrom
      rw [hE]; simp [hp]

theorem foldSlots_classes_runs (P : Nat → LTree → Prop) (hf : ∀ acc cls t, P cls t → Runs m (f acc cls t) (fun acc' m' => m = m' ∧ acc' = g acc cls t))
    (hrange : ∀ k rng, c.slotRange k = some rng → rng.1 + rng.2 ≤ m.slots.size) :
    ∀ (cnt i : Nat) (acc : σ), (∀ p ∈ slotsOfFrom c m cnt i, P p.1 p.2) →
      Runs m (Locals.foldSlots.classes c f cnt i acc)
        (fun acc' m' => m = m' ∧ acc' = (slotsOfFrom c m cnt i).foldl (fun a p => g a p.1 p.2) acc) := by
  intro cnt
  induction cnt with
  | zero => intro i acc _; unfold Locals.foldSlots.classes; exact Runs.pure ⟨rfl, rfl⟩
  | succ cnt ih =>
    intro i acc hP
    unfold Locals.foldSlots.classes
    show Runs m (match c.slotRange i with | some rng => _ | none => _) _
    cases hr : c.slotRange i with
    | none =>
      simp only
      apply Runs.bind (Runs.pure (Q := fun a m' => a = acc ∧ m = m') ⟨rfl, rfl⟩)
      rintro _ _ ⟨rfl, rfl⟩
      apply Runs.mono (ih (i + 1) _ (fun p hp' => hP p (by unfold slotsOfFrom; exact List.mem_append_right _ hp')))
      rintro acc' m' ⟨rfl, rfl⟩
      refine ⟨rfl, ?_⟩
      conv => rhs; unfold slotsOfFrom
      rw [hr]; simp
    | some rng =>
      simp only
      have hsz := hrange i rng hr
      apply Runs.bind (foldSlots_slots_runs m f g P hf i rng.1 rng.2 0 acc (by omega)
        (fun p hp' => hP p (by unfold slotsOfFrom; rw [hr]; exact List.mem_append_left _ hp')))
      rintro _ _ ⟨rfl, rfl⟩
      apply Runs.mono (ih (i + 1) _ (fun p hp' => hP p (by unfold slotsOfFrom; exact List.mem_append_right _ hp')))
      rintro acc' m' ⟨rfl, rfl⟩
      refine ⟨rfl, ?_⟩
      conv => rhs; unfold slotsOfFrom
      rw [hr]; simp [List.foldl_append]

/-- **`Locals::foldSlots` is the left fold over the present slots**, when the visitor only reads -/
theorem foldSlots_runs (P : Nat → LTree → Prop) (hf : ∀ acc cls t, P cls t → Runs m (f acc cls t) (fun acc' m' => m = m' ∧ acc' = g acc cls t))
    (hrange : ∀ k rng, c.slotRange k = some rng → rng.1 + rng.2 ≤ m.slots.size) (init : σ)
    (hP : ∀ p ∈ slotsOf c m, P p.1 p.2) :
    Runs m (Locals.foldSlots c f init)
      (fun acc' m' => m = m' ∧ acc' = (slotsOf c m).foldl (fun a p => g a p.1 p.2) init) := by
  unfold Locals.foldSlots
  exact foldSlots_classes_runs c m f g P hf hrange 8 0 init hP

end

open C14

section
variable (c : Cfg) (m : Mem)

theorem slotsFrom_cls (i base : Nat) : ∀ cnt j p, p ∈ slotsFrom m i base cnt j → p.1 = i ∧ p.2.present = true ∧
    ∃ s : Nat, m.slots[s]? = some p.2
  | 0, _, p, h => by simp [slotsFrom] at h
  | cnt+1, j, p, h => by
    unfold slotsFrom at h
    rcases List.mem_append.1 h with h | h
    · cases hE : m.slots[base + j]? with
      | none => rw [hE] at h; simp at h
      | some t =>
        rw [hE] at h
        by_cases hp : t.present = true
        · simp [hp] at h; subst h; exact ⟨rfl, hp, _, hE⟩
        · simp [hp] at h
    · exact slotsFrom_cls i base cnt (j + 1) p h

theorem slotsOfFrom_cls : ∀ cnt i p, p ∈ slotsOfFrom c m cnt i → (i ≤ p.1 ∧ p.1 < i + cnt) ∧ p.2.present = true ∧
    ∃ s : Nat, m.slots[s]? = some p.2
  | 0, _, p, h => by simp [slotsOfFrom] at h
  | cnt+1, i, p, h => by
    unfold slotsOfFrom at h
    rcases List.mem_append.1 h with h | h
    · cases hr : c.slotRange i with
      | none => rw [hr] at h; simp at h
      | some rng =>
        rw [hr] at h
        obtain ⟨h1, h2, h3⟩ := slotsFrom_cls m i rng.1 rng.2 0 p h
        exact ⟨by omega, h2, h3⟩
    · obtain ⟨h1, h2, h3⟩ := slotsOfFrom_cls cnt (i + 1) p h
      exact ⟨by omega, h2, h3⟩

theorem slotsOf_mem (p : Nat × LTree) (h : p ∈ slotsOf c m) : p.1 < 8 ∧ p.2.present = true ∧ ∃ s : Nat, m.slots[s]? = some p.2 := by
  obtain ⟨h1, h2, h3⟩ := slotsOfFrom_cls c m 8 0 p h
  exact ⟨by omega, h2, h3⟩

/-- sum of the counters of the present slots -/
def slotSum : Nat := ((slotsOf c m).map (fun p => p.2.free)).sum

/-- the visitor of the second pass of `tree_stats` -/
def stats2 (tf : Nat) (s : TreeStats) (cls : Nat) (t : LTree) : TreeStats :=
  ({ s with freeFrames := s.freeFrames + t.free, freeTrees := s.freeTrees + t.free / tf }).addClass cls (fun (f, a) => (f + t.free, a))

/-- the visitor of the third pass: the class of the reserved tree loses the slot's frames from `alloc` -/
def stats3 (m : Mem) (tr : Nat) (s : TreeStats) (t : LTree) : TreeStats :=
  s.addClass ((m.trees[t.row / tr]?.getD default).cls) (fun (f, a) => (f, a - t.free))

theorem classFree_modify_fst (l : List (Nat × Nat)) (i : Nat) (f : Nat × Nat → Nat × Nat) (h : ∀ p, (f p).1 = p.1) :
    classFree (l.modify i f) = classFree l := by
  unfold classFree
  by_cases hi : i < l.length
  · have := sum_modify l i hi f (·.1) 0 (fun p => by simp [h p])
    simpa using this
  · have : l.modify i f = l := by
      apply List.ext_getElem?
      intro j
      rw [List.getElem?_modify]
      by_cases e : i = j
      · subst e; simp [List.getElem?_eq_none (by omega : l.length ≤ i)]
      · simp [e]
    rw [this]

theorem fold2_spec (tf : Nat) : ∀ (L : List (Nat × LTree)) (s : TreeStats), (∀ p ∈ L, p.1 < 8) → s.classes.length = 8 →
    let s' := L.foldl (fun a p => stats2 tf a p.1 p.2) s
    s'.classes.length = 8 ∧ s'.freeFrames = s.freeFrames + (L.map (fun p => p.2.free)).sum ∧
    classFree s'.classes = classFree s.classes + (L.map (fun p => p.2.free)).sum
  | [], s, _, hl => by simp [hl]
  | p :: L, s, hc, hl => by
    have h8 := hc p List.mem_cons_self
    have hl1 : (stats2 tf s p.1 p.2).classes.length = 8 := by unfold stats2; rw [length_addClass]; exact hl
    obtain ⟨a1, a2, a3⟩ := fold2_spec tf L (stats2 tf s p.1 p.2) (fun q hq => hc q (List.mem_cons_of_mem _ hq)) hl1
    simp only [List.foldl_cons, List.map_cons, List.sum_cons]
    refine ⟨a1, ?_, ?_⟩
    · rw [a2]; show s.freeFrames + p.2.free + _ = _; omega
    · rw [a3]
      have : classFree (stats2 tf s p.1 p.2).classes = classFree s.classes + p.2.free := by
        unfold stats2 TreeStats.addClass classFree
        exact sum_modify _ _ (by show p.1 < s.classes.length; omega) _ _ _ (fun q => by simp)
      omega

theorem fold3_spec (tr : Nat) : ∀ (L : List (Nat × LTree)) (s : TreeStats), s.classes.length = 8 →
    let s' := L.foldl (fun a p => stats3 m tr a p.2) s
    s'.classes.length = 8 ∧ s'.freeFrames = s.freeFrames ∧ classFree s'.classes = classFree s.classes
  | [], s, hl => by simp [hl]
  | p :: L, s, hl => by
    have hl1 : (stats3 m tr s p.2).classes.length = 8 := by unfold stats3; rw [length_addClass]; exact hl
    obtain ⟨a1, a2, a3⟩ := fold3_spec tr L (stats3 m tr s p.2) hl1
    simp only [List.foldl_cons]
    refine ⟨a1, by rw [a2]; rfl, ?_⟩
    rw [a3]
    unfold stats3 TreeStats.addClass
    exact classFree_modify_fst _ _ _ (fun q => rfl)

/-- **`LLFree::tree_stats` in an invariant state**: never panics, reads only; the fast total is
    the sum of the tree counters (as counted by `Trees::stats`) plus the counters of the present
    local reservations, and the per-class free counts add up to exactly this total. -/
theorem treeStats_spec {H : Nat → Nat} (ok : CfgOk c) (inv : UpperInv0 c H m) :
    Runs m (treeStats c) (fun s m' => m = m' ∧ s.classes.length = 8 ∧ classFree s.classes = s.freeFrames ∧
      ∃ s0, runSolo (Trees.stats c) m = (m, .ok s0) ∧ s.freeFrames = s0.freeFrames + slotSum c m) := by
  have hcls : ∀ t ∈ m.trees.toList, t.cls < 8 ∧ t.free ≤ c.tf := by
    intro t ht
    obtain ⟨i, hi, rfl⟩ := List.getElem_of_mem ht
    have hi' : i < m.trees.size := by simpa using hi
    have hE : m.trees[i]? = some m.trees[i] := Array.getElem?_eq_getElem hi'
    have e : m.trees.toList[i] = m.trees[i] := by simp
    rw [e]
    refine ⟨inv.treeCls i _ hE, ?_⟩
    have h1 := inv.counterLe i _ hE
    have h2 := Mem.freeInTree_le m c.geom i
    show m.trees[i].free ≤ c.geom.treeFrames
    omega
  obtain ⟨s0, hrun0, hsum0, hfree0⟩ := trees_stats_partition c m inv.treesSize hcls
  have hlen0 : s0.classes.length = 8 := by
    unfold Trees.stats at hrun0
    obtain ⟨s', hr', hl', _, _⟩ := trees_stats_go c m hcls c.ntrees 0 {} (by rw [inv.treesSize]; omega) (by simp)
    rw [hr'] at hrun0
    injection hrun0 with _ h2; injection h2 with h3; subst h3; exact hl'
  have hrange : ∀ k rng, c.slotRange k = some rng → rng.1 + rng.2 ≤ m.slots.size := by
    intro k rng hk; rw [inv.slotsSize]; exact ok.rangeIn k rng hk
  unfold treeStats
  apply Runs.bind (Runs.of_eq hrun0 (Q := fun s m' => s0 = s ∧ m = m') ⟨rfl, rfl⟩)
  rintro _ _ ⟨rfl, rfl⟩
  apply Runs.bind (foldSlots_runs c m _ (stats2 c.tf) (fun _ _ => True) (fun acc cls t _ => Runs.pure ⟨rfl, rfl⟩) hrange s0 (fun _ _ => trivial))
  rintro s1 _ ⟨rfl, rfl⟩
  obtain ⟨l1, f1, c1⟩ := fold2_spec c.tf (slotsOf c m) s0 (fun p hp => (slotsOf_mem c m p hp).1) hlen0
  -- third pass: every present slot names a tree inside the table
  have hP3 : ∀ p ∈ slotsOf c m, ∃ e : Tree, m.trees[p.2.row / c.g.treeRows]? = some e := by
    intro p hp
    obtain ⟨_, hpres, s, hs⟩ := slotsOf_mem c m p hp
    obtain ⟨k, hk⟩ := inv.slotCls s p.2 hs hpres
    obtain ⟨t, ht, _, _⟩ := inv.slotTree s p.2 k hs hpres hk
    exact ⟨t, ht⟩
  apply Runs.mono (foldSlots_runs c m _ (fun a _ t => stats3 m c.g.treeRows a t)
    (fun _ t => ∃ e : Tree, m.trees[t.row / c.g.treeRows]? = some e)
    (fun acc cls t ⟨e, he⟩ => by
      apply Runs.bind (Runs.load (k := .tree) (v := e) (Q := fun x m' => x = e ∧ m = m') (by rw [Mem.get?_tree]; exact he) ⟨rfl, rfl⟩)
      rintro _ _ ⟨rfl, rfl⟩
      apply Runs.pure
      refine ⟨rfl, ?_⟩
      unfold stats3
      rw [he]; rfl)
    hrange _ (fun p hp => hP3 p hp))
  rintro s2 _ ⟨rfl, rfl⟩
  obtain ⟨l2, f2, c2⟩ := fold3_spec m c.g.treeRows (slotsOf c m) _ l1
  refine ⟨rfl, l2, ?_, s0, hrun0, ?_⟩
  · rw [c2, c1, f2, f1, hfree0]
  · rw [f2, f1]; rfl

end
end LLFree

