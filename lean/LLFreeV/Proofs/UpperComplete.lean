/-
  Completeness of the allocation search for base-order requests: an allocation fails only if
  no tree has a usable counter (C10: after a drain, "nothing suitable is free").
-/
import LLFreeV.Proofs.UpperInit
import LLFreeV.Proofs.SearchOrder
namespace LLFree
open Prog

theorem SortedBuffer.add_ne_nil {τ : Type} (le : τ → τ → Bool) (n : Nat) (hn : 0 < n) (buf : List τ) (v : τ) :
    SortedBuffer.add le n buf v ≠ [] := by
  unfold SortedBuffer.add
  by_cases h : buf.length < n
  · simp only [h, if_true]
    intro hc
    have := congrArg List.length hc
    simp at this
  · simp only [h, if_false]
    have hne : buf ≠ [] := by
      intro hb; rw [hb] at h; simp at h; omega
    split
    · exact hne
    · intro hc
      have := congrArg List.length hc
      simp at this

section
variable {β : Type} (tf ntrees nbuf start : Nat) (rate : Nat → Nat → Policy) (access : Nat → Prog (Res β))
  (m : Mem) (Q : Res β → Mem → Prop)

/-- tree `j` would be accessed or remembered by the search in state `m` -/
def Cand (j : Nat) : Prop := ∃ t : Tree, m.trees[j]? = some t ∧ t.reserved = false ∧ rate t.cls t.free ≠ .invalid

/-- result of a search all of whose accesses to candidates succeed: either a success, or no
    candidate was seen at all (and nothing was touched) -/
def Progress (i cnt : Nat) (best : Best) (r : Res β) (m' : Mem) : Prop :=
  (r ≠ .error .memory ∧ Q r m') ∨
  (r = .error .memory ∧ m = m' ∧ best = [] ∧ ∀ x, i ≤ x → x < i + cnt → ¬ Cand rate m (searchIdx start ntrees x))

theorem searchBest_progress (hnbuf : 0 < nbuf)
    (hsucc : ∀ j, j < ntrees → Cand rate m j → Runs m (access j) (fun r m' => r ≠ .error .memory ∧ Q r m'))
    (hsz : ∀ j, j < ntrees → ∃ t : Tree, m.trees[j]? = some t)
    (cnt i : Nat) (best : Best) (hb : ∀ x ∈ best, x.2 < ntrees ∧ Cand rate m x.2) (hn : cnt = 0 ∨ 0 < ntrees) :
    Runs m (Trees.searchBest.scan tf ntrees nbuf start rate access cnt i best)
      (fun r m' => Progress ntrees start rate m Q i cnt best r m') := by
  induction cnt generalizing i best with
  | zero =>
    unfold Trees.searchBest.scan
    cases hrev : best.reverse with
    | nil =>
      unfold Trees.searchBest.tryBest
      apply Runs.pure
      right
      refine ⟨rfl, rfl, by simpa using hrev, fun x h1 h2 => by omega⟩
    | cons x rest =>
      obtain ⟨p, j⟩ := x
      unfold Trees.searchBest.tryBest
      have hmem : (p, j) ∈ best := List.mem_reverse.1 (by rw [hrev]; simp)
      obtain ⟨hj, hc⟩ := hb _ hmem
      apply Runs.bind (hsucc j hj hc)
      rintro r m1 ⟨h1, h2⟩
      cases r with
      | ok v => exact Runs.pure (Or.inl ⟨by simp, h2⟩)
      | error e =>
        cases e with
        | memory => exact absurd rfl h1
        | argument => exact Runs.pure (Or.inl ⟨by simp, h2⟩)
        | initialization => exact Runs.pure (Or.inl ⟨by simp, h2⟩)
  | succ cnt ih =>
    unfold Trees.searchBest.scan
    have hpos : 0 < ntrees := by rcases hn with h | h; cases h; exact h
    have hne : ¬ ntrees = 0 := by omega
    simp only [hne, if_false]
    have hidx := searchIdx_lt start ntrees i hpos
    obtain ⟨t, ht⟩ := hsz _ hidx
    apply Runs.load_tree ht
    -- the recursive call with an unchanged buffer, when tree `idx` is no candidate
    have skip : ¬ Cand rate m (searchIdx start ntrees i) →
        Runs m (Trees.searchBest.scan tf ntrees nbuf start rate access cnt (i + 1) best)
          (fun r m' => Progress ntrees start rate m Q i (cnt + 1) best r m') := by
      intro hnc
      apply Runs.mono (ih (i + 1) best hb (Or.inr hpos))
      rintro r m' (h | ⟨h1, h2, h3, h4⟩)
      · exact Or.inl h
      · right
        refine ⟨h1, h2, h3, ?_⟩
        intro x hx1 hx2
        by_cases e : x = i
        · subst e; exact hnc
        · exact h4 x (by omega) (by omega)
    -- the recursive call after remembering tree `idx`
    have remember : ∀ p, Cand rate m (searchIdx start ntrees i) →
        Runs m (Trees.searchBest.scan tf ntrees nbuf start rate access cnt (i + 1)
            (SortedBuffer.add bestLe nbuf best ((p, t.free == tf), searchIdx start ntrees i)))
          (fun r m' => Progress ntrees start rate m Q i (cnt + 1) best r m') := by
      intro p hc
      apply Runs.mono (ih (i + 1) _ ?_ (Or.inr hpos))
      · rintro r m' (h | ⟨_, _, h3, _⟩)
        · exact Or.inl h
        · exact absurd h3 (SortedBuffer.add_ne_nil _ _ hnbuf _ _)
      · intro x hx
        rcases SortedBuffer.add_mem _ _ _ _ _ hx with h | h
        · exact hb x h
        · rw [h]; exact ⟨hidx, hc⟩
    by_cases hr : t.reserved = true
    · simp only [hr, if_true]
      apply skip
      rintro ⟨t', ht', hr', _⟩
      rw [ht] at ht'; cases ht'
      rw [hr] at hr'; cases hr'
    · simp only [hr, Bool.false_eq_true, if_false]
      have hrf : t.reserved = false := by simpa using hr
      cases hp : rate t.cls t.free with
      | invalid =>
        apply skip
        rintro ⟨t', ht', _, hinv⟩
        rw [ht] at ht'; cases ht'
        exact hinv hp
      | demote => exact remember _ ⟨t, ht, hrf, by rw [hp]; simp⟩
      | steal => exact remember _ ⟨t, ht, hrf, by rw [hp]; simp⟩
      | «match» q =>
        have hc : Cand rate m (searchIdx start ntrees i) := ⟨t, ht, hrf, by rw [hp]; simp⟩
        by_cases hq : q = 255
        · subst hq
          simp only
          apply Runs.bind (hsucc _ hidx hc)
          rintro r m1 ⟨h1, h2⟩
          cases r with
          | ok v => exact Runs.pure (Or.inl ⟨by simp, h2⟩)
          | error e =>
            cases e with
            | memory => exact absurd rfl h1
            | argument => exact Runs.pure (Or.inl ⟨by simp, h2⟩)
            | initialization => exact Runs.pure (Or.inl ⟨by simp, h2⟩)
        · split
          · rename_i h; cases h; exact absurd rfl hq
          · rename_i h; cases h
          · exact remember _ hc

end

section
variable {c : Cfg} {H : Nat → Nat} {m : Mem}

/-- a tree with a positive free count contains a free frame -/
theorem exists_free_frame (okg : GeomOk c.geom) (i : Nat) (h : 1 ≤ m.freeInTree c.geom i) :
    ∃ f, f / c.geom.treeFrames = i ∧ f % 2 ^ 0 = 0 ∧ GetAllowed c m f 0 := by
  unfold Mem.freeInTree at h
  obtain ⟨k, hk, hfree⟩ := List.countP_pos_iff.1 h
  have hk' := List.mem_range.1 hk
  refine ⟨i * c.geom.treeFrames + k, ?_, by simp [Nat.mod_one], ?_⟩
  · rw [Nat.mul_comm, Nat.mul_add_div okg.tf_pos, Nat.div_eq_of_lt hk', Nat.add_zero]
  · intro x hx
    have : x = 0 := by simpa using hx
    subst this
    simpa using hfree

/-- in state `m` tree `i` is unreserved and its counter is positive -/
def Usable (m : Mem) (i : Nat) : Prop := ∃ t : Tree, m.trees[i]? = some t ∧ t.reserved = false ∧ 1 ≤ t.free

theorem Usable.not_noRoom (okg : GeomOk c.geom) (inv : UpperInv0 c H m) (i : Nat) (h : Usable m i) : ¬ NoRoom c m i 0 := by
  obtain ⟨t, ht, hr, hf⟩ := h
  rintro (h1 | h1)
  · exact h1 t ht ⟨by simpa using hf, hr⟩
  · have hle := inv.counterLe i t ht
    obtain ⟨f, h2, h3, h4⟩ := exists_free_frame (m := m) okg i (by omega)
    exact h1 f h2 h3 h4

/-- a base-order `reserve_or_steal` on a usable tree succeeds -/
theorem reserveOrSteal_succeeds (ok : CfgOk c) (inv : UpperInv0 c H m) (i cls loc : Nat) (hi : i < c.ntrees)
    (hcls : cls < 8) (rng : Nat × Nat) (hr : c.slotRange cls = some rng) (hpos : 0 < rng.2) (hu : Usable m i) :
    Runs m (reserveOrSteal c i 0 cls loc) (fun r m' => r ≠ .error .memory ∧ (UpperInv0 c H m' ∧ GetOutcome c m 0 none r m')) := by
  apply Runs.mono (reserveOrSteal_spec' ok inv i 0 cls loc hi hcls (Nat.zero_le _) rng hr hpos)
  rintro r m' ⟨inv', out, why⟩
  refine ⟨?_, inv', out⟩
  intro hr'
  exact hu.not_noRoom ok.geom.toGeomOk inv i (why _ hr')

theorem stealGlobal_succeeds (ok : CfgOk c) (inv : UpperInv0 c H m) (i cls : Nat) (hi : i < c.ntrees)
    (hcls : cls < 8) (hu : Usable m i) :
    Runs m (stealGlobal c i cls 0 none) (fun r m' => r ≠ .error .memory ∧ (UpperInv0 c H m' ∧ GetOutcome c m 0 none r m')) := by
  apply Runs.mono (stealGlobal_spec' ok inv i cls 0 none hi hcls (Nat.zero_le _) (fun x hx => by cases hx))
  rintro r m' ⟨inv', out, why⟩
  refine ⟨?_, inv', out⟩
  intro hr'
  exact hu.not_noRoom ok.geom.toGeomOk inv i (why rfl _ hr')

/-- a candidate of a base-order search whose rating is `Invalid` below one free frame is usable -/
theorem usable_of_cand (rate : Nat → Nat → Policy) (hrate : ∀ k f, f < 1 → rate k f = .invalid) (j : Nat)
    (h : Cand rate m j) : Usable m j := by
  obtain ⟨t, ht, hr, hp⟩ := h
  refine ⟨t, ht, hr, ?_⟩
  rcases Nat.lt_or_ge t.free 1 with h1 | h1
  · exact absurd (hrate t.cls t.free h1) hp
  · exact h1

/-- **A full base-order search over all trees finds a usable tree.** -/
theorem searchBest_finds (ok : CfgOk c) (inv : UpperInv0 c H m) (nbuf start : Nat) (hnbuf : 0 < nbuf) (hstart : start < c.ntrees)
    (rate : Nat → Nat → Policy) (access : Nat → Prog (Res (Nat × Nat)))
    (hrate : ∀ k f, f < 1 → rate k f = .invalid) (hrate2 : ∀ k f, 1 ≤ f → rate k f ≠ .invalid)
    (hsucc : ∀ j, j < c.ntrees → Usable m j →
      Runs m (access j) (fun r m' => r ≠ .error .memory ∧ (UpperInv0 c H m' ∧ GetOutcome c m 0 none r m')))
    (j : Nat) (hj : j < c.ntrees) (hu : Usable m j) :
    Runs m (Trees.searchBest c.tf c.ntrees nbuf start 0 c.ntrees rate access)
      (fun r m' => r ≠ .error .memory ∧ (UpperInv0 c H m' ∧ GetOutcome c m 0 none r m')) := by
  unfold Trees.searchBest
  have hprog := searchBest_progress c.tf c.ntrees nbuf start rate access m
    (fun r m' => UpperInv0 c H m' ∧ GetOutcome c m 0 none r m') hnbuf
    (fun j hj hc => hsucc j hj (usable_of_cand rate hrate j hc)) (fun j hj => inv.tree_get j hj)
    (c.ntrees - 0) 0 [] (by simp) (Or.inr (by omega))
  apply Runs.mono hprog
  rintro r m' (h | ⟨_, _, _, hnone⟩)
  · exact h
  · exfalso
    have h44 := ok.rows44
    have htr : 0 < c.geom.treeRows := by
      have h1 := ok.geom.toGeomOk.treeRows_mul; have h2 := ok.geom.toGeomOk.tf_pos
      rcases Nat.eq_zero_or_pos c.geom.treeRows with h | h
      · rw [h] at h1; omega
      · exact h
    have hnt : c.ntrees < 2 ^ 44 := by
      have : c.ntrees * 1 ≤ c.ntrees * c.geom.treeRows := Nat.mul_le_mul_left _ htr
      omega
    obtain ⟨x, hx, hxe⟩ := search_visits_all start c.ntrees hstart (by omega) j hj
    apply hnone x (Nat.zero_le _) (by omega)
    rw [hxe]
    obtain ⟨t, ht, hr, hf⟩ := hu
    exact ⟨t, ht, hr, hrate2 t.cls t.free hf⟩

/-- `get_local` through an empty slot: `Memory` without touching anything -/
theorem getLocal_absent (ok : CfgOk c) (inv : UpperInv0 c H m) (order cls loc : Nat) (frame : Option Nat) (hcls : cls < 8)
    (rng : Nat × Nat) (hr : c.slotRange cls = some rng) (hloc : loc < rng.2) (habs : SlotAbsent m (rng.1 + loc)) :
    Runs m (getLocal c order cls loc frame) (fun r m' => r = .error (.memory, none) ∧ m = m') := by
  obtain ⟨l, hl⟩ := inv.slot_get ok cls rng hr loc hloc
  have hp := habs l hl
  unfold getLocal Locals.get
  apply Runs.bind (R := fun r m' => r = .error none ∧ m = m')
  · apply Runs.bind (classRange_spec m cls hcls (fun r m' => r = some rng ∧ m = m') ⟨hr, rfl⟩)
    rintro _ _ ⟨rfl, rfl⟩
    simp only
    apply Runs.bind (slotIdx_spec m rng loc hloc (fun r m' => r = rng.1 + loc ∧ m = m') ⟨rfl, rfl⟩)
    rintro _ _ ⟨rfl, rfl⟩
    have hg : l.get c.geom.treeRows (frame.map (· / c.tf)) (2 ^ order) = none := by
      unfold LTree.get; simp [hp]
    apply Runs.bind (Runs.tryUpdate_none (Q := fun r m' => r = .error l ∧ m = m') (by simpa using hl) hg ⟨rfl, rfl⟩)
    rintro _ _ ⟨rfl, rfl⟩
    simp only [hp, Bool.false_eq_true, if_false]
    exact Runs.pure ⟨rfl, rfl⟩
  · rintro _ _ ⟨rfl, rfl⟩
    exact Runs.pure ⟨rfl, rfl⟩

theorem ordered_ne_invalid' (ok : CfgOk c) (k t f : Nat) : c.policy k t f ≠ .invalid := ordered_ne_invalid ok.policy k t f

/-- **`search_and_reserve` is complete for base frames**: with a usable tree it succeeds -/
theorem searchAndReserve_finds (ok : CfgOk c) (inv : UpperInv0 c H m) (cls loc start : Nat) (hcls : cls < 8)
    (rng : Nat × Nat) (hr : c.slotRange cls = some rng) (hpos : 0 < rng.2) (hstart : start < c.ntrees)
    (j : Nat) (hj : j < c.ntrees) (hu : Usable m j) :
    Runs m (searchAndReserve c 0 cls loc start) (fun r m' => r ≠ .error .memory ∧ (UpperInv0 c H m' ∧ GetOutcome c m 0 none r m')) := by
  have okg := ok.geom.toGeomOk
  have hnt : 0 < c.ntrees := by omega
  have hsucc : ∀ j, j < c.ntrees → Usable m j →
      Runs m (reserveOrSteal c j 0 cls loc) (fun r m' => r ≠ .error .memory ∧ (UpperInv0 c H m' ∧ GetOutcome c m 0 none r m')) :=
    fun j hj hu => reserveOrSteal_succeeds ok inv j cls loc hj hcls rng hr hpos hu
  unfold searchAndReserve
  simp only
  have hho : 0 < c.g.hugeOrder := by have := okg.ho; show 0 < c.geom.hugeOrder; omega
  simp only [hho, if_true]
  have hstart' : start / nextPow2 (2 * max (c.ntrees / 16) 4) * nextPow2 (2 * max (c.ntrees / 16) 4) < c.ntrees :=
    Nat.lt_of_le_of_lt (Nat.div_mul_le_self _ _) hstart
  -- the first, nearby search: every access it makes succeeds
  have hrate1 : ∀ k f, f < 1 → (match rateBase c cls 0 k f with
      | .match p => Policy.match p
      | .demote => if f = c.tf then .demote else .invalid
      | _ => .invalid) = .invalid := by
    intro k f hf
    have : rateBase c cls 0 k f = .invalid := by
      unfold rateBase; simp; omega
    rw [this]
  generalize start / nextPow2 (2 * max (c.ntrees / 16) 4) * nextPow2 (2 * max (c.ntrees / 16) 4) = s' at hstart' ⊢
  unfold Trees.searchBest
  have hfirst := searchBest_progress c.tf c.ntrees 3 s' (fun t f => match rateBase c cls 0 t f with
      | .match p => Policy.match p
      | .demote => if f = c.tf then .demote else .invalid
      | _ => .invalid) (fun i => reserveOrSteal c i 0 cls loc) m
    (fun r m' => UpperInv0 c H m' ∧ GetOutcome c m 0 none r m') (by decide)
    (fun j hj hc => hsucc j hj (usable_of_cand _ hrate1 j hc)) (fun j hj => inv.tree_get j hj)
    (max (c.ntrees / 16) 4 - 1) 1 [] (by simp) (Or.inr hnt)
  apply Runs.bind hfirst
  rintro r1 m1 (⟨hne, hq⟩ | ⟨rfl, rfl, _, _⟩)
  · cases r1 with
    | ok v => exact Runs.pure ⟨by simp, hq⟩
    | error e =>
      cases e with
      | memory => exact absurd rfl hne
      | argument => exact Runs.pure ⟨by simp, hq⟩
      | initialization => exact Runs.pure ⟨by simp, hq⟩
  · simp only
    have := searchBest_finds ok inv 8 s' (by decide) hstart' (fun t f => match rateBase c cls 0 t f with
        | .match _ => Policy.match 255
        | .demote => if f = c.tf then .match 255 else .demote
        | p => p) (fun i => reserveOrSteal c i 0 cls loc) ?_ ?_ hsucc j hj hu
    · unfold Trees.searchBest at this; exact this
    · intro k f hf
      have : rateBase c cls 0 k f = .invalid := by unfold rateBase; simp; omega
      rw [this]
    · intro k f hf
      have hrb : rateBase c cls 0 k f = c.policy cls k f := by unfold rateBase; simp; omega
      rw [hrb]
      have hni := ordered_ne_invalid' ok cls k f
      cases hp : c.policy cls k f with
      | «match» q => simp
      | demote => simp only; split <;> simp
      | steal => simp
      | invalid => exact absurd hp hni

theorem div_mul_lt (nt len l : Nat) (hl : l < len) (hnt : 0 < nt) : nt / len * l < nt := by
  have h1 : nt / len * l ≤ nt / len * (len - 1) := Nat.mul_le_mul_left _ (by omega)
  have h2 : nt / len * len ≤ nt := Nat.div_mul_le_self nt len
  rcases Nat.eq_zero_or_pos (nt / len) with h | h
  · rw [h]; simpa using hnt
  · have : nt / len * (len - 1) < nt / len * len := Nat.mul_lt_mul_of_pos_left (by omega) h
    omega

/-- **C10 (base order).** In a drained allocator (the caller's slot holds no reservation) a
    base-order allocation succeeds whenever some tree is unreserved with a positive counter —
    in particular whenever a frame outside hidden (offline) trees is free. -/
theorem get_base_complete (ok : CfgOk c) (inv : UpperInv0 c H m) (habs : ∀ s, SlotAbsent m s) (r : Request) (ho : r.order = 0)
    (hcls : r.cls < 8) (hloc : r.locOk c) (hv : C08.ArgsValid c 0 r) (j : Nat) (hj : j < c.ntrees) (hu : Usable m j) :
    Runs m (get c none r) (fun res m' => (∃ x, res = .ok x) ∧ UpperInv0 c H m' ∧ GetOutcome c m 0 none res m') := by
  have hnt : 0 < c.ntrees := by omega
  have hchk := C08.check_valid c m 0 r hcls hv
  obtain ⟨rng, hrng⟩ := Option.isSome_iff_exists.1 hv.2.2.2.2
  have fin : ∀ (res : Res (Nat × Nat)) (m' : Mem), res ≠ .error .memory ∧ (UpperInv0 c H m' ∧ GetOutcome c m 0 none res m') →
      Runs m' (match res with
        | .error .memory => getFallback c r none
        | x => pure x) (fun res m' => (∃ x, res = .ok x) ∧ UpperInv0 c H m' ∧ GetOutcome c m 0 none res m') := by
    rintro res m' ⟨hne, inv', out⟩
    cases res with
    | ok v => exact Runs.pure ⟨⟨v, rfl⟩, inv', out⟩
    | error e => exact absurd (by rw [out.1]) hne
  have hglobal : ∀ startIdx, startIdx < c.ntrees → Runs m (Trees.searchBest c.tf c.ntrees 8 startIdx 0 c.ntrees
      (fun t free => if free < 2 ^ r.order then .invalid else c.policy r.cls t free)
      (fun i => stealGlobal c i r.cls r.order none))
      (fun res m' => res ≠ .error .memory ∧ (UpperInv0 c H m' ∧ GetOutcome c m 0 none res m')) := by
    intro startIdx hs
    rw [ho]
    apply searchBest_finds ok inv 8 startIdx (by decide) hs _ _ ?_ ?_
      (fun j hj hu => stealGlobal_succeeds ok inv j r.cls hj hcls hu) j hj hu
    · intro k f hf; simp; omega
    · intro k f hf
      have : ¬ f < 2 ^ 0 := by simp; omega
      simp only [this, if_false]
      exact ordered_ne_invalid' ok _ _ _
  unfold get
  apply Runs.bind (Runs.of_eq hchk (Q := fun x m' => x = .ok () ∧ m = m') ⟨rfl, rfl⟩)
  rintro _ _ ⟨rfl, rfl⟩
  simp only
  apply Runs.bind (classLocals_runs m r.cls hcls (fun x m' => x = some rng.2 ∧ m = m') (by rw [hrng]; exact ⟨rfl, rfl⟩))
  rintro _ _ ⟨rfl, rfl⟩
  have hfirst : Runs m (getFirst c r (some rng.2))
      (fun res m' => res ≠ .error .memory ∧ (UpperInv0 c H m' ∧ GetOutcome c m 0 none res m')) := by
    unfold getFirst
    simp only [Option.getD_some]
    cases hl : r.loc with
    | none =>
      simp only [Option.getD_none, Nat.mul_zero]
      exact hglobal 0 hnt
    | some l =>
      have hllt := hloc l rng hl hrng
      have hlen : ¬ rng.2 = 0 := by omega
      simp only [Option.getD_some, hlen, if_false]
      have hsi : c.ntrees / rng.2 * l < c.ntrees := div_mul_lt _ _ _ hllt hnt
      by_cases hcond : (decide (rng.2 > 0) && decide (rng.2 < c.ntrees)) = true
      · rw [if_pos hcond]
        apply Runs.bind (getLocal_absent ok inv r.order r.cls l none hcls rng hrng hllt (habs _))
        rintro _ _ ⟨rfl, rfl⟩
        simp only [Option.getD_none]
        rw [ho]
        exact searchAndReserve_finds ok inv r.cls l _ hcls rng hrng (by omega) hsi j hj hu
      · rw [if_neg hcond]
        exact hglobal _ hsi
  apply Runs.bind hfirst
  intro res m' h
  rw [ho] at *
  exact fin res m' h

end
end LLFree
