/-
  The class reported by a successful allocation is admissible for the request, under
  adversarial memory (hence in every interleaving): structural reasoning with `Always`.
-/
import LLFreeV.Proofs.Always
import LLFreeV.Model.Upper
namespace LLFree
open Prog

/-- `got` is the requested class, or a class the policy rates as match or stealable for it -/
def Adm (policy : PolicyFn) (req got : Nat) : Prop :=
  got = req ∨ ∃ free, policy req got free = .steal ∨ ∃ p, policy req got free = .match p

/-- predicate on the result of `get` -/
def ClsOk (policy : PolicyFn) (req : Nat) : Res (Nat × Nat) → Prop
  | .ok (_, k) => Adm policy req k
  | .error _ => True

section
variable (c : Cfg)

theorem tput_always (i free : Nat) : Always (fun _ => True) (tput c i free) := Always.true _
theorem tunreserve_always (i free cls : Nat) : Always (fun _ => True) (tunreserve c i free cls) := Always.true _

theorem tree_steal_cls (t e : Tree) (cls free : Nat) (h : t.steal cls free c.policy = some e) :
    Adm c.policy cls e.cls := by
  unfold Tree.steal at h
  split at h
  · split at h
    · injection h with h; subst h; exact Or.inl rfl
    · split at h
      · cases h
      · injection h with h; subst h; exact Or.inl rfl
    · rename_i hp
      injection h with h; subst h
      exact Or.inr ⟨free, Or.inl hp⟩
    · cases h
  · cases h

theorem trees_steal_always (i cls free : Nat) :
    Always (fun r => ∀ k, r = some k → Adm c.policy cls k) (Trees.steal c.policy i cls free) := by
  unfold Trees.steal
  simp only [always_bind_iff, always_tryUpdate]
  intro v
  refine ⟨fun _ => by simp, fun n hn => ?_⟩
  simp only [] at hn
  have hn' : Tree.steal v cls free c.policy = some n := by
    cases h : Tree.steal v cls free c.policy with
    | none => rw [h] at hn; cases hn
    | some e => rw [h] at hn; injection hn with hn; rw [hn]
  simp only [always_ret, hn', always_pure]
  intro k hk
  injection hk with hk; subst hk
  exact tree_steal_cls c v n cls free hn'

theorem stealGlobal_always (i cls order : Nat) (frame : Option Nat) :
    Always (ClsOk c.policy cls) (stealGlobal c i cls order frame) := by
  unfold stealGlobal
  rw [always_bind_iff]
  apply Always.mono _ _ (trees_steal_always c i cls (2 ^ order))
  intro r hr
  cases r with
  | none => simp [ClsOk]
  | some k =>
    simp only [always_bind_iff]
    apply Always.mono _ _ (Always.true _)
    intro lr _
    cases lr with
    | ok f => simp [ClsOk]; exact hr k rfl
    | error e =>
      simp only [always_bind_iff]
      apply Always.mono _ _ (tput_always c _ _)
      intro _ _; simp [ClsOk]

theorem tree_reserveOrSteal_cls (t n : Tree) (cls free : Nat)
    (h : t.reserveOrSteal c.tf free c.policy cls = .set n) : Adm c.policy cls n.cls := by
  unfold Tree.reserveOrSteal at h
  split at h
  · split at h
    · split at h
      · unfold Tree.with at h
        split at h
        · cases h
        · split at h
          · cases h
          · injection h with h; subst h; exact Or.inl rfl
      · rename_i hp _
        injection h with h; subst h
        exact Or.inr ⟨free, Or.inr ⟨_, hp⟩⟩
    · split at h
      · unfold Tree.with at h
        split at h
        · cases h
        · split at h
          · cases h
          · injection h with h; subst h; exact Or.inl rfl
      · cases h
    · rename_i hp
      injection h with h; subst h
      exact Or.inr ⟨free, Or.inl hp⟩
    · cases h
  · cases h

theorem trees_reserveOrSteal_always (i cls free : Nat) :
    Always (fun r => ∀ x, r = some x → Adm c.policy cls x.2.2) (Trees.reserveOrSteal c.tf c.policy i cls free) := by
  unfold Trees.reserveOrSteal
  simp only [always_bind_iff, always_updK]
  intro v
  refine ⟨fun _ => by simp, fun n hn => ?_⟩
  simp only [] at hn
  simp only [always_ret, hn, always_pure]
  intro x hx
  injection hx with hx; subst hx
  exact tree_reserveOrSteal_cls c v n cls free hn

theorem reserveOrSteal_always (i order cls loc : Nat) :
    Always (ClsOk c.policy cls) (reserveOrSteal c i order cls loc) := by
  unfold reserveOrSteal
  rw [always_bind_iff]
  apply Always.mono _ _ (trees_reserveOrSteal_always c i cls (2 ^ order))
  intro r hr
  cases r with
  | none => simp [ClsOk]
  | some x =>
    obtain ⟨reserved, free, tcls⟩ := x
    have hadm : Adm c.policy cls tcls := hr _ rfl
    simp only [always_bind_iff]
    apply Always.mono _ _ (Always.true _)
    intro lr _
    cases lr with
    | ok f =>
      simp only
      split
      · simp only [always_bind_iff]
        apply Always.mono _ _ (Always.true _)
        intro cl _
        cases cl with
        | none => simp
        | some classLen =>
          simp only
          split
          · simp
          · split
            · simp
            · simp only [always_bind_iff]
              apply Always.mono _ _ (Always.true _)
              intro old _
              cases old with
              | none => simpa [ClsOk] using hadm
              | some o =>
                simp only [always_bind_iff]
                apply Always.mono _ _ (tunreserve_always c _ _ _)
                intro _ _; simpa [ClsOk] using hadm
      · simpa [ClsOk] using hadm
    | error e =>
      simp only
      split
      · simp only [always_bind_iff]
        apply Always.mono _ _ (tunreserve_always c _ _ _)
        intro _ _; simp [ClsOk]
      · simp only [always_bind_iff]
        apply Always.mono _ _ (tput_always c _ _)
        intro _ _; simp [ClsOk]

end
end LLFree

namespace LLFree
open Prog
section
variable (c : Cfg)

/-- result predicate of `get_local`: a success reports exactly the requested class -/
def LocalOk (cls : Nat) : LocalRes → Prop
  | .ok (_, k) => k = cls
  | .error _ => True

theorem getLocalNoSync_always (order cls loc : Nat) (frame : Option Nat) :
    Always (LocalOk cls) (getLocalNoSync c order cls loc frame) := by
  unfold getLocalNoSync
  simp only [always_bind_iff]
  apply Always.mono _ _ (Always.true _)
  intro r _
  match r with
  | .ok row =>
    simp only [always_bind_iff]
    apply Always.mono _ _ (Always.true _)
    intro lr _
    cases lr with
    | ok f =>
      simp only
      split
      · simp only [always_bind_iff]
        apply Always.mono _ _ (Always.true _)
        intro _ _; simp [LocalOk]
      · simp [LocalOk]
    | error e =>
      simp only [always_bind_iff]
      apply Always.mono _ _ (tput_always c _ _)
      intro _ _; simp [LocalOk]
  | .error (some res) => simp [LocalOk]
  | .error none => simp [LocalOk]

theorem getLocal_always (order cls loc : Nat) (frame : Option Nat) :
    Always (LocalOk cls) (getLocal c order cls loc frame) := by
  unfold getLocal
  simp only [always_bind_iff]
  apply Always.mono _ _ (Always.true _)
  intro r _
  match r with
  | .ok row =>
    simp only [always_bind_iff]
    apply Always.mono _ _ (Always.true _)
    intro lr _
    cases lr with
    | ok f =>
      simp only
      split
      · simp only [always_bind_iff]
        apply Always.mono _ _ (Always.true _)
        intro _ _; simp [LocalOk]
      · simp [LocalOk]
    | error e =>
      simp only [always_bind_iff]
      apply Always.mono _ _ (tput_always c _ _)
      intro _ _; simp [LocalOk]
  | .error (some res) =>
    simp only
    split
    · simp only [always_bind_iff]
      apply Always.mono _ _ (Always.true _)
      intro s _
      cases s with
      | some free =>
        simp only [always_bind_iff]
        apply Always.mono _ _ (Always.true _)
        intro ok _
        split
        · exact getLocalNoSync_always c order cls loc frame
        · simp only [always_bind_iff]
          apply Always.mono _ _ (tput_always c _ _)
          intro _ _; simp [LocalOk]
      | none => simp [LocalOk]
    · simp [LocalOk]
  | .error none => simp [LocalOk]

/-- a search returns what an access returned, or `Memory` -/
theorem searchBest_always {β : Type} (P : Res β → Prop) (hmem : P (.error .memory))
    (tf ntrees nbuf start offset len : Nat) (rate : Nat → Nat → Policy) (access : Nat → Prog (Res β))
    (hacc : ∀ i, Always P (access i)) :
    Always P (Trees.searchBest tf ntrees nbuf start offset len rate access) := by
  unfold Trees.searchBest
  have htry : ∀ l : Best, Always P (Trees.searchBest.tryBest access l) := by
    intro l
    induction l with
    | nil => exact hmem
    | cons x rest ih =>
      obtain ⟨_, i⟩ := x
      rw [Trees.searchBest.tryBest]
      simp only [always_bind_iff]
      apply Always.mono _ _ (hacc i)
      intro r hr
      split
      · exact ih
      · exact hr
  suffices h : ∀ cnt i best, Always P (Trees.searchBest.scan tf ntrees nbuf start rate access cnt i best) from h _ _ _
  intro cnt
  induction cnt with
  | zero => intro i best; rw [Trees.searchBest.scan]; exact htry _
  | succ cnt ih =>
    intro i best
    rw [Trees.searchBest.scan]
    split
    · simp
    · simp only [always_bind_iff]
      intro tree
      show Always P _
      split
      · exact ih _ _
      · split
        · simp only [always_bind_iff]
          apply Always.mono _ _ (hacc _)
          intro r hr
          split
          · exact ih _ _
          · exact hr
        · exact ih _ _
        · exact ih _ _

theorem searchAndReserve_always (order cls loc start : Nat) :
    Always (ClsOk c.policy cls) (searchAndReserve c order cls loc start) := by
  unfold searchAndReserve
  have hros : ∀ i, Always (ClsOk c.policy cls) (reserveOrSteal c i order cls loc) :=
    fun i => reserveOrSteal_always c i order cls loc
  have hmem : ClsOk c.policy cls (.error .memory) := by simp [ClsOk]
  simp only [always_bind_iff]
  have hfirst : ∀ (p : Prog (Res (Nat × Nat))), Always (ClsOk c.policy cls) p →
      Always (fun r1 => Always (ClsOk c.policy cls)
        (match r1 with
        | .error .memory =>
          Trees.searchBest c.tf c.ntrees 8
            (start / nextPow2 (2 * max (c.ntrees / 16) 4) * nextPow2 (2 * max (c.ntrees / 16) 4)) 0 c.ntrees
            (fun t f => match rateBase c cls order t f with
              | .match _ => .match 255
              | .demote => if f = c.tf then .match 255 else .demote
              | p => p) (fun i => reserveOrSteal c i order cls loc)
        | r => pure r)) p := by
    intro p hp
    refine Always.mono ?_ _ hp
    intro r1 hr1
    split
    · exact searchBest_always _ hmem _ _ _ _ _ _ _ _ hros
    · simpa using hr1
  apply hfirst
  split
  · exact searchBest_always _ hmem _ _ _ _ _ _ _ _ hros
  · simpa using hmem

theorem locals_get_always (cls loc : Nat) (tree : Option Nat) (free : Nat) :
    Always (fun _ => True) (Locals.get c cls loc tree free) := Always.true _

theorem stealAny_always (cls : Nat) (index tree : Option Nat) (free : Nat) :
    Always (fun r => ∀ res, r = some res → Adm c.policy cls res.cls) (Locals.stealAny c cls index tree free) := by
  unfold Locals.stealAny
  have hslots : ∀ tc rng, Adm c.policy cls tc → ∀ cnt j,
      Always (fun r => ∀ res, r = some res → Adm c.policy cls res.cls)
        (Locals.stealAny.slots c tree free (index.getD 0) tc rng cnt j) := by
    intro tc rng hadm cnt
    induction cnt with
    | zero => intro j; rw [Locals.stealAny.slots]; simp
    | succ cnt ih =>
      intro j
      rw [Locals.stealAny.slots]
      simp only [always_bind_iff]
      apply Always.mono _ _ (Always.true _)
      intro r _
      cases r with
      | ok row => simp only [always_pure]; intro res hres; injection hres with hres; subst hres; exact hadm
      | error e => exact ih _
  suffices h : ∀ cnt i, Always (fun r => ∀ res, r = some res → Adm c.policy cls res.cls)
      (Locals.stealAny.classes c cls tree free (index.getD 0) cnt i) from h _ _
  intro cnt
  induction cnt with
  | zero => intro i; rw [Locals.stealAny.classes]; simp
  | succ cnt ih =>
    intro i
    rw [Locals.stealAny.classes]
    split
    · exact ih _
    · rename_i rng _
      split
      · rename_i hp
        simp only [always_bind_iff]
        apply Always.mono _ _ (hslots _ rng (Or.inr ⟨free, Or.inl hp⟩) _ _)
        intro r hr
        cases r with
        | some x => simpa using hr
        | none => exact ih _
      · rename_i p hp
        simp only [always_bind_iff]
        apply Always.mono _ _ (hslots _ rng (Or.inr ⟨free, Or.inr ⟨p, hp⟩⟩) _ _)
        intro r hr
        cases r with
        | some x => simpa using hr
        | none => exact ih _
      · exact ih _

theorem stealLocal_always (r : Request) (frame : Option Nat) :
    Always (ClsOk c.policy r.cls) (stealLocal c r frame) := by
  unfold stealLocal
  simp only [always_bind_iff]
  apply Always.mono _ _ (stealAny_always c r.cls r.loc (frame.map (· / c.tf)) (2 ^ r.order))
  intro s hs
  cases s with
  | none => simp [ClsOk]
  | some res =>
    simp only [always_bind_iff]
    apply Always.mono _ _ (Always.true _)
    intro lr _
    match lr with
    | .error .memory =>
      simp only [always_bind_iff]
      apply Always.mono _ _ (tput_always c _ _)
      intro _ _; simp [ClsOk]
    | .error .argument => simp [ClsOk]
    | .error .initialization => simp [ClsOk]
    | .ok f => simp only [always_pure, ClsOk]; exact hs res rfl

theorem demoteLocal_always (r : Request) (frame : Option Nat) :
    Always (ClsOk c.policy r.cls) (demoteLocal c r frame) := by
  unfold demoteLocal
  simp only [always_bind_iff]
  apply Always.mono _ _ (Always.true _)
  intro d _
  cases d with
  | none => simp [ClsOk]
  | some x =>
    obtain ⟨row, old⟩ := x
    simp only [always_bind_iff]
    apply Always.mono _ _ (Always.true _)
    intro _ _
    apply Always.mono _ _ (Always.true _)
    intro lr _
    match lr with
    | .error .memory =>
      simp only [always_bind_iff]
      apply Always.mono _ _ (tput_always c _ _)
      intro _ _; simp [ClsOk]
    | .error .argument => simp [ClsOk]
    | .error .initialization => simp [ClsOk]
    | .ok f => simp [ClsOk, Adm]

theorem getFallback_always (r : Request) (frame : Option Nat) :
    Always (ClsOk c.policy r.cls) (getFallback c r frame) := by
  unfold getFallback
  simp only [always_bind_iff]
  refine Always.mono ?_ _ (stealLocal_always c r frame)
  intro s hs
  split
  · exact demoteLocal_always c r frame
  · simpa using hs

theorem getAt_always (frame : Nat) (r : Request) :
    Always (ClsOk c.policy r.cls) (getAt c frame r) := by
  unfold getAt
  simp only [always_bind_iff]
  have hloc : Always (fun v => ∀ x, v = some x → ClsOk c.policy r.cls x) (getAtLocal c frame r) := by
    unfold getAtLocal
    split
    · simp only [always_bind_iff]
      refine Always.mono ?_ _ (getLocal_always c r.order r.cls _ (some frame))
      intro lr hlr
      split
      · simp
      · simp [ClsOk]
      · rename_i x
        obtain ⟨f, k⟩ := x
        simp only [always_pure]
        intro y hy; injection hy with hy; subst hy
        simp only [LocalOk] at hlr
        simp [ClsOk, Adm, hlr]
    · simp
  refine Always.mono ?_ _ hloc
  intro v hv
  cases v with
  | some x => simpa using hv x rfl
  | none =>
    simp only [always_bind_iff]
    refine Always.mono ?_ _ (stealGlobal_always c _ r.cls r.order (some frame))
    intro g1 hg1
    split
    · exact getFallback_always c r (some frame)
    · simpa using hg1

theorem getFirst_always (r : Request) (cl : Option Nat) :
    Always (ClsOk c.policy r.cls) (getFirst c r cl) := by
  unfold getFirst
  have hmem : ClsOk c.policy r.cls (.error .memory) := by simp [ClsOk]
  have hglobal : ∀ start, Always (ClsOk c.policy r.cls)
      (Trees.searchBest c.tf c.ntrees 8 start 0 c.ntrees
        (fun t free => if free < 2 ^ r.order then .invalid else c.policy r.cls t free)
        (fun i => stealGlobal c i r.cls r.order none)) :=
    fun start => searchBest_always _ hmem _ _ _ _ _ _ _ _ (fun i => stealGlobal_always c i r.cls r.order none)
  simp only []
  split
  · split
    · simp only [always_bind_iff]
      refine Always.mono ?_ _ (getLocal_always c r.order r.cls _ none)
      intro lr hlr
      split
      · rename_i x
        obtain ⟨f, k⟩ := x
        simp only [LocalOk] at hlr
        simp [ClsOk, Adm, hlr]
      · exact searchAndReserve_always c _ _ _ _
      · simp [ClsOk]
    · exact hglobal _
  · exact hglobal _

end
end LLFree
