/-
  Arithmetic of the per-class statistics table and the pass of `Trees::stats` over the tree array
  (moved here from Props/C14.lean so that Proofs/TreeStats.lean can use it).
-/
import LLFreeV.Proofs.MemLemmas
import LLFreeV.Model.Upper
namespace LLFree.C14
open LLFree Prog

/-- Σ_c (free_c + alloc_c) -/
def classSum (l : List (Nat × Nat)) : Nat := (l.map (fun p => p.1 + p.2)).sum
/-- Σ_c free_c -/
def classFree (l : List (Nat × Nat)) : Nat := (l.map (·.1)).sum

theorem sum_modify (l : List (Nat × Nat)) (i : Nat) (hi : i < l.length) (f : Nat × Nat → Nat × Nat) (g : Nat × Nat → Nat)
    (d : Nat) (h : ∀ p, g (f p) = g p + d) : ((l.modify i f).map g).sum = (l.map g).sum + d := by
  induction l generalizing i with
  | nil => simp at hi
  | cons x xs ih =>
    cases i with
    | zero => simp [List.modify, h x]; omega
    | succ i =>
      simp only [List.modify_succ_cons, List.map_cons, List.sum_cons]
      rw [ih i (by simpa using hi)]; omega

theorem class_sum_addClass (s : TreeStats) (cls : Nat) (hc : cls < s.classes.length) (f a : Nat) :
    classSum (s.addClass cls (fun p => (p.1 + f, p.2 + a))).classes = classSum s.classes + (f + a) ∧
    classFree (s.addClass cls (fun p => (p.1 + f, p.2 + a))).classes = classFree s.classes + f := by
  unfold classSum classFree TreeStats.addClass
  constructor
  · exact sum_modify _ _ hc _ _ _ (fun p => by simp; omega)
  · exact sum_modify _ _ hc _ _ _ (fun p => by simp)

theorem length_addClass (s : TreeStats) (cls : Nat) (f : Nat × Nat → Nat × Nat) :
    (s.addClass cls f).classes.length = s.classes.length := by
  simp [TreeStats.addClass]

/-- the loop of `Trees::stats` -/
theorem trees_stats_go (c : Cfg) (m : Mem) (hcls : ∀ t ∈ m.trees.toList, t.cls < 8 ∧ t.free ≤ c.tf) :
    ∀ (cnt i : Nat) (s : TreeStats), i + cnt ≤ m.trees.size → s.classes.length = 8 →
      ∃ s', runSolo (Trees.stats.go c cnt i s) m = (m, .ok s') ∧ s'.classes.length = 8 ∧
        classSum s'.classes = classSum s.classes + cnt * c.tf ∧
        classFree s'.classes + s.freeFrames = classFree s.classes + s'.freeFrames := by
  intro cnt
  induction cnt with
  | zero =>
    intro i s _ hl
    exact ⟨s, by rw [Trees.stats.go]; rfl, hl, by simp, by omega⟩
  | succ cnt ih =>
    intro i s hsz hl
    rw [Trees.stats.go]
    have hlt : i < m.trees.size := by omega
    have hE : m.get? .tree i = some m.trees[i] := by simp only [Mem.get?_tree]; exact Array.getElem?_eq_getElem hlt
    obtain ⟨hc8, hfree⟩ := hcls m.trees[i] (by simp [Array.mem_toList_iff])
    simp only [runSolo_bind, runSolo_loadK_some hE, andThen_ok]
    have hnot : ¬ m.trees[i].free > c.tf := by omega
    simp only [hnot, if_false]
    let s1 : TreeStats := { s with freeFrames := s.freeFrames + m.trees[i].free,
                                   freeTrees := s.freeTrees + m.trees[i].free / c.tf }
    obtain ⟨s', hrun, hl', hsum, hfr⟩ := ih (i + 1)
      (s1.addClass m.trees[i].cls (fun p => (p.1 + m.trees[i].free, p.2 + (c.tf - m.trees[i].free))))
      (by omega) (by rw [length_addClass]; exact hl)
    refine ⟨s', hrun, hl', ?_, ?_⟩
    · have := (class_sum_addClass s1 m.trees[i].cls (by show _ < s.classes.length; omega) m.trees[i].free (c.tf - m.trees[i].free)).1
      rw [hsum, this]
      show classSum s.classes + _ + _ = _
      rw [Nat.add_mul, Nat.one_mul]; omega
    · have := (class_sum_addClass s1 m.trees[i].cls (by show _ < s.classes.length; omega) m.trees[i].free (c.tf - m.trees[i].free)).2
      rw [this] at hfr
      have e1 : (s1.addClass m.trees[i].cls (fun p => (p.1 + m.trees[i].free, p.2 + (c.tf - m.trees[i].free)))).freeFrames =
          s.freeFrames + m.trees[i].free := rfl
      rw [e1] at hfr
      have e2 : classFree s1.classes = classFree s.classes := rfl
      omega

/-- **C14 (tree array part).** -/
theorem trees_stats_partition (c : Cfg) (m : Mem) (hsz : m.trees.size = c.ntrees)
    (hcls : ∀ t ∈ m.trees.toList, t.cls < 8 ∧ t.free ≤ c.tf) :
    ∃ s, runSolo (Trees.stats c) m = (m, .ok s) ∧
      classSum s.classes = c.ntrees * c.tf ∧ classFree s.classes = s.freeFrames := by
  unfold Trees.stats
  obtain ⟨s, hrun, _, hsum, hfr⟩ := trees_stats_go c m hcls c.ntrees 0 {} (by omega) (by simp)
  refine ⟨s, hrun, ?_, ?_⟩
  · rw [hsum]; simp [classSum]
  · have : classFree ({} : TreeStats).classes = 0 := by simp [classFree]
    simp only [this] at hfr
    have h0 : ({} : TreeStats).freeFrames = 0 := rfl
    omega

end LLFree.C14
