/-
  `Trees::new`: from a lower allocator satisfying its invariant (after `free_all`,
  `reserve_all`, `recover`, or a handed-over buffer) and empty local slots, initialising the tree
  counters establishes the upper invariant with nothing hidden.
-/
import LLFreeV.Proofs.UpperGet6
namespace LLFree
open Prog

section
variable {c : Cfg}

theorem slotFree_zero_of_absent (m : Mem) (tr i : Nat) (h : ∀ s, SlotAbsent m s) : m.slotFree tr i = 0 := by
  unfold Mem.slotFree
  apply sum_eq_zero_of_all_zero
  intro x hx
  obtain ⟨l, hl, rfl⟩ := List.mem_map.1 hx
  obtain ⟨s, hs, hsl⟩ := List.getElem_of_mem hl
  have hget : m.slots[s]? = some l := by
    rw [Array.getElem?_eq_getElem (by simpa using hs)]
    simp only [Array.getElem_toList] at hsl
    rw [hsl]
  exact LTree.freeFor_absent _ _ l (h s l hget)

/-- the loop of `Trees::new` -/
theorem trees_init_go_spec (ok : CfgOk c) (cnt i : Nat) (hi : i + cnt = c.ntrees) (m : Mem) (inv : LowerInv c m)
    (hsz : m.trees.size = c.ntrees) :
    Runs m (Trees.init.go c cnt i) (fun _ m' => SameAlloc m m' ∧ m'.slots = m.slots ∧ m'.trees.size = c.ntrees ∧
      (∀ j, j < i → m'.trees[j]? = m.trees[j]?) ∧
      ∀ j, i ≤ j → j < c.ntrees → m'.trees[j]? = some ⟨m.freeInTree c.geom j, false, c.dflt⟩) := by
  have okg := ok.geom.toGeomOk
  induction cnt generalizing i m with
  | zero =>
    unfold Trees.init.go
    exact Runs.pure ⟨SameAlloc.refl _, rfl, hsz, fun _ _ => rfl, fun j h1 h2 => by omega⟩
  | succ cnt ih =>
    unfold Trees.init.go
    have hilt : i < c.ntrees := by omega
    apply Runs.bind (statsAt_tree_spec okg m inv i hilt)
    rintro st _ ⟨rfl, hst⟩
    have hle := Mem.freeInTree_le m c.geom i
    have hwith : Tree.with c.tf st.freeFrames false c.dflt = .set ⟨m.freeInTree c.geom i, false, c.dflt⟩ := by
      unfold Tree.with
      rw [hst]
      have h1 : ¬ m.freeInTree c.geom i > c.tf := by show ¬ _ > c.geom.treeFrames; omega
      have h2 : Tree.clsOk c.dflt = true := by simp [Tree.clsOk, ok.dflt]
      simp only [h1, if_false, h2, Bool.not_true, Bool.false_eq_true]
    rw [hwith]
    simp only
    have hisz : i < m.trees.size := by rw [hsz]; exact hilt
    have hold : m.get? .tree i = some m.trees[i] := by simp [Array.getElem?_eq_getElem hisz]
    apply Runs.bind (Runs.store (k := .tree) (Q := fun _ m' => m.set .tree i ⟨m.freeInTree c.geom i, false, c.dflt⟩ = m')
      _ hold rfl)
    rintro _ _ rfl
    have inv1 : LowerInv c (m.set .tree i ⟨m.freeInTree c.geom i, false, c.dflt⟩) := inv.congr rfl rfl
    have hsz1 : (m.set .tree i ⟨m.freeInTree c.geom i, false, c.dflt⟩).trees.size = c.ntrees := by
      simp only [Mem.set_tree_trees, Array.size_setIfInBounds]; exact hsz
    apply Runs.mono (ih (i + 1) (by omega) _ inv1 hsz1)
    rintro _ m2 ⟨same, hslots, hsize, hlow, hhigh⟩
    have hfree : ∀ j, (m.set .tree i ⟨m.freeInTree c.geom i, false, c.dflt⟩).freeInTree c.geom j = m.freeInTree c.geom j :=
      fun j => Mem.freeInTree_congr c.geom m _ rfl rfl j
    refine ⟨⟨same.1, same.2⟩, hslots, hsize, ?_, ?_⟩
    · intro j hj
      rw [hlow j (by omega)]
      simp only [Mem.set_tree_trees, Array.getElem?_setIfInBounds]
      have : ¬ i = j := by omega
      simp [this]
    · intro j h1 h2
      by_cases e : j = i
      · subst e
        rw [hlow j (by omega)]
        simp [Mem.set_tree_trees, hisz]
      · rw [hhigh j (by omega) h2, hfree]

/-- **`Trees::new` establishes the upper invariant** (nothing hidden, no reservation). -/
theorem trees_init_spec (ok : CfgOk c) (m : Mem) (inv : LowerInv c m) (hsz : m.trees.size = c.ntrees)
    (hss : m.slots.size = c.nslots) (habs : ∀ s, SlotAbsent m s) :
    Runs m (Trees.init c) (fun _ m' => UpperInv0 c (fun _ => 0) m' ∧ SameAlloc m m') := by
  unfold Trees.init
  apply Runs.mono (trees_init_go_spec ok c.ntrees 0 (by omega) m inv hsz)
  rintro _ m' ⟨same, hslots, hsize, _, htrees⟩
  have habs' : ∀ s, SlotAbsent m' s := by intro s l hl; rw [hslots] at hl; exact habs s l hl
  have hfree : ∀ j, m'.freeInTree c.geom j = m.freeInTree c.geom j := fun j => Mem.freeInTree_congr c.geom m m' same.1 same.2 j
  have htree : ∀ (i : Nat) (t : Tree), m'.trees[i]? = some t → t = ⟨m.freeInTree c.geom i, false, c.dflt⟩ := by
    intro i t ht
    have hi : i < c.ntrees := by rw [← hsize]; exact (Array.getElem?_eq_some_iff.1 ht).1
    rw [htrees i (Nat.zero_le _) hi] at ht
    cases ht; rfl
  refine ⟨?_, same⟩
  exact {
    lower := inv.congr same.1 same.2
    treesSize := hsize
    slotsSize := by rw [hslots]; exact hss
    treeCls := by intro i t ht; rw [htree i t ht]; exact ok.dflt
    slotTree := by intro s l k hl hp; rw [habs' s l hl] at hp; cases hp
    slotCls := by intro s l hl hp; rw [habs' s l hl] at hp; cases hp
    slotInj := by intro s s' l l' hl _ hp; rw [habs' s l hl] at hp; cases hp
    slotNotR := by intro s l hl hp; rw [habs' s l hl] at hp; cases hp
    resSlot := by intro i t ht hr; rw [htree i t ht] at hr; cases hr
    counter := by
      intro i t ht
      rw [htree i t ht, slotFree_zero_of_absent m' _ i habs', hfree]; rfl }

/-! ### every sequential history -/

/-- the mutating calls of the public interface (plus the exact statistics) -/
inductive Call where
  | get (frame : Option Nat) (r : Request)
  | put (frame : Nat) (r : Request)
  | drain
  | change (mid mcls : Option Nat) (mfree : Nat) (ccls : Option Nat) (op : Option Tree.Op)
  | stats

/-- valid parameters: class ids 0..7, a slot index below the class's slot count (or none);
    frames, orders and alignment may be anything (they are checked by the call) -/
def Call.valid (c : Cfg) : Call → Prop
  | .get _ r => r.cls < 8 ∧ r.locOk c
  | .put _ r => r.cls < 8 ∧ r.locOk c
  | .drain => True
  | .change _ _ _ ccls _ => ∀ k, ccls = some k → k < 8
  | .stats => True

def Call.prog (c : Cfg) : Call → Prog Unit
  | .get frame r => do let _ ← LLFree.get c frame r; pure ()
  | .put frame r => do let _ ← LLFree.put c frame r; pure ()
  | .drain => LLFree.drain c
  | .change mid mcls mfree ccls op => do let _ ← changeTree c mid mcls mfree ccls op; pure ()
  | .stats => do let _ ← LLFree.stats c; pure ()

def runCalls (c : Cfg) : List Call → Prog Unit
  | [] => pure ()
  | x :: xs => do x.prog c; runCalls c xs

/-- one call keeps the invariant (for some set of hidden trees) and never panics -/
theorem call_safe (ok : CfgOk c) (H : Nat → Nat) (m : Mem) (inv : UpperInv0 c H m) (x : Call) (hx : x.valid c) :
    Runs m (x.prog c) (fun _ m' => ∃ H', UpperInv0 c H' m') := by
  cases x with
  | get frame r =>
    obtain ⟨hcls, hloc⟩ := hx
    unfold Call.prog
    by_cases hv : C08.ArgsValid c (frame.getD 0) r
    · apply Runs.bind (upper_get_spec ok inv frame r hcls hloc hv)
      rintro _ m' ⟨inv', _⟩
      exact Runs.pure ⟨H, inv'⟩
    · apply Runs.bind (Runs.of_eq (C08.get_invalid_rejected c m frame r hcls hv) (Q := fun _ m' => m = m') rfl)
      rintro _ _ rfl
      exact Runs.pure ⟨H, inv⟩
  | put frame r =>
    obtain ⟨hcls, hloc⟩ := hx
    unfold Call.prog
    by_cases hv : C08.ArgsValid c frame r
    · obtain ⟨h1, h2⟩ := upper_put_spec ok inv frame r hcls hloc hv
      by_cases ha : PutAllowed c m frame r.order
      · apply Runs.bind (h1 ha)
        rintro _ m' ⟨_, inv', _⟩
        exact Runs.pure ⟨H, inv'⟩
      · apply Runs.bind (h2 ha)
        rintro _ _ ⟨_, rfl⟩
        exact Runs.pure ⟨H, inv⟩
    · apply Runs.bind (Runs.of_eq (C08.put_invalid_rejected c m frame r hcls hv) (Q := fun _ m' => m = m') rfl)
      rintro _ _ rfl
      exact Runs.pure ⟨H, inv⟩
  | drain =>
    unfold Call.prog
    apply Runs.mono (drain_spec ok inv)
    rintro _ m' ⟨inv', _⟩
    exact ⟨H, inv'⟩
  | change mid mcls mfree ccls op =>
    unfold Call.prog
    apply Runs.bind (changeTree_spec ok inv mid mcls mfree ccls op hx)
    rintro _ m' ⟨_, H', i, post, _⟩
    exact Runs.pure ⟨H', post.inv⟩
  | stats =>
    unfold Call.prog LLFree.stats
    apply Runs.bind (lower_stats_spec ok.geom.toGeomOk m inv.lower)
    rintro _ _ ⟨rfl, _⟩
    exact Runs.pure ⟨H, inv⟩

/-- **Every sequential history of valid-parameter calls** from a state satisfying the upper
    invariant runs to completion without a panic and ends in a state satisfying the invariant. -/
theorem calls_safe (ok : CfgOk c) (calls : List Call) (hvalid : ∀ x ∈ calls, x.valid c) (H : Nat → Nat) (m : Mem)
    (inv : UpperInv0 c H m) :
    Runs m (runCalls c calls) (fun _ m' => ∃ H', UpperInv0 c H' m') := by
  induction calls generalizing H m with
  | nil => exact Runs.pure ⟨H, inv⟩
  | cons x xs ih =>
    unfold runCalls
    apply Runs.bind (call_safe ok H m inv x (hvalid x (by simp)))
    rintro _ m1 ⟨H1, inv1⟩
    exact ih (fun y hy => hvalid y (by simp [hy])) H1 m1 inv1

/-- … in particular from a freshly constructed allocator (`Trees::new` over a lower allocator
    satisfying its invariant and empty local slots). -/
theorem calls_safe_from_init (ok : CfgOk c) (calls : List Call) (hvalid : ∀ x ∈ calls, x.valid c) (m : Mem)
    (inv : LowerInv c m) (hsz : m.trees.size = c.ntrees) (hss : m.slots.size = c.nslots) (habs : ∀ s, SlotAbsent m s) :
    Runs m (do Trees.init c; runCalls c calls) (fun _ m' => ∃ H', UpperInv0 c H' m') := by
  apply Runs.bind (trees_init_spec ok m inv hsz hss habs)
  rintro _ m1 ⟨inv1, _⟩
  exact calls_safe ok calls hvalid _ m1 inv1

end
end LLFree
