/-
  Sequential specification of `Bitfield::toggle` (all orders), at frame level.
-/
import LLFreeV.Proofs.MemLemmas
import LLFreeV.Proofs.Geom
namespace LLFree
open Prog

/-- `m'` differs from `m` at most in allocation bits -/
structure SameButBits (m m' : Mem) : Prop where
  huge : m'.huge = m.huge
  trees : m'.trees = m.trees
  slots : m'.slots = m.slots
  size : m'.rows.size = m.rows.size

theorem SameButBits.refl (m : Mem) : SameButBits m m := ⟨rfl, rfl, rfl, rfl⟩
theorem SameButBits.trans {a b c : Mem} (h1 : SameButBits a b) (h2 : SameButBits b c) : SameButBits a c :=
  ⟨h2.huge.trans h1.huge, h2.trees.trans h1.trees, h2.slots.trans h1.slots, h2.size.trans h1.size⟩

theorem SameButBits.set_row (m : Mem) (i : Nat) (v : BitVec 64) : SameButBits m (m.set .row i v) :=
  ⟨rfl, rfl, rfl, by simp⟩

/-- all `n` frames starting at `F` have allocation bit `v` -/
def blockAll (m : Mem) (F n : Nat) (v : Bool) : Prop := ∀ i, i < n → m.bit (F + i) = v

instance (m : Mem) (F n : Nat) (v : Bool) : Decidable (blockAll m F n v) := by
  unfold blockAll; exact Nat.decidableBallLT _ _

/-- the bits of `m'` are those of `m` with the block `[F, F+n)` set to `v` -/
def BitsSet (m m' : Mem) (F n : Nat) (v : Bool) : Prop :=
  ∀ f, m'.bit f = if F ≤ f ∧ f < F + n then v else m.bit f

/-- reading a block inside one row -/
theorem row_block_iff (m : Mem) (R sh w : Nat) (v : BitVec 64) (b : Bool) (hR : m.rows[R]? = some v)
    (hsw : sh + w ≤ 64) :
    (∀ j, j < w → v.getLsbD (sh + j) = b) ↔ blockAll m (R * 64 + sh) w b := by
  unfold blockAll Mem.bit
  constructor
  · intro h j hj
    have h1 : (R * 64 + sh + j) / 64 = R := by omega
    have h2 : (R * 64 + sh + j) % 64 = sh + j := by omega
    rw [h1, hR, h2]; exact h j hj
  · intro h j hj
    have h1 : (R * 64 + sh + j) / 64 = R := by omega
    have h2 : (R * 64 + sh + j) % 64 = sh + j := by omega
    have := h j hj
    rw [h1, hR, h2] at this; exact this

/-- writing a block inside one row -/
theorem row_write_bits (m : Mem) (R sh w : Nat) (v v' : BitVec 64) (b : Bool) (hR : m.rows[R]? = some v)
    (hsw : sh + w ≤ 64)
    (hv' : ∀ j, v'.getLsbD j = if sh ≤ j ∧ j < sh + w ∧ j < 64 then b else v.getLsbD j) :
    BitsSet m (m.set .row R v') (R * 64 + sh) w b := by
  intro f
  have hRs : R < m.rows.size := by
    have := Array.getElem?_eq_some_iff.1 hR; exact this.1
  rw [Mem.bit_set_row m R v' hRs f]
  by_cases hf : f / 64 = R
  · simp only [hf, if_true]
    rw [hv']
    have hmod : f % 64 < 64 := Nat.mod_lt _ (by decide)
    by_cases hin : sh ≤ f % 64 ∧ f % 64 < sh + w
    · have : R * 64 + sh ≤ f ∧ f < R * 64 + sh + w := by omega
      simp [hin, hmod, this]
    · have : ¬ (R * 64 + sh ≤ f ∧ f < R * 64 + sh + w) := by omega
      have h3 : ¬ (sh ≤ f % 64 ∧ f % 64 < sh + w ∧ f % 64 < 64) := fun h => hin ⟨h.1, h.2.1⟩
      simp only [h3, this, if_false]
      unfold Mem.bit; rw [hf, hR]
  · have : ¬ (R * 64 + sh ≤ f ∧ f < R * 64 + sh + w) := by omega
    simp [hf, this]

section
variable {g : Geom} (ok : GeomOk g)
include ok

/-- an aligned block of order ≤ 6 at offset `o` stays inside its row -/
theorem aligned_in_row (o order : Nat) (ho : order ≤ 6) (hal : o % 2 ^ order = 0) : o % 64 + 2 ^ order ≤ 64 := by
  have h64 : (64 : Nat) = 2 ^ (6 - order) * 2 ^ order := by
    rw [← Nat.pow_add]; have : 6 - order + order = 6 := by omega
    rw [this]
  have hpos : 0 < 2 ^ order := Nat.pos_of_ne_zero (by simp)
  -- o % 64 is a multiple of 2^order below 64
  have hdvd : 2 ^ order ∣ o % 64 := by
    have h1 : 2 ^ order ∣ o := Nat.dvd_of_mod_eq_zero hal
    have h2 : 2 ^ order ∣ 64 := ⟨2 ^ (6 - order), by rw [Nat.mul_comm]; exact h64⟩
    exact (Nat.dvd_mod_iff h2).2 h1
  obtain ⟨q, hq⟩ := hdvd
  have hlt : o % 64 < 64 := Nat.mod_lt _ (by decide)
  rw [hq, h64] at hlt
  have hq' : q < 2 ^ (6 - order) := by
    rw [Nat.mul_comm] at hlt
    exact Nat.lt_of_mul_lt_mul_right hlt
  rw [hq, h64]
  have : (q + 1) * 2 ^ order ≤ 2 ^ (6 - order) * 2 ^ order := Nat.mul_le_mul_right _ hq'
  rw [Nat.add_mul, Nat.one_mul, Nat.mul_comm q] at this
  exact this

/-- **`Bitfield::toggle`, orders 0..6** (one row). `F = h·HF + i % HF` is the global frame. -/
theorem toggle_small_spec (m : Mem) (h i order : Nat) (expected : Bool) (ho : order ≤ 6)
    (hal : (i % g.hugeFrames) % 2 ^ order = 0)
    (hrow : (h * g.rows + (i % g.hugeFrames) / 64) < m.rows.size) :
    let F := h * g.hugeFrames + i % g.hugeFrames
    if blockAll m F (2 ^ order) expected then
      ∃ m', runSolo (Bitfield.toggle g h i order expected) m = (m', .ok (.ok ())) ∧
        BitsSet m m' F (2 ^ order) (!expected) ∧ SameButBits m m'
    else runSolo (Bitfield.toggle g h i order expected) m = (m, .ok (.error .memory)) := by
  intro F
  have o := i % g.hugeFrames
  have hR : F / 64 = h * g.rows + (i % g.hugeFrames) / 64 := ok.frame_row h _
  have hB : F % 64 = i % 64 := by rw [ok.frame_bit, ok.mod_hf_mod]
  have hin : i % 64 + 2 ^ order ≤ 64 := by
    have := aligned_in_row ok (i % g.hugeFrames) order ho hal
    rwa [ok.mod_hf_mod] at this
  have hF : F = (h * g.rows + (i % g.hugeFrames) / 64) * 64 + i % 64 := by
    have := Nat.div_add_mod F 64
    rw [hR, hB] at this; omega
  obtain ⟨v, hv⟩ : ∃ v, m.rows[h * g.rows + (i % g.hugeFrames) / 64]? = some v :=
    ⟨_, Array.getElem?_eq_getElem hrow⟩
  have h2o : 2 ^ order ≤ 64 := by omega
  by_cases hle2 : order ≤ 2
  · -- try_update with a mask
    have hridx : rowIdx g h (i / 64 % g.rows) = h * g.rows + (i % g.hugeFrames) / 64 := by
      simp only [rowIdx, ok.mod_hf_div]
    have hmaskbits := fun j => bitMask_getLsbD (2 ^ order) (i % 64) j h2o
    have hblock : blockAll m F (2 ^ order) expected ↔ ∀ j, j < 2 ^ order → v.getLsbD (i % 64 + j) = expected := by
      rw [hF]; exact (row_block_iff m _ _ _ v expected hv hin).symm
    unfold Bitfield.toggle
    simp only [hle2, if_true, runSolo_bind, hridx]
    rw [runSolo_tryUpdate_some _ (by simpa using hv)]
    cases expected with
    | true =>
      simp only [if_true]
      have hcond : (v &&& bitMask (2 ^ order) (i % 64) = bitMask (2 ^ order) (i % 64)) ↔
          blockAll m F (2 ^ order) true := by
        rw [and_mask_eq_mask_iff, hblock]
        constructor
        · intro hh j hj
          apply hh
          rw [hmaskbits]; simp; omega
        · intro hh j hj
          rw [hmaskbits] at hj
          simp at hj
          have := hh (j - i % 64) (by omega)
          rwa [show i % 64 + (j - i % 64) = j by omega] at this
      by_cases hc : blockAll m F (2 ^ order) true
      · simp only [hc, if_true, hcond.2 hc, andThen_ok, runSolo_pure]
        refine ⟨_, rfl, ?_, SameButBits.set_row _ _ _⟩
        rw [hF]
        apply row_write_bits m _ _ _ v _ false hv hin
        intro j
        rw [getLsbD_and_not, hmaskbits]
        by_cases hj : i % 64 ≤ j ∧ j < i % 64 + 2 ^ order ∧ j < 64
        · simp [hj.1, hj.2.1, hj.2.2]
        · have hm : (decide (i % 64 ≤ j) && decide (j < i % 64 + 2 ^ order) && decide (j < 64)) = false := by
            apply Bool.eq_false_iff.2; intro hh; simp at hh; exact hj ⟨hh.1.1, hh.1.2, hh.2⟩
          simp [hj, hm]
      · have : ¬ (v &&& bitMask (2 ^ order) (i % 64) = bitMask (2 ^ order) (i % 64)) := fun hh => hc (hcond.1 hh)
        simp only [hc, if_false, this, andThen_ok, runSolo_pure]
    | false =>
      simp only [Bool.false_eq_true, if_false]
      have hcond : (v &&& bitMask (2 ^ order) (i % 64) = 0) ↔ blockAll m F (2 ^ order) false := by
        rw [show (0 : BitVec 64) = 0#64 from rfl, and_mask_eq_zero_iff, hblock]
        constructor
        · intro hh j hj
          apply hh
          rw [hmaskbits]; simp; omega
        · intro hh j hj
          rw [hmaskbits] at hj
          simp at hj
          have := hh (j - i % 64) (by omega)
          rwa [show i % 64 + (j - i % 64) = j by omega] at this
      by_cases hc : blockAll m F (2 ^ order) false
      · simp only [hc, if_true, hcond.2 hc, andThen_ok, runSolo_pure]
        refine ⟨_, rfl, ?_, SameButBits.set_row _ _ _⟩
        rw [hF]
        apply row_write_bits m _ _ _ v _ true hv hin
        intro j
        rw [getLsbD_or', hmaskbits]
        by_cases hj : i % 64 ≤ j ∧ j < i % 64 + 2 ^ order ∧ j < 64
        · simp [hj.1, hj.2.1, hj.2.2]
        · have hm : (decide (i % 64 ≤ j) && decide (j < i % 64 + 2 ^ order) && decide (j < 64)) = false := by
            apply Bool.eq_false_iff.2; intro hh; simp at hh; exact hj ⟨hh.1.1, hh.1.2, hh.2⟩
          simp [hj, hm]
      · have : ¬ (v &&& bitMask (2 ^ order) (i % 64) = 0) := fun hh => hc (hcond.1 hh)
        simp only [hc, if_false, this, andThen_ok, runSolo_pure]
  · -- narrow compare-exchange
    have hsh : i % g.hugeFrames % 64 / 2 ^ order * 2 ^ order = i % 64 := by
      rw [ok.mod_hf_mod]
      have hdvd : 2 ^ order ∣ i % 64 := by
        have h1 : 2 ^ order ∣ i % g.hugeFrames := Nat.dvd_of_mod_eq_zero hal
        have h2 : 2 ^ order ∣ 64 := by
          refine ⟨2 ^ (6 - order), ?_⟩
          rw [← Nat.pow_add, show order + (6 - order) = 6 by omega]
        have := (Nat.dvd_mod_iff h2).2 h1
        rwa [ok.mod_hf_mod] at this
      exact Nat.div_mul_cancel hdvd
    unfold Bitfield.toggle
    simp only [hle2, if_false, ho, if_true, runSolo_bind, rowIdx, hsh]
    rw [runSolo_casPartK_some _ _ _ _ hv]
    have hblock : blockAll m F (2 ^ order) expected ↔ ∀ j, j < 2 ^ order → v.getLsbD (i % 64 + j) = expected := by
      rw [hF]; exact (row_block_iff m _ _ _ v expected hv hin).symm
    have hebits : ∀ j, j < 2 ^ order → (if expected then lowMask (2 ^ order) else (0 : BitVec 64)).getLsbD j = expected := by
      intro j hj
      cases expected <;> simp [lowMask, getLsbD_lowMask _ _ h2o, hj]
    cases hcp : casPartVal v (i % 64) (2 ^ order) (if expected then lowMask (2 ^ order) else 0)
        (~~~(if expected then lowMask (2 ^ order) else 0)) with
    | some r =>
      obtain ⟨hold, hnew⟩ := casPartVal_some v _ _ _ _ r h2o hcp
      have hc : blockAll m F (2 ^ order) expected := by
        rw [hblock]; intro j hj; rw [hold j hj, hebits j hj]
      simp only [hc, if_true, andThen_ok, runSolo_pure]
      refine ⟨_, rfl, ?_, SameButBits.set_row _ _ _⟩
      rw [hF]
      apply row_write_bits m _ _ _ v r (!expected) hv hin
      intro j
      rw [hnew]
      by_cases hj : i % 64 ≤ j ∧ j < i % 64 + 2 ^ order ∧ j < 64
      · simp only [hj, and_self, if_true]
        rw [BitVec.getLsbD_not, hebits (j - i % 64) (by omega)]
        have : j - i % 64 < 64 := by omega
        simp [this]
      · simp [hj]
    | none =>
      have hc : ¬ blockAll m F (2 ^ order) expected := by
        rw [hblock]
        intro hall
        apply casPartVal_none v _ _ _ _ h2o hin hcp
        intro j hj; rw [hall j hj, hebits j hj]
      simp only [hc, if_false, andThen_ok, runSolo_pure]
      simp

end
end LLFree
