/-
  `LLFree::change_tree` (class changes and `Offline`) among concurrent calls.

  The legal transitions of a tree entry (`UTransT`) already cover what `change_tree` does to an
  unreserved entry: its class may change freely and its counter may go down if the frames are
  moved to the ghost `base` of the writing thread. A thread that takes a tree offline therefore
  "holds" the hidden frames for the rest of the run; at a quiescent end they appear as
  additional hidden frames `H'` of the sequential invariant.

  `Online` is excluded: its new counter is what the lower allocator reports, which may include
  frames of frees in flight — not a legal transition, and indeed the source of the known
  findings K2/K3 (`C03.k2_online_race_panics`, `C04.k3_online_race_overreports`).
-/
import LLFreeV.Proofs.ConcPutOk
import LLFreeV.Proofs.UpperChange
namespace LLFree
open Prog

/-- frames a thread keeps out of the counters in addition to its blocks -/
def UGh.plus (ug : UGh) (e : Nat → Nat) : UGh := ⟨fun i => ug.base i + e i, ug.tok⟩

@[simp] theorem UGh.plus_tok (ug : UGh) (e : Nat → Nat) : (ug.plus e).tok = ug.tok := rfl
@[simp] theorem UGh.plus_base (ug : UGh) (e : Nat → Nat) (i : Nat) : (ug.plus e).base i = ug.base i + e i := rfl
theorem UGh.plus_zero (ug : UGh) : ug.plus (fun _ => 0) = ug := by
  apply UGh.ext' <;> intro i <;> simp
theorem UGh.plus_plus (ug : UGh) (e f : Nat → Nat) : (ug.plus e).plus f = ug.plus (fun i => e i + f i) := by
  apply UGh.ext' <;> intro i <;> simp; omega
theorem UGh.addBase_eq_plus (ug : UGh) (i n : Nat) : ug.addBase i n = ug.plus (fun j => if j = i then n else 0) := by
  apply UGh.ext'
  · intro j; rw [UGh.addBase_base]; simp only [UGh.plus_base]; split <;> rfl
  · intro j; rfl
theorem UGh.addBase_plus (ug : UGh) (e : Nat → Nat) (i n : Nat) : (ug.plus e).addBase i n = (ug.addBase i n).plus e := by
  apply UGh.ext'
  · intro j; simp only [UGh.addBase_base, UGh.plus_base]; split <;> omega
  · intro j; rfl
theorem UGh.subBase_plus (ug : UGh) (e : Nat → Nat) (i n : Nat) (h : n ≤ ug.base i) : (ug.plus e).subBase i n = (ug.subBase i n).plus e := by
  apply UGh.ext'
  · intro j; simp only [UGh.subBase_base, UGh.plus_base]; split
    · rename_i hj; subst hj; omega
    · rfl
  · intro j; rfl

section
variable {α : Type} {c : Cfg}

theorem UTransT.frame {ug ug' : UGh} {i : Nat} {old new : Tree} (e : Nat → Nat) (h : UTransT ug ug' i old new) :
    UTransT (ug.plus e) (ug'.plus e) i old new := by
  refine ⟨h.cls8, ?_, ?_, h.tokOther, h.flag⟩
  · have := h.acct; simp only [UGh.plus_base]; omega
  · intro j hj; have := h.baseOther j hj; simp only [UGh.plus_base]; omega

theorem UTransS.frame {tr k : Nat} {ug ug' : UGh} {old new : LTree} (e : Nat → Nat) (h : UTransS tr k ug ug' old new) :
    UTransS tr k (ug.plus e) (ug'.plus e) old new := by
  cases h with
  | same hp ht acct tok =>
    exact .same hp ht (fun i => by have := acct i; simp only [UGh.plus_base]; omega) tok
  | move acct hnew tok =>
    exact .move (fun i => by have := acct i; simp only [UGh.plus_base]; omega) hnew tok

theorem KnownT.unframe {tf nt : Nat} {ug : UGh} {e : Nat → Nat} {i : Nat} {t : Tree} (h : KnownT tf nt (ug.plus e) i t) :
    KnownT tf nt ug i t := by
  refine ⟨h.1, ?_, h.2.2⟩
  have := h.2.1; simp only [UGh.plus_base] at this; omega

theorem KnownS.unframe {tr tf nt : Nat} {ug : UGh} {e : Nat → Nat} {o : LTree} (h : KnownS tr tf nt (ug.plus e) o) :
    KnownS tr tf nt ug o := by
  intro hp
  obtain ⟨h1, h2, h3⟩ := h hp
  refine ⟨h1, ?_, h3⟩
  simp only [UGh.plus_base] at h2; omega

/-- **frame rule**: a program that is safe from a ghost is safe from a larger one and leaves the
    additional frames alone -/
theorem SafeU.frame {Post : α → UGh → Prop} (e : Nat → Nat) :
    ∀ (p : Prog α) (ug : UGh), SafeU c Post ug p →
      SafeU c (fun a ug' => ∃ ug0, Post a ug0 ∧ ug' = ug0.plus e) (ug.plus e) p := by
  intro p
  induction p with
  | ret a => exact fun ug hp => ⟨ug, hp, rfl⟩
  | panic s => exact fun _ hp => hp
  | load k i cont ih => exact fun ug hp v => ih v ug (hp v)
  | store k i v cont ih =>
    intro ug hp
    cases k with
    | row => exact ih ug hp
    | huge => exact ih ug hp
    | tree => exact hp
    | slot => exact hp
  | swap k i v cont ih =>
    intro ug hp
    cases k with
    | row => exact fun o => ih o ug (hp o)
    | huge => exact fun o => ih o ug (hp o)
    | tree => exact hp
    | slot =>
      intro o hkn
      obtain ⟨k, ug', hk, ht, hs⟩ := hp o hkn.unframe
      exact ⟨k, ug'.plus e, hk, ht.frame e, ih o ug' hs⟩
  | cas k i ex n cont ih =>
    intro ug hp
    cases k with
    | row => exact fun r => ih r ug (hp r)
    | huge => exact fun r => ih r ug (hp r)
    | tree => exact hp
    | slot => exact hp
  | casPart i sh w ex n cont ih => exact fun ug hp r => ih r ug (hp r)
  | upd k i fu cont ih =>
    intro ug hp
    cases k with
    | row => exact ⟨hp.1, fun r => ih r ug (hp.2 r)⟩
    | huge => exact ⟨hp.1, fun r => ih r ug (hp.2 r)⟩
    | tree =>
      intro cur hkn
      have := hp cur hkn.unframe
      cases hg : fu cur with
      | skip => rw [hg] at this; exact ih _ ug this
      | set v =>
        rw [hg] at this
        obtain ⟨ug', ht, hs⟩ := this
        exact ⟨ug'.plus e, ht.frame e, ih _ ug' hs⟩
      | panic s => rw [hg] at this; exact this
    | slot =>
      intro cur hkn
      have := hp cur hkn.unframe
      cases hg : fu cur with
      | skip => rw [hg] at this; exact ih _ ug this
      | set v =>
        rw [hg] at this
        obtain ⟨k, ug', hk, ht, hs⟩ := this
        exact ⟨k, ug'.plus e, hk, ht.frame e, ih _ ug' hs⟩
      | panic s => rw [hg] at this; exact this

/-- the ghost only grows by frames kept out of the counters -/
def GrowPost (ug : UGh) : Res Unit → UGh → Prop := fun _ ug' => ∃ e, ug' = ug.plus e

/-- one candidate of `change_tree` (class change and/or `Offline`): the frames of an offlined
    tree move to the ghost of the caller -/
theorem changeAt_U (ug : UGh) (mcls : Option Nat) (mfree : Nat) (ccls : Option Nat) (op : Option Tree.Op)
    (hop : op ≠ some .online) (hcls : ∀ k, ccls = some k → k < 8) (i : Nat) :
    SafeU c (GrowPost ug) ug (changeAtP c mcls mfree ccls op i) := by
  unfold changeAtP
  split
  · exact ⟨fun _ => 0, (UGh.plus_zero ug).symm⟩
  · have hf : fetchP c mcls mfree ccls op i = pure 0 := by
      unfold fetchP; rw [if_pos hop]
    rw [hf]
    show SafeU c (GrowPost ug) ug (Prog.upd .tree i _ _)
    intro cur hkn
    have fin : ∀ (r : Except Tree Tree) (ug' : UGh), (∃ e, ug' = ug.plus e) →
        SafeU c (GrowPost ug) ug' ((Prog.ret r : Prog (Except Tree Tree)) >>= fun r => match r with
          | .ok _ => (pure (.ok ()) : Prog (Res Unit))
          | .error _ => pure (.error .memory)) := by
      intro r ug' h
      cases r <;> exact h
    -- the new entry: same reserved flag (false), class `k` or the old one, counter 0 or the old one
    have key : ∀ v : Tree, v.reserved = cur.reserved → cur.reserved = false → v.free ≤ cur.free → (cur.cls < 8 → v.cls < 8) →
        ∃ ug', UTransT ug ug' i cur v ∧ SafeU c (GrowPost ug) ug' ((Prog.ret (.ok cur) : Prog (Except Tree Tree)) >>= fun r => match r with
          | .ok _ => (pure (.ok ()) : Prog (Res Unit))
          | .error _ => pure (.error .memory)) := by
      intro v hr hcr hle h8
      refine ⟨ug.addBase i (cur.free - v.free), ⟨h8, ?_, ?_, fun _ _ => rfl, Or.inl ⟨hr, (fun h => by rw [hcr] at h; cases h), rfl⟩⟩,
        fin _ _ ⟨_, UGh.addBase_eq_plus ug i _⟩⟩
      · rw [UGh.addBase_base, if_pos rfl]; omega
      · intro j hj; rw [UGh.addBase_base, if_neg hj]
    show match cur.change mcls mfree ccls op 0 with
      | .skip => _
      | .set v => _
      | .panic s => _
    unfold Tree.change
    by_cases hc : (!cur.reserved && Tree.matchCls mcls cur.cls && decide (cur.free ≥ mfree)) = true
    · rw [if_pos hc]
      simp only [Bool.and_eq_true, Bool.not_eq_true', decide_eq_true_eq] at hc
      have hcr := hc.1.1
      cases ccls with
      | none =>
        simp only
        cases op with
        | none => exact key cur rfl hcr (Nat.le_refl _) (fun h => h)
        | some o =>
          cases o with
          | online => exact absurd rfl hop
          | offline => exact key { cur with free := 0 } rfl hcr (Nat.zero_le _) (fun h => h)
      | some k =>
        simp only
        have hk := hcls k rfl
        have : Tree.clsOk k = true := by unfold Tree.clsOk; simpa using hk
        rw [if_pos this]
        cases op with
        | none => exact key { cur with cls := k } rfl hcr (Nat.le_refl _) (fun _ => hk)
        | some o =>
          cases o with
          | online => exact absurd rfl hop
          | offline => exact key { cur with cls := k, free := 0 } rfl hcr (Nat.zero_le _) (fun _ => hk)
    · rw [if_neg hc]
      exact fin _ _ ⟨fun _ => 0, (UGh.plus_zero ug).symm⟩

theorem GrowPost.trans {ug ug1 : UGh} (h : ∃ e, ug1 = ug.plus e) (p : Prog (Res Unit)) (hp : SafeU c (GrowPost ug1) ug1 p) :
    SafeU c (GrowPost ug) ug1 p := by
  apply SafeU.mono _ p ug1 hp
  rintro a o ⟨f, rfl⟩
  obtain ⟨e, rfl⟩ := h
  exact ⟨_, UGh.plus_plus ug e f⟩

theorem changeScan_U (mcls : Option Nat) (mfree : Nat) (ccls : Option Nat) (op : Option Tree.Op)
    (hop : op ≠ some .online) (hcls : ∀ k, ccls = some k → k < 8) :
    ∀ (cnt j : Nat) (ug : UGh), (cnt = 0 ∨ c.ntrees ≠ 0) →
      SafeU c (GrowPost ug) ug (Trees.search.scan c.ntrees 0 (changeAtP c mcls mfree ccls op) cnt j) := by
  intro cnt
  induction cnt with
  | zero => intro j ug _; unfold Trees.search.scan; exact ⟨fun _ => 0, (UGh.plus_zero ug).symm⟩
  | succ cnt ih =>
    intro j ug hnt
    have hnt' : c.ntrees ≠ 0 := by rcases hnt with h | h; cases h; exact h
    unfold Trees.search.scan
    rw [if_neg hnt']
    apply SafeU.bind _ _ _ (changeAt_U ug mcls mfree ccls op hop hcls _)
    intro r ug1 h1
    have cont := GrowPost.trans h1 _ (ih (j + 1) ug1 (Or.inr hnt'))
    cases r with
    | ok u => exact h1
    | error er =>
      cases er with
      | memory => exact cont
      | argument => exact h1
      | initialization => exact h1

/-- **`LLFree::change_tree`** without `Online`, for one thread among many -/
theorem changeTree_U (ug : UGh) (mid mcls : Option Nat) (mfree : Nat) (ccls : Option Nat) (op : Option Tree.Op)
    (hop : op ≠ some .online) (hcls : ∀ k, ccls = some k → k < 8) :
    SafeU c (GrowPost ug) ug (changeTree c mid mcls mfree ccls op) := by
  rw [changeTree_eq]
  cases mid with
  | some i => exact changeAt_U ug mcls mfree ccls op hop hcls i
  | none =>
    simp only
    unfold Trees.search
    apply changeScan_U mcls mfree ccls op hop hcls
    by_cases h : c.ntrees = 0
    · left; rw [h]
    · right; exact h

/-! ### the lower protocol: `change_tree` touches tree entries only -/

theorem Tree.change_panic (self : Tree) (mcls : Option Nat) (mfree : Nat) (ccls : Option Nat) (op : Option Tree.Op) (ff : Nat) (s : String)
    (h : self.change mcls mfree ccls op ff = .panic s) : UpperMsg s := by
  have hop : ∀ t : Tree, t.changeOp op ff = .panic s → UpperMsg s := by
    intro t ht
    unfold Tree.changeOp at ht
    split at ht
    · cases ht
    · split at ht
      · split at ht
        · cases ht
        · cases ht; simp [UpperMsg, lowerMsgs]
      · cases ht
    · cases ht
  unfold Tree.change at h
  split at h
  · split at h
    · exact hop _ h
    · split at h
      · exact hop _ h
      · cases h; simp [UpperMsg, lowerMsgs]
  · cases h

theorem changeAt_neut (mcls : Option Nat) (mfree : Nat) (ccls : Option Nat) (op : Option Tree.Op) (hop : op ≠ some .online) (i : Nat) :
    NeutT (changeAtP c mcls mfree ccls op i) := by
  unfold changeAtP
  split
  · simp
  · have hf : fetchP c mcls mfree ccls op i = pure 0 := by
      unfold fetchP; rw [if_pos hop]
    rw [hf]
    simp only [pure_bind, neut_bind_iff, neut_updK_tree]
    refine ⟨fun cur s h => Tree.change_panic _ _ _ _ _ _ _ h, ?_⟩
    intro r; cases r <;> simp

theorem changeScan_neut (mcls : Option Nat) (mfree : Nat) (ccls : Option Nat) (op : Option Tree.Op) (hop : op ≠ some .online) :
    ∀ cnt j, NeutT (Trees.search.scan c.ntrees 0 (changeAtP c mcls mfree ccls op) cnt j) := by
  intro cnt
  induction cnt with
  | zero => intro j; unfold Trees.search.scan; simp
  | succ cnt ih =>
    intro j
    unfold Trees.search.scan
    split
    · simp [UpperMsg, lowerMsgs]
    · simp only [neut_bind_iff]
      apply Neut.mono _ _ (changeAt_neut mcls mfree ccls op hop _)
      intro r _
      cases r with
      | ok u => simp
      | error er =>
        cases er with
        | memory => exact ih (j + 1)
        | argument => simp
        | initialization => simp

theorem changeTree_neut (mid mcls : Option Nat) (mfree : Nat) (ccls : Option Nat) (op : Option Tree.Op) (hop : op ≠ some .online) :
    NeutT (changeTree c mid mcls mfree ccls op) := by
  rw [changeTree_eq]
  cases mid with
  | some i => exact changeAt_neut mcls mfree ccls op hop i
  | none => exact changeScan_neut mcls mfree ccls op hop _ _

end

/-! ### threads that also change trees -/

/-- commands of a thread: the public calls of `UCmd` and `change_tree` (class change and/or
    `Offline`; `Online` is excluded, see the head of the file) -/
inductive CCmd where
  | u (x : UCmd)
  | change (mid mcls : Option Nat) (mfree : Nat) (ccls : Option Nat) (offline : Bool)

def CCmd.op : Bool → Option Tree.Op
  | true => some .offline
  | false => none

theorem CCmd.op_ne_online (b : Bool) : CCmd.op b ≠ some .online := by cases b <;> (intro h; cases h)

def CCmd.valid (c : Cfg) : CCmd → Prop
  | .u x => x.valid c
  | .change _ _ _ ccls _ => ∀ k, ccls = some k → k < 8

def runUC (c : Cfg) : List CCmd → Held → Prog Held
  | [], held => pure held
  | .u x :: rest, held => do
    let held' ← runU c [x] held
    runUC c rest held'
  | .change mid mcls mfree ccls off :: rest, held => do
    let _ ← changeTree c mid mcls mfree ccls (CCmd.op off)
    runUC c rest held

/-- between calls the upper ghost of a thread is what its blocks took out of the counters plus
    what it has hidden by `Offline` -/
abbrev PostUC (c : Cfg) : Held → UGh → Prop := fun held' ug' => ∃ e, ug' = (ugOf c.geom.treeFrames held').plus e

section
variable {c : Cfg}

theorem runUC_safe (ok : GeomOk16 c.geom) (cmds : List CCmd) :
    ∀ (held : Held), HeldOkL c.geom held → SafeL false c.geom (PostLU c) (ghOf c.geom held) (runUC c cmds held) := by
  induction cmds with
  | nil => intro held hok; exact ⟨rfl, hok⟩
  | cons cmd rest ih =>
    intro held hok
    cases cmd with
    | u x =>
      unfold runUC
      apply SafeL.bind _ _ _ (runU_safe ok [x] held hok)
      rintro held' gh1 ⟨rfl, hok'⟩
      exact ih held' hok'
    | change mid mcls mfree ccls off =>
      unfold runUC
      apply SafeL.bind _ _ _ (Neut.safeL (ghOf c.geom held) _ (changeTree_neut mid mcls mfree ccls _ (CCmd.op_ne_online off)))
      rintro _ gh1 ⟨rfl, _⟩
      exact ih held hok

theorem runUC_safeU (ok : CfgOk c) (cmds : List CCmd) (hvalid : ∀ x ∈ cmds, x.valid c) :
    ∀ (held : Held) (e : Nat → Nat), SafeU c (PostUC c) ((ugOf c.geom.treeFrames held).plus e) (runUC c cmds held) := by
  induction cmds with
  | nil => intro held e; exact ⟨e, rfl⟩
  | cons cmd rest ih =>
    have hv := hvalid cmd List.mem_cons_self
    have ih := ih (fun x hx => hvalid x (List.mem_cons_of_mem _ hx))
    intro held e
    cases cmd with
    | u x =>
      unfold runUC
      have h1 := runU_safeU ok [x] (fun y hy => by rw [List.mem_singleton.1 hy]; exact hv) held
      apply SafeU.bind _ _ _ (SafeU.frame e _ _ h1)
      rintro held' ug1 ⟨ug0, rfl, rfl⟩
      exact ih held' e
    | change mid mcls mfree ccls off =>
      unfold runUC
      apply SafeU.bind _ _ _ (changeTree_U _ mid mcls mfree ccls _ (CCmd.op_ne_online off) hv)
      rintro _ ug1 ⟨f, rfl⟩
      rw [UGh.plus_plus]
      exact ih held _

/-- **the combined invariant holds in every state of every interleaving** of threads that run
    public calls and tree changes -/
theorem conc_cinvC (ok : CfgOk c) (H : Nat → Nat) (m : Mem) (inv : UpperInv0 c H m)
    (n : Nat) (cmds : Nat → List CCmd) (hvalid : ∀ k, ∀ x ∈ cmds k, x.valid c) (sched : List Nat) (hsched : ∀ k ∈ sched, k < n) :
    ∃ ghs ugs, CInv c H n c.frames (PostLU c) (PostUC c)
      (concRun sched (m, fun k => Th.at (runUC c (cmds k) ⟨[], []⟩))).1
      (concRun sched (m, fun k => Th.at (runUC c (cmds k) ⟨[], []⟩))).2 ghs ugs := by
  have L0 := LInv.init_gen ok.geom m inv.lower n false (PostLU c) (fun k => runUC c (cmds k) ⟨[], []⟩)
    (fun k => runUC_safe ok.geom (cmds k) ⟨[], []⟩ ⟨trivial, (fun b hb => by cases hb), trivial⟩)
  have hG0 : ∀ i, GT c.geom n m (fun _ => ghOf c.geom ⟨[], []⟩) i = m.freeInTree c.geom i := by
    intro i
    rw [Mem.freeInTree_eq_blockSum]
    unfold GT GH
    apply blockSum_congr
    intro cc _
    rw [blockSum_zero' _ n (fun k _ => heldIn_empty c.geom _)]; omega
  have U0 : UInv c H n m (fun _ => ghOf c.geom ⟨[], []⟩) (fun _ => ugOf c.geom.treeFrames ⟨[], []⟩) := by
    refine ⟨inv.toG.congr rfl rfl ?_ ?_ hG0, ?_, ?_, ?_⟩
    · intro i
      unfold baseSum
      exact blockSum_zero' _ n (fun k _ => by simp [ugOf, smallBase, hugeBase])
    · intro i
      constructor
      · rintro ⟨k, _, hk⟩; simp [ugOf] at hk
      · intro h; exact h.elim
    · intro j k _ _ _ i hi; simp [ugOf] at hi
    · intro k _ i b hb; simp [ugOf] at hb
    · intro i; rw [hG0 i]; exact Mem.freeInTree_le m c.geom i
  have C0 : CInv c H n c.frames (PostLU c) (PostUC c) m (fun k => Th.at (runUC c (cmds k) ⟨[], []⟩)) (fun _ => ghOf c.geom ⟨[], []⟩)
      (fun _ => ugOf c.geom.treeFrames ⟨[], []⟩) :=
    ⟨L0, U0, fun k => by
      have := runUC_safeU ok (cmds k) (hvalid k) ⟨[], []⟩ (fun _ => 0)
      rw [UGh.plus_zero] at this
      exact this⟩
  exact CInv.run ok sched hsched m _ _ _ C0

/-- **no call panics when trees are changed concurrently** (class changes, `Offline`) -/
theorem upper_conc_no_panic_change (ok : CfgOk c) (H : Nat → Nat) (m : Mem) (inv : UpperInv0 c H m)
    (n : Nat) (cmds : Nat → List CCmd) (hvalid : ∀ k, ∀ x ∈ cmds k, x.valid c) (sched : List Nat) (hsched : ∀ k ∈ sched, k < n)
    (k : Nat) (hk : k < n) (s : String)
    (hd : ((concRun sched (m, fun k => Th.at (runUC c (cmds k) ⟨[], []⟩))).2 k).step
      (concRun sched (m, fun k => Th.at (runUC c (cmds k) ⟨[], []⟩))).1 = .dead s) : s = oobMsg := by
  obtain ⟨ghs, ugs, C⟩ := conc_cinvC ok H m inv n cmds hvalid sched hsched
  have := C.step ok k hk
  rw [hd] at this
  exact this

/-- **every quiescent state of every interleaving with concurrent tree changes satisfies the
    sequential invariant**, with hidden frames `H'` that only grew (by what the `Offline` calls
    took out of the counters): the counters of every tree plus its hidden frames are exactly its
    free frames — in particular the hidden frames of an offline tree are still free: nothing was
    allocated from them. -/
theorem upper_conc_quiescent_change (ok : CfgOk c) (H : Nat → Nat) (m : Mem) (inv : UpperInv0 c H m)
    (n : Nat) (cmds : Nat → List CCmd) (hvalid : ∀ k, ∀ x ∈ cmds k, x.valid c) (sched : List Nat) (hsched : ∀ k ∈ sched, k < n)
    (hdone : ∀ k, k < n → ∃ held, ((concRun sched (m, fun k => Th.at (runUC c (cmds k) ⟨[], []⟩))).2 k).step
      (concRun sched (m, fun k => Th.at (runUC c (cmds k) ⟨[], []⟩))).1 = .done held) :
    ∃ H', (∀ i, H i ≤ H' i) ∧ UpperInv0 c H' (concRun sched (m, fun k => Th.at (runUC c (cmds k) ⟨[], []⟩))).1 := by
  have okg := ok.geom.toGeomOk
  have hsz := concRun_sizes sched m (fun k => Th.at (runUC c (cmds k) ⟨[], []⟩))
  obtain ⟨ghs, ugs, C⟩ := conc_cinvC ok H m inv n cmds hvalid sched hsched
  generalize (concRun sched (m, fun k => Th.at (runUC c (cmds k) ⟨[], []⟩))).1 = m' at C hdone hsz ⊢
  generalize (concRun sched (m, fun k => Th.at (runUC c (cmds k) ⟨[], []⟩))).2 = ths' at C hdone
  have hfin : ∀ k, ∃ held e, k < n → ghs k = ghOf c.geom held ∧ HeldOkL c.geom held ∧ ugs k = (ugOf c.geom.treeFrames held).plus e := by
    intro k
    by_cases hk : k < n
    · obtain ⟨held, hd⟩ := hdone k hk
      have := C.step ok k hk
      rw [hd] at this
      obtain ⟨e, he⟩ := this.2
      exact ⟨held, e, fun _ => ⟨this.1.1, this.1.2, he⟩⟩
    · exact ⟨⟨[], []⟩, fun _ => 0, fun h => absurd h hk⟩
  obtain ⟨heldF, hfin⟩ := Classical.axiomOfChoice hfin
  obtain ⟨eF, hfin⟩ := Classical.axiomOfChoice hfin
  have hlow : LowerInv c m' := by
    apply LInv.lowerInv_quiescent okg C.low
    · intro k hk h
      rw [(hfin k hk).1]; rfl
    · rw [hsz.1]; exact inv.lower.rowsSize
    · rw [hsz.2.1]; exact inv.lower.hugeSize
  have hcar : ∀ i, ¬ Carried n ugs i := by
    rintro i ⟨k, hk, ht⟩
    rw [(hfin k hk).2.2] at ht; simp [ugOf] at ht
  have hGT : ∀ i, GT c.geom n m' ghs i = m'.freeInTree c.geom i + blockSum (fun k => (ugOf c.geom.treeFrames (heldF k)).base i) n := by
    intro i
    rw [Mem.freeInTree_eq_blockSum]
    unfold GT GH
    rw [blockSum_add, blockSum_swap]
    congr 1
    apply blockSum_congr
    intro k hk
    obtain ⟨h1, h2, _⟩ := hfin k hk
    rw [h1]
    exact heldIn_ghOf okg (heldF k) h2 i
  have hBS : ∀ i, baseSum n ugs i = blockSum (fun k => (ugOf c.geom.treeFrames (heldF k)).base i) n + blockSum (fun k => eF k i) n := by
    intro i
    unfold baseSum
    rw [← blockSum_add]
    apply blockSum_congr
    intro k hk
    rw [(hfin k hk).2.2]; rfl
  have G := C.up.inv
  refine ⟨fun i => H i + blockSum (fun k => eF k i) n, fun i => Nat.le_add_right _ _, ?_⟩
  refine ⟨hlow, G.treesSize, G.slotsSize, G.treeCls, G.slotTree, G.slotCls, G.slotInj, fun _ _ _ _ h => h.elim, ?_, ?_⟩
  · intro i t ht hr
    rcases G.resSlot i t ht hr with h | h
    · exact absurd h (hcar i)
    · right; exact h
  · intro i t ht
    have := G.counter i t ht
    rw [hGT i, hBS i] at this
    omega

end
end LLFree
