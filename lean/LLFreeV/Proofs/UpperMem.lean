/-
  How the components of the upper invariant react to writes of tree entries and slots.
-/
import LLFreeV.Proofs.UpperInv
namespace LLFree
open Prog

theorem Mem.allocated_congr (g : Geom) (m m' : Mem) (hr : m'.rows = m.rows) (hh : m'.huge = m.huge) (f : Nat) :
    m'.allocated g f = m.allocated g f := by
  unfold Mem.allocated Mem.hugeE Mem.bit
  rw [hr, hh]

theorem Mem.freeInTree_congr (g : Geom) (m m' : Mem) (hr : m'.rows = m.rows) (hh : m'.huge = m.huge) (i : Nat) :
    m'.freeInTree g i = m.freeInTree g i := by
  unfold Mem.freeInTree
  apply countP_range_eq_of_eq
  intro k _
  rw [Mem.allocated_congr g m m' hr hh]

theorem LowerInv.congr {c : Cfg} {m m' : Mem} (inv : LowerInv c m) (hr : m'.rows = m.rows) (hh : m'.huge = m.huge) :
    LowerInv c m' := by
  have hb : ∀ f, m'.bit f = m.bit f := by intro f; unfold Mem.bit; rw [hr]
  have he : ∀ h, m'.hugeE h = m.hugeE h := by intro h; unfold Mem.hugeE; rw [hh]
  have hz : ∀ h, zerosIn c.geom m' h = zerosIn c.geom m h := by
    intro h; unfold zerosIn; apply countP_range_eq_of_eq; intro i _; rw [hb]
  exact {
    rowsSize := by rw [hr]; exact inv.rowsSize
    hugeSize := by rw [hh]; exact inv.hugeSize
    beyond := by intro h hh'; rw [he]; exact inv.beyond h hh'
    marker := by
      intro h hh' hm
      rw [he] at hm
      obtain ⟨h1, h2⟩ := inv.marker h hh' hm
      exact ⟨h1, fun i hi => by rw [hb]; exact h2 i hi⟩
    count := by intro h hh' hm; rw [he] at hm ⊢; rw [hz]; exact inv.count h hh' hm
    outside := by intro f hf; rw [hb]; exact inv.outside f hf }

/-- replacing one element changes the sum of a mapped list by the difference -/
theorem sum_map_set {τ : Type} (f : τ → Nat) (l : List τ) (s : Nat) (v : τ) (hs : s < l.length) :
    ((l.set s v).map f).sum + f l[s] = (l.map f).sum + f v := by
  induction l generalizing s with
  | nil => simp at hs
  | cons a l ih =>
    cases s with
    | zero => simp only [List.set_cons_zero, List.map_cons, List.sum_cons, List.getElem_cons_zero]; omega
    | succ s =>
      simp only [List.set_cons_succ, List.map_cons, List.sum_cons, List.getElem_cons_succ]
      have := ih s (by simpa using hs)
      omega

theorem le_sum_of_mem (l : List Nat) (x : Nat) (h : x ∈ l) : x ≤ l.sum := by
  induction l with
  | nil => cases h
  | cons a l ih =>
    simp only [List.sum_cons]
    rcases List.mem_cons.1 h with e | e
    · omega
    · have := ih e; omega

theorem Mem.slotFree_set_slot (m : Mem) (tr : Nat) (s : Nat) (old v : LTree) (h : m.slots[s]? = some old) (i : Nat) :
    (m.set .slot s v).slotFree tr i + LTree.freeFor tr i old = m.slotFree tr i + LTree.freeFor tr i v := by
  obtain ⟨hs, he⟩ := Array.getElem?_eq_some_iff.1 h
  unfold Mem.slotFree
  simp only [Mem.set_slot_slots, Array.toList_setIfInBounds]
  have := sum_map_set (LTree.freeFor tr i) m.slots.toList s v (by simpa using hs)
  simp only [Array.getElem_toList] at this
  rw [he] at this
  exact this

theorem Mem.slotFree_set_tree (m : Mem) (tr : Nat) (j : Nat) (v : Tree) (i : Nat) :
    (m.set .tree j v).slotFree tr i = m.slotFree tr i := rfl

/-- a present slot contributes its counter to its tree: the cached frames are at least that -/
theorem Mem.slotFree_ge (m : Mem) (tr : Nat) (s : Nat) (l : LTree) (h : m.slots[s]? = some l) (i : Nat) :
    LTree.freeFor tr i l ≤ m.slotFree tr i := by
  obtain ⟨hs, he⟩ := Array.getElem?_eq_some_iff.1 h
  unfold Mem.slotFree
  have hmem : l ∈ m.slots.toList := by rw [← he]; simp
  exact le_sum_of_mem _ _ (List.mem_map_of_mem hmem)

section
variable {c : Cfg} {H : Nat → Nat} {P : Nat → Nat} {R : Nat → Prop} {m : Mem}

theorem UpperInv.tree_lt (inv : UpperInv c H P R m) (i : Nat) (t : Tree) (h : m.trees[i]? = some t) : i < c.ntrees := by
  have := (Array.getElem?_eq_some_iff.1 h).1
  rw [inv.treesSize] at this; exact this

theorem UpperInv.tree_get (inv : UpperInv c H P R m) (i : Nat) (hi : i < c.ntrees) : ∃ t : Tree, m.trees[i]? = some t := by
  have : i < m.trees.size := by rw [inv.treesSize]; exact hi
  exact ⟨m.trees[i], Array.getElem?_eq_getElem this⟩

/-- **Writing a tree entry.** The caller supplies what the slots that point to the tree, the
    reserved flag and the counters need; every other tree is untouched. -/
theorem UpperInv.set_tree (inv : UpperInv c H P R m) (i : Nat) (t t' : Tree) (h : m.trees[i]? = some t)
    (H' : Nat → Nat) (P' : Nat → Nat) (R' : Nat → Prop)
    (hcls : t'.cls < 8)
    (hslot : ∀ (s : Nat) (l : LTree) (k : Nat), m.slots[s]? = some l → l.present = true → c.slotClass s k →
      l.row / c.geom.treeRows = i → t'.reserved = true ∧ k ≤ t'.cls)
    (hres : t'.reserved = true → R' i ∨ ∃ s : Nat, ∃ l : LTree, m.slots[s]? = some l ∧ l.present = true ∧ l.row / c.geom.treeRows = i)
    (hRi : R' i → ∀ (s : Nat) (l : LTree), m.slots[s]? = some l → l.present = true → l.row / c.geom.treeRows ≠ i)
    (hR : ∀ j, j ≠ i → (R' j ↔ R j))
    (hP : ∀ j, j ≠ i → P' j = P j)
    (hH : ∀ j, j ≠ i → H' j = H j)
    (heq : t'.free + m.slotFree c.geom.treeRows i + P' i + H' i = m.freeInTree c.geom i) :
    UpperInv c H' P' R' (m.set .tree i t') := by
  have hi : i < m.trees.size := (Array.getElem?_eq_some_iff.1 h).1
  have hget : ∀ j, (m.set .tree i t').trees[j]? = if j = i then some t' else m.trees[j]? := by
    intro j
    simp only [Mem.set_tree_trees, Array.getElem?_setIfInBounds]
    by_cases e : i = j
    · subst e; simp [hi]
    · have : ¬ j = i := fun e' => e e'.symm
      simp [e, this]
  have hfree : ∀ j, (m.set .tree i t').freeInTree c.geom j = m.freeInTree c.geom j :=
    fun j => Mem.freeInTree_congr c.geom m _ rfl rfl j
  refine {
    lower := inv.lower.congr rfl rfl
    treesSize := by simp only [Mem.set_tree_trees, Array.size_setIfInBounds]; exact inv.treesSize
    slotsSize := inv.slotsSize
    treeCls := ?_, slotTree := ?_, slotCls := inv.slotCls, slotInj := inv.slotInj, slotNotR := ?_,
    resSlot := ?_, counter := ?_ }
  · intro j x hx
    rw [hget] at hx
    split at hx
    · cases hx; exact hcls
    · exact inv.treeCls j x hx
  · intro s l k hs hp hk
    rw [hget]
    by_cases e : l.row / c.geom.treeRows = i
    · simp only [e, if_true]
      obtain ⟨h1, h2⟩ := hslot s l k hs hp hk e
      exact ⟨t', rfl, h1, h2⟩
    · simp only [e, if_false]
      exact inv.slotTree s l k hs hp hk
  · intro s l hs hp hr
    by_cases e : l.row / c.geom.treeRows = i
    · rw [e] at hr; exact hRi hr s l hs hp e
    · exact inv.slotNotR s l hs hp ((hR _ e).1 hr)
  · intro j x hx hr
    rw [hget] at hx
    split at hx
    · rename_i e; cases hx; subst e; exact hres hr
    · rename_i e
      rcases inv.resSlot j x hx hr with h1 | h1
      · left; exact (hR j e).2 h1
      · right; exact h1
  · intro j x hx
    rw [hget] at hx
    rw [hfree]
    split at hx
    · rename_i e; cases hx; subst e; exact heq
    · rename_i e; rw [hP j e, hH j e]; exact inv.counter j x hx

/-- changing only the counter (and possibly the class upwards) of a tree, with the ghost
    count of its unaccounted frames adjusted -/
theorem UpperInv.set_tree_counter (inv : UpperInv c H P R m) (i : Nat) (t t' : Tree) (h : m.trees[i]? = some t)
    (P' : Nat → Nat) (hres : t'.reserved = t.reserved) (hcls : t'.cls < 8)
    (hclsr : t.reserved = true → t'.cls = t.cls)
    (hP : ∀ j, j ≠ i → P' j = P j)
    (hsum : t'.free + P' i = t.free + P i) :
    UpperInv c H P' R (m.set .tree i t') := by
  apply inv.set_tree i t t' h H P' R hcls
  · intro s l k hs hp hk e
    obtain ⟨x, hx, hr, hkx⟩ := inv.slotTree s l k hs hp hk
    rw [e, h] at hx; cases hx
    exact ⟨by rw [hres]; exact hr, by rw [hclsr hr]; exact hkx⟩
  · intro hr
    rw [hres] at hr
    exact inv.resSlot i t h hr
  · intro hr s l hs hp e
    exact inv.slotNotR s l hs hp (by rw [e]; exact hr)
  · intro j _; exact Iff.rfl
  · exact hP
  · intro j _; rfl
  · have := inv.counter i t h; omega

/-- **Writing a slot.** -/
theorem UpperInv.set_slot (inv : UpperInv c H P R m) (s : Nat) (l l' : LTree) (h : m.slots[s]? = some l)
    (P' : Nat → Nat) (R' : Nat → Prop)
    (hnew : l'.present = true → (∃ k, c.slotClass s k) ∧ ∀ k, c.slotClass s k →
      ∃ t : Tree, m.trees[l'.row / c.geom.treeRows]? = some t ∧ t.reserved = true ∧ k ≤ t.cls)
    (hinj : l'.present = true → ∀ (s' : Nat) (x : LTree), m.slots[s']? = some x → x.present = true →
      x.row / c.geom.treeRows = l'.row / c.geom.treeRows → s' = s)
    (hnotR : l'.present = true → ¬ R' (l'.row / c.geom.treeRows))
    (hRsub : ∀ j, R' j → R j ∨ (l.present = true ∧ l.row / c.geom.treeRows = j))
    (hold : l.present = true → (l'.present = true ∧ l'.row / c.geom.treeRows = l.row / c.geom.treeRows) ∨ R' (l.row / c.geom.treeRows))
    (hRkeep : ∀ j, R j → R' j ∨ (l'.present = true ∧ l'.row / c.geom.treeRows = j))
    (hP : ∀ i, LTree.freeFor c.geom.treeRows i l' + P' i = LTree.freeFor c.geom.treeRows i l + P i) :
    UpperInv c H P' R' (m.set .slot s l') := by
  have hs : s < m.slots.size := (Array.getElem?_eq_some_iff.1 h).1
  have hget : ∀ j, (m.set .slot s l').slots[j]? = if j = s then some l' else m.slots[j]? := by
    intro j
    simp only [Mem.set_slot_slots, Array.getElem?_setIfInBounds]
    by_cases e : s = j
    · subst e; simp [hs]
    · have : ¬ j = s := fun e' => e e'.symm
      simp [e, this]
  have hfree : ∀ j, (m.set .slot s l').freeInTree c.geom j = m.freeInTree c.geom j :=
    fun j => Mem.freeInTree_congr c.geom m _ rfl rfl j
  have hsf := Mem.slotFree_set_slot m c.geom.treeRows s l l' h
  refine {
    lower := inv.lower.congr rfl rfl
    treesSize := inv.treesSize
    slotsSize := by simp only [Mem.set_slot_slots, Array.size_setIfInBounds]; exact inv.slotsSize
    treeCls := inv.treeCls, slotTree := ?_, slotCls := ?_, slotInj := ?_, slotNotR := ?_,
    resSlot := ?_, counter := ?_ }
  · intro s1 x k hx hp hk
    rw [hget] at hx
    split at hx
    · rename_i e; cases hx; subst e; exact (hnew hp).2 k hk
    · exact inv.slotTree s1 x k hx hp hk
  · intro s1 x hx hp
    rw [hget] at hx
    split at hx
    · rename_i e; cases hx; subst e; exact (hnew hp).1
    · exact inv.slotCls s1 x hx hp
  · intro s1 s2 x1 x2 h1 h2 p1 p2 e
    rw [hget] at h1 h2
    split at h1 <;> split at h2
    · rename_i e1 e2; rw [e1, e2]
    · rename_i e1 e2; cases h1; rw [e1]; exact (hinj p1 s2 x2 h2 p2 e.symm).symm
    · rename_i e1 e2; cases h2; rw [e2]; exact hinj p2 s1 x1 h1 p1 e
    · exact inv.slotInj s1 s2 x1 x2 h1 h2 p1 p2 e
  · intro s1 x hx hp hr
    rw [hget] at hx
    split at hx
    · cases hx; exact hnotR hp hr
    · rename_i e1
      rcases hRsub _ hr with h1 | ⟨h1, h2⟩
      · exact inv.slotNotR s1 x hx hp h1
      · exact e1 (inv.slotInj s1 s x l hx h hp h1 h2.symm)
  · intro j t ht hr
    rcases inv.resSlot j t ht hr with h1 | ⟨s0, x, hx, hp, e⟩
    · rcases hRkeep j h1 with h2 | ⟨h2, h3⟩
      · left; exact h2
      · right; exact ⟨s, l', by rw [hget]; simp, h2, h3⟩
    · by_cases es : s0 = s
      · subst es
        rw [h] at hx; cases hx
        rcases hold hp with ⟨h2, h3⟩ | h2
        · right; exact ⟨s0, l', by rw [hget]; simp, h2, by rw [h3]; exact e⟩
        · left; rw [← e]; exact h2
      · right; exact ⟨s0, x, by rw [hget]; simp [es]; exact hx, hp, e⟩
  · intro j t ht
    rw [hfree]
    have := inv.counter j t ht
    have h1 := hsf j
    have h2 := hP j
    omega

end
end LLFree
