/-
  The frame translation of `ZoneAlloc::{get, put, stats_at}`, the alignment condition of `ZoneAlloc::create` and the
  size / header / split arithmetic of `NvmAlloc::create`, regenerated from `core/src/wrapper.rs` (`Gen/Zone.lean`),
  are those of the hand-written model (`Model/Wrapper.lean`).  The wrapped allocator's call is a parameter (`inner`).
-/
import LLFreeV.Gen.Zone
import LLFreeV.Model.Wrapper
import LLFreeV.Proofs.GenMeta
namespace LLFree.GenZone
open LLFree

theorem checkedSub_eq (off f : Nat) : Gen.Z.checkedSub f off = Zone.toInner off f := by
  unfold Gen.Z.checkedSub Zone.toInner
  by_cases h : f < off
  · have : ¬ off ≤ f := by omega
    simp [h, this]
  · have : off ≤ f := by omega
    simp [h, this]

/-- the result shift of `ZoneAlloc::get` on the generated side -/
def shiftG (off : Nat) (x : Except Gen.Z.Err (Nat × Nat)) : Except Gen.Z.Err (Nat × Nat) :=
  match x with
  | .ok (f, k) => .ok (f + off, k)
  | .error e => .error e

/-- `ZoneAlloc::get`: a target below the offset is `Error::Argument` without a call of the wrapped allocator;
    otherwise the wrapped allocator is called with the translated target and the result is shifted back -/
theorem get_eq (inner : Option Nat → Except Gen.Z.Err (Nat × Nat)) (off : Nat) (frame : Option Nat) :
    Gen.Z.get inner off frame =
      match frame with
      | some f =>
        match Zone.toInner off f with
        | none => .error .argument
        | some f' => shiftG off (inner (some f'))
      | none => shiftG off (inner none) := by
  cases frame with
  | none =>
    simp only [Gen.Z.get, Option.map, Gen.Z.transpose, bind, Except.bind, shiftG]
    cases inner none with
    | error e => rfl
    | ok p => rfl
  | some f =>
    simp only [Gen.Z.get, Option.map, checkedSub_eq]
    cases h : Zone.toInner off f with
    | none => simp [Gen.Z.okOr, Gen.Z.transpose, bind, Except.bind]
    | some f' =>
      simp only [Gen.Z.okOr, Gen.Z.transpose, bind, Except.bind, id, shiftG]
      cases inner (some f') with
      | error e => rfl
      | ok p => rfl

theorem put_eq (inner : Nat → Except Gen.Z.Err Unit) (off frame : Nat) :
    Gen.Z.put inner off frame =
      match Zone.toInner off frame with
      | none => .error .argument
      | some f' => inner f' := by
  simp only [Gen.Z.put, checkedSub_eq]
  cases Zone.toInner off frame with
  | none => simp [Gen.Z.okOr, bind, Except.bind]
  | some f' => simp [Gen.Z.okOr, bind, Except.bind]

theorem statsAt_eq {σ : Type} (inner : Nat → σ) (off frame : Nat) :
    Gen.Z.statsAt inner off frame = (Zone.toInner off frame).map inner := by
  simp only [Gen.Z.statsAt, checkedSub_eq]
  cases Zone.toInner off frame <;> rfl

/-- `ZoneAlloc::create` rejects exactly the offsets that are not a multiple of a tree -/
theorem createRejects_iff (treeOrder off : Nat) :
    Gen.Z.createRejects treeOrder off = true ↔ off % 2 ^ treeOrder ≠ 0 := by
  simp [Gen.Z.createRejects, Nat.shiftLeft_eq]

theorem nvmTooSmall_eq (g : Geom) (fs z : Nat) :
    Gen.Z.nvmTooSmall fs (lowerSize g z) z = !nvmSizeOk g fs z := by
  simp only [Gen.Z.nvmTooSmall, nvmSizeOk]
  by_cases h : z * fs < lowerSize g z + fs <;> simp [h] <;> omega

theorem nvmManaged_eq (g : Geom) (fs z : Nat) :
    Gen.Z.nvmManaged fs (lowerSize g z) z = nvmManaged g fs z := rfl

theorem nvmHeaderRejects_eq (magic hm hf z : Nat) :
    Gen.Z.nvmHeaderRejects magic hm hf z = !nvmHeaderOk magic hm hf z := by
  simp only [Gen.Z.nvmHeaderRejects, nvmHeaderOk]
  by_cases h1 : hm = magic <;> by_cases h2 : hf = z - 1 <;> simp [h1, h2, bne]

end LLFree.GenZone
