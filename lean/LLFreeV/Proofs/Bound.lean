/-
  Step bounds: `Within n p` — every path of the program tree `p` performs at most `n` atomic
  accesses when it runs without interference (an `upd` node counts 2: its load and its one
  successful compare-exchange). The bound is uniform in the memory contents and in every value a
  load returns: it is a property of the tree alone.

  `Th.Within n t` extends this to thread states inside a call, including "inside the
  compare-exchange loop holding a stale value"; it is preserved by every step of the thread under
  arbitrary interference (`Th.Within.step`), and a thread satisfying it finishes within `n` of its
  own accesses once it runs alone (`Th.Within.solo`).
-/
import LLFreeV.Proofs.Solo
namespace LLFree

inductive Within {α : Type} : Nat → Prog α → Prop where
  | ret (n : Nat) (a : α) : Within n (.ret a)
  | panic (n : Nat) (s : String) : Within n (.panic s)
  | load {n : Nat} {k : Kind} {i : Nat} {c : k.Val → Prog α} :
      (∀ v, Within n (c v)) → Within (n + 1) (.load k i c)
  | store {n : Nat} {k : Kind} {i : Nat} {v : k.Val} {c : Prog α} :
      Within n c → Within (n + 1) (.store k i v c)
  | swap {n : Nat} {k : Kind} {i : Nat} {v : k.Val} {c : k.Val → Prog α} :
      (∀ o, Within n (c o)) → Within (n + 1) (.swap k i v c)
  | cas {n : Nat} {k : Kind} {i : Nat} {e nv : k.Val} {c : Except k.Val k.Val → Prog α} :
      (∀ r, Within n (c r)) → Within (n + 1) (.cas k i e nv c)
  | casPart {n : Nat} {i sh w : Nat} {e nv : BitVec 64} {c : Bool → Prog α} :
      (∀ r, Within n (c r)) → Within (n + 1) (.casPart i sh w e nv c)
  | upd {n : Nat} {k : Kind} {i : Nat} {f : k.Val → Upd k.Val} {c : Except k.Val k.Val → Prog α} :
      (∀ r, Within n (c r)) → Within (n + 2) (.upd k i f c)

namespace Within
variable {α β : Type}

theorem mono {n n' : Nat} {p : Prog α} (h : Within n p) (hle : n ≤ n') : Within n' p := by
  induction h generalizing n' with
  | ret n a => exact .ret _ _
  | panic n s => exact .panic _ _
  | load _ ih =>
    obtain ⟨k, rfl⟩ : ∃ k, n' = k + 1 := ⟨n' - 1, by omega⟩
    exact .load (fun v => ih v (by omega))
  | store _ ih =>
    obtain ⟨k, rfl⟩ : ∃ k, n' = k + 1 := ⟨n' - 1, by omega⟩
    exact .store (ih (by omega))
  | swap _ ih =>
    obtain ⟨k, rfl⟩ : ∃ k, n' = k + 1 := ⟨n' - 1, by omega⟩
    exact .swap (fun v => ih v (by omega))
  | cas _ ih =>
    obtain ⟨k, rfl⟩ : ∃ k, n' = k + 1 := ⟨n' - 1, by omega⟩
    exact .cas (fun v => ih v (by omega))
  | casPart _ ih =>
    obtain ⟨k, rfl⟩ : ∃ k, n' = k + 1 := ⟨n' - 1, by omega⟩
    exact .casPart (fun v => ih v (by omega))
  | upd _ ih =>
    obtain ⟨k, rfl⟩ : ∃ k, n' = k + 2 := ⟨n' - 2, by omega⟩
    exact .upd (fun v => ih v (by omega))

theorem bind' {a b : Nat} {p : Prog α} {f : α → Prog β} (hp : Within a p) (hf : ∀ x, Within b (f x)) :
    Within (a + b) (p.bind f) := by
  induction hp with
  | ret n x => exact (hf x).mono (by omega)
  | panic n s => exact .panic _ _
  | load _ ih => rw [Nat.add_right_comm]; exact .load ih
  | store _ ih => rw [Nat.add_right_comm]; exact .store ih
  | swap _ ih => rw [Nat.add_right_comm]; exact .swap ih
  | cas _ ih => rw [Nat.add_right_comm]; exact .cas ih
  | casPart _ ih => rw [Nat.add_right_comm]; exact .casPart ih
  | upd _ ih => rw [Nat.add_right_comm]; exact .upd ih

/-- budget-passing form of `bind'` for monadic notation -/
theorem bind {n : Nat} (a : Nat) {p : Prog α} {f : α → Prog β} (hp : Within a p)
    (hf : ∀ x, Within (n - a) (f x)) (hle : a ≤ n) : Within n (p >>= f) := by
  have := bind' hp hf
  exact this.mono (by omega)

theorem pure (n : Nat) (a : α) : Within n (Pure.pure a : Prog α) := .ret _ _

/-- budget-passing constructors -/
theorem load' {n : Nat} {k : Kind} {i : Nat} {c : k.Val → Prog α} (h : ∀ v, Within (n - 1) (c v)) (hn : 1 ≤ n) :
    Within n (.load k i c) := by
  obtain ⟨m, rfl⟩ : ∃ m, n = m + 1 := ⟨n - 1, by omega⟩
  exact .load h
theorem store' {n : Nat} {k : Kind} {i : Nat} {v : k.Val} {c : Prog α} (h : Within (n - 1) c) (hn : 1 ≤ n) :
    Within n (.store k i v c) := by
  obtain ⟨m, rfl⟩ : ∃ m, n = m + 1 := ⟨n - 1, by omega⟩
  exact .store h
theorem swap' {n : Nat} {k : Kind} {i : Nat} {v : k.Val} {c : k.Val → Prog α} (h : ∀ o, Within (n - 1) (c o)) (hn : 1 ≤ n) :
    Within n (.swap k i v c) := by
  obtain ⟨m, rfl⟩ : ∃ m, n = m + 1 := ⟨n - 1, by omega⟩
  exact .swap h
theorem cas' {n : Nat} {k : Kind} {i : Nat} {e nv : k.Val} {c : Except k.Val k.Val → Prog α}
    (h : ∀ r, Within (n - 1) (c r)) (hn : 1 ≤ n) : Within n (.cas k i e nv c) := by
  obtain ⟨m, rfl⟩ : ∃ m, n = m + 1 := ⟨n - 1, by omega⟩
  exact .cas h
theorem casPart' {n : Nat} {i sh w : Nat} {e nv : BitVec 64} {c : Bool → Prog α}
    (h : ∀ r, Within (n - 1) (c r)) (hn : 1 ≤ n) : Within n (.casPart i sh w e nv c) := by
  obtain ⟨m, rfl⟩ : ∃ m, n = m + 1 := ⟨n - 1, by omega⟩
  exact .casPart h
theorem upd' {n : Nat} {k : Kind} {i : Nat} {f : k.Val → Upd k.Val} {c : Except k.Val k.Val → Prog α}
    (h : ∀ r, Within (n - 2) (c r)) (hn : 2 ≤ n) : Within n (.upd k i f c) := by
  obtain ⟨m, rfl⟩ : ∃ m, n = m + 2 := ⟨n - 2, by omega⟩
  exact .upd h

/-! primitives -/
theorem loadK (k : Kind) (i : Nat) : Within 1 (Prog.loadK k i) := .load (fun _ => .ret _ _)
theorem storeK (k : Kind) (i : Nat) (v : k.Val) : Within 1 (Prog.storeK k i v) := .store (.ret _ _)
theorem swapK (k : Kind) (i : Nat) (v : k.Val) : Within 1 (Prog.swapK k i v) := .swap (fun _ => .ret _ _)
theorem casK (k : Kind) (i : Nat) (e n : k.Val) : Within 1 (Prog.casK k i e n) := .cas (fun _ => .ret _ _)
theorem casPartK (i sh w : Nat) (e n : BitVec 64) : Within 1 (Prog.casPartK i sh w e n) := .casPart (fun _ => .ret _ _)
theorem updK (k : Kind) (i : Nat) (f : k.Val → Upd k.Val) : Within 2 (Prog.updK k i f) := .upd (fun _ => .ret _ _)
theorem tryUpdate (k : Kind) (i : Nat) (f : k.Val → Option k.Val) : Within 2 (Prog.tryUpdate k i f) :=
  .upd (fun _ => .ret _ _)

end Within

/-! ### thread states -/

/-- bound for a thread state inside a call -/
def Th.Within {α : Type} (n : Nat) : Th α → Prop
  | .at p => LLFree.Within n p
  | .updCas _ _ _ _ _ c => 2 ≤ n ∧ ∀ r, LLFree.Within (n - 2) (c r)

theorem Th.Within.afterUpd {α : Type} {n : Nat} (k : Kind) (i : Nat) (f : k.Val → Upd k.Val) (cur : k.Val)
    (c : Except k.Val k.Val → Prog α) (h2 : 2 ≤ n) (h : ∀ r, LLFree.Within (n - 2) (c r)) :
    Th.Within n (Th.afterUpd k i f cur c) := by
  unfold Th.afterUpd
  cases f cur with
  | skip => exact (h _).mono (by omega)
  | set v => exact ⟨h2, h⟩
  | panic s => exact .panic _ _

/-- **Interference never raises the bound**: whatever the memory contains when the thread takes
    its next step (other threads may have written anything in between), the successor state
    satisfies the same bound. -/
theorem Th.Within.step {α : Type} {n : Nat} {t t' : Th α} {m m' : Mem} {a : Access}
    (h : Th.Within n t) (hs : t.step m = .step t' m' a) : Th.Within n t' := by
  cases t with
  | «at» p =>
    cases h with
    | ret n a => simp [Th.step] at hs
    | panic n s => simp [Th.step] at hs
    | load hc =>
      simp only [Th.step] at hs
      split at hs
      · cases hs
      · injection hs with h1; subst h1; exact (hc _).mono (by omega)
    | store hc =>
      simp only [Th.step] at hs
      split at hs
      · cases hs
      · injection hs with h1; subst h1; exact hc.mono (by omega)
    | swap hc =>
      simp only [Th.step] at hs
      split at hs
      · cases hs
      · injection hs with h1; subst h1; exact (hc _).mono (by omega)
    | cas hc =>
      simp only [Th.step] at hs
      split at hs
      · cases hs
      · split at hs
        · injection hs with h1; subst h1; exact (hc _).mono (by omega)
        · injection hs with h1; subst h1; exact (hc _).mono (by omega)
    | casPart hc =>
      simp only [Th.step] at hs
      split at hs
      · cases hs
      · split at hs
        · injection hs with h1; subst h1; exact (hc _).mono (by omega)
        · injection hs with h1; subst h1; exact (hc _).mono (by omega)
    | upd hc =>
      simp only [Th.step] at hs
      split at hs
      · cases hs
      · injection hs with h1; subst h1
        exact Th.Within.afterUpd _ _ _ _ _ (by omega) (fun r => by simpa using hc r)
  | updCas k i f cur new c =>
    obtain ⟨h2, hc⟩ := h
    simp only [Th.step] at hs
    split at hs
    · cases hs
    · split at hs
      · injection hs with h1; subst h1; exact (hc _).mono (by omega)
      · injection hs with h1; subst h1; exact Th.Within.afterUpd _ _ _ _ _ h2 hc

/-- a program within `n` finishes within `n` accesses when it runs alone, from any memory -/
theorem Within.solo {α : Type} {n : Nat} {p : Prog α} (h : Within n p) :
    ∀ m : Mem, ∃ k, k ≤ n ∧ (soloSteps k (.at p) m).1.finished = true := by
  induction h with
  | ret n a => intro m; exact ⟨0, by omega, rfl⟩
  | panic n s => intro m; exact ⟨0, by omega, rfl⟩
  | @load n k i c _ ih =>
    intro m
    cases hg : m.get? k i with
    | none => exact ⟨1, by omega, by simp [soloSteps, Th.step, hg, Th.finished]⟩
    | some v =>
      obtain ⟨k, hk, hn⟩ := ih v m
      exact ⟨k + 1, by omega, by simpa [soloSteps, Th.step, hg] using hn⟩
  | @store n k i v c _ ih =>
    intro m
    cases hg : m.get? k i with
    | none => exact ⟨1, by omega, by simp [soloSteps, Th.step, hg, Th.finished]⟩
    | some _ =>
      obtain ⟨j, hk, hn⟩ := ih (m.set k i v)
      exact ⟨j + 1, by omega, by simpa [soloSteps, Th.step, hg] using hn⟩
  | @swap n k i v c _ ih =>
    intro m
    cases hg : m.get? k i with
    | none => exact ⟨1, by omega, by simp [soloSteps, Th.step, hg, Th.finished]⟩
    | some o =>
      obtain ⟨j, hk, hn⟩ := ih o (m.set k i v)
      exact ⟨j + 1, by omega, by simpa [soloSteps, Th.step, hg] using hn⟩
  | @cas n k i e nv c _ ih =>
    intro m
    cases hg : m.get? k i with
    | none => exact ⟨1, by omega, by simp [soloSteps, Th.step, hg, Th.finished]⟩
    | some o =>
      by_cases he : o = e
      · obtain ⟨j, hk, hn⟩ := ih (.ok o) (m.set k i nv)
        exact ⟨j + 1, by omega, by simpa [soloSteps, Th.step, hg, he] using hn⟩
      · obtain ⟨j, hk, hn⟩ := ih (.error o) m
        exact ⟨j + 1, by omega, by simpa [soloSteps, Th.step, hg, he] using hn⟩
  | @casPart n i sh w e nv c _ ih =>
    intro m
    cases hg : m.get? .row i with
    | none => exact ⟨1, by omega, by simp [soloSteps, Th.step, hg, Th.finished]⟩
    | some o =>
      cases hc : casPartVal o sh w e nv with
      | none =>
        obtain ⟨j, hk, hn⟩ := ih false m
        exact ⟨j + 1, by omega, by simpa [soloSteps, Th.step, hg, hc] using hn⟩
      | some r =>
        obtain ⟨j, hk, hn⟩ := ih true (m.set .row i r)
        exact ⟨j + 1, by omega, by simpa [soloSteps, Th.step, hg, hc] using hn⟩
  | @upd n k i f c _ ih =>
    intro m
    cases hg : m.get? k i with
    | none => exact ⟨1, by omega, by simp [soloSteps, Th.step, hg, Th.finished]⟩
    | some o =>
      cases hf : f o with
      | skip =>
        obtain ⟨j, hk, hn⟩ := ih (.error o) m
        exact ⟨j + 1, by omega, by simpa [soloSteps, Th.step, hg, Th.afterUpd, hf] using hn⟩
      | panic s =>
        exact ⟨1, by omega, by simp [soloSteps, Th.step, hg, Th.afterUpd, hf, Th.finished]⟩
      | set v =>
        obtain ⟨j, hk, hn⟩ := ih (.ok o) (m.set k i v)
        refine ⟨j + 2, by omega, ?_⟩
        simp only [soloSteps, Th.step, hg, Th.afterUpd, hf, if_true]
        exact hn

/-- **Bounded solo completion from every thread state.** -/
theorem Th.Within.solo {α : Type} {n : Nat} {t : Th α} (h : Th.Within n t) (m : Mem) :
    ∃ k, k ≤ n ∧ (soloSteps k t m).1.finished = true := by
  cases t with
  | «at» p => exact LLFree.Within.solo h m
  | updCas k i f cur new c =>
    obtain ⟨h2, hc⟩ := h
    cases hg : m.get? k i with
    | none => exact ⟨1, by omega, by simp [soloSteps, Th.step, hg, Th.finished]⟩
    | some o =>
      by_cases he : o = cur
      · obtain ⟨j, hk, hn⟩ := LLFree.Within.solo (hc (.ok o)) (m.set k i new)
        exact ⟨j + 1, by omega, by simpa [soloSteps, Th.step, hg, he] using hn⟩
      · cases hf : f o with
        | skip =>
          obtain ⟨j, hk, hn⟩ := LLFree.Within.solo (hc (.error o)) m
          exact ⟨j + 1, by omega, by simpa [soloSteps, Th.step, hg, he, Th.afterUpd, hf] using hn⟩
        | panic s =>
          exact ⟨1, by omega, by simp [soloSteps, Th.step, hg, he, Th.afterUpd, hf, Th.finished]⟩
        | set v =>
          obtain ⟨j, hk, hn⟩ := LLFree.Within.solo (hc (.ok o)) (m.set k i v)
          refine ⟨j + 2, by omega, ?_⟩
          simp only [soloSteps, Th.step, hg, he, if_false, Th.afterUpd, hf, if_true]
          exact hn

end LLFree
