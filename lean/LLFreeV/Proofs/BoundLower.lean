/-
  Step bounds of the lower allocator (`Within`, see `Bound.lean`): every loop of `bitfield.rs` /
  `lower.rs` on the get/put paths, bounded uniformly in the geometry alone.
-/
import LLFreeV.Proofs.Bound
import LLFreeV.Model.Bounds
namespace LLFree
open Prog

/-- one step of the bound walker: closes leaves, peels one access / bind (callee lemmas are given
    as terms), splits conditionals -/
syntax "wstep" "[" term,* "]" : tactic
macro_rules
  | `(tactic| wstep [$ts,*]) => `(tactic| first
    | exact Within.ret _ _
    | exact Within.panic _ _
    | exact Within.pure _ _
    | refine Within.bind _ (Within.loadK _ _) (fun _ => ?_) (by omega)
    | refine Within.bind _ (Within.storeK _ _ _) (fun _ => ?_) (by omega)
    | refine Within.bind _ (Within.swapK _ _ _) (fun _ => ?_) (by omega)
    | refine Within.bind _ (Within.casK _ _ _ _) (fun _ => ?_) (by omega)
    | refine Within.bind _ (Within.casPartK _ _ _ _ _) (fun _ => ?_) (by omega)
    | refine Within.bind _ (Within.updK _ _ _) (fun _ => ?_) (by omega)
    | refine Within.bind _ (Within.tryUpdate _ _ _) (fun _ => ?_) (by omega)
    | exact Within.mono (Within.loadK _ _) (by omega)
    | exact Within.mono (Within.tryUpdate _ _ _) (by omega)
    | exact Within.mono (Within.updK _ _ _) (by omega)
    | exact Within.mono (Within.casK _ _ _ _) (by omega)
    | exact Within.mono (Within.casPartK _ _ _ _ _) (by omega)
    $[| exact Within.mono ($ts ..) (by omega)]*
    $[| exact Within.mono $ts (by omega)]*
    $[| refine Within.bind _ ($ts ..) (fun _ => ?_) (by omega)]*
    $[| refine Within.bind _ $ts (fun _ => ?_) (by omega)]*
    | refine Within.load' (fun _ => ?_) (by omega)
    | refine Within.store' ?_ (by omega)
    | refine Within.swap' (fun _ => ?_) (by omega)
    | refine Within.cas' (fun _ => ?_) (by omega)
    | refine Within.casPart' (fun _ => ?_) (by omega)
    | refine Within.upd' (fun _ => ?_) (by omega)
    | split
    | dsimp only [Prog.bind])

syntax "wauto" "[" term,* "]" : tactic
macro_rules
  | `(tactic| wauto [$ts,*]) => `(tactic| repeat' (wstep [$ts,*]))

section
variable (g : Geom)

theorem casRangeUndo_within (k : Kind) (base : Nat) (cur new : k.Val) (msg : String) :
    ∀ cnt j, Within cnt (casRangeUndo k base cur new msg cnt j) := by
  intro cnt
  induction cnt with
  | zero => intro j; unfold casRangeUndo; wauto []
  | succ cnt ih => intro j; unfold casRangeUndo; wauto [ih]

theorem casRange_within (k : Kind) (base : Nat) (cur new : k.Val) (msg : String) :
    ∀ cnt j, Within (2 * cnt + j) (casRange k base cur new msg cnt j) := by
  intro cnt
  induction cnt with
  | zero => intro j; unfold casRange; wauto []
  | succ cnt ih => intro j; unfold casRange; wauto [ih, casRangeUndo_within]

/-! ### `Bitfield::toggle` -/

theorem toggleUndo_within (h : Nat) (exp : BitVec 64) :
    ∀ cnt j, Within cnt (Bitfield.toggle.undo g h exp cnt j) := by
  intro cnt
  induction cnt with
  | zero => intro j; unfold Bitfield.toggle.undo; wauto []
  | succ cnt ih => intro j; unfold Bitfield.toggle.undo; wauto [ih]

theorem toggleGo_within (h di : Nat) (exp : BitVec 64) :
    ∀ cnt j, Within (2 * cnt + (j - di)) (Bitfield.toggle.go g h di exp cnt j) := by
  intro cnt
  induction cnt with
  | zero => intro j; unfold Bitfield.toggle.go; wauto []
  | succ cnt ih => intro j; unfold Bitfield.toggle.go; wauto [ih, toggleUndo_within]

/-- `Bitfield::toggle`: at most two accesses per row of the block (set, and roll back) -/
theorem toggle_within (h i order : Nat) (expected : Bool) :
    Within (2 * (2 ^ order / 64) + 2) (Bitfield.toggle g h i order expected) := by
  unfold Bitfield.toggle
  wauto [toggleGo_within]

theorem pow_div_le_rows (order : Nat) (ho : order ≤ g.hugeOrder) : 2 ^ order / 64 ≤ g.rows :=
  Nat.div_le_div_right (Nat.pow_le_pow_right (by decide) ho)

/-! ### `Bitfield::set_first_zeros` -/

theorem allZero_within (h : Nat) : ∀ cnt r, Within cnt (Bitfield.setFirstZeroRows.allZero g h cnt r) := by
  intro cnt
  induction cnt with
  | zero => intro r; unfold Bitfield.setFirstZeroRows.allZero; wauto []
  | succ cnt ih => intro r; unfold Bitfield.setFirstZeroRows.allZero; wauto [ih]

theorem chunks_within (h n : Nat) :
    ∀ cnt ci, Within (cnt * (3 * g.rows)) (Bitfield.setFirstZeroRows.chunks g h n cnt ci) := by
  intro cnt
  induction cnt with
  | zero => intro ci; unfold Bitfield.setFirstZeroRows.chunks; wauto []
  | succ cnt ih =>
    intro ci
    unfold Bitfield.setFirstZeroRows.chunks
    rw [Nat.succ_mul]
    have hlen : min n (g.rows - ci * n) ≤ g.rows := by omega
    wauto [ih, allZero_within, casRange_within]

theorem ceil_div_le (r n : Nat) (hn : 0 < n) : (r + n - 1) / n ≤ r := by
  apply Nat.le_of_lt_succ
  apply (Nat.div_lt_iff_lt_mul hn).2
  have : r ≤ r * n := Nat.le_mul_of_pos_right _ hn
  rw [Nat.succ_mul]; omega

theorem setFirstZeroRows_within (h order : Nat) :
    Within (g.rows * (3 * g.rows)) (Bitfield.setFirstZeroRows g h order) := by
  unfold Bitfield.setFirstZeroRows
  have hpos : 0 < 2 ^ (order - 6) := Nat.pos_of_ne_zero (by simp)
  exact (chunks_within g h _ _ 0).mono (Nat.mul_le_mul_right _ (ceil_div_le _ _ hpos))

theorem setFirstZerosGo_within (h startRow order : Nat) :
    ∀ cnt i, Within (2 * cnt) (Bitfield.setFirstZeros.go g h startRow order cnt i) := by
  intro cnt
  induction cnt with
  | zero => intro i; unfold Bitfield.setFirstZeros.go; wauto []
  | succ cnt ih => intro i; unfold Bitfield.setFirstZeros.go; wauto [ih]


theorem setFirstZeros_within (h startRow order : Nat) :
    Within (searchB g) (Bitfield.setFirstZeros g h startRow order) := by
  unfold Bitfield.setFirstZeros searchB
  wauto [setFirstZeroRows_within, setFirstZerosGo_within]

/-! ### `Lower` -/

theorem casAll_within (t c n cur new : Nat) : Within (2 * n) (casAll g t c n cur new) := by
  unfold casAll
  exact (casRange_within _ _ _ _ _ n 0).mono (by omega)


theorem getAt_within (frame order : Nat) : Within (getAtB g) (Lower.getAt g frame order) := by
  unfold Lower.getAt getAtB
  by_cases ho : order ≥ g.hugeOrder
  · simp only [ho, if_true]
    wauto [casAll_within]
  · simp only [ho, if_false]
    have := pow_div_le_rows g order (by omega)
    wauto [toggle_within]

theorem getGoH_within (t ts hNum childOff : Nat) :
    ∀ cnt k, Within (cnt * (2 * g.treeHuge)) (Lower.get.goH g t ts hNum childOff cnt k) := by
  intro cnt
  induction cnt with
  | zero => intro k; unfold Lower.get.goH; wauto []
  | succ cnt ih =>
    intro k
    unfold Lower.get.goH
    rw [Nat.succ_mul]
    wauto [ih, casAll_within]

theorem getGo_within (start order t childOff fc : Nat) :
    ∀ cnt j, Within (cnt * (searchB g + 4)) (Lower.get.go g start order t childOff fc cnt j) := by
  intro cnt
  induction cnt with
  | zero => intro j; unfold Lower.get.go; wauto []
  | succ cnt ih =>
    intro j
    unfold Lower.get.go
    rw [Nat.succ_mul]
    wauto [ih, setFirstZeros_within]


theorem lowerGet_within (start order : Nat) (frame : Option Nat) :
    Within (lowerGetB g) (Lower.get g start order frame) := by
  unfold Lower.get lowerGetB
  cases frame with
  | some f =>
    simp only []
    wauto [getAt_within]
  | none =>
    simp only []
    by_cases ho : order ≥ g.hugeOrder
    · simp only [ho, if_true]
      have hpos : 0 < 2 ^ (order - g.hugeOrder) := Nat.pos_of_ne_zero (by simp)
      refine (getGoH_within g _ _ _ _ _ 0).mono ?_
      have := Nat.mul_le_mul_right (2 * g.treeHuge) (ceil_div_le g.treeHuge _ hpos)
      omega
    · simp only [ho, if_false]
      refine (getGo_within g _ _ _ _ _ _ 0).mono ?_
      omega

theorem putSmall_within (frame order : Nat) (ho : order ≤ g.hugeOrder) :
    Within (2 * g.rows + 4) (Lower.putSmall g frame order) := by
  unfold Lower.putSmall
  have := pow_div_le_rows g order ho
  wauto [toggle_within]

theorem spinWait_within (t i : Nat) : ∀ n, Within n (spinWaitNotHuge g t i n) := by
  intro n
  induction n with
  | zero => unfold spinWaitNotHuge; wauto []
  | succ n ih => unfold spinWaitNotHuge; wauto [ih]

theorem partialPutHuge_within (retries old frame order : Nat) (ho : order ≤ g.hugeOrder) :
    Within (4 * g.rows + retries + 8) (Lower.partialPutHuge g retries old frame order) := by
  unfold Lower.partialPutHuge
  have h1 := pow_div_le_rows g g.hugeOrder (Nat.le_refl _)
  have hps := putSmall_within g frame order ho
  wauto [toggle_within, hps, spinWait_within]


theorem lowerPut_within (retries frame order : Nat) :
    Within (lowerPutB g retries) (Lower.put g retries frame order) := by
  unfold Lower.put lowerPutB
  by_cases ho : order ≥ g.hugeOrder
  · simp only [ho, if_true]
    wauto [casAll_within]
  · simp only [ho, if_false]
    have hps := putSmall_within g frame order (by omega)
    have hpp := fun old => partialPutHuge_within g retries old frame order (by omega)
    wauto [hpp, hps]

end
end LLFree
