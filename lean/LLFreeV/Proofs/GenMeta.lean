/-
  The sizes of the three metadata buffers used by the model (`Model/Codec.lean`) are the ones the
  translator regenerates from `util.rs`, `trees.rs`, `lower.rs`, `local.rs` (`Gen/Meta.lean`), for the
  type sizes listed in `tyOf` (trusted: `size_of`/`align_of` of `Atom<Tree>` (u32), `Bitfield`
  (`[Atom<u64>; ROWS]`, `repr(align(64))`), `Align<[HugeEntry; TREE_HUGE]>` (u16 entries, cache aligned),
  `Local` (cache aligned, one line), `Align` — cross-checked at run time by the unit differential `meta`).
-/
import LLFreeV.Gen.Meta
import LLFreeV.Model.Codec
namespace LLFree.GenTree
open LLFree LLFree.Gen.M

def tyOf (g : Geom) : TyInfo where
  size := fun t =>
    if t = "Atom<Tree>" then 4
    else if t = "Bitfield" then g.rows * 8
    else if t = "Align<[HugeEntry;TREE_HUGE]>" then alignUp (g.treeHuge * 2) 64
    else if t = "Local" then 64
    else 0
  align := fun t => if t = "Atom<Tree>" then 4 else 64

theorem nextMultipleOf_eq (a b : Nat) : nextMultipleOf a b = alignUp a b := rfl

theorem alignUp_idem (x : Nat) : alignUp (alignUp x 64) 64 = alignUp x 64 := by
  unfold alignUp
  have : ((x + 64 - 1) / 64 * 64 + 64 - 1) / 64 = (x + 64 - 1) / 64 := by omega
  rw [this]

theorem treesSize_eq (g : Geom) (frames : Nat) : Gen.M.treesSize (tyOf g) g.treeFrames frames = LLFree.treesSize g frames := by
  unfold Gen.M.treesSize LLFree.treesSize sizeOfSlice divCeil
  simp [tyOf, nextMultipleOf_eq, alignUp]

theorem lowerSize_eq (g : Geom) (frames : Nat) :
    Gen.M.lowerSize (tyOf g) g.hugeFrames g.treeFrames frames = LLFree.lowerSize g frames := by
  unfold Gen.M.lowerSize LLFree.lowerSize sizeOfSlice divCeil
  simp [tyOf, nextMultipleOf_eq, alignUp_idem]

theorem foldl_add_eq_sum (l : List Nat) (a : Nat) : l.foldl (· + ·) a = a + l.sum := by
  induction l generalizing a with
  | nil => simp
  | cons x xs ih => simp [ih]; omega

theorem localsSize_eq (g : Geom) (classes : List (Nat × Nat)) :
    Gen.M.localsSize (tyOf g) ((classes.map (·.2)).sum) = LLFree.localsSize classes := by
  unfold Gen.M.localsSize LLFree.localsSize sizeOfSlice
  rw [foldl_add_eq_sum]
  simp [tyOf, nextMultipleOf_eq, alignUp]

end LLFree.GenTree
