/-
  `LLFree::change_tree` against the upper invariant (class changes, offline, online).
-/
import LLFreeV.Proofs.UpperDrain
import LLFreeV.Proofs.LowerStats
namespace LLFree
open Prog

section
variable {c : Cfg} {H : Nat → Nat} {P : Nat → Nat} {R : Nat → Prop} {m : Mem}

theorem sum_eq_zero_of_all_zero (l : List Nat) (h : ∀ x ∈ l, x = 0) : l.sum = 0 := by
  induction l with
  | nil => rfl
  | cons a l ih =>
    simp only [List.sum_cons]
    rw [h a (by simp), ih (fun x hx => h x (by simp [hx]))]

/-- no slot caches frames of an unreserved tree -/
theorem UpperInv.slotFree_unreserved (inv : UpperInv c H P R m) (i : Nat) (t : Tree) (ht : m.trees[i]? = some t)
    (hr : t.reserved = false) : m.slotFree c.geom.treeRows i = 0 := by
  unfold Mem.slotFree
  apply sum_eq_zero_of_all_zero
  intro x hx
  obtain ⟨l, hl, rfl⟩ := List.mem_map.1 hx
  obtain ⟨s, hs, hsl⟩ := List.getElem_of_mem hl
  have hget : m.slots[s]? = some l := by
    rw [Array.getElem?_eq_getElem (by simpa using hs)]
    simp only [Array.getElem_toList] at hsl
    rw [hsl]
  unfold LTree.freeFor
  by_cases hp : (l.present && l.row / c.geom.treeRows == i) = true
  · simp only [Bool.and_eq_true, beq_iff_eq] at hp
    obtain ⟨k, hk⟩ := inv.slotCls s l hget hp.1
    obtain ⟨t', ht', hr', _⟩ := inv.slotTree s l k hget hp.1 hk
    rw [hp.2, ht] at ht'
    cases ht'
    rw [hr] at hr'; cases hr'
  · simp [hp]

/-- the closure `fetch_free` of `change_tree`, evaluated before the update (see DESIGN) -/
def fetchP (c : Cfg) (mcls : Option Nat) (mfree : Nat) (ccls : Option Nat) (op : Option Tree.Op) (i : Nat) : Prog Nat := do
  if op ≠ some .online then return 0
  let e : Tree ← loadK .tree i
  match e.change mcls mfree ccls none 0 with
  | .set s =>
    if s.free = 0 then do
      let st ← Lower.statsAt c.g (i * c.tf) c.g.treeOrder
      return st.freeFrames
    else return 0
  | _ => return 0

/-- one candidate of `change_tree` -/
def changeAtP (c : Cfg) (mcls : Option Nat) (mfree : Nat) (ccls : Option Nat) (op : Option Tree.Op) (i : Nat) :
    Prog (Res Unit) :=
  if i ≥ c.ntrees then pure (.error .argument) else do
    let ff ← fetchP c mcls mfree ccls op i
    let r ← updK .tree i (fun (e : Tree) => e.change mcls mfree ccls op ff)
    match r with
    | .ok _ => return .ok ()
    | .error _ => return .error .memory

theorem changeTree_eq (mid mcls : Option Nat) (mfree : Nat) (ccls : Option Nat) (op : Option Tree.Op) :
    changeTree c mid mcls mfree ccls op =
      match mid with
      | some i => changeAtP c mcls mfree ccls op i
      | none => Trees.search c.ntrees 0 0 c.ntrees (changeAtP c mcls mfree ccls op) := rfl

/-- what a change of tree `i` guarantees -/
structure ChangePost (c : Cfg) (H H' : Nat → Nat) (m m' : Mem) (i : Nat) (op : Option Tree.Op) (res : Res Unit) : Prop where
  same : SameAlloc m m'
  slots : m'.slots = m.slots
  inv : UpperInv0 c H' m'
  other : ∀ j, j ≠ i → H' j = H j
  /-- a refused change changes nothing -/
  unchanged : res ≠ .ok () → m = m' ∧ H' i = H i
  /-- only `Offline` hides frames -/
  notOffline : op ≠ some .offline → H' i ≤ H i
  /-- a successful `Online` restores the counter exactly: nothing of the tree stays hidden -/
  online : op = some .online → res = .ok () → H' i = 0
  /-- a successful `Offline` leaves an unreserved tree with counter 0 -/
  offline : op = some .offline → res = .ok () → ∃ t' : Tree, m'.trees[i]? = some t' ∧ t'.free = 0 ∧ t'.reserved = false
  /-- other trees are untouched -/
  otherTrees : ∀ j, j ≠ i → m'.trees[j]? = m.trees[j]?

theorem Runs.load_tree {α : Type} {i : Nat} {t : Tree} {k : Tree → Prog α} {Q : α → Mem → Prop} (h : m.trees[i]? = some t)
    (hk : Runs m (k t) Q) : Runs m ((loadK .tree i : Prog Tree) >>= k) Q :=
  Runs.bind (Runs.load (k := .tree) (Q := fun v m' => t = v ∧ m = m') (by simpa using h) ⟨rfl, rfl⟩)
    (by rintro _ _ ⟨rfl, rfl⟩; exact hk)

/-- updating an unreserved tree (no slot points to it) with a new counter -/
theorem UpperInv.set_unreserved (inv : UpperInv0 c H m) (i : Nat) (t t' : Tree) (ht : m.trees[i]? = some t)
    (hr : t.reserved = false) (hr' : t'.reserved = false) (hcls : t'.cls < 8) (H' : Nat → Nat)
    (hH : ∀ j, j ≠ i → H' j = H j)
    (heq : t'.free + H' i = m.freeInTree c.geom i) :
    UpperInv0 c H' (m.set .tree i t') := by
  have hsf := inv.slotFree_unreserved i t ht hr
  apply inv.set_tree i t t' ht H' (fun _ => 0) (fun _ => False) hcls
  · intro s l k hs hp hk e
    obtain ⟨x, hx, hxr, _⟩ := inv.slotTree s l k hs hp hk
    rw [e, ht] at hx; cases hx
    rw [hr] at hxr; cases hxr
  · intro h; rw [hr'] at h; cases h
  · intro h; exact h.elim
  · intro j _; exact Iff.rfl
  · intro j _; rfl
  · exact hH
  · rw [hsf]; omega

theorem changeAtP_spec (ok : CfgOk c) (inv : UpperInv0 c H m) (mcls : Option Nat) (mfree : Nat) (ccls : Option Nat)
    (op : Option Tree.Op) (i : Nat) (hccls : ∀ k, ccls = some k → k < 8) :
    Runs m (changeAtP c mcls mfree ccls op i) (fun res m' => ∃ H', ChangePost c H H' m m' i op res) := by
  have okg := ok.geom.toGeomOk
  have trivialPost : ∀ res : Res Unit, res ≠ .ok () → ∃ H', ChangePost c H H' m m i op res := by
    intro res hres
    exact ⟨H, ⟨SameAlloc.refl _, rfl, inv, fun _ _ => rfl, fun _ => ⟨rfl, rfl⟩, fun _ => Nat.le_refl _,
      fun _ h => absurd h hres, fun _ h => absurd h hres, fun _ _ => rfl⟩⟩
  unfold changeAtP
  by_cases hi : i ≥ c.ntrees
  · simp only [hi, if_true]
    exact Runs.pure (trivialPost _ (by simp))
  · simp only [hi, if_false]
    have hi' : i < c.ntrees := by omega
    obtain ⟨t, ht⟩ := inv.tree_get i hi'
    have hfree_le := Mem.freeInTree_le m c.geom i
    by_cases hcond : (!t.reserved && Tree.matchCls mcls t.cls && decide (t.free ≥ mfree)) = true
    · -- the tree matches
      have hr : t.reserved = false := by
        simp only [Bool.and_eq_true, Bool.not_eq_true'] at hcond; exact hcond.1.1
      -- the entry after the optional class change
      obtain ⟨s, hs, hscls, hsfree, hsres⟩ : ∃ s : Tree, (∀ o f, Tree.change t mcls mfree ccls o f = Tree.changeOp s o f) ∧
          s.cls < 8 ∧ s.free = t.free ∧ s.reserved = false := by
        cases hc : ccls with
        | none =>
          refine ⟨t, ?_, inv.treeCls i t ht, rfl, hr⟩
          intro o f; unfold Tree.change; simp only [hcond, if_true]
        | some k =>
          have hk := hccls k hc
          refine ⟨{ t with cls := k }, ?_, hk, rfl, hr⟩
          intro o f; unfold Tree.change
          have : Tree.clsOk k = true := by simp [Tree.clsOk, hk]
          simp only [hcond, if_true, this]
      -- the value fetched for `Online`
      have hfetch : Runs m (fetchP c mcls mfree ccls op i)
          (fun ff m' => m = m' ∧ (op = some .online → s.free = 0 → ff = m.freeInTree c.geom i)) := by
        unfold fetchP
        by_cases hop : op = some .online
        · rw [if_neg (by simpa using hop)]
          apply Runs.load_tree ht
          rw [hs none 0]
          simp only [Tree.changeOp]
          by_cases hz : s.free = 0
          · rw [if_pos hz]
            apply Runs.bind (statsAt_tree_spec okg m inv.lower i hi')
            rintro st _ ⟨rfl, hst⟩
            exact Runs.pure ⟨rfl, fun _ _ => hst⟩
          · rw [if_neg hz]
            exact Runs.pure ⟨rfl, fun _ h => absurd h hz⟩
        · rw [if_pos hop]
          exact Runs.pure ⟨rfl, fun h => absurd h hop⟩
      apply Runs.bind hfetch
      rintro ff _ ⟨rfl, hff⟩
      cases hop : op with
      | none =>
        have hf : Tree.change t mcls mfree ccls none ff = .set s := by rw [hs]; rfl
        apply Runs.bind (Runs.upd_set (Q := fun r m' => r = .ok t ∧ m.set .tree i s = m') (by simpa using ht) hf ⟨rfl, rfl⟩)
        rintro _ _ ⟨rfl, rfl⟩
        apply Runs.pure
        have hsf := inv.slotFree_unreserved i t ht hr
        have hcnt := inv.counter i t ht
        refine ⟨H, ⟨⟨rfl, rfl⟩, rfl, ?_, fun _ _ => rfl, fun h => absurd rfl h, fun _ => Nat.le_refl _,
          (fun h => by cases h), (fun h => by cases h), ?_⟩⟩
        · apply inv.set_unreserved i t s ht hr hsres hscls H (fun _ _ => rfl)
          rw [hsfree]; omega
        · intro j hj
          simp only [Mem.set_tree_trees, Array.getElem?_setIfInBounds]
          have : ¬ i = j := fun e => hj e.symm
          simp [this]
      | some o =>
        cases o with
        | offline =>
          have hf : Tree.change t mcls mfree ccls (some .offline) ff = .set { s with free := 0 } := by rw [hs]; rfl
          apply Runs.bind (Runs.upd_set (Q := fun r m' => r = .ok t ∧ m.set .tree i { s with free := 0 } = m')
            (by simpa using ht) hf ⟨rfl, rfl⟩)
          rintro _ _ ⟨rfl, rfl⟩
          apply Runs.pure
          have hsf := inv.slotFree_unreserved i t ht hr
          have hcnt := inv.counter i t ht
          refine ⟨gset H i (H i + t.free), ⟨⟨rfl, rfl⟩, rfl, ?_, ?_, fun h => absurd rfl h, fun h => absurd rfl h,
            (fun h => by cases h), ?_, ?_⟩⟩
          · apply inv.set_unreserved i t { s with free := 0 } ht hr hsres hscls
            · intro j hj; exact gset_other _ _ _ j hj
            · simp only [gset_same]; omega
          · intro j hj; exact gset_other _ _ _ j hj
          · intro _ _
            refine ⟨{ s with free := 0 }, ?_, rfl, hsres⟩
            have hsz : i < m.trees.size := (Array.getElem?_eq_some_iff.1 ht).1
            simp [Mem.set_tree_trees, hsz]
          · intro j hj
            simp only [Mem.set_tree_trees, Array.getElem?_setIfInBounds]
            have : ¬ i = j := fun e => hj e.symm
            simp [this]
        | online =>
          by_cases hz : s.free = 0
          · have hffv := hff hop hz
            have hlt : ff < 2 ^ 28 := by
              have := ok.tf19
              have : (2:Nat) ^ 19 < 2 ^ 28 := by decide
              omega
            have hf : Tree.change t mcls mfree ccls (some .online) ff = .set { s with free := ff } := by
              rw [hs]; simp [Tree.changeOp, hz, hlt]
            apply Runs.bind (Runs.upd_set (Q := fun r m' => r = .ok t ∧ m.set .tree i { s with free := ff } = m')
              (by simpa using ht) hf ⟨rfl, rfl⟩)
            rintro _ _ ⟨rfl, rfl⟩
            apply Runs.pure
            refine ⟨gset H i 0, ⟨⟨rfl, rfl⟩, rfl, ?_, ?_, fun h => absurd rfl h, fun _ => by simp only [gset_same]; exact Nat.zero_le _,
              fun _ _ => gset_same _ _ _, (fun h => by cases h), ?_⟩⟩
            · apply inv.set_unreserved i t { s with free := ff } ht hr hsres hscls
              · intro j hj; exact gset_other _ _ _ j hj
              · simp only [gset_same]; show ff + 0 = _; omega
            · intro j hj; exact gset_other _ _ _ j hj
            · intro j hj
              simp only [Mem.set_tree_trees, Array.getElem?_setIfInBounds]
              have : ¬ i = j := fun e => hj e.symm
              simp [this]
          · have hf : Tree.change t mcls mfree ccls (some .online) ff = .skip := by
              rw [hs]; simp [Tree.changeOp, hz]
            apply Runs.bind (Runs.upd_skip (Q := fun r m' => r = .error t ∧ m = m') (by simpa using ht) hf ⟨rfl, rfl⟩)
            rintro _ _ ⟨rfl, rfl⟩
            exact Runs.pure (by rw [← hop]; exact trivialPost _ (by simp))
    · -- no match: nothing happens
      have hskip : ∀ o f, Tree.change t mcls mfree ccls o f = .skip := by
        intro o f; unfold Tree.change; simp only [hcond, Bool.false_eq_true, if_false]
      have hfetch : Runs m (fetchP c mcls mfree ccls op i) (fun _ m' => m = m') := by
        unfold fetchP
        by_cases hop : op = some .online
        · rw [if_neg (by simpa using hop)]
          apply Runs.load_tree ht
          rw [hskip]
          exact Runs.pure rfl
        · rw [if_pos hop]; exact Runs.pure rfl
      apply Runs.bind hfetch
      rintro ff _ rfl
      apply Runs.bind (Runs.upd_skip (Q := fun r m' => r = .error t ∧ m = m') (by simpa using ht) (hskip op ff) ⟨rfl, rfl⟩)
      rintro _ _ ⟨rfl, rfl⟩
      exact Runs.pure (trivialPost _ (by simp))

theorem searchIdx_lt (start n i : Nat) (hn : 0 < n) : searchIdx start n i < n := by
  unfold searchIdx
  exact Nat.mod_lt _ hn

/-- `Trees::search`: candidates are tried until one does not answer `Memory` -/
theorem search_scan_spec {β : Type} (ntrees start : Nat) (access : Nat → Prog (Res β)) (I : Mem → Prop)
    (Q : Res β → Mem → Prop)
    (hacc : ∀ j m, j < ntrees → I m → Runs m (access j) (fun r m' => (r = .error .memory → I m') ∧ (r ≠ .error .memory → Q r m')))
    (hend : ∀ m, I m → Q (.error .memory) m)
    (cnt i : Nat) (m : Mem) (hI : I m) (hn : cnt = 0 ∨ 0 < ntrees) :
    Runs m (Trees.search.scan ntrees start access cnt i) Q := by
  induction cnt generalizing i m with
  | zero =>
    unfold Trees.search.scan
    exact Runs.pure (hend m hI)
  | succ cnt ih =>
    unfold Trees.search.scan
    have hpos : 0 < ntrees := by rcases hn with h | h; cases h; exact h
    have hne : ¬ ntrees = 0 := by omega
    simp only [hne, if_false]
    apply Runs.bind (hacc _ m (searchIdx_lt start ntrees i hpos) hI)
    rintro r m1 ⟨h1, h2⟩
    by_cases hr : r = .error .memory
    · subst hr
      exact ih (i + 1) m1 (h1 rfl) (Or.inr hpos)
    · cases r with
      | ok v => exact Runs.pure (h2 hr)
      | error e =>
        cases e with
        | memory => exact absurd rfl hr
        | argument => exact Runs.pure (h2 hr)
        | initialization => exact Runs.pure (h2 hr)

/-- **`LLFree::change_tree`**: never panics (classes 0..7); a refused change changes nothing;
    a successful one changes exactly one unreserved matching tree, keeps the invariant and the
    allocation state; `Online` restores the counter to exactly the free frames of the tree. -/
theorem changeTree_spec (ok : CfgOk c) (inv : UpperInv0 c H m) (mid mcls : Option Nat) (mfree : Nat) (ccls : Option Nat)
    (op : Option Tree.Op) (hccls : ∀ k, ccls = some k → k < 8) :
    Runs m (changeTree c mid mcls mfree ccls op) (fun res m' =>
      (res ≠ .ok () → m = m') ∧ ∃ H' i, ChangePost c H H' m m' i op res ∧ (∀ j, mid = some j → i = j)) := by
  rw [changeTree_eq]
  cases mid with
  | some i =>
    apply Runs.mono (changeAtP_spec ok inv mcls mfree ccls op i hccls)
    rintro res m' ⟨H', post⟩
    exact ⟨fun h => (post.unchanged h).1, H', i, post, fun j h => by cases h; rfl⟩
  | none =>
    unfold Trees.search
    apply search_scan_spec c.ntrees 0 (changeAtP c mcls mfree ccls op) (fun m' => m = m')
    · intro j m1 hj hI
      subst hI
      apply Runs.mono (changeAtP_spec ok inv mcls mfree ccls op j hccls)
      rintro res m' ⟨H', post⟩
      refine ⟨fun h => (post.unchanged (by rw [h]; simp)).1, fun h => ?_⟩
      exact ⟨fun h2 => (post.unchanged h2).1, H', j, post, fun _ h => by cases h⟩
    · intro m1 hI
      subst hI
      refine ⟨fun _ => rfl, H, 0, ?_, fun _ h => by cases h⟩
      exact ⟨SameAlloc.refl _, rfl, inv, fun _ _ => rfl, fun _ => ⟨rfl, rfl⟩, fun _ => Nat.le_refl _,
        (fun _ h => by cases h), (fun _ h => by cases h), fun _ _ => rfl⟩
    · rfl
    · by_cases h : c.ntrees = 0
      · left; omega
      · right; omega

end
end LLFree
