/-
  Basic lemmas about the sequential semantics `runSolo`.
-/
import LLFreeV.Model.Prog
namespace LLFree
open Prog

/-- continuation of a sequential run -/
def Outcome.andThen {α β : Type} (r : Mem × Outcome α) (f : α → Mem → Mem × Outcome β) : Mem × Outcome β :=
  match r with
  | (m, .ok a) => f a m
  | (m, .panic s) => (m, .panic s)

@[simp] theorem andThen_ok {α β : Type} (m : Mem) (a : α) (f : α → Mem → Mem × Outcome β) :
    Outcome.andThen (m, .ok a) f = f a m := rfl
@[simp] theorem andThen_panic {α β : Type} (m : Mem) (s : String) (f : α → Mem → Mem × Outcome β) :
    Outcome.andThen ((m, .panic s) : Mem × Outcome α) f = (m, .panic s) := rfl

@[simp] theorem runSolo_ret {α : Type} (a : α) (m : Mem) : runSolo (Prog.ret a) m = (m, .ok a) := rfl
@[simp] theorem runSolo_pure {α : Type} (a : α) (m : Mem) : runSolo (pure a : Prog α) m = (m, .ok a) := rfl
@[simp] theorem runSolo_panic {α : Type} (s : String) (m : Mem) :
    runSolo (Prog.panic s : Prog α) m = (m, .panic s) := rfl

theorem runSolo_bind' {α β : Type} (p : Prog α) (f : α → Prog β) (m : Mem) :
    runSolo (p.bind f) m = Outcome.andThen (runSolo p m) (fun a m' => runSolo (f a) m') := by
  induction p generalizing m with
  | ret a => rfl
  | panic s => rfl
  | load k i c ih =>
    simp only [Prog.bind, runSolo]
    cases m.get? k i with
    | none => rfl
    | some v => exact ih v m
  | store k i v c ih =>
    simp only [Prog.bind, runSolo]
    cases m.get? k i with
    | none => rfl
    | some _ => exact ih _
  | swap k i v c ih =>
    simp only [Prog.bind, runSolo]
    cases m.get? k i with
    | none => rfl
    | some o => exact ih o _
  | cas k i e n c ih =>
    simp only [Prog.bind, runSolo]
    cases m.get? k i with
    | none => rfl
    | some o =>
      simp only
      split
      · exact ih _ _
      · exact ih _ _
  | casPart i sh w e n c ih =>
    simp only [Prog.bind, runSolo]
    cases m.get? .row i with
    | none => rfl
    | some o =>
      simp only
      cases casPartVal o sh w e n with
      | none => exact ih _ _
      | some r => exact ih _ _
  | upd k i f c ih =>
    simp only [Prog.bind, runSolo]
    cases m.get? k i with
    | none => rfl
    | some o =>
      simp only
      cases f o with
      | skip => exact ih _ _
      | set v => exact ih _ _
      | panic s => rfl

@[simp] theorem runSolo_bind {α β : Type} (p : Prog α) (f : α → Prog β) (m : Mem) :
    runSolo (p >>= f) m = Outcome.andThen (runSolo p m) (fun a m' => runSolo (f a) m') :=
  runSolo_bind' p f m

@[simp] theorem runSolo_loadK (k : Kind) (i : Nat) (m : Mem) :
    runSolo (loadK k i) m = match m.get? k i with
      | none => (m, .panic oobMsg)
      | some v => (m, .ok v) := by
  simp only [loadK, runSolo]; cases m.get? k i <;> rfl

end LLFree
