/-
  `impl HugeEntry` regenerated from core/src/lower.rs (`Gen/Huge.lean`) agrees with the model's table-entry transitions.
-/
import LLFreeV.Gen.Huge
import LLFreeV.Model.Lower
import LLFreeV.Proofs.GenSim
namespace LLFree.GenTree
open LLFree

/-! ### table entries of the lower allocator (`impl HugeEntry`, `Gen/Huge.lean`) -/
section
open LLFree.Gen.H

def ofRON : Gen.H.R (Option Nat) → Upd Nat
  | .ok (some t) => .set t
  | .ok none => .skip
  | .error s => .panic s

theorem hnewHuge_eq : Gen.H.newHuge = .ok HugeMarker := rfl
theorem hnewWith_eq (f : Nat) : Gen.H.newWith f = .ok (Huge.newWith f) := by
  unfold Gen.H.newWith Gen.H.withCount Huge.newWith
  have : f % 2 ^ 16 < 2 ^ 16 := Nat.mod_lt _ (by omega)
  simp [this, bind, Except.bind, pure, Except.pure]
theorem hhuge_eq (e : Nat) : Gen.H.huge e = .ok (Huge.isHuge e) := rfl
theorem hfree_eq (e : Nat) : Gen.H.free e = .ok (Huge.free e) := by
  unfold Gen.H.free Huge.free
  rw [hhuge_eq]
  cases Huge.isHuge e <;> rfl

/-- `HugeEntry::dec` -/
theorem hdec_eq (e n : Nat) : Sim (ofRON (Gen.H.dec e n)) (Upd.ofOption (Huge.dec e n)) := by
  unfold Gen.H.dec Huge.dec
  simp only [hhuge_eq, hfree_eq, hnewWith_eq]
  cases hh : Huge.isHuge e
  · by_cases hge : n ≤ Huge.free e
    · simp [hge, csub, hnewWith_eq, ofRON, Upd.ofOption, bind, Except.bind, pure, Except.pure]
    · simp [hge, ofRON, Upd.ofOption, bind, Except.bind, pure, Except.pure]
  · simp [ofRON, Upd.ofOption, bind, Except.bind, pure, Except.pure]

/-- `HugeEntry::inc` (the source evaluates `Bitfield::LEN - num_frames` only for an entry that is not
    a marker; the model traps on `n > len` regardless — callers pass `n ≤ len`) -/
theorem hinc_eq (len e n : Nat) (hn : n ≤ len) : Sim (ofRON (Gen.H.inc len e n)) (Huge.inc len e n) := by
  unfold Gen.H.inc Huge.inc
  have hn' : ¬ n > len := by omega
  simp only [hhuge_eq, hfree_eq]
  cases hh : Huge.isHuge e
  · by_cases hle : Huge.free e ≤ len - n
    · simp [hn, hn', hle, csub, hnewWith_eq, ofRON, bind, Except.bind, pure, Except.pure]
    · simp [hn, hn', hle, csub, ofRON, bind, Except.bind, pure, Except.pure]
  · simp [hn', ofRON, bind, Except.bind, pure, Except.pure]

end

end LLFree.GenTree
