/-
  The statistics of the lower allocator are exact (from the lower invariant):
  per huge frame, per tree (`stats_at(.., TREE_ORDER)`, `tree_fold`) and in total (`Lower::stats`).
-/
import LLFreeV.Proofs.UpperInv
namespace LLFree
open Prog

/-- number of free frames of huge frame `h` in the allocation state -/
def Mem.freeInHuge (m : Mem) (g : Geom) (h : Nat) : Nat :=
  (List.range g.hugeFrames).countP (fun i => !m.allocated g (h * g.hugeFrames + i))

/-- counting over `a * b` indices block by block -/
def blockSum (f : Nat → Nat) : Nat → Nat
  | 0 => 0
  | a+1 => blockSum f a + f a

theorem countP_range_mul (a b : Nat) (p : Nat → Bool) :
    (List.range (a * b)).countP p = blockSum (fun c => (List.range b).countP (fun k => p (c * b + k))) a := by
  induction a with
  | zero => simp [blockSum]
  | succ a ih =>
    rw [blockSum, ← ih, Nat.add_mul, Nat.one_mul]
    rw [List.range_eq_range', List.range_eq_range', List.range_eq_range']
    have := List.range'_append_1 (s := 0) (m := a * b) (n := b)
    simp only [Nat.zero_add] at this
    rw [← this, List.countP_append]
    congr 1
    -- shift the second part
    have hshift : List.range' (a * b) b = (List.range' 0 b).map (fun k => a * b + k) := by
      rw [List.map_add_range', Nat.add_zero]
    rw [hshift, List.countP_map]
    rfl

section
variable {c : Cfg}

theorem Mem.freeInTree_eq_blockSum (m : Mem) (g : Geom) (i : Nat) :
    m.freeInTree g i = blockSum (fun k => m.freeInHuge g (i * g.treeHuge + k)) g.treeHuge := by
  unfold Mem.freeInTree
  show (List.range (g.treeHuge * g.hugeFrames)).countP _ = _
  rw [countP_range_mul]
  congr 1
  funext k
  unfold Mem.freeInHuge
  apply countP_range_eq_of_eq
  intro x _
  congr 2
  show i * (g.treeHuge * g.hugeFrames) + (k * g.hugeFrames + x) = (i * g.treeHuge + k) * g.hugeFrames + x
  rw [Nat.add_mul, Nat.mul_assoc]; omega

/-- the counter of every table entry is the number of free frames of its huge frame (also for
    the entries of a partial last tree beyond the managed range: both are 0) -/
theorem huge_free_exact (okg : GeomOk c.geom) (m : Mem) (inv : LowerInv c m) (h : Nat) :
    Huge.free (m.hugeE h) = m.freeInHuge c.geom h := by
  have hHF := okg.hf_pos
  unfold Mem.freeInHuge
  by_cases hh : h < c.nhuge
  · by_cases hm : Huge.isHuge (m.hugeE h) = true
    · have : (List.range c.geom.hugeFrames).countP (fun i => !m.allocated c.geom (h * c.geom.hugeFrames + i)) = 0 := by
        rw [List.countP_eq_zero]
        intro i hi
        have hi' := List.mem_range.1 hi
        simp [Mem.allocated, div_hf_mul_add c.geom hHF h i hi', hm]
      rw [this]; simp [Huge.free, hm]
    · have hnm : Huge.isHuge (m.hugeE h) = false := by simpa using hm
      rw [Huge.free_of_not_huge _ hnm, inv.count h hh hnm]
      unfold zerosIn
      apply countP_range_eq_of_eq
      intro i hi
      simp [Mem.allocated, div_hf_mul_add c.geom hHF h i hi, hnm]
  · have hb := inv.beyond h (by omega)
    rw [hb]
    have : (List.range c.geom.hugeFrames).countP (fun i => !m.allocated c.geom (h * c.geom.hugeFrames + i)) = 0 := by
      rw [List.countP_eq_zero]
      intro i hi
      have hout : c.frames ≤ h * c.geom.hugeFrames + i := by
        have h1 := okg.ceil_hf_le c.frames
        have : c.nhuge * c.geom.hugeFrames ≤ h * c.geom.hugeFrames := Nat.mul_le_mul_right _ (by omega)
        unfold Cfg.nhuge at this
        have h2 := Nat.lt_mul_div_succ (c.frames + c.geom.hugeFrames - 1) hHF
        have h3 := Nat.div_mul_le_self (c.frames + c.geom.hugeFrames - 1) c.geom.hugeFrames
        rw [Nat.mul_comm, Nat.add_mul, Nat.one_mul] at h2
        omega
      simp [Mem.allocated, inv.outside _ hout]
    rw [this]; simp [Huge.free, Huge.isHuge, HugeMarker]

theorem blockSum_front (f : Nat → Nat) (a : Nat) : blockSum f (a + 1) = f 0 + blockSum (fun k => f (k + 1)) a := by
  induction a with
  | zero => simp [blockSum]
  | succ a ih => rw [blockSum, ih, blockSum]; omega

theorem blockSum_congr (f g : Nat → Nat) (a : Nat) (h : ∀ k, k < a → f k = g k) : blockSum f a = blockSum g a := by
  induction a with
  | zero => rfl
  | succ a ih => rw [blockSum, blockSum, ih (fun k hk => h k (by omega)), h a (by omega)]

/-- the per-entry contribution to the second component of `tree_fold` -/
def foldHuge (hf : Nat) (divide : Bool) (f : Nat) : Nat :=
  if divide then f / hf else if f = hf then 1 else 0

theorem treeFold_go_spec (okg : GeomOk c.geom) (m : Mem) (inv : LowerInv c m) (t : Nat) (ht : t < c.ntrees) (divide : Bool)
    (cnt k ff fh : Nat) (hk : k + cnt ≤ c.geom.treeHuge) :
    Runs m (Lower.treeFold.go c.geom t divide cnt k ff fh) (fun r m' => m = m' ∧
      r.1 = ff + blockSum (fun x => Huge.free (m.hugeE (t * c.geom.treeHuge + (k + x)))) cnt ∧
      r.2 = fh + blockSum (fun x => foldHuge c.geom.hugeFrames divide (Huge.free (m.hugeE (t * c.geom.treeHuge + (k + x))))) cnt) := by
  induction cnt generalizing k ff fh with
  | zero =>
    unfold Lower.treeFold.go
    exact Runs.pure ⟨rfl, by simp [blockSum], by simp [blockSum]⟩
  | succ cnt ih =>
    unfold Lower.treeFold.go
    have hsz : t * c.geom.treeHuge + k < m.huge.size := by
      rw [inv.hugeSize]
      have : (t + 1) * c.geom.treeHuge ≤ c.ntrees * c.geom.treeHuge := Nat.mul_le_mul_right _ ht
      rw [Nat.add_mul, Nat.one_mul] at this
      omega
    have hE : m.get? .huge (hugeIdx c.geom t k) = some (m.hugeE (t * c.geom.treeHuge + k)) := by
      simp only [Mem.get?_huge, hugeIdx]; unfold Mem.hugeE
      rw [Array.getElem?_eq_getElem hsz]; rfl
    apply Runs.bind (Runs.load (Q := fun v m' => v = m.hugeE (t * c.geom.treeHuge + k) ∧ m = m') hE ⟨rfl, rfl⟩)
    rintro _ _ ⟨rfl, rfl⟩
    apply Runs.mono (ih (k + 1) _ _ (by omega))
    rintro r m' ⟨rfl, h1, h2⟩
    refine ⟨rfl, ?_, ?_⟩
    · rw [h1, blockSum_front]
      simp only [Nat.add_zero]
      have : (fun x => Huge.free (m.hugeE (t * c.geom.treeHuge + (k + 1 + x)))) =
          (fun x => Huge.free (m.hugeE (t * c.geom.treeHuge + (k + (x + 1))))) := by
        funext x; congr 3; omega
      rw [this]; omega
    · rw [h2, blockSum_front]
      simp only [Nat.add_zero]
      have : (fun x => foldHuge c.geom.hugeFrames divide (Huge.free (m.hugeE (t * c.geom.treeHuge + (k + 1 + x))))) =
          (fun x => foldHuge c.geom.hugeFrames divide (Huge.free (m.hugeE (t * c.geom.treeHuge + (k + (x + 1)))))) := by
        funext x; congr 4; omega
      rw [this]
      unfold foldHuge
      omega

/-- **`tree_fold`**: the first component is exactly the number of free frames of the tree in
    the allocation state; nothing is written -/
theorem treeFold_spec (okg : GeomOk c.geom) (m : Mem) (inv : LowerInv c m) (t : Nat) (ht : t < c.ntrees) (divide : Bool) :
    Runs m (Lower.treeFold c.geom t divide) (fun r m' => m = m' ∧ r.1 = m.freeInTree c.geom t ∧
      r.2 = blockSum (fun x => foldHuge c.geom.hugeFrames divide (m.freeInHuge c.geom (t * c.geom.treeHuge + x))) c.geom.treeHuge) := by
  unfold Lower.treeFold
  apply Runs.mono (treeFold_go_spec okg m inv t ht divide c.geom.treeHuge 0 0 0 (by omega))
  rintro r m' ⟨rfl, h1, h2⟩
  refine ⟨rfl, ?_, ?_⟩
  · rw [h1, Mem.freeInTree_eq_blockSum, Nat.zero_add]
    apply blockSum_congr
    intro k _
    rw [Nat.zero_add, huge_free_exact okg m inv]
  · rw [h2, Nat.zero_add]
    apply blockSum_congr
    intro k _
    rw [Nat.zero_add, huge_free_exact okg m inv]

theorem blockSum_one (f : Nat → Nat) : blockSum f 1 = f 0 := by simp [blockSum]

/-- **`stats_at(tree start, TREE_ORDER)`** reports exactly the free frames of the tree -/
theorem statsAt_tree_spec (okg : GeomOk c.geom) (m : Mem) (inv : LowerInv c m) (i : Nat) (hi : i < c.ntrees) :
    Runs m (Lower.statsAt c.geom (i * c.geom.treeFrames) c.geom.treeOrder) (fun st m' => m = m' ∧
      st.freeFrames = m.freeInTree c.geom i) := by
  have hTF := okg.tf_pos
  have hHF := okg.hf_pos
  have hTH := okg.th_pos
  have hdiv : i * c.geom.treeFrames / c.geom.treeFrames = i := Nat.mul_div_cancel _ hTF
  have hsz : ∀ k, k < c.geom.treeHuge → i * c.geom.treeHuge + k < m.huge.size := by
    intro k hk
    rw [inv.hugeSize]
    have : (i + 1) * c.geom.treeHuge ≤ c.ntrees * c.geom.treeHuge := Nat.mul_le_mul_right _ hi
    rw [Nat.add_mul, Nat.one_mul] at this
    omega
  have hE : ∀ k, k < c.geom.treeHuge → m.get? .huge (hugeIdx c.geom i k) = some (m.hugeE (i * c.geom.treeHuge + k)) := by
    intro k hk
    simp only [Mem.get?_huge, hugeIdx]; unfold Mem.hugeE
    rw [Array.getElem?_eq_getElem (hsz k hk)]; rfl
  obtain ⟨k, hk, hto⟩ := okg.treeOrder_eq
  have hne0 : c.geom.treeOrder ≠ 0 := by have := okg.ho; omega
  unfold Lower.statsAt
  simp only [hdiv]
  -- the first load (bounds check of the table)
  have hfirst := hE 0 hTH
  show Runs m (Prog.load .huge (hugeIdx c.geom i 0) fun _ => _) _
  have : ∀ (body : Prog Stats) (Q : Stats → Mem → Prop), Runs m body Q →
      Runs m (Prog.load .huge (hugeIdx c.geom i 0) fun _ => body) Q := by
    intro body Q hb
    obtain ⟨m', a, e, q⟩ := hb
    exact ⟨m', a, by simp only [runSolo, hfirst]; exact e, q⟩
  apply this
  simp only [hne0, if_false]
  by_cases hth : c.geom.treeOrder = c.geom.hugeOrder
  · -- TREE_HUGE = 1: the tree is one huge frame
    simp only [hth, if_true]
    have hk0 : k = 0 := by omega
    have hth1 : c.geom.treeHuge = 1 := by rw [hk, hk0]
    have hh : i * c.geom.treeFrames / c.geom.hugeFrames % c.geom.treeHuge = 0 := by rw [hth1]; exact Nat.mod_one _
    rw [hh]
    apply Runs.bind (Runs.load (Q := fun v m' => v = m.hugeE (i * c.geom.treeHuge + 0) ∧ m = m') (hE 0 hTH) ⟨rfl, rfl⟩)
    rintro _ _ ⟨rfl, rfl⟩
    apply Runs.pure
    refine ⟨rfl, ?_⟩
    simp only
    rw [huge_free_exact okg m inv, Mem.freeInTree_eq_blockSum, hth1, blockSum_one]
  · simp only [hth, if_false, if_true]
    apply Runs.bind (treeFold_spec okg m inv i hi true)
    rintro ⟨ff, fh⟩ m' ⟨rfl, h1, _⟩
    apply Runs.pure
    exact ⟨rfl, h1⟩

/-- `stats_at(frame, TREE_ORDER)` for any frame of tree `i` -/
theorem statsAt_tree_spec' (okg : GeomOk c.geom) (m : Mem) (inv : LowerInv c m) (i : Nat) (hi : i < c.ntrees) (frame : Nat)
    (hfr : frame / c.geom.treeFrames = i) :
    Runs m (Lower.statsAt c.geom frame c.geom.treeOrder) (fun st m' => m = m' ∧
      st.freeFrames = m.freeInTree c.geom i) := by
  have hTF := okg.tf_pos
  have hHF := okg.hf_pos
  have hTH := okg.th_pos
  have hdiv : frame / c.geom.treeFrames = i := hfr
  have hsz : ∀ k, k < c.geom.treeHuge → i * c.geom.treeHuge + k < m.huge.size := by
    intro k hk
    rw [inv.hugeSize]
    have : (i + 1) * c.geom.treeHuge ≤ c.ntrees * c.geom.treeHuge := Nat.mul_le_mul_right _ hi
    rw [Nat.add_mul, Nat.one_mul] at this
    omega
  have hE : ∀ k, k < c.geom.treeHuge → m.get? .huge (hugeIdx c.geom i k) = some (m.hugeE (i * c.geom.treeHuge + k)) := by
    intro k hk
    simp only [Mem.get?_huge, hugeIdx]; unfold Mem.hugeE
    rw [Array.getElem?_eq_getElem (hsz k hk)]; rfl
  obtain ⟨k, hk, hto⟩ := okg.treeOrder_eq
  have hne0 : c.geom.treeOrder ≠ 0 := by have := okg.ho; omega
  unfold Lower.statsAt
  simp only [hdiv]
  -- the first load (bounds check of the table)
  have hfirst := hE 0 hTH
  show Runs m (Prog.load .huge (hugeIdx c.geom i 0) fun _ => _) _
  have : ∀ (body : Prog Stats) (Q : Stats → Mem → Prop), Runs m body Q →
      Runs m (Prog.load .huge (hugeIdx c.geom i 0) fun _ => body) Q := by
    intro body Q hb
    obtain ⟨m', a, e, q⟩ := hb
    exact ⟨m', a, by simp only [runSolo, hfirst]; exact e, q⟩
  apply this
  simp only [hne0, if_false]
  by_cases hth : c.geom.treeOrder = c.geom.hugeOrder
  · -- TREE_HUGE = 1: the tree is one huge frame
    simp only [hth, if_true]
    have hk0 : k = 0 := by omega
    have hth1 : c.geom.treeHuge = 1 := by rw [hk, hk0]
    have hh : frame / c.geom.hugeFrames % c.geom.treeHuge = 0 := by rw [hth1]; exact Nat.mod_one _
    rw [hh]
    apply Runs.bind (Runs.load (Q := fun v m' => v = m.hugeE (i * c.geom.treeHuge + 0) ∧ m = m') (hE 0 hTH) ⟨rfl, rfl⟩)
    rintro _ _ ⟨rfl, rfl⟩
    apply Runs.pure
    refine ⟨rfl, ?_⟩
    simp only
    rw [huge_free_exact okg m inv, Mem.freeInTree_eq_blockSum, hth1, blockSum_one]
  · simp only [hth, if_false, if_true]
    apply Runs.bind (treeFold_spec okg m inv i hi true)
    rintro ⟨ff, fh⟩ m' ⟨rfl, h1, _⟩
    apply Runs.pure
    exact ⟨rfl, h1⟩

/-- free frames, entirely free huge frames and entirely free trees of the allocation state,
    over the first `n` trees -/
def Mem.freeTotal (m : Mem) (g : Geom) (n : Nat) : Nat := blockSum (fun t => m.freeInTree g t) n
def Mem.freeTreesCount (m : Mem) (g : Geom) (n : Nat) : Nat :=
  blockSum (fun t => if m.freeInTree g t = g.treeFrames then 1 else 0) n
def Mem.freeHugeCount (m : Mem) (g : Geom) (n : Nat) : Nat :=
  blockSum (fun t => blockSum (fun k => if m.freeInHuge g (t * g.treeHuge + k) = g.hugeFrames then 1 else 0) g.treeHuge) n

theorem stats_go_spec (okg : GeomOk c.geom) (m : Mem) (inv : LowerInv c m) (cnt t : Nat) (ht : t + cnt ≤ c.ntrees) (s : Stats) :
    Runs m (Lower.stats.go c.geom cnt t s) (fun r m' => m = m' ∧
      r.freeFrames = s.freeFrames + blockSum (fun x => m.freeInTree c.geom (t + x)) cnt ∧
      r.freeTrees = s.freeTrees + blockSum (fun x => if m.freeInTree c.geom (t + x) = c.geom.treeFrames then 1 else 0) cnt ∧
      r.freeHuge = s.freeHuge + blockSum (fun x => blockSum (fun k =>
        if m.freeInHuge c.geom ((t + x) * c.geom.treeHuge + k) = c.geom.hugeFrames then 1 else 0) c.geom.treeHuge) cnt) := by
  induction cnt generalizing t s with
  | zero =>
    unfold Lower.stats.go
    exact Runs.pure ⟨rfl, by simp [blockSum], by simp [blockSum], by simp [blockSum]⟩
  | succ cnt ih =>
    unfold Lower.stats.go
    apply Runs.bind (treeFold_spec okg m inv t (by omega) false)
    rintro ⟨ff, fh⟩ _ ⟨rfl, h1, h2⟩
    simp only at h1 h2 ⊢
    apply Runs.mono (ih (t + 1) (by omega) _)
    rintro r _ ⟨rfl, e1, e2, e3⟩
    have sh1 : (fun x => m.freeInTree c.geom (t + 1 + x)) = (fun x => m.freeInTree c.geom (t + (x + 1))) := by
      funext x; congr 1; omega
    have sh2 : (fun x => if m.freeInTree c.geom (t + 1 + x) = c.geom.treeFrames then 1 else 0) =
        (fun x => if m.freeInTree c.geom (t + (x + 1)) = c.geom.treeFrames then 1 else 0) := by
      funext x; rw [show t + 1 + x = t + (x + 1) by omega]
    have sh3 : (fun x => blockSum (fun k =>
        if m.freeInHuge c.geom ((t + 1 + x) * c.geom.treeHuge + k) = c.geom.hugeFrames then 1 else 0) c.geom.treeHuge) =
        (fun x => blockSum (fun k =>
        if m.freeInHuge c.geom ((t + (x + 1)) * c.geom.treeHuge + k) = c.geom.hugeFrames then 1 else 0) c.geom.treeHuge) := by
      funext x; rw [show t + 1 + x = t + (x + 1) by omega]
    refine ⟨rfl, ?_, ?_, ?_⟩
    · rw [e1, blockSum_front, sh1, h1]; simp only [Nat.add_zero]; omega
    · rw [e2, blockSum_front, sh2, h1]; simp only [Nat.add_zero]; omega
    · rw [e3, blockSum_front, sh3, h2]
      simp only [Nat.add_zero, foldHuge, Bool.false_eq_true, if_false]
      omega

/-- **`Lower::stats`** (what `LLFree::stats` returns) is exact -/
theorem lower_stats_spec (okg : GeomOk c.geom) (m : Mem) (inv : LowerInv c m) :
    Runs m (Lower.stats c.geom c.ntrees) (fun r m' => m = m' ∧
      r.freeFrames = m.freeTotal c.geom c.ntrees ∧ r.freeTrees = m.freeTreesCount c.geom c.ntrees ∧
      r.freeHuge = m.freeHugeCount c.geom c.ntrees) := by
  unfold Lower.stats
  apply Runs.mono (stats_go_spec okg m inv c.ntrees 0 (by omega) {})
  rintro r _ ⟨rfl, e1, e2, e3⟩
  simp only [Nat.zero_add] at e1 e2 e3
  exact ⟨rfl, e1, e2, e3⟩

end
end LLFree
