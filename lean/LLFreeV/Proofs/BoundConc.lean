/-
  Step bounds under interleaving: whatever the schedule, every thread stays within the bound of the
  call it started, and completes within that many of its own accesses once the others are frozen.
-/
import LLFreeV.Proofs.BoundUpper
import LLFreeV.Proofs.Own
namespace LLFree

/-- the bounds of all threads are preserved by every step of every thread -/
theorem Th.Within.concStep {α : Type} (B : Nat → Nat) (m : Mem) (ths : Nat → Th α)
    (h : ∀ k, Th.Within (B k) (ths k)) (j : Nat) :
    ∀ k, Th.Within (B k) ((LLFree.concStep (m, ths) j).2 k) := by
  intro k
  unfold LLFree.concStep
  simp only
  cases hs : (ths j).step m with
  | done a => exact h k
  | dead s => exact h k
  | step t' m' a =>
    simp only [fupd]
    by_cases hk : k = j
    · subst hk
      simp only [if_true]
      exact Th.Within.step (h k) hs
    · simp only [hk, if_false]
      exact h k

theorem Th.Within.concRun {α : Type} (B : Nat → Nat) (sched : List Nat) :
    ∀ (m : Mem) (ths : Nat → Th α), (∀ k, Th.Within (B k) (ths k)) →
      ∀ k, Th.Within (B k) ((LLFree.concRun sched (m, ths)).2 k) := by
  induction sched with
  | nil => intro m ths h; exact h
  | cons j rest ih =>
    intro m ths h
    unfold LLFree.concRun
    simp only [List.foldl_cons]
    have := Th.Within.concStep B m ths h j
    exact ih (LLFree.concStep (m, ths) j).1 (LLFree.concStep (m, ths) j).2 this

/-- **Bounded completion from every state of every interleaving**: threads start calls `p k` with
    `Within (B k) (p k)`; after *any* schedule, if all threads but `k` are frozen, thread `k`
    finishes (returns or dies) within `B k` further accesses of its own. -/
theorem frozen_completion {α : Type} (p : Nat → Prog α) (B : Nat → Nat) (hB : ∀ k, Within (B k) (p k))
    (sched : List Nat) (m : Mem) (k : Nat) :
    ∃ n, n ≤ B k ∧
      (soloSteps n ((concRun sched (m, fun j => Th.at (p j))).2 k) (concRun sched (m, fun j => Th.at (p j))).1).1.finished = true :=
  Th.Within.solo (Th.Within.concRun B sched m (fun j => Th.at (p j)) (fun j => (hB j : Th.Within (B j) (Th.at (p j)))) k) _

end LLFree
