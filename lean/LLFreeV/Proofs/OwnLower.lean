/-
  Ownership reasoning for the whole lower allocator (bitfields **and** the huge-entry table with
  its counters and whole-huge markers) under arbitrary interleavings.

  Ghost state of a thread (`Gh`): the frames it holds as set bits (`ownS`), the huge frames it
  holds as whole allocations (`ownH`), and per huge frame the number `u h` of zero bits it is
  responsible for (taken from the counter and not yet claimed as bits, or cleared as bits and
  not yet added to the counter).

  Invariant (`LInv`): holdings of different threads are disjoint; held bits are set; a marked
  huge frame is held whole, its bitfield is empty and nobody has an open account on it;
  otherwise   counter + Σ_threads u = number of zero bits   — so a counter never over-reports.

  `SafeL strict g Post gh p`: the program `p` is safe for a thread with ghost `gh`: every write
  is a legal transition of this protocol, whatever the other threads do between its accesses.
  With `strict = true` no access may panic either.
-/
import LLFreeV.Proofs.OwnToggle2
import LLFreeV.Proofs.LowerRecover
namespace LLFree
open Prog

/-- panic messages of the lower allocator (`bitfield.rs`, `lower.rs`) on the get/put paths -/
def lowerMsgs : List String :=
  ["Failed undo toggle", "Failed undo search", "undo failed", "Undo failed", "Inc failed", "Failed partial clear",
   "Exceeding retries", "unreachable", "range end index out of range",
   "called `Result::unwrap()` on an `Err` value", "attempt to subtract with overflow"]
def LowerMsg (s : String) : Prop := s ∈ lowerMsgs
/-- every other message: the consistency checks of the upper level -/
def UpperMsg (s : String) : Prop := s ∉ lowerMsgs

structure Gh where
  ownS : Owned
  ownH : Nat → Bool
  u : Nat → Nat

/-- number of zero bits of a row -/
def zerosRow (v : BitVec 64) : Nat := (List.range 64).countP (fun b => !v.getLsbD b)

/-- number of frames of huge frame `h` a thread holds as bits -/
def cntH (g : Geom) (own : Owned) (h : Nat) : Nat :=
  (List.range g.hugeFrames).countP (fun i => own (h * g.hugeFrames + i))

/-- what a thread knows about table entry `h` -/
def KnownE (g : Geom) (gh : Gh) (h : Nat) (e : Nat) : Prop :=
  (gh.ownH h = true → Huge.isHuge e = true) ∧ (Huge.isHuge e = false → e ≤ g.hugeFrames) ∧
  (0 < gh.u h + cntH g gh.ownS h → Huge.isHuge e = false ∧ e + gh.u h + cntH g gh.ownS h ≤ g.hugeFrames)

/-- legal write of row `i` (of huge frame `i / rows`): ownership as in `Trans`, and the zero bits
    the write creates or consumes go to / come from the thread's account -/
structure TransRow (g : Geom) (gh gh' : Gh) (i : Nat) (old new : BitVec 64) : Prop where
  bits : Trans gh.ownS gh'.ownS i old new
  ownH : gh'.ownH = gh.ownH
  acct : gh'.u (i / g.rows) + zerosRow old = gh.u (i / g.rows) + zerosRow new
  other : ∀ h, h ≠ i / g.rows → gh'.u h = gh.u h

/-- legal write of table entry `h` -/
inductive TransE (g : Geom) (gh gh' : Gh) (h : Nat) (old new : Nat) : Prop where
  /-- move frames between the counter and the thread's account -/
  | counter (h1 : Huge.isHuge old = false) (h2 : Huge.isHuge new = false)
      (acct : new + gh'.u h = old + gh.u h) (other : ∀ x, x ≠ h → gh'.u x = gh.u x)
      (s : gh'.ownS = gh.ownS) (hh : gh'.ownH = gh.ownH)
  /-- allocate the entirely free huge frame as a whole -/
  | take (h1 : old = g.hugeFrames) (h2 : Huge.isHuge new = true)
      (s : gh'.ownS = gh.ownS) (u : gh'.u = gh.u) (hh : ∀ x, gh'.ownH x = (gh.ownH x || decide (x = h)))
  /-- free a huge frame held as a whole -/
  | give (h1 : Huge.isHuge old = true) (h2 : new = g.hugeFrames) (h3 : gh.ownH h = true)
      (s : gh'.ownS = gh.ownS) (u : gh'.u = gh.u) (hh : ∀ x, gh'.ownH x = (gh.ownH x && !decide (x = h)))

/-- safety of a program for a thread with ghost state `gh`; `strict = true` forbids panics -/
def SafeL {α : Type} (strict : Bool) (g : Geom) (Post : α → Gh → Prop) : Gh → Prog α → Prop
  | gh, .ret a => Post a gh
  | _, .panic s => strict = false ∧ UpperMsg s
  | gh, .load .row i c => ∀ v : BitVec 64, Known gh.ownS i v → SafeL strict g Post gh (c v)
  | gh, .load .huge h c => ∀ e : Nat, KnownE g gh h e → SafeL strict g Post gh (c e)
  | gh, .load .tree _ c => ∀ v, SafeL strict g Post gh (c v)
  | gh, .load .slot _ c => ∀ v, SafeL strict g Post gh (c v)
  | _, .store .row _ _ _ => False
  | _, .store .huge _ _ _ => False
  | gh, .store .tree _ _ c => SafeL strict g Post gh c
  | gh, .store .slot _ _ c => SafeL strict g Post gh c
  | _, .swap .row _ _ _ => False
  | _, .swap .huge _ _ _ => False
  | gh, .swap .tree _ _ c => ∀ o, SafeL strict g Post gh (c o)
  | gh, .swap .slot _ _ c => ∀ o, SafeL strict g Post gh (c o)
  | gh, .cas .row i e n c => ∀ cur : BitVec 64, Known gh.ownS i cur →
      (cur = e → ∃ gh', TransRow g gh gh' i e n ∧ SafeL strict g Post gh' (c (.ok cur))) ∧
      (cur ≠ e → SafeL strict g Post gh (c (.error cur)))
  | gh, .cas .huge h e n c => ∀ cur : Nat, KnownE g gh h cur →
      (cur = e → ∃ gh', TransE g gh gh' h e n ∧ SafeL strict g Post gh' (c (.ok cur))) ∧
      (cur ≠ e → SafeL strict g Post gh (c (.error cur)))
  | gh, .cas .tree _ _ _ c => ∀ r, SafeL strict g Post gh (c r)
  | gh, .cas .slot _ _ _ c => ∀ r, SafeL strict g Post gh (c r)
  | gh, .casPart i sh w e n c => ∀ cur : BitVec 64, Known gh.ownS i cur →
      (∀ r, casPartVal cur sh w e n = some r → ∃ gh', TransRow g gh gh' i cur r ∧ SafeL strict g Post gh' (c true)) ∧
      (casPartVal cur sh w e n = none → SafeL strict g Post gh (c false))
  | gh, .upd .row i f c => ∀ cur : BitVec 64, Known gh.ownS i cur →
      match f cur with
      | .skip => SafeL strict g Post gh (c (.error cur))
      | .set v => ∃ gh', TransRow g gh gh' i cur v ∧ SafeL strict g Post gh' (c (.ok cur))
      | .panic s => strict = false ∧ UpperMsg s
  | gh, .upd .huge h f c => ∀ cur : Nat, KnownE g gh h cur →
      match f cur with
      | .skip => SafeL strict g Post gh (c (.error cur))
      | .set v => ∃ gh', TransE g gh gh' h cur v ∧ SafeL strict g Post gh' (c (.ok cur))
      | .panic s => strict = false ∧ UpperMsg s
  | gh, .upd .tree _ f c => ∀ cur, match f cur with
      | .skip => SafeL strict g Post gh (c (.error cur))
      | .set _ => SafeL strict g Post gh (c (.ok cur))
      | .panic s => strict = false ∧ UpperMsg s
  | gh, .upd .slot _ f c => ∀ cur, match f cur with
      | .skip => SafeL strict g Post gh (c (.error cur))
      | .set _ => SafeL strict g Post gh (c (.ok cur))
      | .panic s => strict = false ∧ UpperMsg s

section
variable {α β : Type} {strict : Bool} {g : Geom}

/-- sequencing -/
theorem SafeL.bind {Q : α → Gh → Prop} {P : β → Gh → Prop} (f : α → Prog β) :
    ∀ (p : Prog α) (gh : Gh), SafeL strict g Q gh p → (∀ a o, Q a o → SafeL strict g P o (f a)) →
      SafeL strict g P gh (p >>= f) := by
  intro p
  show ∀ gh, SafeL strict g Q gh p → _ → SafeL strict g P gh (p.bind f)
  induction p with
  | ret a => exact fun gh hp hf => hf a gh hp
  | panic s => exact fun _ hp _ => hp
  | load k i c ih =>
    intro gh hp hf
    cases k with
    | row => exact fun v hv => ih v gh (hp v hv) hf
    | huge => exact fun v hv => ih v gh (hp v hv) hf
    | tree => exact fun v => ih v gh (hp v) hf
    | slot => exact fun v => ih v gh (hp v) hf
  | store k i v c ih =>
    intro gh hp hf
    cases k with
    | row => exact hp
    | huge => exact hp
    | tree => exact ih gh hp hf
    | slot => exact ih gh hp hf
  | swap k i v c ih =>
    intro gh hp hf
    cases k with
    | row => exact hp
    | huge => exact hp
    | tree => exact fun o => ih o gh (hp o) hf
    | slot => exact fun o => ih o gh (hp o) hf
  | cas k i e n c ih =>
    intro gh hp hf
    cases k with
    | row =>
      intro cur hk
      obtain ⟨h1, h2⟩ := hp cur hk
      refine ⟨fun he => ?_, fun hne => ih _ gh (h2 hne) hf⟩
      obtain ⟨gh', ht, hs⟩ := h1 he
      exact ⟨gh', ht, ih _ gh' hs hf⟩
    | huge =>
      intro cur hk
      obtain ⟨h1, h2⟩ := hp cur hk
      refine ⟨fun he => ?_, fun hne => ih _ gh (h2 hne) hf⟩
      obtain ⟨gh', ht, hs⟩ := h1 he
      exact ⟨gh', ht, ih _ gh' hs hf⟩
    | tree => exact fun r => ih r gh (hp r) hf
    | slot => exact fun r => ih r gh (hp r) hf
  | casPart i sh w e n c ih =>
    intro gh hp hf cur hk
    obtain ⟨h1, h2⟩ := hp cur hk
    refine ⟨fun r hr => ?_, fun hn => ih _ gh (h2 hn) hf⟩
    obtain ⟨gh', ht, hs⟩ := h1 r hr
    exact ⟨gh', ht, ih _ gh' hs hf⟩
  | upd k i fu c ih =>
    intro gh hp hf
    cases k with
    | row =>
      intro cur hk
      have := hp cur hk
      cases hg : fu cur with
      | skip => rw [hg] at this; exact ih _ gh this hf
      | set v =>
        rw [hg] at this
        obtain ⟨gh', ht, hs⟩ := this
        exact ⟨gh', ht, ih _ gh' hs hf⟩
      | panic s => rw [hg] at this; exact this
    | huge =>
      intro cur hk
      have := hp cur hk
      cases hg : fu cur with
      | skip => rw [hg] at this; exact ih _ gh this hf
      | set v =>
        rw [hg] at this
        obtain ⟨gh', ht, hs⟩ := this
        exact ⟨gh', ht, ih _ gh' hs hf⟩
      | panic s => rw [hg] at this; exact this
    | tree =>
      intro cur
      have := hp cur
      cases hg : fu cur with
      | skip => rw [hg] at this; exact ih _ gh this hf
      | set v => rw [hg] at this; exact ih _ gh this hf
      | panic s => rw [hg] at this; exact this
    | slot =>
      intro cur
      have := hp cur
      cases hg : fu cur with
      | skip => rw [hg] at this; exact ih _ gh this hf
      | set v => rw [hg] at this; exact ih _ gh this hf
      | panic s => rw [hg] at this; exact this

theorem Prog.bind_ret_self (p : Prog α) : p.bind (fun a => Prog.ret a) = p := by
  induction p with
  | ret a => rfl
  | panic s => rfl
  | load k i c ih => simp only [Prog.bind]; congr 1; funext v; exact ih v
  | store k i v c ih => simp only [Prog.bind]; congr 1
  | swap k i v c ih => simp only [Prog.bind]; congr 1; funext v; exact ih v
  | cas k i e n c ih => simp only [Prog.bind]; congr 1; funext v; exact ih v
  | casPart i sh w e n c ih => simp only [Prog.bind]; congr 1; funext v; exact ih v
  | upd k i fu c ih => simp only [Prog.bind]; congr 1; funext v; exact ih v

theorem SafeL.mono {P Q : α → Gh → Prop} (h : ∀ a o, P a o → Q a o) (p : Prog α) (gh : Gh)
    (hp : SafeL strict g P gh p) : SafeL strict g Q gh p := by
  have := SafeL.bind (strict := strict) (g := g) (Q := P) (P := Q) (fun a => Prog.ret a) p gh hp (fun a o ha => h a o ha)
  have e : p >>= (fun a => Prog.ret a) = p := Prog.bind_ret_self p
  rw [e] at this; exact this

end

/-- `SafeL` for a thread between two accesses -/
def Th.SafeL {α : Type} (strict : Bool) (g : Geom) (Post : α → Gh → Prop) (gh : Gh) : Th α → Prop
  | .at p => LLFree.SafeL strict g Post gh p
  | .updCas .row i f cur new c =>
      (∃ gh', TransRow g gh gh' i cur new ∧ LLFree.SafeL strict g Post gh' (c (.ok cur))) ∧
      LLFree.SafeL strict g Post gh (.upd .row i f c)
  | .updCas .huge h f cur new c =>
      (∃ gh', TransE g gh gh' h cur new ∧ LLFree.SafeL strict g Post gh' (c (.ok cur))) ∧
      LLFree.SafeL strict g Post gh (.upd .huge h f c)
  | .updCas .tree i f cur _ c =>
      LLFree.SafeL strict g Post gh (c (.ok cur)) ∧ LLFree.SafeL strict g Post gh (.upd .tree i f c)
  | .updCas .slot i f cur _ c =>
      LLFree.SafeL strict g Post gh (c (.ok cur)) ∧ LLFree.SafeL strict g Post gh (.upd .slot i f c)

end LLFree
