/-
  "Every free of a held block succeeds" at the public interface, under every interleaving.

  `LLFree::put` returns an error in exactly one place once the lower allocator owns up to the
  block: the argument check at its start (`check`). A thread-local argument shows that a failing
  `put` of a held block (freed at its allocation order) means the check rejected it
  (`put_LS`); the global invariant shows that the check cannot reject a held block: every block a
  thread holds lies inside the managed range (`ConcFacts.inRangeS/H`), is aligned and of a valid
  order. The runner `runUS` stops at the first failing free and reports it; the theorem says the
  report is never made.
-/
import LLFreeV.Proofs.ConcUpperThreads
namespace LLFree
open Prog

/-- what `LLFree::check` demands -/
def CheckOk (c : Cfg) (frame : Nat) (r : Request) : Prop :=
  r.order ≤ c.geom.treeOrder ∧ (frame + 2 ^ r.order < 2 ^ 64 ∧ frame + 2 ^ r.order ≤ c.frames) ∧ frame % 2 ^ r.order = 0 ∧
    (c.slotRange r.cls).isSome = true

section
variable (c : Cfg)

theorem classLocals_neutS (cls : Nat) : Neut (fun l => l = (c.slotRange cls).map (·.2)) (Locals.classLocals c cls) := by
  simp only [Locals.classLocals, Locals.classRange]
  split <;> simp

/-- the argument check passes exactly on `CheckOk` -/
theorem check_neutS (frame : Nat) (r : Request) :
    Neut (fun res => (res = .ok () → r.order ≤ c.geom.treeOrder ∧ frame % 2 ^ r.order = 0) ∧
      (∀ e, res = .error e → ¬ CheckOk c frame r)) (check c frame r) := by
  unfold check
  split
  · rename_i h1
    simp only [neut_pure]
    refine ⟨(fun h => by cases h), fun e _ hc => ?_⟩
    have := hc.1
    simp at h1
    dsimp only [Cfg.g] at h1
    omega
  · rename_i h1
    split
    · rename_i h2
      simp only [neut_pure]
      refine ⟨(fun h => by cases h), fun e _ hc => ?_⟩
      have := hc.2.1
      simp at h2
      omega
    · split
      · rename_i h3
        simp only [neut_pure]
        refine ⟨(fun h => by cases h), fun e _ hc => ?_⟩
        exact h3 hc.2.2.1
      · rename_i h3
        simp only [neut_bind_iff]
        apply Neut.mono _ _ (classLocals_neutS c r.cls)
        intro l hl
        simp only [neut_pure]
        subst hl
        refine ⟨fun _ => ⟨by simpa [Cfg.g] using h1, by simpa using h3⟩, fun e he hc => ?_⟩
        have := hc.2.2.2
        cases hs : c.slotRange r.cls with
        | none => rw [hs] at this; cases this
        | some rng => rw [hs] at he; simp at he

/-- a failing free of a held block was rejected by the argument check -/
def UPutPostS (gh : Gh) (frame : Nat) (r : Request) : Res Unit → Gh → Prop
  | .ok _, gh' => gh' = dropBlock c.geom gh r.order frame
  | .error _, gh' => gh' = gh ∧ ¬ CheckOk c frame r

/-- **`LLFree::put` of a held block for one thread among many: it fails only in the argument check** -/
theorem put_LS (ok : GeomOk16 c.geom) (gh : Gh) (frame : Nat) (r : Request) (hheld : HoldsBlock c.geom gh r.order frame) :
    SafeL false c.geom (UPutPostS c gh frame r) gh (put c frame r) := by
  unfold put
  apply SafeL.bind _ _ _ (Neut.safeL gh _ (check_neutS c frame r))
  rintro ck gh0 ⟨rfl, hck⟩
  cases ck with
  | error e => exact ⟨rfl, hck.2 e rfl⟩
  | ok u =>
    obtain ⟨hord, hal⟩ := hck.1 rfl
    simp only
    have hlp : SafeL false c.geom (fun lp gh' => lp = .ok () ∧ gh' = dropBlock c.geom gh0 r.order frame) gh0
        (Lower.put c.g retries frame r.order) := by
      unfold HoldsBlock at hheld
      unfold dropBlock
      by_cases ho : r.order < c.geom.hugeOrder
      · rw [if_pos ho] at hheld ⊢
        exact putL_small ok gh0 retries frame r.order ho hal hheld
      · rw [if_neg ho] at hheld ⊢
        exact putL_huge ok gh0 retries frame r.order (by omega) hheld.1 hheld.2
    apply SafeL.bind _ _ _ hlp
    rintro lp gh1 ⟨rfl, h1⟩
    simp only
    have tail : ∀ p : Prog (Res Unit), Neut (fun res => res = .ok ()) p →
        SafeL false c.geom (UPutPostS c gh0 frame r) gh1 p := by
      intro p hp
      apply SafeL.mono _ _ _ (Neut.safeL gh1 _ hp)
      rintro res gh2 ⟨rfl, rfl⟩
      exact h1
    apply tail
    have hfin : ∀ b : Bool, Neut (fun (res : Res Unit) => res = .ok ())
        (if b = true then pure (.ok ()) else do tput c (frame / c.tf) (2 ^ r.order); pure (.ok ())) := by
      intro b
      cases b with
      | true => simp
      | false =>
        simp only [Bool.false_eq_true, if_false, neut_bind_iff]
        apply Neut.mono _ _ (tput_neut c _ _)
        intro _ _; simp
    cases r.loc with
    | none => simp only [neut_bind_iff, neut_pure]; exact hfin false
    | some l =>
      simp only [neut_bind_iff]
      apply Neut.mono _ _ (locals_put_neut c _ _ _ _)
      intro b _
      exact hfin b

end

/-- the strict runner: like `runU`, but a failing free of a held block ends the thread with the
    flag set -/
def runUS (c : Cfg) : List UCmd → Held → Prog (Held × Bool)
  | [], held => pure (held, false)
  | .get frame r :: rest, held => do
    let res ← get c frame r
    match res with
    | .ok (f, _) =>
      if r.order < c.geom.hugeOrder then runUS c rest { held with small := ⟨f / c.geom.hugeFrames, f, r.order⟩ :: held.small }
      else runUS c rest { held with huge := ⟨f, r.order⟩ :: held.huge }
    | .error _ => runUS c rest held
  | .putS idx cls loc :: rest, held =>
    match held.small[idx]? with
    | some b => do
      let res ← put c b.i ⟨b.order, cls, loc⟩
      match res with
      | .ok _ => runUS c rest { held with small := held.small.eraseIdx idx }
      | .error _ => pure (held, true)
    | none => runUS c rest held
  | .putH idx cls loc :: rest, held =>
    match held.huge[idx]? with
    | some b => do
      let res ← put c b.frame ⟨b.order, cls, loc⟩
      match res with
      | .ok _ => runUS c rest { held with huge := held.huge.eraseIdx idx }
      | .error _ => pure (held, true)
    | none => runUS c rest held
  | .drain :: rest, held => do
    drain c
    runUS c rest held

/-- the frees name a class that has local slots (a "valid parameter": `check` rejects others) -/
def UCmd.validS (c : Cfg) : UCmd → Prop
  | .get _ r => r.cls < 8 ∧ r.locOk c
  | .putS _ cls loc => (cls < 8 ∧ ∀ l rng, loc = some l → c.slotRange cls = some rng → l < rng.2) ∧ (c.slotRange cls).isSome = true
  | .putH _ cls loc => (cls < 8 ∧ ∀ l rng, loc = some l → c.slotRange cls = some rng → l < rng.2) ∧ (c.slotRange cls).isSome = true
  | .drain => True

theorem UCmd.validS.valid {c : Cfg} {x : UCmd} (h : x.validS c) : x.valid c := by
  cases x with
  | get f r => exact h
  | putS i cl l => exact h.1
  | putH i cl l => exact h.1
  | drain => trivial

/-- huge blocks are aligned to their order -/
def HeldAl (g : Geom) (held : Held) : Prop :=
  ∀ b ∈ held.huge, b.frame % g.hugeFrames = 0 ∧ (b.frame / g.hugeFrames) % 2 ^ (b.order - g.hugeOrder) = 0

/-- every held block ends inside the managed range -/
def HeldIn (c : Cfg) (held : Held) : Prop :=
  (∀ b ∈ held.small, b.i + 2 ^ b.order ≤ c.frames) ∧ (∀ b ∈ held.huge, b.frame + 2 ^ b.order ≤ c.frames)

def PostLS (c : Cfg) : Held × Bool → Gh → Prop :=
  fun a gh' => gh' = ghOf c.geom a.1 ∧ HeldOkL c.geom a.1 ∧ HeldAl c.geom a.1 ∧ (a.2 = true → ¬ HeldIn c a.1)

section
variable {c : Cfg}

theorem frames_lt_2_64 (ok : CfgOk c) : c.frames + c.geom.treeFrames < 2 ^ 64 := by
  have okg := ok.geom.toGeomOk
  have h1 := ok.rows44
  have h2 := okg.treeRows_mul
  have h3 := ok.tf19
  have hpos := okg.tf_pos
  have h4 : c.frames ≤ c.ntrees * c.geom.treeFrames := by
    unfold Cfg.ntrees
    have := Nat.div_add_mod (c.frames + c.geom.treeFrames - 1) c.geom.treeFrames
    have := Nat.mod_lt (c.frames + c.geom.treeFrames - 1) hpos
    rw [Nat.mul_comm]
    generalize (c.frames + c.geom.treeFrames - 1) / c.geom.treeFrames = q at *
    generalize c.geom.treeFrames * q = qq at *
    omega
  rw [← h2] at h4
  generalize c.geom.treeRows = tr at *
  generalize c.ntrees = nt at *
  have : nt * (tr * 64) = nt * tr * 64 := by rw [Nat.mul_assoc]
  omega

/-- alignment of the huge index and of the offset gives alignment of the frame -/
theorem huge_aligned_of_div (okg : GeomOk c.geom) (f order : Nat) (ho : c.geom.hugeOrder ≤ order)
    (h1 : f % c.geom.hugeFrames = 0) (h2 : (f / c.geom.hugeFrames) % 2 ^ (order - c.geom.hugeOrder) = 0) : f % 2 ^ order = 0 := by
  have hsplit : 2 ^ order = 2 ^ (order - c.geom.hugeOrder) * c.geom.hugeFrames := by
    show _ = _ * 2 ^ c.geom.hugeOrder
    rw [← Nat.pow_add]; congr 1; omega
  obtain ⟨z, hz⟩ := Nat.dvd_of_mod_eq_zero h2
  have hf : f = c.geom.hugeFrames * (f / c.geom.hugeFrames) := by
    have := Nat.div_add_mod f c.geom.hugeFrames; omega
  rw [hf, hz, hsplit, Nat.mul_comm c.geom.hugeFrames, Nat.mul_assoc, Nat.mul_comm z, ← Nat.mul_assoc]
  exact Nat.mul_mod_right _ _

/-- a huge block that fits its tree has an order up to the tree order -/
theorem HB.order_le (okg : GeomOk c.geom) (b : HB) (hb : b.ok c.geom) : b.order ≤ c.geom.treeOrder := by
  obtain ⟨K, hK, hto⟩ := okg.treeOrder_eq
  have h := hb.2
  unfold HB.cnt at h
  rw [hK] at h
  have : 2 ^ (b.order - c.geom.hugeOrder) ≤ 2 ^ K := by omega
  have := (Nat.pow_le_pow_iff_right (by omega : 1 < 2)).1 this
  omega

/-- **the strict runner is safe for the lower protocol**; a set flag means some held block ends
    outside the managed range -/
theorem runUS_safe (ok : CfgOk c) (cmds : List UCmd) (hvalid : ∀ x ∈ cmds, x.validS c) :
    ∀ (held : Held), HeldOkL c.geom held → HeldAl c.geom held →
      SafeL false c.geom (PostLS c) (ghOf c.geom held) (runUS c cmds held) := by
  have okg := ok.geom.toGeomOk
  have ok16 := ok.geom
  have h64 := frames_lt_2_64 ok
  induction cmds with
  | nil => intro held hok hal; exact ⟨rfl, hok, hal, fun h => by cases h⟩
  | cons cmd rest ih =>
    have hv := hvalid cmd List.mem_cons_self
    have ih := ih (fun x hx => hvalid x (List.mem_cons_of_mem _ hx))
    intro held hok hal
    cases cmd with
    | get frame r =>
      unfold runUS
      apply SafeL.bind _ _ _ (get_L c ok16 (ghOf c.geom held) frame r)
      intro res gh1 h1
      cases res with
      | error e => have h1' : gh1 = ghOf c.geom held := h1; rw [h1']; exact ih held hok hal
      | ok x =>
        obtain ⟨f, k⟩ := x
        have hb : GotBlock c.geom (ghOf c.geom held) r.order f gh1 := h1
        unfold GotBlock at hb
        simp only
        by_cases ho : r.order < c.geom.hugeOrder
        · rw [if_pos ho] at hb ⊢
          obtain ⟨hal', h1, hnone⟩ := hb
          rw [h1, ghOf_addS]
          apply ih
          · have hsm : SmallOk c.geom ⟨f / c.geom.hugeFrames, f, r.order⟩ := ⟨ho, hal', rfl⟩
            refine ⟨⟨⟨by show r.order ≤ c.geom.hugeOrder; omega, aligned_mod_hf okg f r.order (by omega) hal'⟩, ?_, hok.1⟩, ?_, hok.2.2⟩
            · intro x hx
              unfold Blk.has at hx
              rw [blk_start _ hsm] at hx
              exact hnone x hx
            · intro b hb
              rcases List.mem_cons.1 hb with e | e
              · rw [e]; exact hsm
              · exact hok.2.1 b e
          · exact hal
        · rw [if_neg ho] at hb ⊢
          obtain ⟨hal', hfit, h1, hnone⟩ := hb
          rw [h1, ghOf_addH]
          apply ih
          · exact ⟨hok.1, hok.2.1, ⟨Nat.le_of_not_lt ho, hfit⟩, hnone, hok.2.2⟩
          · intro b hb
            rcases List.mem_cons.1 hb with e | e
            · rw [e]; exact hal'
            · exact hal b e
    | putS idx cls loc =>
      unfold runUS
      cases hg : held.small[idx]? with
      | none => exact ih held hok hal
      | some b =>
        simp only
        have hbm : b ∈ held.small := List.mem_of_getElem? hg
        have hsm := hok.2.1 b hbm
        have hst := blk_start b hsm
        have hheld : HoldsBlock c.geom (ghOf c.geom held) b.order b.i := by
          unfold HoldsBlock; rw [if_pos hsm.1]
          exact fun f hf => ownedBy_of_mem c.geom held.small b hbm f (by unfold Blk.has; rw [hst]; exact hf)
        apply SafeL.bind _ _ _ (put_LS c ok16 (ghOf c.geom held) b.i ⟨b.order, cls, loc⟩ hheld)
        intro res gh1 h1
        cases res with
        | error e =>
          obtain ⟨h1', hno⟩ := (h1 : gh1 = ghOf c.geom held ∧ ¬ CheckOk c b.i ⟨b.order, cls, loc⟩)
          refine ⟨h1', hok, hal, fun _ hin => hno ?_⟩
          have hr := hin.1 b hbm
          have := okg.treeOrder_eq
          obtain ⟨K, _, hto⟩ := this
          have hlt := hsm.1
          exact ⟨by show b.order ≤ _; omega, ⟨Nat.lt_of_le_of_lt hr (by omega), hr⟩, hsm.2.1, hv.2⟩
        | ok u =>
          have h1' : gh1 = dropBlock c.geom (ghOf c.geom held) b.order b.i := h1
          unfold dropBlock at h1'
          rw [if_pos hsm.1] at h1'
          simp only
          obtain ⟨e1, e2⟩ := ownedBy_eraseIdx c.geom held.small idx b hok.1 hg
          have : gh1 = ghOf c.geom { held with small := held.small.eraseIdx idx } := by
            rw [h1']
            refine Gh.ext' _ _ ?_ rfl (fun _ => rfl)
            show subBlock (ownedBy c.geom held.small) b.i (2 ^ b.order) = ownedBy c.geom (held.small.eraseIdx idx)
            rw [e1, hst]
          rw [this]
          apply ih
          · exact ⟨e2, fun b' hb' => hok.2.1 b' (List.mem_of_mem_eraseIdx hb'), hok.2.2⟩
          · exact hal
    | drain =>
      unfold runUS
      apply SafeL.bind _ _ _ (Neut.safeL (ghOf c.geom held) _ (drain_neut c))
      rintro _ gh1 ⟨rfl, _⟩
      exact ih held hok hal
    | putH idx cls loc =>
      unfold runUS
      cases hg : held.huge[idx]? with
      | none => exact ih held hok hal
      | some b =>
        simp only
        have hbm : b ∈ held.huge := List.mem_of_getElem? hg
        have hbok := hok.2.2.mem b hbm
        have hnot : ¬ b.order < c.geom.hugeOrder := Nat.not_lt.2 hbok.1
        have hheld : HoldsBlock c.geom (ghOf c.geom held) b.order b.frame := by
          unfold HoldsBlock; rw [if_neg hnot]
          exact ⟨hbok.2, fun x hx => ownedHBy_of_mem c.geom held.huge b hbm x hx⟩
        apply SafeL.bind _ _ _ (put_LS c ok16 (ghOf c.geom held) b.frame ⟨b.order, cls, loc⟩ hheld)
        intro res gh1 h1
        cases res with
        | error e =>
          obtain ⟨h1', hno⟩ := (h1 : gh1 = ghOf c.geom held ∧ ¬ CheckOk c b.frame ⟨b.order, cls, loc⟩)
          refine ⟨h1', hok, hal, fun _ hin => hno ?_⟩
          have hr := hin.2 b hbm
          have hb2 := hal b hbm
          exact ⟨HB.order_le okg b hbok, ⟨Nat.lt_of_le_of_lt hr (by omega), hr⟩,
            huge_aligned_of_div okg b.frame b.order hbok.1 hb2.1 hb2.2, hv.2⟩
        | ok u =>
          have h1' : gh1 = dropBlock c.geom (ghOf c.geom held) b.order b.frame := h1
          unfold dropBlock at h1'
          rw [if_neg hnot] at h1'
          simp only
          obtain ⟨e1, e2⟩ := ownedHBy_eraseIdx c.geom held.huge idx b hok.2.2 hg
          have : gh1 = ghOf c.geom { held with huge := held.huge.eraseIdx idx } := by
            rw [h1']
            refine Gh.ext' _ _ rfl ?_ (fun _ => rfl)
            funext x
            show (ownedHBy c.geom held.huge x && !inBlockF (b.frame / c.geom.hugeFrames) (2 ^ (b.order - c.geom.hugeOrder)) x) =
              ownedHBy c.geom (held.huge.eraseIdx idx) x
            rw [e1 x]; rfl
          rw [this]
          apply ih
          · exact ⟨hok.1, hok.2.1, e2⟩
          · exact fun b' hb' => hal b' (List.mem_of_mem_eraseIdx hb')

end

def PostUS (c : Cfg) : Held × Bool → UGh → Prop := fun a ug' => ug' = ugOf c.geom.treeFrames a.1

section
variable {c : Cfg}

/-- **the strict runner is safe for the upper protocol** -/
theorem runUS_safeU (ok : CfgOk c) (cmds : List UCmd) (hvalid : ∀ x ∈ cmds, x.validS c) :
    ∀ (held : Held), SafeU c (PostUS c) (ugOf c.geom.treeFrames held) (runUS c cmds held) := by
  induction cmds with
  | nil => intro held; rfl
  | cons cmd rest ih =>
    have hv := (hvalid cmd List.mem_cons_self).valid
    have ih := ih (fun x hx => hvalid x (List.mem_cons_of_mem _ hx))
    intro held
    cases cmd with
    | get frame r =>
      unfold runUS
      apply SafeU.bind _ _ _ (get_U ok _ frame r hv.1 hv.2)
      intro res ug1 h1
      cases res with
      | error e => simp only [UGetPostU] at h1; subst ug1; exact ih held
      | ok x =>
        obtain ⟨f, k⟩ := x
        simp only [UGetPostU] at h1
        subst h1
        simp only
        split
        · have : (ugOf c.geom.treeFrames held).addBase (f / c.geom.treeFrames) (2 ^ r.order) =
              ugOf c.geom.treeFrames { held with small := ⟨f / c.geom.hugeFrames, f, r.order⟩ :: held.small } := by
            apply UGh.ext'
            · intro i
              simp only [UGh.addBase_base, ugOf, smallBase, List.map_cons, List.sum_cons]
              by_cases e : i = f / c.geom.treeFrames
              · subst e; simp; omega
              · have e' : ¬ f / c.geom.treeFrames = i := fun x => e x.symm
                simp [e, e']
            · intro i; rfl
          rw [this]; exact ih _
        · have : (ugOf c.geom.treeFrames held).addBase (f / c.geom.treeFrames) (2 ^ r.order) =
              ugOf c.geom.treeFrames { held with huge := ⟨f, r.order⟩ :: held.huge } := by
            apply UGh.ext'
            · intro i
              simp only [UGh.addBase_base, ugOf, hugeBase, List.map_cons, List.sum_cons]
              by_cases e : i = f / c.geom.treeFrames
              · subst e; simp; omega
              · have e' : ¬ f / c.geom.treeFrames = i := fun x => e x.symm
                simp [e, e']
            · intro i; rfl
          rw [this]; exact ih _
    | putS idx cls loc =>
      unfold runUS
      cases hb : held.small[idx]? with
      | none => exact ih held
      | some b =>
        simp only
        have hle : 2 ^ b.order ≤ (ugOf c.geom.treeFrames held).base (b.i / c.geom.treeFrames) := by
          have := le_sum_map_of_getElem (fun x : Blk => if x.i / c.geom.treeFrames = b.i / c.geom.treeFrames then 2 ^ x.order else 0)
            held.small idx b hb
          simp only [if_true] at this
          show _ ≤ smallBase _ _ _ + _
          unfold smallBase; omega
        apply SafeU.bind _ _ _ (put_U ok _ b.i ⟨b.order, cls, loc⟩ hle hv.1 hv.2)
        intro res ug1 h1
        cases res with
        | error e => simp only [UPutPostU] at h1; subst ug1; rfl
        | ok _ =>
          simp only [UPutPostU] at h1
          subst h1
          have : (ugOf c.geom.treeFrames held).subBase (b.i / c.geom.treeFrames) (2 ^ b.order) =
              ugOf c.geom.treeFrames { held with small := held.small.eraseIdx idx } := by
            apply UGh.ext'
            · intro i
              have := sum_map_eraseIdx (fun x : Blk => if x.i / c.geom.treeFrames = i then 2 ^ x.order else 0) held.small idx b hb
              simp only [UGh.subBase_base, ugOf, smallBase]
              by_cases e : i = b.i / c.geom.treeFrames
              · subst e; simp only [if_true] at this ⊢; omega
              · have e' : ¬ b.i / c.geom.treeFrames = i := fun x => e x.symm
                simp only [if_neg e, if_neg e'] at this ⊢; omega
            · intro i; rfl
          rw [this]; exact ih _
    | putH idx cls loc =>
      unfold runUS
      cases hb : held.huge[idx]? with
      | none => exact ih held
      | some b =>
        simp only
        have hle : 2 ^ b.order ≤ (ugOf c.geom.treeFrames held).base (b.frame / c.geom.treeFrames) := by
          have := le_sum_map_of_getElem (fun x : HB => if x.frame / c.geom.treeFrames = b.frame / c.geom.treeFrames then 2 ^ x.order else 0)
            held.huge idx b hb
          simp only [if_true] at this
          show _ ≤ _ + hugeBase _ _ _
          unfold hugeBase; omega
        apply SafeU.bind _ _ _ (put_U ok _ b.frame ⟨b.order, cls, loc⟩ hle hv.1 hv.2)
        intro res ug1 h1
        cases res with
        | error e => simp only [UPutPostU] at h1; subst ug1; rfl
        | ok _ =>
          simp only [UPutPostU] at h1
          subst h1
          have : (ugOf c.geom.treeFrames held).subBase (b.frame / c.geom.treeFrames) (2 ^ b.order) =
              ugOf c.geom.treeFrames { held with huge := held.huge.eraseIdx idx } := by
            apply UGh.ext'
            · intro i
              have := sum_map_eraseIdx (fun x : HB => if x.frame / c.geom.treeFrames = i then 2 ^ x.order else 0) held.huge idx b hb
              simp only [UGh.subBase_base, ugOf, hugeBase]
              by_cases e : i = b.frame / c.geom.treeFrames
              · subst e; simp only [if_true] at this ⊢; omega
              · have e' : ¬ b.frame / c.geom.treeFrames = i := fun x => e x.symm
                simp only [if_neg e, if_neg e'] at this ⊢; omega
            · intro i; rfl
          rw [this]; exact ih _
    | drain =>
      unfold runUS
      apply SafeU.bind _ _ _ (drain_U ok _)
      intro _ ug1 h1
      subst ug1
      exact ih held


/-- the combined invariant for the strict runner, in every state of every interleaving -/
theorem conc_cinvS (ok : CfgOk c) (H : Nat → Nat) (m : Mem) (inv : UpperInv0 c H m)
    (n : Nat) (cmds : Nat → List UCmd) (hvalid : ∀ k, ∀ x ∈ cmds k, x.validS c) (sched : List Nat) (hsched : ∀ k ∈ sched, k < n) :
    ∃ ghs ugs, CInv c H n c.frames (PostLS c) (PostUS c)
      (concRun sched (m, fun k => Th.at (runUS c (cmds k) ⟨[], []⟩))).1
      (concRun sched (m, fun k => Th.at (runUS c (cmds k) ⟨[], []⟩))).2 ghs ugs := by
  have L0 := LInv.init_gen ok.geom m inv.lower n false (PostLS c) (fun k => runUS c (cmds k) ⟨[], []⟩)
    (fun k => runUS_safe ok (cmds k) (hvalid k) ⟨[], []⟩ ⟨trivial, (fun b hb => by cases hb), trivial⟩ (fun b hb => by cases hb))
  have hG0 : ∀ i, GT c.geom n m (fun _ => ghOf c.geom ⟨[], []⟩) i = m.freeInTree c.geom i := by
    intro i
    rw [Mem.freeInTree_eq_blockSum]
    unfold GT GH
    apply blockSum_congr
    intro cc _
    rw [blockSum_zero' _ n (fun k _ => heldIn_empty c.geom _)]; omega
  have U0 : UInv c H n m (fun _ => ghOf c.geom ⟨[], []⟩) (fun _ => ugOf c.geom.treeFrames ⟨[], []⟩) := by
    refine ⟨inv.toG.congr rfl rfl ?_ ?_ hG0, ?_, ?_, ?_⟩
    · intro i
      unfold baseSum
      exact blockSum_zero' _ n (fun k _ => by simp [ugOf, smallBase, hugeBase])
    · intro i
      constructor
      · rintro ⟨k, _, hk⟩; simp [ugOf] at hk
      · intro h; exact h.elim
    · intro j k _ _ _ i hi; simp [ugOf] at hi
    · intro k _ i b hb; simp [ugOf] at hb
    · intro i; rw [hG0 i]; exact Mem.freeInTree_le m c.geom i
  have C0 : CInv c H n c.frames (PostLS c) (PostUS c) m (fun k => Th.at (runUS c (cmds k) ⟨[], []⟩)) (fun _ => ghOf c.geom ⟨[], []⟩)
      (fun _ => ugOf c.geom.treeFrames ⟨[], []⟩) :=
    ⟨L0, U0, fun k => runUS_safeU ok (cmds k) (hvalid k) ⟨[], []⟩⟩
  exact CInv.run ok sched hsched m _ _ _ C0

/-- every block in the ghost of a thread lies inside the managed range -/
theorem heldIn_of_facts (okg : GeomOk c.geom) {m : Mem} {ghs : Nat → Gh} (F : ConcFacts c.geom c.frames m ghs) (k : Nat) (held : Held)
    (hgh : ghs k = ghOf c.geom held) (hok : HeldOkL c.geom held) (hal : HeldAl c.geom held) : HeldIn c held := by
  constructor
  · intro b hb
    have hsm := hok.2.1 b hb
    have hst := blk_start b hsm
    have hpos : 0 < 2 ^ b.order := Nat.pos_of_ne_zero (by simp)
    have hown : (ghs k).ownS (b.i + (2 ^ b.order - 1)) = true := by
      rw [hgh]
      apply ownedBy_of_mem c.geom held.small b hb
      unfold Blk.has inBlockF
      rw [hst]
      simp only [Bool.and_eq_true, decide_eq_true_eq]
      omega
    have := F.inRangeS k _ hown
    omega
  · intro b hb
    have hbok := HeldOkH.mem hok.2.2 b hb
    obtain ⟨h1, _⟩ := hal b hb
    have hpos : 0 < b.cnt c.geom := Nat.pos_of_ne_zero (by unfold HB.cnt; simp)
    have hown : (ghs k).ownH (b.base c.geom + (b.cnt c.geom - 1)) = true := by
      rw [hgh]
      apply ownedHBy_of_mem c.geom held.huge b hb
      unfold HB.has inBlockF
      simp only [Bool.and_eq_true, decide_eq_true_eq]
      omega
    have hr := F.inRangeH k _ hown
    have hpow : b.cnt c.geom * c.geom.hugeFrames = 2 ^ b.order := by
      unfold HB.cnt
      show _ * 2 ^ c.geom.hugeOrder = _
      rw [← Nat.pow_add]; congr 1; have := hbok.1; omega
    have hfr : b.frame = b.base c.geom * c.geom.hugeFrames := by
      unfold HB.base
      have := Nat.div_add_mod b.frame c.geom.hugeFrames
      rw [Nat.mul_comm]; omega
    have : (b.base c.geom + (b.cnt c.geom - 1) + 1) = b.base c.geom + b.cnt c.geom := by omega
    rw [this, Nat.add_mul, hpow, ← hfr] at hr
    exact hr

/-- **C03, second clause, for the public interface under every interleaving: every free of a held
    block succeeds.** Threads `k < n` run arbitrary lists of valid public calls (`get` of any
    request, targeted or not; `put` of blocks they hold at their allocation order with a class that
    has local slots; `drain`) from a state satisfying the upper invariant; a thread stops at the
    first `put` that returns an error and reports it. Under every schedule, in every state: no
    thread has trapped (other than on an index outside the buffers, C18) and no finished thread
    reports a failed free — so every `put` of a held block issued in any interleaving returned
    `Ok`. -/
theorem upper_conc_put_succeeds (ok : CfgOk c) (H : Nat → Nat) (m : Mem) (inv : UpperInv0 c H m)
    (n : Nat) (cmds : Nat → List UCmd) (hvalid : ∀ k, ∀ x ∈ cmds k, x.validS c) (sched : List Nat) (hsched : ∀ k ∈ sched, k < n)
    (k : Nat) (hk : k < n) :
    match ((concRun sched (m, fun k => Th.at (runUS c (cmds k) ⟨[], []⟩))).2 k).step
        (concRun sched (m, fun k => Th.at (runUS c (cmds k) ⟨[], []⟩))).1 with
    | .done a => a.2 = false
    | .dead s => s = oobMsg
    | .step _ _ _ => True := by
  have okg := ok.geom.toGeomOk
  obtain ⟨ghs, ugs, C⟩ := conc_cinvS ok H m inv n cmds hvalid sched hsched
  have hstep := C.step ok k hk
  have F := C.low.facts okg
  cases hs : ((concRun sched (m, fun k => Th.at (runUS c (cmds k) ⟨[], []⟩))).2 k).step
      (concRun sched (m, fun k => Th.at (runUS c (cmds k) ⟨[], []⟩))).1 with
  | done a =>
    rw [hs] at hstep
    obtain ⟨⟨hgh, hok, hal, hflag⟩, _⟩ := hstep
    show a.2 = false
    cases hf : a.2 with
    | false => rfl
    | true => exact absurd (heldIn_of_facts okg F k a.1 hgh hok hal) (hflag hf)
  | dead s => rw [hs] at hstep; exact hstep
  | step t' m' a => trivial

end
end LLFree
