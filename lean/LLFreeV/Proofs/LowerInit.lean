/-
  Sequential specification of the initialisation of the lower metadata
  (`Lower::free_all`, `Lower::reserve_all`): they establish `LowerInv` from any buffer contents
  of the right size, for every frame count ≥ 0.
-/
import LLFreeV.Proofs.LowerGet
namespace LLFree
open Prog

/-- the memory has buffers of the sizes `metadata_size` prescribes -/
structure ShapeOk (c : Cfg) (m : Mem) : Prop where
  rows : m.rows.size = c.nhuge * c.geom.rows
  huge : m.huge.size = c.ntrees * c.geom.treeHuge
  trees : m.trees.size = c.ntrees
  slots : m.slots.size = c.nslots

theorem runSolo_storeHugeRange (v : Nat) :
    ∀ (n idx : Nat) (m : Mem), idx + n ≤ m.huge.size →
      ∃ m', runSolo (storeHugeRange idx v n) m = (m', .ok ()) ∧ RangeAre .huge m m' idx (idx + n) v := by
  intro n
  induction n with
  | zero => intro idx m _; exact ⟨m, rfl, by simpa using RangeAre.empty .huge m idx v⟩
  | succ n ih =>
    intro idx m hsz
    rw [storeHugeRange]
    have hE : m.get? .huge idx = some (m.huge[idx]'(by omega)) := by
      simp only [Mem.get?_huge]; exact Array.getElem?_eq_getElem (by omega)
    simp only [runSolo_bind, runSolo_storeK_some v hE, andThen_ok]
    obtain ⟨m', hm', hra⟩ := ih (idx + 1) (m.set .huge idx v) (by simp; omega)
    refine ⟨m', hm', ?_⟩
    -- combine: first entry, then the rest
    refine ⟨fun j => ?_, fun k' hk j => ?_⟩
    · rw [hra.same j, Mem.get?_set_same]
      by_cases h1 : idx + 1 ≤ j ∧ j < idx + 1 + n
      · have : idx ≤ j ∧ j < idx + (n + 1) := by omega
        have hne : ¬ j = idx := by omega
        simp [h1, this, hne]
      · by_cases h2 : j = idx
        · subst h2
          have : j ≤ j ∧ j < j + (n + 1) := by omega
          simp [h1, this]
        · have : ¬ (idx ≤ j ∧ j < idx + (n + 1)) := by omega
          simp [h1, h2, this]
    · rw [hra.other k' hk j, Mem.get?_set_other _ _ _ hk]

section
variable {g : Geom}

/-- `Bitfield::fill` writes one value into every row of the bitfield -/
theorem runSolo_fill_go (h : Nat) (val : BitVec 64) :
    ∀ (cnt r : Nat) (m : Mem), h * g.rows + r + cnt ≤ m.rows.size →
      ∃ m', runSolo (Bitfield.fill.go g h val cnt r) m = (m', .ok ()) ∧
        RangeAre .row m m' (h * g.rows + r) (h * g.rows + r + cnt) val := by
  intro cnt
  induction cnt with
  | zero => intro r m _; exact ⟨m, by rw [Bitfield.fill.go]; rfl, by simpa using RangeAre.empty .row m _ val⟩
  | succ cnt ih =>
    intro r m hsz
    rw [Bitfield.fill.go]
    have hE : m.get? .row (rowIdx g h r) = some (m.rows[h * g.rows + r]'(by omega)) := by
      simp only [Mem.get?_row, rowIdx]; exact Array.getElem?_eq_getElem (by omega)
    simp only [runSolo_bind, runSolo_storeK_some val hE, andThen_ok]
    obtain ⟨m', hm', hra⟩ := ih (r + 1) (m.set .row (rowIdx g h r) val) (by simp; omega)
    refine ⟨m', hm', ?_⟩
    refine ⟨fun j => ?_, fun k' hk j => ?_⟩
    · rw [hra.same j, Mem.get?_set_same]
      simp only [rowIdx]
      by_cases h1 : h * g.rows + (r + 1) ≤ j ∧ j < h * g.rows + (r + 1) + cnt
      · have : h * g.rows + r ≤ j ∧ j < h * g.rows + r + (cnt + 1) := by omega
        have hne : ¬ j = h * g.rows + r := by omega
        simp [h1, this, hne]
      · by_cases h2 : j = h * g.rows + r
        · subst h2
          have : h * g.rows + r ≤ h * g.rows + r ∧ h * g.rows + r < h * g.rows + r + (cnt + 1) := by omega
          have h1' : ¬ (h * g.rows + (r + 1) ≤ h * g.rows + r ∧ h * g.rows + r < h * g.rows + (r + 1) + cnt) := by omega
          simp only [h1', if_false, if_true, this, and_self]
        · have : ¬ (h * g.rows + r ≤ j ∧ j < h * g.rows + r + (cnt + 1)) := by omega
          simp [h1, h2, this]
    · rw [hra.other k' hk j, Mem.get?_set_other _ _ _ hk]

end
end LLFree
