/-
  Kernel-checked assembly of the row-search specification from the closed bit-vector facts
  of `FzaBv` (the only place where `bv_decide` is used).
-/
import LLFreeV.Proofs.FzaBv
import LLFreeV.Model.Prog
namespace LLFree

/-- the `2^o` bits of `v` starting at bit `p` are all zero (= all frames free) -/
def blockFree (v : BitVec 64) (o p : Nat) : Prop := ∀ i, i < 2 ^ o → v.getLsbD (p + i) = false

/-- Specification of the row search for order `o`. -/
def FzaSpec (v : BitVec 64) (o : Nat) : Option (BitVec 64 × Nat) → Prop
  | none => ∀ p, p < 64 → p % 2 ^ o = 0 → ¬ blockFree v o p
  | some (v', off) =>
      off < 64 ∧ off % 2 ^ o = 0 ∧ blockFree v o off ∧
      (∀ p, p < off → p % 2 ^ o = 0 → ¬ blockFree v o p) ∧
      (∀ i, v'.getLsbD i = (v.getLsbD i || (decide (off ≤ i) && decide (i < off + 2 ^ o) && decide (i < 64))))

theorem getLsbD_lowMask (w i : Nat) (hw : w ≤ 64) :
    (BitVec.ofNat 64 (2 ^ w - 1)).getLsbD i = decide (i < w) := by
  rw [BitVec.getLsbD_ofNat]
  by_cases h : i < w
  · have : i < 64 := by omega
    simp [h, this, Nat.testBit_two_pow_sub_one]
  · simp [h, Nat.testBit_two_pow_sub_one]

theorem shr_and_low_eq_zero_iff (v : BitVec 64) (p w : Nat) (hw : w ≤ 64) :
    (v >>> p) &&& BitVec.ofNat 64 (2 ^ w - 1) = 0#64 ↔ ∀ i, i < w → v.getLsbD (p + i) = false := by
  constructor
  · intro h i hi
    have := congrArg (fun x => x.getLsbD i) h
    simp only [BitVec.getLsbD_and, BitVec.getLsbD_ushiftRight, getLsbD_lowMask w i hw, BitVec.getLsbD_zero] at this
    simpa [hi] using this
  · intro h
    apply BitVec.eq_of_getLsbD_eq
    intro i hi
    simp only [BitVec.getLsbD_and, BitVec.getLsbD_ushiftRight, getLsbD_lowMask w i hw, BitVec.getLsbD_zero]
    by_cases hiw : i < w
    · simp [h i hiw]
    · simp [hiw]

/-- Generic assembly: from the "found" and "lowest" facts about an offset `off` to the spec of
    `if off < 64 then some (v ||| (L <<< off), off.toNat) else none`. -/
theorem spec_of_facts (v off : BitVec 64) (o : Nat) (ho : o ≤ 6)
    (L : BitVec 64) (hL : L = BitVec.ofNat 64 (2 ^ (2 ^ o) - 1))
    (W : BitVec 64) (hW : W = BitVec.ofNat 64 (2 ^ o))
    (hfound : off < 64#64 → (v >>> off) &&& L = 0#64 ∧ off % W = 0#64)
    (hlow : ∀ j : BitVec 64, j < 64#64 → j % W = 0#64 → (¬ off < 64#64 ∨ j < off) → (v >>> j) &&& L ≠ 0#64) :
    FzaSpec v o (if off < 64#64 then some (v ||| (L <<< off), off.toNat) else none) := by
  have h2o : 2 ^ o ≤ 64 := by
    have : o = 0 ∨ o = 1 ∨ o = 2 ∨ o = 3 ∨ o = 4 ∨ o = 5 ∨ o = 6 := by omega
    rcases this with h | h | h | h | h | h | h <;> subst h <;> decide
  have hWn : W.toNat = 2 ^ o := by
    subst hW; simp [BitVec.toNat_ofNat]; omega
  have aligned_iff : ∀ j : BitVec 64, (j % W = 0#64 ↔ j.toNat % 2 ^ o = 0) := by
    intro j
    rw [← BitVec.toNat_inj, BitVec.toNat_umod, hWn]; simp
  have free_iff : ∀ j : BitVec 64, ((v >>> j) &&& L = 0#64 ↔ blockFree v o j.toNat) := by
    intro j
    rw [BitVec.ushiftRight_eq', hL]
    exact shr_and_low_eq_zero_iff v j.toNat (2 ^ o) h2o
  -- every aligned natural position below 64 is a bit-vector position
  have ofNat_pos : ∀ p, p < 64 → (BitVec.ofNat 64 p).toNat = p := by
    intro p hp; simp [BitVec.toNat_ofNat]; omega
  by_cases hoff : off < 64#64
  · simp only [hoff, if_true, FzaSpec]
    have hoffn : off.toNat < 64 := by simpa [BitVec.lt_def] using hoff
    obtain ⟨hf, ha⟩ := hfound hoff
    refine ⟨hoffn, (aligned_iff off).1 ha, (free_iff off).1 hf, ?_, ?_⟩
    · intro p hp hpa hfree
      have hp64 : p < 64 := by omega
      have := hlow (BitVec.ofNat 64 p) (by simp [BitVec.lt_def, ofNat_pos p hp64]; omega)
        ((aligned_iff _).2 (by rw [ofNat_pos p hp64]; exact hpa))
        (Or.inr (by simp [BitVec.lt_def, ofNat_pos p hp64]; exact hp))
      exact this ((free_iff _).2 (by rw [ofNat_pos p hp64]; exact hfree))
    · intro i
      rw [BitVec.getLsbD_or, BitVec.shiftLeft_eq', BitVec.getLsbD_shiftLeft, hL, getLsbD_lowMask _ _ h2o]
      by_cases hi : i < 64
      · by_cases h1 : off.toNat ≤ i
        · by_cases h2 : i < off.toNat + 2 ^ o
          · have : i - off.toNat < 2 ^ o := by omega
            simp [hi, h1, h2, this, Nat.not_lt.2 h1]
          · have : ¬ i - off.toNat < 2 ^ o := by omega
            simp [hi, h1, h2, this]
        · have : i < off.toNat := by omega
          simp [hi, h1, this]
      · simp [hi]
  · simp only [hoff, if_false, FzaSpec]
    intro p hp hpa hfree
    have := hlow (BitVec.ofNat 64 p) (by simp [BitVec.lt_def, ofNat_pos p hp]; omega)
      ((aligned_iff _).2 (by rw [ofNat_pos p hp]; exact hpa)) (Or.inl hoff)
    exact this ((free_iff _).2 (by rw [ofNat_pos p hp]; exact hfree))

end LLFree
