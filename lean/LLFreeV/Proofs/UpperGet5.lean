/-
  `Locals::demote_any` and `demote_local` against the upper invariant.
-/
import LLFreeV.Proofs.UpperGet4
namespace LLFree
open Prog

section
variable {c : Cfg} {H : Nat → Nat} {P : Nat → Nat} {R : Nat → Prop} {m : Mem}

/-- Installing a reservation `l'` of tree `i` (in transit, reserved, class ≥ the slot's class)
    in slot `s` of class `cls`; the previous content of the slot goes in transit. -/
theorem UpperInv.install_slot (ok : CfgOk c) (inv : UpperInv c H P R m) (s cls i : Nat) (l l' : LTree)
    (hl : m.slots[s]? = some l) (hsc : c.slotClass s cls) (hp' : l'.present = true)
    (hrow : l'.row / c.geom.treeRows = i) (hRi : R i)
    (hti : ∃ t : Tree, m.trees[i]? = some t ∧ t.reserved = true ∧ cls ≤ t.cls) (hP : l'.free ≤ P i) :
    SwapPost c H P R m cls i l'.free (if l.present then some (l.asReservation cls) else none) (m.set .slot s l') := by
  refine ⟨⟨rfl, rfl⟩, rfl, ?_⟩
  obtain ⟨ti, hti1, hti2, hti3⟩ := hti
  have hnew : l'.present = true →
      (∃ k, c.slotClass s k) ∧ ∀ k, c.slotClass s k →
        ∃ t : Tree, m.trees[l'.row / c.geom.treeRows]? = some t ∧ t.reserved = true ∧ k ≤ t.cls := by
    intro _
    refine ⟨⟨cls, hsc⟩, ?_⟩
    intro k hk
    have := slotClass_unique ok _ k cls hk hsc
    subst this
    exact ⟨ti, by rw [hrow]; exact hti1, hti2, hti3⟩
  have hinj : l'.present = true → ∀ (s' : Nat) (x : LTree), m.slots[s']? = some x →
      x.present = true → x.row / c.geom.treeRows = l'.row / c.geom.treeRows → s' = s := by
    intro _ s' x hx hxp e
    rw [hrow] at e
    exact absurd (by rw [e]; exact hRi) (inv.slotNotR s' x hx hxp)
  have hself : LTree.freeFor c.geom.treeRows i l' = l'.free := by
    have := LTree.freeFor_self c.geom.treeRows l' hp'
    rw [hrow] at this; exact this
  have hoth : ∀ j, j ≠ i → LTree.freeFor c.geom.treeRows j l' = 0 :=
    fun j hj => LTree.freeFor_other _ _ _ (by rw [hrow]; exact fun e => hj e.symm)
  by_cases hp : l.present = true
  · simp only [hp, if_true]
    have hne : l.row / c.geom.treeRows ≠ i := fun e => inv.slotNotR _ l hl hp (by rw [e]; exact hRi)
    obtain ⟨tl, htl1, htl2, htl3⟩ := inv.slotTree _ l cls hl hp hsc
    refine ⟨rfl, hne, ⟨tl, htl1, htl2, htl3⟩, ?_⟩
    apply inv.set_slot _ l _ hl _ _ hnew hinj
    · intro _ h
      rw [hrow] at h
      rcases h with h | h
      · exact h.2 rfl
      · exact hne h.symm
    · intro j hj
      rcases hj with hj | hj
      · left; exact hj.1
      · right; exact ⟨hp, hj.symm⟩
    · intro _; right; right; rfl
    · intro j hj
      by_cases e : j = i
      · right; exact ⟨hp', by rw [hrow]; exact e.symm⟩
      · left; left; exact ⟨hj, e⟩
    · intro j
      simp only [LTree.asReservation]
      by_cases e1 : j = i
      · subst e1
        rw [hself, LTree.freeFor_other _ _ l hne, gset_other _ _ _ _ (fun e => hne e.symm), gset_same]
        omega
      · rw [hoth j e1]
        by_cases e2 : j = l.row / c.geom.treeRows
        · subst e2
          rw [LTree.freeFor_self _ l hp, gset_same]; omega
        · rw [LTree.freeFor_other _ _ l (fun e => e2 e.symm), gset_other _ _ _ _ e2, gset_other _ _ _ _ e1]
  · have hpf : l.present = false := by simpa using hp
    simp only [hpf, Bool.false_eq_true, if_false]
    apply inv.set_slot _ l _ hl _ _ hnew hinj
    · intro _ h
      rw [hrow] at h
      exact h.2 rfl
    · intro j hj; left; exact hj.1
    · intro h; rw [hpf] at h; cases h
    · intro j hj
      by_cases e : j = i
      · right; exact ⟨hp', by rw [hrow]; exact e.symm⟩
      · left; exact ⟨hj, e⟩
    · intro j
      rw [LTree.freeFor_absent _ _ l hpf]
      by_cases e1 : j = i
      · subst e1
        rw [hself, gset_same]; omega
      · rw [hoth j e1, gset_other _ _ _ _ e1]

theorem ordered_demote_lt {p : PolicyFn} (h : OrderedPolicy p) (k t f : Nat) (hd : p k t f = .demote) : k < t := by
  rcases Nat.lt_trichotomy k t with h1 | h1 | h1
  · exact h1
  · subst h1; obtain ⟨q, hq⟩ := ordered_eq h k f; rw [hq] at hd; cases hd
  · rw [ordered_gt h k t f h1] at hd; cases hd

/-- ghost state after `demote_any`: `n` frames of the demoted tree and the counter of the
    reservation that has to be returned are unaccounted; that reservation's tree is in transit -/
def demP (tr : Nat) (row n : Nat) (old : Option Reservation) : Nat → Nat := fun j =>
  (if j = row / tr then n else 0) + (match old with | some o => if j = o.row / tr then o.free else 0 | none => 0)

def demR (tr : Nat) (old : Option Reservation) : Nat → Prop := fun j =>
  match old with | some o => j = o.row / tr | none => False

def Demoted (c : Cfg) (H : Nat → Nat) (m : Mem) (tree : Option Nat) (n cls : Nat)
    (r : Option (Nat × Option Reservation)) (m' : Mem) : Prop :=
  match r with
  | none => m = m'
  | some (row, old) => (∀ t, tree = some t → row / c.geom.treeRows = t) ∧ row / c.geom.treeRows < c.ntrees ∧
      SameAlloc m m' ∧ UpperInv c H (demP c.geom.treeRows row n old) (demR c.geom.treeRows old) m' ∧
      ∀ o, old = some o → o.cls = cls ∧ ∃ t : Tree, m'.trees[o.row / c.geom.treeRows]? = some t ∧ t.reserved = true ∧ cls ≤ t.cls

/-- removing a reservation from a slot: its tree is in transit, its counter unaccounted -/
theorem UpperInv.remove_slot (inv : UpperInv0 c H m) (s : Nat) (l : LTree) (hl : m.slots[s]? = some l) (hp : l.present = true) :
    UpperInv c H (gset (fun _ => 0) (l.row / c.geom.treeRows) l.free) (fun j => j = l.row / c.geom.treeRows)
      (m.set .slot s LTree.none) := by
  apply inv.set_slot s l LTree.none hl
  · intro h; simp [LTree.none] at h
  · intro h; simp [LTree.none] at h
  · intro h; simp [LTree.none] at h
  · intro j hj; right; exact ⟨hp, hj.symm⟩
  · intro _; right; rfl
  · intro j hj; exact absurd hj id
  · intro i
    rw [LTree.freeFor_absent _ _ LTree.none rfl]
    by_cases e : i = l.row / c.geom.treeRows
    · subst e; rw [LTree.freeFor_self _ l hp]; simp
    · rw [LTree.freeFor_other _ _ l (fun h => e h.symm), gset_other _ _ _ _ e]

theorem demoteAny_slots_spec (ok : CfgOk c) (inv : UpperInv0 c H m) (cls : Nat) (loc : Option Nat) (tree : Option Nat) (n : Nat)
    (hcls : cls < 8) (own : Nat × Nat) (hown : c.slotRange cls = some own) (hloc : ∀ l, loc = some l → l < own.2)
    (tc : Nat) (rng : Nat × Nat) (hr : c.slotRange tc = some rng) (hlt : cls < tc)
    (cnt j : Nat) (hcnt : cnt = 0 ∨ 0 < rng.2) :
    Runs m (Locals.demoteAny.slots c cls loc tree n own rng cnt j) (fun r m' => Demoted c H m tree n cls r m') := by
  induction cnt generalizing j with
  | zero =>
    unfold Locals.demoteAny.slots
    exact Runs.pure rfl
  | succ cnt ih =>
    have hpos : 0 < rng.2 := by rcases hcnt with h | h; cases h; exact h
    unfold Locals.demoteAny.slots
    simp only
    have hjlt : (loc.getD 0 + j) % rng.2 < rng.2 := Nat.mod_lt _ hpos
    generalize (loc.getD 0 + j) % rng.2 = j' at hjlt
    obtain ⟨l, hl⟩ := inv.slot_get ok tc rng hr j' hjlt
    have hsc := slotClass_of_range (c := c) tc rng hr j' hjlt
    cases hg : l.get c.geom.treeRows tree n with
    | none =>
      have hf : (fun (v : LTree) => (v.get c.geom.treeRows tree n).map (fun _ => LTree.none)) l = none := by simp [hg]
      apply Runs.bind (Runs.tryUpdate_none (Q := fun r m' => r = .error l ∧ m = m') (by simpa using hl) hf ⟨rfl, rfl⟩)
      rintro _ _ ⟨rfl, rfl⟩
      exact ih (j + 1) (Or.inr hpos)
    | some new =>
      obtain ⟨hp, htree, hge, rfl⟩ := (LTree.get_eq_some c.geom.treeRows l tree n new).1 hg
      have hf : (fun (v : LTree) => (v.get c.geom.treeRows tree n).map (fun _ => LTree.none)) l = some LTree.none := by simp [hg]
      apply Runs.bind (Runs.tryUpdate_some (Q := fun r m' => r = .ok l ∧ m.set .slot (rng.1 + j') LTree.none = m')
        (by simpa using hl) hf ⟨rfl, rfl⟩)
      rintro _ _ ⟨rfl, rfl⟩
      simp only [hg]
      have inv1 := inv.remove_slot (rng.1 + j') l hl hp
      obtain ⟨tl, htl1, htl2, htl3⟩ := inv.slotTree _ l tc hl hp hsc
      have htlt : l.row / c.geom.treeRows < c.ntrees := inv.tree_lt _ tl htl1
      cases hloc' : loc with
      | none =>
        simp only
        apply Runs.pure
        refine ⟨htree, htlt, ⟨rfl, rfl⟩, ?_, ?_⟩
        · refine (inv1.congrP _ ?_).congrR _ ?_
          · intro x
            simp only [demP, LTree.asReservation]
            by_cases e : x = l.row / c.geom.treeRows
            · subst e; simp; omega
            · simp [gset, e]
          · intro x; simp [demR, LTree.asReservation]
        · intro o ho
          cases ho
          exact ⟨rfl, tl, by simpa [LTree.asReservation] using htl1, htl2, by omega⟩
      | some lo =>
        simp only
        have hlo := hloc lo hloc'
        apply Runs.bind (slotIdx_spec _ own lo hlo (fun r m' => r = own.1 + lo ∧ m.set .slot (rng.1 + j') LTree.none = m') ⟨rfl, rfl⟩)
        rintro _ _ ⟨rfl, rfl⟩
        obtain ⟨lown, hlown⟩ := inv1.slot_get ok cls own hown lo hlo
        apply Runs.bind (p := swapK .slot (own.1 + lo) { l with free := l.free - n })
          (R := fun o m' => lown = o ∧ (m.set .slot (rng.1 + j') LTree.none).set .slot (own.1 + lo) { l with free := l.free - n } = m')
          (Runs.swap (k := .slot) (i := own.1 + lo) (o := lown) _ (by simpa using hlown) ⟨rfl, rfl⟩)
        rintro _ _ ⟨rfl, rfl⟩
        apply Runs.pure
        have hinst := inv1.install_slot ok (own.1 + lo) cls (l.row / c.geom.treeRows) lown { l with free := l.free - n } hlown
          (slotClass_of_range cls own hown lo hlo) hp rfl rfl ⟨tl, htl1, htl2, by omega⟩ (by simp)
        obtain ⟨same2, htrees2, hpost⟩ := hinst
        refine ⟨htree, htlt, ⟨rfl, rfl⟩, ?_, ?_⟩
        · by_cases hpo : lown.present = true
          · simp only [hpo, if_true] at hpost ⊢
            obtain ⟨_, hne, _, inv2⟩ := hpost
            refine (inv2.congrP _ ?_).congrR _ ?_
            · intro x
              simp only [demP, LTree.asReservation]
              by_cases e1 : x = lown.row / c.geom.treeRows
              · subst e1
                have : ¬ lown.row / c.geom.treeRows = l.row / c.geom.treeRows := hne
                simp [gset, this]
              · by_cases e2 : x = l.row / c.geom.treeRows
                · subst e2; simp [gset, e1]; omega
                · simp [gset, e1, e2]
            · intro x
              simp only [demR, LTree.asReservation]
              constructor
              · intro h; right; exact h
              · rintro (⟨h1, h2⟩ | h); exact absurd h1 h2; exact h
          · have hpf : lown.present = false := by simpa using hpo
            simp only [hpf, Bool.false_eq_true, if_false] at hpost ⊢
            refine (hpost.congrP _ ?_).congrR _ ?_
            · intro x
              simp only [demP]
              by_cases e2 : x = l.row / c.geom.treeRows
              · subst e2; simp [gset]; omega
              · simp [gset, e2]
            · intro x
              simp only [demR]
              constructor
              · intro h; exact h.elim
              · rintro ⟨h1, h2⟩; exact h2 h1
        · intro o ho
          by_cases hpo : lown.present = true
          · simp only [hpo, if_true] at ho hpost
            cases ho
            obtain ⟨_, _, ⟨t, ht1, ht2, ht3⟩, _⟩ := hpost
            exact ⟨rfl, t, by rw [htrees2]; simpa [LTree.asReservation] using ht1, ht2, ht3⟩
          · simp [hpo] at ho

theorem demoteAny_classes_spec (ok : CfgOk c) (inv : UpperInv0 c H m) (cls : Nat) (loc : Option Nat) (tree : Option Nat) (n : Nat)
    (hcls : cls < 8) (own : Nat × Nat) (hown : c.slotRange cls = some own) (hloc : ∀ l, loc = some l → l < own.2)
    (cnt i : Nat) :
    Runs m (Locals.demoteAny.classes c cls loc tree n own cnt i) (fun r m' => Demoted c H m tree n cls r m') := by
  induction cnt generalizing i with
  | zero =>
    unfold Locals.demoteAny.classes
    exact Runs.pure rfl
  | succ cnt ih =>
    unfold Locals.demoteAny.classes
    simp only
    cases hr : c.slotRange ((i + cls) % 8) with
    | none => exact ih (i + 1)
    | some rng =>
      simp only
      by_cases hd : c.policy cls ((i + cls) % 8) n = .demote
      · have hne : ¬ (c.policy cls ((i + cls) % 8) n != Policy.demote) = true := by simp [hd]
        rw [if_neg hne]
        have hlt := ordered_demote_lt ok.policy _ _ _ hd
        apply Runs.bind (demoteAny_slots_spec ok inv cls loc tree n hcls own hown hloc ((i + cls) % 8) rng hr hlt rng.2 0
          (by rcases Nat.eq_zero_or_pos rng.2 with h | h; exact Or.inl h; exact Or.inr h))
        rintro r m1 hr1
        cases r with
        | none => subst hr1; exact ih (i + 1)
        | some x => exact Runs.pure hr1
      · have hne : (c.policy cls ((i + cls) % 8) n != Policy.demote) = true := by simp [hd]
        rw [if_pos hne]
        exact ih (i + 1)

/-- **`demote_local`** -/
theorem demoteLocal_spec (ok : CfgOk c) (inv : UpperInv0 c H m) (r : Request) (frame : Option Nat) (hcls : r.cls < 8)
    (hloc : r.locOk c) (hto : r.order ≤ c.geom.treeOrder) (hframe : ∀ x, frame = some x → BlockOk c x r.order) :
    Runs m (demoteLocal c r frame) (fun res m' => UpperInv0 c H m' ∧ GetOutcome c m r.order frame res m') := by
  have okg := ok.geom.toGeomOk
  unfold demoteLocal Locals.demoteAny
  have hdem : Runs m (do
        let some own ← Locals.classRange c r.cls | return none
        Locals.demoteAny.classes c r.cls r.loc (frame.map (· / c.tf)) (2 ^ r.order) own 7 1)
      (fun d m' => Demoted c H m (frame.map (· / c.tf)) (2 ^ r.order) r.cls d m') := by
    apply Runs.bind (classRange_spec m r.cls hcls (fun x m' => x = c.slotRange r.cls ∧ m = m') ⟨rfl, rfl⟩)
    rintro _ _ ⟨rfl, rfl⟩
    cases hown : c.slotRange r.cls with
    | none => exact Runs.pure rfl
    | some own =>
      exact demoteAny_classes_spec ok inv r.cls r.loc _ _ hcls own hown (fun l hl => hloc l own hl hown) 7 1
  apply Runs.bind hdem
  rintro d m1 hd
  match d, hd with
  | none, hd => subst hd; exact Runs.pure ⟨inv, rfl, SameAlloc.refl _⟩
  | some (row, old), hd =>
    obtain ⟨htree, hlt, same1, inv1, hold⟩ := hd
    simp only
    -- return the previous reservation
    have hunres : Runs m1 (match old with
          | some o => tunreserve c (o.row / c.g.treeRows) o.free o.cls
          | none => pure ())
        (fun _ m2 => UpperInv c H (gset (fun _ => 0) (row / c.geom.treeRows) (2 ^ r.order)) (fun _ => False) m2 ∧ SameAlloc m1 m2) := by
      cases old with
      | none =>
        apply Runs.pure
        refine ⟨(inv1.congrP _ ?_).congrR _ ?_, SameAlloc.refl _⟩
        · intro x; simp only [demP]; by_cases e : x = row / c.geom.treeRows
          · subst e; simp
          · simp [gset, e]
        · intro x; simp [demR]
      | some o =>
        obtain ⟨hocls, t, ht1, ht2, ht3⟩ := hold o rfl
        simp only
        rw [hocls]
        apply Runs.mono (tunreserve_spec ok inv1 (o.row / c.g.treeRows) o.free r.cls t ht1 ht2 (by simp [demR]) ht3
          (by simp [demP]))
        rintro _ m2 ⟨inv2, same2, _⟩
        refine ⟨(inv2.congrP _ ?_).congrR _ ?_, same2⟩
        · intro x
          simp only [demP]
          by_cases e1 : x = o.row / c.geom.treeRows
          · subst e1
            by_cases e2 : o.row / c.geom.treeRows = row / c.geom.treeRows
            · simp [gset, demP, e2]
            · simp [gset, demP, e2]
          · by_cases e2 : x = row / c.geom.treeRows
            · subst e2; simp [gset, demP, e1]
            · simp [gset, demP, e1, e2]
        · intro x
          simp only [demR]
          constructor
          · intro h; exact h.elim
          · rintro ⟨h1, h2⟩; exact h2 h1
    apply Runs.bind hunres
    rintro _ m2 ⟨inv2, same2⟩
    have hfr : ∀ x, frame = some x → BlockOk c x r.order ∧ x / c.geom.treeFrames = row / c.geom.treeRows := by
      intro x hx
      refine ⟨hframe x hx, ?_⟩
      have := htree (x / c.tf) (by rw [hx]; rfl)
      exact this.symm
    apply Runs.bind (lower_get_upper ok inv2 row r.order (row / c.geom.treeRows) frame hto hlt (by simp)
      (fun _ => row_tree okg row) hfr)
    rintro lr m3 hlr
    have same12 := same1.trans same2
    cases lr with
    | ok f =>
      obtain ⟨hft, hal, hallowed, post, hfx, inv3⟩ := hlr
      apply Runs.pure
      refine ⟨inv3.congrP _ ?_, hcls, hal, hallowed.congr same12, hfx, AllocEffect.of_post same12 post (SameAlloc.refl _)⟩
      intro x
      by_cases e : x = row / c.geom.treeRows
      · subst e; simp
      · simp [gset, e]
    | error e =>
      obtain ⟨rfl, rfl, _⟩ := hlr
      simp only
      apply Runs.bind (tput_spec ok inv2 (row / c.g.treeRows) (2 ^ r.order) hlt (by simp))
      rintro _ m4 ⟨inv4, same4⟩
      apply Runs.pure
      refine ⟨inv4.congrP _ ?_, rfl, same12.trans same4⟩
      intro x
      by_cases e : x = row / c.geom.treeRows
      · subst e; simp
      · simp [gset, e]

end
end LLFree
