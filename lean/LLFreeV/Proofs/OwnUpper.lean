/-
  The public allocation paths (`LLFree::get`, `get_at`, `put` — local reservations, tree search,
  stealing, demotion) in the lower-level protocol, panic-tolerant (`SafeL false`): the upper
  level only writes volatile tree entries and slots (`Neut`) and calls `Lower::get` /
  `Lower::put`, so whatever the other threads do, whatever the tree array and the slots
  contain, a successful call returns a block nobody held, and a failing one holds nothing new.
-/
import LLFreeV.Proofs.OwnLowerGet3
import LLFreeV.Proofs.Neutral
namespace LLFree
open Prog

/-- the block `(frame, order)` was added to the ghost -/
def GotBlock (g : Geom) (gh : Gh) (order frame : Nat) (gh' : Gh) : Prop :=
  if order < g.hugeOrder then
    frame % 2 ^ order = 0 ∧ gh' = gh.addS frame (2 ^ order) ∧ ∀ f, inBlockF frame (2 ^ order) f = true → gh.ownS f = false
  else
    (frame % g.hugeFrames = 0 ∧ (frame / g.hugeFrames) % 2 ^ (order - g.hugeOrder) = 0) ∧
    (frame / g.hugeFrames) % g.treeHuge + 2 ^ (order - g.hugeOrder) ≤ g.treeHuge ∧
    gh' = gh.addH (frame / g.hugeFrames) (2 ^ (order - g.hugeOrder)) ∧
    ∀ x, inBlockF (frame / g.hugeFrames) (2 ^ (order - g.hugeOrder)) x = true → gh.ownH x = false

def LGetPost (g : Geom) (gh : Gh) (order : Nat) : Res Nat → Gh → Prop
  | .ok f, gh' => GotBlock g gh order f gh'
  | .error _, gh' => gh' = gh

def UGetPost (g : Geom) (gh : Gh) (order : Nat) : Res (Nat × Nat) → Gh → Prop
  | .ok (f, _), gh' => GotBlock g gh order f gh'
  | .error _, gh' => gh' = gh

section
variable {g : Geom} {strict : Bool}

/-- a block aligned to a huge order lies inside its tree's table -/
theorem huge_aligned_fits (okg : GeomOk g) (f order : Nat) (ho : g.hugeOrder ≤ order) (hord : order ≤ g.treeOrder)
    (hal : f % 2 ^ order = 0) :
    f % g.hugeFrames = 0 ∧ (f / g.hugeFrames) % g.treeHuge + 2 ^ (order - g.hugeOrder) ≤ g.treeHuge ∧
    ∃ q, g.treeHuge = 2 ^ (order - g.hugeOrder) * q := by
  obtain ⟨K, hK, hto⟩ := okg.treeOrder_eq
  have hsplit : 2 ^ order = 2 ^ (order - g.hugeOrder) * g.hugeFrames := by
    show _ = _ * 2 ^ g.hugeOrder
    rw [← Nat.pow_add]; congr 1; omega
  have hq : g.treeHuge = 2 ^ (order - g.hugeOrder) * 2 ^ (K - (order - g.hugeOrder)) := by
    rw [hK, ← Nat.pow_add]; congr 1; omega
  obtain ⟨z, hz⟩ := Nat.dvd_of_mod_eq_zero hal
  have hpos := okg.hf_pos
  have hf : f = (2 ^ (order - g.hugeOrder) * z) * g.hugeFrames := by
    rw [hz, hsplit, Nat.mul_assoc, Nat.mul_comm g.hugeFrames z, ← Nat.mul_assoc]
  have hdiv : f / g.hugeFrames = 2 ^ (order - g.hugeOrder) * z := by rw [hf]; exact Nat.mul_div_cancel _ hpos
  refine ⟨by rw [hf]; exact Nat.mul_mod_left _ _, ?_, _, hq⟩
  rw [hdiv]
  have hn : 0 < 2 ^ (order - g.hugeOrder) := Nat.pos_of_ne_zero (by simp)
  have hthp := okg.th_pos
  have hlt : (2 ^ (order - g.hugeOrder) * z) % g.treeHuge < g.treeHuge := Nat.mod_lt _ hthp
  have hmod : ((2 ^ (order - g.hugeOrder) * z) % g.treeHuge) % 2 ^ (order - g.hugeOrder) = 0 := by
    rw [hq, Nat.mod_mul_right_mod, Nat.mul_mod_right]
  generalize (2 ^ (order - g.hugeOrder) * z) % g.treeHuge = i at hlt hmod
  obtain ⟨r, hr⟩ := Nat.dvd_of_mod_eq_zero hmod
  rw [hq, hr] at hlt ⊢
  have : r < 2 ^ (K - (order - g.hugeOrder)) := Nat.lt_of_mul_lt_mul_left hlt
  have : 2 ^ (order - g.hugeOrder) * (r + 1) ≤ 2 ^ (order - g.hugeOrder) * 2 ^ (K - (order - g.hugeOrder)) := Nat.mul_le_mul_left _ this
  rw [Nat.mul_add, Nat.mul_one] at this; exact this

theorem huge_aligned_div (okg : GeomOk g) (f order : Nat) (ho : g.hugeOrder ≤ order) (hal : f % 2 ^ order = 0) :
    (f / g.hugeFrames) % 2 ^ (order - g.hugeOrder) = 0 := by
  have hsplit : 2 ^ order = 2 ^ (order - g.hugeOrder) * g.hugeFrames := by
    show _ = _ * 2 ^ g.hugeOrder
    rw [← Nat.pow_add]; congr 1; omega
  obtain ⟨z, hz⟩ := Nat.dvd_of_mod_eq_zero hal
  have hf : f = (2 ^ (order - g.hugeOrder) * z) * g.hugeFrames := by
    rw [hz, hsplit, Nat.mul_assoc, Nat.mul_comm g.hugeFrames z, ← Nat.mul_assoc]
  have hdiv : f / g.hugeFrames = 2 ^ (order - g.hugeOrder) * z := by rw [hf]; exact Nat.mul_div_cancel _ okg.hf_pos
  rw [hdiv]; exact Nat.mul_mod_right _ _

/-- **`Lower::get` with any arguments the upper level passes** -/
theorem lowerGet_L (ok : GeomOk16 g) (gh : Gh) (start order : Nat) (frame : Option Nat) (hord : order ≤ g.treeOrder)
    (hal : ∀ f, frame = some f → f % 2 ^ order = 0) :
    SafeL strict g (LGetPost g gh order) gh (Lower.get g start order frame) := by
  have okg := ok.toGeomOk
  cases frame with
  | some f =>
    have hal' := hal f rfl
    unfold Lower.get
    simp only
    by_cases ho : order < g.hugeOrder
    · apply SafeL.bind _ _ _ (getAtL_small ok gh f order ho hal')
      intro r gh1 h1
      cases r with
      | ok u =>
        show GotBlock g gh order f gh1
        unfold GotBlock; rw [if_pos ho]; exact ⟨hal', h1.1, h1.2⟩
      | error e => exact h1.2
    · obtain ⟨h1, h2, _⟩ := huge_aligned_fits okg f order (by omega) hord hal'
      apply SafeL.bind _ _ _ (getAtL_huge ok gh f order (by omega) h2)
      intro r gh1 h3
      cases r with
      | ok u =>
        show GotBlock g gh order f gh1
        unfold GotBlock; rw [if_neg ho]; exact ⟨⟨h1, huge_aligned_div okg f order (by omega) hal'⟩, h2, h3.1, h3.2⟩
      | error e => exact h3.2
  | none =>
    by_cases ho : order < g.hugeOrder
    · apply SafeL.mono _ _ _ (getL_small ok gh start order ho)
      intro r gh1 h1
      cases r with
      | ok f =>
        show GotBlock g gh order f gh1
        unfold GotBlock; rw [if_pos ho]; exact h1
      | error e => exact h1.2
    · obtain ⟨K, hK, hto⟩ := okg.treeOrder_eq
      have hq : g.treeHuge = 2 ^ (order - g.hugeOrder) * 2 ^ (K - (order - g.hugeOrder)) := by
        rw [hK, ← Nat.pow_add]; congr 1; omega
      apply SafeL.mono _ _ _ (getL_huge ok gh start order _ (by omega) hq)
      intro r gh1 h1
      cases r with
      | ok f =>
        show GotBlock g gh order f gh1
        unfold GotBlock; rw [if_neg ho]; exact h1
      | error e => exact h1.2

end

section
variable (c : Cfg)

/-- after a neutral tail that always returns `.ok (frame, _)` -/
theorem tail_ok {gh gh1 : Gh} {order frame : Nat} (hb : GotBlock c.geom gh order frame gh1) (p : Prog (Res (Nat × Nat)))
    (hp : Neut (fun r => ∃ k, r = .ok (frame, k)) p) : SafeL false c.geom (UGetPost c.geom gh order) gh1 p := by
  apply SafeL.mono _ _ _ (Neut.safeL gh1 p hp)
  rintro r gh2 ⟨rfl, k, rfl⟩
  exact hb

/-- after a neutral tail that always fails -/
theorem tail_err {gh : Gh} {order : Nat} (p : Prog (Res (Nat × Nat)))
    (hp : Neut (fun r => ∃ e, r = .error e) p) : SafeL false c.geom (UGetPost c.geom gh order) gh p := by
  apply SafeL.mono _ _ _ (Neut.safeL gh p hp)
  rintro r gh2 ⟨rfl, e, rfl⟩
  rfl

theorem reserveOrSteal_L (ok : GeomOk16 c.geom) (gh : Gh) (i order cls loc : Nat) (hord : order ≤ c.geom.treeOrder) :
    SafeL false c.geom (UGetPost c.geom gh order) gh (reserveOrSteal c i order cls loc) := by
  unfold reserveOrSteal
  apply SafeL.bind _ _ _ (Neut.safeL gh _ (trees_reserveOrSteal_neut' c i cls _))
  rintro r gh0 ⟨rfl, hfree⟩
  cases r with
  | none => exact rfl
  | some x =>
    obtain ⟨reserved, free, tcls⟩ := x
    have hfree : 2 ^ order ≤ free := hfree _ rfl
    simp only
    apply SafeL.bind _ _ _ (lowerGet_L ok gh0 _ order none hord (fun f h => by cases h))
    intro lr gh1 h1
    cases lr with
    | ok frame =>
      simp only
      apply tail_ok c h1
      split
      · simp only [neut_bind_iff]
        apply Neut.mono _ _ (classLocals_neut c tcls)
        intro cl _
        cases cl with
        | none => simp
        | some classLen =>
          simp only
          split
          · simp
          · split
            · omega
            · simp only [neut_bind_iff]
              apply Neut.mono _ _ (locals_swap_neut c _ _ _ _)
              intro old _
              cases old with
              | none => simp
              | some o =>
                simp only [neut_bind_iff]
                apply Neut.mono _ _ (tunreserve_neut c _ _ _)
                intro _ _; simp
      · simp
    | error e =>
      have h1' : gh1 = gh0 := h1
      subst h1'
      simp only
      apply tail_err c
      split
      · simp only [neut_bind_iff]
        apply Neut.mono _ _ (tunreserve_neut c _ _ _)
        intro _ _; simp
      · simp only [neut_bind_iff]
        apply Neut.mono _ _ (tput_neut c _ _)
        intro _ _; simp

theorem stealGlobal_L (ok : GeomOk16 c.geom) (gh : Gh) (i cls order : Nat) (frame : Option Nat) (hord : order ≤ c.geom.treeOrder)
    (hal : ∀ f, frame = some f → f % 2 ^ order = 0) :
    SafeL false c.geom (UGetPost c.geom gh order) gh (stealGlobal c i cls order frame) := by
  unfold stealGlobal
  apply SafeL.bind _ _ _ (Neut.safeL gh _ (trees_steal_neut c i cls _))
  rintro r gh0 ⟨rfl, _⟩
  cases r with
  | none => exact rfl
  | some k =>
    simp only
    apply SafeL.bind _ _ _ (lowerGet_L ok gh0 _ order frame hord hal)
    intro lr gh1 h1
    cases lr with
    | ok f => exact h1
    | error e =>
      have h1' : gh1 = gh0 := h1
      subst h1'
      simp only
      apply tail_err c
      simp only [neut_bind_iff]
      apply Neut.mono _ _ (tput_neut c _ _)
      intro _ _; simp

def ULocalPost (g : Geom) (gh : Gh) (order : Nat) : LocalRes → Gh → Prop
  | .ok (f, _), gh' => GotBlock g gh order f gh'
  | .error _, gh' => gh' = gh

theorem tailL_ok {gh gh1 : Gh} {order frame : Nat} (hb : LGetPost c.geom gh order (.ok frame) gh1) (p : Prog LocalRes)
    (hp : Neut (fun r => ∃ k, r = .ok (frame, k)) p) : SafeL false c.geom (ULocalPost c.geom gh order) gh1 p := by
  apply SafeL.mono _ _ _ (Neut.safeL gh1 p hp)
  rintro r gh2 ⟨rfl, k, rfl⟩
  exact hb

theorem tailL_err {gh : Gh} {order : Nat} (p : Prog LocalRes)
    (hp : Neut (fun r => ∃ e, r = .error e) p) : SafeL false c.geom (ULocalPost c.geom gh order) gh p := by
  apply SafeL.mono _ _ _ (Neut.safeL gh p hp)
  rintro r gh2 ⟨rfl, e, rfl⟩
  rfl

theorem getLocalNoSync_L (ok : GeomOk16 c.geom) (gh : Gh) (order cls loc : Nat) (frame : Option Nat) (hord : order ≤ c.geom.treeOrder)
    (hal : ∀ f, frame = some f → f % 2 ^ order = 0) :
    SafeL false c.geom (ULocalPost c.geom gh order) gh (getLocalNoSync c order cls loc frame) := by
  unfold getLocalNoSync
  apply SafeL.bind _ _ _ (Neut.safeL gh _ (locals_get_neut c cls loc _ _))
  rintro r gh0 ⟨rfl, _⟩
  cases r with
  | ok row =>
    simp only
    apply SafeL.bind _ _ _ (lowerGet_L ok gh0 row order frame hord hal)
    intro lr gh1 h1
    cases lr with
    | ok f =>
      simp only
      apply tailL_ok c h1
      split
      · simp only [neut_bind_iff]
        apply Neut.mono _ _ (locals_setStart_neut c _ _ _)
        intro _ _; simp
      · simp
    | error e =>
      have h1' : gh1 = gh0 := h1
      subst h1'
      simp only
      apply tailL_err c
      simp only [neut_bind_iff]
      apply Neut.mono _ _ (tput_neut c _ _)
      intro _ _; simp
  | error x =>
    cases x with
    | none => exact rfl
    | some res => exact rfl

theorem getLocal_L (ok : GeomOk16 c.geom) (gh : Gh) (order cls loc : Nat) (frame : Option Nat) (hord : order ≤ c.geom.treeOrder)
    (hal : ∀ f, frame = some f → f % 2 ^ order = 0) :
    SafeL false c.geom (ULocalPost c.geom gh order) gh (getLocal c order cls loc frame) := by
  unfold getLocal
  apply SafeL.bind _ _ _ (Neut.safeL gh _ (locals_get_neut c cls loc _ _))
  rintro r gh0 ⟨rfl, _⟩
  cases r with
  | ok row =>
    simp only
    apply SafeL.bind _ _ _ (lowerGet_L ok gh0 row order frame hord hal)
    intro lr gh1 h1
    cases lr with
    | ok f =>
      simp only
      apply tailL_ok c h1
      split
      · simp only [neut_bind_iff]
        apply Neut.mono _ _ (locals_setStart_neut c _ _ _)
        intro _ _; simp
      · simp
    | error e =>
      have h1' : gh1 = gh0 := h1
      subst h1'
      simp only
      apply tailL_err c
      simp only [neut_bind_iff]
      apply Neut.mono _ _ (tput_neut c _ _)
      intro _ _; simp
  | error x =>
    cases x with
    | none => exact rfl
    | some res =>
      simp only
      split
      · apply SafeL.bind _ _ _ (Neut.safeL gh0 _ (trees_sync_neut _ _))
        rintro s gh1 ⟨rfl, _⟩
        cases s with
        | none => exact rfl
        | some free =>
          simp only
          apply SafeL.bind _ _ _ (Neut.safeL gh1 _ (locals_put_neut c _ _ _ _))
          rintro b gh2 ⟨rfl, _⟩
          cases b with
          | true => simp only [if_true]; exact getLocalNoSync_L c ok gh2 order cls loc frame hord hal
          | false =>
            simp only [Bool.false_eq_true, if_false]
            apply tailL_err c
            simp only [neut_bind_iff]
            apply Neut.mono _ _ (tput_neut c _ _)
            intro _ _; simp
      · exact rfl

/-- `search_best` / `search` with an access that is safe from the ghost it is started with and
    leaves it unchanged on failure -/
theorem searchBest_tryBest_L {gh : Gh} {order : Nat} (access : Nat → Prog (Res (Nat × Nat)))
    (ha : ∀ i, SafeL false c.geom (UGetPost c.geom gh order) gh (access i)) (best : List ((Policy × Bool) × Nat)) :
    SafeL false c.geom (UGetPost c.geom gh order) gh (Trees.searchBest.tryBest access best) := by
  induction best with
  | nil => unfold Trees.searchBest.tryBest; exact rfl
  | cons x rest ih =>
    obtain ⟨_, i⟩ := x
    unfold Trees.searchBest.tryBest
    apply SafeL.bind _ _ _ (ha i)
    intro r gh1 h1
    cases r with
    | ok v => exact h1
    | error e =>
      have h1' : gh1 = gh := h1
      subst h1'
      cases e with
      | memory => exact ih
      | argument => exact rfl
      | initialization => exact rfl

theorem searchBest_scan_L {gh : Gh} {order : Nat} (tf ntrees nbuf start : Nat) (rate : Nat → Nat → Policy)
    (access : Nat → Prog (Res (Nat × Nat)))
    (ha : ∀ i, SafeL false c.geom (UGetPost c.geom gh order) gh (access i)) (cnt i : Nat) (best : Best) :
    SafeL false c.geom (UGetPost c.geom gh order) gh (Trees.searchBest.scan tf ntrees nbuf start rate access cnt i best) := by
  induction cnt generalizing i best with
  | zero => unfold Trees.searchBest.scan; exact searchBest_tryBest_L c access ha _
  | succ cnt ih =>
    unfold Trees.searchBest.scan
    split
    · exact ⟨rfl, by simp⟩
    · show SafeL false c.geom _ gh (Prog.load .tree _ _)
      intro tree
      show SafeL false c.geom _ gh (if tree.reserved = true then _ else _)
      split
      · exact ih _ _
      · split
        · apply SafeL.bind _ _ _ (ha _)
          intro r gh1 h1
          cases r with
          | ok v => exact h1
          | error e =>
            have h1' : gh1 = gh := h1
            subst h1'
            cases e with
            | memory => exact ih _ _
            | argument => exact rfl
            | initialization => exact rfl
        · exact ih _ _
        · exact ih _ _

theorem searchBest_L {gh : Gh} {order : Nat} (tf ntrees nbuf start offset len : Nat) (rate : Nat → Nat → Policy)
    (access : Nat → Prog (Res (Nat × Nat)))
    (ha : ∀ i, SafeL false c.geom (UGetPost c.geom gh order) gh (access i)) :
    SafeL false c.geom (UGetPost c.geom gh order) gh (Trees.searchBest tf ntrees nbuf start offset len rate access) := by
  unfold Trees.searchBest
  exact searchBest_scan_L c tf ntrees nbuf start rate access ha _ _ _

theorem searchAndReserve_L (ok : GeomOk16 c.geom) (gh : Gh) (order cls loc start : Nat) (hord : order ≤ c.geom.treeOrder) :
    SafeL false c.geom (UGetPost c.geom gh order) gh (searchAndReserve c order cls loc start) := by
  unfold searchAndReserve
  simp only
  have hros : ∀ i, SafeL false c.geom (UGetPost c.geom gh order) gh (reserveOrSteal c i order cls loc) :=
    fun i => reserveOrSteal_L c ok gh i order cls loc hord
  have h1 : SafeL false c.geom (UGetPost c.geom gh order) gh
      (if order < c.g.hugeOrder then
        Trees.searchBest c.tf c.ntrees 3 (start / nextPow2 (2 * max (c.ntrees / 16) 4) * nextPow2 (2 * max (c.ntrees / 16) 4)) 1 (max (c.ntrees / 16) 4)
          (fun t f => match rateBase c cls order t f with
            | .match p => .match p
            | .demote => if f = c.tf then .demote else .invalid
            | _ => .invalid) (fun i => reserveOrSteal c i order cls loc)
      else pure (.error .memory)) := by
    split
    · exact searchBest_L c _ _ _ _ _ _ _ _ hros
    · exact rfl
  apply SafeL.bind _ _ _ h1
  intro r gh1 hr
  cases r with
  | ok v => exact hr
  | error e =>
    have hr' : gh1 = gh := hr
    subst hr'
    cases e with
    | memory => exact searchBest_L c _ _ _ _ _ _ _ _ hros
    | argument => exact rfl
    | initialization => exact rfl

theorem stealLocal_L (ok : GeomOk16 c.geom) (gh : Gh) (r : Request) (frame : Option Nat) (hord : r.order ≤ c.geom.treeOrder)
    (hal : ∀ f, frame = some f → f % 2 ^ r.order = 0) :
    SafeL false c.geom (UGetPost c.geom gh r.order) gh (stealLocal c r frame) := by
  unfold stealLocal
  apply SafeL.bind _ _ _ (Neut.safeL gh _ (stealAny_neut c _ _ _ _))
  rintro s gh0 ⟨rfl, _⟩
  cases s with
  | none => exact rfl
  | some res =>
    simp only
    apply SafeL.bind _ _ _ (lowerGet_L ok gh0 res.row r.order frame hord hal)
    intro lr gh1 h1
    cases lr with
    | ok f => exact h1
    | error e =>
      have h1' : gh1 = gh0 := h1
      subst h1'
      cases e with
      | memory =>
        simp only
        apply tail_err c
        simp only [neut_bind_iff]
        apply Neut.mono _ _ (tput_neut c _ _)
        intro _ _; simp
      | argument => exact rfl
      | initialization => exact rfl

theorem demoteLocal_L (ok : GeomOk16 c.geom) (gh : Gh) (r : Request) (frame : Option Nat) (hord : r.order ≤ c.geom.treeOrder)
    (hal : ∀ f, frame = some f → f % 2 ^ r.order = 0) :
    SafeL false c.geom (UGetPost c.geom gh r.order) gh (demoteLocal c r frame) := by
  unfold demoteLocal
  apply SafeL.bind _ _ _ (Neut.safeL gh _ (demoteAny_neut c _ _ _ _))
  rintro d gh0 ⟨rfl, _⟩
  cases d with
  | none => exact rfl
  | some x =>
    obtain ⟨row, old⟩ := x
    simp only
    have hun : NeutT (match old with
        | some o => tunreserve c (o.row / c.g.treeRows) o.free o.cls
        | none => pure ()) := by
      cases old with
      | none => simp
      | some o => exact tunreserve_neut c _ _ _
    apply SafeL.bind _ _ _ (Neut.safeL gh0 _ hun)
    rintro _ gh0' ⟨rfl, _⟩
    apply SafeL.bind _ _ _ (lowerGet_L ok gh0' row r.order frame hord hal)
    intro lr gh1 h1
    cases lr with
    | ok f => exact h1
    | error e =>
      have h1' : gh1 = gh0' := h1
      subst h1'
      cases e with
      | memory =>
        simp only
        apply tail_err c
        simp only [neut_bind_iff]
        apply Neut.mono _ _ (tput_neut c _ _)
        intro _ _; simp
      | argument => exact rfl
      | initialization => exact rfl

theorem getFallback_L (ok : GeomOk16 c.geom) (gh : Gh) (r : Request) (frame : Option Nat) (hord : r.order ≤ c.geom.treeOrder)
    (hal : ∀ f, frame = some f → f % 2 ^ r.order = 0) :
    SafeL false c.geom (UGetPost c.geom gh r.order) gh (getFallback c r frame) := by
  unfold getFallback
  apply SafeL.bind _ _ _ (stealLocal_L c ok gh r frame hord hal)
  intro s gh1 h1
  cases s with
  | ok v => exact h1
  | error e =>
    have h1' : gh1 = gh := h1
    subst h1'
    cases e with
    | memory => exact demoteLocal_L c ok gh1 r frame hord hal
    | argument => exact rfl
    | initialization => exact rfl

theorem getAt_L (ok : GeomOk16 c.geom) (gh : Gh) (frame : Nat) (r : Request) (hord : r.order ≤ c.geom.treeOrder)
    (hal : frame % 2 ^ r.order = 0) :
    SafeL false c.geom (UGetPost c.geom gh r.order) gh (getAt c frame r) := by
  have hal' : ∀ f, some frame = some f → f % 2 ^ r.order = 0 := by intro f h; cases h; exact hal
  unfold getAt
  have hvia : SafeL false c.geom (fun (x : Option (Res (Nat × Nat))) gh' => match x with
      | some y => UGetPost c.geom gh r.order y gh'
      | none => gh' = gh) gh (getAtLocal c frame r) := by
    unfold getAtLocal
    cases hl : r.loc with
    | none => exact rfl
    | some l =>
      simp only
      apply SafeL.bind _ _ _ (getLocal_L c ok gh r.order r.cls l (some frame) hord hal')
      intro lr gh1 h1
      cases lr with
      | ok x => exact h1
      | error x =>
        obtain ⟨e, st⟩ := x
        have h1' : gh1 = gh := h1
        subst h1'
        cases e <;> exact rfl
  apply SafeL.bind _ _ _ hvia
  intro via gh1 h1
  cases via with
  | some x => exact h1
  | none =>
    have h1' : gh1 = gh := h1
    subst h1'
    simp only
    apply SafeL.bind _ _ _ (stealGlobal_L c ok gh1 _ r.cls r.order (some frame) hord hal')
    intro g1 gh2 h2
    cases g1 with
    | ok v => exact h2
    | error e =>
      have h2' : gh2 = gh1 := h2
      subst h2'
      cases e with
      | memory => exact getFallback_L c ok gh2 r (some frame) hord hal'
      | argument => exact rfl
      | initialization => exact rfl

theorem getFirst_L (ok : GeomOk16 c.geom) (gh : Gh) (r : Request) (cl : Option Nat) (hord : r.order ≤ c.geom.treeOrder) :
    SafeL false c.geom (UGetPost c.geom gh r.order) gh (getFirst c r cl) := by
  have hnone : ∀ f, (none : Option Nat) = some f → f % 2 ^ r.order = 0 := by intro f h; cases h
  have hglob : ∀ start, SafeL false c.geom (UGetPost c.geom gh r.order) gh
      (Trees.searchBest c.tf c.ntrees 8 start 0 c.ntrees
        (fun t free => if free < 2 ^ r.order then .invalid else c.policy r.cls t free)
        (fun i => stealGlobal c i r.cls r.order none)) :=
    fun start => searchBest_L c _ _ _ _ _ _ _ _ (fun i => stealGlobal_L c ok gh i r.cls r.order none hord hnone)
  unfold getFirst
  simp only
  cases hl : r.loc with
  | none => exact hglob _
  | some l =>
    cases cl with
    | none => exact hglob _
    | some len =>
      simp only
      split
      · apply SafeL.bind _ _ _ (getLocal_L c ok gh r.order r.cls l none hord hnone)
        intro lr gh1 h1
        cases lr with
        | ok x => exact h1
        | error x =>
          obtain ⟨e, st⟩ := x
          have h1' : gh1 = gh := h1
          subst h1'
          cases e with
          | memory => exact searchAndReserve_L c ok gh1 r.order r.cls l _ hord
          | argument => exact rfl
          | initialization => exact rfl
      · exact hglob _

theorem check_neut (frame : Nat) (r : Request) :
    Neut (fun res => res = .ok () → r.order ≤ c.geom.treeOrder ∧ frame % 2 ^ r.order = 0) (check c frame r) := by
  unfold check
  split
  · simp
  · rename_i h1
    split
    · simp
    · split
      · simp
      · rename_i h3
        simp only [neut_bind_iff]
        apply Neut.mono _ _ (classLocals_neut c r.cls)
        intro l _
        simp only [neut_pure]
        intro _
        refine ⟨?_, by simpa using h3⟩
        simpa using h1

/-- **`LLFree::get` (every path) for one thread among many** -/
theorem get_L (ok : GeomOk16 c.geom) (gh : Gh) (frame : Option Nat) (r : Request) :
    SafeL false c.geom (UGetPost c.geom gh r.order) gh (get c frame r) := by
  unfold get
  apply SafeL.bind _ _ _ (Neut.safeL gh _ (check_neut c _ r))
  rintro ck gh0 ⟨rfl, hck⟩
  cases ck with
  | error e => exact rfl
  | ok u =>
    obtain ⟨hord, hal⟩ := hck rfl
    simp only
    cases frame with
    | some f => exact getAt_L c ok gh0 f r hord hal
    | none =>
      simp only
      apply SafeL.bind _ _ _ (Neut.safeL gh0 _ (classLocals_neut c r.cls))
      rintro cl gh1 ⟨rfl, _⟩
      apply SafeL.bind _ _ _ (getFirst_L c ok gh1 r cl hord)
      intro first gh2 h2
      cases first with
      | ok v => exact h2
      | error e =>
        have h2' : gh2 = gh1 := h2
        subst h2'
        cases e with
        | memory => exact getFallback_L c ok gh2 r none hord (fun f h => by cases h)
        | argument => exact rfl
        | initialization => exact rfl

/-- the thread holds the block `(frame, order)` -/
def HoldsBlock (g : Geom) (gh : Gh) (order frame : Nat) : Prop :=
  if order < g.hugeOrder then ∀ f, inBlockF frame (2 ^ order) f = true → gh.ownS f = true
  else (frame / g.hugeFrames) % g.treeHuge + 2 ^ (order - g.hugeOrder) ≤ g.treeHuge ∧
    ∀ x, inBlockF (frame / g.hugeFrames) (2 ^ (order - g.hugeOrder)) x = true → gh.ownH x = true

/-- the ghost after giving the block back -/
def dropBlock (g : Geom) (gh : Gh) (order frame : Nat) : Gh :=
  if order < g.hugeOrder then gh.subS frame (2 ^ order) else gh.subH (frame / g.hugeFrames) (2 ^ (order - g.hugeOrder))

def UPutPost (g : Geom) (gh : Gh) (order frame : Nat) : Res Unit → Gh → Prop
  | .ok _, gh' => gh' = dropBlock g gh order frame
  | .error _, gh' => gh' = gh

/-- **`LLFree::put` of a held block (at its order) for one thread among many** -/
theorem put_L (ok : GeomOk16 c.geom) (gh : Gh) (frame : Nat) (r : Request) (hheld : HoldsBlock c.geom gh r.order frame) :
    SafeL false c.geom (UPutPost c.geom gh r.order frame) gh (put c frame r) := by
  unfold put
  apply SafeL.bind _ _ _ (Neut.safeL gh _ (check_neut c frame r))
  rintro ck gh0 ⟨rfl, hck⟩
  cases ck with
  | error e => exact rfl
  | ok u =>
    obtain ⟨hord, hal⟩ := hck rfl
    simp only
    have hlp : SafeL false c.geom (fun lp gh' => lp = .ok () ∧ gh' = dropBlock c.geom gh0 r.order frame) gh0
        (Lower.put c.g retries frame r.order) := by
      unfold HoldsBlock at hheld
      unfold dropBlock
      by_cases ho : r.order < c.geom.hugeOrder
      · rw [if_pos ho] at hheld ⊢
        exact putL_small ok gh0 retries frame r.order ho hal hheld
      · rw [if_neg ho] at hheld ⊢
        exact putL_huge ok gh0 retries frame r.order (by omega) hheld.1 hheld.2
    apply SafeL.bind _ _ _ hlp
    rintro lp gh1 ⟨rfl, h1⟩
    simp only
    have tail : ∀ p : Prog (Res Unit), Neut (fun res => res = .ok ()) p →
        SafeL false c.geom (UPutPost c.geom gh0 r.order frame) gh1 p := by
      intro p hp
      apply SafeL.mono _ _ _ (Neut.safeL gh1 _ hp)
      rintro res gh2 ⟨rfl, rfl⟩
      exact h1
    apply tail
    have hfin : ∀ b : Bool, Neut (fun (res : Res Unit) => res = .ok ())
        (if b = true then pure (.ok ()) else do tput c (frame / c.tf) (2 ^ r.order); pure (.ok ())) := by
      intro b
      cases b with
      | true => simp
      | false =>
        simp only [Bool.false_eq_true, if_false, neut_bind_iff]
        apply Neut.mono _ _ (tput_neut c _ _)
        intro _ _; simp
    cases r.loc with
    | none => simp only [neut_bind_iff, neut_pure]; exact hfin false
    | some l =>
      simp only [neut_bind_iff]
      apply Neut.mono _ _ (locals_put_neut c _ _ _ _)
      intro b _
      exact hfin b

end
end LLFree
