/-
  Adversarial-memory reasoning: `Always P p` says that every value the program `p` can return
  satisfies `P`, *whatever* values its atomic accesses observe. It is defined by structural
  recursion on the program tree with every observed value universally quantified, so it is
  independent of the memory contents and therefore holds for every interleaving with any
  number of other threads (`Always.step`) as well as for sequential runs (`Always.runSolo`).
-/
import LLFreeV.Proofs.Run
namespace LLFree
open Prog

def Always {α : Type} (P : α → Prop) : Prog α → Prop
  | .ret a => P a
  | .panic _ => True
  | .load _ _ c => ∀ v, Always P (c v)
  | .store _ _ _ c => Always P c
  | .swap _ _ _ c => ∀ o, Always P (c o)
  | .cas _ _ _ _ c => ∀ r, Always P (c r)
  | .casPart _ _ _ _ _ c => ∀ b, Always P (c b)
  | .upd _ _ f c => ∀ v, (f v = .skip → Always P (c (.error v))) ∧ (∀ n, f v = .set n → Always P (c (.ok v)))

theorem Always.mono {α : Type} {P Q : α → Prop} (h : ∀ a, P a → Q a) :
    ∀ p : Prog α, Always P p → Always Q p := by
  intro p
  induction p with
  | ret a => exact h a
  | panic s => exact fun _ => trivial
  | load k i c ih => exact fun hp v => ih v (hp v)
  | store k i v c ih => exact fun hp => ih hp
  | swap k i v c ih => exact fun hp o => ih o (hp o)
  | cas k i e n c ih => exact fun hp r => ih r (hp r)
  | casPart i sh w e n c ih => exact fun hp b => ih b (hp b)
  | upd k i f c ih =>
    exact fun hp v => ⟨fun hs => ih _ ((hp v).1 hs), fun n hn => ih _ ((hp v).2 n hn)⟩

theorem Always.bind {α β : Type} {Q : α → Prop} {P : β → Prop} (p : Prog α) (f : α → Prog β)
    (hp : Always Q p) (hf : ∀ a, Q a → Always P (f a)) : Always P (p >>= f) := by
  show Always P (p.bind f)
  induction p with
  | ret a => exact hf a hp
  | panic s => trivial
  | load k i c ih => exact fun v => ih v (hp v)
  | store k i v c ih => exact ih hp
  | swap k i v c ih => exact fun o => ih o (hp o)
  | cas k i e n c ih => exact fun r => ih r (hp r)
  | casPart i sh w e n c ih => exact fun b => ih b (hp b)
  | upd k i g c ih =>
    exact fun v => ⟨fun hs => ih _ ((hp v).1 hs), fun n hn => ih _ ((hp v).2 n hn)⟩

theorem Always.pure {α : Type} {P : α → Prop} (a : α) (h : P a) : Always P (pure a : Prog α) := h

theorem Always.true {α : Type} (p : Prog α) : Always (fun _ => True) p := by
  induction p with
  | ret a => trivial
  | panic s => trivial
  | load k i c ih => exact fun v => ih v
  | store k i v c ih => exact ih
  | swap k i v c ih => exact fun o => ih o
  | cas k i e n c ih => exact fun r => ih r
  | casPart i sh w e n c ih => exact fun b => ih b
  | upd k i f c ih => exact fun v => ⟨fun _ => ih _, fun _ _ => ih _⟩

/-- sequential soundness -/
theorem Always.runSolo {α : Type} {P : α → Prop} (p : Prog α) (hp : Always P p) (m : Mem) :
    match (runSolo p m).2 with
    | .ok a => P a
    | .panic _ => True := by
  induction p generalizing m with
  | ret a => exact hp
  | panic s => trivial
  | load k i c ih =>
    simp only [LLFree.runSolo]
    cases m.get? k i with
    | none => trivial
    | some v => exact ih v (hp v) m
  | store k i v c ih =>
    simp only [LLFree.runSolo]
    cases m.get? k i with
    | none => trivial
    | some _ => exact ih hp _
  | swap k i v c ih =>
    simp only [LLFree.runSolo]
    cases m.get? k i with
    | none => trivial
    | some o => exact ih o (hp o) _
  | cas k i e n c ih =>
    simp only [LLFree.runSolo]
    cases m.get? k i with
    | none => trivial
    | some o =>
      simp only
      by_cases h : o = e
      · simp only [h, if_true]; exact ih _ (hp _) _
      · simp only [h, if_false]; exact ih _ (hp _) _
  | casPart i sh w e n c ih =>
    simp only [LLFree.runSolo]
    cases m.get? .row i with
    | none => trivial
    | some o =>
      simp only
      cases casPartVal o sh w e n with
      | none => exact ih _ (hp _) _
      | some r => exact ih _ (hp _) _
  | upd k i f c ih =>
    simp only [LLFree.runSolo]
    cases m.get? k i with
    | none => trivial
    | some o =>
      simp only
      cases hf : f o with
      | skip => exact ih _ ((hp o).1 hf) _
      | set v => exact ih _ ((hp o).2 v hf) _
      | panic s => trivial

/-- `Always` for a thread between two accesses -/
def Th.Always {α : Type} (P : α → Prop) : Th α → Prop
  | .at p => LLFree.Always P p
  | .updCas _ _ f cur _ c =>
      LLFree.Always P (c (.ok cur)) ∧
      ∀ v, (f v = .skip → LLFree.Always P (c (.error v))) ∧ (∀ n, f v = .set n → LLFree.Always P (c (.ok v)))

/-- interleaving soundness: one atomic access of the thread, from *any* memory (i.e. after any
    steps of any other threads), preserves `Always`; a finished thread returned a value in `P`. -/
theorem Always.step {α : Type} {P : α → Prop} (t : Th α) (ht : Th.Always P t) (m : Mem) :
    match t.step m with
    | .done a => P a
    | .dead _ => True
    | .step t' _ _ => Th.Always P t' := by
  cases t with
  | «at» p =>
    cases p with
    | ret a => exact ht
    | panic s => trivial
    | load k i c =>
      simp only [Th.step]
      cases m.get? k i with
      | none => trivial
      | some v => exact ht v
    | store k i v c =>
      simp only [Th.step]
      cases m.get? k i with
      | none => trivial
      | some _ => exact ht
    | swap k i v c =>
      simp only [Th.step]
      cases m.get? k i with
      | none => trivial
      | some o => exact ht o
    | cas k i e n c =>
      simp only [Th.step]
      cases m.get? k i with
      | none => trivial
      | some o =>
        simp only
        by_cases h : o = e
        · simp only [h, if_true]; exact ht _
        · simp only [h, if_false]; exact ht _
    | casPart i sh w e n c =>
      simp only [Th.step]
      cases m.get? .row i with
      | none => trivial
      | some o =>
        simp only
        cases casPartVal o sh w e n with
        | none => exact ht _
        | some r => exact ht _
    | upd k i f c =>
      simp only [Th.step]
      cases m.get? k i with
      | none => trivial
      | some o =>
        simp only [Th.afterUpd]
        cases hf : f o with
        | skip => exact (ht o).1 hf
        | set v => exact ⟨(ht o).2 v hf, ht⟩
        | panic s => trivial
  | updCas k i f cur new c =>
    simp only [Th.step]
    cases m.get? k i with
    | none => trivial
    | some o =>
      simp only
      by_cases h : o = cur
      · simp only [h, if_true]; exact ht.1
      · simp only [h, if_false, Th.afterUpd]
        cases hf : f o with
        | skip => exact (ht.2 o).1 hf
        | set v => exact ⟨(ht.2 o).2 v hf, ht.2⟩
        | panic s => trivial

end LLFree

namespace LLFree
open Prog

theorem always_bind_iff {α β : Type} {P : β → Prop} (p : Prog α) (f : α → Prog β) :
    Always P (p >>= f) ↔ Always (fun a => Always P (f a)) p := by
  show Always P (p.bind f) ↔ _
  induction p with
  | ret a => exact Iff.rfl
  | panic s => exact Iff.rfl
  | load k i c ih => exact forall_congr' fun v => ih v
  | store k i v c ih => exact ih
  | swap k i v c ih => exact forall_congr' fun o => ih o
  | cas k i e n c ih => exact forall_congr' fun r => ih r
  | casPart i sh w e n c ih => exact forall_congr' fun b => ih b
  | upd k i g c ih =>
    exact forall_congr' fun v =>
      and_congr (imp_congr_right fun _ => ih _) (forall_congr' fun n => imp_congr_right fun _ => ih _)

@[simp] theorem always_pure {α : Type} {P : α → Prop} (a : α) : Always P (pure a : Prog α) ↔ P a := Iff.rfl
@[simp] theorem always_ret {α : Type} {P : α → Prop} (a : α) : Always P (Prog.ret a) ↔ P a := Iff.rfl
@[simp] theorem always_panic {α : Type} {P : α → Prop} (s : String) : Always P (Prog.panic s : Prog α) ↔ True := Iff.rfl
@[simp] theorem always_loadK {P : k.Val → Prop} (i : Nat) : Always P (loadK k i) ↔ ∀ v, P v := Iff.rfl
@[simp] theorem always_storeK {P : Unit → Prop} (k : Kind) (i : Nat) (v : k.Val) : Always P (storeK k i v) ↔ P () := Iff.rfl
@[simp] theorem always_swapK {P : k.Val → Prop} (i : Nat) (v : k.Val) : Always P (swapK k i v) ↔ ∀ o, P o := Iff.rfl
@[simp] theorem always_casK {P : Except k.Val k.Val → Prop} (i : Nat) (e n : k.Val) :
    Always P (casK k i e n) ↔ ∀ r, P r := Iff.rfl
@[simp] theorem always_casPartK {P : Bool → Prop} (i sh w : Nat) (e n : BitVec 64) :
    Always P (casPartK i sh w e n) ↔ ∀ b, P b := Iff.rfl
@[simp] theorem always_updK {P : Except k.Val k.Val → Prop} (i : Nat) (f : k.Val → Upd k.Val) :
    Always P (updK k i f) ↔ ∀ v, (f v = .skip → P (.error v)) ∧ (∀ n, f v = .set n → P (.ok v)) := Iff.rfl
@[simp] theorem always_load {α : Type} {P : α → Prop} (k : Kind) (i : Nat) (c : k.Val → Prog α) :
    Always P (Prog.load k i c) ↔ ∀ v, Always P (c v) := Iff.rfl

theorem always_tryUpdate {P : Except k.Val k.Val → Prop} (i : Nat) (f : k.Val → Option k.Val) :
    Always P (tryUpdate k i f) ↔ ∀ v, (f v = none → P (.error v)) ∧ (∀ n, f v = some n → P (.ok v)) := by
  show (∀ v, _) ↔ _
  apply forall_congr'; intro v
  simp only [Upd.ofOption, Always]
  cases h : f v <;> simp

attribute [simp] always_bind_iff always_tryUpdate

end LLFree
