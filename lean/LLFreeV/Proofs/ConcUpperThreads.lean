/-
  Threads at the public interface under the combined invariant: every state of every interleaving
  satisfies `CInv`, and a quiescent state (all threads finished) satisfies the sequential upper
  invariant `UpperInv0` again — the tree counters, the reservations and the reserved flags are
  exactly consistent with the allocation state.
-/
import LLFreeV.Proofs.ConcUpperGet
import LLFreeV.Proofs.OwnUpperThreads
import LLFreeV.Proofs.FastTotal
namespace LLFree
open Prog

/-- frames of tree `i` in a list of small blocks -/
def smallBase (tf : Nat) (l : List Blk) (i : Nat) : Nat := (l.map (fun b => if b.i / tf = i then 2 ^ b.order else 0)).sum
/-- … of huge blocks -/
def hugeBase (tf : Nat) (l : List HB) (i : Nat) : Nat := (l.map (fun b => if b.frame / tf = i then 2 ^ b.order else 0)).sum

/-- the upper ghost of a thread between two calls: what its blocks took out of the counters -/
def ugOf (tf : Nat) (held : Held) : UGh :=
  { base := fun i => smallBase tf held.small i + hugeBase tf held.huge i, tok := fun _ => none }

theorem sum_map_eraseIdx {τ : Type} (f : τ → Nat) : ∀ (l : List τ) (idx : Nat) (b : τ), l[idx]? = some b →
    ((l.eraseIdx idx).map f).sum + f b = (l.map f).sum
  | [], idx, b, h => by simp at h
  | x :: rest, 0, b, h => by
    simp only [List.getElem?_cons_zero] at h; cases h
    simp only [List.eraseIdx_cons_zero, List.map_cons, List.sum_cons]; omega
  | x :: rest, idx + 1, b, h => by
    simp only [List.getElem?_cons_succ] at h
    have := sum_map_eraseIdx f rest idx b h
    simp only [List.eraseIdx_cons_succ, List.map_cons, List.sum_cons]; omega

theorem le_sum_map_of_getElem {τ : Type} (f : τ → Nat) (l : List τ) (idx : Nat) (b : τ) (h : l[idx]? = some b) :
    f b ≤ (l.map f).sum := by
  have := sum_map_eraseIdx f l idx b h; omega

/-- valid parameters of a command: a class id below 8 and, if a slot is named, one the class has -/
def UCmd.valid (c : Cfg) : UCmd → Prop
  | .get _ r => r.cls < 8 ∧ r.locOk c
  | .putS _ cls loc => cls < 8 ∧ ∀ l rng, loc = some l → c.slotRange cls = some rng → l < rng.2
  | .putH _ cls loc => cls < 8 ∧ ∀ l rng, loc = some l → c.slotRange cls = some rng → l < rng.2
  | .drain => True

section
variable {c : Cfg}

/-- **a thread at the public interface is safe for the upper protocol and never trips a
    consistency check of the upper level**; between calls its ghost is determined by the blocks it
    holds -/
theorem runU_safeU (ok : CfgOk c) (cmds : List UCmd) (hvalid : ∀ x ∈ cmds, x.valid c) :
    ∀ (held : Held), SafeU c (fun held' ug' => ug' = ugOf c.geom.treeFrames held') (ugOf c.geom.treeFrames held) (runU c cmds held) := by
  induction cmds with
  | nil => intro held; rfl
  | cons cmd rest ih =>
    have hv := hvalid cmd List.mem_cons_self
    have ih := ih (fun x hx => hvalid x (List.mem_cons_of_mem _ hx))
    intro held
    cases cmd with
    | get frame r =>
      unfold runU
      apply SafeU.bind _ _ _ (get_U ok _ frame r hv.1 hv.2)
      intro res ug1 h1
      cases res with
      | error e => simp only [UGetPostU] at h1; subst ug1; exact ih held
      | ok x =>
        obtain ⟨f, k⟩ := x
        simp only [UGetPostU] at h1
        subst h1
        simp only
        split
        · have : (ugOf c.geom.treeFrames held).addBase (f / c.geom.treeFrames) (2 ^ r.order) =
              ugOf c.geom.treeFrames { held with small := ⟨f / c.geom.hugeFrames, f, r.order⟩ :: held.small } := by
            apply UGh.ext'
            · intro i
              simp only [UGh.addBase_base, ugOf, smallBase, List.map_cons, List.sum_cons]
              by_cases e : i = f / c.geom.treeFrames
              · subst e; simp; omega
              · have e' : ¬ f / c.geom.treeFrames = i := fun x => e x.symm
                simp [e, e']
            · intro i; rfl
          rw [this]; exact ih _
        · have : (ugOf c.geom.treeFrames held).addBase (f / c.geom.treeFrames) (2 ^ r.order) =
              ugOf c.geom.treeFrames { held with huge := ⟨f, r.order⟩ :: held.huge } := by
            apply UGh.ext'
            · intro i
              simp only [UGh.addBase_base, ugOf, hugeBase, List.map_cons, List.sum_cons]
              by_cases e : i = f / c.geom.treeFrames
              · subst e; simp; omega
              · have e' : ¬ f / c.geom.treeFrames = i := fun x => e x.symm
                simp [e, e']
            · intro i; rfl
          rw [this]; exact ih _
    | putS idx cls loc =>
      unfold runU
      cases hb : held.small[idx]? with
      | none => exact ih held
      | some b =>
        simp only
        have hle : 2 ^ b.order ≤ (ugOf c.geom.treeFrames held).base (b.i / c.geom.treeFrames) := by
          have := le_sum_map_of_getElem (fun x : Blk => if x.i / c.geom.treeFrames = b.i / c.geom.treeFrames then 2 ^ x.order else 0)
            held.small idx b hb
          simp only [if_true] at this
          show _ ≤ smallBase _ _ _ + _
          unfold smallBase; omega
        apply SafeU.bind _ _ _ (put_U ok _ b.i ⟨b.order, cls, loc⟩ hle hv.1 hv.2)
        intro res ug1 h1
        cases res with
        | error e => simp only [UPutPostU] at h1; subst ug1; exact ih held
        | ok _ =>
          simp only [UPutPostU] at h1
          subst h1
          have : (ugOf c.geom.treeFrames held).subBase (b.i / c.geom.treeFrames) (2 ^ b.order) =
              ugOf c.geom.treeFrames { held with small := held.small.eraseIdx idx } := by
            apply UGh.ext'
            · intro i
              have := sum_map_eraseIdx (fun x : Blk => if x.i / c.geom.treeFrames = i then 2 ^ x.order else 0) held.small idx b hb
              simp only [UGh.subBase_base, ugOf, smallBase]
              by_cases e : i = b.i / c.geom.treeFrames
              · subst e; simp only [if_true] at this ⊢; omega
              · have e' : ¬ b.i / c.geom.treeFrames = i := fun x => e x.symm
                simp only [if_neg e, if_neg e'] at this ⊢; omega
            · intro i; rfl
          rw [this]; exact ih _
    | putH idx cls loc =>
      unfold runU
      cases hb : held.huge[idx]? with
      | none => exact ih held
      | some b =>
        simp only
        have hle : 2 ^ b.order ≤ (ugOf c.geom.treeFrames held).base (b.frame / c.geom.treeFrames) := by
          have := le_sum_map_of_getElem (fun x : HB => if x.frame / c.geom.treeFrames = b.frame / c.geom.treeFrames then 2 ^ x.order else 0)
            held.huge idx b hb
          simp only [if_true] at this
          show _ ≤ _ + hugeBase _ _ _
          unfold hugeBase; omega
        apply SafeU.bind _ _ _ (put_U ok _ b.frame ⟨b.order, cls, loc⟩ hle hv.1 hv.2)
        intro res ug1 h1
        cases res with
        | error e => simp only [UPutPostU] at h1; subst ug1; exact ih held
        | ok _ =>
          simp only [UPutPostU] at h1
          subst h1
          have : (ugOf c.geom.treeFrames held).subBase (b.frame / c.geom.treeFrames) (2 ^ b.order) =
              ugOf c.geom.treeFrames { held with huge := held.huge.eraseIdx idx } := by
            apply UGh.ext'
            · intro i
              have := sum_map_eraseIdx (fun x : HB => if x.frame / c.geom.treeFrames = i then 2 ^ x.order else 0) held.huge idx b hb
              simp only [UGh.subBase_base, ugOf, hugeBase]
              by_cases e : i = b.frame / c.geom.treeFrames
              · subst e; simp only [if_true] at this ⊢; omega
              · have e' : ¬ b.frame / c.geom.treeFrames = i := fun x => e x.symm
                simp only [if_neg e, if_neg e'] at this ⊢; omega
            · intro i; rfl
          rw [this]; exact ih _
    | drain =>
      unfold runU
      apply SafeU.bind _ _ _ (drain_U ok _)
      intro _ ug1 h1
      subst ug1
      exact ih held

end
/-! ### counting what a finished thread holds -/
section
variable {g : Geom}

theorem blockSum_const (v n : Nat) : blockSum (fun _ => v) n = n * v := by
  induction n with
  | zero => simp [blockSum]
  | succ n ih => rw [blockSum, ih, Nat.succ_mul]

/-- exactly one index of `i·th … i·th + th − 1` equals `x` iff `x / th = i` -/
theorem blockSum_indicator (x i th v : Nat) (hth : 0 < th) :
    blockSum (fun cc => if x = i * th + cc then v else 0) th = if x / th = i then v else 0 := by
  by_cases e : x / th = i
  · rw [if_pos e]
    have hx : x = i * th + x % th := by rw [← e, Nat.mul_comm]; exact (Nat.div_add_mod x th).symm
    have hlt := Nat.mod_lt x hth
    have := blockSum_interval (fun _ => v) (x % th) 1 th (by omega)
    rw [blockSum_one] at this
    refine Eq.trans ?_ this
    apply blockSum_congr
    intro cc _
    by_cases a : x = i * th + cc
    · rw [if_pos a, if_pos (by omega)]
    · rw [if_neg a, if_neg (by omega)]
  · rw [if_neg e]
    apply blockSum_zero'
    intro cc hcc
    rw [if_neg]
    intro hx
    apply e
    rw [hx, Nat.mul_comm, Nat.mul_add_div hth, Nat.div_eq_of_lt hcc]; omega

theorem cntH_ownedBy (okg : GeomOk g) : ∀ (l : List Blk), HeldOk g l → ∀ x,
    cntH g (ownedBy g l) x = (l.map (fun b => if b.h = x then 2 ^ b.order else 0)).sum
  | [], _, x => by
    unfold cntH ownedBy
    simp
  | b :: rest, hok, x => by
    obtain ⟨hb, hdis, hrest⟩ := hok
    rw [ownedBy_cons]
    have hoff : b.i % g.hugeFrames < g.hugeFrames := Nat.mod_lt _ okg.hf_pos
    have hfit := aligned_fits okg (b.i % g.hugeFrames) b.order hb.1 hoff hb.2
    have := cntH_addBlock (g := g) (ownedBy g rest) b.h (b.i % g.hugeFrames) (2 ^ b.order) hfit hdis x
    unfold Blk.start
    rw [this, cntH_ownedBy okg rest hrest x, List.map_cons, List.sum_cons]
    by_cases e : x = b.h
    · subst e; simp; omega
    · have e' : ¬ b.h = x := fun h => e h.symm
      simp [e, e']

theorem smallBase_eq (okg : GeomOk g) (l : List Blk) (hs : ∀ b ∈ l, SmallOk g b) (i : Nat) :
    blockSum (fun cc => (l.map (fun b => if b.h = i * g.treeHuge + cc then 2 ^ b.order else 0)).sum) g.treeHuge =
      smallBase g.treeFrames l i := by
  induction l with
  | nil => simp [smallBase, blockSum_zero' _ _ (fun _ _ => rfl)]
  | cons b rest ih =>
    simp only [List.map_cons, List.sum_cons, smallBase]
    rw [blockSum_add, ih (fun x hx => hs x (List.mem_cons_of_mem _ hx)), blockSum_indicator _ _ _ _ okg.th_pos]
    have hb := hs b List.mem_cons_self
    have : b.h / g.treeHuge = b.i / g.treeFrames := by
      rw [hb.2.2, Nat.div_div_eq_div_mul, okg.tf_eq, Nat.mul_comm]
    rw [this]; rfl

theorem ownedHBy_sum : ∀ (l : List HB), HeldOkH g l → ∀ x,
    (if ownedHBy g l x = true then g.hugeFrames else 0) = (l.map (fun b => if b.has g x = true then g.hugeFrames else 0)).sum
  | [], _, x => by simp [ownedHBy]
  | b :: rest, hok, x => by
    obtain ⟨_, hdis, hrest⟩ := hok
    have ih := ownedHBy_sum rest hrest x
    rw [List.map_cons, List.sum_cons, ← ih]
    have : ownedHBy g (b :: rest) x = (b.has g x || ownedHBy g rest x) := by simp [ownedHBy]
    rw [this]
    cases hb : b.has g x with
    | true => rw [hdis x hb]; simp
    | false => simp

theorem HB_tree (okg : GeomOk g) (b : HB) (hb : b.ok g) (i : Nat) :
    blockSum (fun cc => if b.has g (i * g.treeHuge + cc) = true then g.hugeFrames else 0) g.treeHuge =
      if b.frame / g.treeFrames = i then 2 ^ b.order else 0 := by
  obtain ⟨hord, hfit⟩ := hb
  have hth := okg.th_pos
  have hbt : b.base g / g.treeHuge = b.frame / g.treeFrames := by
    unfold HB.base; rw [Nat.div_div_eq_div_mul, okg.tf_eq, Nat.mul_comm]
  have hsplit : b.base g = b.base g / g.treeHuge * g.treeHuge + b.base g % g.treeHuge := by
    rw [Nat.mul_comm]; exact (Nat.div_add_mod _ _).symm
  by_cases e : b.frame / g.treeFrames = i
  · rw [if_pos e]
    have hi : b.base g / g.treeHuge = i := by rw [hbt]; exact e
    have := blockSum_interval (fun _ => g.hugeFrames) (b.base g % g.treeHuge) (b.cnt g) g.treeHuge hfit
    rw [blockSum_const] at this
    have hpow : b.cnt g * g.hugeFrames = 2 ^ b.order := by
      unfold HB.cnt
      show _ * 2 ^ g.hugeOrder = _
      rw [← Nat.pow_add]; congr 1; omega
    rw [← hpow, ← this]
    apply blockSum_congr
    intro cc _
    unfold HB.has inBlockF
    have : (decide (b.base g ≤ i * g.treeHuge + cc) && decide (i * g.treeHuge + cc < b.base g + b.cnt g)) = true ↔
        b.base g % g.treeHuge ≤ cc ∧ cc < b.base g % g.treeHuge + b.cnt g := by
      rw [← hi] at *
      simp only [Bool.and_eq_true, decide_eq_true_eq]
      constructor <;> intro h <;> omega
    by_cases a : b.base g % g.treeHuge ≤ cc ∧ cc < b.base g % g.treeHuge + b.cnt g
    · rw [if_pos (this.2 a), if_pos a]
    · rw [if_neg (fun h => a (this.1 h)), if_neg a]
  · rw [if_neg e]
    apply blockSum_zero'
    intro cc hcc
    rw [if_neg]
    intro h
    unfold HB.has inBlockF at h
    simp only [Bool.and_eq_true, decide_eq_true_eq] at h
    apply e
    rw [← hbt]
    -- the block lies inside the tree of its first huge frame
    have h1 : b.base g / g.treeHuge * g.treeHuge ≤ i * g.treeHuge + cc := by omega
    have h2 : i * g.treeHuge + cc < b.base g / g.treeHuge * g.treeHuge + g.treeHuge := by omega
    have : (i * g.treeHuge + cc) / g.treeHuge = i := by
      rw [Nat.mul_comm, Nat.mul_add_div hth, Nat.div_eq_of_lt hcc]; omega
    rw [← this]
    apply Nat.le_antisymm
    · apply (Nat.le_div_iff_mul_le hth).2; exact h1
    · apply Nat.le_of_lt_succ
      apply (Nat.div_lt_iff_lt_mul hth).2
      rw [Nat.succ_mul]; exact h2

theorem hugeBase_eq (okg : GeomOk g) (l : List HB) (hs : ∀ b ∈ l, b.ok g) (i : Nat) :
    blockSum (fun cc => (l.map (fun b => if b.has g (i * g.treeHuge + cc) = true then g.hugeFrames else 0)).sum) g.treeHuge =
      hugeBase g.treeFrames l i := by
  induction l with
  | nil => simp [hugeBase, blockSum_zero' _ _ (fun _ _ => rfl)]
  | cons b rest ih =>
    simp only [List.map_cons, List.sum_cons, hugeBase]
    rw [blockSum_add, ih (fun x hx => hs x (List.mem_cons_of_mem _ hx)), HB_tree okg b (hs b List.mem_cons_self) i]
    rfl

/-- **what a finished thread holds, tree by tree, is what its blocks took out of the counters** -/
theorem heldIn_ghOf (okg : GeomOk g) (held : Held) (hok : HeldOkL g held) (i : Nat) :
    blockSum (fun cc => heldIn g (ghOf g held) (i * g.treeHuge + cc)) g.treeHuge = (ugOf g.treeFrames held).base i := by
  obtain ⟨h1, h2, h3⟩ := hok
  unfold heldIn
  rw [blockSum_add]
  show _ = smallBase _ _ _ + hugeBase _ _ _
  congr 1
  · rw [← smallBase_eq okg held.small h2 i]
    apply blockSum_congr
    intro cc _
    exact cntH_ownedBy okg held.small h1 _
  · rw [← hugeBase_eq okg held.huge (fun b hb => HeldOkH.mem h3 b hb) i]
    apply blockSum_congr
    intro cc _
    exact ownedHBy_sum held.huge h3 _

end

/-! ### quiescent states -/
section
variable {c : Cfg}

/-- with no open accounts the lower invariant of an interleaving is the sequential one -/
theorem LInv.lowerInv_quiescent {α : Type} {strict : Bool} {n : Nat} {Post : α → Gh → Prop} {m : Mem} {ths : Nat → Th α}
    {ghs : Nat → Gh} (okg : GeomOk c.geom) (I : LInv strict c.geom n c.frames Post m ths ghs)
    (hu : ∀ k, k < n → ∀ h, (ghs k).u h = 0) (hr : m.rows.size = c.nhuge * c.geom.rows)
    (hh : m.huge.size = c.ntrees * c.geom.treeHuge) : LowerInv c m := by
  have hus : ∀ h, usum n ghs h = 0 := by
    intro h
    unfold usum
    exact blockSum_zero' _ n (fun k hk => hu k hk h)
  have hbeyond : ∀ h, c.nhuge ≤ h → zerosIn c.geom m h = 0 := by
    intro h hge
    unfold zerosIn
    apply List.countP_eq_zero.2
    intro i hi
    have hrow : m.rows[(h * c.geom.hugeFrames + i) / 64]? = none := by
      apply Array.getElem?_eq_none
      rw [hr, okg.frame_row]
      have : c.nhuge * c.geom.rows ≤ h * c.geom.rows := Nat.mul_le_mul_right _ hge
      omega
    unfold Mem.bit
    rw [hrow]; simp
  refine ⟨hr, hh, ?_, ?_, ?_, I.outside⟩
  · intro h hge
    cases hm : Huge.isHuge (m.hugeE h) with
    | true =>
      have := (I.marker h hm).1
      rw [hbeyond h hge] at this
      have := okg.hf_pos; omega
    | false =>
      have := I.count h hm
      rw [hus h, hbeyond h hge] at this; omega
  · intro h _ hm
    have hz := (I.marker h hm).1
    have hall := (zerosIn_eq_full_iff m h).1 hz
    refine ⟨?_, hall⟩
    apply Nat.le_of_not_lt
    intro hlt
    rw [Nat.add_mul, Nat.one_mul] at hlt
    by_cases hc : h * c.geom.hugeFrames ≤ c.frames
    · have := I.outside (h * c.geom.hugeFrames + (c.frames - h * c.geom.hugeFrames)) (by omega)
      rw [hall _ (by omega)] at this; cases this
    · have := I.outside (h * c.geom.hugeFrames + 0) (by omega)
      rw [hall 0 okg.hf_pos] at this; cases this
  · intro h _ hm
    have := I.count h hm
    rw [hus h] at this; omega

theorem heldIn_empty (g : Geom) (h : Nat) : heldIn g (ghOf g ⟨[], []⟩) h = 0 := by
  unfold heldIn ghOf cntH
  simp [ownedBy, ownedHBy]

/-- postconditions of a thread program: between calls the ghosts are those of the holdings -/
abbrev PostLU (c : Cfg) : Held → Gh → Prop := fun held' gh' => gh' = ghOf c.geom held' ∧ HeldOkL c.geom held'
abbrev PostUU (c : Cfg) : Held → UGh → Prop := fun held' ug' => ug' = ugOf c.geom.treeFrames held'

/-- **the combined invariant holds in every state of every interleaving** of threads running valid
    public calls from a state satisfying the sequential upper invariant -/
theorem conc_cinv (ok : CfgOk c) (H : Nat → Nat) (m : Mem) (inv : UpperInv0 c H m)
    (n : Nat) (cmds : Nat → List UCmd) (hvalid : ∀ k, ∀ x ∈ cmds k, x.valid c) (sched : List Nat) (hsched : ∀ k ∈ sched, k < n) :
    ∃ ghs ugs, CInv c H n c.frames (PostLU c) (PostUU c)
      (concRun sched (m, fun k => Th.at (runU c (cmds k) ⟨[], []⟩))).1
      (concRun sched (m, fun k => Th.at (runU c (cmds k) ⟨[], []⟩))).2 ghs ugs := by
  have L0 := LInv.init_gen ok.geom m inv.lower n false _ (fun k => runU c (cmds k) ⟨[], []⟩)
    (fun k => runU_safe ok.geom (cmds k) ⟨[], []⟩ ⟨trivial, (fun b hb => by cases hb), trivial⟩)
  have hG0 : ∀ i, GT c.geom n m (fun _ => ghOf c.geom ⟨[], []⟩) i = m.freeInTree c.geom i := by
    intro i
    rw [Mem.freeInTree_eq_blockSum]
    unfold GT GH
    apply blockSum_congr
    intro cc _
    rw [blockSum_zero' _ n (fun k _ => heldIn_empty c.geom _)]; omega
  have U0 : UInv c H n m (fun _ => ghOf c.geom ⟨[], []⟩) (fun _ => ugOf c.geom.treeFrames ⟨[], []⟩) := by
    refine ⟨inv.toG.congr rfl rfl ?_ ?_ hG0, ?_, ?_, ?_⟩
    · intro i
      unfold baseSum
      exact blockSum_zero' _ n (fun k _ => by simp [ugOf, smallBase, hugeBase])
    · intro i
      constructor
      · rintro ⟨k, _, hk⟩; simp [ugOf] at hk
      · intro h; exact h.elim
    · intro j k _ _ _ i hi; simp [ugOf] at hi
    · intro k _ i b hb; simp [ugOf] at hb
    · intro i; rw [hG0 i]; exact Mem.freeInTree_le m c.geom i
  have C0 : CInv c H n c.frames (PostLU c) (PostUU c) m (fun k => Th.at (runU c (cmds k) ⟨[], []⟩)) (fun _ => ghOf c.geom ⟨[], []⟩)
      (fun _ => ugOf c.geom.treeFrames ⟨[], []⟩) :=
    ⟨L0, U0, fun k => runU_safeU ok (cmds k) (hvalid k) ⟨[], []⟩⟩
  exact CInv.run ok sched hsched m _ _ _ C0

/-- **C03 for the public interface, every interleaving: no call panics.** Threads `k < n` run
    arbitrary lists of valid public calls (`get` with any request of a valid class and slot,
    targeted or not; `put` of blocks they hold at their allocation order; `drain`) from a state
    satisfying the upper invariant. Under every schedule, in every state, no thread has trapped
    on a consistency check of the allocator — the only way a thread of the model can die is an
    index outside the metadata buffers (`oobMsg`, the subject of C18). -/
theorem upper_conc_no_panic (ok : CfgOk c) (H : Nat → Nat) (m : Mem) (inv : UpperInv0 c H m)
    (n : Nat) (cmds : Nat → List UCmd) (hvalid : ∀ k, ∀ x ∈ cmds k, x.valid c) (sched : List Nat) (hsched : ∀ k ∈ sched, k < n)
    (k : Nat) (hk : k < n) (s : String)
    (hd : ((concRun sched (m, fun k => Th.at (runU c (cmds k) ⟨[], []⟩))).2 k).step
      (concRun sched (m, fun k => Th.at (runU c (cmds k) ⟨[], []⟩))).1 = .dead s) : s = oobMsg := by
  obtain ⟨ghs, ugs, C⟩ := conc_cinv ok H m inv n cmds hvalid sched hsched
  have := C.step ok k hk
  rw [hd] at this
  exact this

/-- **C04 / C02 under concurrency: every quiescent state of every interleaving satisfies the
    sequential upper invariant.** From a state satisfying `UpperInv0` (e.g. a constructed or
    recovered allocator, any history of sequential calls), `n` threads run arbitrary lists of
    valid public calls (`get` of any request with or without target, `put` of blocks they hold at
    their allocation order, `drain`) under an arbitrary schedule. Whenever all threads have
    returned, the state satisfies `UpperInv0` again with the same hidden frames `H`: the tree
    counters plus the reservations are exactly the free frames (minus offline ones), reserved
    entries are exactly those named by a slot, slot classes are admissible — so every sequential
    theorem (statistics, `validate`, completeness after drain, …) applies to the continuation. -/
theorem upper_conc_quiescent (ok : CfgOk c) (H : Nat → Nat) (m : Mem) (inv : UpperInv0 c H m)
    (n : Nat) (cmds : Nat → List UCmd) (hvalid : ∀ k, ∀ x ∈ cmds k, x.valid c) (sched : List Nat) (hsched : ∀ k ∈ sched, k < n)
    (hdone : ∀ k, k < n → ∃ held, ((concRun sched (m, fun k => Th.at (runU c (cmds k) ⟨[], []⟩))).2 k).step
      (concRun sched (m, fun k => Th.at (runU c (cmds k) ⟨[], []⟩))).1 = .done held) :
    UpperInv0 c H (concRun sched (m, fun k => Th.at (runU c (cmds k) ⟨[], []⟩))).1 := by
  have okg := ok.geom.toGeomOk
  have hsz := concRun_sizes sched m (fun k => Th.at (runU c (cmds k) ⟨[], []⟩))
  obtain ⟨ghs, ugs, C⟩ := conc_cinv ok H m inv n cmds hvalid sched hsched
  generalize (concRun sched (m, fun k => Th.at (runU c (cmds k) ⟨[], []⟩))).1 = m' at C hdone hsz ⊢
  generalize (concRun sched (m, fun k => Th.at (runU c (cmds k) ⟨[], []⟩))).2 = ths' at C hdone
  -- every thread is finished: its ghosts are those of its holdings
  have hfin : ∀ k, k < n → ∃ held, ghs k = ghOf c.geom held ∧ HeldOkL c.geom held ∧ ugs k = ugOf c.geom.treeFrames held := by
    intro k hk
    obtain ⟨held, hd⟩ := hdone k hk
    have := C.step ok k hk
    rw [hd] at this
    exact ⟨held, this.1.1, this.1.2, this.2⟩
  have hlow : LowerInv c m' := by
    apply LInv.lowerInv_quiescent okg C.low
    · intro k hk h
      obtain ⟨held, h1, _, _⟩ := hfin k hk
      rw [h1]; rfl
    · rw [hsz.1]; exact inv.lower.rowsSize
    · rw [hsz.2.1]; exact inv.lower.hugeSize
  -- nothing is carried, and what the threads took out is what they hold
  have hcar : ∀ i, ¬ Carried n ugs i := by
    rintro i ⟨k, hk, ht⟩
    obtain ⟨held, _, _, h3⟩ := hfin k hk
    rw [h3] at ht; simp [ugOf] at ht
  have hGT : ∀ i, GT c.geom n m' ghs i = m'.freeInTree c.geom i + baseSum n ugs i := by
    intro i
    rw [Mem.freeInTree_eq_blockSum]
    unfold GT GH baseSum
    rw [blockSum_add, blockSum_swap]
    congr 1
    apply blockSum_congr
    intro k hk
    obtain ⟨held, h1, h2, h3⟩ := hfin k hk
    rw [h1, h3]
    exact heldIn_ghOf okg held h2 i
  have G := C.up.inv
  refine ⟨hlow, G.treesSize, G.slotsSize, G.treeCls, G.slotTree, G.slotCls, G.slotInj, fun _ _ _ _ h => h.elim, ?_, ?_⟩
  · intro i t ht hr
    rcases G.resSlot i t ht hr with h | h
    · exact absurd h (hcar i)
    · right; exact h
  · intro i t ht
    have := G.counter i t ht
    rw [hGT i] at this
    omega

end

end LLFree
