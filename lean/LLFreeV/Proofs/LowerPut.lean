/-
  Sequential specification of `Lower::put` (small orders, split of a huge allocation, huge
  orders) and preservation of `LowerInv`.
-/
import LLFreeV.Proofs.LowerInv
import LLFreeV.Proofs.CasRange
namespace LLFree
open Prog

/-- geometry bound needed for the 16-bit counters -/
structure GeomOk16 (g : Geom) : Prop extends GeomOk g where
  ho15 : g.hugeOrder ≤ 15

theorem GeomOk16.hf_lt {g : Geom} (ok : GeomOk16 g) : g.hugeFrames < 65535 := by
  show 2 ^ g.hugeOrder < 65535
  have : 2 ^ g.hugeOrder ≤ 2 ^ 15 := Nat.pow_le_pow_right (by decide) ok.ho15
  omega

theorem Huge.isHuge_iff (e : Nat) : Huge.isHuge e = true ↔ e = 65535 := by
  simp [Huge.isHuge, HugeMarker]

theorem Huge.free_of_not_huge (e : Nat) (h : Huge.isHuge e = false) : Huge.free e = e := by
  simp [Huge.free, h]

theorem Huge.newWith_small (f : Nat) (h : f < 65536) : Huge.newWith f = f := Nat.mod_eq_of_lt h

section
variable {c : Cfg}

theorem LowerInv.entry_le (ok : GeomOk16 c.geom) {m : Mem} (inv : LowerInv c m) (h : Nat) (hh : h < c.nhuge)
    (hn : Huge.isHuge (m.hugeE h) = false) : m.hugeE h ≤ c.geom.hugeFrames := by
  rw [inv.count h hh hn]; exact zerosIn_le m h

/-- frames of huge frame `h` -/
theorem frame_decomp (g : Geom) (frame : Nat) :
    frame = (frame / g.hugeFrames) * g.hugeFrames + frame % g.hugeFrames := by
  rw [Nat.mul_comm]; exact (Nat.div_add_mod _ _).symm

/-- an aligned block of order below the huge order lies inside one huge frame -/
theorem block_in_huge (ok : GeomOk c.geom) (frame order : Nat) (ho : order ≤ c.geom.hugeOrder)
    (hal : frame % 2 ^ order = 0) :
    (frame % c.geom.hugeFrames) % 2 ^ order = 0 ∧ frame % c.geom.hugeFrames + 2 ^ order ≤ c.geom.hugeFrames := by
  have hHF : c.geom.hugeFrames = 2 ^ (c.geom.hugeOrder - order) * 2 ^ order := by
    show 2 ^ c.geom.hugeOrder = _
    rw [← Nat.pow_add]; congr 1; omega
  have hdvdHF : 2 ^ order ∣ c.geom.hugeFrames := ⟨2 ^ (c.geom.hugeOrder - order), by rw [Nat.mul_comm]; exact hHF⟩
  have hdvd : 2 ^ order ∣ frame % c.geom.hugeFrames :=
    (Nat.dvd_mod_iff hdvdHF).2 (Nat.dvd_of_mod_eq_zero hal)
  refine ⟨Nat.mod_eq_zero_of_dvd hdvd, ?_⟩
  obtain ⟨q, hq⟩ := hdvd
  have hlt : frame % c.geom.hugeFrames < c.geom.hugeFrames := Nat.mod_lt _ ok.hf_pos
  rw [hq, hHF] at hlt ⊢
  have hq' : q < 2 ^ (c.geom.hugeOrder - order) := by
    rw [Nat.mul_comm] at hlt
    exact Nat.lt_of_mul_lt_mul_right hlt
  have : (q + 1) * 2 ^ order ≤ 2 ^ (c.geom.hugeOrder - order) * 2 ^ order := Nat.mul_le_mul_right _ hq'
  rw [Nat.add_mul, Nat.one_mul, Nat.mul_comm q] at this
  exact this

/-- Effect of a successful small free on the abstract state. -/
structure PutSmallPost (c : Cfg) (m m' : Mem) (frame order : Nat) : Prop where
  bits : BitsSet m m' frame (2 ^ order) false
  entry : ∀ h, m'.hugeE h = if h = frame / c.geom.hugeFrames then m.hugeE h + 2 ^ order else m.hugeE h
  trees : m'.trees = m.trees
  slots : m'.slots = m.slots
  inv : LowerInv c m'

/-- **`Lower::put_small`** on a huge frame that is not allocated as a whole. -/
theorem putSmall_spec (ok : GeomOk16 c.geom) (m : Mem) (inv : LowerInv c m) (frame order : Nat)
    (ho : order < c.geom.hugeOrder) (hal : frame % 2 ^ order = 0) (hin : frame + 2 ^ order ≤ c.frames)
    (hn : Huge.isHuge (m.hugeE (frame / c.geom.hugeFrames)) = false) :
    if blockAll m frame (2 ^ order) true then
      ∃ m', runSolo (Lower.putSmall c.geom frame order) m = (m', .ok (.ok ())) ∧ PutSmallPost c m m' frame order
    else runSolo (Lower.putSmall c.geom frame order) m = (m, .ok (.error .memory)) := by
  have g := c.geom
  have okg : GeomOk c.geom := ok.toGeomOk
  let h := frame / c.geom.hugeFrames
  have hF : h * c.geom.hugeFrames + frame % c.geom.hugeFrames = frame := (frame_decomp c.geom frame).symm
  obtain ⟨hal', hfit⟩ := block_in_huge okg frame order (Nat.le_of_lt ho) hal
  have hpos : 0 < 2 ^ order := Nat.pos_of_ne_zero (by simp)
  -- the huge frame has a bitfield
  have hh : h < c.nhuge := by
    unfold Cfg.nhuge
    apply (Nat.div_lt_iff_lt_mul okg.hf_pos).2
    have h1 : h * c.geom.hugeFrames ≤ frame := by rw [← hF]; omega
    have := Nat.div_mul_le_self (c.frames + c.geom.hugeFrames - 1) c.geom.hugeFrames
    have hlt := Nat.lt_mul_div_succ (c.frames + c.geom.hugeFrames - 1) okg.hf_pos
    rw [Nat.mul_comm] at hlt
    rw [Nat.add_mul, Nat.one_mul] at hlt
    omega
  have hrows : h * c.geom.rows + c.geom.rows ≤ m.rows.size := by
    rw [inv.rowsSize]
    have : (h + 1) * c.geom.rows ≤ c.nhuge * c.geom.rows := Nat.mul_le_mul_right _ hh
    rw [Nat.add_mul, Nat.one_mul] at this; exact this
  have hts := toggle_spec okg m h frame order true (Nat.le_of_lt ho) hal' hrows
  simp only [hF] at hts
  unfold Lower.putSmall
  simp only [runSolo_bind]
  by_cases hall : blockAll m frame (2 ^ order) true
  · simp only [hall, if_true] at hts ⊢
    obtain ⟨m1, hm1, hbits, hsame⟩ := hts
    simp only [Bool.not_true] at hbits
    rw [hm1]
    simp only [andThen_ok]
    -- the counter update
    have hidx : hugeIdx c.geom (frame / c.geom.treeFrames) (frame / c.geom.hugeFrames % c.geom.treeHuge) = h :=
      okg.hugeIdx_eq frame
    simp only [runSolo_bind]
    rw [hidx]
    have hhsz : h < m1.huge.size := by
      rw [hsame.huge, inv.hugeSize]
      have : c.nhuge ≤ c.ntrees * c.geom.treeHuge := okg.ceil_hf_le c.frames
      omega
    have hE : m1.huge[h]? = some (m.hugeE h) := by
      rw [hsame.huge]
      unfold Mem.hugeE
      have : h < m.huge.size := by rw [← hsame.huge]; exact hhsz
      rw [Array.getElem?_eq_getElem this]; simp
    have hE' : m1.get? .huge h = some (m.hugeE h) := by simpa using hE
    rw [runSolo_updK_some (k := .huge) _ hE']
    -- the increment is possible: the freed bits were allocated
    have hz : zerosIn c.geom m1 h = zerosIn c.geom m h + 2 ^ order := by
      apply zerosIn_free m m1 h (frame % c.geom.hugeFrames) (2 ^ order) hfit
      · rw [hF]; exact hbits
      · rw [hF]; exact hall
    have hcnt : m.hugeE h = zerosIn c.geom m h := inv.count h hh hn
    have hle : m.hugeE h + 2 ^ order ≤ c.geom.hugeFrames := by
      rw [hcnt, ← hz]; exact zerosIn_le m1 h
    have hlt16 := ok.hf_lt
    have hinc : Huge.inc c.geom.hugeFrames (m.hugeE h) (2 ^ order) = .set (m.hugeE h + 2 ^ order) := by
      have h1 : ¬ 2 ^ order > c.geom.hugeFrames := by omega
      have h2 : m.hugeE h ≤ c.geom.hugeFrames - 2 ^ order := by omega
      have h3 : Huge.newWith (m.hugeE h + 2 ^ order) = m.hugeE h + 2 ^ order := Huge.newWith_small _ (by omega)
      have hn' : Huge.isHuge (m.hugeE h) = false := hn
      have hf : Huge.free (m.hugeE h) = m.hugeE h := Huge.free_of_not_huge _ hn'
      simp [Huge.inc, h1, hn', hf, h2, h3]
    rw [hinc]
    simp only [andThen_ok, runSolo_pure]
    refine ⟨_, rfl, ?_⟩
    have hhm : h < m.huge.size := by rw [← hsame.huge]; exact hhsz
    refine ⟨?_, ?_, by simp [hsame.trees], by simp [hsame.slots], ?_⟩
    · intro f; rw [Mem.bit_set_huge]; exact hbits f
    · intro h'
      rw [Mem.hugeE_set_huge _ _ _ hhsz]
      have : m1.hugeE h' = m.hugeE h' := by unfold Mem.hugeE; rw [hsame.huge]
      show (if h' = h then m.hugeE h + 2 ^ order else m1.hugeE h') = if h' = h then m.hugeE h' + 2 ^ order else m.hugeE h'
      by_cases e : h' = h
      · simp [e]
      · simp [e, this]
    · -- the invariant
      have hEq : ∀ h', (m1.set .huge h (m.hugeE h + 2 ^ order)).hugeE h' =
          if h' = h then m.hugeE h + 2 ^ order else m.hugeE h' := by
        intro h'
        rw [Mem.hugeE_set_huge _ _ _ hhsz]
        have : m1.hugeE h' = m.hugeE h' := by unfold Mem.hugeE; rw [hsame.huge]
        by_cases e : h' = h <;> simp [e, this]
      have hbit : ∀ f, (m1.set .huge h (m.hugeE h + 2 ^ order)).bit f = m1.bit f := fun f => rfl
      have hzero : ∀ h', zerosIn c.geom (m1.set .huge h (m.hugeE h + 2 ^ order)) h' = zerosIn c.geom m1 h' := fun h' => rfl
      constructor
      · simp [hsame.size, inv.rowsSize]
      · simp [hsame.huge, inv.hugeSize]
      · intro h' hh'
        rw [hEq]
        have : h' ≠ h := by omega
        simp [this, inv.beyond h' hh']
      · intro h' hh' hm'
        rw [hEq] at hm'
        by_cases e : h' = h
        · subst e
          simp only [if_true] at hm'
          rw [Huge.isHuge_iff] at hm'; omega
        · simp only [e, if_false] at hm'
          obtain ⟨h1, h2⟩ := inv.marker h' hh' hm'
          refine ⟨h1, fun i hi => ?_⟩
          rw [hbit, hbits]
          have : ¬ (frame ≤ h' * c.geom.hugeFrames + i ∧ h' * c.geom.hugeFrames + i < frame + 2 ^ order) := by
            intro hcon
            rw [← hF] at hcon
            rcases Nat.lt_or_gt_of_ne e with hlt | hgt
            · have : (h' + 1) * c.geom.hugeFrames ≤ h * c.geom.hugeFrames := Nat.mul_le_mul_right _ hlt
              rw [Nat.add_mul, Nat.one_mul] at this; omega
            · have : (h + 1) * c.geom.hugeFrames ≤ h' * c.geom.hugeFrames := Nat.mul_le_mul_right _ hgt
              rw [Nat.add_mul, Nat.one_mul] at this; omega
          simp only [this, if_false]
          exact h2 i hi
      · intro h' hh' hm'
        rw [hEq] at hm' ⊢
        rw [hzero]
        by_cases e : h' = h
        · subst e; simp only [if_true]; rw [hz, hcnt]
        · simp only [e, if_false] at hm' ⊢
          rw [inv.count h' hh' hm']
          exact (zerosIn_other m m1 h h' (frame % c.geom.hugeFrames) (2 ^ order) false hfit e (by rw [hF]; exact hbits)).symm
      · intro f hf
        rw [hbit, hbits]
        have : ¬ (frame ≤ f ∧ f < frame + 2 ^ order) := by omega
        simp only [this, if_false]
        exact inv.outside f hf
  · simp only [hall, if_false] at hts ⊢
    rw [hts]
    simp

end
end LLFree

namespace LLFree
open Prog
section
variable {c : Cfg}

theorem nhuge_lt_of_frame (okg : GeomOk c.geom) (frame n : Nat) (hn : 0 < n) (hin : frame + n ≤ c.frames) :
    frame / c.geom.hugeFrames < c.nhuge := by
  unfold Cfg.nhuge
  apply (Nat.div_lt_iff_lt_mul okg.hf_pos).2
  have hlt := Nat.lt_mul_div_succ (c.frames + c.geom.hugeFrames - 1) okg.hf_pos
  rw [Nat.mul_comm, Nat.add_mul, Nat.one_mul] at hlt
  omega

theorem rows_of_huge (okg : GeomOk c.geom) {m : Mem} (inv : LowerInv c m) (h : Nat) (hh : h < c.nhuge) :
    h * c.geom.rows + c.geom.rows ≤ m.rows.size := by
  rw [inv.rowsSize]
  have : (h + 1) * c.geom.rows ≤ c.nhuge * c.geom.rows := Nat.mul_le_mul_right _ hh
  rw [Nat.add_mul, Nat.one_mul] at this; exact this

theorem huge_lt_size (okg : GeomOk c.geom) {m : Mem} (inv : LowerInv c m) (h : Nat) (hh : h < c.nhuge) :
    h < m.huge.size := by
  rw [inv.hugeSize]
  have : c.nhuge ≤ c.ntrees * c.geom.treeHuge := okg.ceil_hf_le c.frames
  omega

/-- effect of freeing a small block out of a huge frame that was allocated as a whole -/
structure PutSplitPost (c : Cfg) (m m' : Mem) (frame order : Nat) : Prop where
  bits : ∀ f, m'.bit f =
    if f / c.geom.hugeFrames = frame / c.geom.hugeFrames then !(decide (frame ≤ f) && decide (f < frame + 2 ^ order))
    else m.bit f
  entry : ∀ h, m'.hugeE h = if h = frame / c.geom.hugeFrames then 2 ^ order else m.hugeE h
  trees : m'.trees = m.trees
  slots : m'.slots = m.slots
  inv : LowerInv c m'

/-- **`Lower::partial_put_huge`** (sequential): freeing part of a whole-allocated huge frame
    splits it and always succeeds. -/
theorem partialPutHuge_spec (ok : GeomOk16 c.geom) (m : Mem) (inv : LowerInv c m) (retries frame order : Nat)
    (ho : order < c.geom.hugeOrder) (hal : frame % 2 ^ order = 0) (hin : frame + 2 ^ order ≤ c.frames)
    (hm : Huge.isHuge (m.hugeE (frame / c.geom.hugeFrames)) = true) :
    ∃ m', runSolo (Lower.partialPutHuge c.geom retries (m.hugeE (frame / c.geom.hugeFrames)) frame order) m =
        (m', .ok (.ok ())) ∧ PutSplitPost c m m' frame order := by
  have okg : GeomOk c.geom := ok.toGeomOk
  have hpos : 0 < 2 ^ order := Nat.pos_of_ne_zero (by simp)
  have hHFpos := okg.hf_pos
  generalize hhdef : frame / c.geom.hugeFrames = h at hm ⊢
  have hh : h < c.nhuge := by rw [← hhdef]; exact nhuge_lt_of_frame okg frame _ hpos hin
  have hrows := rows_of_huge okg inv h hh
  obtain ⟨hmin, hmz⟩ := inv.marker h hh hm
  have hF : h * c.geom.hugeFrames + frame % c.geom.hugeFrames = frame := by
    rw [← hhdef]; exact (frame_decomp c.geom frame).symm
  -- 1. fill the bitfield
  have hts := toggle_spec okg m h 0 c.geom.hugeOrder false (Nat.le_refl _) (by simp) hrows
  have h0 : 0 % c.geom.hugeFrames = 0 := Nat.zero_mod _
  simp only [h0, Nat.add_zero] at hts
  have hallz : blockAll m (h * c.geom.hugeFrames) (2 ^ c.geom.hugeOrder) false := fun i hi => hmz i hi
  simp only [hallz, if_true, Bool.not_false] at hts
  obtain ⟨m1, hm1, hbits1, hsame1⟩ := hts
  -- 2. clear the marker
  have hidx : hugeIdx c.geom (frame / c.geom.treeFrames) (frame / c.geom.hugeFrames % c.geom.treeHuge) = h := by
    rw [← hhdef]; exact okg.hugeIdx_eq frame
  have hhsz : h < m.huge.size := huge_lt_size okg inv h hh
  have hE1 : m1.get? .huge h = some (m.hugeE h) := by
    simp only [Mem.get?_huge, hsame1.huge]
    unfold Mem.hugeE
    rw [Array.getElem?_eq_getElem hhsz]; simp
  let m2 := m1.set .huge h 0
  -- 3. the invariant holds again
  have hbit2 : ∀ f, m2.bit f = if h * c.geom.hugeFrames ≤ f ∧ f < h * c.geom.hugeFrames + 2 ^ c.geom.hugeOrder then true else m.bit f :=
    fun f => hbits1 f
  have hE2 : ∀ h', m2.hugeE h' = if h' = h then 0 else m.hugeE h' := by
    intro h'
    show (m1.set .huge h 0).hugeE h' = _
    rw [Mem.hugeE_set_huge _ _ _ (by rw [hsame1.huge]; exact hhsz)]
    have : m1.hugeE h' = m.hugeE h' := by unfold Mem.hugeE; rw [hsame1.huge]
    rw [this]
  have hz1 : zerosIn c.geom m2 h = 0 := by
    have hfull : zerosIn c.geom m h = c.geom.hugeFrames := (zerosIn_eq_full_iff m h).2 hmz
    have := zerosIn_alloc (g := c.geom) m m1 h 0 c.geom.hugeFrames (by omega) (by simpa using hbits1) (by simpa using hallz)
    have e : zerosIn c.geom m2 h = zerosIn c.geom m1 h := rfl
    omega
  have inv2 : LowerInv c m2 := by
    apply LowerInv.of_local hHFpos inv m2 h
    · show (m1.set .huge h 0).rows.size = _; simp [hsame1.size]
    · show (m1.set .huge h 0).huge.size = _; simp [hsame1.huge]
    · intro h' hne; rw [hE2]; simp [hne]
    · intro f hne
      rw [hbit2]
      have : ¬ (h * c.geom.hugeFrames ≤ f ∧ f < h * c.geom.hugeFrames + 2 ^ c.geom.hugeOrder) := by
        intro hcon
        apply hne
        have : f = h * c.geom.hugeFrames + (f - h * c.geom.hugeFrames) := by omega
        rw [this]; exact div_hf_mul_add c.geom hHFpos h _ (by show _ < 2 ^ c.geom.hugeOrder; omega)
      simp [this]
    · exact hh
    · intro hcon; rw [hE2] at hcon; simp [Huge.isHuge, HugeMarker] at hcon
    · intro _; rw [hE2]; simp [hz1]
    · intro f hf he
      rw [hbit2]
      have : h * c.geom.hugeFrames ≤ f ∧ f < h * c.geom.hugeFrames + 2 ^ c.geom.hugeOrder := by
        have h1 := Nat.div_mul_le_self f c.geom.hugeFrames
        have h2 := Nat.lt_mul_div_succ f hHFpos
        rw [he] at h1 h2
        rw [Nat.mul_comm, Nat.add_mul, Nat.one_mul] at h2
        exact ⟨h1, h2⟩
      simp [this]
  -- 4. the small free
  have hn2 : Huge.isHuge (m2.hugeE (frame / c.geom.hugeFrames)) = false := by
    rw [hhdef, hE2]; simp [Huge.isHuge, HugeMarker]
  have hps := putSmall_spec ok m2 inv2 frame order ho hal hin hn2
  have hall2 : blockAll m2 frame (2 ^ order) true := by
    intro i hi
    rw [hbit2]
    obtain ⟨_, hfit⟩ := block_in_huge okg frame order (Nat.le_of_lt ho) hal
    have : h * c.geom.hugeFrames ≤ frame + i ∧ frame + i < h * c.geom.hugeFrames + 2 ^ c.geom.hugeOrder := by
      have : c.geom.hugeFrames = 2 ^ c.geom.hugeOrder := rfl
      omega
    simp [this]
  simp only [hall2, if_true] at hps
  obtain ⟨m3, hm3, post3⟩ := hps
  refine ⟨m3, ?_, ?_⟩
  · unfold Lower.partialPutHuge
    simp only [runSolo_bind]
    rw [hidx]
    simp only [hhdef, hm1, andThen_ok, runSolo_bind]
    rw [runSolo_casK_some (k := .huge) _ _ hE1]
    simp only [if_true, andThen_ok]
    exact hm3
  · refine ⟨?_, ?_, post3.trees.trans (by show (m1.set .huge h 0).trees = _; simp [hsame1.trees]),
      post3.slots.trans (by show (m1.set .huge h 0).slots = _; simp [hsame1.slots]), post3.inv⟩
    · intro f
      rw [post3.bits f, hbit2]
      simp only [hhdef]
      by_cases hfh : f / c.geom.hugeFrames = h
      · have hr : h * c.geom.hugeFrames ≤ f ∧ f < h * c.geom.hugeFrames + 2 ^ c.geom.hugeOrder := by
          have h1 := Nat.div_mul_le_self f c.geom.hugeFrames
          have h2 := Nat.lt_mul_div_succ f hHFpos
          rw [hfh] at h1 h2
          rw [Nat.mul_comm, Nat.add_mul, Nat.one_mul] at h2
          exact ⟨h1, h2⟩
        simp only [hfh, if_true, hr, and_self]
        by_cases h1 : frame ≤ f <;> by_cases h2 : f < frame + 2 ^ order <;> simp [h1, h2]
      · have hr : ¬ (h * c.geom.hugeFrames ≤ f ∧ f < h * c.geom.hugeFrames + 2 ^ c.geom.hugeOrder) := by
          intro hcon
          apply hfh
          have : f = h * c.geom.hugeFrames + (f - h * c.geom.hugeFrames) := by omega
          rw [this]; exact div_hf_mul_add c.geom hHFpos h _ (by show _ < 2 ^ c.geom.hugeOrder; omega)
        have hb : ¬ (frame ≤ f ∧ f < frame + 2 ^ order) := by
          intro hcon
          apply hr
          obtain ⟨_, hfit⟩ := block_in_huge okg frame order (Nat.le_of_lt ho) hal
          have : c.geom.hugeFrames = 2 ^ c.geom.hugeOrder := rfl
          omega
        simp [hfh, hr, hb]
    · intro h'
      rw [post3.entry h', hhdef, hE2]
      by_cases e : h' = h <;> simp [e]

end
end LLFree

namespace LLFree
open Prog
section
variable {c : Cfg}

theorem le_ceil_div (F HF x : Nat) (hpos : 0 < HF) (h : x * HF ≤ F) : x ≤ (F + HF - 1) / HF := by
  apply (Nat.le_div_iff_mul_le hpos).2
  omega

/-- effect of a change of huge entries only -/
structure HugeSetPost (c : Cfg) (m m' : Mem) (h0 n v : Nat) : Prop where
  bits : ∀ f, m'.bit f = m.bit f
  entry : ∀ h, m'.hugeE h = if h0 ≤ h ∧ h < h0 + n then v else m.hugeE h
  trees : m'.trees = m.trees
  slots : m'.slots = m.slots
  inv : LowerInv c m'

theorem RangeAre.huge_post {m0 m' : Mem} {h0 n v : Nat} (h : RangeAre .huge m0 m' h0 (h0 + n) v)
    (hsz : h0 + n ≤ m0.huge.size) :
    (∀ f, m'.bit f = m0.bit f) ∧ (∀ h', m'.hugeE h' = if h0 ≤ h' ∧ h' < h0 + n then v else m0.hugeE h') ∧
    m'.trees = m0.trees ∧ m'.slots = m0.slots ∧ m'.rows.size = m0.rows.size ∧ m'.huge.size = m0.huge.size := by
  have hrows : m'.rows = m0.rows := Array.ext_getElem? (fun j => h.other .row (by decide) j)
  have htrees : m'.trees = m0.trees := Array.ext_getElem? (fun j => h.other .tree (by decide) j)
  have hslots : m'.slots = m0.slots := Array.ext_getElem? (fun j => h.other .slot (by decide) j)
  have hget : ∀ j, m'.huge[j]? = if h0 ≤ j ∧ j < h0 + n then (m0.huge[j]?).map (fun _ => v) else m0.huge[j]? := h.same
  refine ⟨fun f => by unfold Mem.bit; rw [hrows], ?_, htrees, hslots, by rw [hrows], ?_⟩
  · intro h'
    unfold Mem.hugeE
    rw [hget]
    by_cases hin : h0 ≤ h' ∧ h' < h0 + n
    · have : h' < m0.huge.size := by omega
      simp [hin, Array.getElem?_eq_getElem this]
    · simp [hin]
  · -- sizes: compare definedness at the boundary
    apply Nat.le_antisymm
    · apply Nat.le_of_not_lt
      intro hlt
      have h1 : m'.huge[m0.huge.size]? ≠ none := by
        rw [Ne, Array.getElem?_eq_none_iff]; omega
      rw [hget] at h1
      have : ¬ (h0 ≤ m0.huge.size ∧ m0.huge.size < h0 + n) := by omega
      simp [this] at h1
    · apply Nat.le_of_not_lt
      intro hlt
      have h1 : m'.huge[m'.huge.size]? = none := Array.getElem?_eq_none (Nat.le_refl _)
      rw [hget] at h1
      have hdef : m0.huge[m'.huge.size]? ≠ none := by
        rw [Ne, Array.getElem?_eq_none_iff]; omega
      split at h1
      · cases hx : m0.huge[m'.huge.size]? with
        | none => exact hdef hx
        | some x => rw [hx] at h1; cases h1
      · exact hdef h1

/-- **`Lower::put`, orders at or above the huge order.** -/
theorem put_huge_spec (ok : GeomOk16 c.geom) (m : Mem) (inv : LowerInv c m) (retries frame order : Nat)
    (ho : c.geom.hugeOrder ≤ order) (hto : order ≤ c.geom.treeOrder) (hal : frame % 2 ^ order = 0)
    (hin : frame + 2 ^ order ≤ c.frames) :
    ((∀ i, i < 2 ^ (order - c.geom.hugeOrder) → Huge.isHuge (m.hugeE (frame / c.geom.hugeFrames + i)) = true) →
      ∃ m', runSolo (Lower.put c.geom retries frame order) m = (m', .ok (.ok ())) ∧
        HugeSetPost c m m' (frame / c.geom.hugeFrames) (2 ^ (order - c.geom.hugeOrder)) c.geom.hugeFrames) ∧
    ((¬ ∀ i, i < 2 ^ (order - c.geom.hugeOrder) → Huge.isHuge (m.hugeE (frame / c.geom.hugeFrames + i)) = true) →
      runSolo (Lower.put c.geom retries frame order) m = (m, .ok (.error .memory))) := by
  have okg : GeomOk c.geom := ok.toGeomOk
  obtain ⟨hfit, _⟩ := okg.huge_block_fits frame order ho hto hal
  have hidx : hugeIdx c.geom (frame / c.geom.treeFrames) (frame / c.geom.hugeFrames % c.geom.treeHuge) =
      frame / c.geom.hugeFrames := okg.hugeIdx_eq frame
  generalize hh0 : frame / c.geom.hugeFrames = h0 at *
  generalize hn : 2 ^ (order - c.geom.hugeOrder) = n at *
  -- all covered entries exist (they lie in one tree whose table exists)
  have hnpos : 0 < n := by rw [← hn]; exact Nat.pos_of_ne_zero (by simp)
  have h2o : 2 ^ order = n * c.geom.hugeFrames := by
    rw [← hn]; show _ = _ * 2 ^ c.geom.hugeOrder
    rw [← Nat.pow_add]; congr 1; omega
  have hlast : h0 + n ≤ c.nhuge := by
    -- the block ends inside the managed frames
    have h1 : (h0 + n) * c.geom.hugeFrames ≤ c.frames := by
      have hmod : frame % c.geom.hugeFrames = 0 := by
        have : c.geom.hugeFrames ∣ frame := Nat.dvd_trans ⟨n, by rw [h2o, Nat.mul_comm]⟩ (Nat.dvd_of_mod_eq_zero hal)
        exact Nat.mod_eq_zero_of_dvd this
      have hdec := frame_decomp c.geom frame
      rw [hh0, hmod, Nat.add_zero] at hdec
      rw [Nat.add_mul, ← hdec, ← h2o]
      exact hin
    exact le_ceil_div c.frames c.geom.hugeFrames (h0 + n) okg.hf_pos h1
  have hsz : h0 + n ≤ m.huge.size := by
    rw [inv.hugeSize]
    have : c.nhuge ≤ c.ntrees * c.geom.treeHuge := okg.ceil_hf_le c.frames
    omega
  have hlt16 := ok.hf_lt
  have hnw : Huge.newWith c.geom.hugeFrames = c.geom.hugeFrames := Huge.newWith_small _ (by omega)
  have hcr := casRange_spec .huge h0 HugeMarker c.geom.hugeFrames "undo failed" m n m 0
    (by simpa using RangeAre.empty .huge m h0 _) (fun i hi => by omega)
    (by intro i hi
        simp only [Nat.zero_add] at hi
        simp only [Mem.get?_huge]
        rw [Array.getElem?_eq_getElem (by omega)]; rfl)
  have hcond : (∀ i, 0 ≤ i → i < 0 + n → m.get? .huge (h0 + i) = some HugeMarker) ↔
      ∀ i, i < n → Huge.isHuge (m.hugeE (h0 + i)) = true := by
    constructor
    · intro hh i hi
      have := hh i (by omega) (by omega)
      simp only [Mem.get?_huge] at this
      unfold Mem.hugeE; rw [this]; simp [Huge.isHuge]
    · intro hh i _ hi
      have := hh i (by omega)
      simp only [Mem.get?_huge]
      rw [Array.getElem?_eq_getElem (by omega)]
      unfold Mem.hugeE at this
      rw [Array.getElem?_eq_getElem (by omega)] at this
      simp only [Option.getD_some, Huge.isHuge_iff] at this
      rw [this]
  have hrun : runSolo (Lower.put c.geom retries frame order) m =
      Outcome.andThen (runSolo (casRange .huge h0 HugeMarker c.geom.hugeFrames "undo failed" n 0) m)
        (fun ok m' => (m', .ok (if ok then .ok () else .error .memory))) := by
    unfold Lower.put
    have h1 : order ≥ c.geom.hugeOrder := ho
    have h2 : ¬ (h0 % c.geom.treeHuge + n > c.geom.treeHuge) := by omega
    simp only [h1, if_true, h2, if_false, runSolo_bind, casAll, hidx, hnw, hn, hh0]
    rfl
  rw [hrun]
  constructor
  · intro hall
    obtain ⟨m', hm', hra⟩ := hcr.1 (hcond.2 hall)
    rw [hm']
    refine ⟨m', rfl, ?_⟩
    simp only [Nat.add_zero] at hra
    obtain ⟨hb, he, ht, hs, hrs, hhs⟩ := RangeAre.huge_post hra hsz
    refine ⟨hb, he, ht, hs, ?_⟩
    apply LowerInv.of_huge_change okg.hf_pos hlt16 inv m' hb hrs hhs
    intro h
    rw [he]
    by_cases hin' : h0 ≤ h ∧ h < h0 + n
    · right; left
      refine ⟨by omega, ?_, by simp [hin']⟩
      have := hall (h - h0) (by omega)
      rwa [show h0 + (h - h0) = h by omega] at this
    · left; simp [hin']
  · intro hnall
    rw [hcr.2 (fun hh => hnall (hcond.1 hh))]
    rfl

end
end LLFree

namespace LLFree
open Prog
section
variable {c : Cfg}

/-- the arguments of a lower-level free/allocation are valid (what `LLFree::check` established) -/
structure BlockOk (c : Cfg) (frame order : Nat) : Prop where
  ord : order ≤ c.geom.treeOrder
  aligned : frame % 2 ^ order = 0
  inRange : frame + 2 ^ order ≤ c.frames

/-- the ownership specification allows freeing the block: every frame is allocated, and for
    orders at or above the huge order every covered huge frame is allocated as a whole -/
def PutAllowed (c : Cfg) (m : Mem) (frame order : Nat) : Prop :=
  if order < c.geom.hugeOrder then ∀ i, i < 2 ^ order → m.allocated c.geom (frame + i) = true
  else ∀ i, i < 2 ^ (order - c.geom.hugeOrder) → m.whole (frame / c.geom.hugeFrames + i) = true

def inBlock (frame order f : Nat) : Bool := decide (frame ≤ f) && decide (f < frame + 2 ^ order)

/-- abstract effect of a successful free -/
structure PutPost (c : Cfg) (m m' : Mem) (frame order : Nat) : Prop where
  alloc : ∀ f, m'.allocated c.geom f = (m.allocated c.geom f && !inBlock frame order f)
  whole : ∀ h, m'.whole h = (m.whole h &&
    !(decide (frame / c.geom.hugeFrames ≤ h) && decide (h * c.geom.hugeFrames < frame + 2 ^ order)))
  trees : m'.trees = m.trees
  slots : m'.slots = m.slots
  inv : LowerInv c m'

theorem div_eq_of_in_huge (g : Geom) (hpos : 0 < g.hugeFrames) (h f : Nat) (h1 : h * g.hugeFrames ≤ f)
    (h2 : f < h * g.hugeFrames + g.hugeFrames) : f / g.hugeFrames = h := by
  have : f = h * g.hugeFrames + (f - h * g.hugeFrames) := by omega
  rw [this]; exact div_hf_mul_add g hpos h _ (by omega)

theorem in_huge_of_div_eq (g : Geom) (hpos : 0 < g.hugeFrames) (h f : Nat) (he : f / g.hugeFrames = h) :
    h * g.hugeFrames ≤ f ∧ f < h * g.hugeFrames + g.hugeFrames := by
  have h1 := Nat.div_mul_le_self f g.hugeFrames
  have h2 := Nat.lt_mul_div_succ f hpos
  rw [he] at h1 h2
  rw [Nat.mul_comm, Nat.add_mul, Nat.one_mul] at h2
  exact ⟨h1, h2⟩

/-- **`Lower::put` refines the ownership specification** (sequential): it succeeds exactly when
    the specification allows the free, then frees exactly the frames of the block (splitting a
    whole huge frame on a partial free), keeps the invariant, and a failing call leaves the
    memory unchanged. -/
theorem lower_put_refines (ok : GeomOk16 c.geom) (m : Mem) (inv : LowerInv c m) (retries frame order : Nat)
    (hb : BlockOk c frame order) :
    (PutAllowed c m frame order →
      ∃ m', runSolo (Lower.put c.geom retries frame order) m = (m', .ok (.ok ())) ∧ PutPost c m m' frame order) ∧
    (¬ PutAllowed c m frame order → runSolo (Lower.put c.geom retries frame order) m = (m, .ok (.error .memory))) := by
  have okg : GeomOk c.geom := ok.toGeomOk
  have hHF := okg.hf_pos
  have hlt16 := ok.hf_lt
  have hpos : 0 < 2 ^ order := Nat.pos_of_ne_zero (by simp)
  by_cases ho : order < c.geom.hugeOrder
  · -- small orders
    have hh : frame / c.geom.hugeFrames < c.nhuge := nhuge_lt_of_frame okg frame _ hpos hb.inRange
    obtain ⟨_, hfit⟩ := block_in_huge okg frame order (Nat.le_of_lt ho) hb.aligned
    have hF := (frame_decomp c.geom frame).symm
    have hidx := okg.hugeIdx_eq frame
    have hhsz := huge_lt_size okg inv _ hh
    have hE : m.get? .huge (frame / c.geom.hugeFrames) = some (m.hugeE (frame / c.geom.hugeFrames)) := by
      simp only [Mem.get?_huge]; unfold Mem.hugeE
      rw [Array.getElem?_eq_getElem hhsz]; simp
    have hblk : ∀ f, inBlock frame order f = true → f / c.geom.hugeFrames = frame / c.geom.hugeFrames := by
      intro f hf
      simp only [inBlock, Bool.and_eq_true, decide_eq_true_eq] at hf
      apply div_eq_of_in_huge c.geom hHF <;> omega
    have hdec : ∀ h, (decide (frame / c.geom.hugeFrames ≤ h) && decide (h * c.geom.hugeFrames < frame + 2 ^ order)) =
        decide (h = frame / c.geom.hugeFrames) := by
      intro h
      rw [← Bool.decide_and, decide_eq_decide]
      constructor
      · intro ⟨h1, h2⟩
        by_cases hlt : frame / c.geom.hugeFrames < h
        · have h3 : (frame / c.geom.hugeFrames + 1) * c.geom.hugeFrames ≤ h * c.geom.hugeFrames :=
            Nat.mul_le_mul_right _ hlt
          rw [Nat.add_mul, Nat.one_mul] at h3; omega
        · omega
      · intro e
        have h1 := Nat.div_mul_le_self frame c.geom.hugeFrames
        subst e
        exact ⟨Nat.le_refl _, by omega⟩
    have hrunpre : runSolo (Lower.put c.geom retries frame order) m =
        runSolo (if Huge.isHuge (m.hugeE (frame / c.geom.hugeFrames)) then
            Lower.partialPutHuge c.geom retries (m.hugeE (frame / c.geom.hugeFrames)) frame order
          else if 2 ^ order > c.geom.hugeFrames then Prog.panic "attempt to subtract with overflow"
          else if Huge.free (m.hugeE (frame / c.geom.hugeFrames)) ≤ c.geom.hugeFrames - 2 ^ order then
            Lower.putSmall c.geom frame order
          else pure (.error .memory)) m := by
      unfold Lower.put
      have : ¬ order ≥ c.geom.hugeOrder := by omega
      simp only [this, if_false, runSolo_bind, hugeIdx, hidx]
      rw [runSolo_loadK_some hE]
      rfl
    rw [hrunpre]
    by_cases hm : Huge.isHuge (m.hugeE (frame / c.geom.hugeFrames)) = true
    · -- split of a whole huge frame: always allowed and always succeeds
      simp only [hm, if_true]
      obtain ⟨m', hm', post⟩ := partialPutHuge_spec ok m inv retries frame order ho hb.aligned hb.inRange hm
      have hallowed : PutAllowed c m frame order := by
        unfold PutAllowed; simp only [ho, if_true]
        intro i hi
        unfold Mem.allocated
        rw [hblk (frame + i) (by simp [inBlock]; omega), hm]; rfl
      refine ⟨fun _ => ⟨m', hm', ?_⟩, fun hn => absurd hallowed hn⟩
      have hnm' : ∀ h, Huge.isHuge (m'.hugeE h) = (Huge.isHuge (m.hugeE h) && !decide (h = frame / c.geom.hugeFrames)) := by
        intro h
        rw [post.entry]
        by_cases e : h = frame / c.geom.hugeFrames
        · have : Huge.isHuge (2 ^ order) = false := by
            have : 2 ^ order ≤ c.geom.hugeFrames := by omega
            simp [Huge.isHuge, HugeMarker]; omega
          simp [e, this]
        · simp [e]
      refine ⟨?_, ?_, post.trees, post.slots, post.inv⟩
      · intro f
        unfold Mem.allocated
        rw [hnm', post.bits]
        by_cases e : f / c.geom.hugeFrames = frame / c.geom.hugeFrames
        · simp [e, hm, inBlock]
        · have : inBlock frame order f = false := by
            cases hib : inBlock frame order f with
            | false => rfl
            | true => exact absurd (hblk f hib) e
          simp [e, this]
      · intro h
        unfold Mem.whole
        rw [hnm', hdec]
    · -- not allocated as a whole
      have hnm : Huge.isHuge (m.hugeE (frame / c.geom.hugeFrames)) = false := by simpa using hm
      have hsub : ¬ 2 ^ order > c.geom.hugeFrames := by omega
      simp only [hnm, Bool.false_eq_true, if_false, hsub]
      have hps := putSmall_spec ok m inv frame order ho hb.aligned hb.inRange hnm
      have hallowed_iff : PutAllowed c m frame order ↔ blockAll m frame (2 ^ order) true := by
        unfold PutAllowed blockAll; simp only [ho, if_true]
        constructor
        · intro h i hi
          have := h i hi
          unfold Mem.allocated at this
          rw [hblk (frame + i) (by simp [inBlock]; omega), hnm] at this
          simpa using this
        · intro h i hi
          unfold Mem.allocated
          rw [h i hi]; simp
      by_cases hall : blockAll m frame (2 ^ order) true
      · simp only [hall, if_true] at hps
        obtain ⟨m', hm', post⟩ := hps
        -- the counter check of `put` passes, because the bits are set
        have hle : Huge.free (m.hugeE (frame / c.geom.hugeFrames)) ≤ c.geom.hugeFrames - 2 ^ order := by
          rw [Huge.free_of_not_huge _ hnm]
          have hz : zerosIn c.geom m' (frame / c.geom.hugeFrames) = zerosIn c.geom m (frame / c.geom.hugeFrames) + 2 ^ order := by
            apply zerosIn_free m m' _ (frame % c.geom.hugeFrames) (2 ^ order) hfit
            · rw [hF]; exact post.bits
            · rw [hF]; exact hall
          have := zerosIn_le (g := c.geom) m' (frame / c.geom.hugeFrames)
          rw [inv.count _ hh hnm]; omega
        simp only [hle, if_true]
        refine ⟨fun _ => ⟨m', hm', ?_⟩, fun hn => absurd (hallowed_iff.2 hall) hn⟩
        have hnm' : ∀ h, Huge.isHuge (m'.hugeE h) = Huge.isHuge (m.hugeE h) := by
          intro h
          rw [post.entry]
          by_cases e : h = frame / c.geom.hugeFrames
          · have hle' : m.hugeE (frame / c.geom.hugeFrames) + 2 ^ order ≤ c.geom.hugeFrames := by
              rw [Huge.free_of_not_huge _ hnm] at hle; omega
            have : Huge.isHuge (m.hugeE (frame / c.geom.hugeFrames) + 2 ^ order) = false := by
              simp [Huge.isHuge, HugeMarker]; omega
            simp [e, this, hnm]
          · simp [e]
        refine ⟨?_, ?_, post.trees, post.slots, post.inv⟩
        · intro f
          unfold Mem.allocated
          rw [hnm', post.bits]
          by_cases hib : frame ≤ f ∧ f < frame + 2 ^ order
          · have e := hblk f (by simp [inBlock, hib.1, hib.2])
            simp [hib, inBlock, e, hnm]
          · have : inBlock frame order f = false := by
              simp only [inBlock]
              by_cases h1 : frame ≤ f <;> by_cases h2 : f < frame + 2 ^ order <;> simp_all
            simp [hib, this]
        · intro h
          unfold Mem.whole
          rw [hnm', hdec]
          by_cases e : h = frame / c.geom.hugeFrames
          · simp [e, hnm]
          · simp [e]
      · simp only [hall, if_false] at hps
        refine ⟨fun ha => absurd (hallowed_iff.1 ha) hall, fun _ => ?_⟩
        split
        · exact hps
        · rfl
  · -- huge orders
    have hge : c.geom.hugeOrder ≤ order := by omega
    have hspec := put_huge_spec ok m inv retries frame order hge hb.ord hb.aligned hb.inRange
    have hallowed_iff : PutAllowed c m frame order ↔
        ∀ i, i < 2 ^ (order - c.geom.hugeOrder) → Huge.isHuge (m.hugeE (frame / c.geom.hugeFrames + i)) = true := by
      unfold PutAllowed Mem.whole; simp only [ho, if_false]
    refine ⟨fun ha => ?_, fun hn => hspec.2 (fun hh => hn (hallowed_iff.2 hh))⟩
    obtain ⟨m', hm', post⟩ := hspec.1 (hallowed_iff.1 ha)
    refine ⟨m', hm', ?_⟩
    have hnm : Huge.isHuge c.geom.hugeFrames = false := by simp [Huge.isHuge, HugeMarker]; omega
    have h2o : 2 ^ order = 2 ^ (order - c.geom.hugeOrder) * c.geom.hugeFrames := by
      show _ = _ * 2 ^ c.geom.hugeOrder
      rw [← Nat.pow_add]; congr 1; omega
    have hmod : frame % c.geom.hugeFrames = 0 := by
      have : c.geom.hugeFrames ∣ frame :=
        Nat.dvd_trans ⟨2 ^ (order - c.geom.hugeOrder), by rw [h2o, Nat.mul_comm]⟩ (Nat.dvd_of_mod_eq_zero hb.aligned)
      exact Nat.mod_eq_zero_of_dvd this
    have hdec := frame_decomp c.geom frame
    rw [hmod, Nat.add_zero] at hdec
    -- a huge frame index is covered iff its frames are in the block
    have hcover : ∀ h, (frame / c.geom.hugeFrames ≤ h ∧ h < frame / c.geom.hugeFrames + 2 ^ (order - c.geom.hugeOrder)) ↔
        (frame / c.geom.hugeFrames ≤ h ∧ h * c.geom.hugeFrames < frame + 2 ^ order) := by
      intro h
      constructor
      · intro ⟨h1, h2⟩
        refine ⟨h1, ?_⟩
        have : (h + 1) * c.geom.hugeFrames ≤ (frame / c.geom.hugeFrames + 2 ^ (order - c.geom.hugeOrder)) * c.geom.hugeFrames :=
          Nat.mul_le_mul_right _ h2
        rw [Nat.add_mul, Nat.one_mul, Nat.add_mul, ← hdec, ← h2o] at this
        omega
      · intro ⟨h1, h2⟩
        refine ⟨h1, ?_⟩
        apply Nat.lt_of_mul_lt_mul_right (a := c.geom.hugeFrames)
        rw [Nat.add_mul, ← hdec, ← h2o]; exact h2
    refine ⟨?_, ?_, post.trees, post.slots, post.inv⟩
    · intro f
      unfold Mem.allocated
      rw [post.entry, post.bits]
      by_cases hib : frame ≤ f ∧ f < frame + 2 ^ order
      · -- inside the block: the huge frame was whole, its bits are zero
        have hcov : frame / c.geom.hugeFrames ≤ f / c.geom.hugeFrames ∧
            f / c.geom.hugeFrames < frame / c.geom.hugeFrames + 2 ^ (order - c.geom.hugeOrder) := by
          rw [hcover]
          refine ⟨Nat.div_le_div_right hib.1, ?_⟩
          have := Nat.div_mul_le_self f c.geom.hugeFrames
          omega
        have hw := hallowed_iff.1 ha (f / c.geom.hugeFrames - frame / c.geom.hugeFrames) (by omega)
        rw [show frame / c.geom.hugeFrames + (f / c.geom.hugeFrames - frame / c.geom.hugeFrames) = f / c.geom.hugeFrames by omega] at hw
        have hfh : f / c.geom.hugeFrames < c.nhuge := nhuge_lt_of_frame okg f 1 (by omega) (by have := hb.inRange; omega)
        have hz := (inv.marker _ hfh hw).2 (f % c.geom.hugeFrames) (Nat.mod_lt _ hHF)
        rw [← frame_decomp c.geom f] at hz
        rw [if_pos hcov, hnm, hz]
        simp [inBlock, hib.1, hib.2]
      · have hcov : ¬ (frame / c.geom.hugeFrames ≤ f / c.geom.hugeFrames ∧
            f / c.geom.hugeFrames < frame / c.geom.hugeFrames + 2 ^ (order - c.geom.hugeOrder)) := by
          rw [hcover]
          intro ⟨h1, h2⟩
          apply hib
          have h3 := Nat.lt_mul_div_succ f hHF
          rw [Nat.mul_comm, Nat.add_mul, Nat.one_mul] at h3
          have h4 := Nat.div_mul_le_self f c.geom.hugeFrames
          have h5 : frame / c.geom.hugeFrames * c.geom.hugeFrames ≤ f / c.geom.hugeFrames * c.geom.hugeFrames :=
            Nat.mul_le_mul_right _ h1
          constructor
          · omega
          · -- f < frame + 2^order: f's huge frame starts below the end, and the end is huge-aligned
            have hend : ∃ q, frame + 2 ^ order = q * c.geom.hugeFrames :=
              ⟨frame / c.geom.hugeFrames + 2 ^ (order - c.geom.hugeOrder), by rw [Nat.add_mul, ← hdec, ← h2o]⟩
            obtain ⟨q, hq⟩ := hend
            rw [hq] at h2 ⊢
            have : f / c.geom.hugeFrames < q := Nat.lt_of_mul_lt_mul_right h2
            have : (f / c.geom.hugeFrames + 1) * c.geom.hugeFrames ≤ q * c.geom.hugeFrames := Nat.mul_le_mul_right _ this
            rw [Nat.add_mul, Nat.one_mul] at this
            omega
        have : inBlock frame order f = false := by
          unfold inBlock
          rw [← Bool.decide_and]; simp [hib]
        rw [if_neg hcov, this]; simp
    · intro h
      unfold Mem.whole
      rw [post.entry]
      by_cases hcov : frame / c.geom.hugeFrames ≤ h ∧ h < frame / c.geom.hugeFrames + 2 ^ (order - c.geom.hugeOrder)
      · have h2 := (hcover h).1 hcov
        rw [if_pos hcov, hnm]
        simp [h2.1, h2.2]
      · have h2 : ¬ (frame / c.geom.hugeFrames ≤ h ∧ h * c.geom.hugeFrames < frame + 2 ^ order) :=
          fun hh => hcov ((hcover h).2 hh)
        rw [if_neg hcov]
        have : (decide (frame / c.geom.hugeFrames ≤ h) && decide (h * c.geom.hugeFrames < frame + 2 ^ order)) = false := by
          rw [← Bool.decide_and]; simp [h2]
        rw [this]; simp

end
end LLFree
