/-
  the built-in policy functions regenerated from the source (`Gen/Policy.lean`) equal the model's.
-/
import LLFreeV.Gen.Policy
import LLFreeV.Model.Policies
namespace LLFree.GenTree
open LLFree

/-! ### the built-in policies (`Gen/Policy.lean`) -/

theorem simple_eq (tf : Nat) : Gen.P.simple tf = simplePolicy tf := by
  funext r t f
  unfold Gen.P.simple simplePolicy orderedPolicy
  by_cases h1 : r > t <;> by_cases h2 : r < t <;> by_cases h3 : f ≥ tf / 2 <;> by_cases h4 : f ≥ tf / 64 <;> simp [h1, h2, h3, h4]

theorem movable_eq (tf : Nat) : Gen.P.movable tf = movablePolicy tf := by
  funext r t f
  unfold Gen.P.movable movablePolicy orderedPolicy
  by_cases h1 : r > t <;> by_cases h2 : r < t <;> by_cases h3 : f ≥ tf / 2 <;> by_cases h4 : f ≥ tf / 64 <;> simp [h1, h2, h3, h4]

theorem eval_eq (pmin pmax gmin gmax : Nat) : Gen.P.eval pmin pmax gmin gmax = evalPolicy pmin pmax gmin gmax := by
  funext r t f
  unfold Gen.P.eval evalPolicy orderedPolicy
  by_cases h1 : r > t <;> by_cases h2 : r < t <;> simp [h1, h2]

end LLFree.GenTree
