/-
  Every legal step of the lower allocator (a row write with `TransRow`, a table-entry write with
  `TransE`) leaves the number of frames that are *free or held by a thread* unchanged, huge frame
  by huge frame — the reference count of the upper invariant under interleavings.
-/
import LLFreeV.Proofs.ConcUpperInv
import LLFreeV.Proofs.OwnLift
namespace LLFree
open Prog

section
variable {α : Type} {strict : Bool} {g : Geom} {n : Nat} {F : Nat} {Post : α → Gh → Prop} {m : Mem} {ths : Nat → Th α} {ghs : Nat → Gh}

theorem freeInHuge_unmarked (okg : GeomOk g) (m : Mem) (h : Nat) (hm : Huge.isHuge (m.hugeE h) = false) :
    m.freeInHuge g h = zerosIn g m h := by
  unfold Mem.freeInHuge zerosIn
  apply countP_range_eq_of_eq
  intro i hi
  unfold Mem.allocated
  rw [div_hf_mul_add g okg.hf_pos h i hi, hm]; rfl

theorem freeInHuge_marked (okg : GeomOk g) (m : Mem) (h : Nat) (hm : Huge.isHuge (m.hugeE h) = true) :
    m.freeInHuge g h = 0 := by
  unfold Mem.freeInHuge
  rw [List.countP_eq_zero]
  intro i hi
  have hi' := List.mem_range.1 hi
  unfold Mem.allocated
  rw [div_hf_mul_add g okg.hf_pos h i hi', hm]; simp

theorem heldSum_fupd (k : Nat) (hk : k < n) (gh' : Gh) (h : Nat) :
    blockSum (fun j => heldIn g (fupd ghs k gh' j) h) n + heldIn g (ghs k) h =
      blockSum (fun j => heldIn g (ghs j) h) n + heldIn g gh' h := by
  have := blockSum_point (fun j => heldIn g (ghs j) h) (fun j => heldIn g (fupd ghs k gh' j) h) n k hk
    (fun j hj => by rw [fupd_other _ _ _ _ hj])
  simp only [fupd_same] at this
  exact this

theorem usum_zero_u (k : Nat) (hk : k < n) (h : Nat) (hz : usum n ghs h = 0) : (ghs k).u h = 0 := by
  have := le_blockSum (fun j => (ghs j).u h) n k hk
  unfold usum at hz
  omega

/-- **row writes** -/
theorem GH_write_row (okg : GeomOk g) (inv : LInv strict g n F Post m ths ghs) (k : Nat) (hk : k < n) (i : Nat)
    (old new : BitVec 64) (hv : m.rows[i]? = some old) (gh' : Gh) (tr : TransRow g (ghs k) gh' i old new) (h : Nat) :
    GH g n (m.set .row i new) (fupd ghs k gh') h = GH g n m ghs h := by
  have hi : i < m.rows.size := (Array.getElem?_eq_some_iff.1 hv).1
  have hkn := inv.known k i old hv
  have hsum := heldSum_fupd (ghs := ghs) (g := g) k hk gh' h
  unfold GH
  by_cases hh : h = i / g.rows
  · subst hh
    have hbal := tr.bits.balanceH okg hkn
    have hz := zerosIn_set_row okg m i old new hv
    have hheld : heldIn g gh' (i / g.rows) + zerosRow new = heldIn g (ghs k) (i / g.rows) + zerosRow old := by
      unfold heldIn; rw [tr.ownH]; omega
    cases hm : Huge.isHuge (m.hugeE (i / g.rows)) with
    | false =>
      rw [freeInHuge_unmarked okg _ _ (by rw [Mem.hugeE_set_row]; exact hm), freeInHuge_unmarked okg _ _ hm]
      omega
    | true =>
      rw [freeInHuge_marked okg _ _ (by rw [Mem.hugeE_set_row]; exact hm), freeInHuge_marked okg _ _ hm]
      obtain ⟨hfull, hus⟩ := inv.marker _ hm
      have hu0 := usum_zero_u (ghs := ghs) k hk _ hus
      have hacct := tr.acct
      have hle := zerosIn_le (g := g) (m.set .row i new) (i / g.rows)
      have hz1 := zerosRow_le old
      have hz2 := zerosRow_le new
      omega
  · have hz : m.freeInHuge g h = (m.set .row i new).freeInHuge g h := by
      unfold Mem.freeInHuge
      apply countP_range_eq_of_eq
      intro x hx
      unfold Mem.allocated
      rw [Mem.hugeE_set_row, Mem.bit_set_row m i new hi, if_neg]
      rw [okg.frame_row]
      intro e
      apply hh
      have : x / 64 < g.rows := by
        have := okg.rows_mul
        apply Nat.div_lt_of_lt_mul; omega
      rw [← e, Nat.mul_comm, Nat.mul_add_div okg.rows_pos, Nat.div_eq_of_lt this]; rfl
    have hc : heldIn g gh' h = heldIn g (ghs k) h := by
      unfold heldIn; rw [tr.ownH, tr.bits.cntH_other okg h hh]
    rw [← hz]; omega

/-- **table-entry writes** -/
theorem GH_write_huge (okg : GeomOk g) (hhf : Huge.isHuge g.hugeFrames = false) (inv : LInv strict g n F Post m ths ghs)
    (k : Nat) (hk : k < n) (x : Nat) (old new : Nat) (hv : m.huge[x]? = some old) (gh' : Gh)
    (tr : TransE g (ghs k) gh' x old new) (h : Nat) :
    GH g n (m.set .huge x new) (fupd ghs k gh') h = GH g n m ghs h := by
  have hi : x < m.huge.size := (Array.getElem?_eq_some_iff.1 hv).1
  have hold : m.hugeE x = old := by unfold Mem.hugeE; rw [hv]; rfl
  have hE : ∀ y, (m.set .huge x new).hugeE y = if y = x then new else m.hugeE y := Mem.hugeE_set_huge m x new hi
  have hz : ∀ y, zerosIn g (m.set .huge x new) y = zerosIn g m y := fun y => zerosIn_congr g m _ y (fun _ _ => rfl)
  have hsum := heldSum_fupd (ghs := ghs) (g := g) k hk gh' h
  unfold GH
  by_cases hh : h = x
  · subst hh
    cases tr with
    | counter h1 h2 acct other s hhq =>
      have hc : heldIn g gh' h = heldIn g (ghs k) h := by unfold heldIn; rw [s, hhq]
      rw [freeInHuge_unmarked okg _ _ (by rw [hE, if_pos rfl]; exact h2),
        freeInHuge_unmarked okg _ _ (by rw [hold]; exact h1), hz]
      omega
    | take h1 h2 s u hhq =>
      -- the frame was entirely free and is now held whole by the thread
      have hm0 : Huge.isHuge (m.hugeE h) = false := by rw [hold, h1]; exact hhf
      have hcnt := inv.count h hm0
      have hle := zerosIn_le (g := g) m h
      have hzf : zerosIn g m h = g.hugeFrames := by rw [hold, h1] at hcnt; omega
      have hnot : (ghs k).ownH h = false := by
        cases ho : (ghs k).ownH h with
        | false => rfl
        | true => have := inv.heldH k h ho; rw [hm0] at this; cases this
      have hc0 : cntH g (ghs k).ownS h = 0 := cntH_eq_zero_of_full m _ h (inv.heldS k) hzf
      have hc : heldIn g gh' h = heldIn g (ghs k) h + g.hugeFrames := by
        unfold heldIn; rw [s, hhq h, hnot, hc0]; simp
      rw [freeInHuge_marked okg _ _ (by rw [hE, if_pos rfl]; exact h2), freeInHuge_unmarked okg _ _ hm0, hzf]
      omega
    | give h1 h2 h3 s u hhq =>
      have hm1 : Huge.isHuge (m.hugeE h) = true := by rw [hold]; exact h1
      obtain ⟨hzf, _⟩ := inv.marker h hm1
      have hc0 : cntH g (ghs k).ownS h = 0 := cntH_eq_zero_of_full m _ h (inv.heldS k) hzf
      have hc : heldIn g gh' h + g.hugeFrames = heldIn g (ghs k) h := by
        unfold heldIn; rw [s, hhq h, h3, hc0]; simp
      rw [freeInHuge_unmarked okg _ _ (by rw [hE, if_pos rfl, h2]; exact hhf), freeInHuge_marked okg _ _ hm1, hz, hzf]
      omega
  · have hf : (m.set .huge x new).freeInHuge g h = m.freeInHuge g h := by
      cases hm : Huge.isHuge (m.hugeE h) with
      | false =>
        rw [freeInHuge_unmarked okg _ _ (by rw [hE, if_neg hh]; exact hm), freeInHuge_unmarked okg _ _ hm, hz]
      | true =>
        rw [freeInHuge_marked okg _ _ (by rw [hE, if_neg hh]; exact hm), freeInHuge_marked okg _ _ hm]
    have hc : heldIn g gh' h = heldIn g (ghs k) h := by
      unfold heldIn
      cases tr with
      | counter _ _ _ _ s hhq => rw [s, hhq]
      | take _ _ s _ hhq => rw [s, hhq h]; simp [hh]
      | give _ _ _ s _ hhq => rw [s, hhq h]; simp [hh]
    rw [hf]; omega

/-- the per-tree count is a sum of per-huge-frame counts -/
theorem GT_of_GH (m' : Mem) (ghs' : Nat → Gh) (hG : ∀ h, GH g n m' ghs' h = GH g n m ghs h) (i : Nat) :
    GT g n m' ghs' i = GT g n m ghs i := by
  unfold GT
  apply blockSum_congr
  intro cc _
  exact hG _

end
end LLFree
