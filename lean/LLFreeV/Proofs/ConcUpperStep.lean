/-
  One step of one thread in the combined (lower + upper) invariant of an interleaving.
-/
import LLFreeV.Proofs.ConcUpperLower
import LLFreeV.Proofs.OwnLowerGet
namespace LLFree
open Prog

/-- which half of the memory a step may have written: rows and table entries (lower), or tree
    entries and slots (upper; then `keep` holds) -/
def StepHalf (m m' : Mem) (keep : Prop) : Prop :=
  (m'.trees = m.trees ∧ m'.slots = m.slots) ∨ (m'.rows = m.rows ∧ m'.huge = m.huge ∧ keep)

section
variable {α : Type} {strict : Bool} {g : Geom} {n : Nat} {F : Nat} {Post : α → Gh → Prop} {m : Mem} {ths : Nat → Th α} {ghs : Nat → Gh}

/-- `LInv.step`, also reporting that the free-or-held counts are unchanged and which half of the
    memory the step may have written -/
theorem LInv.stepG (okg : GeomOk g) (hhf : Huge.isHuge g.hugeFrames = false)
    (inv : LInv strict g n F Post m ths ghs) (k : Nat) (hk : k < n) :
    match (ths k).step m with
    | .done a => Post a (ghs k)
    | .dead s => s = oobMsg ∨ (strict = false ∧ UpperMsg s)
    | .step t' m' _ => ∃ gh', LInv strict g n F Post m' (fupd ths k t') (fupd ghs k gh') ∧
        StepHalf m m' (gh' = ghs k) ∧
        ∀ h, GH g n m' (fupd ghs k gh') h = GH g n m ghs h := by
  have hs := inv.safe k
  have self : ∀ t', Th.SafeL strict g Post (ghs k) t' → ∃ gh', LInv strict g n F Post m (fupd ths k t') (fupd ghs k gh') ∧
      StepHalf m m (gh' = ghs k) ∧
      ∀ h, GH g n m (fupd ghs k gh') h = GH g n m ghs h := by
    intro t' h; exact ⟨ghs k, by rw [fupd_self]; exact inv.set_thread k t' h, Or.inl ⟨rfl, rfl⟩, by rw [fupd_self]; exact fun _ => rfl⟩
  have selfm : ∀ m' t', m'.rows = m.rows → m'.huge = m.huge → Th.SafeL strict g Post (ghs k) t' →
      ∃ gh', LInv strict g n F Post m' (fupd ths k t') (fupd ghs k gh') ∧
        StepHalf m m' (gh' = ghs k) ∧
        ∀ h, GH g n m' (fupd ghs k gh') h = GH g n m ghs h := by
    intro m' t' h1 h2 h
    refine ⟨ghs k, by rw [fupd_self]; exact inv.other_mem m' h1 h2 k t' h, Or.inr ⟨h1, h2, rfl⟩, ?_⟩
    rw [fupd_self]
    intro x
    unfold GH Mem.freeInHuge
    congr 1
    apply countP_range_eq_of_eq
    intro y _
    rw [Mem.allocated_congr g m m' h1 h2]
  cases ht : ths k with
  | «at» p =>
    rw [ht] at hs
    cases p with
    | ret a => exact hs
    | panic s => exact Or.inr hs
    | load kd i c =>
      simp only [Th.step]
      cases hv : m.get? kd i with
      | none => exact Or.inl rfl
      | some v =>
        simp only
        cases kd with
        | row => exact self _ (hs v (inv.known k i v (by simpa using hv)))
        | huge => exact self _ (hs v (inv.knownE' k hk i v (by simpa using hv)))
        | tree => exact self _ (hs v)
        | slot => exact self _ (hs v)
    | store kd i v c =>
      cases kd with
      | row => exact hs.elim
      | huge => exact hs.elim
      | tree =>
        simp only [Th.step]
        cases hv : m.get? .tree i with
        | none => exact Or.inl rfl
        | some o => exact selfm _ _ rfl rfl hs
      | slot =>
        simp only [Th.step]
        cases hv : m.get? .slot i with
        | none => exact Or.inl rfl
        | some o => exact selfm _ _ rfl rfl hs
    | swap kd i v c =>
      cases kd with
      | row => exact hs.elim
      | huge => exact hs.elim
      | tree =>
        simp only [Th.step]
        cases hv : m.get? .tree i with
        | none => exact Or.inl rfl
        | some o => exact selfm _ _ rfl rfl (hs o)
      | slot =>
        simp only [Th.step]
        cases hv : m.get? .slot i with
        | none => exact Or.inl rfl
        | some o => exact selfm _ _ rfl rfl (hs o)
    | cas kd i e nw c =>
      cases kd with
      | row =>
        simp only [Th.step]
        cases hv : m.get? .row i with
        | none => exact Or.inl rfl
        | some o =>
          simp only
          have hkn := inv.known k i o (by simpa using hv)
          obtain ⟨h1, h2⟩ := hs o hkn
          by_cases he : o = e
          · simp only [he, if_true]
            obtain ⟨gh', tr, hsafe⟩ := h1 he
            subst he
            exact ⟨gh', inv.write_row okg k hk i o nw (by simpa using hv) gh' tr _ hsafe, Or.inl ⟨rfl, rfl⟩, GH_write_row okg inv k hk i o nw (by simpa using hv) gh' tr⟩
          · simp only [he, if_false]
            exact self _ (h2 he)
      | huge =>
        simp only [Th.step]
        cases hv : m.get? .huge i with
        | none => exact Or.inl rfl
        | some o =>
          simp only
          have hkn := inv.knownE' k hk i o (by simpa using hv)
          obtain ⟨h1, h2⟩ := hs o hkn
          by_cases he : o = e
          · simp only [he, if_true]
            obtain ⟨gh', tr, hsafe⟩ := h1 he
            subst he
            exact ⟨gh', inv.write_huge hhf k hk i o nw (by simpa using hv) gh' tr _ hsafe, Or.inl ⟨rfl, rfl⟩, GH_write_huge okg hhf inv k hk i o nw (by simpa using hv) gh' tr⟩
          · simp only [he, if_false]
            exact self _ (h2 he)
      | tree =>
        simp only [Th.step]
        cases hv : m.get? .tree i with
        | none => exact Or.inl rfl
        | some o =>
          simp only
          by_cases he : o = e
          · simp only [he, if_true]; exact selfm _ _ rfl rfl (hs _)
          · simp only [he, if_false]; exact self _ (hs _)
      | slot =>
        simp only [Th.step]
        cases hv : m.get? .slot i with
        | none => exact Or.inl rfl
        | some o =>
          simp only
          by_cases he : o = e
          · simp only [he, if_true]; exact selfm _ _ rfl rfl (hs _)
          · simp only [he, if_false]; exact self _ (hs _)
    | casPart i sh w e nw c =>
      simp only [Th.step]
      cases hv : m.get? .row i with
      | none => exact Or.inl rfl
      | some o =>
        simp only
        have hkn := inv.known k i o (by simpa using hv)
        obtain ⟨h1, h2⟩ := hs o hkn
        cases hc : casPartVal o sh w e nw with
        | none => exact self _ (h2 hc)
        | some r =>
          obtain ⟨gh', tr, hsafe⟩ := h1 r hc
          exact ⟨gh', inv.write_row okg k hk i o r (by simpa using hv) gh' tr _ hsafe, Or.inl ⟨rfl, rfl⟩, GH_write_row okg inv k hk i o r (by simpa using hv) gh' tr⟩
    | upd kd i f c =>
      cases kd with
      | row =>
        simp only [Th.step]
        cases hv : m.get? .row i with
        | none => exact Or.inl rfl
        | some o =>
          simp only
          exact self _ (afterUpdL_row (ghs k) i f c o (inv.known k i o (by simpa using hv)) hs)
      | huge =>
        simp only [Th.step]
        cases hv : m.get? .huge i with
        | none => exact Or.inl rfl
        | some o =>
          simp only
          exact self _ (afterUpdL_huge (ghs k) i f c o (inv.knownE' k hk i o (by simpa using hv)) hs)
      | tree =>
        simp only [Th.step]
        cases hv : m.get? .tree i with
        | none => exact Or.inl rfl
        | some o => simp only; exact self _ (afterUpdL_tree (ghs k) i f c o hs)
      | slot =>
        simp only [Th.step]
        cases hv : m.get? .slot i with
        | none => exact Or.inl rfl
        | some o => simp only; exact self _ (afterUpdL_slot (ghs k) i f c o hs)
  | updCas kd i f cur new c =>
    rw [ht] at hs
    cases kd with
    | row =>
      obtain ⟨⟨gh', tr, hsafe⟩, hupd⟩ := hs
      simp only [Th.step]
      cases hv : m.get? .row i with
      | none => exact Or.inl rfl
      | some o =>
        simp only
        by_cases he : o = cur
        · simp only [he, if_true]
          subst he
          exact ⟨gh', inv.write_row okg k hk i o new (by simpa using hv) gh' tr _ hsafe, Or.inl ⟨rfl, rfl⟩, GH_write_row okg inv k hk i o new (by simpa using hv) gh' tr⟩
        · simp only [he, if_false]
          exact self _ (afterUpdL_row (ghs k) i f c o (inv.known k i o (by simpa using hv)) hupd)
    | huge =>
      obtain ⟨⟨gh', tr, hsafe⟩, hupd⟩ := hs
      simp only [Th.step]
      cases hv : m.get? .huge i with
      | none => exact Or.inl rfl
      | some o =>
        simp only
        by_cases he : o = cur
        · simp only [he, if_true]
          subst he
          exact ⟨gh', inv.write_huge hhf k hk i o new (by simpa using hv) gh' tr _ hsafe, Or.inl ⟨rfl, rfl⟩, GH_write_huge okg hhf inv k hk i o new (by simpa using hv) gh' tr⟩
        · simp only [he, if_false]
          exact self _ (afterUpdL_huge (ghs k) i f c o (inv.knownE' k hk i o (by simpa using hv)) hupd)
    | tree =>
      obtain ⟨hsafe, hupd⟩ := hs
      simp only [Th.step]
      cases hv : m.get? .tree i with
      | none => exact Or.inl rfl
      | some o =>
        simp only
        by_cases he : o = cur
        · simp only [he, if_true]; subst he; exact selfm _ _ rfl rfl hsafe
        · simp only [he, if_false]; exact self _ (afterUpdL_tree (ghs k) i f c o hupd)
    | slot =>
      obtain ⟨hsafe, hupd⟩ := hs
      simp only [Th.step]
      cases hv : m.get? .slot i with
      | none => exact Or.inl rfl
      | some o =>
        simp only
        by_cases he : o = cur
        · simp only [he, if_true]; subst he; exact selfm _ _ rfl rfl hsafe
        · simp only [he, if_false]; exact self _ (afterUpdL_slot (ghs k) i f c o hupd)


end

/-! ### the upper half of a step -/
section
variable {α : Type} {c : Cfg} {H : Nat → Nat} {n : Nat} {m : Mem} {ghs : Nat → Gh} {ugs : Nat → UGh}
  {PostU : α → UGh → Prop} {ths : Nat → Th α}

theorem afterUpdU_row (ug : UGh) (i : Nat) (f : BitVec 64 → Upd (BitVec 64))
    (cont : Except (BitVec 64) (BitVec 64) → Prog α) (o : BitVec 64) (hp : SafeU c PostU ug (.upd .row i f cont)) :
    Th.SafeU c PostU ug (Th.afterUpd .row i f o cont) := by
  unfold Th.afterUpd
  cases hf : f o with
  | skip => exact hp.2 _
  | set v => exact hp
  | panic s => exact hp.1 o s hf

theorem afterUpdU_huge (ug : UGh) (i : Nat) (f : Nat → Upd Nat)
    (cont : Except Nat Nat → Prog α) (o : Nat) (hp : SafeU c PostU ug (.upd .huge i f cont)) :
    Th.SafeU c PostU ug (Th.afterUpd .huge i f o cont) := by
  unfold Th.afterUpd
  cases hf : f o with
  | skip => exact hp.2 _
  | set v => exact hp
  | panic s => exact hp.1 o s hf

theorem afterUpdU_tree (ug : UGh) (i : Nat) (f : Tree → Upd Tree)
    (cont : Except Tree Tree → Prog α) (o : Tree) (hkn : KnownT c.geom.treeFrames c.ntrees ug i o) (hp : SafeU c PostU ug (.upd .tree i f cont)) :
    Th.SafeU c PostU ug (Th.afterUpd .tree i f o cont) := by
  have h1 := hp o hkn
  unfold Th.afterUpd
  cases hf : f o with
  | skip => rw [hf] at h1; exact h1
  | set v => rw [hf] at h1; exact ⟨h1, hp⟩
  | panic s => rw [hf] at h1; exact h1

theorem afterUpdU_slot (ug : UGh) (i : Nat) (f : LTree → Upd LTree)
    (cont : Except LTree LTree → Prog α) (o : LTree) (hkn : KnownS c.geom.treeRows c.geom.treeFrames c.ntrees ug o)
    (hp : SafeU c PostU ug (.upd .slot i f cont)) :
    Th.SafeU c PostU ug (Th.afterUpd .slot i f o cont) := by
  have h1 := hp o hkn
  unfold Th.afterUpd
  cases hf : f o with
  | skip => rw [hf] at h1; exact h1
  | set v => rw [hf] at h1; exact ⟨h1, hp⟩
  | panic s => rw [hf] at h1; exact h1

/-- what the upper half of a step yields: a lower access leaves the upper ghost alone; an upper
    write is a legal transition and re-establishes the upper invariant -/
def UStepRes (c : Cfg) (H : Nat → Nat) (n : Nat) (m : Mem) (ghs : Nat → Gh) (ugs : Nat → UGh) (PostU : α → UGh → Prop)
    (k : Nat) (t' : Th α) (m' : Mem) : Prop :=
  ∃ ug', Th.SafeU c PostU ug' t' ∧
    ((m'.trees = m.trees ∧ m'.slots = m.slots ∧ ug' = ugs k) ∨
     (m'.rows = m.rows ∧ m'.huge = m.huge ∧ UInv c H n m' ghs (fupd ugs k ug')))

theorem Th.SafeU.step (ok : CfgOk c) (I : UInv c H n m ghs ugs) (k : Nat) (hk : k < n)
    (hs : Th.SafeU c PostU (ugs k) (ths k)) :
    match (ths k).step m with
    | .done a => PostU a (ugs k)
    | .dead s => s = oobMsg ∨ LowerMsg s
    | .step t' m' _ => UStepRes c H n m ghs ugs PostU k t' m' := by
  have low : ∀ t' m', m'.trees = m.trees → m'.slots = m.slots → Th.SafeU c PostU (ugs k) t' →
      UStepRes c H n m ghs ugs PostU k t' m' :=
    fun t' m' h1 h2 h => ⟨ugs k, h, Or.inl ⟨h1, h2, rfl⟩⟩
  have same : ∀ t', Th.SafeU c PostU (ugs k) t' → UStepRes c H n m ghs ugs PostU k t' m :=
    fun t' h => low t' m rfl rfl h
  cases ht : ths k with
  | «at» p =>
    rw [ht] at hs
    cases p with
    | ret a => exact hs
    | panic s => exact Or.inr hs
    | load kd i cont =>
      simp only [Th.step]
      cases hv : m.get? kd i with
      | none => exact Or.inl rfl
      | some v => exact same _ (hs v)
    | store kd i v cont =>
      cases kd with
      | row =>
        simp only [Th.step]
        cases hv : m.get? .row i with
        | none => exact Or.inl rfl
        | some o => exact low _ _ rfl rfl hs
      | huge =>
        simp only [Th.step]
        cases hv : m.get? .huge i with
        | none => exact Or.inl rfl
        | some o => exact low _ _ rfl rfl hs
      | tree => exact hs.elim
      | slot => exact hs.elim
    | swap kd i v cont =>
      cases kd with
      | row =>
        simp only [Th.step]
        cases hv : m.get? .row i with
        | none => exact Or.inl rfl
        | some o => exact low _ _ rfl rfl (hs o)
      | huge =>
        simp only [Th.step]
        cases hv : m.get? .huge i with
        | none => exact Or.inl rfl
        | some o => exact low _ _ rfl rfl (hs o)
      | tree => exact hs.elim
      | slot =>
        simp only [Th.step]
        cases hv : m.get? .slot i with
        | none => exact Or.inl rfl
        | some o =>
          obtain ⟨kk, ug', hkk, tr, hsafe⟩ := hs o (I.knownS k hk i o (by simpa using hv))
          exact ⟨ug', hsafe, Or.inr ⟨rfl, rfl, I.write_slot ok k hk i kk o v (by simpa using hv) hkk ug' tr⟩⟩
    | cas kd i e nw cont =>
      cases kd with
      | row =>
        simp only [Th.step]
        cases hv : m.get? .row i with
        | none => exact Or.inl rfl
        | some o =>
          simp only
          by_cases he : o = e
          · simp only [he, if_true]; exact low _ _ rfl rfl (hs _)
          · simp only [he, if_false]; exact same _ (hs _)
      | huge =>
        simp only [Th.step]
        cases hv : m.get? .huge i with
        | none => exact Or.inl rfl
        | some o =>
          simp only
          by_cases he : o = e
          · simp only [he, if_true]; exact low _ _ rfl rfl (hs _)
          · simp only [he, if_false]; exact same _ (hs _)
      | tree => exact hs.elim
      | slot => exact hs.elim
    | casPart i sh w e nw cont =>
      simp only [Th.step]
      cases hv : m.get? .row i with
      | none => exact Or.inl rfl
      | some o =>
        simp only
        cases hc : casPartVal o sh w e nw with
        | none => exact same _ (hs _)
        | some r => exact low _ _ rfl rfl (hs _)
    | upd kd i f cont =>
      cases kd with
      | row =>
        simp only [Th.step]
        cases hv : m.get? .row i with
        | none => exact Or.inl rfl
        | some o => simp only; exact same _ (afterUpdU_row (ugs k) i f cont o hs)
      | huge =>
        simp only [Th.step]
        cases hv : m.get? .huge i with
        | none => exact Or.inl rfl
        | some o => simp only; exact same _ (afterUpdU_huge (ugs k) i f cont o hs)
      | tree =>
        simp only [Th.step]
        cases hv : m.get? .tree i with
        | none => exact Or.inl rfl
        | some o => simp only; exact same _ (afterUpdU_tree (ugs k) i f cont o (I.knownT k hk i o (by simpa using hv)) hs)
      | slot =>
        simp only [Th.step]
        cases hv : m.get? .slot i with
        | none => exact Or.inl rfl
        | some o => simp only; exact same _ (afterUpdU_slot (ugs k) i f cont o (I.knownS k hk i o (by simpa using hv)) hs)
  | updCas kd i f cur new cont =>
    rw [ht] at hs
    cases kd with
    | row =>
      simp only [Th.step]
      cases hv : m.get? .row i with
      | none => exact Or.inl rfl
      | some o =>
        simp only
        by_cases he : o = cur
        · simp only [he, if_true]; exact low _ _ rfl rfl (hs.2 _)
        · simp only [he, if_false]; exact same _ (afterUpdU_row (ugs k) i f cont o hs)
    | huge =>
      simp only [Th.step]
      cases hv : m.get? .huge i with
      | none => exact Or.inl rfl
      | some o =>
        simp only
        by_cases he : o = cur
        · simp only [he, if_true]; exact low _ _ rfl rfl (hs.2 _)
        · simp only [he, if_false]; exact same _ (afterUpdU_huge (ugs k) i f cont o hs)
    | tree =>
      obtain ⟨⟨ug', tr, hsafe⟩, hupd⟩ := hs
      simp only [Th.step]
      cases hv : m.get? .tree i with
      | none => exact Or.inl rfl
      | some o =>
        simp only
        by_cases he : o = cur
        · simp only [he, if_true]
          subst he
          exact ⟨ug', hsafe, Or.inr ⟨rfl, rfl, I.write_tree k hk i o new (by simpa using hv) ug' tr⟩⟩
        · simp only [he, if_false]; exact same _ (afterUpdU_tree (ugs k) i f cont o (I.knownT k hk i o (by simpa using hv)) hupd)
    | slot =>
      obtain ⟨⟨kk, ug', hkk, tr, hsafe⟩, hupd⟩ := hs
      simp only [Th.step]
      cases hv : m.get? .slot i with
      | none => exact Or.inl rfl
      | some o =>
        simp only
        by_cases he : o = cur
        · simp only [he, if_true]
          subst he
          exact ⟨ug', hsafe, Or.inr ⟨rfl, rfl, I.write_slot ok k hk i kk o new (by simpa using hv) hkk ug' tr⟩⟩
        · simp only [he, if_false]; exact same _ (afterUpdU_slot (ugs k) i f cont o (I.knownS k hk i o (by simpa using hv)) hupd)

end

/-! ### the combined invariant -/

structure CInv {α : Type} (c : Cfg) (H : Nat → Nat) (n F : Nat) (PostL : α → Gh → Prop) (PostU : α → UGh → Prop)
    (m : Mem) (ths : Nat → Th α) (ghs : Nat → Gh) (ugs : Nat → UGh) : Prop where
  low : LInv false c.geom n F PostL m ths ghs
  up : UInv c H n m ghs ugs
  safeU : ∀ k, Th.SafeU c PostU (ugs k) (ths k)

section
variable {α : Type} {c : Cfg} {H : Nat → Nat} {n F : Nat} {PostL : α → Gh → Prop} {PostU : α → UGh → Prop}
  {m : Mem} {ths : Nat → Th α} {ghs : Nat → Gh} {ugs : Nat → UGh}

theorem GH_congr (g : Geom) (n : Nat) (m m' : Mem) (ghs : Nat → Gh) (hr : m'.rows = m.rows) (hh : m'.huge = m.huge) (h : Nat) :
    GH g n m' ghs h = GH g n m ghs h := by
  unfold GH Mem.freeInHuge
  congr 1
  apply countP_range_eq_of_eq
  intro x _
  rw [Mem.allocated_congr g m m' hr hh]

/-- **Every atomic step of every thread preserves the combined invariant.** -/
theorem CInv.step (ok : CfgOk c) (inv : CInv c H n F PostL PostU m ths ghs ugs) (k : Nat) (hk : k < n) :
    match (ths k).step m with
    | .done a => PostL a (ghs k) ∧ PostU a (ugs k)
    | .dead s => s = oobMsg
    | .step t' m' _ => ∃ gh' ug', CInv c H n F PostL PostU m' (fupd ths k t') (fupd ghs k gh') (fupd ugs k ug') := by
  have okg := ok.geom.toGeomOk
  have hhf : Huge.isHuge c.geom.hugeFrames = false := isHuge_of_le ok.geom _ (Nat.le_refl _)
  have h1 := inv.low.stepG okg hhf k hk
  have h2 := Th.SafeU.step ok inv.up k hk (inv.safeU k)
  cases hs : (ths k).step m with
  | done a => rw [hs] at h1 h2; exact ⟨h1, h2⟩
  | dead s =>
    rw [hs] at h1 h2
    rcases h1 with h1 | ⟨_, h1⟩
    · exact h1
    · rcases h2 with h2 | h2
      · exact h2
      · exact absurd h2 h1
  | step t' m' a =>
    rw [hs] at h1 h2
    simp only at h1 h2 ⊢
    obtain ⟨gh', hL, _, hG⟩ := h1
    obtain ⟨ug', hsafe, hU⟩ := h2
    refine ⟨gh', ug', hL, ?_, ?_⟩
    · rcases hU with ⟨ht, hsl, hug⟩ | ⟨hr, hh, hI⟩
      · subst hug
        rw [fupd_self]
        exact inv.up.other m' _ ht hsl (GT_of_GH m' _ hG)
      · refine hI.other m' _ rfl rfl (fun i => GT_of_GH (m := m') (ghs := ghs) m' _ (fun h => ?_) i)
        rw [hG h, GH_congr c.geom n m m' ghs hr hh h]
    · intro j
      by_cases e : j = k
      · subst e; simp only [fupd_same]; exact hsafe
      · rw [fupd_other _ _ _ _ e, fupd_other _ _ _ _ e]; exact inv.safeU j

/-- **The combined invariant holds in every state of every interleaving.** -/
theorem CInv.run (ok : CfgOk c) (sched : List Nat) (hsched : ∀ k ∈ sched, k < n) :
    ∀ (m : Mem) (ths : Nat → Th α) (ghs : Nat → Gh) (ugs : Nat → UGh), CInv c H n F PostL PostU m ths ghs ugs →
      ∃ ghs' ugs', CInv c H n F PostL PostU (concRun sched (m, ths)).1 (concRun sched (m, ths)).2 ghs' ugs' := by
  induction sched with
  | nil => exact fun m ths ghs ugs inv => ⟨ghs, ugs, inv⟩
  | cons k rest ih =>
    intro m ths ghs ugs inv
    unfold concRun
    simp only [List.foldl_cons]
    have hk : k < n := hsched k List.mem_cons_self
    have hrest : ∀ j ∈ rest, j < n := fun j hj => hsched j (List.mem_cons_of_mem _ hj)
    have hstep := inv.step ok k hk
    unfold concStep
    simp only
    cases hs : (ths k).step m with
    | done a => simp only; exact ih hrest m ths ghs ugs inv
    | dead s => simp only; exact ih hrest m ths ghs ugs inv
    | step t' m' a =>
      rw [hs] at hstep
      obtain ⟨gh', ug', inv'⟩ := hstep
      exact ih hrest m' (fupd ths k t') (fupd ghs k gh') (fupd ugs k ug') inv'

end

end LLFree
