/-
  Sequential specification of the multi-row part of `Bitfield::toggle` (orders above 6).
-/
import LLFreeV.Proofs.Toggle
namespace LLFree
open Prog

theorem Mem.ext' {a b : Mem} (h1 : a.rows = b.rows) (h2 : a.huge = b.huge) (h3 : a.trees = b.trees)
    (h4 : a.slots = b.slots) : a = b := by
  cases a; cases b; simp_all

/-- `m` is `m0` with the rows `[lo, hi)` replaced by `x` -/
structure RowsAre (m0 m : Mem) (lo hi : Nat) (x : BitVec 64) : Prop where
  same : SameButBits m0 m
  rows : ∀ r, m.rows[r]? = if lo ≤ r ∧ r < hi ∧ r < m0.rows.size then some x else m0.rows[r]?

theorem RowsAre.empty (m : Mem) (lo : Nat) (x : BitVec 64) : RowsAre m m lo lo x :=
  ⟨SameButBits.refl m, fun r => by have : ¬ (lo ≤ r ∧ r < lo ∧ r < m.rows.size) := by omega
                                   simp [this]⟩

theorem RowsAre.step {m0 m : Mem} {lo hi : Nat} {x : BitVec 64} (h : RowsAre m0 m lo hi x) (hlo : lo ≤ hi) :
    RowsAre m0 (m.set .row hi x) lo (hi + 1) x := by
  refine ⟨h.same.trans (SameButBits.set_row _ _ _), fun r => ?_⟩
  simp only [Mem.set_row_rows, Array.getElem?_setIfInBounds]
  by_cases hr : hi = r
  · subst hr
    by_cases hs : hi < m0.rows.size
    · have : hi < m.rows.size := by rw [h.same.size]; exact hs
      have h2 : lo ≤ hi ∧ hi < hi + 1 ∧ hi < m0.rows.size := ⟨hlo, by omega, hs⟩
      simp [this, h2]
    · have : ¬ hi < m.rows.size := by rw [h.same.size]; exact hs
      have h2 : ¬ (lo ≤ hi ∧ hi < hi + 1 ∧ hi < m0.rows.size) := fun hh => hs hh.2.2
      simp only [this, if_false, h2, if_true]
      have : m0.rows[hi]? = none := Array.getElem?_eq_none (by omega)
      rw [this]
  · simp only [hr, if_false]
    rw [h.rows r]
    by_cases h1 : lo ≤ r ∧ r < hi ∧ r < m0.rows.size
    · have : lo ≤ r ∧ r < hi + 1 ∧ r < m0.rows.size := ⟨h1.1, by omega, h1.2.2⟩
      simp [h1, this]
    · have : ¬ (lo ≤ r ∧ r < hi + 1 ∧ r < m0.rows.size) := by omega
      simp [h1, this]

/-- undoing: if the replaced rows originally all held `y`, writing `y` back restores `m0` -/
theorem RowsAre.restore {m0 m : Mem} {lo hi : Nat} {x y : BitVec 64} (h : RowsAre m0 m lo hi x)
    (horig : ∀ r, lo ≤ r → r < hi → r < m0.rows.size → m0.rows[r]? = some y) (hlo : lo < hi) :
    RowsAre m0 (m.set .row (hi - 1) y) lo (hi - 1) x := by
  refine ⟨h.same.trans (SameButBits.set_row _ _ _), fun r => ?_⟩
  simp only [Mem.set_row_rows, Array.getElem?_setIfInBounds]
  by_cases hr : hi - 1 = r
  · subst hr
    have h2 : ¬ (lo ≤ hi - 1 ∧ hi - 1 < hi - 1 ∧ hi - 1 < m0.rows.size) := by omega
    simp only [if_true, h2, if_false]
    by_cases hs : hi - 1 < m0.rows.size
    · have : hi - 1 < m.rows.size := by rw [h.same.size]; exact hs
      simp only [this, if_true]
      exact (horig (hi - 1) (by omega) (by omega) hs).symm
    · have : ¬ hi - 1 < m.rows.size := by rw [h.same.size]; exact hs
      simp only [this, if_false]
      exact (Array.getElem?_eq_none (by omega)).symm
  · simp only [hr, if_false]
    rw [h.rows r]
    by_cases h1 : lo ≤ r ∧ r < hi ∧ r < m0.rows.size
    · have : lo ≤ r ∧ r < hi - 1 ∧ r < m0.rows.size := ⟨h1.1, by omega, h1.2.2⟩
      simp [h1, this]
    · have : ¬ (lo ≤ r ∧ r < hi - 1 ∧ r < m0.rows.size) := by omega
      simp [h1, this]

theorem RowsAre.eq_of_empty {m0 m : Mem} {lo : Nat} {x : BitVec 64} (h : RowsAre m0 m lo lo x) : m = m0 := by
  apply Mem.ext' _ h.same.huge h.same.trees h.same.slots
  apply Array.ext_getElem?
  intro r
  rw [h.rows r]
  have : ¬ (lo ≤ r ∧ r < lo ∧ r < m0.rows.size) := by omega
  simp [this]

section
variable (g : Geom)

/-- the undo loop of `toggle` restores the original memory -/
theorem toggle_undo_spec (h : Nat) (exp : BitVec 64) (m0 : Mem) (lo : Nat) (hrows : lo + g.rows ≤ lo + g.rows) :
    ∀ (cnt : Nat) (m : Mem) (j : Nat), j ≤ g.rows → cnt ≤ j →
      RowsAre m0 m (h * g.rows + (j - cnt)) (h * g.rows + j) (~~~exp) →
      (∀ r, h * g.rows + (j - cnt) ≤ r → r < h * g.rows + j → r < m0.rows.size → m0.rows[r]? = some exp) →
      h * g.rows + j ≤ m0.rows.size →
      runSolo (Bitfield.toggle.undo g h exp cnt j) m = (m0, .ok ()) := by
  intro cnt
  induction cnt with
  | zero =>
    intro m j _ _ hra _ _
    rw [Bitfield.toggle.undo]
    simp only [Nat.sub_zero] at hra
    simp [hra.eq_of_empty]
  | succ cnt ih =>
    intro m j hj hcnt hra horig hsz
    rw [Bitfield.toggle.undo]
    have hj1 : (j - 1) % g.rows = j - 1 := Nat.mod_eq_of_lt (by omega)
    have hcur : m.rows[h * g.rows + (j - 1)]? = some (~~~exp) := by
      rw [hra.rows]
      have : h * g.rows + (j - (cnt + 1)) ≤ h * g.rows + (j - 1) ∧ h * g.rows + (j - 1) < h * g.rows + j ∧
          h * g.rows + (j - 1) < m0.rows.size := by omega
      simp [this]
    simp only [runSolo_bind, rowIdx, hj1]
    rw [runSolo_casK_some _ _ (by simpa using hcur)]
    simp only [if_true, andThen_ok]
    have hra' := hra.restore horig (by omega)
    have e1 : h * g.rows + j - 1 = h * g.rows + (j - 1) := by omega
    rw [e1] at hra'
    have e2 : j - (cnt + 1) = (j - 1) - cnt := by omega
    rw [e2] at hra'
    apply ih _ (j - 1) (by omega) (by omega) hra'
    · intro r h1 h2 h3
      exact horig r (by omega) (by omega) h3
    · omega

end
end LLFree

namespace LLFree
open Prog
section
variable (g : Geom)

/-- the forward loop of the multi-row `toggle` -/
theorem toggle_go_spec (h : Nat) (exp : BitVec 64) (m0 : Mem) (di : Nat) :
    ∀ (cnt : Nat) (m : Mem) (j : Nat), di ≤ j → j + cnt ≤ g.rows →
      RowsAre m0 m (h * g.rows + di) (h * g.rows + j) (~~~exp) →
      (∀ r, h * g.rows + di ≤ r → r < h * g.rows + j → r < m0.rows.size → m0.rows[r]? = some exp) →
      h * g.rows + j + cnt ≤ m0.rows.size →
      ((∀ r, j ≤ r → r < j + cnt → m0.rows[h * g.rows + r]? = some exp) →
        ∃ m', runSolo (Bitfield.toggle.go g h di exp cnt j) m = (m', .ok (.ok ())) ∧
          RowsAre m0 m' (h * g.rows + di) (h * g.rows + j + cnt) (~~~exp)) ∧
      ((¬ ∀ r, j ≤ r → r < j + cnt → m0.rows[h * g.rows + r]? = some exp) →
        runSolo (Bitfield.toggle.go g h di exp cnt j) m = (m0, .ok (.error .memory))) := by
  intro cnt
  induction cnt with
  | zero =>
    intro m j _ _ hra _ _
    have hall : ∀ r, j ≤ r → r < j + 0 → m0.rows[h * g.rows + r]? = some exp := fun r h1 h2 => by omega
    refine ⟨fun _ => ⟨m, by rw [Bitfield.toggle.go]; rfl, by simpa using hra⟩, fun hn => absurd hall hn⟩
  | succ cnt ih =>
    intro m j hdj hjc hra horig hsz
    rw [Bitfield.toggle.go]
    have hjm : j % g.rows = j := Nat.mod_eq_of_lt (by omega)
    -- the current value of row j is the original one
    have hcur : m.rows[h * g.rows + j]? = m0.rows[h * g.rows + j]? := by
      rw [hra.rows]
      have : ¬ (h * g.rows + di ≤ h * g.rows + j ∧ h * g.rows + j < h * g.rows + j ∧ h * g.rows + j < m0.rows.size) := by omega
      simp [this]
    obtain ⟨v, hv⟩ : ∃ v, m0.rows[h * g.rows + j]? = some v := ⟨_, Array.getElem?_eq_getElem (by omega)⟩
    simp only [runSolo_bind, rowIdx, hjm]
    rw [runSolo_casK_some _ _ (by simpa [hcur] using hv)]
    by_cases hve : v = exp
    · subst hve
      simp only [if_true, andThen_ok]
      have hra' := hra.step (lo := h * g.rows + di) (hi := h * g.rows + j) (by omega)
      have hnext := ih (m.set .row (h * g.rows + j) (~~~v)) (j + 1) (by omega) (by omega) hra'
        (by
          intro r h1 h2 h3
          by_cases hr : r = h * g.rows + j
          · subst hr; exact hv
          · exact horig r h1 (by omega) h3)
        (by omega)
      constructor
      · intro hall
        have hall' : ∀ r, j + 1 ≤ r → r < j + 1 + cnt → m0.rows[h * g.rows + r]? = some v :=
          fun r h1 h2 => hall r (by omega) (by omega)
        obtain ⟨m', hm', hra''⟩ := hnext.1 hall'
        refine ⟨m', hm', ?_⟩
        have : h * g.rows + (j + 1) + cnt = h * g.rows + j + (cnt + 1) := by omega
        rwa [this] at hra''
      · intro hall
        apply hnext.2
        intro hh
        apply hall
        intro r h1 h2
        by_cases hr : r = j
        · subst hr; exact hv
        · exact hh r (by omega) (by omega)
    · have hall : ¬ ∀ r, j ≤ r → r < j + (cnt + 1) → m0.rows[h * g.rows + r]? = some exp := by
        intro hh
        have := hh j (by omega) (by omega)
        rw [hv] at this; injection this with this; exact hve this
      refine ⟨fun hh => absurd hh hall, fun _ => ?_⟩
      simp only [hve, if_false, andThen_ok, runSolo_bind]
      have hu := toggle_undo_spec g h exp m0 di (Nat.le_refl _) (j - di) m j (by omega) (by omega)
        (by have : j - (j - di) = di := by omega
            rw [this]; exact hra)
        (by intro r h1 h2 h3
            exact horig r (by omega) h2 h3)
        (by omega)
      rw [hu]
      simp

variable {g}

/-- rows of a block hold one constant value ⇔ all its frames have the same allocation bit -/
theorem rows_const_iff (m : Mem) (R n : Nat) (b : Bool) (hsz : R + n ≤ m.rows.size) :
    (∀ r, R ≤ r → r < R + n → m.rows[r]? = some (if b then rowMax else 0)) ↔ blockAll m (R * 64) (n * 64) b := by
  unfold blockAll Mem.bit
  constructor
  · intro h i hi
    have h1 : R ≤ (R * 64 + i) / 64 ∧ (R * 64 + i) / 64 < R + n := by omega
    rw [h _ h1.1 h1.2]
    cases b
    · simp
    · simp [rowMax_getLsbD]; omega
  · intro h r h1 h2
    have hr : r < m.rows.size := by omega
    rw [Array.getElem?_eq_getElem hr]
    congr 1
    apply BitVec.eq_of_getLsbD_eq
    intro j hj
    have := h ((r - R) * 64 + j) (by
      have : (r - R) * 64 + j < (r - R + 1) * 64 := by omega
      have : (r - R + 1) * 64 ≤ n * 64 := Nat.mul_le_mul_right _ (by omega)
      omega)
    have e1 : (R * 64 + ((r - R) * 64 + j)) / 64 = r := by omega
    have e2 : (R * 64 + ((r - R) * 64 + j)) % 64 = j := by omega
    rw [e1, e2, Array.getElem?_eq_getElem hr] at this
    simp only at this
    rw [this]
    cases b
    · simp
    · simp [rowMax_getLsbD, hj]

theorem RowsAre.bitsSet {m0 m : Mem} {R n : Nat} {b : Bool} (h : RowsAre m0 m R (R + n) (if b then rowMax else 0))
    (hsz : R + n ≤ m0.rows.size) : BitsSet m0 m (R * 64) (n * 64) b := by
  intro f
  unfold Mem.bit
  rw [h.rows]
  by_cases hin : R ≤ f / 64 ∧ f / 64 < R + n ∧ f / 64 < m0.rows.size
  · have : R * 64 ≤ f ∧ f < R * 64 + n * 64 := by omega
    simp only [hin, and_self, if_true, this]
    cases b
    · simp
    · simp [rowMax_getLsbD]; omega
  · have : ¬ (R * 64 ≤ f ∧ f < R * 64 + n * 64) := by omega
    simp [hin, this]

variable (ok : GeomOk g)
include ok

/-- **`Bitfield::toggle`, orders above 6** (several rows with roll-back). -/
theorem toggle_rows_spec (m : Mem) (h i order : Nat) (expected : Bool) (ho : 6 < order) (hoh : order ≤ g.hugeOrder)
    (hal : (i % g.hugeFrames) % 2 ^ order = 0)
    (hrows : h * g.rows + g.rows ≤ m.rows.size) :
    let F := h * g.hugeFrames + i % g.hugeFrames
    if blockAll m F (2 ^ order) expected then
      ∃ m', runSolo (Bitfield.toggle g h i order expected) m = (m', .ok (.ok ())) ∧
        BitsSet m m' F (2 ^ order) (!expected) ∧ SameButBits m m'
    else runSolo (Bitfield.toggle g h i order expected) m = (m, .ok (.error .memory)) := by
  intro F
  have h1 : ¬ order ≤ 2 := by omega
  have h2 : ¬ order ≤ 6 := by omega
  -- number of rows and first row
  have hnum : 2 ^ order / 64 = 2 ^ (order - 6) := by
    have : 2 ^ order = 2 ^ (order - 6) * 64 := by
      rw [show (64 : Nat) = 2 ^ 6 from rfl, ← Nat.pow_add]; congr 1; omega
    rw [this, Nat.mul_div_cancel _ (by decide : 0 < 64)]
  have hnum64 : 2 ^ (order - 6) * 64 = 2 ^ order := by
    rw [show (64 : Nat) = 2 ^ 6 from rfl, ← Nat.pow_add]; congr 1; omega
  let di := (i / 64) % g.rows
  have hdi : di = (i % g.hugeFrames) / 64 := (ok.mod_hf_div i).symm
  -- the block starts at a row boundary and fits into the bitfield
  have hdvd : 2 ^ order ∣ i % g.hugeFrames := Nat.dvd_of_mod_eq_zero hal
  have h64dvd : 64 ∣ i % g.hugeFrames := Nat.dvd_trans ⟨2 ^ (order - 6), by rw [Nat.mul_comm]; exact hnum64.symm⟩ hdvd
  have hdi64 : di * 64 = i % g.hugeFrames := by rw [hdi]; exact Nat.div_mul_cancel h64dvd
  have hfit : i % g.hugeFrames + 2 ^ order ≤ g.hugeFrames := by
    obtain ⟨q, hq⟩ := hdvd
    have hlt : i % g.hugeFrames < g.hugeFrames := Nat.mod_lt _ ok.hf_pos
    have hHF : g.hugeFrames = 2 ^ (g.hugeOrder - order) * 2 ^ order := by
      show 2 ^ g.hugeOrder = _
      rw [← Nat.pow_add]; congr 1; omega
    rw [hq, hHF] at hlt ⊢
    have hq' : q < 2 ^ (g.hugeOrder - order) := by
      rw [Nat.mul_comm] at hlt
      exact Nat.lt_of_mul_lt_mul_right hlt
    have : (q + 1) * 2 ^ order ≤ 2 ^ (g.hugeOrder - order) * 2 ^ order := Nat.mul_le_mul_right _ hq'
    rw [Nat.add_mul, Nat.one_mul, Nat.mul_comm q] at this
    exact this
  have hdifit : di + 2 ^ (order - 6) ≤ g.rows := by
    have : (di + 2 ^ (order - 6)) * 64 ≤ g.rows * 64 := by
      rw [Nat.add_mul, hdi64, hnum64, ok.rows_mul]; exact hfit
    exact Nat.le_of_mul_le_mul_right this (by decide)
  have hF : F = (h * g.rows + di) * 64 := by
    show h * g.hugeFrames + i % g.hugeFrames = _
    rw [Nat.add_mul, hdi64, Nat.mul_assoc, ok.rows_mul]
  have hexp : (if expected then rowMax else (0 : BitVec 64)) = (if expected then rowMax else 0) := rfl
  have hnexp : ~~~(if expected then rowMax else (0 : BitVec 64)) = (if !expected then rowMax else 0) := by
    cases expected
    · simp [rowMax]
    · simp [rowMax]
  have hgo := toggle_go_spec g h (if expected then rowMax else 0) m di (2 ^ (order - 6)) m di (Nat.le_refl _) hdifit
    (by simpa using RowsAre.empty m (h * g.rows + di) _)
    (fun r h1 h2 _ => by omega) (by omega)
  have hblock : (∀ r, di ≤ r → r < di + 2 ^ (order - 6) → m.rows[h * g.rows + r]? = some (if expected then rowMax else 0)) ↔
      blockAll m F (2 ^ order) expected := by
    rw [hF, ← hnum64]
    rw [← rows_const_iff m (h * g.rows + di) (2 ^ (order - 6)) expected (by omega)]
    constructor
    · intro hh r h1 h2
      have := hh (r - h * g.rows) (by omega) (by omega)
      rwa [show h * g.rows + (r - h * g.rows) = r by omega] at this
    · intro hh r h1 h2
      exact hh (h * g.rows + r) (by omega) (by omega)
  unfold Bitfield.toggle
  simp only [h1, h2, if_false, hnum]
  by_cases hc : blockAll m F (2 ^ order) expected
  · simp only [hc, if_true]
    obtain ⟨m', hm', hra⟩ := hgo.1 (hblock.2 hc)
    refine ⟨m', hm', ?_, hra.same⟩
    rw [hF, ← hnum64]
    rw [hnexp] at hra
    have e : h * g.rows + di + 2 ^ (order - 6) = h * g.rows + di + 2 ^ (order - 6) := rfl
    exact RowsAre.bitsSet (by rwa [show h * g.rows + di + 2 ^ (order - 6) = (h * g.rows + di) + 2 ^ (order - 6) from rfl] at hra) (by omega)
  · simp only [hc, if_false]
    exact hgo.2 (fun hh => hc (hblock.1 hh))

end
end LLFree

namespace LLFree
open Prog

/-- **`Bitfield::toggle`** for every order up to the huge order, at frame level:
    it succeeds iff all frames of the (aligned) block have the expected allocation bit, then
    flips exactly those bits; otherwise it fails and leaves the memory unchanged. -/
theorem toggle_spec {g : Geom} (ok : GeomOk g) (m : Mem) (h i order : Nat) (expected : Bool)
    (hoh : order ≤ g.hugeOrder) (hal : (i % g.hugeFrames) % 2 ^ order = 0)
    (hrows : h * g.rows + g.rows ≤ m.rows.size) :
    let F := h * g.hugeFrames + i % g.hugeFrames
    if blockAll m F (2 ^ order) expected then
      ∃ m', runSolo (Bitfield.toggle g h i order expected) m = (m', .ok (.ok ())) ∧
        BitsSet m m' F (2 ^ order) (!expected) ∧ SameButBits m m'
    else runSolo (Bitfield.toggle g h i order expected) m = (m, .ok (.error .memory)) := by
  by_cases ho : order ≤ 6
  · apply toggle_small_spec ok m h i order expected ho hal
    have : (i % g.hugeFrames) / 64 < g.rows := by
      rw [ok.mod_hf_div]; exact Nat.mod_lt _ ok.rows_pos
    omega
  · exact toggle_rows_spec ok m h i order expected (by omega) hoh hal hrows

end LLFree
