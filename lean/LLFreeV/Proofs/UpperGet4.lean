/-
  `search_and_reserve`, `steal_local`, `demote_local` and the fallback against the upper invariant.
-/
import LLFreeV.Proofs.UpperSearch
namespace LLFree
open Prog

section
variable {c : Cfg} {H : Nat → Nat} {m : Mem}

theorem AllocEffect.trans_same {a b d : Mem} {f order : Nat} (h1 : SameAlloc a b) (h2 : AllocEffect c b d f order) :
    AllocEffect c a d f order := by
  constructor
  · intro x; rw [h2.1, Mem.allocated_congr c.geom a b h1.1 h1.2]
  · intro h; rw [h2.2, Mem.whole_congr a b h1.2]

theorem GetOutcome.trans_same {a b d : Mem} {order : Nat} {frame : Option Nat} {r : Res (Nat × Nat)}
    (h1 : SameAlloc a b) (h2 : GetOutcome c b order frame r d) : GetOutcome c a order frame r d := by
  cases r with
  | ok x =>
    obtain ⟨f, k⟩ := x
    obtain ⟨hk, hal, hallowed, hfx, heff⟩ := h2
    exact ⟨hk, hal, hallowed.congr h1, hfx, heff.trans_same h1⟩
  | error e =>
    obtain ⟨he, hs⟩ := h2
    exact ⟨he, h1.trans hs⟩

/-- an access function that keeps the invariant and returns a `GetOutcome` fits the search loops -/
theorem access_fits (order : Nat) (frame : Option Nat) (access : Nat → Prog (Res (Nat × Nat))) (n : Nat)
    (hacc : ∀ j m1, j < n → UpperInv0 c H m1 →
      Runs m1 (access j) (fun r m' => UpperInv0 c H m' ∧ GetOutcome c m1 order frame r m')) :
    ∀ j m1, j < n → (UpperInv0 c H m1 ∧ SameAlloc m m1) →
      Runs m1 (access j) (fun r m' => (r = .error .memory → UpperInv0 c H m' ∧ SameAlloc m m') ∧
        (r ≠ .error .memory → UpperInv0 c H m' ∧ GetOutcome c m order frame r m')) := by
  rintro j m1 hj ⟨inv1, same1⟩
  apply Runs.mono (hacc j m1 hj inv1)
  rintro r m' ⟨inv', out⟩
  refine ⟨?_, fun _ => ⟨inv', out.trans_same same1⟩⟩
  intro hr; subst hr
  exact ⟨inv', same1.trans out.2⟩

theorem search_end (order : Nat) (frame : Option Nat) :
    ∀ m1, (UpperInv0 c H m1 ∧ SameAlloc m m1) → UpperInv0 c H m1 ∧ GetOutcome c m order frame (.error .memory) m1 :=
  fun _ h => ⟨h.1, rfl, h.2⟩

theorem search_load : ∀ m1, (UpperInv0 c H m1 ∧ SameAlloc m m1) → ∀ j, j < c.ntrees → ∃ t : Tree, m1.trees[j]? = some t :=
  fun _ h j hj => h.1.tree_get j hj

/-- **`search_and_reserve`** -/
theorem searchAndReserve_spec (ok : CfgOk c) (inv : UpperInv0 c H m) (order cls loc start : Nat)
    (hcls : cls < 8) (hto : order ≤ c.geom.treeOrder) (rng : Nat × Nat) (hr : c.slotRange cls = some rng) (hpos : 0 < rng.2)
    (hnt : 0 < c.ntrees) :
    Runs m (searchAndReserve c order cls loc start) (fun r m' => UpperInv0 c H m' ∧ GetOutcome c m order none r m') := by
  have hacc := access_fits (H := H) (m := m) order none (fun i => reserveOrSteal c i order cls loc) c.ntrees
    (fun j m1 hj inv1 => reserveOrSteal_spec ok inv1 j order cls loc hj hcls hto rng hr hpos)
  unfold searchAndReserve
  simp only
  have second : ∀ m1, UpperInv0 c H m1 ∧ SameAlloc m m1 →
      Runs m1 (Trees.searchBest c.tf c.ntrees 8
        (start / nextPow2 (2 * max (c.ntrees / 16) 4) * nextPow2 (2 * max (c.ntrees / 16) 4)) 0 c.ntrees
        (fun t f => match rateBase c cls order t f with
          | .match _ => .match 255
          | .demote => if f = c.tf then .match 255 else .demote
          | p => p) (fun i => reserveOrSteal c i order cls loc))
        (fun r m' => UpperInv0 c H m' ∧ GetOutcome c m order none r m') := by
    intro m1 h1
    exact searchBest_spec c.tf c.ntrees 8 _ _ _ _ _ 0 c.ntrees hacc (search_end (H := H) order none) (search_load (H := H)) m1 h1 (Or.inr hnt)
  by_cases ho : order < c.g.hugeOrder
  · simp only [ho, if_true]
    apply Runs.bind (searchBest_spec c.tf c.ntrees 3 _ _ _ _ _ 1 (max (c.ntrees / 16) 4) hacc (search_end (H := H) order none) (search_load (H := H))
      m ⟨inv, SameAlloc.refl _⟩ (Or.inr hnt))
    rintro r m1 ⟨inv1, out1⟩
    cases r with
    | ok v => exact Runs.pure ⟨inv1, out1⟩
    | error e =>
      obtain ⟨rfl, same1⟩ := out1
      exact second m1 ⟨inv1, same1⟩
  · simp only [ho, if_false]
    apply Runs.bind (Runs.pure (Q := fun r m' => r = .error .memory ∧ m = m') ⟨rfl, rfl⟩)
    rintro _ _ ⟨rfl, rfl⟩
    exact second m ⟨inv, SameAlloc.refl _⟩

/-- what `steal_any` / `demote_any` hand over: `n` frames of a reserved tree, now unaccounted -/
def Stolen (c : Cfg) (H : Nat → Nat) (m : Mem) (tree : Option Nat) (n : Nat) (row : Nat) (m' : Mem) : Prop :=
  (∀ t, tree = some t → row / c.geom.treeRows = t) ∧ row / c.geom.treeRows < c.ntrees ∧
  UpperInv c H (gset (fun _ => 0) (row / c.geom.treeRows) n) (fun _ => False) m' ∧ SameAlloc m m'

theorem stealAny_slots_spec (ok : CfgOk c) (inv : UpperInv0 c H m) (index : Nat) (tree : Option Nat) (n tc : Nat)
    (htc : tc < 8) (rng : Nat × Nat) (hr : c.slotRange tc = some rng) (cnt j : Nat) (hcnt : cnt = 0 ∨ 0 < rng.2) :
    Runs m (Locals.stealAny.slots c tree n index tc rng cnt j) (fun r m' => match r with
      | none => m = m'
      | some res => res.cls = tc ∧ Stolen c H m tree n res.row m') := by
  induction cnt generalizing j with
  | zero =>
    unfold Locals.stealAny.slots
    exact Runs.pure rfl
  | succ cnt ih =>
    have hpos : 0 < rng.2 := by rcases hcnt with h | h; cases h; exact h
    unfold Locals.stealAny.slots
    simp only
    apply Runs.bind (locals_get_spec ok inv tc ((index + j) % rng.2) tree n htc rng hr (Nat.mod_lt _ hpos))
    rintro r m1 hr1
    cases r with
    | ok row =>
      obtain ⟨htree, hlt, inv1, same1, _, _⟩ := hr1
      apply Runs.pure
      refine ⟨rfl, htree, hlt, inv1.congrP _ ?_, same1⟩
      intro x
      by_cases e : x = row / c.geom.treeRows
      · subst e; simp
      · simp [gset, e]
    | error res =>
      obtain ⟨rfl, _⟩ := hr1
      exact ih (j + 1) (Or.inr hpos)

theorem stealAny_classes_spec (ok : CfgOk c) (inv : UpperInv0 c H m) (cls : Nat) (index : Nat) (tree : Option Nat) (n : Nat)
    (cnt i : Nat) :
    Runs m (Locals.stealAny.classes c cls tree n index cnt i) (fun r m' => match r with
      | none => m = m'
      | some res => res.cls < 8 ∧ Stolen c H m tree n res.row m') := by
  induction cnt generalizing i with
  | zero =>
    unfold Locals.stealAny.classes
    exact Runs.pure rfl
  | succ cnt ih =>
    unfold Locals.stealAny.classes
    simp only
    have htc : (i + cls) % 8 < 8 := Nat.mod_lt _ (by decide)
    cases hr : c.slotRange ((i + cls) % 8) with
    | none => exact ih (i + 1)
    | some rng =>
      simp only
      have hslots := stealAny_slots_spec ok inv index tree n ((i + cls) % 8) htc rng hr rng.2 0
        (by rcases Nat.eq_zero_or_pos rng.2 with h | h; exact Or.inl h; exact Or.inr h)
      have cont : Runs m (do
            let r ← Locals.stealAny.slots c tree n index ((i + cls) % 8) rng rng.2 0
            match r with
            | some x => return some x
            | none => Locals.stealAny.classes c cls tree n index cnt (i + 1))
          (fun r m' => match r with
            | none => m = m'
            | some res => res.cls < 8 ∧ Stolen c H m tree n res.row m') := by
        apply Runs.bind hslots
        rintro r m1 hr1
        cases r with
        | none => subst hr1; exact ih (i + 1)
        | some x =>
          obtain ⟨hx, hst⟩ := hr1
          exact Runs.pure ⟨by rw [hx]; exact htc, hst⟩
      cases hp : c.policy cls ((i + cls) % 8) n with
      | steal => exact cont
      | «match» q => exact cont
      | demote => exact ih (i + 1)
      | invalid => exact ih (i + 1)

/-- **`steal_local`** -/
theorem stealLocal_spec (ok : CfgOk c) (inv : UpperInv0 c H m) (r : Request) (frame : Option Nat)
    (hto : r.order ≤ c.geom.treeOrder) (hframe : ∀ x, frame = some x → BlockOk c x r.order) :
    Runs m (stealLocal c r frame) (fun res m' => UpperInv0 c H m' ∧ GetOutcome c m r.order frame res m') := by
  have okg := ok.geom.toGeomOk
  unfold stealLocal Locals.stealAny
  apply Runs.bind (stealAny_classes_spec ok inv r.cls (r.loc.getD 0) (frame.map (· / c.tf)) (2 ^ r.order) 8 0)
  rintro s m1 hs
  cases s with
  | none => subst hs; exact Runs.pure ⟨inv, rfl, SameAlloc.refl _⟩
  | some res =>
    obtain ⟨hk, htree, hlt, inv1, same1⟩ := hs
    simp only
    have hfr : ∀ x, frame = some x → BlockOk c x r.order ∧ x / c.geom.treeFrames = res.row / c.geom.treeRows := by
      intro x hx
      refine ⟨hframe x hx, ?_⟩
      have := htree (x / c.tf) (by rw [hx]; rfl)
      exact this.symm
    apply Runs.bind (lower_get_upper ok inv1 res.row r.order (res.row / c.geom.treeRows) frame hto hlt (by simp)
      (fun _ => row_tree okg res.row) hfr)
    rintro lr m2 hlr
    cases lr with
    | ok f =>
      obtain ⟨hft, hal, hallowed, post, hfx, inv2⟩ := hlr
      apply Runs.pure
      refine ⟨inv2.congrP _ ?_, hk, hal, hallowed.congr same1, hfx, AllocEffect.of_post same1 post (SameAlloc.refl _)⟩
      intro x
      by_cases e : x = res.row / c.geom.treeRows
      · subst e; simp
      · simp [gset, e]
    | error e =>
      obtain ⟨rfl, rfl, _⟩ := hlr
      simp only
      apply Runs.bind (tput_spec ok inv1 (res.row / c.g.treeRows) (2 ^ r.order) hlt (by simp))
      rintro _ m3 ⟨inv3, same3⟩
      apply Runs.pure
      refine ⟨inv3.congrP _ ?_, rfl, same1.trans same3⟩
      intro x
      by_cases e : x = res.row / c.geom.treeRows
      · subst e; simp
      · simp [gset, e]

end
end LLFree
