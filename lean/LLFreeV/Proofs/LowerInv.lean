/-
  The invariant of the lower allocator's metadata and the allocation status it encodes.
-/
import LLFreeV.Proofs.ToggleRows
namespace LLFree
open Prog

/-- number of free (zero) frames of huge frame `h` -/
def zerosIn (g : Geom) (m : Mem) (h : Nat) : Nat :=
  (List.range g.hugeFrames).countP (fun i => !m.bit (h * g.hugeFrames + i))

/-- frame `f` is allocated: its huge frame is allocated as a whole, or its bit is set -/
def Mem.allocated (g : Geom) (m : Mem) (f : Nat) : Bool :=
  Huge.isHuge (m.hugeE (f / g.hugeFrames)) || m.bit f

/-- huge frame `h` is allocated as one huge frame -/
def Mem.whole (m : Mem) (h : Nat) : Bool := Huge.isHuge (m.hugeE h)

structure LowerInv (c : Cfg) (m : Mem) : Prop where
  rowsSize : m.rows.size = c.nhuge * c.geom.rows
  hugeSize : m.huge.size = c.ntrees * c.geom.treeHuge
  /-- table entries beyond the last bitfield are 0 -/
  beyond : ∀ h, c.nhuge ≤ h → m.hugeE h = 0
  /-- a huge allocation has an empty bitfield and lies inside the managed range -/
  marker : ∀ h, h < c.nhuge → Huge.isHuge (m.hugeE h) = true →
    (h + 1) * c.geom.hugeFrames ≤ c.frames ∧ ∀ i, i < c.geom.hugeFrames → m.bit (h * c.geom.hugeFrames + i) = false
  /-- otherwise the counter is the number of zero bits -/
  count : ∀ h, h < c.nhuge → Huge.isHuge (m.hugeE h) = false → m.hugeE h = zerosIn c.geom m h
  /-- frames outside the managed range are marked allocated -/
  outside : ∀ f, c.frames ≤ f → m.bit f = true

/-! ### counting zero bits -/

theorem countP_range_eq_of_eq (N : Nat) (p q : Nat → Bool) (h : ∀ i, i < N → p i = q i) :
    (List.range N).countP p = (List.range N).countP q := by
  apply List.countP_congr
  intro i hi
  rw [h i (List.mem_range.1 hi)]

/-- changing a predicate from false to true on `n` consecutive indices raises the count by `n` -/
theorem countP_range_raise (N a n : Nat) (p q : Nat → Bool) (han : a + n ≤ N)
    (hin : ∀ i, a ≤ i → i < a + n → p i = false ∧ q i = true)
    (hout : ∀ i, i < N → ¬ (a ≤ i ∧ i < a + n) → q i = p i) :
    (List.range N).countP q = (List.range N).countP p + n := by
  have hsplit : List.range N = List.range' 0 a ++ (List.range' a n ++ List.range' (a + n) (N - (a + n))) := by
    rw [List.range_eq_range']
    have e2 : List.range' a n ++ List.range' (a + n) (N - (a + n)) = List.range' a (n + (N - (a + n))) := by
      rw [List.range'_append_1]
    have e3 : List.range' 0 a ++ List.range' a (n + (N - (a + n))) = List.range' 0 (a + (n + (N - (a + n)))) := by
      have := List.range'_append_1 (s := 0) (m := a) (n := n + (N - (a + n)))
      simpa using this
    rw [e2, e3]
    congr 1; omega
  rw [hsplit]
  simp only [List.countP_append]
  have h1 : (List.range' 0 a).countP q = (List.range' 0 a).countP p := by
    apply List.countP_congr
    intro i hi
    have := List.mem_range'_1.1 hi
    rw [hout i (by omega) (by omega)]
  have h3 : (List.range' (a + n) (N - (a + n))).countP q = (List.range' (a + n) (N - (a + n))).countP p := by
    apply List.countP_congr
    intro i hi
    have := List.mem_range'_1.1 hi
    rw [hout i (by omega) (by omega)]
  have h2q : (List.range' a n).countP q = n := by
    have : (List.range' a n).countP q = (List.range' a n).length := by
      rw [List.countP_eq_length]
      intro i hi
      have := List.mem_range'_1.1 hi
      exact (hin i this.1 (by omega)).2
    rw [this, List.length_range']
  have h2p : (List.range' a n).countP p = 0 := by
    rw [List.countP_eq_zero]
    intro i hi
    have := List.mem_range'_1.1 hi
    simp [(hin i this.1 (by omega)).1]
  rw [h1, h3, h2q, h2p]; omega

section
variable {g : Geom}

theorem zerosIn_le (m : Mem) (h : Nat) : zerosIn g m h ≤ g.hugeFrames := by
  unfold zerosIn
  have := List.countP_le_length (p := fun i => !m.bit (h * g.hugeFrames + i)) (l := List.range g.hugeFrames)
  simpa using this

/-- a block of huge frame `h` becomes free: the zero count rises by its size -/
theorem zerosIn_free (m m' : Mem) (h o n : Nat) (hfit : o + n ≤ g.hugeFrames)
    (hset : BitsSet m m' (h * g.hugeFrames + o) n false) (hall : blockAll m (h * g.hugeFrames + o) n true) :
    zerosIn g m' h = zerosIn g m h + n := by
  unfold zerosIn
  apply countP_range_raise g.hugeFrames o n _ _ hfit
  · intro i h1 h2
    have hb := hall (i - o) (by omega)
    have e : h * g.hugeFrames + o + (i - o) = h * g.hugeFrames + i := by omega
    rw [e] at hb
    have hs := hset (h * g.hugeFrames + i)
    have hin : h * g.hugeFrames + o ≤ h * g.hugeFrames + i ∧ h * g.hugeFrames + i < h * g.hugeFrames + o + n := by omega
    simp only [hin, and_self, if_true] at hs
    simp [hb, hs]
  · intro i _ hnot
    have hs := hset (h * g.hugeFrames + i)
    have hin : ¬ (h * g.hugeFrames + o ≤ h * g.hugeFrames + i ∧ h * g.hugeFrames + i < h * g.hugeFrames + o + n) := by omega
    simp only [hin, if_false] at hs
    simp [hs]

/-- a block of huge frame `h` becomes allocated: the zero count drops by its size -/
theorem zerosIn_alloc (m m' : Mem) (h o n : Nat) (hfit : o + n ≤ g.hugeFrames)
    (hset : BitsSet m m' (h * g.hugeFrames + o) n true) (hall : blockAll m (h * g.hugeFrames + o) n false) :
    zerosIn g m h = zerosIn g m' h + n := by
  unfold zerosIn
  apply countP_range_raise g.hugeFrames o n _ _ hfit
  · intro i h1 h2
    have hb := hall (i - o) (by omega)
    have e : h * g.hugeFrames + o + (i - o) = h * g.hugeFrames + i := by omega
    rw [e] at hb
    have hs := hset (h * g.hugeFrames + i)
    have hin : h * g.hugeFrames + o ≤ h * g.hugeFrames + i ∧ h * g.hugeFrames + i < h * g.hugeFrames + o + n := by omega
    simp only [hin, and_self, if_true] at hs
    simp [hb, hs]
  · intro i _ hnot
    have hs := hset (h * g.hugeFrames + i)
    have hin : ¬ (h * g.hugeFrames + o ≤ h * g.hugeFrames + i ∧ h * g.hugeFrames + i < h * g.hugeFrames + o + n) := by omega
    simp only [hin, if_false] at hs
    simp [hs]

/-- bits of other huge frames are untouched by a change inside huge frame `h` -/
theorem zerosIn_other (m m' : Mem) (h h' o n : Nat) (v : Bool) (hfit : o + n ≤ g.hugeFrames) (hne : h' ≠ h)
    (hset : BitsSet m m' (h * g.hugeFrames + o) n v) : zerosIn g m' h' = zerosIn g m h' := by
  unfold zerosIn
  apply countP_range_eq_of_eq
  intro i hi
  have hs := hset (h' * g.hugeFrames + i)
  have hin : ¬ (h * g.hugeFrames + o ≤ h' * g.hugeFrames + i ∧ h' * g.hugeFrames + i < h * g.hugeFrames + o + n) := by
    intro hh
    rcases Nat.lt_or_gt_of_ne hne with hlt | hgt
    · have : (h' + 1) * g.hugeFrames ≤ h * g.hugeFrames := Nat.mul_le_mul_right _ hlt
      rw [Nat.add_mul, Nat.one_mul] at this; omega
    · have : (h + 1) * g.hugeFrames ≤ h' * g.hugeFrames := Nat.mul_le_mul_right _ hgt
      rw [Nat.add_mul, Nat.one_mul] at this; omega
  simp only [hin, if_false] at hs
  rw [hs]

/-- if every frame of huge frame `h` is free, the count is the full size (and conversely) -/
theorem zerosIn_eq_full_iff (m : Mem) (h : Nat) :
    zerosIn g m h = g.hugeFrames ↔ ∀ i, i < g.hugeFrames → m.bit (h * g.hugeFrames + i) = false := by
  unfold zerosIn
  have hlen : (List.range g.hugeFrames).length = g.hugeFrames := List.length_range
  constructor
  · intro hc i hi
    have : (List.range g.hugeFrames).countP (fun i => !m.bit (h * g.hugeFrames + i)) = (List.range g.hugeFrames).length := by
      rw [hlen]; exact hc
    rw [List.countP_eq_length] at this
    have := this i (List.mem_range.2 hi)
    simpa using this
  · intro hall
    have : (List.range g.hugeFrames).countP (fun i => !m.bit (h * g.hugeFrames + i)) = (List.range g.hugeFrames).length := by
      rw [List.countP_eq_length]
      intro i hi
      simp [hall i (List.mem_range.1 hi)]
    rw [this, hlen]

end
end LLFree

namespace LLFree
section
variable {c : Cfg}

theorem div_hf_mul_add (g : Geom) (hpos : 0 < g.hugeFrames) (h i : Nat) (hi : i < g.hugeFrames) :
    (h * g.hugeFrames + i) / g.hugeFrames = h := by
  rw [Nat.mul_comm, Nat.mul_add_div hpos, Nat.div_eq_of_lt hi, Nat.add_zero]

/-- Re-establishing the invariant after a change confined to huge frame `h`. -/
theorem LowerInv.of_local (hpos : 0 < c.geom.hugeFrames) {m : Mem} (inv : LowerInv c m) (m' : Mem) (h : Nat)
    (hrs : m'.rows.size = m.rows.size) (hhs : m'.huge.size = m.huge.size)
    (hentry : ∀ h', h' ≠ h → m'.hugeE h' = m.hugeE h')
    (hbits : ∀ f, f / c.geom.hugeFrames ≠ h → m'.bit f = m.bit f)
    (hh : h < c.nhuge)
    (hmark : Huge.isHuge (m'.hugeE h) = true →
      (h + 1) * c.geom.hugeFrames ≤ c.frames ∧ ∀ i, i < c.geom.hugeFrames → m'.bit (h * c.geom.hugeFrames + i) = false)
    (hcount : Huge.isHuge (m'.hugeE h) = false → m'.hugeE h = zerosIn c.geom m' h)
    (hout : ∀ f, c.frames ≤ f → f / c.geom.hugeFrames = h → m'.bit f = true) : LowerInv c m' := by
  have hz : ∀ h', h' ≠ h → zerosIn c.geom m' h' = zerosIn c.geom m h' := by
    intro h' hne
    unfold zerosIn
    apply countP_range_eq_of_eq
    intro i hi
    rw [hbits]
    rw [div_hf_mul_add c.geom hpos h' i hi]; exact hne
  constructor
  · rw [hrs, inv.rowsSize]
  · rw [hhs, inv.hugeSize]
  · intro h' hh'
    have : h' ≠ h := by omega
    rw [hentry h' this]; exact inv.beyond h' hh'
  · intro h' hh' hm'
    by_cases e : h' = h
    · subst e; exact hmark hm'
    · rw [hentry h' e] at hm'
      obtain ⟨h1, h2⟩ := inv.marker h' hh' hm'
      refine ⟨h1, fun i hi => ?_⟩
      rw [hbits]
      · exact h2 i hi
      · rw [div_hf_mul_add c.geom hpos h' i hi]; exact e
  · intro h' hh' hm'
    by_cases e : h' = h
    · subst e; exact hcount hm'
    · rw [hentry h' e] at hm' ⊢
      rw [hz h' e]; exact inv.count h' hh' hm'
  · intro f hf
    by_cases e : f / c.geom.hugeFrames = h
    · exact hout f hf e
    · rw [hbits f e]; exact inv.outside f hf

end
end LLFree

namespace LLFree
section
variable {c : Cfg}

/-- a huge frame whose counter says "entirely free" lies inside the managed range -/
theorem LowerInv.full_in_range (hpos : 0 < c.geom.hugeFrames) {m : Mem} (inv : LowerInv c m) (h : Nat) (hh : h < c.nhuge)
    (hn : Huge.isHuge (m.hugeE h) = false) (hfull : m.hugeE h = c.geom.hugeFrames) :
    (h + 1) * c.geom.hugeFrames ≤ c.frames ∧ ∀ i, i < c.geom.hugeFrames → m.bit (h * c.geom.hugeFrames + i) = false := by
  have hz : zerosIn c.geom m h = c.geom.hugeFrames := by rw [← inv.count h hh hn]; exact hfull
  have hall := (zerosIn_eq_full_iff m h).1 hz
  refine ⟨?_, hall⟩
  rw [Nat.add_mul, Nat.one_mul]
  apply Nat.le_of_not_lt
  intro hlt
  -- the last frame of the huge frame would be outside and hence set
  have := inv.outside (h * c.geom.hugeFrames + (c.geom.hugeFrames - 1)) (by omega)
  rw [hall (c.geom.hugeFrames - 1) (by omega)] at this
  cases this

/-- Re-establishing the invariant after huge entries changed between "entirely free" and
    "allocated as a whole" (bits untouched). -/
theorem LowerInv.of_huge_change (hpos : 0 < c.geom.hugeFrames) (h16 : c.geom.hugeFrames < 65535)
    {m : Mem} (inv : LowerInv c m) (m' : Mem)
    (hbits : ∀ f, m'.bit f = m.bit f) (hrs : m'.rows.size = m.rows.size) (hhs : m'.huge.size = m.huge.size)
    (hent : ∀ h, m'.hugeE h = m.hugeE h ∨
      (h < c.nhuge ∧ Huge.isHuge (m.hugeE h) = true ∧ m'.hugeE h = c.geom.hugeFrames) ∨
      (h < c.nhuge ∧ m.hugeE h = c.geom.hugeFrames ∧ m'.hugeE h = HugeMarker)) : LowerInv c m' := by
  have hz : ∀ h, zerosIn c.geom m' h = zerosIn c.geom m h := by
    intro h; unfold zerosIn; apply countP_range_eq_of_eq; intro i _; rw [hbits]
  have hnotm : Huge.isHuge c.geom.hugeFrames = false := by
    simp [Huge.isHuge, HugeMarker]; omega
  constructor
  · rw [hrs, inv.rowsSize]
  · rw [hhs, inv.hugeSize]
  · intro h hh
    rcases hent h with e | ⟨h1, _⟩ | ⟨h1, _⟩
    · rw [e]; exact inv.beyond h hh
    · omega
    · omega
  · intro h hh hm
    rcases hent h with e | ⟨_, _, e⟩ | ⟨_, hfull, _⟩
    · rw [e] at hm
      obtain ⟨h1, h2⟩ := inv.marker h hh hm
      exact ⟨h1, fun i hi => by rw [hbits]; exact h2 i hi⟩
    · rw [e, hnotm] at hm; cases hm
    · have hn : Huge.isHuge (m.hugeE h) = false := by rw [hfull]; exact hnotm
      obtain ⟨h1, h2⟩ := inv.full_in_range hpos h hh hn hfull
      exact ⟨h1, fun i hi => by rw [hbits]; exact h2 i hi⟩
  · intro h hh hm
    rw [hz]
    rcases hent h with e | ⟨_, hwas, e⟩ | ⟨_, _, e⟩
    · rw [e] at hm ⊢; exact inv.count h hh hm
    · rw [e]
      exact ((zerosIn_eq_full_iff m h).2 (inv.marker h hh hwas).2).symm
    · rw [e] at hm; simp [Huge.isHuge] at hm
  · intro f hf; rw [hbits]; exact inv.outside f hf

end
end LLFree
