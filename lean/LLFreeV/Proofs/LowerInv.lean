/-
  The invariant of the lower allocator's metadata and the allocation status it encodes.
-/
import LLFreeV.Proofs.ToggleRows
namespace LLFree
open Prog

/-- number of free (zero) frames of huge frame `h` -/
def zerosIn (g : Geom) (m : Mem) (h : Nat) : Nat :=
  (List.range g.hugeFrames).countP (fun i => !m.bit (h * g.hugeFrames + i))

/-- frame `f` is allocated: its huge frame is allocated as a whole, or its bit is set -/
def Mem.allocated (g : Geom) (m : Mem) (f : Nat) : Bool :=
  Huge.isHuge (m.hugeE (f / g.hugeFrames)) || m.bit f

/-- huge frame `h` is allocated as one huge frame -/
def Mem.whole (m : Mem) (h : Nat) : Bool := Huge.isHuge (m.hugeE h)

structure LowerInv (c : Cfg) (m : Mem) : Prop where
  rowsSize : m.rows.size = c.nhuge * c.geom.rows
  hugeSize : m.huge.size = c.ntrees * c.geom.treeHuge
  /-- table entries beyond the last bitfield are 0 -/
  beyond : ∀ h, c.nhuge ≤ h → m.hugeE h = 0
  /-- a huge allocation has an empty bitfield and lies inside the managed range -/
  marker : ∀ h, h < c.nhuge → Huge.isHuge (m.hugeE h) = true →
    (h + 1) * c.geom.hugeFrames ≤ c.frames ∧ ∀ i, i < c.geom.hugeFrames → m.bit (h * c.geom.hugeFrames + i) = false
  /-- otherwise the counter is the number of zero bits -/
  count : ∀ h, h < c.nhuge → Huge.isHuge (m.hugeE h) = false → m.hugeE h = zerosIn c.geom m h
  /-- frames outside the managed range are marked allocated -/
  outside : ∀ f, c.frames ≤ f → m.bit f = true

/-! ### counting zero bits -/

theorem countP_range_eq_of_eq (N : Nat) (p q : Nat → Bool) (h : ∀ i, i < N → p i = q i) :
    (List.range N).countP p = (List.range N).countP q := by
  apply List.countP_congr
  intro i hi
  rw [h i (List.mem_range.1 hi)]

/-- changing a predicate from false to true on `n` consecutive indices raises the count by `n` -/
theorem countP_range_raise (N a n : Nat) (p q : Nat → Bool) (han : a + n ≤ N)
    (hin : ∀ i, a ≤ i → i < a + n → p i = false ∧ q i = true)
    (hout : ∀ i, i < N → ¬ (a ≤ i ∧ i < a + n) → q i = p i) :
    (List.range N).countP q = (List.range N).countP p + n := by
  have hsplit : List.range N = List.range' 0 a ++ (List.range' a n ++ List.range' (a + n) (N - (a + n))) := by
    rw [List.range_eq_range']
    have e2 : List.range' a n ++ List.range' (a + n) (N - (a + n)) = List.range' a (n + (N - (a + n))) := by
      rw [List.range'_append_1]
    have e3 : List.range' 0 a ++ List.range' a (n + (N - (a + n))) = List.range' 0 (a + (n + (N - (a + n)))) := by
      have := List.range'_append_1 (s := 0) (m := a) (n := n + (N - (a + n)))
      simpa using this
    rw [e2, e3]
    congr 1; omega
  rw [hsplit]
  simp only [List.countP_append]
  have h1 : (List.range' 0 a).countP q = (List.range' 0 a).countP p := by
    apply List.countP_congr
    intro i hi
    have := List.mem_range'_1.1 hi
    rw [hout i (by omega) (by omega)]
  have h3 : (List.range' (a + n) (N - (a + n))).countP q = (List.range' (a + n) (N - (a + n))).countP p := by
    apply List.countP_congr
    intro i hi
    have := List.mem_range'_1.1 hi
    rw [hout i (by omega) (by omega)]
  have h2q : (List.range' a n).countP q = n := by
    have : (List.range' a n).countP q = (List.range' a n).length := by
      rw [List.countP_eq_length]
      intro i hi
      have := List.mem_range'_1.1 hi
      exact (hin i this.1 (by omega)).2
    rw [this, List.length_range']
  have h2p : (List.range' a n).countP p = 0 := by
    rw [List.countP_eq_zero]
    intro i hi
    have := List.mem_range'_1.1 hi
    simp [(hin i this.1 (by omega)).1]
  rw [h1, h3, h2q, h2p]; omega

section
variable {g : Geom}

theorem zerosIn_le (m : Mem) (h : Nat) : zerosIn g m h ≤ g.hugeFrames := by
  unfold zerosIn
  have := List.countP_le_length (p := fun i => !m.bit (h * g.hugeFrames + i)) (l := List.range g.hugeFrames)
  simpa using this

/-- a block of huge frame `h` becomes free: the zero count rises by its size -/
theorem zerosIn_free (m m' : Mem) (h o n : Nat) (hfit : o + n ≤ g.hugeFrames)
    (hset : BitsSet m m' (h * g.hugeFrames + o) n false) (hall : blockAll m (h * g.hugeFrames + o) n true) :
    zerosIn g m' h = zerosIn g m h + n := by
  unfold zerosIn
  apply countP_range_raise g.hugeFrames o n _ _ hfit
  · intro i h1 h2
    have hb := hall (i - o) (by omega)
    have e : h * g.hugeFrames + o + (i - o) = h * g.hugeFrames + i := by omega
    rw [e] at hb
    have hs := hset (h * g.hugeFrames + i)
    have hin : h * g.hugeFrames + o ≤ h * g.hugeFrames + i ∧ h * g.hugeFrames + i < h * g.hugeFrames + o + n := by omega
    simp only [hin, and_self, if_true] at hs
    simp [hb, hs]
  · intro i _ hnot
    have hs := hset (h * g.hugeFrames + i)
    have hin : ¬ (h * g.hugeFrames + o ≤ h * g.hugeFrames + i ∧ h * g.hugeFrames + i < h * g.hugeFrames + o + n) := by omega
    simp only [hin, if_false] at hs
    simp [hs]

/-- a block of huge frame `h` becomes allocated: the zero count drops by its size -/
theorem zerosIn_alloc (m m' : Mem) (h o n : Nat) (hfit : o + n ≤ g.hugeFrames)
    (hset : BitsSet m m' (h * g.hugeFrames + o) n true) (hall : blockAll m (h * g.hugeFrames + o) n false) :
    zerosIn g m h = zerosIn g m' h + n := by
  unfold zerosIn
  apply countP_range_raise g.hugeFrames o n _ _ hfit
  · intro i h1 h2
    have hb := hall (i - o) (by omega)
    have e : h * g.hugeFrames + o + (i - o) = h * g.hugeFrames + i := by omega
    rw [e] at hb
    have hs := hset (h * g.hugeFrames + i)
    have hin : h * g.hugeFrames + o ≤ h * g.hugeFrames + i ∧ h * g.hugeFrames + i < h * g.hugeFrames + o + n := by omega
    simp only [hin, and_self, if_true] at hs
    simp [hb, hs]
  · intro i _ hnot
    have hs := hset (h * g.hugeFrames + i)
    have hin : ¬ (h * g.hugeFrames + o ≤ h * g.hugeFrames + i ∧ h * g.hugeFrames + i < h * g.hugeFrames + o + n) := by omega
    simp only [hin, if_false] at hs
    simp [hs]

/-- bits of other huge frames are untouched by a change inside huge frame `h` -/
theorem zerosIn_other (m m' : Mem) (h h' o n : Nat) (v : Bool) (hfit : o + n ≤ g.hugeFrames) (hne : h' ≠ h)
    (hset : BitsSet m m' (h * g.hugeFrames + o) n v) : zerosIn g m' h' = zerosIn g m h' := by
  unfold zerosIn
  apply countP_range_eq_of_eq
  intro i hi
  have hs := hset (h' * g.hugeFrames + i)
  have hin : ¬ (h * g.hugeFrames + o ≤ h' * g.hugeFrames + i ∧ h' * g.hugeFrames + i < h * g.hugeFrames + o + n) := by
    intro hh
    rcases Nat.lt_or_gt_of_ne hne with hlt | hgt
    · have : (h' + 1) * g.hugeFrames ≤ h * g.hugeFrames := Nat.mul_le_mul_right _ hlt
      rw [Nat.add_mul, Nat.one_mul] at this; omega
    · have : (h + 1) * g.hugeFrames ≤ h' * g.hugeFrames := Nat.mul_le_mul_right _ hgt
      rw [Nat.add_mul, Nat.one_mul] at this; omega
  simp only [hin, if_false] at hs
  rw [hs]

/-- if every frame of huge frame `h` is free, the count is the full size (and conversely) -/
theorem zerosIn_eq_full_iff (m : Mem) (h : Nat) :
    zerosIn g m h = g.hugeFrames ↔ ∀ i, i < g.hugeFrames → m.bit (h * g.hugeFrames + i) = false := by
  unfold zerosIn
  have hlen : (List.range g.hugeFrames).length = g.hugeFrames := List.length_range
  constructor
  · intro hc i hi
    have : (List.range g.hugeFrames).countP (fun i => !m.bit (h * g.hugeFrames + i)) = (List.range g.hugeFrames).length := by
      rw [hlen]; exact hc
    rw [List.countP_eq_length] at this
    have := this i (List.mem_range.2 hi)
    simpa using this
  · intro hall
    have : (List.range g.hugeFrames).countP (fun i => !m.bit (h * g.hugeFrames + i)) = (List.range g.hugeFrames).length := by
      rw [List.countP_eq_length]
      intro i hi
      simp [hall i (List.mem_range.1 hi)]
    rw [this, hlen]

end
end LLFree
