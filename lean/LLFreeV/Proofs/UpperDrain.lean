/-
  `Trees::unreserve` and `LLFree::drain` against the upper invariant.
-/
import LLFreeV.Proofs.UpperPut
namespace LLFree
open Prog

theorem ordered_eq {p : PolicyFn} (h : OrderedPolicy p) (k f : Nat) : ∃ q, p k k f = .match q := by
  obtain ⟨rate, hr, rfl⟩ := h
  obtain ⟨q, hq⟩ := hr f
  exact ⟨q, by simp [orderedPolicy, hq]⟩

theorem ordered_lt {p : PolicyFn} (h : OrderedPolicy p) (k t f : Nat) (hk : k < t) : p k t f = .demote := by
  obtain ⟨rate, hr, rfl⟩ := h
  have : ¬ k > t := by omega
  simp [orderedPolicy, this, hk]

theorem ordered_gt {p : PolicyFn} (h : OrderedPolicy p) (k t f : Nat) (hk : t < k) : p k t f = .steal := by
  obtain ⟨rate, hr, rfl⟩ := h
  simp [orderedPolicy, hk]

theorem ordered_ne_invalid {p : PolicyFn} (h : OrderedPolicy p) (k t f : Nat) : p k t f ≠ .invalid := by
  rcases Nat.lt_trichotomy k t with h1 | h1 | h1
  · rw [ordered_lt h k t f h1]; simp
  · subst h1; obtain ⟨q, hq⟩ := ordered_eq h k f; rw [hq]; simp
  · rw [ordered_gt h k t f h1]; simp

section
variable {c : Cfg} {H : Nat → Nat} {P : Nat → Nat} {R : Nat → Prop} {m : Mem}

/-- `Tree::put` on an unreserved entry whose counter fits -/
theorem Tree.put_unreserved (ok : CfgOk c) (t : Tree) (n : Nat) (hr : t.reserved = false) (h8 : t.cls < 8) (hsum : t.free + n ≤ c.geom.treeFrames) :
    ∃ k, k < 8 ∧ (k = t.cls ∨ k = c.dflt) ∧
      Tree.put c.tf t n c.policy c.dflt = .set { t with free := t.free + n, cls := k } := by
  have hnot : ¬ (t.free + n > c.geom.treeFrames) := by omega
  unfold Tree.put
  simp only [Cfg.tf, hnot, if_false]
  by_cases hreset : (t.free + n == c.geom.treeFrames && !t.reserved && c.policy t.cls c.dflt (t.free + n) != .invalid) = true
  · simp only [hreset, if_true]
    have : Tree.clsOk c.dflt = true := by simp [Tree.clsOk, ok.dflt]
    simp only [this, Bool.not_true, Bool.false_eq_true, if_false]
    exact ⟨c.dflt, ok.dflt, Or.inr rfl, rfl⟩
  · simp only [hreset, Bool.false_eq_true, if_false]
    exact ⟨t.cls, h8, Or.inl rfl, rfl⟩

/-- `Trees::unreserve`: a reserved tree in transit becomes unreserved; `n` unaccounted frames of
    it return to its counter -/
theorem tunreserve_spec (ok : CfgOk c) (inv : UpperInv c H P R m) (i n cls : Nat) (t : Tree)
    (ht : m.trees[i]? = some t) (hres : t.reserved = true) (hR : R i) (hcls : cls ≤ t.cls) (hn : n ≤ P i) :
    Runs m (tunreserve c i n cls) (fun _ m' =>
      UpperInv c H (gset P i (P i - n)) (fun j => R j ∧ j ≠ i) m' ∧ SameAlloc m m' ∧ m'.slots = m.slots) := by
  have hle := inv.counterLe i t ht
  have htf := Mem.freeInTree_le m c.geom i
  have hsum : t.free + n ≤ c.geom.treeFrames := by omega
  have hcls8 := inv.treeCls i t ht
  -- the closure result
  have hupd : ∃ k, k < 8 ∧ Tree.unreserveAdd c.tf t n cls c.policy c.dflt =
      .set { t with free := t.free + n, reserved := false, cls := k } := by
    unfold Tree.unreserveAdd
    simp only [hres, if_true]
    rcases Nat.lt_or_eq_of_le hcls with h1 | h1
    · rw [ordered_lt ok.policy cls t.cls n h1]
      have hc : Tree.clsOk cls = true := by simp [Tree.clsOk]; omega
      simp only [hc, Bool.not_true, Bool.false_eq_true, if_false]
      obtain ⟨k, hk, _, he⟩ := Tree.put_unreserved ok { t with reserved := false, cls := cls } n rfl (by show cls < 8; omega) hsum
      exact ⟨k, hk, he⟩
    · rw [h1]
      obtain ⟨q, hq⟩ := ordered_eq ok.policy t.cls n
      rw [hq]
      obtain ⟨k, hk, _, he⟩ := Tree.put_unreserved ok { t with reserved := false } n rfl hcls8 hsum
      exact ⟨k, hk, he⟩
  obtain ⟨k, hk, hf⟩ := hupd
  unfold tunreserve Trees.unreserve
  apply Runs.bind (Runs.upd_set (Q := fun r m' => r = .ok t ∧
      m.set .tree i { t with free := t.free + n, reserved := false, cls := k } = m') (by simpa using ht) hf ⟨rfl, rfl⟩)
  rintro _ _ ⟨rfl, rfl⟩
  apply Runs.pure
  refine ⟨?_, ⟨rfl, rfl⟩, rfl⟩
  apply inv.set_tree i t _ ht H (gset P i (P i - n)) (fun j => R j ∧ j ≠ i) hk
  · intro s l k' hs hp _ e
    exact absurd (by rw [← e] at hR; exact hR) (inv.slotNotR s l hs hp)
  · intro h; simp at h
  · intro h; exact absurd rfl h.2
  · intro j hj; exact ⟨fun h => h.1, fun h => ⟨h, hj⟩⟩
  · intro j hj; exact gset_other P i _ j hj
  · intro j _; rfl
  · have := inv.counter i t ht; simp only [gset_same]; omega

/-- slot `s` holds no reservation -/
def SlotAbsent (m : Mem) (s : Nat) : Prop := ∀ l : LTree, m.slots[s]? = some l → l.present = false

/-- what one pass over a slot keeps: the invariant, the allocation state, absent slots -/
def DrainKeeps (c : Cfg) (H : Nat → Nat) (m m' : Mem) : Prop :=
  UpperInv0 c H m' ∧ SameAlloc m m' ∧ ∀ s, SlotAbsent m s → SlotAbsent m' s

theorem DrainKeeps.trans {a b d : Mem} (h1 : DrainKeeps c H a b) (h2 : DrainKeeps c H b d) : DrainKeeps c H a d :=
  ⟨h2.1, h1.2.1.trans h2.2.1, fun s hs => h2.2.2 s (h1.2.2 s hs)⟩

theorem UpperInv.congrR (inv : UpperInv c H P R m) (R' : Nat → Prop) (h : ∀ j, R' j ↔ R j) : UpperInv c H P R' m := by
  have : R' = R := funext fun j => propext (h j)
  rw [this]; exact inv

/-- draining one slot: the reservation (if any) goes back to its tree -/
theorem drain_slot_spec (ok : CfgOk c) (inv : UpperInv0 c H m) (s cls : Nat) (hs : s < c.nslots) (hk : c.slotClass s cls) :
    Runs m (do
        let old : LTree ← swapK .slot s LTree.none
        if old.present then tunreserve c (old.row / c.geom.treeRows) old.free cls)
      (fun _ m' => DrainKeeps c H m m' ∧ SlotAbsent m' s) := by
  have hsz : s < m.slots.size := by rw [inv.slotsSize]; exact hs
  have hl : m.slots[s]? = some m.slots[s] := Array.getElem?_eq_getElem hsz
  generalize m.slots[s] = l at hl
  apply Runs.bind (p := swapK .slot s LTree.none) (R := fun o m' => l = o ∧ m.set .slot s LTree.none = m')
    (Runs.swap (k := .slot) (i := s) (o := l) LTree.none (by simpa using hl) ⟨rfl, rfl⟩)
  rintro _ _ ⟨rfl, rfl⟩
  have habs : ∀ s', SlotAbsent m s' → SlotAbsent (m.set .slot s LTree.none) s' := by
    intro s' h x hx
    simp only [Mem.set_slot_slots, Array.getElem?_setIfInBounds] at hx
    split at hx
    · cases hx; rfl
    · exact h x hx
  have hnow : SlotAbsent (m.set .slot s LTree.none) s := by
    intro x hx
    simp only [Mem.set_slot_slots, Array.getElem?_setIfInBounds, if_true, hsz] at hx
    cases hx; rfl
  by_cases hp : l.present = true
  · simp only [hp, if_true]
    obtain ⟨t, ht, htr, hkt⟩ := inv.slotTree s l cls hl hp hk
    -- after the swap: the tree is in transit and its cached frames are unaccounted
    have inv1 : UpperInv c H (gset (fun _ => 0) (l.row / c.geom.treeRows) l.free)
        (fun j => j = l.row / c.geom.treeRows) (m.set .slot s LTree.none) := by
      apply inv.set_slot s l LTree.none hl
      · intro h; simp [LTree.none] at h
      · intro h; simp [LTree.none] at h
      · intro h; simp [LTree.none] at h
      · intro j hj; right; exact ⟨hp, hj.symm⟩
      · intro _; right; rfl
      · intro j hj; exact absurd hj id
      · intro i
        rw [LTree.freeFor_absent _ _ LTree.none rfl]
        by_cases e : i = l.row / c.geom.treeRows
        · subst e; rw [LTree.freeFor_self _ l hp]; simp
        · rw [LTree.freeFor_other _ _ l (fun h => e h.symm), gset_other _ _ _ _ e]
    apply Runs.mono (tunreserve_spec ok inv1 (l.row / c.geom.treeRows) l.free cls t (by simpa using ht) htr rfl hkt (by simp))
    rintro _ m2 ⟨inv2, same, hslots⟩
    refine ⟨⟨?_, ⟨same.1, same.2⟩, ?_⟩, ?_⟩
    · apply (inv2.congrP (fun _ => 0) ?_).congrR (fun _ => False) ?_
      · intro j
        by_cases e : j = l.row / c.geom.treeRows
        · subst e; simp
        · simp [gset, e]
      · intro j; constructor
        · intro h; exact h.elim
        · intro h; exact h.2 h.1
    · intro s' h x hx
      rw [hslots] at hx
      exact habs s' h x hx
    · intro x hx
      rw [hslots] at hx
      exact hnow x hx
  · simp only [hp, Bool.false_eq_true, if_false]
    have hpf : l.present = false := by simpa using hp
    apply Runs.pure
    refine ⟨⟨?_, ⟨rfl, rfl⟩, habs⟩, hnow⟩
    apply (inv.set_slot s l LTree.none hl (fun _ => 0) (fun _ => False) ?_ ?_ ?_ ?_ ?_ ?_ ?_)
    · intro h; simp [LTree.none] at h
    · intro h; simp [LTree.none] at h
    · intro h; simp [LTree.none] at h
    · intro j hj; exact hj.elim
    · intro h; rw [hpf] at h; cases h
    · intro j hj; exact hj.elim
    · intro i
      rw [LTree.freeFor_absent _ _ LTree.none rfl, LTree.freeFor_absent _ _ l hpf]

/-- the slots `base + j .. base + j + cnt` of one class -/
theorem drain_slots_spec (ok : CfgOk c) (cls : Nat) (rng : Nat × Nat) (hr : c.slotRange cls = some rng)
    (cnt j : Nat) (hj : j + cnt ≤ rng.2) (m : Mem) (inv : UpperInv0 c H m) :
    Runs m (Locals.drain.slots (fun row cls free => tunreserve c (row / c.g.treeRows) free cls) cls rng.1 cnt j)
      (fun _ m' => DrainKeeps c H m m' ∧ ∀ x, j ≤ x → x < j + cnt → SlotAbsent m' (rng.1 + x)) := by
  induction cnt generalizing j m with
  | zero =>
    unfold Locals.drain.slots
    apply Runs.pure
    exact ⟨⟨inv, SameAlloc.refl _, fun _ h => h⟩, fun x h1 h2 => by omega⟩
  | succ cnt ih =>
    unfold Locals.drain.slots
    have hin := ok.rangeIn cls rng hr
    apply Runs.ite_jp (b := fun (old : LTree) => old.present)
      (drain_slot_spec ok inv (rng.1 + j) cls (by omega) (slotClass_of_range cls rng hr j (by omega)))
    rintro _ m1 ⟨keep1, abs1⟩
    apply Runs.mono (ih (j + 1) (by omega) m1 keep1.1)
    rintro _ m2 ⟨keep2, abs2⟩
    refine ⟨keep1.trans keep2, ?_⟩
    intro x h1 h2
    by_cases e : x = j
    · subst e; exact keep2.2.2 _ abs1
    · exact abs2 x (by omega) (by omega)

theorem drain_classes_spec (ok : CfgOk c) (cnt i : Nat) (m : Mem) (inv : UpperInv0 c H m) :
    Runs m (Locals.drain.classes c (fun row cls free => tunreserve c (row / c.g.treeRows) free cls) cnt i)
      (fun _ m' => DrainKeeps c H m m' ∧ ∀ k, i ≤ k → k < i + cnt → ∀ rng, c.slotRange k = some rng →
        ∀ x, x < rng.2 → SlotAbsent m' (rng.1 + x)) := by
  induction cnt generalizing i m with
  | zero =>
    unfold Locals.drain.classes
    apply Runs.pure
    exact ⟨⟨inv, SameAlloc.refl _, fun _ h => h⟩, fun k h1 h2 => by omega⟩
  | succ cnt ih =>
    unfold Locals.drain.classes
    have tail : ∀ m1, DrainKeeps c H m m1 →
        (∀ rng, c.slotRange i = some rng → ∀ x, x < rng.2 → SlotAbsent m1 (rng.1 + x)) →
        Runs m1 (Locals.drain.classes c (fun row cls free => tunreserve c (row / c.g.treeRows) free cls) cnt (i + 1))
          (fun _ m' => DrainKeeps c H m m' ∧ ∀ k, i ≤ k → k < i + (cnt + 1) → ∀ rng, c.slotRange k = some rng →
            ∀ x, x < rng.2 → SlotAbsent m' (rng.1 + x)) := by
      intro m1 keep1 abs1
      apply Runs.mono (ih (i + 1) m1 keep1.1)
      rintro _ m2 ⟨keep2, abs2⟩
      refine ⟨keep1.trans keep2, ?_⟩
      intro k h1 h2 rng hr x hx
      by_cases e : k = i
      · subst e; exact keep2.2.2 _ (abs1 rng hr x hx)
      · exact abs2 k (by omega) (by omega) rng hr x hx
    cases hr : c.slotRange i with
    | none =>
      simp only
      exact tail m ⟨inv, SameAlloc.refl _, fun _ h => h⟩ (fun rng h => by have := hr.symm.trans h; cases this)
    | some rng =>
      simp only
      apply Runs.bind (drain_slots_spec ok i rng hr rng.2 0 (by omega) m inv)
      rintro _ m1 ⟨keep, abs⟩
      apply tail m1 keep
      intro rng' h x hx
      have e := hr.symm.trans h
      cases e
      exact abs x (by omega) (by omega)

/-- **`LLFree::drain`**: never panics, keeps the invariant and the allocation state, and
    afterwards no slot holds a reservation and no tree is reserved. -/
theorem drain_spec (ok : CfgOk c) (inv : UpperInv0 c H m) :
    Runs m (drain c) (fun _ m' => UpperInv0 c H m' ∧ SameAlloc m m' ∧ (∀ s, SlotAbsent m' s) ∧
      ∀ (i : Nat) (t : Tree), m'.trees[i]? = some t → t.reserved = false) := by
  unfold drain Locals.drain
  apply Runs.mono (drain_classes_spec ok 8 0 m inv)
  rintro _ m1 ⟨keep, abs⟩
  have hall : ∀ s, SlotAbsent m1 s := by
    intro s l hl
    cases hp : l.present with
    | false => rfl
    | true =>
      obtain ⟨k, rng, hr, h1, h2⟩ := keep.1.slotCls s l hl hp
      have hk := ok.clsLt k rng hr
      have := abs k (by omega) (by omega) rng hr (s - rng.1) (by omega)
      rw [show rng.1 + (s - rng.1) = s by omega] at this
      rw [this l hl] at hp; cases hp
  refine ⟨keep.1, keep.2.1, hall, ?_⟩
  intro i t ht
  cases hr : t.reserved with
  | false => rfl
  | true =>
    rcases keep.1.resSlot i t ht hr with h | ⟨s, l, hl, hp, _⟩
    · exact h.elim
    · rw [hall s l hl] at hp; cases hp

end
end LLFree
