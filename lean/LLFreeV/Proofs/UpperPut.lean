/-
  `LLFree::put` against the upper invariant and the ownership specification.
-/
import LLFreeV.Proofs.UpperOps
import LLFreeV.Props.C08
namespace LLFree
open Prog

section
variable {c : Cfg} {H : Nat → Nat} {P : Nat → Nat} {R : Nat → Prop} {m : Mem}

/-- a change of the lower metadata only, with the unaccounted frames adjusted by the change of
    the free counts -/
theorem UpperInv.of_lower_change (inv : UpperInv c H P R m) (m' : Mem) (P' : Nat → Nat)
    (ht : m'.trees = m.trees) (hs : m'.slots = m.slots) (hl : LowerInv c m')
    (hfree : ∀ j, m'.freeInTree c.geom j + P j = m.freeInTree c.geom j + P' j) :
    UpperInv c H P' R m' := by
  have hsf : ∀ j, m'.slotFree c.geom.treeRows j = m.slotFree c.geom.treeRows j := by
    intro j; unfold Mem.slotFree; rw [hs]
  exact {
    lower := hl
    treesSize := by rw [ht]; exact inv.treesSize
    slotsSize := by rw [hs]; exact inv.slotsSize
    treeCls := by rw [ht]; exact inv.treeCls
    slotTree := by rw [ht, hs]; exact inv.slotTree
    slotCls := by rw [hs]; exact inv.slotCls
    slotInj := by rw [hs]; exact inv.slotInj
    slotNotR := by rw [hs]; exact inv.slotNotR
    resSlot := by rw [ht, hs]; exact inv.resSlot
    counter := by
      intro j t hj
      rw [ht] at hj
      have := inv.counter j t hj
      have := hfree j
      rw [hsf]; omega }

/-- what the ownership specification requires of a free implies that every frame of the block
    is allocated -/
theorem allocated_of_putAllowed (okg : GeomOk c.geom) (frame order : Nat) (hal : frame % 2 ^ order = 0)
    (h : PutAllowed c m frame order) (k : Nat) (hk : k < 2 ^ order) : m.allocated c.geom (frame + k) = true := by
  unfold PutAllowed at h
  by_cases ho : order < c.geom.hugeOrder
  · simp only [ho, if_true] at h
    exact h k hk
  · simp only [ho, if_false] at h
    have hHF := okg.hf_pos
    -- frame is a multiple of the huge-frame size
    have hsplit : 2 ^ order = 2 ^ (order - c.geom.hugeOrder) * c.geom.hugeFrames := by
      show _ = _ * 2 ^ c.geom.hugeOrder
      rw [← Nat.pow_add]; congr 1; omega
    have hmod : frame % c.geom.hugeFrames = 0 := by
      have h0 : c.geom.hugeFrames ∣ 2 ^ order := ⟨2 ^ (order - c.geom.hugeOrder), by rw [hsplit, Nat.mul_comm]⟩
      have h1 : 2 ^ order ∣ frame := Nat.dvd_of_mod_eq_zero hal
      exact Nat.mod_eq_zero_of_dvd (Nat.dvd_trans h0 h1)
    have hdiv : (frame + k) / c.geom.hugeFrames = frame / c.geom.hugeFrames + k / c.geom.hugeFrames := by
      have e : frame = c.geom.hugeFrames * (frame / c.geom.hugeFrames) := by
        have := Nat.div_add_mod frame c.geom.hugeFrames; omega
      rw [e, Nat.mul_add_div hHF, Nat.mul_div_cancel_left _ hHF]
    have hk2 : k / c.geom.hugeFrames < 2 ^ (order - c.geom.hugeOrder) := by
      apply (Nat.div_lt_iff_lt_mul hHF).2
      rw [← hsplit]; exact hk
    have := h (k / c.geom.hugeFrames) hk2
    unfold Mem.allocated
    rw [hdiv]
    unfold Mem.whole at this
    rw [this]; rfl

/-- `Lower::put` under the upper invariant: the freed frames become unaccounted free frames of
    their tree -/
theorem lower_put_upper (ok : CfgOk c) (inv : UpperInv c H P R m) (retries frame order : Nat)
    (hb : BlockOk c frame order) :
    (PutAllowed c m frame order →
      Runs m (Lower.put c.geom retries frame order) (fun r m' => r = .ok () ∧ PutPost c m m' frame order ∧
        UpperInv c H (gset P (frame / c.geom.treeFrames) (P (frame / c.geom.treeFrames) + 2 ^ order)) R m')) ∧
    (¬ PutAllowed c m frame order →
      Runs m (Lower.put c.geom retries frame order) (fun r m' => r = .error .memory ∧ m = m')) := by
  have okg := ok.geom.toGeomOk
  obtain ⟨h1, h2⟩ := lower_put_refines ok.geom m inv.lower retries frame order hb
  constructor
  · intro ha
    obtain ⟨m', hrun, post⟩ := h1 ha
    refine Runs.of_eq hrun ⟨rfl, post, ?_⟩
    apply inv.of_lower_change m' _ post.trees post.slots post.inv
    intro j
    have := freeInTree_put okg m m' frame order hb.ord hb.aligned (allocated_of_putAllowed okg frame order hb.aligned ha) post j
    rw [this]
    by_cases e : j = frame / c.geom.treeFrames
    · subst e; simp only [if_true, gset_same]; omega
    · simp only [e, if_false, gset_other _ _ _ _ e]; omega
  · intro hna
    exact Runs.of_eq (h2 hna) ⟨rfl, rfl⟩

theorem UpperInv.congrP (inv : UpperInv c H P R m) (P' : Nat → Nat) (h : ∀ j, P' j = P j) : UpperInv c H P' R m := by
  have : P' = P := funext h
  rw [this]; exact inv

/-- the slot named by a request is in range -/
def Request.locOk (c : Cfg) (r : Request) : Prop :=
  ∀ l rng, r.loc = some l → c.slotRange r.cls = some rng → l < rng.2

/-- **`LLFree::put`** (sequential, every reachable state): with valid arguments the free succeeds
    exactly when the ownership specification allows it, frees exactly the frames of the block,
    re-establishes the upper invariant and never panics; a refused free changes nothing. -/
theorem upper_put_spec (ok : CfgOk c) (inv : UpperInv0 c H m) (frame : Nat) (r : Request) (hcls : r.cls < 8)
    (hloc : r.locOk c) (hv : C08.ArgsValid c frame r) :
    (PutAllowed c m frame r.order →
      Runs m (put c frame r) (fun res m' => res = .ok () ∧ UpperInv0 c H m' ∧
        ∃ m1, PutPost c m m1 frame r.order ∧ SameAlloc m1 m')) ∧
    (¬ PutAllowed c m frame r.order → Runs m (put c frame r) (fun res m' => res = .error .memory ∧ m = m')) := by
  have okg := ok.geom.toGeomOk
  have hb : BlockOk c frame r.order := ⟨hv.1, hv.2.2.2.1, hv.2.2.1⟩
  have hchk := C08.check_valid c m frame r hcls hv
  obtain ⟨hput1, hput2⟩ := lower_put_upper (P := fun _ => 0) (R := fun _ => False) ok inv retries frame r.order hb
  have hi : frame / c.geom.treeFrames < c.ntrees := by
    unfold Cfg.ntrees
    have hpos : 0 < 2 ^ r.order := Nat.pos_of_ne_zero (by simp)
    apply (Nat.div_lt_iff_lt_mul okg.tf_pos).2
    have := Nat.lt_mul_div_succ (c.frames + c.geom.treeFrames - 1) okg.tf_pos
    have hr := hb.inRange
    calc frame < c.frames := by omega
      _ ≤ (c.frames + c.geom.treeFrames - 1) / c.geom.treeFrames * c.geom.treeFrames := by
        have := Nat.div_add_mod (c.frames + c.geom.treeFrames - 1) c.geom.treeFrames
        have h2 := Nat.mod_lt (c.frames + c.geom.treeFrames - 1) okg.tf_pos
        rw [Nat.mul_comm] at this
        omega
  constructor
  · intro ha
    unfold put
    apply Runs.bind (Runs.of_eq hchk (Q := fun r m' => r = .ok () ∧ m = m') ⟨rfl, rfl⟩)
    rintro _ _ ⟨rfl, rfl⟩
    simp only
    apply Runs.bind (hput1 ha)
    rintro _ m1 ⟨rfl, post, inv1⟩
    simp only
    have hP : 2 ^ r.order ≤ gset (fun _ => 0) (frame / c.geom.treeFrames) (0 + 2 ^ r.order) (frame / c.geom.treeFrames) := by
      simp
    have hfin : ∀ j, (fun _ => 0 : Nat → Nat) j =
        gset (gset (fun _ => 0) (frame / c.geom.treeFrames) (0 + 2 ^ r.order)) (frame / c.geom.treeFrames)
          (gset (fun _ => 0) (frame / c.geom.treeFrames) (0 + 2 ^ r.order) (frame / c.geom.treeFrames) - 2 ^ r.order) j := by
      intro j
      by_cases e : j = frame / c.geom.treeFrames
      · subst e; simp
      · simp [gset, e]
    cases hl : r.loc with
    | none =>
      simp only
      apply Runs.bind (Runs.pure (Q := fun b m' => b = false ∧ m1 = m') ⟨rfl, rfl⟩)
      rintro _ _ ⟨rfl, rfl⟩
      simp only [Bool.false_eq_true, if_false]
      apply Runs.bind (tput_spec ok inv1 (frame / c.tf) (2 ^ r.order) hi hP)
      rintro _ m2 ⟨inv2, same⟩
      apply Runs.pure
      exact ⟨rfl, inv2.congrP _ hfin, m1, post, same⟩
    | some l =>
      simp only
      obtain ⟨rng, hrng⟩ := Option.isSome_iff_exists.1 hv.2.2.2.2
      apply Runs.bind (locals_put_spec ok inv1 r.cls l (frame / c.tf) (2 ^ r.order) hcls rng hrng (hloc l rng hl hrng) hP)
      rintro b m2 ⟨same, hb2⟩
      cases b with
      | true =>
        simp only [if_true] at hb2 ⊢
        apply Runs.pure
        exact ⟨rfl, hb2.congrP _ hfin, m1, post, same⟩
      | false =>
        simp only [Bool.false_eq_true, if_false] at hb2 ⊢
        subst hb2
        apply Runs.bind (tput_spec ok inv1 (frame / c.tf) (2 ^ r.order) hi hP)
        rintro _ m3 ⟨inv3, same3⟩
        apply Runs.pure
        exact ⟨rfl, inv3.congrP _ hfin, m2, post, same3⟩
  · intro hna
    unfold put
    apply Runs.bind (Runs.of_eq hchk (Q := fun r m' => r = .ok () ∧ m = m') ⟨rfl, rfl⟩)
    rintro _ _ ⟨rfl, rfl⟩
    simp only
    apply Runs.bind (hput2 hna)
    rintro _ _ ⟨rfl, rfl⟩
    exact Runs.pure ⟨rfl, rfl⟩

end
end LLFree
