/-
  "Every free of a held block succeeds" (C03, second clause) with tree changes among the concurrent
  calls: the strict runner of `ConcPutOk.lean` extended by `change_tree` commands (class changes,
  `Offline`) as in `ConcChange.lean`.
-/
import LLFreeV.Proofs.ConcChange
namespace LLFree
open Prog

def CCmd.validS (c : Cfg) : CCmd → Prop
  | .u x => x.validS c
  | .change _ _ _ ccls _ => ∀ k, ccls = some k → k < 8

/-- strict runner with tree changes: ends at the first `put` that returns an error, with the flag set -/
def runUSC (c : Cfg) : List CCmd → Held → Prog (Held × Bool)
  | [], held => pure (held, false)
  | .u x :: rest, held => do
    let r ← runUS c [x] held
    if r.2 then pure r else runUSC c rest r.1
  | .change mid mcls mfree ccls off :: rest, held => do
    let _ ← changeTree c mid mcls mfree ccls (CCmd.op off)
    runUSC c rest held

abbrev PostUSC (c : Cfg) : Held × Bool → UGh → Prop := fun a ug' => ∃ e, ug' = (ugOf c.geom.treeFrames a.1).plus e

section
variable {c : Cfg}

theorem runUSC_safe (ok : CfgOk c) (cmds : List CCmd) (hvalid : ∀ x ∈ cmds, x.validS c) :
    ∀ (held : Held), HeldOkL c.geom held → HeldAl c.geom held →
      SafeL false c.geom (PostLS c) (ghOf c.geom held) (runUSC c cmds held) := by
  induction cmds with
  | nil => intro held hok hal; exact ⟨rfl, hok, hal, fun h => by cases h⟩
  | cons cmd rest ih =>
    have hv := hvalid cmd List.mem_cons_self
    have ih := ih (fun x hx => hvalid x (List.mem_cons_of_mem _ hx))
    intro held hok hal
    cases cmd with
    | u x =>
      unfold runUSC
      apply SafeL.bind _ _ _ (runUS_safe ok [x] (fun y hy => by rw [List.mem_singleton.1 hy]; exact hv) held hok hal)
      rintro ⟨held', failed⟩ gh1 ⟨h1, hok', hal', hflag⟩
      cases failed with
      | true => exact ⟨h1, hok', hal', hflag⟩
      | false =>
        have h1' : gh1 = ghOf c.geom held' := h1
        rw [h1']
        exact ih held' hok' hal'
    | change mid mcls mfree ccls off =>
      unfold runUSC
      apply SafeL.bind _ _ _ (Neut.safeL (ghOf c.geom held) _ (changeTree_neut mid mcls mfree ccls _ (CCmd.op_ne_online off)))
      rintro _ gh1 ⟨rfl, _⟩
      exact ih held hok hal

theorem runUSC_safeU (ok : CfgOk c) (cmds : List CCmd) (hvalid : ∀ x ∈ cmds, x.validS c) :
    ∀ (held : Held) (e : Nat → Nat), SafeU c (PostUSC c) ((ugOf c.geom.treeFrames held).plus e) (runUSC c cmds held) := by
  induction cmds with
  | nil => intro held e; exact ⟨e, rfl⟩
  | cons cmd rest ih =>
    have hv := hvalid cmd List.mem_cons_self
    have ih := ih (fun x hx => hvalid x (List.mem_cons_of_mem _ hx))
    intro held e
    cases cmd with
    | u x =>
      unfold runUSC
      have h1 := runUS_safeU ok [x] (fun y hy => by rw [List.mem_singleton.1 hy]; exact hv) held
      apply SafeU.bind _ _ _ (SafeU.frame e _ _ h1)
      rintro ⟨held', failed⟩ ug1 ⟨ug0, h0, rfl⟩
      have h0' : ug0 = ugOf c.geom.treeFrames held' := h0
      subst h0'
      cases failed with
      | true => exact ⟨e, rfl⟩
      | false => exact ih held' e
    | change mid mcls mfree ccls off =>
      unfold runUSC
      apply SafeU.bind _ _ _ (changeTree_U _ mid mcls mfree ccls _ (CCmd.op_ne_online off) hv)
      rintro _ ug1 ⟨f, rfl⟩
      rw [UGh.plus_plus]
      exact ih held _

theorem conc_cinvSC (ok : CfgOk c) (H : Nat → Nat) (m : Mem) (inv : UpperInv0 c H m)
    (n : Nat) (cmds : Nat → List CCmd) (hvalid : ∀ k, ∀ x ∈ cmds k, x.validS c) (sched : List Nat) (hsched : ∀ k ∈ sched, k < n) :
    ∃ ghs ugs, CInv c H n c.frames (PostLS c) (PostUSC c)
      (concRun sched (m, fun k => Th.at (runUSC c (cmds k) ⟨[], []⟩))).1
      (concRun sched (m, fun k => Th.at (runUSC c (cmds k) ⟨[], []⟩))).2 ghs ugs := by
  have L0 := LInv.init_gen ok.geom m inv.lower n false (PostLS c) (fun k => runUSC c (cmds k) ⟨[], []⟩)
    (fun k => runUSC_safe ok (cmds k) (hvalid k) ⟨[], []⟩ ⟨trivial, (fun b hb => by cases hb), trivial⟩ (fun b hb => by cases hb))
  have hG0 : ∀ i, GT c.geom n m (fun _ => ghOf c.geom ⟨[], []⟩) i = m.freeInTree c.geom i := by
    intro i
    rw [Mem.freeInTree_eq_blockSum]
    unfold GT GH
    apply blockSum_congr
    intro cc _
    rw [blockSum_zero' _ n (fun k _ => heldIn_empty c.geom _)]; omega
  have U0 : UInv c H n m (fun _ => ghOf c.geom ⟨[], []⟩) (fun _ => ugOf c.geom.treeFrames ⟨[], []⟩) := by
    refine ⟨inv.toG.congr rfl rfl ?_ ?_ hG0, ?_, ?_, ?_⟩
    · intro i
      unfold baseSum
      exact blockSum_zero' _ n (fun k _ => by simp [ugOf, smallBase, hugeBase])
    · intro i
      constructor
      · rintro ⟨k, _, hk⟩; simp [ugOf] at hk
      · intro h; exact h.elim
    · intro j k _ _ _ i hi; simp [ugOf] at hi
    · intro k _ i b hb; simp [ugOf] at hb
    · intro i; rw [hG0 i]; exact Mem.freeInTree_le m c.geom i
  have C0 : CInv c H n c.frames (PostLS c) (PostUSC c) m (fun k => Th.at (runUSC c (cmds k) ⟨[], []⟩)) (fun _ => ghOf c.geom ⟨[], []⟩)
      (fun _ => ugOf c.geom.treeFrames ⟨[], []⟩) :=
    ⟨L0, U0, fun k => by
      have := runUSC_safeU ok (cmds k) (hvalid k) ⟨[], []⟩ (fun _ => 0)
      rw [UGh.plus_zero] at this
      exact this⟩
  exact CInv.run ok sched hsched m _ _ _ C0

/-- **every free of a held block succeeds, in any interleaving, also with concurrent tree changes**
    (class changes, `Offline`): no thread traps and no finished thread reports a failed free -/
theorem upper_conc_put_succeeds_change (ok : CfgOk c) (H : Nat → Nat) (m : Mem) (inv : UpperInv0 c H m)
    (n : Nat) (cmds : Nat → List CCmd) (hvalid : ∀ k, ∀ x ∈ cmds k, x.validS c) (sched : List Nat) (hsched : ∀ k ∈ sched, k < n)
    (k : Nat) (hk : k < n) :
    match ((concRun sched (m, fun k => Th.at (runUSC c (cmds k) ⟨[], []⟩))).2 k).step
        (concRun sched (m, fun k => Th.at (runUSC c (cmds k) ⟨[], []⟩))).1 with
    | .done a => a.2 = false
    | .dead s => s = oobMsg
    | .step _ _ _ => True := by
  have okg := ok.geom.toGeomOk
  obtain ⟨ghs, ugs, C⟩ := conc_cinvSC ok H m inv n cmds hvalid sched hsched
  have hstep := C.step ok k hk
  have F := C.low.facts okg
  cases hs : ((concRun sched (m, fun k => Th.at (runUSC c (cmds k) ⟨[], []⟩))).2 k).step
      (concRun sched (m, fun k => Th.at (runUSC c (cmds k) ⟨[], []⟩))).1 with
  | done a =>
    rw [hs] at hstep
    obtain ⟨⟨hgh, hok, hal, hflag⟩, _⟩ := hstep
    show a.2 = false
    cases hf : a.2 with
    | false => rfl
    | true => exact absurd (heldIn_of_facts okg F k a.1 hgh hok hal) (hflag hf)
  | dead s => rw [hs] at hstep; exact hstep
  | step t' m' a => trivial

end
end LLFree
