/-
  Any number of threads, each running any sequence of `Lower::get` / `Lower::get_at` /
  `Lower::put` (of blocks it holds, at their original order), in any interleaving:

  * no call panics and every free of a held block succeeds,
  * blocks held by different threads — small ones (bits) and huge ones (table entries) — never
    overlap; neither do a small and a huge block,
  * the counters never over-report the free frames of their bitfield (so a crash at any instant
    leaves a state from which recovery only has to raise counters), and they are exact once
    all threads are done.
-/
import LLFreeV.Proofs.OwnLowerGet3
import LLFreeV.Proofs.OwnThreads
namespace LLFree
open Prog

/-- a held huge block: `frame` (multiple of `hugeFrames`) and order ≥ huge order -/
structure HB where
  frame : Nat
  order : Nat
deriving DecidableEq, Repr

def HB.base (g : Geom) (b : HB) : Nat := b.frame / g.hugeFrames
def HB.cnt (g : Geom) (b : HB) : Nat := 2 ^ (b.order - g.hugeOrder)
def HB.has (g : Geom) (b : HB) (x : Nat) : Bool := inBlockF (b.base g) (b.cnt g) x
def HB.ok (g : Geom) (b : HB) : Prop := g.hugeOrder ≤ b.order ∧ (b.base g) % g.treeHuge + b.cnt g ≤ g.treeHuge

def ownedHBy (g : Geom) (held : List HB) : Nat → Bool := fun x => held.any (fun b => b.has g x)

def HeldOkH (g : Geom) : List HB → Prop
  | [] => True
  | b :: rest => b.ok g ∧ (∀ x, b.has g x = true → ownedHBy g rest x = false) ∧ HeldOkH g rest

theorem HeldOkH.mem {g : Geom} : ∀ {held : List HB}, HeldOkH g held → ∀ b ∈ held, b.ok g
  | [], _, b, hb => by cases hb
  | x :: rest, h, b, hb => by
    rcases List.mem_cons.1 hb with e | e
    · rw [e]; exact h.1
    · exact HeldOkH.mem h.2.2 b e

theorem ownedHBy_of_mem (g : Geom) (held : List HB) (b : HB) (hb : b ∈ held) (x : Nat) (hx : b.has g x = true) :
    ownedHBy g held x = true := by
  unfold ownedHBy
  exact List.any_eq_true.2 ⟨b, hb, hx⟩

theorem ownedHBy_eraseIdx (g : Geom) : ∀ (held : List HB) (idx : Nat) (b : HB), HeldOkH g held → held[idx]? = some b →
    (∀ x, ownedHBy g (held.eraseIdx idx) x = (ownedHBy g held x && !b.has g x)) ∧ HeldOkH g (held.eraseIdx idx)
  | [], idx, b, _, h => by simp at h
  | y :: rest, 0, b, hok, h => by
    simp only [List.getElem?_cons_zero] at h
    cases h
    simp only [List.eraseIdx_cons_zero]
    refine ⟨?_, hok.2.2⟩
    intro x
    show ownedHBy g rest x = ((y.has g x || ownedHBy g rest x) && !y.has g x)
    cases hin : y.has g x with
    | true => simp [hok.2.1 x hin]
    | false => simp
  | y :: rest, idx + 1, b, hok, h => by
    simp only [List.getElem?_cons_succ] at h
    obtain ⟨ih1, ih2⟩ := ownedHBy_eraseIdx g rest idx b hok.2.2 h
    simp only [List.eraseIdx_cons_succ]
    have hbmem : b ∈ rest := List.mem_of_getElem? h
    constructor
    · intro x
      show (y.has g x || ownedHBy g (rest.eraseIdx idx) x) = ((y.has g x || ownedHBy g rest x) && !b.has g x)
      rw [ih1]
      cases hinb : b.has g x with
      | false => simp
      | true =>
        have hy : y.has g x = false := by
          cases hy : y.has g x with
          | false => rfl
          | true =>
            have := hok.2.1 x hy
            rw [ownedHBy_of_mem g rest b hbmem x hinb] at this; cases this
        rw [hy]; simp
    · refine ⟨hok.1, ?_, ih2⟩
      intro x hx
      rw [ih1, hok.2.1 x hx]; rfl

/-- what a thread holds -/
structure Held where
  small : List Blk
  huge : List HB

/-- small blocks as the lower allocator sees them: bitfield = `frame / hugeFrames`, order below the huge order -/
def SmallOk (g : Geom) (b : Blk) : Prop := b.order < g.hugeOrder ∧ b.i % 2 ^ b.order = 0 ∧ b.h = b.i / g.hugeFrames

def HeldOkL (g : Geom) (held : Held) : Prop :=
  HeldOk g held.small ∧ (∀ b ∈ held.small, SmallOk g b) ∧ HeldOkH g held.huge

/-- the ghost of a thread between two calls: it holds its blocks and has no open account -/
def ghOf (g : Geom) (held : Held) : Gh := { ownS := ownedBy g held.small, ownH := ownedHBy g held.huge, u := fun _ => 0 }

inductive LCmd where
  | get (start order : Nat)
  | getAt (frame order : Nat)
  | putS (idx : Nat)
  | putH (idx : Nat)

/-- the thread program; a failing free of a held block is a panic (it must never happen) -/
def runL (g : Geom) (retries : Nat) : List LCmd → Held → Prog Held
  | [], held => pure held
  | .get start order :: rest, held =>
    if order < g.hugeOrder then do
      let r ← Lower.get g start order none
      match r with
      | .ok f => runL g retries rest { held with small := ⟨f / g.hugeFrames, f, order⟩ :: held.small }
      | .error _ => runL g retries rest held
    else if g.treeHuge % 2 ^ (order - g.hugeOrder) = 0 then do
      let r ← Lower.get g start order none
      match r with
      | .ok f => runL g retries rest { held with huge := ⟨f, order⟩ :: held.huge }
      | .error _ => runL g retries rest held
    else runL g retries rest held
  | .getAt frame order :: rest, held =>
    if order < g.hugeOrder ∧ frame % 2 ^ order = 0 then do
      let r ← Lower.getAt g frame order
      match r with
      | .ok _ => runL g retries rest { held with small := ⟨frame / g.hugeFrames, frame, order⟩ :: held.small }
      | .error _ => runL g retries rest held
    else if g.hugeOrder ≤ order ∧ (frame / g.hugeFrames) % g.treeHuge + 2 ^ (order - g.hugeOrder) ≤ g.treeHuge then do
      let r ← Lower.getAt g frame order
      match r with
      | .ok _ => runL g retries rest { held with huge := ⟨frame, order⟩ :: held.huge }
      | .error _ => runL g retries rest held
    else runL g retries rest held
  | .putS idx :: rest, held =>
    match held.small[idx]? with
    | some b => do
      let r ← Lower.put g retries b.i b.order
      match r with
      | .ok _ => runL g retries rest { held with small := held.small.eraseIdx idx }
      | .error _ => Prog.panic "free of a held block failed"
    | none => runL g retries rest held
  | .putH idx :: rest, held =>
    match held.huge[idx]? with
    | some b => do
      let r ← Lower.put g retries b.frame b.order
      match r with
      | .ok _ => runL g retries rest { held with huge := held.huge.eraseIdx idx }
      | .error _ => Prog.panic "free of a held block failed"
    | none => runL g retries rest held

section
variable {g : Geom}

theorem blk_start (b : Blk) (hb : SmallOk g b) : b.start g = b.i := by
  unfold Blk.start; rw [hb.2.2]; exact frame_split b.i

theorem ghOf_addS (held : Held) (frame order : Nat) :
    (ghOf g held).addS frame (2 ^ order) = ghOf g { held with small := ⟨frame / g.hugeFrames, frame, order⟩ :: held.small } := by
  refine Gh.ext' _ _ ?_ rfl (fun _ => rfl)
  show addBlock (ownedBy g held.small) frame (2 ^ order) = ownedBy g (_ :: held.small)
  rw [ownedBy_cons]
  congr 1
  show frame = frame / g.hugeFrames * g.hugeFrames + frame % g.hugeFrames
  exact (frame_split frame).symm

theorem ghOf_addH (held : Held) (frame order : Nat) :
    (ghOf g held).addH (frame / g.hugeFrames) (2 ^ (order - g.hugeOrder)) = ghOf g { held with huge := ⟨frame, order⟩ :: held.huge } := by
  refine Gh.ext' _ _ rfl ?_ (fun _ => rfl)
  funext x
  show (ownedHBy g held.huge x || inBlockF (frame / g.hugeFrames) (2 ^ (order - g.hugeOrder)) x) = ownedHBy g (_ :: held.huge) x
  unfold ownedHBy
  simp only [List.any_cons]
  exact Bool.or_comm _ _

/-- **A well-behaved thread is safe in the lower-level protocol**, whatever the others do. -/
theorem runL_safe (ok : GeomOk16 g) (retries : Nat) (cmds : List LCmd) :
    ∀ (held : Held), HeldOkL g held →
      SafeL true g (fun held' gh' => gh' = ghOf g held' ∧ HeldOkL g held') (ghOf g held) (runL g retries cmds held) := by
  have okg := ok.toGeomOk
  induction cmds with
  | nil => intro held hok; exact ⟨rfl, hok⟩
  | cons cmd rest ih =>
    intro held hok
    cases cmd with
    | get start order =>
      unfold runL
      by_cases ho : order < g.hugeOrder
      · rw [if_pos ho]
        apply SafeL.bind _ _ _ (getL_small ok (ghOf g held) start order ho)
        intro r gh1 h1
        cases r with
        | error e => obtain ⟨_, h1⟩ := h1; rw [h1]; exact ih held hok
        | ok f =>
          obtain ⟨hal, h1, hnone⟩ := h1
          rw [h1, ghOf_addS]
          apply ih
          have hsm : SmallOk g ⟨f / g.hugeFrames, f, order⟩ := ⟨ho, hal, rfl⟩
          refine ⟨⟨⟨by show order ≤ g.hugeOrder; omega, aligned_mod_hf okg f order (by omega) hal⟩, ?_, hok.1⟩, ?_, hok.2.2⟩
          · intro x hx
            unfold Blk.has at hx
            rw [blk_start _ hsm] at hx
            exact hnone x hx
          · intro b hb
            rcases List.mem_cons.1 hb with e | e
            · rw [e]; exact hsm
            · exact hok.2.1 b e
      · rw [if_neg ho]
        by_cases hq : g.treeHuge % 2 ^ (order - g.hugeOrder) = 0
        · rw [if_pos hq]
          obtain ⟨q, hq'⟩ := Nat.dvd_of_mod_eq_zero hq
          apply SafeL.bind _ _ _ (getL_huge ok (ghOf g held) start order q (by omega) hq')
          intro r gh1 h1
          cases r with
          | error e => obtain ⟨_, h1⟩ := h1; rw [h1]; exact ih held hok
          | ok f =>
            obtain ⟨_, hfit, h1, hnone⟩ := h1
            rw [h1, ghOf_addH]
            apply ih
            exact ⟨hok.1, hok.2.1, ⟨Nat.le_of_not_lt ho, hfit⟩, hnone, hok.2.2⟩
        · rw [if_neg hq]; exact ih held hok
    | getAt frame order =>
      unfold runL
      by_cases hc : order < g.hugeOrder ∧ frame % 2 ^ order = 0
      · rw [if_pos hc]
        apply SafeL.bind _ _ _ (getAtL_small ok (ghOf g held) frame order hc.1 hc.2)
        intro r gh1 h1
        cases r with
        | error e => obtain ⟨_, h1⟩ := h1; rw [h1]; exact ih held hok
        | ok u =>
          obtain ⟨h1, hnone⟩ := h1
          rw [h1, ghOf_addS]
          apply ih
          have hsm : SmallOk g ⟨frame / g.hugeFrames, frame, order⟩ := ⟨hc.1, hc.2, rfl⟩
          refine ⟨⟨⟨by show order ≤ g.hugeOrder; omega, aligned_mod_hf okg frame order (by omega) hc.2⟩, ?_, hok.1⟩, ?_, hok.2.2⟩
          · intro x hx
            unfold Blk.has at hx
            rw [blk_start _ hsm] at hx
            exact hnone x hx
          · intro b hb
            rcases List.mem_cons.1 hb with e | e
            · rw [e]; exact hsm
            · exact hok.2.1 b e
      · rw [if_neg hc]
        by_cases hd : g.hugeOrder ≤ order ∧ (frame / g.hugeFrames) % g.treeHuge + 2 ^ (order - g.hugeOrder) ≤ g.treeHuge
        · rw [if_pos hd]
          apply SafeL.bind _ _ _ (getAtL_huge ok (ghOf g held) frame order hd.1 hd.2)
          intro r gh1 h1
          cases r with
          | error e => obtain ⟨_, h1⟩ := h1; rw [h1]; exact ih held hok
          | ok u =>
            obtain ⟨h1, hnone⟩ := h1
            rw [h1, ghOf_addH]
            apply ih
            exact ⟨hok.1, hok.2.1, ⟨hd.1, hd.2⟩, hnone, hok.2.2⟩
        · rw [if_neg hd]; exact ih held hok
    | putS idx =>
      unfold runL
      cases hg : held.small[idx]? with
      | none => exact ih held hok
      | some b =>
        simp only
        have hbm : b ∈ held.small := List.mem_of_getElem? hg
        have hsm := hok.2.1 b hbm
        have hst := blk_start b hsm
        apply SafeL.bind _ _ _ (putL_small ok (ghOf g held) retries b.i b.order hsm.1 hsm.2.1
          (fun f hf => ownedBy_of_mem g held.small b hbm f (by unfold Blk.has; rw [hst]; exact hf)))
        rintro r gh1 ⟨rfl, h1⟩
        simp only
        obtain ⟨e1, e2⟩ := ownedBy_eraseIdx g held.small idx b hok.1 hg
        have : gh1 = ghOf g { held with small := held.small.eraseIdx idx } := by
          rw [h1]
          refine Gh.ext' _ _ ?_ rfl (fun _ => rfl)
          show subBlock (ownedBy g held.small) b.i (2 ^ b.order) = ownedBy g (held.small.eraseIdx idx)
          rw [e1, hst]
        rw [this]
        apply ih
        exact ⟨e2, fun b' hb' => hok.2.1 b' (List.mem_of_mem_eraseIdx hb'), hok.2.2⟩
    | putH idx =>
      unfold runL
      cases hg : held.huge[idx]? with
      | none => exact ih held hok
      | some b =>
        simp only
        have hbm : b ∈ held.huge := List.mem_of_getElem? hg
        have hbok := hok.2.2.mem b hbm
        apply SafeL.bind _ _ _ (putL_huge ok (ghOf g held) retries b.frame b.order hbok.1 hbok.2
          (fun x hx => ownedHBy_of_mem g held.huge b hbm x hx))
        rintro r gh1 ⟨rfl, h1⟩
        simp only
        obtain ⟨e1, e2⟩ := ownedHBy_eraseIdx g held.huge idx b hok.2.2 hg
        have : gh1 = ghOf g { held with huge := held.huge.eraseIdx idx } := by
          rw [h1]
          refine Gh.ext' _ _ rfl ?_ (fun _ => rfl)
          funext x
          show (ownedHBy g held.huge x && !inBlockF (b.frame / g.hugeFrames) (2 ^ (b.order - g.hugeOrder)) x) =
            ownedHBy g (held.huge.eraseIdx idx) x
          rw [e1 x]; rfl
        rw [this]
        apply ih
        exact ⟨hok.1, hok.2.1, e2⟩


theorem blockSum_zero (n : Nat) : blockSum (fun _ => 0) n = 0 := by
  induction n with
  | zero => rfl
  | succ n ih => rw [blockSum, ih]

/-- a quiescent state of the lower allocator (`LowerInv`, e.g. after initialisation, recovery or
    any sequential history) with `n` threads about to run their commands satisfies the invariant -/
theorem LInv.init {c : Cfg} (ok : GeomOk16 c.geom) (m : Mem) (inv : LowerInv c m) (n retries : Nat) (cmds : Nat → List LCmd) :
    LInv true c.geom n c.frames (fun (held' : Held) gh' => gh' = ghOf c.geom held' ∧ HeldOkL c.geom held') m
      (fun k => Th.at (runL c.geom retries (cmds k) ⟨[], []⟩)) (fun _ => ghOf c.geom ⟨[], []⟩) := by
  have okg := ok.toGeomOk
  have hus : ∀ h, usum n (fun _ => ghOf c.geom ⟨[], []⟩) h = 0 := fun h => blockSum_zero n
  have hbeyond : ∀ h, c.nhuge ≤ h → zerosIn c.geom m h = 0 := by
    intro h hh
    unfold zerosIn
    apply List.countP_eq_zero.2
    intro i hi
    have hi' := List.mem_range.1 hi
    have hrow : m.rows[(h * c.geom.hugeFrames + i) / 64]? = none := by
      apply Array.getElem?_eq_none
      rw [inv.rowsSize, okg.frame_row]
      have : c.nhuge * c.geom.rows ≤ h * c.geom.rows := Nat.mul_le_mul_right _ hh
      omega
    unfold Mem.bit
    rw [hrow]; simp
  refine ⟨fun k => runL_safe ok retries (cmds k) ⟨[], []⟩ ⟨trivial, (fun b hb => by cases hb), trivial⟩, ?_, ?_, ?_, ?_, ?_, ?_, ?_, ?_⟩
  · intro j k _ f hf; simp [ghOf, ownedBy] at hf
  · intro k f hf; simp [ghOf, ownedBy] at hf
  · intro j k _ h hf; simp [ghOf, ownedHBy] at hf
  · intro k h hf; simp [ghOf, ownedHBy] at hf
  · intro h hm
    by_cases hh : h < c.nhuge
    · exact ⟨(zerosIn_eq_full_iff m h).2 (inv.marker h hh hm).2, hus h⟩
    · rw [inv.beyond h (by omega)] at hm; cases hm
  · intro h hm
    rw [hus h, Nat.add_zero]
    by_cases hh : h < c.nhuge
    · exact inv.count h hh hm
    · rw [inv.beyond h (by omega), hbeyond h (by omega)]
  · exact inv.outside
  · intro k f _; simp [ghOf, ownedBy]

/-- what holds in every reachable state -/
def SameSizes (m m' : Mem) : Prop :=
  m'.rows.size = m.rows.size ∧ m'.huge.size = m.huge.size ∧ m'.trees.size = m.trees.size ∧ m'.slots.size = m.slots.size

theorem Mem.set_sizes (m : Mem) (k : Kind) (i : Nat) (v : k.Val) : SameSizes m (m.set k i v) := by
  cases k <;> simp [SameSizes, Mem.set]

theorem SameSizes.trans {a b c : Mem} (h1 : SameSizes a b) (h2 : SameSizes b c) : SameSizes a c :=
  ⟨h2.1.trans h1.1, h2.2.1.trans h1.2.1, h2.2.2.1.trans h1.2.2.1, h2.2.2.2.trans h1.2.2.2⟩

theorem Th.step_sizes {α : Type} (t : Th α) (m : Mem) : match t.step m with
    | .step _ m' _ => SameSizes m m'
    | _ => True := by
  have r : SameSizes m m := ⟨rfl, rfl, rfl, rfl⟩
  cases t with
  | «at» p =>
    cases p with
    | ret a => trivial
    | panic s => trivial
    | load k i c =>
      simp only [Th.step]
      cases m.get? k i with
      | none => trivial
      | some o => exact r
    | store k i v c =>
      simp only [Th.step]
      cases m.get? k i with
      | none => trivial
      | some o => exact Mem.set_sizes m k i v
    | swap k i v c =>
      simp only [Th.step]
      cases m.get? k i with
      | none => trivial
      | some o => exact Mem.set_sizes m k i v
    | cas k i e nw c =>
      simp only [Th.step]
      cases m.get? k i with
      | none => trivial
      | some o =>
        by_cases he : o = e
        · simp only [he, if_true]; exact Mem.set_sizes m k i nw
        · simp only [he, if_false]; exact r
    | casPart i sh w e nw c =>
      simp only [Th.step]
      cases m.get? .row i with
      | none => trivial
      | some o =>
        simp only
        cases casPartVal o sh w e nw with
        | none => exact r
        | some x => exact Mem.set_sizes m .row i x
    | upd k i f c =>
      simp only [Th.step]
      cases m.get? k i with
      | none => trivial
      | some o => exact r
  | updCas k i f cur new c =>
    simp only [Th.step]
    cases m.get? k i with
    | none => trivial
    | some o =>
      by_cases he : o = cur
      · simp only [he, if_true]; exact Mem.set_sizes m k i new
      · simp only [he, if_false]; exact r

theorem concRun_sizes {α : Type} (sched : List Nat) : ∀ (m : Mem) (ths : Nat → Th α), SameSizes m (concRun sched (m, ths)).1 := by
  induction sched with
  | nil => exact fun m _ => ⟨rfl, rfl, rfl, rfl⟩
  | cons k rest ih =>
    intro m ths
    unfold concRun
    simp only [List.foldl_cons]
    unfold concStep
    simp only
    have hs := Th.step_sizes (ths k) m
    cases hst : (ths k).step m with
    | done a => simp only; exact ih m ths
    | dead s => simp only; exact ih m ths
    | step t' m' a =>
      rw [hst] at hs
      exact SameSizes.trans hs (ih m' (fupd ths k t'))

structure LowerConcOk (g : Geom) (n : Nat) (m : Mem) (ths : Nat → Th Held) (ghs : Nat → Gh) : Prop where
  /-- small blocks of different threads are disjoint -/
  disjS : ∀ j k, j ≠ k → ∀ f, (ghs j).ownS f = true → (ghs k).ownS f = false
  /-- huge blocks of different threads are disjoint -/
  disjH : ∀ j k, j ≠ k → ∀ h, (ghs j).ownH h = true → (ghs k).ownH h = false
  /-- no frame is held both as part of a small and of a huge block (by any threads) -/
  disjSH : ∀ j k f, (ghs j).ownS f = true → (ghs k).ownH (f / g.hugeFrames) = false
  /-- held frames are marked allocated -/
  heldS : ∀ k f, (ghs k).ownS f = true → m.bit f = true
  heldH : ∀ k h, (ghs k).ownH h = true → Huge.isHuge (m.hugeE h) = true
  /-- a counter never exceeds the number of zero bits of its bitfield -/
  counter_le : ∀ h, Huge.isHuge (m.hugeE h) = false → m.hugeE h ≤ zerosIn g m h
  /-- the bitfield of a whole-huge allocation is empty -/
  marker : ∀ h, Huge.isHuge (m.hugeE h) = true → zerosIn g m h = g.hugeFrames
  /-- no thread is about to panic; a finished thread holds exactly its (valid, disjoint) blocks -/
  threads : ∀ k, k < n → match (ths k).step m with
    | .done held => ghs k = ghOf g held ∧ HeldOkL g held
    | .dead s => s = oobMsg
    | .step _ _ _ => True
  /-- once every thread is done the counters are exact -/
  quiescent : (∀ k, k < n → ∃ held, (ths k).step m = .done held) → ∀ h, Huge.isHuge (m.hugeE h) = false → m.hugeE h = zerosIn g m h

/-- **C01 / C03 / C05 for the whole lower allocator, every interleaving.** From a quiescent
    state, `n` threads run arbitrary command lists (allocations of any order up to the tree
    order, targeted allocations, frees of blocks they hold); after any schedule the state
    satisfies `LowerConcOk`. -/
theorem lower_threads_safe {c : Cfg} (ok : GeomOk16 c.geom) (m : Mem) (inv : LowerInv c m) (n retries : Nat) (cmds : Nat → List LCmd)
    (sched : List Nat) (hsched : ∀ k ∈ sched, k < n) :
    ∃ ghs, LowerConcOk c.geom n
      (concRun sched (m, fun k => Th.at (runL c.geom retries (cmds k) ⟨[], []⟩))).1
      (concRun sched (m, fun k => Th.at (runL c.geom retries (cmds k) ⟨[], []⟩))).2 ghs := by
  have okg := ok.toGeomOk
  have hhf : Huge.isHuge c.geom.hugeFrames = false := isHuge_of_le ok _ (Nat.le_refl _)
  obtain ⟨ghs, I⟩ := LInv.run okg hhf sched hsched m _ _ (LInv.init ok m inv n retries cmds)
  refine ⟨ghs, ?_⟩
  generalize (concRun sched (m, fun k => Th.at (runL c.geom retries (cmds k) ⟨[], []⟩))).1 = m' at I ⊢
  generalize (concRun sched (m, fun k => Th.at (runL c.geom retries (cmds k) ⟨[], []⟩))).2 = ths' at I ⊢
  refine ⟨I.disjS, I.disjH, ?_, I.heldS, I.heldH, fun h hm => I.counter_le h hm, fun h hm => (I.marker h hm).1, ?_, ?_⟩
  · intro j k f hf
    cases hH : (ghs k).ownH (f / c.geom.hugeFrames) with
    | false => rfl
    | true =>
      have hz := (I.marker _ (I.heldH k _ hH)).1
      have hall := (zerosIn_eq_full_iff m' (f / c.geom.hugeFrames)).1 hz (f % c.geom.hugeFrames) (Nat.mod_lt _ okg.hf_pos)
      rw [frame_split] at hall
      rw [I.heldS j f hf] at hall; cases hall
  · intro k hk
    have := I.step okg hhf k hk
    cases hs : (ths' k).step m' with
    | done a => rw [hs] at this; exact this
    | dead s => rw [hs] at this; rcases this with h | ⟨h, _⟩; exact h; cases h
    | step t' m'' a => trivial
  · intro hdone h hm
    have hc := I.count h hm
    have : usum n ghs h = 0 := by
      unfold usum
      have : blockSum (fun k => (ghs k).u h) n = blockSum (fun _ => 0) n := by
        apply blockSum_congr
        intro k hk
        obtain ⟨held, hd⟩ := hdone k hk
        have := I.step okg hhf k hk
        rw [hd] at this
        rw [this.1]; rfl
      rw [this, blockSum_zero]
    omega


/-- the invariant makes every reachable state a legal crash image -/
theorem LInv.crashInv {α : Type} {c : Cfg} (okg : GeomOk c.geom) {n : Nat} {Post : α → Gh → Prop} {m : Mem} {ths : Nat → Th α} {ghs : Nat → Gh}
    (I : LInv true c.geom n c.frames Post m ths ghs) (hr : m.rows.size = c.nhuge * c.geom.rows)
    (hh : m.huge.size = c.ntrees * c.geom.treeHuge) : CrashInv c m := by
  have hbeyond : ∀ h, c.nhuge ≤ h → zerosIn c.geom m h = 0 := by
    intro h hh'
    unfold zerosIn
    apply List.countP_eq_zero.2
    intro i hi
    have hrow : m.rows[(h * c.geom.hugeFrames + i) / 64]? = none := by
      apply Array.getElem?_eq_none
      rw [hr, okg.frame_row]
      have : c.nhuge * c.geom.rows ≤ h * c.geom.rows := Nat.mul_le_mul_right _ hh'
      omega
    unfold Mem.bit
    rw [hrow]; simp
  refine ⟨hr, hh, ?_, ?_, I.outside⟩
  · intro h hge
    have hz := hbeyond h hge
    cases hm : Huge.isHuge (m.hugeE h) with
    | true => have := (I.marker h hm).1; have := okg.hf_pos; omega
    | false => have := I.count h hm; omega
  · intro h _ hm
    have hz := (I.marker h hm).1
    have hall := (zerosIn_eq_full_iff m h).1 hz
    have hpos := okg.hf_pos
    refine Nat.le_of_not_lt (fun hlt => ?_)
    -- the last frame of `h` lies outside the managed range, so its bit is set
    have h1 := hall (c.geom.hugeFrames - 1) (by omega)
    have h2 := I.outside (h * c.geom.hugeFrames + (c.geom.hugeFrames - 1)) (by rw [Nat.add_mul] at hlt; omega)
    rw [h1] at h2; cases h2

/-- **Crash at any instant of any interleaving, then recovery** (C05 under concurrency): the
    recovered state satisfies the full lower invariant, and everything a thread held at the
    crash — completed allocations as well as the holdings of calls in flight — is still
    allocated afterwards. -/
theorem lower_crash_anywhere_recovers {c : Cfg} (ok : GeomOk16 c.geom) (m : Mem) (inv : LowerInv c m) (ht : m.trees.size = c.ntrees)
    (n retries : Nat) (cmds : Nat → List LCmd) (sched : List Nat) (hsched : ∀ k ∈ sched, k < n) :
    ∃ ghs, LowerConcOk c.geom n
        (concRun sched (m, fun k => Th.at (runL c.geom retries (cmds k) ⟨[], []⟩))).1
        (concRun sched (m, fun k => Th.at (runL c.geom retries (cmds k) ⟨[], []⟩))).2 ghs ∧
      Runs (concRun sched (m, fun k => Th.at (runL c.geom retries (cmds k) ⟨[], []⟩))).1
        (Lower.recover c.geom c.ntrees c.nhuge) (fun _ m'' => LowerInv c m'' ∧
          (∀ k f, (ghs k).ownS f = true → m''.bit f = true) ∧
          (∀ k h, (ghs k).ownH h = true → Huge.isHuge (m''.hugeE h) = true)) := by
  have okg := ok.toGeomOk
  have hhf : Huge.isHuge c.geom.hugeFrames = false := isHuge_of_le ok _ (Nat.le_refl _)
  obtain ⟨ghs, hok⟩ := lower_threads_safe ok m inv n retries cmds sched hsched
  obtain ⟨ghs2, I⟩ := LInv.run okg hhf sched hsched m _ _ (LInv.init ok m inv n retries cmds)
  have hsz := concRun_sizes sched m (fun k => Th.at (runL c.geom retries (cmds k) ⟨[], []⟩))
  refine ⟨ghs2, ?_, ?_⟩
  · -- the same construction as in `lower_threads_safe`
    generalize (concRun sched (m, fun k => Th.at (runL c.geom retries (cmds k) ⟨[], []⟩))).1 = m' at I ⊢
    generalize (concRun sched (m, fun k => Th.at (runL c.geom retries (cmds k) ⟨[], []⟩))).2 = ths' at I ⊢
    refine ⟨I.disjS, I.disjH, ?_, I.heldS, I.heldH, fun h hm => I.counter_le h hm, fun h hm => (I.marker h hm).1, ?_, ?_⟩
    · intro j k f hf
      cases hH : (ghs2 k).ownH (f / c.geom.hugeFrames) with
      | false => rfl
      | true =>
        have hz := (I.marker _ (I.heldH k _ hH)).1
        have hall := (zerosIn_eq_full_iff m' (f / c.geom.hugeFrames)).1 hz (f % c.geom.hugeFrames) (Nat.mod_lt _ okg.hf_pos)
        rw [frame_split] at hall
        rw [I.heldS j f hf] at hall; cases hall
    · intro k hk
      have := I.step okg hhf k hk
      cases hs : (ths' k).step m' with
      | done a => rw [hs] at this; exact this
      | dead s => rw [hs] at this; rcases this with h | ⟨h, _⟩; exact h; cases h
      | step t' m'' a => trivial
    · intro hdone h hm
      have hc := I.count h hm
      have : usum n ghs2 h = 0 := by
        unfold usum
        have : blockSum (fun k => (ghs2 k).u h) n = blockSum (fun _ => 0) n := by
          apply blockSum_congr
          intro k hk
          obtain ⟨held, hd⟩ := hdone k hk
          have := I.step okg hhf k hk
          rw [hd] at this
          rw [this.1]; rfl
        rw [this, blockSum_zero]
      omega
  · have ci := I.crashInv okg (by rw [hsz.1]; exact inv.rowsSize) (by rw [hsz.2.1]; exact inv.hugeSize)
    apply Runs.mono (recover_spec ok _ ci (by rw [hsz.2.2.1]; exact ht))
    rintro _ m'' ⟨hinv, hmark, hbits, _, _⟩
    refine ⟨hinv, ?_, ?_⟩
    · intro k f hf
      have hset := I.heldS k f hf
      have hnm : Huge.isHuge ((concRun sched (m, fun k => Th.at (runL c.geom retries (cmds k) ⟨[], []⟩))).1.hugeE (f / c.geom.hugeFrames)) = false := by
        cases hm : Huge.isHuge ((concRun sched (m, fun k => Th.at (runL c.geom retries (cmds k) ⟨[], []⟩))).1.hugeE (f / c.geom.hugeFrames)) with
        | false => rfl
        | true =>
          have hz := (I.marker _ hm).1
          have hall := (zerosIn_eq_full_iff _ (f / c.geom.hugeFrames)).1 hz (f % c.geom.hugeFrames) (Nat.mod_lt _ okg.hf_pos)
          rw [frame_split] at hall
          rw [hset] at hall; cases hall
      rw [hbits f hnm]; exact hset
    · intro k h hH
      rw [hmark h]; exact I.heldH k h hH

end
end LLFree
