/-
  The per-frame queries of the lower allocator: `stats_at(frame, 0)` and `is_free(frame, order)`
  return exactly what the allocation state says, read only, never panic.
-/
import LLFreeV.Proofs.LowerStats
import LLFreeV.Proofs.Bits
import LLFreeV.Proofs.LowerGetAt
import LLFreeV.Proofs.ToggleRows
namespace LLFree
section
variable {c : Cfg}

/-- the row of frame `f` inside its bitfield is the global row `f / 64` -/
theorem GeomOk.rowIdx_frame {g : Geom} (ok : GeomOk g) (f : Nat) :
    rowIdx g (f / g.hugeFrames) (f / 64 % g.rows) = f / 64 := by
  have h1 := ok.frame_row (f / g.hugeFrames) (f % g.hugeFrames)
  have h2 := ok.mod_hf_div f
  have h3 : f / g.hugeFrames * g.hugeFrames + f % g.hugeFrames = f := Nat.div_add_mod' f g.hugeFrames
  rw [h3] at h1
  simp only [rowIdx]; omega

/-- a counter of zero means every bit of the bitfield is set -/
theorem zerosIn_eq_zero_bit {g : Geom} (m : Mem) (h i : Nat) (hz : zerosIn g m h = 0) (hi : i < g.hugeFrames) :
    m.bit (h * g.hugeFrames + i) = true := by
  unfold zerosIn at hz
  rw [List.countP_eq_zero] at hz
  have := hz i (List.mem_range.2 hi)
  simpa using this

theorem row_lt_size (okg : GeomOk c.geom) {m : Mem} (inv : LowerInv c m) (f : Nat) (hf : f < c.frames) :
    f / 64 < m.rows.size := by
  have hh : f / c.geom.hugeFrames < c.nhuge := nhuge_lt_of_frame okg f 1 (by omega) (by omega)
  rw [inv.rowsSize]
  have h1 := okg.frame_row (f / c.geom.hugeFrames) (f % c.geom.hugeFrames)
  have h3 : f / c.geom.hugeFrames * c.geom.hugeFrames + f % c.geom.hugeFrames = f := Nat.div_add_mod' f c.geom.hugeFrames
  rw [h3] at h1
  have h4 : f % c.geom.hugeFrames / 64 < c.geom.rows := by
    have := Nat.mod_lt f okg.hf_pos
    have := okg.rows_mul
    omega
  have : (f / c.geom.hugeFrames + 1) * c.geom.rows ≤ c.nhuge * c.geom.rows := Nat.mul_le_mul_right _ hh
  rw [Nat.add_mul, Nat.one_mul] at this
  omega

/-- **`stats_at(frame, 0)`**: one free frame exactly if the frame is not allocated. -/
theorem statsAt_frame_exact (ok : GeomOk16 c.geom) (m : Mem) (inv : LowerInv c m) (f : Nat) (hf : f < c.frames) :
    runSolo (Lower.statsAt c.geom f 0) m =
      (m, .ok { freeFrames := if m.allocated c.geom f then 0 else 1 }) := by
  have okg := ok.toGeomOk
  have hh : f / c.geom.hugeFrames < c.nhuge := nhuge_lt_of_frame okg f 1 (by omega) (by omega)
  have hidx := okg.hugeIdx_eq f
  have hhsz := huge_lt_size okg inv _ hh
  have hE : m.get? .huge (f / c.geom.hugeFrames) = some (m.hugeE (f / c.geom.hugeFrames)) := by
    simp only [Mem.get?_huge]; unfold Mem.hugeE
    rw [Array.getElem?_eq_getElem hhsz]; rfl
  have h0 : f / c.geom.treeFrames * c.geom.treeHuge + 0 < m.huge.size := by
    have := Nat.mod_lt (f / c.geom.hugeFrames) okg.th_pos
    omega
  have hE0 : m.get? .huge (hugeIdx c.geom (f / c.geom.treeFrames) 0) = some (m.huge[f / c.geom.treeFrames * c.geom.treeHuge + 0]'h0) := by
    simp only [Mem.get?_huge, hugeIdx]; exact Array.getElem?_eq_getElem h0
  have hrow := row_lt_size okg inv f hf
  have hR : m.get? .row (f / 64) = some (m.rows[f / 64]'hrow) := by
    simp only [Mem.get?_row]; exact Array.getElem?_eq_getElem hrow
  have hbit : m.bit f = (m.rows[f / 64]'hrow).getLsbD (f % 64) := by
    unfold Mem.bit; rw [Array.getElem?_eq_getElem hrow]
  have hsplit : f / c.geom.hugeFrames * c.geom.hugeFrames + f % c.geom.hugeFrames = f := Nat.div_add_mod' f c.geom.hugeFrames
  unfold Lower.statsAt
  simp only [runSolo, hE0, if_true]
  simp only [runSolo_bind, hugeIdx, hidx, runSolo_loadK_some hE, andThen_ok]
  by_cases hm : Huge.isHuge (m.hugeE (f / c.geom.hugeFrames)) = true
  · have : ¬ Huge.free (m.hugeE (f / c.geom.hugeFrames)) > 0 := by simp [Huge.free, hm]
    simp only [this, if_false, runSolo_pure]
    simp [Mem.allocated, hm]
  · have hnm : Huge.isHuge (m.hugeE (f / c.geom.hugeFrames)) = false := by simpa using hm
    have hfree := Huge.free_of_not_huge _ hnm
    have hcnt := inv.count _ hh hnm
    by_cases hz : Huge.free (m.hugeE (f / c.geom.hugeFrames)) > 0
    · simp only [hz, if_true]
      unfold Bitfield.isZero Bitfield.getRow
      have h64 : ¬ 2 ^ 0 > 64 := by decide
      simp only [h64, if_false, runSolo_bind, okg.rowIdx_frame, runSolo_loadK_some hR, andThen_ok, runSolo_pure]
      have hiff := and_mask_eq_zero_iff (m.rows[f / 64]'hrow) (bitMask (2 ^ 0) (f % 64))
      have hlt := Nat.mod_lt f (by decide : 0 < 64)
      by_cases hb : m.bit f = true
      · have hne : ¬ (m.rows[f / 64]'hrow &&& bitMask (2 ^ 0) (f % 64) = 0#64) := by
          intro h
          have := hiff.1 h (f % 64) (by rw [bitMask_getLsbD _ _ _ (by decide)]; simp; omega)
          rw [← hbit, hb] at this; cases this
        simp [hne, Mem.allocated, hb]
      · have hb' : m.bit f = false := by simpa using hb
        have he : m.rows[f / 64]'hrow &&& bitMask (2 ^ 0) (f % 64) = 0#64 := by
          apply hiff.2
          intro i hi
          rw [bitMask_getLsbD _ _ _ (by decide)] at hi
          have : i = f % 64 := by simp at hi; omega
          rw [this, ← hbit]; exact hb'
        simp [he, Mem.allocated, hb', hnm]
    · simp only [hz, if_false, runSolo_pure]
      have hzero : zerosIn c.geom m (f / c.geom.hugeFrames) = 0 := by omega
      have := zerosIn_eq_zero_bit m _ _ hzero (Nat.mod_lt f okg.hf_pos)
      rw [hsplit] at this
      simp [Mem.allocated, this]

/-! ### `is_free` -/

/-- the loop of `is_free` over the table entries of a huge block -/
theorem isFreeGo_spec {g : Geom} (m : Mem) (t i : Nat) :
    ∀ (cnt k : Nat), (∀ j, j < cnt → hugeIdx g t (i + (k + j)) < m.huge.size) →
      ∃ b, runSolo (Lower.isFree.go g t i cnt k) m = (m, .ok b) ∧
        (b = true ↔ ∀ j, j < cnt → Huge.free (m.hugeE (hugeIdx g t (i + (k + j)))) = g.hugeFrames) := by
  intro cnt
  induction cnt with
  | zero =>
    intro k _
    exact ⟨true, by rw [Lower.isFree.go]; rfl, by simp⟩
  | succ cnt ih =>
    intro k hsz
    rw [Lower.isFree.go]
    have h0 := hsz 0 (by omega)
    rw [Nat.add_zero] at h0
    have hE : m.get? .huge (hugeIdx g t (i + k)) = some (m.hugeE (hugeIdx g t (i + k))) := by
      simp only [Mem.get?_huge]; unfold Mem.hugeE
      rw [Array.getElem?_eq_getElem h0]; rfl
    simp only [runSolo_bind, runSolo_loadK_some hE, andThen_ok]
    by_cases hf : Huge.free (m.hugeE (hugeIdx g t (i + k))) = g.hugeFrames
    · simp only [hf, if_true]
      obtain ⟨b, hb, hiff⟩ := ih (k + 1) (fun j hj => by
        have := hsz (j + 1) (by omega)
        rwa [show k + (j + 1) = k + 1 + j by omega] at this)
      refine ⟨b, hb, ?_⟩
      rw [hiff]
      constructor
      · intro hall j hj
        cases j with
        | zero => simpa using hf
        | succ j =>
          have := hall j (by omega)
          rwa [show k + 1 + j = k + (j + 1) by omega] at this
      · intro hall j hj
        have := hall (j + 1) (by omega)
        rwa [show k + (j + 1) = k + 1 + j by omega] at this
    · simp only [hf, if_false]
      refine ⟨false, rfl, ?_⟩
      constructor
      · intro h; cases h
      · intro hall
        have := hall 0 (by omega)
        rw [Nat.add_zero] at this
        exact absurd this hf

/-- the loop of `is_zero` over whole rows; `R` is the global index of the first row read -/
theorem isZeroGo_spec {g : Geom} (m : Mem) (h : Nat) :
    ∀ (cnt r R : Nat), (∀ j, j < cnt → rowIdx g h ((r + j) % g.rows) = R + j) → R + cnt ≤ m.rows.size →
      ∃ b, runSolo (Bitfield.isZero.go g h cnt r) m = (m, .ok b) ∧
        (b = true ↔ ∀ j, j < cnt → m.rows[R + j]? = some 0#64) := by
  intro cnt
  induction cnt with
  | zero =>
    intro r R _ _
    exact ⟨true, by rw [Bitfield.isZero.go]; rfl, by simp⟩
  | succ cnt ih =>
    intro r R hidx hsz
    rw [Bitfield.isZero.go]
    obtain ⟨v, hv⟩ : ∃ v, m.rows[R]? = some v := ⟨_, Array.getElem?_eq_getElem (by omega)⟩
    have hi0 := hidx 0 (by omega)
    simp only [Nat.add_zero] at hi0
    have hload : runSolo (Bitfield.getRow g h r) m = (m, .ok v) := by
      unfold Bitfield.getRow
      exact runSolo_loadK_some (by rw [hi0]; simpa using hv)
    simp only [runSolo_bind, hload, andThen_ok]
    by_cases hz : v = (0 : BitVec 64)
    · simp only [hz, if_true]
      have hv0 : m.rows[R]? = some 0#64 := by rw [hv, hz]; rfl
      obtain ⟨b, hb, hiff⟩ := ih (r + 1) (R + 1) (fun j hj => by
        have := hidx (j + 1) (by omega)
        rwa [show r + (j + 1) = r + 1 + j by omega, show R + (j + 1) = R + 1 + j by omega] at this) (by omega)
      refine ⟨b, hb, ?_⟩
      rw [hiff]
      constructor
      · intro hall j hj
        cases j with
        | zero => simpa using hv0
        | succ j =>
          have := hall j (by omega)
          rwa [show R + 1 + j = R + (j + 1) by omega] at this
      · intro hall j hj
        have := hall (j + 1) (by omega)
        rwa [show R + (j + 1) = R + 1 + j by omega] at this
    · simp only [hz, if_false]
      refine ⟨false, rfl, ?_⟩
      constructor
      · intro hh; cases hh
      · intro hall
        have := hall 0 (by omega)
        rw [Nat.add_zero, hv] at this
        injection this with this
        exact absurd this hz

theorem Huge.free_eq_full_iff {g : Geom} (h16 : g.hugeFrames < 65535) (hpos : 0 < g.hugeFrames) (e : Nat) :
    Huge.free e = g.hugeFrames ↔ e = g.hugeFrames := by
  constructor
  · intro hf
    cases hx : Huge.isHuge e with
    | true => simp [Huge.free, hx] at hf; omega
    | false => rwa [Huge.free_of_not_huge _ hx] at hf
  · intro he
    have : Huge.isHuge e = false := by rw [he]; simp [Huge.isHuge, HugeMarker]; omega
    rw [Huge.free_of_not_huge _ this]; exact he

/-- the frames `[F, F + n)` are all free (not allocated) -/
def Mem.blockFree (g : Geom) (m : Mem) (F n : Nat) : Prop := ∀ i, i < n → m.allocated g (F + i) = false

/-- **`is_free(frame, order)`**, orders from the huge order up: decided from the table entries. -/
theorem isFree_huge_exact (ok : GeomOk16 c.geom) (m : Mem) (inv : LowerInv c m) (frame order : Nat)
    (hal : frame % 2 ^ order = 0) (hin : frame + 2 ^ order ≤ c.frames) (hto : order ≤ c.geom.treeOrder)
    (ho : c.geom.hugeOrder ≤ order) :
    ∃ b, runSolo (Lower.isFree c.geom frame order) m = (m, .ok b) ∧
      (b = true ↔ m.blockFree c.geom frame (2 ^ order)) := by
  have okg := ok.toGeomOk
  have hHF := okg.hf_pos
  have hfits := okg.huge_block_fits frame order ho hto hal
  have hidx := okg.hugeIdx_eq frame
  have hn : 2 ^ order = 2 ^ (order - c.geom.hugeOrder) * c.geom.hugeFrames := by
    show _ = _ * 2 ^ c.geom.hugeOrder
    rw [← Nat.pow_add]; congr 1; omega
  -- the block starts at a huge-frame boundary
  have hfr : frame = frame / c.geom.hugeFrames * c.geom.hugeFrames := by
    have hdvd : c.geom.hugeFrames ∣ frame :=
      Nat.dvd_trans ⟨2 ^ (order - c.geom.hugeOrder), by rw [Nat.mul_comm]; exact hn⟩ (Nat.dvd_of_mod_eq_zero hal)
    exact (Nat.div_mul_cancel hdvd).symm
  have hhj : ∀ j, j < 2 ^ (order - c.geom.hugeOrder) → frame / c.geom.hugeFrames + j < c.nhuge := by
    intro j hj
    have h1 : (j + 1) * c.geom.hugeFrames ≤ 2 ^ (order - c.geom.hugeOrder) * c.geom.hugeFrames :=
      Nat.mul_le_mul_right _ hj
    rw [Nat.add_mul, Nat.one_mul] at h1
    have := nhuge_lt_of_frame okg (frame + j * c.geom.hugeFrames) 1 (by omega) (by omega)
    have e : (frame + j * c.geom.hugeFrames) / c.geom.hugeFrames = frame / c.geom.hugeFrames + j := by
      rw [Nat.add_mul_div_right _ _ hHF]
    rwa [e] at this
  unfold Lower.isFree
  have hge : order ≥ c.geom.hugeOrder := ho
  simp only [hge, if_true]
  have hnot : ¬ (frame / c.geom.hugeFrames % c.geom.treeHuge + 2 ^ (order - c.geom.hugeOrder) > c.geom.treeHuge) := by
    omega
  simp only [hnot, if_false]
  obtain ⟨b, hb, hiff⟩ := isFreeGo_spec (g := c.geom) m (frame / c.geom.treeFrames)
    (frame / c.geom.hugeFrames % c.geom.treeHuge) (2 ^ (order - c.geom.hugeOrder)) 0 (fun j hj => by
      have := huge_lt_size okg inv _ (hhj j hj)
      simp only [hugeIdx]; omega)
  refine ⟨b, hb, ?_⟩
  rw [hiff]
  have hI : ∀ j, hugeIdx c.geom (frame / c.geom.treeFrames) (frame / c.geom.hugeFrames % c.geom.treeHuge + (0 + j))
      = frame / c.geom.hugeFrames + j := by
    intro j; simp only [hugeIdx]; omega
  constructor
  · intro hall x hx
    -- x = j * HF + y
    have hj : x / c.geom.hugeFrames < 2 ^ (order - c.geom.hugeOrder) := by
      apply (Nat.div_lt_iff_lt_mul hHF).2; omega
    have h1 := hall _ hj
    rw [hI, Huge.free_eq_full_iff ok.hf_lt hHF] at h1
    have h2 := (inv.huge_free_iff okg ok.hf_lt _ (hhj _ hj)).2 h1 (x % c.geom.hugeFrames) (Nat.mod_lt _ hHF)
    have e : (frame / c.geom.hugeFrames + x / c.geom.hugeFrames) * c.geom.hugeFrames + x % c.geom.hugeFrames = frame + x := by
      rw [Nat.add_mul, ← hfr]
      have := Nat.div_add_mod' x c.geom.hugeFrames
      omega
    rwa [e] at h2
  · intro hall j hj
    rw [hI, Huge.free_eq_full_iff ok.hf_lt hHF]
    apply (inv.huge_free_iff okg ok.hf_lt _ (hhj j hj)).1
    intro y hy
    have h1 : (j + 1) * c.geom.hugeFrames ≤ 2 ^ (order - c.geom.hugeOrder) * c.geom.hugeFrames :=
      Nat.mul_le_mul_right _ hj
    rw [Nat.add_mul, Nat.one_mul] at h1
    have := hall (j * c.geom.hugeFrames + y) (by omega)
    have e : frame + (j * c.geom.hugeFrames + y) = (frame / c.geom.hugeFrames + j) * c.geom.hugeFrames + y := by
      rw [Nat.add_mul, ← hfr]; omega
    rwa [e] at this

/-- **`is_free(frame, order)`**, orders below the huge order: counter shortcut, then the bits. -/
theorem isFree_small_exact (ok : GeomOk16 c.geom) (m : Mem) (inv : LowerInv c m) (frame order : Nat)
    (hal : frame % 2 ^ order = 0) (hin : frame + 2 ^ order ≤ c.frames)
    (ho : order < c.geom.hugeOrder) :
    ∃ b, runSolo (Lower.isFree c.geom frame order) m = (m, .ok b) ∧
      (b = true ↔ m.blockFree c.geom frame (2 ^ order)) := by
  have okg := ok.toGeomOk
  have hHF := okg.hf_pos
  have hpos : 0 < 2 ^ order := Nat.pos_of_ne_zero (by simp)
  have hh : frame / c.geom.hugeFrames < c.nhuge := nhuge_lt_of_frame okg frame (2 ^ order) hpos hin
  have hidx := okg.hugeIdx_eq frame
  have hhsz := huge_lt_size okg inv _ hh
  have hE : m.get? .huge (frame / c.geom.hugeFrames) = some (m.hugeE (frame / c.geom.hugeFrames)) := by
    simp only [Mem.get?_huge]; unfold Mem.hugeE
    rw [Array.getElem?_eq_getElem hhsz]; rfl
  have hblk := block_in_huge okg frame order (by omega) hal
  have hdec := frame_decomp c.geom frame
  -- every frame of the block lies in huge frame `h`
  have hdiv : ∀ x, x < 2 ^ order → (frame + x) / c.geom.hugeFrames = frame / c.geom.hugeFrames := by
    intro x hx
    apply div_eq_of_in_huge c.geom hHF
    · omega
    · omega
  have hallocd : ∀ x, x < 2 ^ order → m.allocated c.geom (frame + x) =
      (Huge.isHuge (m.hugeE (frame / c.geom.hugeFrames)) || m.bit (frame + x)) := by
    intro x hx; unfold Mem.allocated; rw [hdiv x hx]
  -- a free block implies: not a huge allocation, and the block of bits is zero
  have hfree_iff : m.blockFree c.geom frame (2 ^ order) ↔
      (Huge.isHuge (m.hugeE (frame / c.geom.hugeFrames)) = false ∧ blockAll m frame (2 ^ order) false) := by
    constructor
    · intro hall
      have h0 := hall 0 hpos
      rw [hallocd 0 hpos] at h0
      have hnm : Huge.isHuge (m.hugeE (frame / c.geom.hugeFrames)) = false := by
        cases hx : Huge.isHuge (m.hugeE (frame / c.geom.hugeFrames)) with
        | false => rfl
        | true => rw [hx] at h0; simp at h0
      refine ⟨hnm, fun x hx => ?_⟩
      have := hall x hx
      rw [hallocd x hx, hnm] at this
      simpa using this
    · intro ⟨hnm, hall⟩ x hx
      rw [hallocd x hx, hnm, hall x hx]; rfl
  have hnot : ¬ order ≥ c.geom.hugeOrder := by omega
  unfold Lower.isFree
  simp only [hnot, if_false, runSolo_bind, hugeIdx, hidx, runSolo_loadK_some hE, andThen_ok]
  by_cases h1 : Huge.free (m.hugeE (frame / c.geom.hugeFrames)) < 2 ^ order
  · -- fewer free frames than the block has
    simp only [h1, if_true, runSolo_pure]
    refine ⟨false, rfl, ?_⟩
    constructor
    · intro h; cases h
    · intro hall
      obtain ⟨hnm, hb⟩ := hfree_iff.1 hall
      have hle := blockAll_false_le_zeros c.geom m (frame / c.geom.hugeFrames) (frame % c.geom.hugeFrames) (2 ^ order)
        hblk.2 (by rw [← hdec]; exact hb)
      rw [Huge.free_of_not_huge _ hnm, inv.count _ hh hnm] at h1
      omega
  · simp only [h1, if_false]
    have hnm : Huge.isHuge (m.hugeE (frame / c.geom.hugeFrames)) = false := by
      cases hx : Huge.isHuge (m.hugeE (frame / c.geom.hugeFrames)) with
      | false => rfl
      | true => simp [Huge.free, hx] at h1
    by_cases h2 : Huge.free (m.hugeE (frame / c.geom.hugeFrames)) = c.geom.hugeFrames
    · -- entirely free huge frame
      simp only [h2, if_true, runSolo_pure]
      refine ⟨true, rfl, ?_⟩
      simp only [true_iff]
      have hfull := (Huge.free_eq_full_iff ok.hf_lt hHF _).1 h2
      have hall := (inv.huge_free_iff okg ok.hf_lt _ hh).2 hfull
      intro x hx
      have := hall (frame % c.geom.hugeFrames + x) (by omega)
      rwa [← Nat.add_assoc, ← hdec] at this
    · simp only [h2, if_false]
      rw [hfree_iff]
      simp only [hnm, true_and]
      -- the bits decide
      unfold Bitfield.isZero
      by_cases h64 : 2 ^ order > 64
      · -- whole rows
        simp only [h64, if_true]
        have ho6 : 6 < order := by
          apply Nat.lt_of_not_le; intro hle
          have : 2 ^ order ≤ 2 ^ 6 := Nat.pow_le_pow_right (by decide) hle
          omega
        have hn : 2 ^ order = 2 ^ (order - 6) * 64 := by
          have : (64 : Nat) = 2 ^ 6 := rfl
          rw [this, ← Nat.pow_add]; congr 1; omega
        have hdvd : 64 ∣ frame :=
          Nat.dvd_trans ⟨2 ^ (order - 6), by rw [Nat.mul_comm]; exact hn⟩ (Nat.dvd_of_mod_eq_zero hal)
        have hfr : frame / 64 * 64 = frame := Nat.div_mul_cancel hdvd
        have hcnt : (frame + 2 ^ order) / 64 - frame / 64 = 2 ^ (order - 6) := by
          rw [hn, Nat.add_mul_div_right _ _ (by decide : 0 < 64)]; omega
        rw [hcnt]
        have hrowsz : frame / 64 + 2 ^ (order - 6) ≤ m.rows.size := by
          have := row_lt_size okg inv (frame + 2 ^ order - 1) (by omega)
          have e : (frame + 2 ^ order - 1) / 64 = frame / 64 + (2 ^ (order - 6) - 1) := by
            have hp : 0 < 2 ^ (order - 6) := Nat.pos_of_ne_zero (by simp)
            omega
          have hp : 0 < 2 ^ (order - 6) := Nat.pos_of_ne_zero (by simp)
          omega
        obtain ⟨b, hb, hiff⟩ := isZeroGo_spec (g := c.geom) m (frame / c.geom.hugeFrames) (2 ^ (order - 6))
          (frame / 64) (frame / 64) (fun j hj => by
            have hx : 64 * j < 2 ^ order := by omega
            have := okg.rowIdx_frame (frame + 64 * j)
            rw [hdiv _ hx] at this
            have e : (frame + 64 * j) / 64 = frame / 64 + j := by omega
            rwa [e] at this) hrowsz
        refine ⟨b, hb, ?_⟩
        rw [hiff]
        have hc := rows_const_iff m (frame / 64) (2 ^ (order - 6)) false hrowsz
        simp only [Bool.false_eq_true, if_false] at hc
        rw [hfr, ← hn] at hc
        rw [← hc]
        constructor
        · intro hall r hr1 hr2
          have := hall (r - frame / 64) (by omega)
          rwa [show frame / 64 + (r - frame / 64) = r by omega] at this
        · intro hall j hj
          exact hall _ (by omega) (by omega)
      · -- inside one row
        simp only [h64, if_false]
        have ho6 : order ≤ 6 := by
          apply Nat.le_of_not_lt; intro hlt
          have : 2 ^ 7 ≤ 2 ^ order := Nat.pow_le_pow_right (by decide) hlt
          omega
        have hrow := row_lt_size okg inv frame (by omega)
        have hR : m.get? .row (frame / 64) = some (m.rows[frame / 64]'hrow) := by
          simp only [Mem.get?_row]; exact Array.getElem?_eq_getElem hrow
        have hRr : m.rows[frame / 64]? = some (m.rows[frame / 64]'hrow) := Array.getElem?_eq_getElem hrow
        unfold Bitfield.getRow
        simp only [runSolo_bind, okg.rowIdx_frame, runSolo_loadK_some hR, andThen_ok, runSolo_pure]
        refine ⟨_, rfl, ?_⟩
        rw [decide_eq_true_iff]
        show (m.rows[frame / 64]'hrow &&& bitMask (2 ^ order) (frame % 64) = 0#64) ↔ _
        rw [and_mask_eq_zero_iff]
        have hsw := aligned_in_row okg frame order ho6 hal
        have hb := row_block_iff m (frame / 64) (frame % 64) (2 ^ order) (m.rows[frame / 64]'hrow) false hRr hsw
        rw [show frame / 64 * 64 + frame % 64 = frame by omega] at hb
        rw [← hb]
        constructor
        · intro hall j hj
          apply hall
          rw [bitMask_getLsbD _ _ _ (by omega)]
          simp; omega
        · intro hall i hi
          rw [bitMask_getLsbD _ _ _ (by omega)] at hi
          simp at hi
          have := hall (i - frame % 64) (by omega)
          rwa [show frame % 64 + (i - frame % 64) = i by omega] at this

/-- **`is_free(frame, order)`** answers exactly whether every frame of the block is free, reads
    only and never panics (for the arguments the source asserts: aligned, in range, order ≤ TREE_ORDER). -/
theorem isFree_exact (ok : GeomOk16 c.geom) (m : Mem) (inv : LowerInv c m) (frame order : Nat)
    (hal : frame % 2 ^ order = 0) (hin : frame + 2 ^ order ≤ c.frames) (hto : order ≤ c.geom.treeOrder) :
    ∃ b, runSolo (Lower.isFree c.geom frame order) m = (m, .ok b) ∧
      (b = true ↔ m.blockFree c.geom frame (2 ^ order)) := by
  by_cases ho : c.geom.hugeOrder ≤ order
  · exact isFree_huge_exact ok m inv frame order hal hin hto ho
  · exact isFree_small_exact ok m inv frame order hal hin (by omega)

end
end LLFree
