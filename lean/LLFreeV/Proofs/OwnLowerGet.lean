/-
  `Lower::get_at`, `Lower::get` and `Lower::put` in the lower-level protocol (`SafeL`), i.e. for
  one thread among arbitrarily many, whatever the others do between its accesses.
-/
import LLFreeV.Proofs.OwnLowerOps
import LLFreeV.Proofs.LowerPut
namespace LLFree
open Prog

def Gh.addU (gh : Gh) (h n : Nat) : Gh := { gh with u := fun x => if x = h then gh.u x + n else gh.u x }
def Gh.subU (gh : Gh) (h n : Nat) : Gh := { gh with u := fun x => if x = h then gh.u x - n else gh.u x }
/-- entries `base .. base+k` held whole -/
def Gh.addH (gh : Gh) (base k : Nat) : Gh := { gh with ownH := fun x => gh.ownH x || inBlockF base k x }
def Gh.subH (gh : Gh) (base k : Nat) : Gh := { gh with ownH := fun x => gh.ownH x && !inBlockF base k x }
def Gh.addS (gh : Gh) (F n : Nat) : Gh := { gh with ownS := addBlock gh.ownS F n }
def Gh.subS (gh : Gh) (F n : Nat) : Gh := { gh with ownS := subBlock gh.ownS F n }

theorem Gh.subU_addU (gh : Gh) (h n : Nat) : (gh.addU h n).subU h n = gh := by
  refine Gh.ext' _ _ rfl rfl ?_
  intro x
  show (if x = h then (if x = h then gh.u x + n else gh.u x) - n else (if x = h then gh.u x + n else gh.u x)) = gh.u x
  by_cases e : x = h <;> simp [e]

theorem Gh.addH_zero (gh : Gh) (base : Nat) : gh.addH base 0 = gh := by
  refine Gh.ext' _ _ rfl ?_ (fun _ => rfl)
  funext x
  show (gh.ownH x || inBlockF base 0 x) = gh.ownH x
  unfold inBlockF
  by_cases a : base ≤ x <;> simp [a]
  omega

theorem Gh.subH_zero (gh : Gh) (base : Nat) : gh.subH base 0 = gh := by
  refine Gh.ext' _ _ rfl ?_ (fun _ => rfl)
  funext x
  show (gh.ownH x && !inBlockF base 0 x) = gh.ownH x
  unfold inBlockF
  by_cases a : base ≤ x <;> simp [a]

section
variable {g : Geom} {strict : Bool}

theorem isHuge_of_le (ok : GeomOk16 g) (e : Nat) (h : e ≤ g.hugeFrames) : Huge.isHuge e = false := by
  have := ok.hf_lt
  cases hh : Huge.isHuge e with
  | false => rfl
  | true => have := (Huge.isHuge_iff e).1 hh; omega

/-- the counter decrement of an allocation: the frames go to the thread's account -/
theorem decL (ok : GeomOk16 g) (gh : Gh) (H n : Nat) :
    SafeL strict g (fun r gh' => match r with
        | .ok _ => gh' = gh.addU H n
        | .error _ => gh' = gh) gh (tryUpdate .huge H (fun e => Huge.dec e n)) := by
  show SafeL strict g _ gh (Prog.upd .huge H _ _)
  intro cur hk
  have hlt := ok.hf_lt
  simp only [Upd.ofOption]
  unfold Huge.dec
  by_cases hc : (!Huge.isHuge cur && decide (Huge.free cur ≥ n)) = true
  · simp only [hc, if_true]
    simp only [Bool.and_eq_true, Bool.not_eq_true', decide_eq_true_eq] at hc
    obtain ⟨hnh, hge⟩ := hc
    rw [Huge.free_of_not_huge cur hnh] at hge ⊢
    have hle := hk.2.1 hnh
    rw [Huge.newWith_small _ (by omega)]
    refine ⟨gh.addU H n, ?_, rfl⟩
    refine TransE.counter hnh (isHuge_of_le ok _ (by omega)) ?_ ?_ rfl rfl
    · show cur - n + (if H = H then gh.u H + n else gh.u H) = cur + gh.u H
      rw [if_pos rfl]; omega
    · intro x hx
      show (if x = H then gh.u x + n else gh.u x) = gh.u x
      rw [if_neg hx]
  · have : (!Huge.isHuge cur && decide (Huge.free cur ≥ n)) = false := by
      cases hh : (!Huge.isHuge cur && decide (Huge.free cur ≥ n)) with
      | false => rfl
      | true => exact absurd hh hc
    simp only [this, Bool.false_eq_true, if_false]
    rfl

/-- the counter increment that closes an account: never fails -/
theorem incL (ok : GeomOk16 g) (gh : Gh) (H n : Nat) (hn : 0 < n) (hbud : n ≤ gh.u H) :
    SafeL strict g (fun r gh' => (∃ o, r = .ok o) ∧ gh' = gh.subU H n) gh
      (updK .huge H (fun e => Huge.inc g.hugeFrames e n)) := by
  show SafeL strict g _ gh (Prog.upd .huge H _ _)
  intro cur hk
  have hlt := ok.hf_lt
  obtain ⟨hnh, hle⟩ := hk.2.2 (by omega)
  unfold Huge.inc
  have h1 : ¬ n > g.hugeFrames := by omega
  dsimp only
  rw [Huge.free_of_not_huge cur hnh]
  have h2 : (!Huge.isHuge cur && decide (cur ≤ g.hugeFrames - n)) = true := by
    rw [hnh]; simp; omega
  simp only [h1, if_false, h2, if_true]
  rw [Huge.newWith_small _ (by omega)]
  refine ⟨gh.subU H n, ?_, ⟨cur, rfl⟩, rfl⟩
  refine TransE.counter hnh (isHuge_of_le ok _ (by omega)) ?_ ?_ rfl rfl
  · show cur + n + (if H = H then gh.u H - n else gh.u H) = cur + gh.u H
    rw [if_pos rfl]; omega
  · intro x hx
    show (if x = H then gh.u x - n else gh.u x) = gh.u x
    rw [if_neg hx]

theorem inBlockF_succ (base k x : Nat) : inBlockF base (k + 1) x = (inBlockF base k x || decide (x = base + k)) := by
  unfold inBlockF
  by_cases a : base ≤ x <;> by_cases b : x < base + k <;> by_cases c : x = base + k <;> simp [a, b, c] <;> omega

/-- giving back the `k` entries taken so far (roll-back of `compare_exchange_all`): cannot fail -/
theorem casUndoL_take (ok : GeomOk16 g) (gh : Gh) (base : Nat) (msg : String) (k : Nat)
    (hnone : ∀ x, inBlockF base k x = true → gh.ownH x = false) :
    SafeL strict g (fun (_ : Unit) gh' => gh' = gh) (gh.addH base k)
      (casRangeUndo .huge base (Huge.newWith g.hugeFrames) HugeMarker msg k k) := by
  have hlt := ok.hf_lt
  have hnw : Huge.newWith g.hugeFrames = g.hugeFrames := Huge.newWith_small _ (by omega)
  induction k with
  | zero =>
    unfold casRangeUndo
    exact Gh.addH_zero gh base
  | succ k ih =>
    unfold casRangeUndo
    rw [show k + 1 - 1 = k by omega]
    show SafeL strict g _ _ (Prog.cas .huge _ _ _ _)
    intro cur hk
    have hin : inBlockF base (k + 1) (base + k) = true := by unfold inBlockF; simp
    have hcur : cur = HugeMarker := by
      have := hk.1 (by show (gh.ownH (base + k) || inBlockF base (k + 1) (base + k)) = true; rw [hin]; simp)
      exact (Huge.isHuge_iff cur).1 this
    refine ⟨fun _ => ?_, fun hne => absurd hcur hne⟩
    refine ⟨gh.addH base k, ?_, ?_⟩
    · refine TransE.give (by rfl) hnw ?_ rfl rfl ?_
      · show (gh.ownH (base + k) || inBlockF base (k + 1) (base + k)) = true
        rw [hin]; simp
      · intro x
        show (gh.ownH x || inBlockF base k x) = ((gh.ownH x || inBlockF base (k + 1) x) && !decide (x = base + k))
        rw [inBlockF_succ]
        by_cases c : x = base + k
        · subst c
          have : inBlockF base k (base + k) = false := by unfold inBlockF; simp
          rw [this, hnone _ hin]; simp
        · simp [c]
    · simp only
      exact ih (fun x hx => hnone x (by rw [inBlockF_succ, hx]; simp))

/-- `compare_exchange_all(free → marker)`: all `K` entries are taken, or none -/
theorem casAllL_take (ok : GeomOk16 g) (gh : Gh) (base : Nat) (msg : String) (K cnt k : Nat) (hk : k + cnt = K)
    (hnone : ∀ x, inBlockF base k x = true → gh.ownH x = false) :
    SafeL strict g (fun (r : Bool) gh' => if r then gh' = gh.addH base K ∧ (∀ x, inBlockF base K x = true → gh.ownH x = false)
        else gh' = gh) (gh.addH base k)
      (casRange .huge base (Huge.newWith g.hugeFrames) HugeMarker msg cnt k) := by
  have hlt := ok.hf_lt
  have hnw : Huge.newWith g.hugeFrames = g.hugeFrames := Huge.newWith_small _ (by omega)
  induction cnt generalizing k with
  | zero =>
    unfold casRange
    have : k = K := by omega
    subst this
    exact ⟨rfl, hnone⟩
  | succ cnt ih =>
    unfold casRange
    show SafeL strict g _ _ (Prog.cas .huge _ _ _ _)
    intro cur hkn
    refine ⟨fun he => ?_, fun _ => ?_⟩
    · have hnot : gh.ownH (base + k) = false := by
        cases ho : gh.ownH (base + k) with
        | false => rfl
        | true =>
          have := hkn.1 (by show (gh.ownH (base + k) || inBlockF base k (base + k)) = true; rw [ho]; simp)
          rw [he, hnw, isHuge_of_le ok _ (Nat.le_refl _)] at this; cases this
      refine ⟨gh.addH base (k + 1), ?_, ?_⟩
      · refine TransE.take hnw (by rfl) rfl rfl ?_
        intro x
        show (gh.ownH x || inBlockF base (k + 1) x) = ((gh.ownH x || inBlockF base k x) || decide (x = base + k))
        rw [inBlockF_succ, Bool.or_assoc]
      · simp only
        apply ih (k + 1) (by omega)
        intro x hx
        rw [inBlockF_succ] at hx
        simp only [Bool.or_eq_true, decide_eq_true_eq] at hx
        rcases hx with hx | hx
        · exact hnone x hx
        · rw [hx]; exact hnot
    · simp only
      apply SafeL.bind _ _ _ (casUndoL_take ok gh base msg k hnone)
      rintro _ o rfl
      show SafeL strict g _ _ (Prog.ret false)
      simp only [SafeL, Bool.false_eq_true, if_false]

/-- `compare_exchange_all(marker → free)` on entries the thread holds: always succeeds -/
theorem casAllL_give (ok : GeomOk16 g) (gh : Gh) (base : Nat) (msg : String) (K cnt k : Nat) (hk : k + cnt = K)
    (hall : ∀ x, inBlockF base K x = true → gh.ownH x = true) :
    SafeL strict g (fun (r : Bool) gh' => r = true ∧ gh' = gh.subH base K) (gh.subH base k)
      (casRange .huge base HugeMarker (Huge.newWith g.hugeFrames) msg cnt k) := by
  have hlt := ok.hf_lt
  have hnw : Huge.newWith g.hugeFrames = g.hugeFrames := Huge.newWith_small _ (by omega)
  induction cnt generalizing k with
  | zero =>
    unfold casRange
    have : k = K := by omega
    subst this
    exact ⟨rfl, rfl⟩
  | succ cnt ih =>
    unfold casRange
    show SafeL strict g _ _ (Prog.cas .huge _ _ _ _)
    intro cur hkn
    have hinK : inBlockF base K (base + k) = true := by unfold inBlockF; simp; omega
    have hnotk : inBlockF base k (base + k) = false := by unfold inBlockF; simp
    have hown : (gh.subH base k).ownH (base + k) = true := by
      show (gh.ownH (base + k) && !inBlockF base k (base + k)) = true
      rw [hall _ hinK, hnotk]; rfl
    have hcur : cur = HugeMarker := (Huge.isHuge_iff cur).1 (hkn.1 hown)
    refine ⟨fun _ => ?_, fun hne => absurd hcur hne⟩
    refine ⟨gh.subH base (k + 1), ?_, ?_⟩
    · refine TransE.give (by rfl) hnw hown rfl rfl ?_
      intro x
      show (gh.ownH x && !inBlockF base (k + 1) x) = ((gh.ownH x && !inBlockF base k x) && !decide (x = base + k))
      rw [inBlockF_succ]
      cases gh.ownH x <;> cases inBlockF base k x <;> simp
    · simp only
      exact ih (k + 1) (by omega)

end
end LLFree
