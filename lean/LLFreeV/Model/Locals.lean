/-
  Transliteration of `core/src/local.rs`.
-/
import LLFreeV.Model.Prog
namespace LLFree
open Prog

/-- `local::Reservation` -/
structure Reservation where
  row : Nat
  cls : Nat
  free : Nat
deriving Repr, DecidableEq

namespace LTree
/-- `LocalTree::none()` -/
def none : LTree := ⟨0, 0, false⟩

/-- `LocalTree::with` (setter bound checks of `bitfield_struct`) -/
def «with» (row free : Nat) : Upd LTree :=
  if row ≥ 2 ^ 44 then .panic "value out of bounds"
  else if free ≥ 2 ^ 19 then .panic "value out of bounds"
  else .set ⟨row, free, true⟩

/-- `LocalTree::get`; `tr` = rows per tree -/
def get (tr : Nat) (self : LTree) (tree : Option Nat) (free : Nat) : Option LTree :=
  if self.present && (match tree with | .none => true | some i => self.row / tr == i) then
    if self.free ≥ free then some { self with free := self.free - free } else .none
  else .none

/-- `LocalTree::put` -/
def put (tr tf : Nat) (self : LTree) (tree free : Nat) : Upd LTree :=
  if self.present && self.row / tr == tree then
    if self.free + free > tf then .panic "assertion failed: self.free() + free <= TREE_FRAMES"
    else .set { self with free := self.free + free }
  else .skip

/-- `LocalTree::set_start` -/
def setStart (tr : Nat) (self : LTree) (row : Nat) : Upd LTree :=
  if self.present && self.row / tr == row / tr && self.row != row then
    (if row ≥ 2 ^ 44 then .panic "value out of bounds" else .set { self with row := row })
  else .skip

def asReservation (self : LTree) (cls : Nat) : Reservation := ⟨self.row, cls, self.free⟩
end LTree

section
variable (c : Cfg)

/-- `self.classes[class.0 as usize]` (array of 8) -/
def Locals.classRange (cls : Nat) : Prog (Option (Nat × Nat)) :=
  if cls ≥ 8 then Prog.panic oobMsg else pure (c.slotRange cls)

/-- `Locals::class_locals` -/
def Locals.classLocals (cls : Nat) : Prog (Option Nat) := do
  let r ← Locals.classRange c cls
  return r.map (·.2)

/-- index of `locals[local]` for a class range, trapping like slice indexing -/
def Locals.slotIdx (rng : Nat × Nat) (loc : Nat) : Prog Nat :=
  if loc < rng.2 then pure (rng.1 + loc) else Prog.panic oobMsg

/-- `Locals::get` : `Ok(row)` / `Err(Option<Reservation>)` -/
def Locals.get (cls loc : Nat) (tree : Option Nat) (free : Nat) :
    Prog (Except (Option Reservation) Nat) := do
  let some rng ← Locals.classRange c cls | return .error none
  let idx ← Locals.slotIdx rng loc
  let r ← tryUpdate .slot idx (fun (v : LTree) => v.get c.geom.treeRows tree free)
  match r with
  | .ok old => return .ok old.row
  | .error old => return .error (if old.present then some (old.asReservation cls) else none)

/-- `Locals::steal_any` -/
def Locals.stealAny (cls : Nat) (index : Option Nat) (tree : Option Nat) (free : Nat) :
    Prog (Option Reservation) :=
  let index := index.getD 0
  let rec slots (tc : Nat) (rng : Nat × Nat) (cnt j : Nat) : Prog (Option Reservation) :=
    match cnt with
    | 0 => pure none
    | cnt+1 => do
      let j' := (index + j) % rng.2
      let r ← Locals.get c tc j' tree free
      match r with
      | .ok row => return some ⟨row, tc, 0⟩
      | .error _ => slots tc rng cnt (j + 1)
  let rec classes (cnt i : Nat) : Prog (Option Reservation) :=
    match cnt with
    | 0 => pure none
    | cnt+1 => do
      let tc := (i + cls) % 8
      match c.slotRange tc with
      | none => classes cnt (i + 1)
      | some rng =>
        match c.policy cls tc free with
        | .steal | .match _ => do
          let r ← slots tc rng rng.2 0
          match r with
          | some x => return some x
          | none => classes cnt (i + 1)
        | _ => classes cnt (i + 1)
  classes 8 0

/-- `Locals::demote_any` -/
def Locals.demoteAny (cls : Nat) (loc : Option Nat) (tree : Option Nat) (free : Nat) :
    Prog (Option (Nat × Option Reservation)) := do
  let some own ← Locals.classRange c cls | return none
  let rec slots (rng : Nat × Nat) (cnt j : Nat) : Prog (Option (Nat × Option Reservation)) :=
    match cnt with
    | 0 => pure none
    | cnt+1 => do
      let j' := (loc.getD 0 + j) % rng.2
      let r ← tryUpdate .slot (rng.1 + j') (fun (v : LTree) =>
        (v.get c.geom.treeRows tree free).map (fun _ => LTree.none))
      match r with
      | .ok old =>
        match old.get c.geom.treeRows tree free with
        | none => Prog.panic "called `Option::unwrap()` on a `None` value"
        | some new =>
          match loc with
          | some l => do
            let idx ← Locals.slotIdx own l
            let o : LTree ← swapK .slot idx new
            return some (new.row, if o.present then some (o.asReservation cls) else none)
          | none => return some (new.row, some (new.asReservation cls))
      | .error _ => slots rng cnt (j + 1)
  let rec classes (cnt i : Nat) : Prog (Option (Nat × Option Reservation)) :=
    match cnt with
    | 0 => pure none
    | cnt+1 => do
      let tc := (i + cls) % 8
      match c.slotRange tc with
      | none => classes cnt (i + 1)
      | some rng =>
        if c.policy cls tc free != .demote then classes cnt (i + 1) else do
        let r ← slots rng rng.2 0
        match r with
        | some x => return some x
        | none => classes cnt (i + 1)
  classes 7 1

/-- `Locals::put` -/
def Locals.put (cls loc tree free : Nat) : Prog Bool := do
  let some rng ← Locals.classRange c cls | return false
  let idx ← Locals.slotIdx rng loc
  let r ← updK .slot idx (fun (v : LTree) => v.put c.geom.treeRows c.geom.treeFrames tree free)
  match r with
  | .ok _ => return true
  | .error _ => return false

/-- `Locals::swap` -/
def Locals.swap (cls loc tree free : Nat) : Prog (Option Reservation) := do
  let some rng ← Locals.classRange c cls | Prog.panic "Invalid class"
  let idx ← Locals.slotIdx rng loc
  match LTree.with (tree * c.geom.treeRows) free with
  | .set new => do
    let old : LTree ← swapK .slot idx new
    return if old.present then some (old.asReservation cls) else none
  | .panic s => Prog.panic s
  | .skip => Prog.panic "unreachable"

/-- `Locals::drain` -/
def Locals.drain (unreserve : Nat → Nat → Nat → Prog Unit) : Prog Unit :=
  let rec slots (cls : Nat) (base : Nat) (cnt j : Nat) : Prog Unit :=
    match cnt with
    | 0 => pure ()
    | cnt+1 => do
      let old : LTree ← swapK .slot (base + j) LTree.none
      if old.present then unreserve old.row cls old.free
      slots cls base cnt (j + 1)
  let rec classes (cnt i : Nat) : Prog Unit :=
    match cnt with
    | 0 => pure ()
    | cnt+1 => do
      match c.slotRange i with
      | some rng => slots i rng.1 rng.2 0
      | none => pure ()
      classes cnt (i + 1)
  classes 8 0

/-- `Locals::set_start` -/
def Locals.setStart (cls index row : Nat) : Prog Unit := do
  let some rng ← Locals.classRange c cls | return ()
  let idx ← Locals.slotIdx rng index
  let _ ← updK .slot idx (fun (v : LTree) => v.setStart c.geom.treeRows row)
  return ()

/-- `Locals::load` -/
def Locals.load (cls loc : Nat) : Prog (Option Reservation) := do
  let some rng ← Locals.classRange c cls | return none
  let idx ← Locals.slotIdx rng loc
  let t : LTree ← loadK .slot idx
  return if t.present then some (t.asReservation cls) else none

end
end LLFree
