/-
  Base definitions of the LLFree model: geometry, errors, policies, the typed contents of
  the three metadata buffers (`Mem`) and the configuration.

  Import-free (core `Init` only) so that the driver links as a `lean_exe`.
-/
namespace LLFree

/-- Compile-time geometry of the Rust crate (`HUGE_ORDER`, `TREE_HUGE`). -/
structure Geom where
  hugeOrder : Nat      -- 9, or 11 with feature `16K`
  treeHuge  : Nat      -- 1,2,4,…,512 (default 4)
deriving Repr, DecidableEq

namespace Geom
/-- `HUGE_FRAMES = Bitfield::LEN` -/
@[reducible] def hugeFrames (g : Geom) : Nat := 2 ^ g.hugeOrder
/-- `ROWS` of a bitfield -/
@[reducible] def rows (g : Geom) : Nat := g.hugeFrames / 64
/-- `TREE_FRAMES` -/
@[reducible] def treeFrames (g : Geom) : Nat := g.treeHuge * g.hugeFrames
/-- `TREE_ORDER = TREE_FRAMES.ilog2()` -/
@[reducible] def treeOrder (g : Geom) : Nat := Nat.log2 g.treeFrames
/-- rows per tree -/
@[reducible] def treeRows (g : Geom) : Nat := g.treeHuge * g.rows
/-- `Trees::MIN_FREE` (unused by the allocator logic, only by Debug) -/
@[reducible] def minFree (g : Geom) : Nat := g.treeFrames / 16
end Geom

/-- `llfree::Error` -/
inductive Err where
  | memory | argument | initialization
deriving Repr, DecidableEq, Inhabited

def Err.str : Err → String
  | .memory => "mem" | .argument => "arg" | .initialization => "init"

/-- `Result<T>` of the crate -/
abbrev Res (α : Type) := Except Err α

/-- `llfree::Policy`; the derive(Ord) order is the constructor order. -/
inductive Policy where
  | «match» (prio : Nat)   -- `Match(u8)`
  | demote
  | steal
  | invalid
deriving Repr, DecidableEq, Inhabited

/-- Rank of a policy under the derived `Ord` (lexicographic on (variant, payload)). -/
def Policy.rank : Policy → Nat × Nat
  | .match p => (0, p)
  | .demote  => (1, 0)
  | .steal   => (2, 0)
  | .invalid => (3, 0)

/-- `PolicyFn = fn(requested, target, free) -> Policy` -/
abbrev PolicyFn := Nat → Nat → Nat → Policy

/-- `trees::Tree` (u32: free:28 | reserved:1 | class:3) -/
structure Tree where
  free : Nat
  reserved : Bool
  cls : Nat
deriving Repr, DecidableEq, Inhabited

/-- `local::LocalTree` (u64: row:44 | free:19 | present:1) -/
structure LTree where
  row : Nat
  free : Nat
  present : Bool
deriving Repr, DecidableEq, Inhabited

/-- `lower::HugeEntry` is a bare u16 counter; `0xffff` marks a huge allocation. -/
abbrev HugeMarker : Nat := 0xffff

/-- The typed contents of the three metadata buffers. Logical indices:
    row `h * rows + r`, huge entry `t * treeHuge + c`, tree `t`, slot in `classes()` order. -/
structure Mem where
  rows  : Array (BitVec 64)
  huge  : Array Nat
  trees : Array Tree
  slots : Array LTree
deriving Repr, DecidableEq, Inhabited

/-- Kinds of atomic locations. -/
inductive Kind where
  | row | huge | tree | slot
deriving Repr, DecidableEq

/-- Value type stored at a location of the given kind. -/
@[reducible] def Kind.Val : Kind → Type
  | .row => BitVec 64
  | .huge => Nat
  | .tree => Tree
  | .slot => LTree

instance : (k : Kind) → DecidableEq k.Val
  | .row => inferInstanceAs (DecidableEq (BitVec 64))
  | .huge => inferInstanceAs (DecidableEq Nat)
  | .tree => inferInstanceAs (DecidableEq Tree)
  | .slot => inferInstanceAs (DecidableEq LTree)

instance : (k : Kind) → Inhabited k.Val
  | .row => ⟨0#64⟩
  | .huge => ⟨0⟩
  | .tree => ⟨default⟩
  | .slot => ⟨default⟩

namespace Mem
def get? (m : Mem) : (k : Kind) → Nat → Option k.Val
  | .row, i => m.rows[i]?
  | .huge, i => m.huge[i]?
  | .tree, i => m.trees[i]?
  | .slot, i => m.slots[i]?

def set (m : Mem) : (k : Kind) → Nat → k.Val → Mem
  | .row, i, v => { m with rows := m.rows.setIfInBounds i v }
  | .huge, i, v => { m with huge := m.huge.setIfInBounds i v }
  | .tree, i, v => { m with trees := m.trees.setIfInBounds i v }
  | .slot, i, v => { m with slots := m.slots.setIfInBounds i v }
end Mem

/-- Static configuration of an allocator instance. -/
structure Cfg where
  geom : Geom
  frames : Nat
  /-- `classing.classes()`: (class id, number of local slots), in order -/
  classes : List (Nat × Nat)
  /-- `classing.default` -/
  dflt : Nat
  policy : PolicyFn

namespace Cfg
/-- number of trees `frames.div_ceil(TREE_FRAMES)` -/
def ntrees (c : Cfg) : Nat := (c.frames + c.geom.treeFrames - 1) / c.geom.treeFrames
/-- number of bitfields `frames.div_ceil(HUGE_FRAMES)` -/
def nhuge (c : Cfg) : Nat := (c.frames + c.geom.hugeFrames - 1) / c.geom.hugeFrames

/-- `Locals::new`: the `classes` table (`[Option<OffsetSlice>; 8]`): for class id `k` the
    (first slot index, slot count) of the *last* configured entry with that id. -/
def slotRange (c : Cfg) (k : Nat) : Option (Nat × Nat) :=
  let rec go (l : List (Nat × Nat)) (off : Nat) (acc : Option (Nat × Nat)) : Option (Nat × Nat) :=
    match l with
    | [] => acc
    | (id, cnt) :: rest => go rest (off + cnt) (if id = k then some (off, cnt) else acc)
  go c.classes 0 none

/-- total number of slots -/
def nslots (c : Cfg) : Nat := (c.classes.map (·.2)).foldl (· + ·) 0
end Cfg

end LLFree
