/-
  The policy functions of the repository (`Classing::simple`, `Classing::movable`, the
  `zeroed_policy` of the integration tests, the evaluation crate's configurable policy) and a
  parametrised custom policy that declares some class pairs unusable.
-/
import LLFreeV.Model.Base
namespace LLFree

/-- common shape: order by class id, rating by free count -/
def orderedPolicy (rate : Nat → Policy) : PolicyFn := fun requested target free =>
  if requested > target then .steal
  else if requested < target then .demote
  else rate free

def simplePolicy (tf : Nat) : PolicyFn := orderedPolicy fun f =>
  if f ≥ tf / 2 then .match 1 else if f ≥ tf / 64 then .match 255 else .match 0

def movablePolicy (tf : Nat) : PolicyFn := orderedPolicy fun f =>
  if f ≥ tf / 2 then .match 1 else if f ≥ tf / 64 then .match 255 else .match 2

/-- `ClassingConfig::classing` policy with `perfect = (pmin,pmax)`, `good = (gmin,gmax)` -/
def evalPolicy (pmin pmax gmin gmax : Nat) : PolicyFn := orderedPolicy fun f =>
  if pmin ≤ f && f ≤ pmax then .match 255
  else if gmin ≤ f && f ≤ gmax then .match 2
  else .match 1

/-- custom: `base`, but the listed (requested, target) pairs are `Invalid` -/
def invalidPairs (base : PolicyFn) (pairs : List (Nat × Nat)) : PolicyFn := fun r t f =>
  if pairs.contains (r, t) then .invalid else base r t f

end LLFree
