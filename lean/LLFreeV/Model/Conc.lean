/-
  Interleaving semantics: a configuration is the shared memory plus a list of threads;
  an action lets one thread perform its next single atomic access.
-/
import LLFreeV.Model.Codec
namespace LLFree

/-- driver-side state of a co-simulation (filled in below) -/
structure ConcSt where
  dummy : Unit := ()

def concStep (_c : Cfg) (_m : Mem) (_cs : Option ConcSt) (_cmd : String) (_args : List String) :
    Option (Mem × Option ConcSt × String) := none

end LLFree
