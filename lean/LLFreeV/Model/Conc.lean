/-
  Interleaving semantics: a configuration is the shared memory plus a list of threads, each
  with a queue of calls; an action lets one thread perform its next single atomic access
  (`Th.step`).  A call that needs no (further) access returns without consuming a step.

  This file also contains the driver-side glue for the trace co-simulation: the harness runs
  real threads under a deterministic scheduler, and replays the same schedule here, comparing
  every access event and every call result.
-/
import LLFreeV.Model.Codec
namespace LLFree

/-- One thread: its current call (if any), the remaining calls, and whether it died. -/
structure ThreadSt where
  cur : Option (Th String) := none
  queue : List (Prog String) := []
  dead : Bool := false

/-- A configuration of the interleaving semantics (the memory is kept by the caller). -/
structure ConcSt where
  threads : Array ThreadSt := #[]

/-- Let thread `t` return from finished calls and load the next ones, until it is about to
    perform an access (or has nothing left). Returns the rendered returns. -/
def ThreadSt.advance (fuel : Nat) (ts : ThreadSt) (t : Nat) (acc : List String) : ThreadSt × List String :=
  match fuel with
  | 0 => (ts, acc.reverse)
  | fuel+1 =>
    if ts.dead then (ts, acc.reverse) else
    match ts.cur with
    | some (.at (.ret a)) => ThreadSt.advance fuel { ts with cur := none } t (s!"ret {t} {a}" :: acc)
    | some (.at (.panic s)) => ({ ts with cur := none, dead := true }, (s!"ret {t} panic {s}" :: acc).reverse)
    | some _ => (ts, acc.reverse)
    | none =>
      match ts.queue with
      | [] => (ts, acc.reverse)
      | p :: rest => ThreadSt.advance fuel { ts with cur := some (.at p), queue := rest } t acc

def toHexC (n : Nat) : String := String.ofList (Nat.toDigits 16 n)

def kindName : Kind → String
  | .row => "row" | .huge => "huge" | .tree => "tree" | .slot => "slot"

/-- render an access like the harness does: narrow accesses report the accessed part -/
def Access.render (t : Nat) (a : Access) : String :=
  let o := Kind.pack a.kind a.old
  let n := Kind.pack a.kind a.new
  let part (v : Nat) : Nat := if a.w < 64 then (v / 2 ^ a.sh) % 2 ^ a.w else v
  s!"ev {t} {a.op} {kindName a.kind} {a.idx} {a.sh} {a.w} {toHexC (part o)} {toHexC (part n)} {if a.ok then 1 else 0}"

/-- One scheduling step of thread `t`. -/
def ConcSt.step (cs : ConcSt) (m : Mem) (t : Nat) : Mem × ConcSt × String :=
  match cs.threads[t]? with
  | none => (m, cs, "bad-thread")
  | some ts =>
    match ts.cur with
    | none => (m, cs, "idle")
    | some th =>
      match th.step m with
      | .done _ => (m, cs, "idle")
      | .dead s =>
        let ts' := { ts with cur := none, dead := true }
        (m, { cs with threads := cs.threads.setIfInBounds t ts' }, s!"ret {t} panic {s}")
      | .step th' m' a =>
        let (ts', rets) := ThreadSt.advance 64 { ts with cur := some th' } t []
        (m', { cs with threads := cs.threads.setIfInBounds t ts' },
          " | ".intercalate (a.render t :: rets))

/-- Run a schedule (list of thread ids, one atomic access each) on the interleaving semantics,
    each thread executing one program; returns the panic message of the first thread that dies. -/
def runSched {α : Type} (threads : List (Prog α)) (m : Mem) (sched : List Nat) : Option String :=
  let rec go (ths : List (Th α)) (m : Mem) : List Nat → Option String
    | [] => none
    | t :: rest =>
      match ths[t]? with
      | none => none
      | some th =>
        match th.step m with
        | .done _ => go ths m rest
        | .dead s => some s
        | .step th' m' _ => go (ths.set t th') m' rest
  go (threads.map Th.at) m sched

end LLFree
