/-
  Transliteration of `core/src/wrapper.rs` (`ZoneAlloc`, `NvmAlloc` layout and header) and of
  `MetaData::valid` from `core/src/llfree.rs`.
-/
import LLFreeV.Model.Codec
namespace LLFree
open Prog

/-! ### `ZoneAlloc` -/

/-- `frame.0.checked_sub(self.offset)` -/
def Zone.toInner (off frame : Nat) : Option Nat := if frame < off then none else some (frame - off)

/-- `ZoneAlloc::get` -/
def Zone.get (c : Cfg) (off : Nat) (frame : Option Nat) (r : Request) : Prog (Res (Nat × Nat)) :=
  match frame with
  | some f =>
    match Zone.toInner off f with
    | none => pure (.error .argument)
    | some f' => do
      let x ← LLFree.get c (some f') r
      return x.map (fun (fr, k) => (fr + off, k))
  | none => do
    let x ← LLFree.get c none r
    return x.map (fun (fr, k) => (fr + off, k))

/-- `ZoneAlloc::put` -/
def Zone.put (c : Cfg) (off : Nat) (frame : Nat) (r : Request) : Prog (Res Unit) :=
  match Zone.toInner off frame with
  | none => pure (.error .argument)
  | some f' => LLFree.put c f' r

/-- `ZoneAlloc::stats_at` -/
def Zone.statsAt (c : Cfg) (off : Nat) (frame order : Nat) : Prog Stats :=
  match Zone.toInner off frame with
  | none => pure {}
  | some f' => Lower.statsAt c.geom f' order

/-! ### `MetaData::valid` -/

/-- address and length of the three caller-provided buffers -/
structure MetaBufs where
  localAddr : Nat
  localLen : Nat
  treesAddr : Nat
  treesLen : Nat
  lowerAddr : Nat
  lowerLen : Nat

/-- `overlap(a, b)` of `MetaData::valid` on (start, len) ranges:
    `a.contains(b.start) || a.contains(b.end - 1) || b.contains(a.start) || b.contains(a.end - 1)`
    (pointer arithmetic `end.sub(1)` on addresses; addresses are positive) -/
def overlap (a la b lb : Nat) : Bool :=
  (a ≤ b && b < a + la) || (a ≤ b + lb - 1 && b + lb - 1 < a + la) ||
  (b ≤ a && a < b + lb) || (b ≤ a + la - 1 && a + la - 1 < b + lb)

/-- `MetaData::valid(&metadata_size(classing, frames))` -/
def metaValid (c : Cfg) (b : MetaBufs) : Bool :=
  b.localLen ≥ localsSize c.classes && b.treesLen ≥ treesSize c.geom c.frames &&
  b.lowerLen ≥ lowerSize c.geom c.frames &&
  b.localAddr % 64 == 0 && b.treesAddr % 64 == 0 && b.lowerAddr % 64 == 0 &&
  !overlap b.localAddr b.localLen b.treesAddr b.treesLen &&
  !overlap b.treesAddr b.treesLen b.lowerAddr b.lowerLen &&
  !overlap b.lowerAddr b.lowerLen b.localAddr b.localLen

/-! ### `NvmAlloc` layout: `frames | lower metadata pages | header page` inside a zone of `z` frames -/

/-- pages needed for the lower metadata of a `z`-frame region (`m.lower.div_ceil(Frame::SIZE)`) -/
def nvmMetaPages (g : Geom) (frameSize z : Nat) : Nat := (lowerSize g z + frameSize - 1) / frameSize

/-- `NvmAlloc::create` accepts the region size (`size_of_val(zone) >= m.lower + Frame::SIZE`) -/
def nvmSizeOk (g : Geom) (frameSize z : Nat) : Bool := z * frameSize ≥ lowerSize g z + frameSize

/-- number of managed frames: zone minus header page minus metadata pages -/
def nvmManaged (g : Geom) (frameSize z : Nat) : Nat := z - 1 - nvmMetaPages g frameSize z

/-- header check of `create(recover = true)` -/
def nvmHeaderOk (magic headerMagic headerFrames z : Nat) : Bool :=
  headerMagic == magic && headerFrames == z - 1

end LLFree
