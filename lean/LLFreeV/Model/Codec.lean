/-
  Packing of the typed memory into the integers stored in the Rust buffers, unpacking
  (for `Init::None` over given bytes), and a digest of the logical buffer contents.
-/
import LLFreeV.Model.Upper
namespace LLFree

def Tree.pack (t : Tree) : Nat := t.free % 2 ^ 28 + (if t.reserved then 2 ^ 28 else 0) + (t.cls % 8) * 2 ^ 29
def Tree.unpack (v : Nat) : Tree := ⟨v % 2 ^ 28, (v / 2 ^ 28) % 2 == 1, (v / 2 ^ 29) % 8⟩

def LTree.pack (t : LTree) : Nat := t.row % 2 ^ 44 + (t.free % 2 ^ 19) * 2 ^ 44 + (if t.present then 2 ^ 63 else 0)
def LTree.unpack (v : Nat) : LTree := ⟨v % 2 ^ 44, (v / 2 ^ 44) % 2 ^ 19, (v / 2 ^ 63) % 2 == 1⟩

/-- packed value of a location -/
def Kind.pack : (k : Kind) → k.Val → Nat
  | .row, v => (v : BitVec 64).toNat
  | .huge, v => v
  | .tree, v => Tree.pack v
  | .slot, v => LTree.pack v

/-- FNV-1a style digest over the logical words of the buffers (rows, huge entries, packed
    tree entries, packed slots), in this order. The harness computes the same digest from the
    raw bytes at the corresponding offsets. -/
def Mem.digest (m : Mem) : UInt64 :=
  let mix (h : UInt64) (w : Nat) : UInt64 := (h ^^^ UInt64.ofNat w) * 0x100000001b3
  let h : UInt64 := 0xcbf29ce484222325
  let h := m.rows.foldl (fun h v => mix h v.toNat) h
  let h := mix h 0x11
  let h := m.huge.foldl (fun h v => mix h v) h
  let h := mix h 0x22
  let h := m.trees.foldl (fun h v => mix h v.pack) h
  let h := mix h 0x33
  m.slots.foldl (fun h v => mix h v.pack) h

/-- zero-initialised memory of the right shape -/
def Cfg.zeroMem (c : Cfg) : Mem :=
  { rows := Array.replicate (c.nhuge * c.geom.rows) 0#64
    huge := Array.replicate (c.ntrees * c.geom.treeHuge) 0
    trees := Array.replicate c.ntrees ⟨0, false, 0⟩
    slots := Array.replicate c.nslots LTree.none }

/-! ### Metadata sizes (`metadata_size`) -/
def alignUp (v a : Nat) : Nat := (v + a - 1) / a * a

/-- `Lower::metadata_size` -/
def lowerSize (g : Geom) (frames : Nat) : Nat :=
  let bl := (frames + g.hugeFrames - 1) / g.hugeFrames
  let tl := (frames + g.treeFrames - 1) / g.treeFrames
  bl * alignUp (g.rows * 8) 64 + tl * alignUp (g.treeHuge * 2) 64

/-- `Trees::metadata_size` -/
def treesSize (g : Geom) (frames : Nat) : Nat :=
  alignUp (((frames + g.treeFrames - 1) / g.treeFrames) * 4) 64

/-- `Locals::metadata_size` -/
def localsSize (classes : List (Nat × Nat)) : Nat :=
  ((classes.map (·.2)).foldl (· + ·) 0) * 64

end LLFree
