/-
  Transliteration of `core/src/trees.rs` and of `SortedBuffer`/`OrdBy` from `core/src/util.rs`.
-/
import LLFreeV.Model.Prog
namespace LLFree
open Prog

/-! ### `SortedBuffer<N, T>`: keeps (at most) the `N` greatest values in ascending order -/

/-- `SortedBuffer::add` on the list of `Some` entries (the buffer is always a prefix of `Some`s).
    `le a b` is `a <= b` of the element order. -/
def SortedBuffer.add {τ : Type} (le : τ → τ → Bool) (n : Nat) (buf : List τ) (value : τ) : List τ :=
  -- `pos` = index of the first element `v` with `value <= v` (or `len`): `lo = buf[..pos]`
  let lo := buf.takeWhile (fun v => !le value v)
  let hi := buf.dropWhile (fun v => !le value v)
  if buf.length < n then
    -- shift `pos..len` (and the free slot) right by one
    lo ++ value :: hi
  else
    match lo with
    | [] => buf                        -- full and `value <= ` everything: ignored
    | _ :: lo' => lo' ++ value :: hi   -- full: drop the smallest, insert before `pos`

/-- derived `Ord` of `Policy` -/
def Policy.le (a b : Policy) : Bool :=
  let ra := a.rank; let rb := b.rank
  ra.1 < rb.1 || (ra.1 == rb.1 && ra.2 ≤ rb.2)

def Policy.lt (a b : Policy) : Bool := Policy.le a b && !(Policy.le b a)

/-- `(Policy, bool)` tuple order -/
def keyLe (a b : Policy × Bool) : Bool :=
  Policy.lt a.1 b.1 || (a.1 == b.1 && (!a.2 || b.2))

/-! ### `Tree` transitions -/
namespace Tree

/-- bound check of the 3-bit class setter of `bitfield_struct` -/
def clsOk (c : Nat) : Bool := c < 8

/-- `Tree::with` -/
def «with» (tf : Nat) (free : Nat) (reserved : Bool) (cls : Nat) : Upd Tree :=
  if free > tf then .panic "assertion failed: free <= TREE_FRAMES"
  else if !clsOk cls then .panic "value out of bounds"
  else .set ⟨free, reserved, cls⟩

/-- `Tree::put` -/
def put (tf : Nat) (self : Tree) (free : Nat) (policy : PolicyFn) (dflt : Nat) : Upd Tree :=
  let free := self.free + free
  if free > tf then .panic "assertion failed: free <= TREE_FRAMES"
  else if free == tf && !self.reserved && policy self.cls dflt free != .invalid then
    if !clsOk dflt then .panic "value out of bounds" else .set { self with free := free, cls := dflt }
  else .set { self with free := free }

/-- `Tree::steal` -/
def steal (self : Tree) (cls free : Nat) (policy : PolicyFn) : Option Tree :=
  if self.free ≥ free && !self.reserved then
    match policy cls self.cls free with
    | .match _ => some { self with free := self.free - free, cls := cls }
    | .demote => if self.reserved then none else some { self with free := self.free - free, cls := cls }
    | .steal => some { self with free := self.free - free }
    | .invalid => none
  else none

/-- `Tree::reserve_or_steal` -/
def reserveOrSteal (tf : Nat) (self : Tree) (free : Nat) (policy : PolicyFn) (cls : Nat) : Upd Tree :=
  if self.free ≥ free && !self.reserved then
    match policy cls self.cls free with
    | .match _ => if !self.reserved then Tree.with tf 0 true cls else .set { self with free := self.free - free }
    | .demote => if !self.reserved then Tree.with tf 0 true cls else .skip
    | .steal => .set { self with free := self.free - free }
    | .invalid => .skip
  else .skip

/-- `Tree::unreserve_add` -/
def unreserveAdd (tf : Nat) (self : Tree) (free cls : Nat) (policy : PolicyFn) (dflt : Nat) : Upd Tree :=
  if self.reserved then
    match policy cls self.cls free with
    | .match _ => put tf { self with reserved := false } free policy dflt
    | .demote =>
      if !clsOk cls then .panic "value out of bounds"
      else put tf { self with reserved := false, cls := cls } free policy dflt
    | .steal => .panic "unreserve invalid class"
    | .invalid => .panic "unreserve invalid class"
  else .skip

/-- `Tree::sync_steal` -/
def syncSteal (self : Tree) (min : Nat) : Option Tree :=
  if self.reserved && self.free ≥ min then some { self with free := 0 } else none

/-- `TreeOperation` -/
inductive Op where | online | offline
deriving Repr, DecidableEq

/-- the optional class of the matcher -/
def matchCls (mcls : Option Nat) (cls : Nat) : Bool :=
  match mcls with
  | none => true
  | some k => k == cls

/-- the `operation` part of a change -/
def changeOp (s : Tree) (op : Option Op) (fetchFree : Nat) : Upd Tree :=
  match op with
  | some .offline => .set { s with free := 0 }
  | some .online =>
    if s.free == 0 then
      (if fetchFree < 2 ^ 28 then .set { s with free := fetchFree } else .panic "value out of bounds")
    else .skip
  | none => .set s

/-- `Tree::change`; `fetchFree` is the value the closure would return -/
def change (self : Tree) (mcls : Option Nat) (mfree : Nat) (ccls : Option Nat) (op : Option Op)
    (fetchFree : Nat) : Upd Tree :=
  if !self.reserved && matchCls mcls self.cls && self.free ≥ mfree then
    match ccls with
    | none => changeOp self op fetchFree
    | some c => if clsOk c then changeOp { self with cls := c } op fetchFree else .panic "value out of bounds"
  else .skip

end Tree

/-! ### `Trees` -/
section
variable (tf : Nat) (policy : PolicyFn) (dflt : Nat)

/-- `Trees::sync` -/
def Trees.sync (i min : Nat) : Prog (Option Nat) := do
  let r ← tryUpdate .tree i (fun (e : Tree) => e.syncSteal min)
  match r with
  | .ok old => return some old.free
  | .error _ => return none

/-- `Trees::steal`: returns the class of the allocation -/
def Trees.steal (i cls free : Nat) : Prog (Option Nat) := do
  let r ← tryUpdate .tree i (fun (e : Tree) => e.steal cls free policy)
  match r with
  | .ok old =>
    match old.steal cls free policy with
    | some e => return some e.cls
    | none => Prog.panic "called `Option::unwrap()` on a `None` value"
  | .error _ => return none

/-- `Trees::put` -/
def Trees.put (i free : Nat) : Prog Unit := do
  let _ ← updK .tree i (fun (e : Tree) => e.put tf free policy dflt)
  return ()

/-- `Trees::reserve_or_steal`: (reserved, *old* free counter, class) -/
def Trees.reserveOrSteal (i cls free : Nat) : Prog (Option (Bool × Nat × Nat)) := do
  let r ← updK .tree i (fun (e : Tree) => e.reserveOrSteal tf free policy cls)
  match r with
  | .ok old =>
    match old.reserveOrSteal tf free policy cls with
    | .set n => return some (n.reserved, old.free, n.cls)
    | _ => Prog.panic "called `Option::unwrap()` on a `None` value"
  | .error _ => return none

/-- `Trees::unreserve` -/
def Trees.unreserve (i free cls : Nat) : Prog Unit := do
  let r ← updK .tree i (fun (e : Tree) => e.unreserveAdd tf free cls policy dflt)
  match r with
  | .ok _ => return ()
  | .error _ => Prog.panic "Unreserve failed"

/-- index visited in iteration `i` of `search`/`search_best` (`n = entries.len()`), with the
    source's wrapping arithmetic -/
def searchIdx (start n i : Nat) : Nat :=
  let off : Int := if i % 2 = 0 then (i / 2 : Nat) else -(((i + 1) / 2 : Nat) : Int)
  let s : Int := ((start + n : Nat) : Int) + off
  (s % (2 ^ 64 : Int)).toNat % n

/-- Candidates remembered by `search_best` -/
abbrev Best := List ((Policy × Bool) × Nat)

def bestLe (a b : (Policy × Bool) × Nat) : Bool := keyLe a.1 b.1

/-- `Trees::search_best::<N, _>`; `rate cls free`, `access i` -/
def Trees.searchBest {β : Type} (ntrees : Nat) (nbuf : Nat) (start offset len : Nat)
    (rate : Nat → Nat → Policy) (access : Nat → Prog (Res β)) : Prog (Res β) :=
  let rec tryBest : List ((Policy × Bool) × Nat) → Prog (Res β)
    | [] => pure (.error .memory)
    | (_, i) :: rest => do
      let r ← access i
      match r with
      | .error .memory => tryBest rest
      | r => return r
  let rec scan (cnt i : Nat) (best : Best) : Prog (Res β) :=
    match cnt with
    | 0 => tryBest best.reverse
    | cnt+1 =>
      if ntrees = 0 then Prog.panic "attempt to calculate the remainder with a divisor of zero" else do
      let idx := searchIdx start ntrees i
      let tree : Tree ← loadK .tree idx
      if tree.reserved then scan cnt (i + 1) best else
      match rate tree.cls tree.free with
      | .match 255 => do
        let r ← access idx
        match r with
        | .error .memory => scan cnt (i + 1) best
        | r => return r
      | .invalid => scan cnt (i + 1) best
      | p => scan cnt (i + 1) (SortedBuffer.add bestLe nbuf best ((p, tree.free == tf), idx))
  scan (len - offset) offset []

/-- `Trees::search` -/
def Trees.search {β : Type} (ntrees : Nat) (start offset len : Nat)
    (access : Nat → Prog (Res β)) : Prog (Res β) :=
  let rec scan (cnt i : Nat) : Prog (Res β) :=
    match cnt with
    | 0 => pure (.error .memory)
    | cnt+1 =>
      if ntrees = 0 then Prog.panic "attempt to calculate the remainder with a divisor of zero" else do
      let r ← access (searchIdx start ntrees i)
      match r with
      | .error .memory => scan cnt (i + 1)
      | r => return r
  scan (len - offset) offset

end
end LLFree
