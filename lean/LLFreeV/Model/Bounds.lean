/-
  Explicit step bounds of the public calls, as functions of the configuration alone
  (geometry, number of trees, number of slots, retry constant). `Proofs/Bound*.lean` prove that
  every path of each call performs at most this many atomic accesses (C21); the driver uses
  `apiB` to check the step counts measured on the real threads in the freeze experiments.
-/
import LLFreeV.Model.Upper
namespace LLFree

section
variable (g : Geom)
/-- the search inside one bitfield -/
def searchB : Nat := g.rows * (3 * g.rows) + 2 * g.rows
/-- `Lower::get_at` -/
def getAtB : Nat := 2 * g.rows + 2 * g.treeHuge + 6
/-- `Lower::get` -/
def lowerGetB : Nat := getAtB g + g.treeHuge * (2 * g.treeHuge) + g.treeHuge * (searchB g + 4)
/-- `Lower::put` -/
def lowerPutB (retries : Nat) : Nat := 4 * g.rows + 2 * g.treeHuge + retries + 10
end

section
variable (c : Cfg)
/-- one allocation attempt in a given tree (reserve-or-steal / global steal / through a reservation) -/
def attemptB : Nat := lowerGetB c.geom + 8
/-- both passes of `search_and_reserve` -/
def searchB2 : Nat := (c.ntrees + 4) * (attemptB c + 1) + 3 * attemptB c + c.ntrees * (attemptB c + 1) + 8 * attemptB c
/-- stealing from / demoting another slot -/
def fallbackB : Nat := 8 * (c.nslots * 2) + 7 * (c.nslots * 2 + 1) + 2 * lowerGetB c.geom + 8
/-- **`LLFree::get`**: bound of the whole call -/
def getB : Nat := 2 * attemptB c + attemptB c + searchB2 c + c.ntrees * (attemptB c + 1) + 8 * attemptB c + fallbackB c
/-- **`LLFree::put`** -/
def putB : Nat := lowerPutB c.geom retries + 4
/-- **`LLFree::drain`** -/
def drainB : Nat := 8 * (c.nslots * 3)
/-- **`LLFree::change_tree`** -/
def changeB : Nat := c.ntrees * (c.geom.treeHuge + 6) + c.geom.treeHuge + 6
/-- `stats` (exact view) -/
def statsB : Nat := c.ntrees * c.geom.treeHuge
/-- `tree_stats` (fast view: tree pass, two passes over the slots) -/
def treeStatsB : Nat := c.ntrees + 8 * (c.nslots * 1) + 8 * (c.nslots * 2)
/-- `stats_at` / `is_free` -/
def queryB : Nat := c.geom.treeHuge + c.geom.rows + 3
/-- one number for all public calls of a configuration -/
def apiB : Nat := getB c + putB c + drainB c + changeB c + statsB c + treeStatsB c + queryB c
end

end LLFree
