/-
  Transliteration of `core/src/llfree.rs` (`LLFree` and its `Alloc` implementation).
-/
import LLFreeV.Model.Lower
import LLFreeV.Model.Trees
import LLFreeV.Model.Locals
import LLFreeV.Gen.Consts
namespace LLFree
open Prog

/-- `Request` -/
structure Request where
  order : Nat
  cls : Nat
  loc : Option Nat
deriving Repr, DecidableEq

/-- `TreeStats` / `ClassStats` -/
structure TreeStats where
  freeFrames : Nat := 0
  freeTrees : Nat := 0
  classes : List (Nat × Nat) := List.replicate 8 (0, 0)   -- (free, alloc) per class
deriving Repr, DecidableEq

def TreeStats.addClass (s : TreeStats) (cls : Nat) (f : Nat × Nat → Nat × Nat) : TreeStats :=
  { s with classes := s.classes.modify cls f }

section
variable (c : Cfg)

@[reducible] def Cfg.g : Geom := c.geom
@[reducible] def Cfg.tf : Nat := c.geom.treeFrames

/-- `RETRIES` of the source -/
def retries : Nat := Gen.retries

/-- `LLFree::check` -/
def check (frame : Nat) (r : Request) : Prog (Res Unit) :=
  if !(r.order ≤ c.g.treeOrder) then pure (.error .argument)
  else if !(frame + 2 ^ r.order < 2 ^ 64 && frame + 2 ^ r.order ≤ c.frames) then pure (.error .argument)
  else if frame % 2 ^ r.order ≠ 0 then pure (.error .argument)
  else do
    let l ← Locals.classLocals c r.cls
    return if l.isSome then .ok () else .error .argument

def tput (i free : Nat) : Prog Unit := Trees.put c.tf c.policy c.dflt i free
def tunreserve (i free cls : Nat) : Prog Unit := Trees.unreserve c.tf c.policy c.dflt i free cls

/-- `LLFree::reserve_or_steal` -/
def reserveOrSteal (i order cls loc : Nat) : Prog (Res (Nat × Nat)) := do
  let r ← Trees.reserveOrSteal c.tf c.policy i cls (2 ^ order)
  match r with
  | none => return .error .memory
  | some (reserved, free, tcls) =>
    let lr ← Lower.get c.g (i * c.g.treeRows) order none
    match lr with
    | .ok frame =>
      if reserved then
        let cl ← Locals.classLocals c tcls
        match cl with
        | none => Prog.panic "Invalid class"
        | some classLen =>
          if classLen = 0 then Prog.panic "No locals for class" else
          let loc := loc % classLen
          if free < 2 ^ order then Prog.panic "attempt to subtract with overflow" else
          let old ← Locals.swap c tcls loc (frame / c.tf) (free - 2 ^ order)
          match old with
          | some o => do tunreserve c (o.row / c.g.treeRows) o.free tcls; return .ok (frame, tcls)
          | none => return .ok (frame, tcls)
      else return .ok (frame, tcls)
    | .error e =>
      if reserved then do tunreserve c i free tcls; return .error e
      else do tput c i (2 ^ order); return .error e

/-- `LLFree::steal_global` -/
def stealGlobal (i cls order : Nat) (frame : Option Nat) : Prog (Res (Nat × Nat)) := do
  let r ← Trees.steal c.policy i cls (2 ^ order)
  match r with
  | none => return .error .memory
  | some k =>
    let lr ← Lower.get c.g (i * c.g.treeRows) order frame
    match lr with
    | .ok f => return .ok (f, k)
    | .error e => do tput c i (2 ^ order); return .error e

/-- result of `get_local`: `Result<(FrameId, Class), (Error, Option<TreeId>)>` -/
abbrev LocalRes := Except (Err × Option Nat) (Nat × Nat)

/-- `get_local(…, sync = false)` -/
def getLocalNoSync (order cls loc : Nat) (frame : Option Nat) : Prog LocalRes := do
  let r ← Locals.get c cls loc (frame.map (· / c.tf)) (2 ^ order)
  match r with
  | .ok row =>
    let lr ← Lower.get c.g row order frame
    match lr with
    | .ok f => do
      if row ≠ f / 64 then Locals.setStart c cls loc (f / 64)
      return .ok (f, cls)
    | .error e => do
      tput c (row / c.g.treeRows) (2 ^ order)
      return .error (e, some (row / c.g.treeRows))
  | .error (some res) => return .error (.memory, some (res.row / c.g.treeRows))
  | .error none => return .error (.memory, none)

/-- `LLFree::get_local(…, sync = true)` -/
def getLocal (order cls loc : Nat) (frame : Option Nat) : Prog LocalRes := do
  let r ← Locals.get c cls loc (frame.map (· / c.tf)) (2 ^ order)
  match r with
  | .ok row =>
    let lr ← Lower.get c.g row order frame
    match lr with
    | .ok f => do
      if row ≠ f / 64 then Locals.setStart c cls loc (f / 64)
      return .ok (f, cls)
    | .error e => do
      tput c (row / c.g.treeRows) (2 ^ order)
      return .error (e, some (row / c.g.treeRows))
  | .error (some res) =>
    let t := res.row / c.g.treeRows
    if res.free < 2 ^ order then do
      let min := 2 ^ order - res.free
      let s ← Trees.sync t min
      match s with
      | some free =>
        let ok ← Locals.put c cls loc t free
        if ok then getLocalNoSync c order cls loc frame
        else do tput c t free; return .error (.memory, some t)
      | none => return .error (.memory, some t)
    else return .error (.memory, some t)
  | .error none => return .error (.memory, none)

/-- `rate` closure of `get`/`search_and_reserve` -/
def rateBase (cls order : Nat) (t free : Nat) : Policy :=
  if free ≥ 2 ^ order then c.policy cls t free else .invalid

def nextPow2 (n : Nat) : Nat := if n ≤ 1 then 1 else 2 ^ (Nat.log2 (n - 1) + 1)

/-- `LLFree::search_and_reserve` -/
def searchAndReserve (order cls loc start : Nat) : Prog (Res (Nat × Nat)) := do
  let nt := c.ntrees
  let near := max (nt / 16) 4
  let start := start / nextPow2 (2 * near) * nextPow2 (2 * near)
  let ros := fun i => reserveOrSteal c i order cls loc
  let r1 ← (
    if order < c.g.hugeOrder then
      Trees.searchBest c.tf nt 3 start 1 near
        (fun t f => match rateBase c cls order t f with
          | .match p => .match p
          | .demote => if f = c.tf then .demote else .invalid
          | _ => .invalid) ros
    else pure (.error .memory))
  match r1 with
  | .error .memory =>
    Trees.searchBest c.tf nt 8 start 0 nt
      (fun t f => match rateBase c cls order t f with
        | .match _ => .match 255
        | .demote => if f = c.tf then .match 255 else .demote
        | p => p) ros
  | r => return r

/-- `LLFree::steal_local` -/
def stealLocal (r : Request) (frame : Option Nat) : Prog (Res (Nat × Nat)) := do
  let s ← Locals.stealAny c r.cls r.loc (frame.map (· / c.tf)) (2 ^ r.order)
  match s with
  | none => return .error .memory
  | some res =>
    let lr ← Lower.get c.g res.row r.order frame
    match lr with
    | .error .memory => do tput c (res.row / c.g.treeRows) (2 ^ r.order); return .error .memory
    | .error e => return .error e
    | .ok f => return .ok (f, res.cls)

/-- `LLFree::demote_local` -/
def demoteLocal (r : Request) (frame : Option Nat) : Prog (Res (Nat × Nat)) := do
  let d ← Locals.demoteAny c r.cls r.loc (frame.map (· / c.tf)) (2 ^ r.order)
  match d with
  | none => return .error .memory
  | some (row, old) =>
    let _ ← (match old with
      | some o => tunreserve c (o.row / c.g.treeRows) o.free o.cls
      | none => pure ())
    let lr ← Lower.get c.g row r.order frame
    match lr with
    | .error .memory => do tput c (row / c.g.treeRows) (2 ^ r.order); return .error .memory
    | .error e => return .error e
    | .ok f => return .ok (f, r.cls)

/-- out-of-memory handling shared by `get` and `get_at`: steal from, then demote, other slots -/
def getFallback (r : Request) (frame : Option Nat) : Prog (Res (Nat × Nat)) := do
  let s ← stealLocal c r frame
  match s with
  | .error .memory => demoteLocal c r frame
  | x => return x

/-- `get_at`: the attempt through the own local reservation (`none` = continue globally) -/
def getAtLocal (frame : Nat) (r : Request) : Prog (Option (Res (Nat × Nat))) :=
  match r.loc with
  | some l => do
    let lr ← getLocal c r.order r.cls l (some frame)
    match lr with
    | .error (.memory, _) => return none
    | .error (e, _) => return some (.error e)
    | .ok x => return some (.ok x)
  | none => return none

/-- `LLFree::get_at` -/
def getAt (frame : Nat) (r : Request) : Prog (Res (Nat × Nat)) := do
  let viaLocal ← getAtLocal c frame r
  match viaLocal with
  | some x => return x
  | none =>
    let g1 ← stealGlobal c (frame / c.tf) r.cls r.order (some frame)
    match g1 with
    | .error .memory => getFallback c r (some frame)
    | x => return x

/-- `get` without target: local reservation / reserve a new tree, or the global search -/
def getFirst (r : Request) (cl : Option Nat) : Prog (Res (Nat × Nat)) :=
  let len := cl.getD 0
  let nt := c.ntrees
  let startIdx := (if len = 0 then 0 else nt / len) * r.loc.getD 0
  let global : Prog (Res (Nat × Nat)) :=
    Trees.searchBest c.tf nt 8 startIdx 0 nt
      (fun t free => if free < 2 ^ r.order then .invalid else c.policy r.cls t free)
      (fun i => stealGlobal c i r.cls r.order none)
  match r.loc, cl with
  | some l, some len =>
    if len > 0 && len < nt then do
      let lr ← getLocal c r.order r.cls l none
      match lr with
      | .ok x => return .ok x
      | .error (.memory, st) => searchAndReserve c r.order r.cls l (st.getD startIdx)
      | .error (e, _) => return .error e
    else global
  | _, _ => global

/-- `LLFree::get` -/
def get (frame : Option Nat) (r : Request) : Prog (Res (Nat × Nat)) := do
  let ck ← check c (frame.getD 0) r
  match ck with
  | .error e => return .error e
  | .ok _ =>
  match frame with
  | some f => getAt c f r
  | none =>
    let cl ← Locals.classLocals c r.cls
    let first ← getFirst c r cl
    match first with
    | .error .memory => getFallback c r none
    | x => return x

/-- `LLFree::put` -/
def put (frame : Nat) (r : Request) : Prog (Res Unit) := do
  let ck ← check c frame r
  match ck with
  | .error e => return .error e
  | .ok _ =>
  let lp ← Lower.put c.g retries frame r.order
  match lp with
  | .error e => return .error e
  | .ok _ =>
    let i := frame / c.tf
    let viaLocal ← match r.loc with
      | some l => Locals.put c r.cls l i (2 ^ r.order)
      | none => pure false
    if viaLocal then return .ok ()
    else do tput c i (2 ^ r.order); return .ok ()

/-- `LLFree::drain` -/
def drain : Prog Unit :=
  Locals.drain c (fun row cls free => tunreserve c (row / c.g.treeRows) free cls)

/-- `Trees::stats` -/
def Trees.stats : Prog TreeStats :=
  let rec go (cnt i : Nat) (s : TreeStats) : Prog TreeStats :=
    match cnt with
    | 0 => pure s
    | cnt+1 => do
      let t : Tree ← loadK .tree i
      if t.free > c.tf then Prog.panic "attempt to subtract with overflow" else
      go cnt (i + 1)
        ({ s with freeFrames := s.freeFrames + t.free, freeTrees := s.freeTrees + t.free / c.tf }.addClass
          t.cls (fun (f, a) => (f + t.free, a + (c.tf - t.free))))
  go c.ntrees 0 {}

/-- iterate over all present slots in class-id order: `f acc cls slotValue` -/
def Locals.foldSlots {σ : Type} (f : σ → Nat → LTree → Prog σ) (init : σ) : Prog σ :=
  let rec slots (cls base : Nat) (cnt j : Nat) (acc : σ) : Prog σ :=
    match cnt with
    | 0 => pure acc
    | cnt+1 => do
      let t : LTree ← loadK .slot (base + j)
      let acc ← if t.present then f acc cls t else pure acc
      slots cls base cnt (j + 1) acc
  let rec classes (cnt i : Nat) (acc : σ) : Prog σ :=
    match cnt with
    | 0 => pure acc
    | cnt+1 => do
      let acc ← match c.slotRange i with
        | some rng => slots i rng.1 rng.2 0 acc
        | none => pure acc
      classes cnt (i + 1) acc
  classes 8 0 init

/-- `LLFree::tree_stats` -/
def treeStats : Prog TreeStats := do
  let s ← Trees.stats c
  -- `Locals::stats` merged into the tree statistics
  let s ← Locals.foldSlots c (fun (s : TreeStats) cls t => pure
    ({ s with freeFrames := s.freeFrames + t.free, freeTrees := s.freeTrees + t.free / c.tf }.addClass
      cls (fun (f, a) => (f + t.free, a)))) s
  -- frames of local reservations are not allocated
  Locals.foldSlots c (fun (s : TreeStats) _ t => do
    let e : Tree ← loadK .tree (t.row / c.g.treeRows)
    return s.addClass e.cls (fun (f, a) => (f, a - t.free))) s

/-- `LLFree::stats` -/
def stats : Prog Stats := Lower.stats c.g c.ntrees

/-- `LLFree::change_tree` (see DESIGN: for `Online` the lower counters are read before the
    tree entry is loaded; the source reads them inside the update closure) -/
def changeTree (mid : Option Nat) (mcls : Option Nat) (mfree : Nat) (ccls : Option Nat)
    (op : Option Tree.Op) : Prog (Res Unit) :=
  let fetch (i : Nat) : Prog Nat := do
    if op ≠ some .online then return 0
    let e : Tree ← loadK .tree i
    match e.change mcls mfree ccls none 0 with
    | .set s =>
      if s.free = 0 then do
        let st ← Lower.statsAt c.g (i * c.tf) c.g.treeOrder
        return st.freeFrames
      else return 0
    | _ => return 0
  let changeAt (i : Nat) : Prog (Res Unit) :=
    if i ≥ c.ntrees then pure (.error .argument) else do
    let ff ← fetch i
    let r ← updK .tree i (fun (e : Tree) => e.change mcls mfree ccls op ff)
    match r with
    | .ok _ => return .ok ()
    | .error _ => return .error .memory
  match mid with
  | some i => changeAt i
  | none => Trees.search c.ntrees 0 0 c.ntrees changeAt

/-- `LLFree::validate` -/
def validate : Prog Unit := do
  let fast ← treeStats c
  let full ← stats c
  if fast.freeFrames ≠ full.freeFrames then Prog.panic "assertion `left == right` failed (free_frames)" else
  let rec trees (cnt i reserved : Nat) : Prog Nat :=
    match cnt with
    | 0 => pure reserved
    | cnt+1 => do
      let t : Tree ← loadK .tree i
      if t.reserved then trees cnt (i + 1) (reserved + 1) else do
        let st ← Lower.statsAt c.g (i * c.tf) c.g.treeOrder
        if t.free ≠ st.freeFrames then Prog.panic "assertion `left == right` failed (tree)" else
        trees cnt (i + 1) reserved
  let reserved ← trees c.ntrees 0 0
  let left ← Locals.foldSlots c (fun (acc : Nat) _ t => do
    let e : Tree ← loadK .tree (t.row / c.g.treeRows)
    if !e.reserved then Prog.panic "assertion failed: res" else
    let st ← Lower.statsAt c.g (t.row * 64) c.g.treeOrder
    if t.free + e.free ≠ st.freeFrames then Prog.panic "assertion `left == right` failed (local)" else
    if acc = 0 then Prog.panic "attempt to subtract with overflow" else
    return acc - 1) reserved
  if left ≠ 0 then Prog.panic "assertion failed: reserved == 0" else return ()

/-- `Trees::new` with `tree_init = lower.stats_at(start, TREE_ORDER).free_frames` -/
def Trees.init : Prog Unit :=
  let rec go (cnt i : Nat) : Prog Unit :=
    match cnt with
    | 0 => pure ()
    | cnt+1 => do
      let st ← Lower.statsAt c.g (i * c.tf) c.g.treeOrder
      match Tree.with c.tf st.freeFrames false c.dflt with
      | .set t => do storeK .tree i t; go cnt (i + 1)
      | .panic s => Prog.panic s
      | .skip => Prog.panic "unreachable"
  go c.ntrees 0

/-- `Init` -/
inductive Init where | freeAll | allocAll | recover | none
deriving Repr, DecidableEq

/-- The part of `LLFree::new` after the metadata checks: initialise lower and trees. -/
def initProg (init : Init) : Prog Unit := do
  match init with
  | .freeAll => Lower.freeAll c.g c.frames c.ntrees c.nhuge
  | .allocAll => Lower.reserveAll c.g c.frames c.ntrees c.nhuge
  | .recover => Lower.recover c.g c.ntrees c.nhuge
  | .none => pure ()
  if init ≠ .none then Trees.init c

end
end LLFree
