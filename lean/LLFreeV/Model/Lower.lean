/-
  Transliteration of `core/src/bitfield.rs` and `core/src/lower.rs`.
  One `Prog` node per `Atom` access of the source, in source order.
  `fza` (the row bit search, `first_zeros_aligned`) is a parameter of the row-level programs;
  it is instantiated with the function regenerated from the source (`Gen.Fza`).
-/
import LLFreeV.Model.Prog
import LLFreeV.Gen.Fza
namespace LLFree
open Prog

/-! `HugeEntry` transitions (`lower.rs`); `n = 1 << order`. -/
namespace Huge
def isHuge (e : Nat) : Bool := e == HugeMarker
def free (e : Nat) : Nat := if isHuge e then 0 else e
/-- `new_with(free)`: `free as u16` -/
def newWith (f : Nat) : Nat := f % 65536
def dec (e n : Nat) : Option Nat :=
  if !isHuge e && free e ≥ n then some (newWith (free e - n)) else none
/-- `inc`: `self.free() <= Bitfield::LEN - num_frames` (usize subtraction, traps on underflow) -/
def inc (len e n : Nat) : Upd Nat :=
  if n > len then .panic "attempt to subtract with overflow"
  else if !isHuge e && free e ≤ len - n then .set (newWith (free e + n)) else .skip
end Huge

/-- Undo part of `casRange`: entries `j-1, j-2, …` (`cnt` of them) back from `new` to `cur`;
    a failing roll-back is the `expect`/`assert!` of the source. -/
def casRangeUndo (k : Kind) (base : Nat) (cur new : k.Val) (msg : String) : Nat → Nat → Prog Unit
  | 0, _ => pure ()
  | cnt+1, j => do
    let r ← Prog.casK k (base + (j - 1)) new cur
    match r with
    | .ok _ => casRangeUndo k base cur new msg cnt (j - 1)
    | .error _ => Prog.panic msg

/-- Compare-exchange the entries `base + j, base + j + 1, …` (`cnt` of them) from `cur` to `new`;
    on the first failure roll back what was done since `base` and answer `false`
    (`compare_exchange_all`, and the row loop of `set_first_zero_rows`). -/
def casRange (k : Kind) (base : Nat) (cur new : k.Val) (msg : String) : Nat → Nat → Prog Bool
  | 0, _ => pure true
  | cnt+1, j => do
    let r ← Prog.casK k (base + j) cur new
    match r with
    | .ok _ => casRange k base cur new msg cnt (j + 1)
    | .error _ => do
      casRangeUndo k base cur new msg j j
      return false

/-- all-ones / all-zeros row -/
def rowMax : BitVec 64 := BitVec.allOnes 64

section
variable (g : Geom)

/-- global row index of row `r` (already reduced mod `rows`) of bitfield `h` -/
@[reducible] def rowIdx (h r : Nat) : Nat := h * g.rows + r

/-- `(u64::MAX >> (64 - bits)) << sh` -/
def bitMask (bits sh : Nat) : BitVec 64 := (rowMax >>> (64 - bits)) <<< sh

/-- `Bitfield::toggle` on bitfield `h`, frame offset `i` (any frame number; reduced like the
    source does), `2^order` bits, expecting all ones (`expected`) or all zeros. -/
def Bitfield.toggle (h : Nat) (i order : Nat) (expected : Bool) : Prog (Res Unit) :=
  let numBits := 2 ^ order
  if order ≤ 2 then do
    let mask := bitMask numBits (i % 64)
    let r ← tryUpdate .row (rowIdx g h ((i / 64) % g.rows)) (fun (e : BitVec 64) =>
      if expected then (if e &&& mask = mask then some (e &&& ~~~mask) else none)
      else (if e &&& mask = 0 then some (e ||| mask) else none))
    match r with
    | .ok _ => return .ok ()
    | .error _ => return .error .memory
  else if order ≤ 6 then do
    -- toggle_int: `i % LEN`, unit index `i / width`
    let i' := i % g.hugeFrames
    let e : BitVec 64 := if expected then lowMask numBits else 0
    let ok ← casPartK (rowIdx g h (i' / 64)) (i' % 64 / numBits * numBits) numBits e (~~~e)
    return if ok then .ok () else .error .memory
  else
    let numRows := numBits / 64
    let di := (i / 64) % g.rows
    let exp : BitVec 64 := if expected then rowMax else 0
    -- undo rows `j-1 … di`
    let rec undo (cnt : Nat) (j : Nat) : Prog Unit :=
      match cnt with
      | 0 => pure ()
      | cnt+1 => do
        let r ← casK .row (rowIdx g h ((j - 1) % g.rows)) (~~~exp) exp
        match r with
        | .ok _ => undo cnt (j - 1)
        | .error _ => Prog.panic "Failed undo toggle"
    let rec go (cnt : Nat) (j : Nat) : Prog (Res Unit) :=
      match cnt with
      | 0 => pure (.ok ())
      | cnt+1 => do
        let r ← casK .row (rowIdx g h (j % g.rows)) exp (~~~exp)
        match r with
        | .ok _ => go cnt (j + 1)
        | .error _ => do
          undo (j - di) j
          return .error .memory
    go numRows di

/-- `Bitfield::get_row` -/
def Bitfield.getRow (h r : Nat) : Prog (BitVec 64) := loadK .row (rowIdx g h (r % g.rows))

/-- `Bitfield::is_zero` -/
def Bitfield.isZero (h : Nat) (i order : Nat) : Prog Bool :=
  let numBits := 2 ^ order
  let rowI := i / 64
  if numBits > 64 then
    let endI := (i + numBits) / 64
    let rec go (cnt r : Nat) : Prog Bool :=
      match cnt with
      | 0 => pure true
      | cnt+1 => do
        let v ← Bitfield.getRow g h r
        if v = 0 then go cnt (r + 1) else return false
    go (endI - rowI) rowI
  else do
    let row ← Bitfield.getRow g h rowI
    let mask := bitMask numBits (i % 64)
    return (row &&& mask) = 0

/-- `Bitfield::set_first_zero_rows` (orders above 6) -/
def Bitfield.setFirstZeroRows (h : Nat) (order : Nat) : Prog (Res Nat) :=
  let numRows := 2 ^ (order - 6)
  -- `rows.iter().all(|e| e.load() == 0)`: short-circuits at the first non-zero row
  let rec allZero (cnt r : Nat) : Prog Bool :=
    match cnt with
    | 0 => pure true
    | cnt+1 => do
      let v ← loadK .row (rowIdx g h r)
      if v = (0 : BitVec 64) then allZero cnt (r + 1) else return false
  -- `self.data.chunks(num_rows)`: the last chunk may be shorter
  let rec chunks (cnt : Nat) (ci : Nat) : Prog (Res Nat) :=
    match cnt with
    | 0 => pure (.error .memory)
    | cnt+1 => do
      let base := ci * numRows
      let len := min numRows (g.rows - base)
      let z ← allZero len base
      if z then
        let ok ← casRange .row (rowIdx g h base) (0 : BitVec 64) rowMax "Failed undo search" len 0
        if ok then return .ok (ci * numRows) else chunks cnt (ci + 1)
      else chunks cnt (ci + 1)
  chunks ((g.rows + numRows - 1) / numRows) 0

/-- `Bitfield::set_first_zeros`: returns the frame offset inside the bitfield -/
def Bitfield.setFirstZeros (h : Nat) (startRow : Nat) (order : Nat) : Prog (Res Nat) :=
  if order > 6 then do
    let r ← Bitfield.setFirstZeroRows g h order
    return r.map (· * 64)
  else
    let rec go (cnt i : Nat) : Prog (Res Nat) :=
      match cnt with
      | 0 => pure (.error .memory)
      | cnt+1 => do
        let idx := (i + startRow % g.rows) % g.rows
        let r ← tryUpdate .row (rowIdx g h idx) (fun (e : BitVec 64) => (Gen.fza e order).map (·.1))
        match r with
        | .ok old =>
          match Gen.fza old order with
          | some (_, off) => return .ok (idx * 64 + off)
          | none => Prog.panic "unreachable"
        | .error _ => go cnt (i + 1)
    go g.rows 0

/-- `Bitfield::fill` -/
def Bitfield.fill (h : Nat) (v : Bool) : Prog Unit :=
  let val : BitVec 64 := if v then rowMax else 0
  let rec go (cnt r : Nat) : Prog Unit :=
    match cnt with
    | 0 => pure ()
    | cnt+1 => do storeK .row (rowIdx g h r) val; go cnt (r + 1)
  go g.rows 0

/-- `Bitfield::count_zeros` -/
def Bitfield.countZeros (h : Nat) : Prog Nat :=
  let rec go (cnt r acc : Nat) : Prog Nat :=
    match cnt with
    | 0 => pure acc
    | cnt+1 => do
      let v : BitVec 64 ← loadK .row (rowIdx g h r)
      go cnt (r + 1) (acc + (64 - (BitVec.cpop v).toNat))
  go g.rows 0 0

/-- `Bitfield::set(range, v)` (only used during initialisation; `fetch_or`/`fetch_and`) -/
def Bitfield.setRange (h : Nat) (s e : Nat) (v : Bool) : Prog Unit :=
  if s = e then pure () else
  let last := e - 1
  if s / g.hugeFrames ≠ last / g.hugeFrames then Prog.panic "crosses bitfield boundary" else
  let rec go (cnt ei : Nat) : Prog Unit :=
    match cnt with
    | 0 => pure ()
    | cnt+1 => do
      let bitOff := ei * 64
      let bitStart := s - bitOff
      let bitEnd := min (e - bitOff) 64
      let bits := bitEnd - bitStart
      let mask := bitMask bits bitStart
      let _ ← updK .row (rowIdx g h (ei % g.rows)) (fun (x : BitVec 64) =>
        .set (if v then x ||| mask else x &&& ~~~mask))
      go cnt (ei + 1)
  go (last / 64 + 1 - s / 64) (s / 64)

/-! ### Lower -/

/-- global index of child `c` of tree `t` -/
@[reducible] def hugeIdx (t c : Nat) : Nat := t * g.treeHuge + c

/-- `compare_exchange_all` on the `n` entries starting at child `c` of tree `t` -/
def casAll (t c n : Nat) (cur new : Nat) : Prog Bool :=
  casRange .huge (hugeIdx g t c) cur new "undo failed" n 0

/-- `Lower::get_at` -/
def Lower.getAt (frame order : Nat) : Prog (Res Unit) :=
  let i := (frame / g.hugeFrames) % g.treeHuge
  let t := frame / g.treeFrames
  if order ≥ g.hugeOrder then do
    let n := 2 ^ (order - g.hugeOrder)
    if i + n > g.treeHuge then Prog.panic "range end index out of range" else
    let ok ← casAll g t i n (Huge.newWith g.hugeFrames) HugeMarker
    return if ok then .ok () else .error .memory
  else do
    let r ← tryUpdate .huge (hugeIdx g t i) (fun e => Huge.dec e (2 ^ order))
    match r with
    | .ok _ =>
      let tg ← Bitfield.toggle g (frame / g.hugeFrames) frame order false
      match tg with
      | .ok _ => return .ok ()
      | .error _ =>
        let u ← updK .huge (hugeIdx g t i) (fun e => Huge.inc g.hugeFrames e (2 ^ order))
        match u with
        | .ok _ => return .error .memory
        | .error _ => Prog.panic "called `Result::unwrap()` on an `Err` value"
    | .error _ => return .error .memory

/-- `Lower::get` with `start` a row id; returns the allocated frame -/
def Lower.get (start order : Nat) (frame : Option Nat) : Prog (Res Nat) :=
  match frame with
  | some f => do
    let r ← Lower.getAt g f order
    return r.map (fun _ => f)
  | none =>
    let t := start * 64 / g.treeFrames
    let treeStart := t * g.treeFrames
    let childOff := (start * 64 / g.hugeFrames) % g.treeHuge
    if order ≥ g.hugeOrder then
      let hNum := 2 ^ (order - g.hugeOrder)
      let childOff := childOff / hNum * hNum
      let rec goH (cnt k : Nat) : Prog (Res Nat) :=
        match cnt with
        | 0 => pure (.error .memory)
        | cnt+1 => do
          let i := (childOff + k * hNum) % g.treeHuge
          if i + hNum > g.treeHuge then Prog.panic "range end index out of range" else
          let ok ← casAll g t i hNum (Huge.newWith g.hugeFrames) HugeMarker
          if ok then return .ok (treeStart + i * g.hugeFrames) else goH cnt (k + 1)
      goH ((g.treeHuge + hNum - 1) / hNum) 0
    else
      let firstChild := treeStart / g.hugeFrames
      let rec go (cnt j : Nat) : Prog (Res Nat) :=
        match cnt with
        | 0 => pure (.error .memory)
        | cnt+1 => do
          let i := (childOff + j) % g.treeHuge
          let r ← tryUpdate .huge (hugeIdx g t i) (fun e => Huge.dec e (2 ^ order))
          match r with
          | .ok _ =>
            let bf := firstChild + i
            let s ← Bitfield.setFirstZeros g bf start order
            match s with
            | .ok off => return .ok (bf * g.hugeFrames + off)
            | .error _ =>
              let u ← updK .huge (hugeIdx g t i) (fun e => Huge.inc g.hugeFrames e (2 ^ order))
              match u with
              | .ok _ => go cnt (j + 1)
              | .error _ => Prog.panic "Undo failed"
          | .error _ => go cnt (j + 1)
      go g.treeHuge 0

/-- `Lower::put_small` -/
def Lower.putSmall (frame order : Nat) : Prog (Res Unit) := do
  let tg ← Bitfield.toggle g (frame / g.hugeFrames) frame order true
  match tg with
  | .error _ => return .error .memory
  | .ok _ =>
    let t := frame / g.treeFrames
    let i := (frame / g.hugeFrames) % g.treeHuge
    let u ← updK .huge (hugeIdx g t i) (fun e => Huge.inc g.hugeFrames e (2 ^ order))
    match u with
    | .ok _ => return .ok ()
    | .error _ => Prog.panic "Inc failed"

/-- `spin_wait(n, || !children[i].load().huge())` -/
def spinWaitNotHuge (t i : Nat) : Nat → Prog Bool
  | 0 => pure false
  | n+1 => do
    let e ← loadK .huge (hugeIdx g t i)
    if !Huge.isHuge e then return true else spinWaitNotHuge t i n

/-- `Lower::partial_put_huge` -/
def Lower.partialPutHuge (retries : Nat) (old : Nat) (frame order : Nat) : Prog (Res Unit) := do
  let t := frame / g.treeFrames
  let i := (frame / g.hugeFrames) % g.treeHuge
  let tg ← Bitfield.toggle g (frame / g.hugeFrames) 0 g.hugeOrder false
  match tg with
  | .ok _ =>
    let r ← casK .huge (hugeIdx g t i) old (0 : Nat)
    match r with
    | .ok _ => Lower.putSmall g frame order
    | .error _ => Prog.panic "Failed partial clear"
  | .error _ =>
    let ok ← spinWaitNotHuge g t i retries
    if ok then Lower.putSmall g frame order else Prog.panic "Exceeding retries"

/-- `Lower::put` -/
def Lower.put (retries : Nat) (frame order : Nat) : Prog (Res Unit) :=
  let t := frame / g.treeFrames
  let i := (frame / g.hugeFrames) % g.treeHuge
  if order ≥ g.hugeOrder then do
    let n := 2 ^ (order - g.hugeOrder)
    if i + n > g.treeHuge then Prog.panic "range end index out of range" else
    let ok ← casAll g t i n HugeMarker (Huge.newWith g.hugeFrames)
    return if ok then .ok () else .error .memory
  else do
    let old ← loadK .huge (hugeIdx g t i)
    if Huge.isHuge old then Lower.partialPutHuge g retries old frame order
    else if 2 ^ order > g.hugeFrames then Prog.panic "attempt to subtract with overflow"
    else if Huge.free old ≤ g.hugeFrames - 2 ^ order then Lower.putSmall g frame order
    else return .error .memory

/-- `Lower::is_free` (caller asserts alignment / range / order) -/
def Lower.isFree (frame order : Nat) : Prog Bool :=
  let t := frame / g.treeFrames
  let i := (frame / g.hugeFrames) % g.treeHuge
  if order ≥ g.hugeOrder then
    let n := 2 ^ (order - g.hugeOrder)
    let rec go (cnt k : Nat) : Prog Bool :=
      match cnt with
      | 0 => pure true
      | cnt+1 => do
        let e ← loadK .huge (hugeIdx g t (i + k))
        if Huge.free e = g.hugeFrames then go cnt (k + 1) else return false
    if i + n > g.treeHuge then Prog.panic "range end index out of range" else go n 0
  else do
    let child ← loadK .huge (hugeIdx g t i)
    if Huge.free child < 2 ^ order then return false
    else if Huge.free child = g.hugeFrames then return true
    else Bitfield.isZero g (frame / g.hugeFrames) frame order

/-- Statistics triple -/
structure Stats where
  freeFrames : Nat := 0
  freeHuge : Nat := 0
  freeTrees : Nat := 0
deriving Repr, DecidableEq, Inhabited

/-- sum of `free()` (and count of entirely free / `free / HUGE_FRAMES`) over the children of tree `t` -/
def Lower.treeFold (t : Nat) (divide : Bool) : Prog (Nat × Nat) :=
  let rec go (cnt c : Nat) (ff fh : Nat) : Prog (Nat × Nat) :=
    match cnt with
    | 0 => pure (ff, fh)
    | cnt+1 => do
      let e ← loadK .huge (hugeIdx g t c)
      let f := Huge.free e
      go cnt (c + 1) (ff + f) (fh + (if divide then f / g.hugeFrames else if f = g.hugeFrames then 1 else 0))
  go g.treeHuge 0 0 0

/-- `Lower::stats` over `ntrees` tables -/
def Lower.stats (ntrees : Nat) : Prog Stats :=
  let rec go (cnt t : Nat) (s : Stats) : Prog Stats :=
    match cnt with
    | 0 => pure s
    | cnt+1 => do
      let (ff, fh) ← Lower.treeFold g t false
      go cnt (t + 1) { freeFrames := s.freeFrames + ff, freeHuge := s.freeHuge + fh,
                       freeTrees := s.freeTrees + (if ff = g.treeFrames then 1 else 0) }
  go ntrees 0 {}

/-- `Lower::stats_at` -/
def Lower.statsAt (frame order : Nat) : Prog Stats :=
  let t := frame / g.treeFrames
  let h := frame / g.hugeFrames
  let c := h % g.treeHuge
  -- `let children = &self.children(frame.as_tree())` traps first if the tree is out of range
  Prog.load .huge (hugeIdx g t 0) fun _ =>
  if order = 0 then do
    let e ← loadK .huge (hugeIdx g t c)
    if Huge.free e > 0 then
      let z ← Bitfield.isZero g h frame 0
      return { freeFrames := if z then 1 else 0 }
    else return {}
  else if order = g.hugeOrder then do
    let e ← loadK .huge (hugeIdx g t c)
    let f := Huge.free e
    return { freeFrames := f, freeHuge := f / g.hugeFrames }
  else if order = g.treeOrder then do
    let (ff, fh) ← Lower.treeFold g t true
    return { freeFrames := ff, freeHuge := fh, freeTrees := ff / g.treeFrames }
  else return {}

/-! ### Initialisation -/

def storeHugeRange (idx : Nat) (v : Nat) : Nat → Prog Unit
  | 0 => pure ()
  | n+1 => do storeK .huge idx v; storeHugeRange (idx + 1) v n

def fillBitfields (v : Bool) (h : Nat) : Nat → Prog Unit
  | 0 => pure ()
  | n+1 => do Bitfield.fill g h v; fillBitfields v (h + 1) n

/-- `Lower::free_all` -/
def Lower.freeAll (frames ntrees nhuge : Nat) : Prog Unit :=
  if ntrees = 0 then pure () else do
  let tables := ntrees - 1
  storeHugeRange (hugeIdx g 0 0) (Huge.newWith g.hugeFrames) (tables * g.treeHuge)
  let rec lastT (cnt i : Nat) : Prog Unit :=
    match cnt with
    | 0 => pure ()
    | cnt+1 => do
      let frame := tables * g.treeFrames + i * g.hugeFrames
      let free := min (frames - frame) g.hugeFrames
      storeK .huge (hugeIdx g tables i) (Huge.newWith free)
      lastT cnt (i + 1)
  lastT g.treeHuge 0
  let lastI := frames / g.hugeFrames
  if lastI > nhuge then Prog.panic "mid > len" else
  fillBitfields g false 0 lastI
  if lastI < nhuge then do
    let e := frames - lastI * g.hugeFrames
    Bitfield.setRange g lastI 0 e false
    Bitfield.setRange g lastI e g.hugeFrames true
    fillBitfields g true (lastI + 1) (nhuge - lastI - 1)

/-- `Lower::reserve_all` -/
def Lower.reserveAll (frames ntrees nhuge : Nat) : Prog Unit :=
  if ntrees = 0 then pure () else do
  let tables := ntrees - 1
  storeHugeRange (hugeIdx g 0 0) HugeMarker (tables * g.treeHuge)
  if frames / g.hugeFrames < tables * g.treeHuge then Prog.panic "attempt to subtract with overflow" else
  let lastI := frames / g.hugeFrames - tables * g.treeHuge
  if lastI > g.treeHuge then Prog.panic "mid > len" else
  storeHugeRange (hugeIdx g tables 0) HugeMarker lastI
  storeHugeRange (hugeIdx g tables lastI) (Huge.newWith 0) (g.treeHuge - lastI)
  let lastB := frames / g.hugeFrames
  if lastB > nhuge then Prog.panic "mid > len" else
  fillBitfields g false 0 lastB
  fillBitfields g true lastB (nhuge - lastB)

/-- what `recover` does to one table entry, given the number of zero bits of its bitfield -/
inductive RecoverAct where
  | nothing
  | clearBitfield          -- `bitfield.fill(false)`
  | setCounter (v : Nat)   -- `a_entry.store(HugeEntry::new_with(zeros))`
deriving Repr, DecidableEq

/-- decision of `Lower::recover` for one entry -/
def recoverAct (hf entry zeros : Nat) : RecoverAct :=
  if Huge.isHuge entry then
    (if zeros ≠ hf then .clearBitfield else .nothing)
  else
    (if Huge.free entry ≠ zeros then .setCounter (Huge.newWith zeros) else .nothing)

/-- `Lower::recover` -/
def Lower.recover (ntrees nhuge : Nat) : Prog Unit :=
  let rec entries (cnt : Nat) (t j : Nat) : Prog Unit :=
    match cnt with
    | 0 => pure ()
    | cnt+1 => do
      let h := t * g.treeHuge + j
      if h ≥ nhuge then pure () else  -- `break`
      let entry ← loadK .huge (hugeIdx g t j)
      let zeros ← Bitfield.countZeros g h
      match recoverAct g.hugeFrames entry zeros with
      | .nothing => pure ()
      | .clearBitfield => Bitfield.fill g h false
      | .setCounter v => storeK .huge (hugeIdx g t j) v
      entries cnt t (j + 1)
  let rec tables (cnt t : Nat) : Prog Unit :=
    match cnt with
    | 0 => pure ()
    | cnt+1 => do entries g.treeHuge t 0; tables cnt (t + 1)
  tables ntrees 0

end
end LLFree
