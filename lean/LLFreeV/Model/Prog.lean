/-
  `Prog`: programs as trees of single atomic accesses with continuations (one node per
  `Atom` method call in the Rust source), with two semantics:

  * `runSolo`  — sequential: every program runs to completion without interference;
  * `Th.step`  — one atomic access of one thread (used by the interleaving semantics in
                 `Conc.lean` and by the trace co-simulation).

  `upd` is `Atom::try_update` / `Atom::update`: a load followed by a compare-exchange loop.
  In the sequential semantics the loop body runs once; in the interleaving semantics a thread
  inside the loop is in the explicit state `Th.updCas` ("loaded `cur`, about to CAS"), so
  unbounded retries are unbounded schedules, not unrolled code.
-/
import LLFreeV.Model.Base
namespace LLFree

/-- Result of the closure of `try_update`/`update`. -/
inductive Upd (β : Type) where
  | skip                   -- closure returned `None`
  | set (v : β)            -- closure returned `Some(v)`
  | panic (s : String)     -- closure panicked (assert!/panic!/overflow)
deriving Repr

def Upd.ofOption {β} : Option β → Upd β
  | none => .skip
  | some v => .set v

inductive Prog (α : Type) : Type where
  | ret (a : α)
  | panic (s : String)
  | load (k : Kind) (i : Nat) (cont : k.Val → Prog α)
  | store (k : Kind) (i : Nat) (v : k.Val) (cont : Prog α)
  | swap (k : Kind) (i : Nat) (v : k.Val) (cont : k.Val → Prog α)
  /-- `compare_exchange`: `Ok(old)` / `Err(current)` -/
  | cas (k : Kind) (i : Nat) (e n : k.Val) (cont : Except k.Val k.Val → Prog α)
  /-- compare-exchange of the `w`-bit part at bit `sh` of row `i` (`Bitfield::toggle_int`) -/
  | casPart (i : Nat) (sh w : Nat) (e n : BitVec 64) (cont : Bool → Prog α)
  /-- `try_update(f)`: `Ok(old)` if `f old = set _` was stored, `Err(cur)` if `f cur = skip` -/
  | upd (k : Kind) (i : Nat) (f : k.Val → Upd k.Val) (cont : Except k.Val k.Val → Prog α)

namespace Prog

def bind {α β : Type} : Prog α → (α → Prog β) → Prog β
  | ret a, g => g a
  | panic s, _ => panic s
  | load k i c, g => load k i (fun v => (c v).bind g)
  | store k i v c, g => store k i v (c.bind g)
  | swap k i v c, g => swap k i v (fun o => (c o).bind g)
  | cas k i e n c, g => cas k i e n (fun r => (c r).bind g)
  | casPart i sh w e n c, g => casPart i sh w e n (fun r => (c r).bind g)
  | upd k i f c, g => upd k i f (fun r => (c r).bind g)

instance : Monad Prog where
  pure := ret
  bind := bind

/-! Primitive programs -/
def loadK (k : Kind) (i : Nat) : Prog k.Val := load k i ret
def storeK (k : Kind) (i : Nat) (v : k.Val) : Prog Unit := store k i v (ret ())
def swapK (k : Kind) (i : Nat) (v : k.Val) : Prog k.Val := swap k i v ret
def casK (k : Kind) (i : Nat) (e n : k.Val) : Prog (Except k.Val k.Val) := cas k i e n ret
def casPartK (i sh w : Nat) (e n : BitVec 64) : Prog Bool := casPart i sh w e n ret
def updK (k : Kind) (i : Nat) (f : k.Val → Upd k.Val) : Prog (Except k.Val k.Val) := upd k i f ret
def tryUpdate (k : Kind) (i : Nat) (f : k.Val → Option k.Val) : Prog (Except k.Val k.Val) :=
  upd k i (fun v => Upd.ofOption (f v)) ret

end Prog

/-- Outcome of running a program. An out-of-bounds index is a Rust panic. -/
inductive Outcome (α : Type) where
  | ok (a : α)
  | panic (s : String)
deriving Repr

def oobMsg : String := "index out of bounds"

/-- mask of `w` low bits -/
def lowMask (w : Nat) : BitVec 64 := BitVec.ofNat 64 (2 ^ w - 1)

/-- The part-CAS on a row value: `some row'` on success. -/
def casPartVal (row : BitVec 64) (sh w : Nat) (e n : BitVec 64) : Option (BitVec 64) :=
  let mask := lowMask w
  if (row >>> sh) &&& mask = e &&& mask then
    some ((row &&& ~~~(mask <<< sh)) ||| ((n &&& mask) <<< sh))
  else none

/-- Sequential semantics. Structural recursion on the program tree: every call terminates
    when it runs without interference, by construction. -/
def runSolo {α : Type} : Prog α → Mem → Mem × Outcome α
  | .ret a, m => (m, .ok a)
  | .panic s, m => (m, .panic s)
  | .load k i c, m =>
    match m.get? k i with
    | none => (m, .panic oobMsg)
    | some v => runSolo (c v) m
  | .store k i v c, m =>
    match m.get? k i with
    | none => (m, .panic oobMsg)
    | some _ => runSolo c (m.set k i v)
  | .swap k i v c, m =>
    match m.get? k i with
    | none => (m, .panic oobMsg)
    | some o => runSolo (c o) (m.set k i v)
  | .cas k i e n c, m =>
    match m.get? k i with
    | none => (m, .panic oobMsg)
    | some o => if o = e then runSolo (c (.ok o)) (m.set k i n) else runSolo (c (.error o)) m
  | .casPart i sh w e n c, m =>
    match m.get? .row i with
    | none => (m, .panic oobMsg)
    | some (o : BitVec 64) =>
      match casPartVal o sh w e n with
      | some r => runSolo (c true) (m.set .row i r)
      | none => runSolo (c false) m
  | .upd k i f c, m =>
    match m.get? k i with
    | none => (m, .panic oobMsg)
    | some o =>
      match f o with
      | .skip => runSolo (c (.error o)) m
      | .set v => runSolo (c (.ok o)) (m.set k i v)
      | .panic s => (m, .panic s)

/-! ### Single-access thread steps (interleaving semantics) -/

/-- A thread between two atomic accesses. -/
inductive Th (α : Type) : Type where
  | at (p : Prog α)
  /-- inside `try_update`: loaded/failed with `cur`, `f cur = set new`, about to CAS -/
  | updCas (k : Kind) (i : Nat) (f : k.Val → Upd k.Val) (cur new : k.Val)
      (cont : Except k.Val k.Val → Prog α)

/-- What an access did, for the trace co-simulation. Values are reported by the caller-supplied
    packing function (see `Codec`). -/
structure Access where
  op : String            -- "load" | "store" | "swap" | "cas"
  kind : Kind
  idx : Nat
  sh : Nat := 0
  w : Nat := 64
  old : Kind.Val kind
  new : Kind.Val kind
  ok : Bool

inductive StepRes (α : Type) where
  | done (a : α)                      -- thread already finished (no access performed)
  | dead (s : String)                 -- thread panicked (now or earlier)
  | step (t : Th α) (m : Mem) (a : Access)

def Th.afterUpd {α} (k : Kind) (i : Nat) (f : k.Val → Upd k.Val) (cur : k.Val)
    (cont : Except k.Val k.Val → Prog α) : Th α :=
  match f cur with
  | .skip => .at (cont (.error cur))
  | .set v => .updCas k i f cur v cont
  | .panic s => .at (.panic s)

/-- Perform the next atomic access of a thread. -/
def Th.step {α} : Th α → Mem → StepRes α
  | .at (.ret a), _ => .done a
  | .at (.panic s), _ => .dead s
  | .at (.load k i c), m =>
    match m.get? k i with
    | none => .dead oobMsg
    | some v => .step (.at (c v)) m { op := "load", kind := k, idx := i, old := v, new := v, ok := true }
  | .at (.store k i v c), m =>
    match m.get? k i with
    | none => .dead oobMsg
    | some _ => .step (.at c) (m.set k i v) { op := "store", kind := k, idx := i, old := v, new := v, ok := true }
  | .at (.swap k i v c), m =>
    match m.get? k i with
    | none => .dead oobMsg
    | some o => .step (.at (c o)) (m.set k i v) { op := "swap", kind := k, idx := i, old := o, new := v, ok := true }
  | .at (.cas k i e n c), m =>
    match m.get? k i with
    | none => .dead oobMsg
    | some o =>
      if o = e then .step (.at (c (.ok o))) (m.set k i n) { op := "cas", kind := k, idx := i, old := o, new := n, ok := true }
      else .step (.at (c (.error o))) m { op := "cas", kind := k, idx := i, old := o, new := o, ok := false }
  | .at (.casPart i sh w e n c), m =>
    match m.get? .row i with
    | none => .dead oobMsg
    | some (o : BitVec 64) =>
      match casPartVal o sh w e n with
      | some r => .step (.at (c true)) (m.set .row i r)
          { op := "cas", kind := .row, idx := i, sh := sh, w := w, old := o, new := r, ok := true }
      | none => .step (.at (c false)) m
          { op := "cas", kind := .row, idx := i, sh := sh, w := w, old := o, new := o, ok := false }
  | .at (.upd k i f c), m =>
    match m.get? k i with
    | none => .dead oobMsg
    | some o => .step (Th.afterUpd k i f o c) m { op := "load", kind := k, idx := i, old := o, new := o, ok := true }
  | .updCas k i f cur new c, m =>
    match m.get? k i with
    | none => .dead oobMsg
    | some o =>
      if o = cur then .step (.at (c (.ok o))) (m.set k i new) { op := "cas", kind := k, idx := i, old := o, new := new, ok := true }
      else .step (Th.afterUpd k i f o c) m { op := "cas", kind := k, idx := i, old := o, new := o, ok := false }

end LLFree
