/-
  Stateless unit functions exposed through the driver (`evalStep`), and the models of the
  evaluation crate's leaf code (`Count`, `ClassingConfig::request`, replay bookkeeping).
-/
import LLFreeV.Model.Codec
import LLFreeV.Model.Policies
namespace LLFree

/-- stateless commands; `none` = not one of ours -/
def hexDigitE (c : Char) : Option Nat :=
  if '0' ≤ c && c ≤ '9' then some (c.toNat - '0'.toNat)
  else if 'a' ≤ c && c ≤ 'f' then some (c.toNat - 'a'.toNat + 10)
  else none
def parseHexE (s : String) : Option Nat :=
  if s.isEmpty then none else
  s.toList.foldl (fun acc ch => do let a ← acc; let d ← hexDigitE ch; pure (a * 16 + d)) (some 0)
def toHexE (n : Nat) : String := String.ofList (Nat.toDigits 16 n)

/-- stateless commands (need no allocator instance); `none` = not one of ours -/
def unitStep (cmd : String) (args : List String) : Option String :=
  match cmd, args with
  | "fza", [v, o] =>
    match parseHexE v, o.toNat? with
    | some v, some o =>
      if o > 6 then some "panic unreachable" else
      match Gen.fza (BitVec.ofNat 64 v) o with
      | some (nv, off) => some s!"some {toHexE nv.toNat} {off}"
      | none => some "none"
    | _, _ => some "bad-op"
  | _, _ => none

def evalStep (_c : Cfg) (cmd : String) (args : List String) : Option String := unitStep cmd args

end LLFree
