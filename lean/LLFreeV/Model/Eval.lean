/-
  Stateless unit functions exposed through the driver (`evalStep`), and the models of the
  evaluation crate's leaf code (`Count`, `ClassingConfig::request`, replay bookkeeping).
-/
import LLFreeV.Model.Codec
import LLFreeV.Model.Policies
import LLFreeV.Gen.Leaf
import LLFreeV.Model.Wrapper
namespace LLFree

/-! ### `eval/src/classes.rs`: class configurations and request generation -/

/-- `GfpMatch` -/
inductive GfpMatch where
  | on (flag : Nat)
  | off (flag : Nat)
  | all (l : List GfpMatch)
  | any (l : List GfpMatch)
  | not (m : GfpMatch)

mutual
/-- `GfpMatch::matches` (`GFP == u32` is "any common bit") -/
def GfpMatch.eval (gfp : Nat) : GfpMatch → Bool
  | .on f => (f &&& gfp) != 0
  | .off f => (f &&& gfp) == 0
  | .all l => GfpMatch.evalAll gfp l
  | .any l => GfpMatch.evalAny gfp l
  | .not m => !(GfpMatch.eval gfp m)
def GfpMatch.evalAll (gfp : Nat) : List GfpMatch → Bool
  | [] => true
  | m :: ms => GfpMatch.eval gfp m && GfpMatch.evalAll gfp ms
def GfpMatch.evalAny (gfp : Nat) : List GfpMatch → Bool
  | [] => false
  | m :: ms => GfpMatch.eval gfp m || GfpMatch.evalAny gfp ms
end

/-- `ClassConfig` -/
structure ClassCfg where
  id : Nat
  count : Gen.Count
  order : Option (Nat × Nat)
  gfp : GfpMatch

/-- `ClassConfig::matches` -/
def ClassCfg.matches (c : ClassCfg) (order gfp : Nat) : Bool :=
  (match c.order with
   | some (lo, hi) => lo ≤ order && order ≤ hi
   | none => true) && c.gfp.eval gfp

/-- `ClassingConfig::count`: the slot kind of a class is that of its *last* entry -/
def countOf (classes : List ClassCfg) (id : Nat) : Option Gen.Count :=
  (classes.reverse.find? (fun c => c.id == id)).map (·.count)

/-- `ClassingConfig::request` with the matcher outcome abstracted as a predicate:
    `none` = the source indexes `self.classes[0]` of an empty list (panic). -/
def requestWith (classes : List ClassCfg) (matched : ClassCfg → Bool) (core cores pid : Nat) :
    Option (Nat × Option Nat) :=
  let mk (c : ClassCfg) : Option (Nat × Option Nat) :=
    (countOf classes c.id).map fun k => (c.id, k.toLocal core cores pid)
  match classes.find? matched with
  | some c => mk c
  | none =>
    match classes with
    | [] => none
    | c :: _ => mk c

/-- `ClassingConfig::request` -/
def request (classes : List ClassCfg) (order core cores pid gfp : Nat) : Option (Nat × Option Nat) :=
  requestWith classes (fun c => c.matches order gfp) core cores pid

/-- slot count of class `k` in `classing(cores)`: `Locals::new` lets the last entry win -/
def slotCount (classes : List ClassCfg) (cores : Nat) (k : Nat) : Option Nat :=
  ((classes.reverse.find? (fun c => c.id == k))).map (fun c => c.count.toCount cores)

/-- stateless commands; `none` = not one of ours -/
def hexDigitE (c : Char) : Option Nat :=
  if '0' ≤ c && c ≤ '9' then some (c.toNat - '0'.toNat)
  else if 'a' ≤ c && c ≤ 'f' then some (c.toNat - 'a'.toNat + 10)
  else none
def parseHexE (s : String) : Option Nat :=
  if s.isEmpty then none else
  s.toList.foldl (fun acc ch => do let a ← acc; let d ← hexDigitE ch; pure (a * 16 + d)) (some 0)
def toHexE (n : Nat) : String := String.ofList (Nat.toDigits 16 n)

/-- `search_best` over the given packed tree entries with an access function that always
    answers `Memory` and logs the visited index as a base-64 digit in huge entry 0. -/
def sbestRun (tf cap start offset len cls order variant : Nat) (tw : List Nat) : String :=
  let m : Mem := { rows := #[], huge := #[0], trees := (tw.map Tree.unpack).toArray, slots := #[] }
  let pol := simplePolicy tf
  let base : Nat → Nat → Policy := fun t f => if f ≥ 2 ^ order then pol cls t f else .invalid
  let rate : Nat → Nat → Policy := fun t f =>
    match variant with
    | 0 => base t f
    | 1 => match base t f with
      | .match p => .match p
      | .demote => if f = tf then .demote else .invalid
      | _ => .invalid
    | _ => match base t f with
      | .match _ => .match 255
      | .demote => if f = tf then .match 255 else .demote
      | p => p
  let access : Nat → Prog (Res Unit) := fun i => do
    let _ ← Prog.updK .huge 0 (fun (e : Nat) => .set (e * 64 + i + 1))
    return .error .memory
  let (m', o) := runSolo (Trees.searchBest tf tw.length cap start offset len rate access) m
  match o with
  | .panic s => "panic " ++ s
  | .ok _ =>
    let rec digits (fuel n : Nat) (acc : List Nat) : List Nat :=
      match fuel with
      | 0 => acc
      | fuel+1 => if n = 0 then acc else digits fuel (n / 64) ((n % 64 - 1) :: acc)
    let log := digits 200 (m'.huge[0]?.getD 0) []
    ("accessed " ++ " ".intercalate (log.map toString)).trimAsciiEnd.toString

/-! ### `eval/src/bin/replay.rs`: bookkeeping of the trace replayer -/

/-- `Allocation` (present entries only): the allocator frame and order recorded for a pfn -/
structure RAlloc where
  frame : Nat
  order : Nat
deriving Repr, DecidableEq

/-- the `allocated` table restricted to present entries: pfn ↦ allocation -/
abbrev RState := List (Nat × RAlloc)

def RState.get (st : RState) (p : Nat) : Option RAlloc := (st.find? (fun e => e.1 == p)).map (·.2)

/-- `allocated[p] = …` (`none` = an entry with `present = false`) -/
def RState.set (st : RState) (p : Nat) (a : Option RAlloc) : RState :=
  match a with
  | some a => (p, a) :: st.filter (fun e => e.1 != p)
  | none => st.filter (fun e => e.1 != p)

/-- the search for the allocation covering a freed pfn: orders `k ..= TREE_ORDER` -/
def findCover (treeOrder : Nat) (st : RState) (pfn k : Nat) : Option Nat :=
  (List.range' k (treeOrder + 1 - k)).findSome? fun o =>
    let p := pfn / 2 ^ o * 2 ^ o
    match st.get p with
    | some a => if a.order ≥ o then some p else none
    | none => none

/-- bookkeeping of a free event: the frame passed to `put` (at order `k`) and the new table;
    `none` = "free unknown" -/
def freeEvent (treeOrder : Nat) (st : RState) (pfn k : Nat) : Option (Nat × RState) :=
  match findCover treeOrder st pfn k with
  | none => none
  | some ap =>
    match st.get ap with
    | none => none
    | some a =>
      let parts := List.range (2 ^ (a.order - k))
      let st' := parts.foldl (fun st part =>
        let partPfn := ap + part * 2 ^ k
        st.set partPfn (if pfn != partPfn then some ⟨a.frame + part * 2 ^ k, k⟩ else none)) st
      some (a.frame + (pfn - ap), st')

/-- the `allocated` table is a `Vec` of `len = max_pfn` entries: does the bookkeeping of a free
    event index it out of bounds (a Rust panic)? The first look-up is at `align_down(pfn, 2^k)`
    (later ones are at smaller indices); the split writes the parts of the covering allocation
    in increasing order up to `ap + 2^order - 2^k`. -/
def freeEventOob (len treeOrder : Nat) (st : RState) (pfn k : Nat) : Bool :=
  if pfn / 2 ^ k * 2 ^ k ≥ len then true
  else match findCover treeOrder st pfn k with
    | none => false
    | some ap =>
      match st.get ap with
      | none => false
      | some a => ap + (2 ^ (a.order - k) - 1) * 2 ^ k ≥ len

/-- `Classing::movable(cores)` request of the replayer without a classing file -/
def movableRequest (hugeOrder : Nat) (order core cores : Nat) (movable : Bool) : Request :=
  if order ≥ hugeOrder then ⟨order, 2, some (core % cores)⟩
  else if movable then ⟨order, 1, some (core % cores)⟩
  else ⟨order, 0, some (core % cores)⟩

/-- one trace event: alloc?, pfn, order, cpu, flags -/
structure TraceEv where
  alloc : Bool
  pfn : Nat
  order : Nat
  cpu : Nat
  flags : Nat

/-- the replay loop over the allocator model: returns (free frames, failed frees, unknown frees)
    or a panic (`get(..).unwrap()` on out of memory) -/
def replayRun (c : Cfg) (cores : Nat) (evs : List TraceEv) (m : Mem) : Mem × Outcome (Nat × Nat × Nat) :=
  let rec go (evs : List TraceEv) (m : Mem) (st : RState) (failed unknown : Nat) : Mem × Outcome (Nat × Nat × Nat) :=
    match evs with
    | [] =>
      match runSolo (stats c) m with
      | (m, .ok s) => (m, .ok (s.freeFrames, failed, unknown))
      | (m, .panic e) => (m, .panic e)
    | e :: rest =>
      let req := movableRequest c.geom.hugeOrder e.order e.cpu cores ((e.flags &&& 0x08) != 0)
      if e.alloc then
        match runSolo (get c none req) m with
        | (m, .ok (.ok (frame, _))) =>
          if e.pfn ≥ c.frames then (m, .panic "index out of bounds")   -- `allocated[pfn]`
          else go rest m (st.set e.pfn (some ⟨frame, e.order⟩)) failed unknown
        | (m, .ok (.error _)) => (m, .panic "called `Result::unwrap()` on an `Err` value")
        | (m, .panic s) => (m, .panic s)
      else if freeEventOob c.frames c.geom.treeOrder st e.pfn e.order then (m, .panic "index out of bounds") else
        match freeEvent c.geom.treeOrder st e.pfn e.order with
        | none => go rest m st failed (unknown + 1)
        | some (frame, st') =>
          match runSolo (put c frame req) m with
          | (m, .ok (.ok _)) => go rest m st' failed unknown
          | (m, .ok (.error _)) => go rest m st' (failed + 1) unknown
          | (m, .panic s) => (m, .panic s)
  go evs m [] 0 0

/-! parser of the matcher syntax `on:N | off:N | all(e,…) | any(e,…) | not(e)` -/
def splitTop (s : List Char) : List (List Char) :=
  let rec go (cs : List Char) (depth : Nat) (cur : List Char) (acc : List (List Char)) : List (List Char) :=
    match cs with
    | [] => if cur.isEmpty && acc.isEmpty then [] else (cur.reverse :: acc).reverse
    | '(' :: r => go r (depth + 1) ('(' :: cur) acc
    | ')' :: r => go r (depth - 1) (')' :: cur) acc
    | ',' :: r => if depth = 0 then go r depth [] (cur.reverse :: acc) else go r depth (',' :: cur) acc
    | ch :: r => go r depth (ch :: cur) acc
  go s 0 [] []

def parseMatch (fuel : Nat) (s : List Char) : Option GfpMatch :=
  match fuel with
  | 0 => none
  | fuel+1 =>
    let str := String.ofList s
    if str.startsWith "on:" then (String.ofList (s.drop 3)).toNat?.map .on
    else if str.startsWith "off:" then (String.ofList (s.drop 4)).toNat?.map .off
    else if str.startsWith "all(" then
      ((splitTop ((s.drop 4).dropLast)).mapM (parseMatch fuel)).map .all
    else if str.startsWith "any(" then
      ((splitTop ((s.drop 4).dropLast)).mapM (parseMatch fuel)).map .any
    else if str.startsWith "not(" then
      (parseMatch fuel ((s.drop 4).dropLast)).map .not
    else none

def parseKind : String → Option Gen.Count
  | "zero" => some .zero | "one" => some .one | "cores" => some .cores
  | "cores_half" => some .coresHalf | "pids" => some .pids | _ => none

def parseClassCfgs : List String → Option (List ClassCfg)
  | [] => some []
  | id :: kind :: order :: expr :: rest => do
    let id ← id.toNat?
    let kind ← parseKind kind
    let order ← (if order == "-" then some none else
      match order.splitOn "-" with
      | [a, b] => do let a ← a.toNat?; let b ← b.toNat?; pure (some (a, b))
      | _ => none)
    let g ← parseMatch 64 expr.toList
    let rest ← parseClassCfgs rest
    pure (⟨id, kind, order, g⟩ :: rest)
  | _ => none

/-- stateless commands (need no allocator instance); `none` = not one of ours -/
def unitStep (tf : Nat) (cmd : String) (args : List String) : Option String :=
  match cmd, args with
  | "fza", [v, o] =>
    match parseHexE v, o.toNat? with
    | some v, some o =>
      if o > 6 then some "panic unreachable" else
      match Gen.fza (BitVec.ofNat 64 v) o with
      | some (nv, off) => some s!"some {toHexE nv.toNat} {off}"
      | none => some "none"
    | _, _ => some "bad-op"
  | "sbuf", n :: keys =>
    match n.toNat?, keys.mapM String.toNat? with
    | some n, some keys =>
      let pairs := (List.range keys.length).zip keys |>.map (fun (i, k) => (k, i))
      let buf := pairs.foldl (SortedBuffer.add (fun (a b : Nat × Nat) => decide (a.1 ≤ b.1)) n) []
      some (("kept " ++ " ".intercalate (buf.map fun (k, i) => s!"{k}:{i}")).trimAsciiEnd.toString)
    | _, _ => some "bad-op"
  | "sbest", cap :: start :: offset :: len :: cls :: order :: variant :: "|" :: trees =>
    match cap.toNat?, start.toNat?, offset.toNat?, len.toNat?, cls.toNat?, order.toNat?, variant.toNat?,
        trees.mapM parseHexE with
    | some cap, some start, some offset, some len, some cls, some order, some variant, some tw =>
      -- the geometry only enters through TREE_FRAMES of the policy; passed by the caller via `tf`
      some (sbestRun tf cap start offset len cls order variant tw)
    | _, _, _, _, _, _, _, _ => some "bad-op"
  | "newmeta", ho :: th :: frames :: classes :: "|" :: nums =>
    match ho.toNat?, th.toNat?, frames.toNat?, nums.mapM String.toNat? with
    | some ho, some th, some frames, some [la, ll, ta, tl, wa, wl] =>
      let cls : Option (List (Nat × Nat)) := if classes == "-" then some [] else
        (classes.splitOn ",").mapM fun p => match p.splitOn ":" with
          | [a, b] => do let a ← a.toNat?; let b ← b.toNat?; pure (a, b)
          | _ => none
      match cls with
      | some cls =>
        let c : Cfg := { geom := ⟨ho, th⟩, frames := frames, classes := cls, dflt := 0, policy := fun _ _ _ => .invalid }
        some (if metaValid c ⟨la, ll, ta, tl, wa, wl⟩ then "ok" else "err init")
      | none => some "bad-op"
    | _, _, _, _ => some "bad-op"
  | "replay", ho :: th :: cores :: maxPfn :: "|" :: evs =>
    match ho.toNat?, th.toNat?, cores.toNat?, maxPfn.toNat? with
    | some ho, some th, some cores, some maxPfn =>
      let parsed := evs.mapM fun e => match e.splitOn ":" with
        | [k, pfn, o, cpu, fl] => do
          let pfn ← pfn.toNat?; let o ← o.toNat?; let cpu ← cpu.toNat?; let fl ← fl.toNat?
          pure ({ alloc := k == "a", pfn := pfn, order := o, cpu := cpu, flags := fl } : TraceEv)
        | _ => none
      match parsed with
      | some evs =>
        let g : Geom := ⟨ho, th⟩
        let c : Cfg := { geom := g, frames := maxPfn, classes := [(0, cores), (1, cores), (2, cores)], dflt := 2,
                         policy := movablePolicy g.treeFrames }
        let (m, o0) := runSolo (initProg c .freeAll) c.zeroMem
        match o0 with
        | .panic s => some ("panic " ++ s)
        | .ok _ =>
          match (replayRun c cores evs m).2 with
          | .ok (free, failed, unknown) => let _ := unknown; some s!"replay free={free} failed={failed}"
          | .panic s => some ("panic " ++ s)
      | none => some "bad-op"
    | _, _, _, _ => some "bad-op"
  | "nvmlayout", [ho, th, fs, z] =>
    match ho.toNat?, th.toNat?, fs.toNat?, z.toNat? with
    | some ho, some th, some fs, some z =>
      let g : Geom := ⟨ho, th⟩
      if nvmSizeOk g fs z && z ≥ 1 then some s!"ok {nvmManaged g fs z}" else some "err init"
    | _, _, _, _ => some "bad-op"
  | "req", cores :: core :: pid :: order :: gfp :: "|" :: cls =>
    match cores.toNat?, core.toNat?, pid.toNat?, order.toNat?, gfp.toNat?, parseClassCfgs cls with
    | some cores, some core, some pid, some order, some gfp, some classes =>
      match request classes order core cores pid gfp with
      | none => some "panic index out of bounds"
      | some (k, loc) =>
        let o := fun (x : Option Nat) => match x with | some v => toString v | none => "-"
        some s!"req {k} {o loc} {o (slotCount classes cores k)}"
    | _, _, _, _, _, _ => some "bad-op"
  | _, _ => none

def evalStep (c : Cfg) (cmd : String) (args : List String) : Option String := unitStep c.geom.treeFrames cmd args

end LLFree
