/-
  C16 — Tree search tries the best-rated fallback candidates, best first.

  "Rating" is the order the source gives the buffer key `(Policy, entirely_free)`
  (`derive(Ord)` on `Policy`, lexicographic tuples): `keyLe`.

  * `sorted_buffer_add_matches_source` — the array code of `SortedBuffer::add` is re-derived from the
    Rust source on every run (`tools/rs2lean.py`, `Gen/Sbuf.lean`) and proved to compute the model's
    list operation (`Proofs/GenSbuf.lean`).

  * `search_index_matches_source` — the candidate index of `Trees::search` / `Trees::search_best` is
    re-derived from the Rust source on every run (`Gen/Idx.lean`) and equals the model's `searchIdx`.
-/
import LLFreeV.Proofs.SortedBuffer
import LLFreeV.Proofs.Run
import LLFreeV.Proofs.GenSbuf
import LLFreeV.Proofs.GenIdx
namespace LLFree.C16
open LLFree SortedBuffer

theorem policy_le_total (a b : Policy) : Policy.le a b = true ∨ Policy.le b a = true := by
  cases a <;> cases b <;> simp [Policy.le, Policy.rank]
  rename_i p q
  rcases Nat.le_total p q with h | h
  · left; exact decide_eq_true h
  · right; exact decide_eq_true h

theorem policy_le_trans (a b c : Policy) : Policy.le a b = true → Policy.le b c = true → Policy.le a c = true := by
  cases a <;> cases b <;> cases c <;> simp [Policy.le, Policy.rank]
  intro h1 h2
  exact decide_eq_true (Nat.le_trans (of_decide_eq_true h1) (of_decide_eq_true h2))

theorem policy_le_antisymm (a b : Policy) : Policy.le a b = true → Policy.le b a = true → a = b := by
  cases a <;> cases b <;> simp [Policy.le, Policy.rank]
  intro h1 h2
  exact Nat.le_antisymm (of_decide_eq_true h1) (of_decide_eq_true h2)

theorem policy_le_refl (a : Policy) : Policy.le a a = true := by
  cases a <;> simp [Policy.le, Policy.rank]

/-- The rating order is a total preorder on `(Policy, entirely_free)`. -/
theorem keyLe_total_preorder : TotalPreorder keyLe where
  total := by
    intro a b
    obtain ⟨pa, ba⟩ := a; obtain ⟨pb, bb⟩ := b
    simp only [keyLe, Policy.lt]
    rcases policy_le_total pa pb with h | h
    · by_cases h' : Policy.le pb pa = true
      · have := policy_le_antisymm pa pb h h'; subst this
        cases ba <;> cases bb <;> simp [policy_le_refl]
      · simp [h, h']
    · by_cases h' : Policy.le pa pb = true
      · have := policy_le_antisymm pa pb h' h; subst this
        cases ba <;> cases bb <;> simp [policy_le_refl]
      · simp [h, h']
  trans := by
    intro a b c
    obtain ⟨pa, ba⟩ := a; obtain ⟨pb, bb⟩ := b; obtain ⟨pc, bc⟩ := c
    simp only [keyLe, Policy.lt, Bool.or_eq_true, Bool.and_eq_true, Bool.not_eq_true', beq_iff_eq]
    intro h1 h2
    rcases h1 with ⟨h1, h1'⟩ | ⟨rfl, h1b⟩
    · rcases h2 with ⟨h2, h2'⟩ | ⟨rfl, h2b⟩
      · left
        refine ⟨policy_le_trans _ _ _ h1 h2, ?_⟩
        cases hca : Policy.le pc pa with
        | false => rfl
        | true =>
          have := policy_le_trans _ _ _ h2 hca
          rw [this] at h1'; cases h1'
      · left; exact ⟨h1, h1'⟩
    · rcases h2 with ⟨h2, h2'⟩ | ⟨rfl, h2b⟩
      · left; exact ⟨h2, h2'⟩
      · right
        refine ⟨rfl, ?_⟩
        cases ba <;> cases bb <;> cases bc <;> simp_all

theorem bestLe_total_preorder : TotalPreorder bestLe where
  total a b := keyLe_total_preorder.total a.1 b.1
  trans a b c := keyLe_total_preorder.trans a.1 b.1 c.1

/-- **Keeps the highest rated.** For every capacity `n` and every insertion sequence `xs`, the
    buffer holds `min n |xs|` of the inserted candidates in ascending order, and every
    candidate that was not kept is rated no higher than every candidate that was kept. -/
theorem sorted_buffer_top_n (n : Nat) (xs : Best) :
    ∃ dropped : Best,
      ((addAll bestLe n xs) ++ dropped).Perm xs.reverse ∧
      (addAll bestLe n xs).length = min n xs.length ∧
      (addAll bestLe n xs).Pairwise (fun a b => bestLe a b = true) ∧
      (∀ d ∈ dropped, ∀ b ∈ addAll bestLe n xs, bestLe d b = true) := by
  obtain ⟨dropped, h⟩ := addAll_inv bestLe bestLe_total_preorder n xs
  refine ⟨dropped, h.perm, ?_, h.sorted, h.best⟩
  have hl := h.perm.length_eq
  simp only [List.length_append, List.length_reverse] at hl
  have h1 := h.len
  by_cases hd : dropped = []
  · subst hd; simp at hl; omega
  · have := h.full hd
    have : 0 < dropped.length := List.length_pos_iff.2 hd
    omega

/-- **Best first.** The candidates are tried in the order `best.iter().rev()`: descending. -/
theorem tried_best_first (n : Nat) (xs : Best) :
    ((addAll bestLe n xs).reverse).Pairwise (fun a b => bestLe b a = true) := by
  obtain ⟨_, _, _, hs, _⟩ := sorted_buffer_top_n n xs
  exact List.pairwise_reverse.2 hs

/-- Candidates that a scan over the iteration indices `is` remembers, given the tree array. -/
def candidates (tf : Nat) (m : Mem) (ntrees start : Nat) (rate : Nat → Nat → Policy) (is : List Nat) : Best :=
  is.filterMap fun i =>
    match m.trees[searchIdx start ntrees i]? with
    | some t =>
      if t.reserved then none else
      match rate t.cls t.free with
      | .invalid => none
      | p => some ((p, t.free == tf), searchIdx start ntrees i)
    | none => none

/-- **The search uses the buffer.** If no visited tree is rated a perfect match (those are
    accessed immediately, in scan order), the search is exactly: remember the candidates of the
    scan in a `SortedBuffer` of capacity `nbuf`, then access them in descending order until one
    does not answer `Memory`. -/
theorem searchBest_fallback {β : Type} (tf ntrees nbuf start offset len : Nat) (rate : Nat → Nat → Policy)
    (access : Nat → Prog (Res β)) (m : Mem) (hn : ntrees ≠ 0) (hsz : m.trees.size = ntrees)
    (hnoperfect : ∀ t ∈ m.trees.toList, rate t.cls t.free ≠ .match 255) :
    runSolo (Trees.searchBest tf ntrees nbuf start offset len rate access) m =
      runSolo (Trees.searchBest.tryBest access
        ((candidates tf m ntrees start rate (List.range' offset (len - offset))).foldl
          (SortedBuffer.add bestLe nbuf) []).reverse) m := by
  unfold Trees.searchBest
  suffices h : ∀ (cnt i : Nat) (best : Best),
      runSolo (Trees.searchBest.scan tf ntrees nbuf start rate access cnt i best) m =
        runSolo (Trees.searchBest.tryBest access
          ((candidates tf m ntrees start rate (List.range' i cnt)).foldl (SortedBuffer.add bestLe nbuf) best).reverse) m by
    exact h _ _ _
  intro cnt
  induction cnt with
  | zero => intro i best; simp [Trees.searchBest.scan, candidates]
  | succ cnt ih =>
    intro i best
    have hidx : searchIdx start ntrees i < m.trees.size := by
      rw [hsz]; unfold searchIdx; exact Nat.mod_lt _ (Nat.pos_of_ne_zero hn)
    have hget : m.trees[searchIdx start ntrees i]? = some m.trees[searchIdx start ntrees i] :=
      Array.getElem?_eq_getElem hidx
    have hmem : m.trees[searchIdx start ntrees i] ∈ m.trees.toList := by
      simp [Array.mem_toList_iff]
    have hnp := hnoperfect _ hmem
    have hload : runSolo (Prog.loadK Kind.tree (searchIdx start ntrees i)) m =
        (m, Outcome.ok m.trees[searchIdx start ntrees i]) := by
      rw [runSolo_loadK]; simp only [Mem.get?, hget]
    rw [Trees.searchBest.scan]
    simp only [hn, if_false, runSolo_bind, hload, andThen_ok, List.range'_succ, candidates, List.filterMap_cons, hget]
    generalize m.trees[searchIdx start ntrees i] = t at hnp ⊢
    by_cases hr : t.reserved = true
    · simp only [hr, if_true]
      exact ih (i + 1) best
    · simp only [hr, if_false, Bool.false_eq_true]
      cases hp : rate t.cls t.free with
      | «match» p =>
        have hp255 : p ≠ 255 := by intro h; subst h; exact hnp hp
        simp only [List.foldl_cons]
        split
        · rename_i heq; injection heq with heq; exact absurd heq hp255
        · rename_i heq; cases heq
        · exact ih (i + 1) _
      | demote => simp only [List.foldl_cons]; exact ih (i + 1) _
      | steal => simp only [List.foldl_cons]; exact ih (i + 1) _
      | invalid => exact ih (i + 1) best

/-- Non-vacuity / regression: capacity 3, ratings inserted as 1,3,2,5,4 keep 3,4,5 (the fixed
    defect F10 kept 3,2,1). -/
example : (addAll (fun (a b : Nat) => decide (a ≤ b)) 3 [1, 3, 2, 5, 4]) = [3, 4, 5] := by decide

/-- **`SortedBuffer::add` of the model is the array code of the current source**: the body of `add` is
    regenerated from `core/src/util.rs` on every run (`Gen/Sbuf.lean`: the two `position` searches, the
    `rotate_right(1)` / `rotate_left(1)` of the sub-slices and the element assignments as written); on the
    array that holds the values `l` (a prefix of `Some`s followed by `None`s — every buffer reachable from
    `SortedBuffer::new()`) it computes exactly the list operation the theorems above are about. -/
theorem sorted_buffer_add_matches_source {τ : Type} (le : τ → τ → Bool) (n : Nat) (l : List τ) (v : τ) (hl : l.length ≤ n) :
    Gen.S.add le n (GenTree.embed n l) v = GenTree.embed n (SortedBuffer.add le n l v) :=
  GenTree.sbuf_add_eq le n l v hl

/-- **The visiting order of the tree search is the one of the current source**: the candidate index of
    `Trees::search` and `Trees::search_best` (alternating after and before the start tree, `usize`/`isize`
    casts as two's complement) is regenerated from `core/src/trees.rs` on every run (`Gen/Idx.lean`) and
    equals `searchIdx` of the model. -/
theorem search_index_matches_source (start n i : Nat) :
    Gen.I.searchIdx start n i = searchIdx start n i ∧ Gen.I.searchBestIdx start n i = searchIdx start n i :=
  ⟨GenTree.searchIdx_eq start n i, GenTree.searchBestIdx_eq start n i⟩

end LLFree.C16
