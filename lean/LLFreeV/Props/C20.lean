/-
  C20 — Trace replay frees exactly the frames each traced free releases.

  `RState` is the replayer's `allocated` table (present entries), `freeEvent` its bookkeeping for
  a free event (see `Model/Eval.lean`, transliterated from eval/src/bin/replay.rs).
  `Maps st q f`: the table maps traced pfn `q` to allocator frame `f`.
-/
import LLFreeV.Model.Eval
namespace LLFree.C20
open LLFree

/-- the table maps pfn `q` to frame `f` -/
def Maps (st : RState) (q f : Nat) : Prop :=
  ∃ p a, st.get p = some a ∧ p ≤ q ∧ q < p + 2 ^ a.order ∧ f = a.frame + (q - p)

theorem find_filter_ne (st : RState) (p q : Nat) (h : q ≠ p) :
    (st.filter (fun e => e.1 != p)).find? (fun e => e.1 == q) = st.find? (fun e => e.1 == q) := by
  rw [List.find?_filter]
  congr 1
  funext e
  by_cases he : e.1 = q
  · simp [he, h]
  · simp [he]

theorem find_filter_self (st : RState) (p : Nat) :
    (st.filter (fun e => e.1 != p)).find? (fun e => e.1 == p) = none := by
  rw [List.find?_eq_none]
  intro x hx
  have := (List.mem_filter.1 hx).2
  simpa using this

theorem get_set (st : RState) (p : Nat) (v : Option RAlloc) (q : Nat) :
    (st.set p v).get q = if q = p then v else st.get q := by
  unfold RState.set RState.get
  cases v with
  | none =>
    by_cases h : q = p
    · subst h; simp
    · simp [h, find_filter_ne st p q h]
  | some a =>
    by_cases h : q = p
    · subst h; simp
    · have hne : ¬ p = q := fun e => h e.symm
      simp [h, hne, find_filter_ne st p q h]

/-- the table after rewriting the parts `parts` of a block at `ap` -/
theorem get_foldl_parts (frame ap pfn k : Nat) (parts : List Nat) (st : RState) (q : Nat)
    (hnd : parts.Nodup) :
    (parts.foldl (fun st part =>
        st.set (ap + part * 2 ^ k) (if pfn != ap + part * 2 ^ k then some ⟨frame + part * 2 ^ k, k⟩ else none)) st).get q =
      match parts.find? (fun part => ap + part * 2 ^ k == q) with
      | some part => if pfn != q then some ⟨frame + part * 2 ^ k, k⟩ else none
      | none => st.get q := by
  induction parts generalizing st with
  | nil => rfl
  | cons x xs ih =>
    have hx : x ∉ xs := (List.nodup_cons.1 hnd).1
    simp only [List.foldl_cons, List.find?_cons]
    rw [ih _ (List.nodup_cons.1 hnd).2]
    by_cases hq : ap + x * 2 ^ k = q
    · have hnone : xs.find? (fun part => ap + part * 2 ^ k == q) = none := by
        rw [List.find?_eq_none]
        intro y hy
        simp only [beq_iff_eq]
        intro hyq
        have h2 : 0 < 2 ^ k := Nat.pos_of_ne_zero (by simp)
        have : y = x := by
          have : y * 2 ^ k = x * 2 ^ k := by omega
          exact Nat.eq_of_mul_eq_mul_right h2 this
        exact hx (this ▸ hy)
      have hb : (ap + x * 2 ^ k == q) = true := by simp [hq]
      simp only [hb, hnone]
      rw [get_set]; simp [hq]
    · have hb : (ap + x * 2 ^ k == q) = false := by simp [hq]
      simp only [hb]
      cases hf : xs.find? (fun part => ap + part * 2 ^ k == q) with
      | some part => rfl
      | none =>
        simp only
        rw [get_set]
        have : ¬ q = ap + x * 2 ^ k := fun e => hq e.symm
        simp [this]

theorem pow_split (K k : Nat) (h : k ≤ K) : 2 ^ K = 2 ^ (K - k) * 2 ^ k := by
  rw [← Nat.pow_add]; congr 1; omega

/-- **C20 (bookkeeping exactness).** A free event `(pfn, k)` covered by the recorded allocation
    `(ap ↦ ⟨frame, K⟩)`, `k ≤ K`, `pfn = ap + j·2^k` a `2^k`-aligned part of it: the replayer
    calls `put(frame + (pfn − ap), k)` — the frames the table maps `pfn … pfn+2^k` to — and
    afterwards the table maps exactly the remaining pfns to the same frames as before. -/
theorem free_event_exact (treeOrder : Nat) (st : RState) (pfn k ap j : Nat) (a : RAlloc)
    (hcover : findCover treeOrder st pfn k = some ap) (hget : st.get ap = some a)
    (hk : k ≤ a.order) (hj : j < 2 ^ (a.order - k)) (hpfn : pfn = ap + j * 2 ^ k)
    (hdisj : ∀ p' a', st.get p' = some a' → p' ≠ ap → p' + 2 ^ a'.order ≤ ap ∨ ap + 2 ^ a.order ≤ p') :
    ∃ st', freeEvent treeOrder st pfn k = some (a.frame + (pfn - ap), st') ∧
      (∀ q, pfn ≤ q → q < pfn + 2 ^ k → Maps st q (a.frame + (pfn - ap) + (q - pfn))) ∧
      (∀ q f, Maps st' q f ↔ (Maps st q f ∧ ¬ (pfn ≤ q ∧ q < pfn + 2 ^ k))) := by
  have h2k : 0 < 2 ^ k := Nat.pos_of_ne_zero (by simp)
  have hK := pow_split a.order k hk
  have hjle : (j + 1) * 2 ^ k ≤ 2 ^ a.order := by
    rw [hK]; exact Nat.mul_le_mul_right _ hj
  have hjk : j * 2 ^ k + 2 ^ k ≤ 2 ^ a.order := by
    have : (j + 1) * 2 ^ k = j * 2 ^ k + 2 ^ k := by rw [Nat.add_mul, Nat.one_mul]
    omega
  refine ⟨_, by simp only [freeEvent, hcover, hget]; rfl, ?_, ?_⟩
  · intro q h1 h2
    refine ⟨ap, a, hget, by omega, by omega, by omega⟩
  · intro q f
    -- the entry of the table after the update
    have hnd : (List.range (2 ^ (a.order - k))).Nodup := List.nodup_range
    have hgetq := fun q => get_foldl_parts a.frame ap pfn k (List.range (2 ^ (a.order - k))) st q hnd
    -- characterisation of "q is the pfn of part i"
    have hfind : ∀ q i, i < 2 ^ (a.order - k) → q = ap + i * 2 ^ k →
        (List.range (2 ^ (a.order - k))).find? (fun part => ap + part * 2 ^ k == q) = some i := by
      intro q i hi hq
      subst hq
      rw [List.find?_range_eq_some]
      refine ⟨by simp, List.mem_range.2 hi, ?_⟩
      intro x hxi
      simp only [Bool.not_eq_eq_eq_not, Bool.not_true, beq_eq_false_iff_ne, ne_eq]
      intro e
      have : x * 2 ^ k = i * 2 ^ k := by omega
      exact absurd (Nat.eq_of_mul_eq_mul_right h2k this) (by omega)
    have hnot : ∀ q, (∀ i, i < 2 ^ (a.order - k) → q ≠ ap + i * 2 ^ k) →
        (List.range (2 ^ (a.order - k))).find? (fun part => ap + part * 2 ^ k == q) = none := by
      intro q hq
      rw [List.find?_eq_none]
      intro x hx
      simp only [beq_iff_eq]
      exact fun e => hq x (List.mem_range.1 hx) e.symm
    constructor
    · -- every mapping of the new table was a mapping of the old one, outside the freed part
      rintro ⟨p, a', hp, hle, hlt, hf⟩
      rw [hgetq p] at hp
      by_cases hpart : ∃ i, i < 2 ^ (a.order - k) ∧ p = ap + i * 2 ^ k
      · obtain ⟨i, hi, hpi⟩ := hpart
        rw [hfind p i hi hpi] at hp
        simp only at hp
        by_cases hpp : pfn = p
        · simp [hpp] at hp
        · simp only [bne_iff_ne, ne_eq, hpp, not_false_eq_true, if_true] at hp
          injection hp with hp; subst hp
          simp only at hlt hf
          have hile : (i + 1) * 2 ^ k ≤ 2 ^ a.order := by rw [hK]; exact Nat.mul_le_mul_right _ hi
          have hik : i * 2 ^ k + 2 ^ k ≤ 2 ^ a.order := by
            have : (i + 1) * 2 ^ k = i * 2 ^ k + 2 ^ k := by rw [Nat.add_mul, Nat.one_mul]
            omega
          refine ⟨⟨ap, a, hget, by omega, by omega, by omega⟩, ?_⟩
          -- q lies in part i ≠ j
          have hij : i ≠ j := by
            intro e; subst e; exact hpp (by omega)
          intro hq
          rcases Nat.lt_or_gt_of_ne hij with hlt' | hgt'
          · have : (i + 1) * 2 ^ k ≤ j * 2 ^ k := Nat.mul_le_mul_right _ hlt'
            have : (i + 1) * 2 ^ k = i * 2 ^ k + 2 ^ k := by rw [Nat.add_mul, Nat.one_mul]
            omega
          · have : (j + 1) * 2 ^ k ≤ i * 2 ^ k := Nat.mul_le_mul_right _ hgt'
            have : (j + 1) * 2 ^ k = j * 2 ^ k + 2 ^ k := by rw [Nat.add_mul, Nat.one_mul]
            omega
      · have hne : ∀ i, i < 2 ^ (a.order - k) → p ≠ ap + i * 2 ^ k := fun i hi e => hpart ⟨i, hi, e⟩
        rw [hnot p hne] at hp
        simp only at hp
        have hpap : p ≠ ap := by
          intro e
          exact hne 0 (Nat.pos_of_ne_zero (by simp)) (by simp [e])
        refine ⟨⟨p, a', hp, hle, hlt, hf⟩, ?_⟩
        rcases hdisj p a' hp hpap with h | h <;> omega
    · -- every old mapping outside the freed part is still there
      rintro ⟨⟨p, a', hp, hle, hlt, hf⟩, hout⟩
      by_cases hpap : p = ap
      · subst hpap
        rw [hget] at hp; injection hp with hp; subst hp
        -- q lies in part i = (q - p) / 2^k
        let i := (q - p) / 2 ^ k
        have hi : i < 2 ^ (a.order - k) := by
          apply (Nat.div_lt_iff_lt_mul h2k).2
          rw [← hK]; omega
        have hq1 : i * 2 ^ k ≤ q - p := Nat.div_mul_le_self _ _
        have hq2 : q - p < i * 2 ^ k + 2 ^ k := by
          have h3 := Nat.lt_mul_div_succ (q - p) h2k
          have h4 : 2 ^ k * ((q - p) / 2 ^ k + 1) = i * 2 ^ k + 2 ^ k := by
            show 2 ^ k * (i + 1) = _
            rw [Nat.mul_add, Nat.mul_one, Nat.mul_comm]
          omega
        have hij : i ≠ j := by
          intro e
          apply hout
          rw [hpfn, ← e]; omega
        refine ⟨p + i * 2 ^ k, ⟨a.frame + i * 2 ^ k, k⟩, ?_, by omega, by simp only; omega, by simp only; omega⟩
        rw [hgetq, hfind _ i hi rfl]
        have : pfn ≠ p + i * 2 ^ k := by
          rw [hpfn]
          intro e
          have : j * 2 ^ k = i * 2 ^ k := by omega
          exact hij (Nat.eq_of_mul_eq_mul_right h2k this).symm
        simp [this]
      · have hne : ∀ i, i < 2 ^ (a.order - k) → p ≠ ap + i * 2 ^ k := by
          intro i hi e
          have hile : (i + 1) * 2 ^ k ≤ 2 ^ a.order := by rw [hK]; exact Nat.mul_le_mul_right _ hi
          have : (i + 1) * 2 ^ k = i * 2 ^ k + 2 ^ k := by rw [Nat.add_mul, Nat.one_mul]
          have hpos : 0 < 2 ^ a'.order := Nat.pos_of_ne_zero (by simp)
          rcases hdisj p a' hp hpap with h | h <;> omega
        refine ⟨p, a', ?_, hle, hlt, hf⟩
        rw [hgetq, hnot p hne]; exact hp

/-- the search finds an allocation whose block contains the freed pfn -/
theorem findCover_spec (treeOrder : Nat) (st : RState) (pfn k ap : Nat)
    (h : findCover treeOrder st pfn k = some ap) :
    ∃ a o, st.get ap = some a ∧ k ≤ o ∧ o ≤ a.order ∧ ap = pfn / 2 ^ o * 2 ^ o := by
  unfold findCover at h
  obtain ⟨o, ho, hf⟩ := List.exists_of_findSome?_eq_some h
  have hko : k ≤ o := (List.mem_range'_1.1 ho).1
  simp only at hf
  cases hg : st.get (pfn / 2 ^ o * 2 ^ o) with
  | none => simp [hg] at hf
  | some a =>
    simp only [hg] at hf
    split at hf
    · injection hf with hf
      exact ⟨a, o, hf ▸ hg, hko, by assumption, hf.symm⟩
    · cases hf

/-- Regression for the fixed defect F12: allocation of order 2 recorded at pfn 8 ↦ frame 64;
    freeing the part at pfn 10 (order 0) must free frame 66, and pfns 8, 9, 11 stay mapped. -/
example : (freeEvent 11 [(8, ⟨64, 2⟩)] 10 0).map (·.1) = some 66 := by decide

end LLFree.C20
