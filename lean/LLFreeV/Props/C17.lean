/-
  C17 — Zone and persistent wrappers translate frames and protect their metadata.
-/
import LLFreeV.Model.Wrapper
import LLFreeV.Proofs.Run
import LLFreeV.Gen.Consts
import LLFreeV.Proofs.GenZone
namespace LLFree.C17
open LLFree Prog

/-- shifting the frame of a result -/
def shift (off : Nat) : Res (Nat × Nat) → Res (Nat × Nat)
  | .ok (f, k) => .ok (f + off, k)
  | .error e => .error e

/-- **Zone translate (allocation).** A targeted allocation at or above the offset is the inner
    allocation of `frame − offset`, with the result shifted back by the offset; the metadata
    evolves exactly as for the inner call. -/
theorem zone_get_translate (c : Cfg) (off : Nat) (m : Mem) (frame : Nat) (r : Request) (h : off ≤ frame) :
    runSolo (Zone.get c off (some frame) r) m =
      Outcome.andThen (runSolo (get c (some (frame - off)) r) m) (fun x m' => (m', .ok (shift off x))) := by
  have : ¬ frame < off := by omega
  simp only [Zone.get, Zone.toInner, this, if_false, runSolo_bind]
  congr 1
  funext x m'
  cases x with
  | ok p => obtain ⟨f, k⟩ := p; rfl
  | error e => rfl

/-- untargeted allocation: inner result shifted by the offset -/
theorem zone_get_any_translate (c : Cfg) (off : Nat) (m : Mem) (r : Request) :
    runSolo (Zone.get c off none r) m =
      Outcome.andThen (runSolo (get c none r) m) (fun x m' => (m', .ok (shift off x))) := by
  simp only [Zone.get, runSolo_bind]
  congr 1
  funext x m'
  cases x with
  | ok p => obtain ⟨f, k⟩ := p; rfl
  | error e => rfl

/-- every frame the zone wrapper returns is at or above the offset -/
theorem zone_result_ge (off : Nat) (x : Res (Nat × Nat)) (f k : Nat) (h : shift off x = .ok (f, k)) : off ≤ f := by
  cases x with
  | ok p => obtain ⟨f', k'⟩ := p; simp [shift] at h; omega
  | error e => simp [shift] at h

/-- **Zone translate (free).** -/
theorem zone_put_forward (c : Cfg) (off : Nat) (m : Mem) (frame : Nat) (r : Request) (h : off ≤ frame) :
    runSolo (Zone.put c off frame r) m = runSolo (put c (frame - off) r) m := by
  have : ¬ frame < off := by omega
  simp [Zone.put, Zone.toInner, this]

/-- **Zone queries.** -/
theorem zone_stats_at_forward (c : Cfg) (off : Nat) (m : Mem) (frame order : Nat) :
    runSolo (Zone.statsAt c off frame order) m =
      if frame < off then (m, .ok {}) else runSolo (Lower.statsAt c.geom (frame - off) order) m := by
  unfold Zone.statsAt Zone.toInner
  by_cases h : frame < off
  · simp only [h, if_true]; rfl
  · simp only [h, if_false]

/-! ### persistent wrapper: layout `frames | lower metadata pages | header page` -/

theorem ceilDiv_mono (a b d : Nat) (h : a ≤ b) : (a + d - 1) / d ≤ (b + d - 1) / d :=
  Nat.div_le_div_right (by omega)

/-- the lower metadata never grows when fewer frames are managed -/
theorem lowerSize_mono (g : Geom) (n z : Nat) (h : n ≤ z) : lowerSize g n ≤ lowerSize g z := by
  unfold lowerSize
  exact Nat.add_le_add (Nat.mul_le_mul_right _ (ceilDiv_mono _ _ _ h)) (Nat.mul_le_mul_right _ (ceilDiv_mono _ _ _ h))

/-- **Layout.** If `create` accepts a region of `z` frames (frame size `fs > 0`), then with
    `n = nvmManaged` managed frames and `p = nvmMetaPages` metadata pages:
    the three parts tile the region (`n + p + 1 = z`), and the metadata of the `n`-frame
    allocator fits into the `p` pages. Together with C01/C02 (every handed-out block lies
    below `n`) no allocation overlaps the metadata or the header page. -/
theorem nvm_layout (g : Geom) (fs z : Nat) (hfs : 0 < fs) (hok : nvmSizeOk g fs z = true) :
    nvmManaged g fs z + nvmMetaPages g fs z + 1 = z ∧
    lowerSize g (nvmManaged g fs z) ≤ nvmMetaPages g fs z * fs := by
  unfold nvmSizeOk at hok
  simp only [decide_eq_true_eq] at hok
  have hz : 1 ≤ z := by
    cases z with
    | zero => simp at hok; omega
    | succ k => omega
  -- lowerSize g z ≤ (z - 1) * fs
  have h1 : lowerSize g z ≤ (z - 1) * fs := by
    have : z * fs = (z - 1) * fs + fs := by
      have : z = (z - 1) + 1 := by omega
      conv => lhs; rw [this, Nat.add_mul, Nat.one_mul]
    omega
  have hp : nvmMetaPages g fs z ≤ z - 1 := by
    unfold nvmMetaPages
    have : (lowerSize g z + fs - 1) / fs < z := by
      apply (Nat.div_lt_iff_lt_mul hfs).2
      have : z * fs = (z - 1) * fs + fs := by
        have : z = (z - 1) + 1 := by omega
        conv => lhs; rw [this, Nat.add_mul, Nat.one_mul]
      omega
    omega
  have hcover : lowerSize g z ≤ nvmMetaPages g fs z * fs := by
    unfold nvmMetaPages
    have := Nat.lt_mul_div_succ (lowerSize g z + fs - 1) hfs
    rw [Nat.mul_comm] at this
    rw [Nat.add_mul, Nat.one_mul] at this
    omega
  constructor
  · unfold nvmManaged; omega
  · exact Nat.le_trans (lowerSize_mono g _ z (by unfold nvmManaged; omega)) hcover

/-- **Recovery refuses foreign regions.** A header whose magic or recorded size differs (an
    untouched region, or one created with another size) is rejected. -/
theorem nvm_recover_rejects (hm hf z : Nat) (h : hm ≠ Gen.metaMagic ∨ hf ≠ z - 1) :
    nvmHeaderOk Gen.metaMagic hm hf z = false := by
  unfold nvmHeaderOk
  rcases h with h | h <;> simp [h]

theorem nvm_recover_accepts (z : Nat) : nvmHeaderOk Gen.metaMagic Gen.metaMagic (z - 1) z = true := by
  simp [nvmHeaderOk]

/-- Non-vacuity: a 2-tree region (4096 frames of 4 KiB, default geometry): 1 metadata page,
    4094 managed frames. -/
example : nvmSizeOk ⟨9, 4⟩ 4096 4096 = true ∧ nvmMetaPages ⟨9, 4⟩ 4096 4096 = 1 ∧ nvmManaged ⟨9, 4⟩ 4096 4096 = 4094 := by
  decide

/-- **The wrapper logic of the model is that of the current source.** `ZoneAlloc::{get, put, stats_at}`, the
    alignment condition of `ZoneAlloc::create` and the size / header / split arithmetic of `NvmAlloc::create` are
    regenerated from `core/src/wrapper.rs` on every run (`Gen/Zone.lean`: `checked_sub`, `map`, `ok_or`,
    `transpose`, `?`, `div_ceil` as written; the wrapped allocator's call is the parameter `inner`). For every
    `inner`, offset and frame they are the frame translation of the model (`Zone.toInner`, shift of the result by the
    offset, no call of the wrapped allocator below the offset), `create` rejects exactly the offsets that are not a
    multiple of a tree, and the region test, the header test and the number of managed frames are `nvmSizeOk`,
    `nvmHeaderOk` and `nvmManaged` of `nvm_layout`. -/
theorem wrappers_match_source :
    (∀ (inner : Option Nat → Except Gen.Z.Err (Nat × Nat)) (off : Nat) (frame : Option Nat),
      Gen.Z.get inner off frame =
        match frame with
        | some f =>
          match Zone.toInner off f with
          | none => .error .argument
          | some f' => GenZone.shiftG off (inner (some f'))
        | none => GenZone.shiftG off (inner none)) ∧
    (∀ (inner : Nat → Except Gen.Z.Err Unit) (off frame : Nat),
      Gen.Z.put inner off frame =
        match Zone.toInner off frame with
        | none => .error .argument
        | some f' => inner f') ∧
    (∀ (inner : Nat → Stats) (off frame : Nat),
      Gen.Z.statsAt inner off frame = (Zone.toInner off frame).map inner) ∧
    (∀ treeOrder off, Gen.Z.createRejects treeOrder off = true ↔ off % 2 ^ treeOrder ≠ 0) ∧
    (Gen.Z.createError = .error .initialization) ∧
    (∀ (g : Geom) (fs z : Nat),
      Gen.Z.nvmTooSmall fs (Gen.M.lowerSize (GenTree.tyOf g) g.hugeFrames g.treeFrames z) z = !nvmSizeOk g fs z ∧
      Gen.Z.nvmManaged fs (Gen.M.lowerSize (GenTree.tyOf g) g.hugeFrames g.treeFrames z) z = nvmManaged g fs z) ∧
    (∀ hm hf z, Gen.Z.nvmHeaderRejects Gen.metaMagic hm hf z = !nvmHeaderOk Gen.metaMagic hm hf z) :=
  ⟨GenZone.get_eq, GenZone.put_eq, GenZone.statsAt_eq, GenZone.createRejects_iff, rfl,
   fun g fs z => by rw [GenTree.lowerSize_eq]; exact ⟨GenZone.nvmTooSmall_eq g fs z, GenZone.nvmManaged_eq g fs z⟩,
   GenZone.nvmHeaderRejects_eq Gen.metaMagic⟩

/-- Non-vacuity of the generated wrapper: a zone at offset 512 translates target 515 to 3 and shifts the result
    back; target 7 is rejected without a call of the wrapped allocator (the `inner` here would return frame 0). -/
example : Gen.Z.get (fun f => .ok (f.getD 0, 0)) 512 (some 515) = .ok (515, 0) ∧
    Gen.Z.get (fun _ => .ok (0, 0)) 512 (some 7) = .error .argument ∧
    Gen.Z.put (fun _ => .ok ()) 512 7 = .error .argument ∧
    Gen.Z.createRejects 11 512 = true ∧ Gen.Z.createRejects 11 4096 = false :=
  ⟨by rfl, by rfl, by rfl, by decide, by decide⟩

end LLFree.C17
