/-
  C01 — Allocated blocks never overlap, are aligned and in range, under any interleaving.

  Proved here:
  * `seq_block_fresh` — in the sequential semantics (every sequential history), a successful
    lower allocation returns a block none of whose frames was allocated before (so it is
    disjoint from every block handed out and not yet freed, whose frames are all allocated),
    aligned to its order and inside the managed range, and afterwards exactly its frames are
    additionally allocated;
  * `seq_targeted_exact` — a targeted allocation returns exactly the requested frame;
  * `class`/alignment facts that need no invariant hold for every interleaving (see C13).

  * `conc_bitfield_blocks_disjoint` — **every interleaving of any number of threads**, at the
    bitfield level: targeted allocations (`Bitfield::toggle`), searches (`set_first_zeros`,
    `set_first_zero_rows`) and frees of held blocks of every order up to the huge order (single-word
    update, narrow compare-exchange, multi-row with roll-back) never hand out overlapping blocks, by the ownership invariant `ConcInv`
    (`conc_invariant_all_schedules`).

  * `conc_lower_blocks_disjoint` — **every interleaving of any number of threads, whole lower
    allocator** (`Lower::get` for every order up to the tree order, `Lower::get_at`, `Lower::put` of
    held blocks: bitfields *and* the huge-entry counters / whole-huge markers): small blocks of
    different threads never overlap, neither do huge blocks, nor a small and a huge block; blocks
    are aligned (`HeldOkL`). Invariant `LInv` (Proofs/OwnLowerInv.lean): counter + open accounts of
    the threads = number of zero bits, a marked huge frame has an empty bitfield and no open account.

  * `conc_public_api_blocks_disjoint` — **every interleaving of any number of threads at the
    public interface**: `LLFree::get` (any request, with or without target frame; every path —
    own reservation with sync, `search_and_reserve`, `reserve_or_steal`, `steal_global`,
    stealing/demoting other slots) and `LLFree::put` of held blocks at their allocation order,
    started from ANY contents of the tree array and the local slots. The upper level only
    writes these volatile arrays (`Neut`) and calls `Lower::get`/`Lower::put`, so the lower
    invariant carries over: blocks held by the threads are pairwise disjoint, aligned, allocated.

    Held blocks lie inside the managed range (`inRangeS`, `inRangeH`); `drain` may be interleaved.

  PARTIAL: callers that free a *part* of a block (an order smaller than the allocation's) under
  interleavings are not covered by the all-interleavings theorems. That part is explored by the trace co-simulation: real threads under a deterministic scheduler
  (preemption-bounded DFS + random schedules), every event replayed on the Lean interleaving
  semantics (`Th.step`), ownership oracle after every returned allocation and at quiescent ends.

  * `single_row_updates_match_source` — the mask and the update closure of `Bitfield::toggle`
    (orders 0..2) and the mask test of `Bitfield::is_zero` are re-derived from the Rust source on
    every run (`tools/rs2lean.py`, `Gen/Toggle.lean`) and proved equal to the model's.

  * `conc_blocks_disjoint_with_tree_changes` — the same for threads that also call `change_tree`
    (class changes, `Offline`).
-/
import LLFreeV.Props.C12
import LLFreeV.Proofs.UpperInit
import LLFreeV.Proofs.OwnThreads
import LLFreeV.Proofs.OwnLowerThreads
import LLFreeV.Proofs.OwnUpperThreads
import LLFreeV.Props.C06
import LLFreeV.Proofs.GenToggle
import LLFreeV.Proofs.ConcChange
namespace LLFree.C01
open LLFree

/-- **Sequential freshness.** -/
theorem seq_block_fresh (c : Cfg) (ok : GeomOk16 c.geom) (m : Mem) (inv : LowerInv c m) (start order : Nat)
    (hto : order ≤ c.geom.treeOrder) (ht : start * 64 / c.geom.treeFrames < c.ntrees) (m' : Mem) (f : Nat)
    (h : runSolo (Lower.get c.geom start order none) m = (m', .ok (.ok f))) :
    f % 2 ^ order = 0 ∧ f + 2 ^ order ≤ c.frames ∧
    (∀ i, i < 2 ^ order → m.allocated c.geom (f + i) = false) ∧
    (∀ x, m'.allocated c.geom x = (m.allocated c.geom x || inBlock f order x)) ∧ LowerInv c m' := by
  obtain ⟨m2, r, hrun, hres⟩ := C12.lower_get_sound c ok m inv start order hto ht
  rw [h] at hrun
  have e1 : m' = m2 := by have := congrArg Prod.fst hrun; simpa using this
  have e2 : r = .ok f := by
    have := congrArg Prod.snd hrun
    simp at this; exact this.symm
  subst e1 e2
  simp only at hres
  exact ⟨hres.2.1, hres.2.2.1, hres.2.2.2.1, hres.2.2.2.2.1, hres.2.2.2.2.2⟩

/-- **A targeted allocation returns exactly the requested frame.** -/
theorem seq_targeted_exact (c : Cfg) (m m' : Mem) (start frame order f : Nat)
    (h : runSolo (Lower.get c.geom start order (some frame)) m = (m', .ok (.ok f))) : f = frame := by
  simp only [Lower.get, runSolo_bind] at h
  cases hr : runSolo (Lower.getAt c.geom frame order) m with
  | mk m1 o =>
    rw [hr] at h
    cases o with
    | panic s => simp [Outcome.andThen] at h
    | ok r =>
      cases r with
      | error e => simp [Outcome.andThen, Except.map] at h
      | ok u =>
        simp [Outcome.andThen, Except.map] at h
        exact h.2.symm

/-- two blocks that are disjoint as frame sets: what "never overlap" means for held blocks -/
def Disjoint (f1 o1 f2 o2 : Nat) : Prop := f1 + 2 ^ o1 ≤ f2 ∨ f2 + 2 ^ o2 ≤ f1

/-- a fresh block is disjoint from every block all of whose frames are allocated -/
theorem fresh_disjoint_from_allocated (g : Geom) (m : Mem) (f o f2 o2 : Nat)
    (hfresh : ∀ i, i < 2 ^ o → m.allocated g (f + i) = false)
    (hheld : ∀ i, i < 2 ^ o2 → m.allocated g (f2 + i) = true) : Disjoint f o f2 o2 := by
  unfold Disjoint
  apply Classical.byContradiction
  intro hn
  have h1 : f2 < f + 2 ^ o := by omega
  have h2 : f < f2 + 2 ^ o2 := by omega
  -- a common frame
  by_cases hle : f ≤ f2
  · have a := hfresh (f2 - f) (by omega)
    have b := hheld 0 (Nat.pos_of_ne_zero (by simp))
    rw [show f + (f2 - f) = f2 by omega] at a
    rw [Nat.add_zero] at b
    rw [a] at b; cases b
  · have a := hfresh 0 (Nat.pos_of_ne_zero (by simp))
    have b := hheld (f - f2) (by omega)
    rw [Nat.add_zero] at a
    rw [show f2 + (f - f2) = f by omega] at b
    rw [a] at b; cases b


/-- **Sequential freshness at the public interface**: a block returned by `LLFree::get` in any
    reachable state is aligned, consists of frames that were all free (hence is disjoint from
    every block handed out and not yet freed — `fresh_disjoint_from_allocated`), is the target if
    one was given, and exactly its frames become allocated. -/
theorem seq_get_fresh (c : Cfg) (ok : CfgOk c) (H : Nat → Nat) (m : Mem) (inv : UpperInv0 c H m) (frame : Option Nat)
    (r : Request) (hcls : r.cls < 8) (hloc : r.locOk c) (hv : C08.ArgsValid c (frame.getD 0) r) :
    Runs m (get c frame r) (fun res m' => UpperInv0 c H m' ∧ ∀ f k, res = .ok (f, k) →
      f % 2 ^ r.order = 0 ∧ (∀ i, i < 2 ^ r.order → m.allocated c.geom (f + i) = false) ∧
      (∀ x, frame = some x → f = x) ∧ ∀ x, m'.allocated c.geom x = (m.allocated c.geom x || inBlock f r.order x)) := by
  apply Runs.mono (upper_get_spec ok inv frame r hcls hloc hv)
  rintro res m' ⟨inv', out⟩
  refine ⟨inv', ?_⟩
  intro f k hres
  subst hres
  obtain ⟨_, hal, hallowed, hfx, heff⟩ := out
  exact ⟨hal, hallowed, hfx, heff.1⟩

/-- a free block lies inside the managed range: frames beyond it are marked allocated -/
theorem fresh_in_range (c : Cfg) (m : Mem) (inv : LowerInv c m) (f : Nat) (hfree : m.allocated c.geom f = false) :
    f < c.frames := by
  apply Classical.byContradiction
  intro hn
  have := inv.outside f (by omega)
  unfold Mem.allocated at hfree
  rw [this] at hfree
  simp at hfree


/-- **Every interleaving, any number of threads (bitfield level).** Threads `k = 0, 1, 2, …` run
    arbitrary command lists of targeted allocations `Bitfield::toggle(.., false)`, searches
    `Bitfield::set_first_zeros` (every order up to the huge order: single word, narrow
    compare-exchange, multi-row with roll-back / `set_first_zero_rows`) and frees of blocks they hold; the scheduler picks the thread of every single atomic access
    (`sched`, unbounded). In every state reached: the frames held by different threads are
    disjoint, and a finished thread holds exactly the valid, pairwise disjoint blocks it reports
    (`HeldOk`). The proof is an ownership (rely/guarantee) invariant preserved by every atomic
    step (`ConcInv.step`): a compare-exchange only claims bits that are 0 at that instant and only
    clears bits its thread owns. -/
theorem conc_bitfield_blocks_disjoint (g : Geom) (okg : GeomOk g) (cmds : Nat → List BCmd) (m : Mem) (sched : List Nat) :
    ∃ owns' : Nat → Owned, (∀ j k, j ≠ k → ∀ f, owns' j f = true → owns' k f = false) ∧
      ∀ k, match ((concRun sched (m, fun k => Th.at (runCmds g (cmds k) []))).2 k).step
            (concRun sched (m, fun k => Th.at (runCmds g (cmds k) []))).1 with
        | .done held => owns' k = ownedBy g held ∧ HeldOk g held
        | .dead s => s = oobMsg
        | .step _ _ _ => True :=
  bitfield_threads_safe okg cmds m sched

/-- the invariant behind it, for arbitrary thread programs that are `SafeR` -/
theorem conc_invariant_all_schedules {α : Type} (G : Owned → Prop) (Post : α → Owned → Prop) (sched : List Nat) (m : Mem) (ths : Nat → Th α)
    (owns : Nat → Owned) (inv : ConcInv G Post m ths owns) :
    ∃ owns', ConcInv G Post (concRun sched (m, ths)).1 (concRun sched (m, ths)).2 owns' :=
  ConcInv.run sched m ths owns inv

/-- **Every interleaving, any number of threads, the whole lower allocator.** From a quiescent
    state (`LowerInv`: after initialisation, recovery or any sequential history) threads
    `k < n` run arbitrary command lists of `Lower::get` (search, every order up to the tree
    order), `Lower::get_at` and `Lower::put` of blocks they hold; the scheduler picks the thread
    of every single atomic access. In every state reached (`LowerConcOk`): blocks of different
    threads are disjoint — small/small (`disjS`), huge/huge (`disjH`), small/huge (`disjSH`) —,
    every held frame is marked allocated and lies inside the managed range, and a finished thread holds exactly the valid,
    aligned, pairwise disjoint blocks it reports. -/
theorem conc_lower_blocks_disjoint (c : Cfg) (ok : GeomOk16 c.geom) (m : Mem) (inv : LowerInv c m) (n retries : Nat)
    (cmds : Nat → List LCmd) (sched : List Nat) (hsched : ∀ k ∈ sched, k < n) :
    ∃ ghs, LowerConcOk c.geom n
      (concRun sched (m, fun k => Th.at (runL c.geom retries (cmds k) ⟨[], []⟩))).1
      (concRun sched (m, fun k => Th.at (runL c.geom retries (cmds k) ⟨[], []⟩))).2 ghs :=
  lower_threads_safe ok m inv n retries cmds sched hsched

/-- the invariant behind it, for arbitrary thread programs that are `SafeL` -/
theorem conc_lower_invariant_all_schedules {α : Type} (g : Geom) (okg : GeomOk g) (hhf : Huge.isHuge g.hugeFrames = false)
    (n F : Nat) (Post : α → Gh → Prop) (sched : List Nat) (hsched : ∀ k ∈ sched, k < n) (m : Mem) (ths : Nat → Th α)
    (ghs : Nat → Gh) (inv : LInv true g n F Post m ths ghs) :
    ∃ ghs', LInv true g n F Post (concRun sched (m, ths)).1 (concRun sched (m, ths)).2 ghs' :=
  LInv.run okg hhf sched hsched m ths ghs inv

/-- **Every interleaving, any number of threads, the public interface.** Threads `k < n` run
    arbitrary lists of `get` (any request), `put` (blocks they hold, at allocation order) and `drain`;
    the tree array and the slots may hold anything at the start. In every state reached the
    holdings are pairwise disjoint (small/small, huge/huge, small/huge: `ConcFacts`), every held
    frame is marked allocated and lies inside the managed range, and a finished thread holds exactly the valid aligned pairwise
    disjoint blocks its successful `get`s returned and it has not freed (`HeldOkL`). Upper-level
    panics are tolerated here (a trapped thread keeps its holdings); panic-freedom is C03/C09. -/
theorem conc_public_api_blocks_disjoint (c : Cfg) (ok : GeomOk16 c.geom) (m : Mem) (inv : LowerInv c m) (ht : m.trees.size = c.ntrees)
    (n : Nat) (cmds : Nat → List UCmd) (sched : List Nat) (hsched : ∀ k ∈ sched, k < n) :
    ∃ ghs, ConcFacts c.geom c.frames (concRun sched (m, fun k => Th.at (runU c (cmds k) ⟨[], []⟩))).1 ghs ∧
      (∀ k, k < n → match ((concRun sched (m, fun k => Th.at (runU c (cmds k) ⟨[], []⟩))).2 k).step
            (concRun sched (m, fun k => Th.at (runU c (cmds k) ⟨[], []⟩))).1 with
        | .done held => ghs k = ghOf c.geom held ∧ HeldOkL c.geom held
        | _ => True) := by
  obtain ⟨ghs, h1, h2, _⟩ := upper_threads_safe ok m inv ht n cmds sched hsched
  exact ⟨ghs, h1, h2⟩

/-- one public `get` of one thread among many: a success adds exactly an aligned block nobody
    held to the thread's holdings, a failure adds nothing -/
theorem conc_get_returns_unheld_block (c : Cfg) (ok : GeomOk16 c.geom) (gh : Gh) (frame : Option Nat) (r : Request) :
    SafeL false c.geom (UGetPost c.geom gh r.order) gh (get c frame r) := get_L c ok gh frame r

/-- the premises are satisfiable: the freshly initialised tiny allocator is a quiescent state -/
example : ∃ (c : Cfg) (m : Mem), GeomOk16 c.geom ∧ LowerInv c m :=
  ⟨C06.cTiny, C06.mTiny, ⟨⟨by decide, ⟨0, rfl⟩⟩, by decide⟩, C06.tiny_lower_inv⟩

/-- **The single-row bit updates of the model are those of the current source**: the mask and the
    update closure of `Bitfield::toggle` for orders 0..2 (the step that claims or releases the bits
    of a block inside one row — in particular for a targeted allocation) and the mask test of
    `Bitfield::is_zero` are regenerated from `core/src/bitfield.rs` on every run (`Gen/Toggle.lean`)
    and equal the model's: a block is claimed only if *all* its bits are free, released only if all
    are set. -/
theorem single_row_updates_match_source (bits sh : Nat) (hb : bits ≤ 64) (hs : sh < 64) (e mask : BitVec 64) (expected : Bool) :
    Gen.B.toggleMask (BitVec.ofNat 64 bits) (BitVec.ofNat 64 sh) = bitMask bits sh ∧
    Gen.B.toggleSmall e mask expected =
      (if expected then (if e &&& mask = mask then some (e &&& ~~~mask) else none)
       else (if e &&& mask = 0 then some (e ||| mask) else none)) ∧
    Gen.B.isZeroMask (BitVec.ofNat 64 bits) (BitVec.ofNat 64 sh) = bitMask bits sh ∧
    Gen.B.isZeroRow e mask = decide ((e &&& mask) = 0) :=
  ⟨GenTree.toggleMask_eq bits sh hb hs, GenTree.toggleSmall_eq e mask expected, GenTree.isZeroMask_eq bits sh hb hs,
    GenTree.isZeroRow_eq e mask⟩

/-- **Blocks never overlap, also while trees are changed concurrently**: threads run public calls and
    `change_tree` calls (class changes, `Offline`) from any contents of the volatile arrays; in every
    state of every schedule the holdings are pairwise disjoint, marked allocated and inside the managed
    range, and a finished thread holds exactly the valid aligned blocks its calls returned and it has
    not freed. -/
theorem conc_blocks_disjoint_with_tree_changes (c : Cfg) (ok : GeomOk16 c.geom) (m : Mem) (inv : LowerInv c m)
    (n : Nat) (cmds : Nat → List CCmd) (sched : List Nat) (hsched : ∀ k ∈ sched, k < n) :
    ∃ ghs, ConcFacts c.geom c.frames (concRun sched (m, fun k => Th.at (runUC c (cmds k) ⟨[], []⟩))).1 ghs ∧
      (∀ k, k < n → match ((concRun sched (m, fun k => Th.at (runUC c (cmds k) ⟨[], []⟩))).2 k).step
            (concRun sched (m, fun k => Th.at (runUC c (cmds k) ⟨[], []⟩))).1 with
        | .done held => ghs k = ghOf c.geom held ∧ HeldOkL c.geom held
        | _ => True) := by
  have okg := ok.toGeomOk
  have hhf : Huge.isHuge c.geom.hugeFrames = false := isHuge_of_le ok _ (Nat.le_refl _)
  have I0 := LInv.init_gen ok m inv n false (PostLU c) (fun k => runUC c (cmds k) ⟨[], []⟩)
    (fun k => runUC_safe ok (cmds k) ⟨[], []⟩ ⟨trivial, (fun b hb => by cases hb), trivial⟩)
  obtain ⟨ghs, I⟩ := LInv.run okg hhf sched hsched m _ _ I0
  refine ⟨ghs, I.facts okg, ?_⟩
  intro k hk
  have := I.step okg hhf k hk
  cases hs : ((concRun sched (m, fun k => Th.at (runUC c (cmds k) ⟨[], []⟩))).2 k).step
      (concRun sched (m, fun k => Th.at (runUC c (cmds k) ⟨[], []⟩))).1 with
  | done a => rw [hs] at this; exact this
  | dead s => trivial
  | step t' m'' a => trivial

end LLFree.C01
