/-
  C13 — The class reported for an allocation is one the policy permits.

  `Adm policy requested got`: `got = requested`, or the policy rates `(requested, got, free)`
  as `Steal` or `Match _` for some `free`.  Proved for *every* policy function, configuration
  and memory contents by structural induction with adversarial memory (`Always`), so it holds
  for sequential runs (`get_class_admissible`) and for every interleaving with any number of
  other threads doing anything to the shared metadata (`get_class_admissible_conc`).

  * `class_decisions_match_source` — the tree-entry transitions that decide classes (`steal`,
    `reserve_or_steal`, `unreserve_add`) are re-derived from the Rust source on every run by the
    translator (`tools/rs2lean.py`, `Gen/Tree.lean`) and proved equal to the model's
    (`Proofs/GenTree.lean`).
-/
import LLFreeV.Proofs.ClassAdm
import LLFreeV.Model.Policies
import LLFreeV.Proofs.GenTree
import LLFreeV.Proofs.GenPolicy
namespace LLFree.C13
open LLFree

/-- structural fact: whatever the atomic accesses of `get` observe, a success reports an
    admissible class -/
theorem get_always (c : Cfg) (frame : Option Nat) (r : Request) :
    Always (ClsOk c.policy r.cls) (get c frame r) := by
  unfold get
  simp only [always_bind_iff]
  apply Always.mono _ _ (Always.true _)
  intro ck _
  cases ck with
  | error e => simp [ClsOk]
  | ok _ =>
    simp only
    cases frame with
    | some f => exact getAt_always c f r
    | none =>
      simp only [always_bind_iff]
      apply Always.mono _ _ (Always.true _)
      intro cl _
      refine Always.mono ?_ _ (getFirst_always c r cl)
      intro first hfirst
      split
      · exact getFallback_always c r none
      · simpa using hfirst

/-- **C13, sequential.** For every configuration (geometry, frame count, classes, default class,
    *any* policy function), every memory contents and every request: if `get` returns
    `ok (frame, cls)` then `cls` is admissible for the requested class. -/
theorem get_class_admissible (c : Cfg) (m : Mem) (frame : Option Nat) (r : Request) (f cls : Nat) (m' : Mem)
    (h : runSolo (get c frame r) m = (m', .ok (.ok (f, cls)))) : Adm c.policy r.cls cls := by
  have := Always.runSolo (get c frame r) (get_always c frame r) m
  rw [h] at this
  exact this

/-- **C13, every interleaving.** A thread executing `get` keeps the invariant "every value it can
    still return is admissible" across each of its single atomic accesses from *any* shared
    memory (i.e. whatever other threads did in between), and when it finishes with
    `ok (frame, cls)` the class is admissible. -/
theorem get_class_admissible_conc (c : Cfg) (r : Request) (t : Th (Res (Nat × Nat)))
    (ht : Th.Always (ClsOk c.policy r.cls) t) (m : Mem) :
    match t.step m with
    | .done (.ok (_, cls)) => Adm c.policy r.cls cls
    | .done (.error _) => True
    | .dead _ => True
    | .step t' _ _ => Th.Always (ClsOk c.policy r.cls) t' := by
  have := Always.step t ht m
  split <;> simp_all [ClsOk]

/-- the initial thread state of a `get` call satisfies the invariant -/
theorem get_initial (c : Cfg) (frame : Option Nat) (r : Request) :
    Th.Always (ClsOk c.policy r.cls) (.at (get c frame r)) := get_always c frame r

/-- Non-vacuity: under the built-in ordered policies a class-1 request may be served from a
    class-0 tree (`Steal`) but never reports a class the policy rates `Demote`. -/
example : Adm (simplePolicy 2048) 1 0 ∧ ¬ Adm (simplePolicy 2048) 0 1 := by
  constructor
  · exact Or.inr ⟨0, Or.inl (by decide)⟩
  · intro h
    rcases h with h | ⟨free, h | ⟨p, h⟩⟩
    · cases h
    · simp [simplePolicy, orderedPolicy] at h
    · simp [simplePolicy, orderedPolicy] at h

/-- **The class decisions of the model are those of the current source.** `Gen/Tree.lean` is
    regenerated from `impl Tree` of `core/src/trees.rs` on every run; for every entry, request class,
    amount and policy the regenerated `steal`, `reserve_or_steal` and `unreserve_add` produce the
    same new entry (in particular the same class), the same refusal, and panic exactly when the
    model's transition does (bit-field ranges: a tree has fewer than 2^28 frames, class ids have 3 bits). -/
theorem class_decisions_match_source (tf : Nat) (self : Tree) (free cls dflt : Nat) (policy : PolicyFn)
    (htf : tf < 2 ^ 28) (hc : cls < 8) (hs : self.cls < 8) (hf : self.free < 2 ^ 28) :
    GenTree.Sim (GenTree.ofRO (Gen.T.steal self cls free policy)) (Upd.ofOption (Tree.steal self cls free policy)) ∧
    GenTree.Sim (GenTree.ofRO (Gen.T.reserveOrSteal tf self free policy cls)) (Tree.reserveOrSteal tf self free policy cls) ∧
    GenTree.Sim (GenTree.ofRO (Gen.T.unreserveAdd tf self free cls policy dflt)) (Tree.unreserveAdd tf self free cls policy dflt) :=
  ⟨GenTree.steal_eq self cls free policy hc hs hf, GenTree.reserveOrSteal_eq tf self free policy cls htf hf,
    GenTree.unreserveAdd_eq tf self free cls policy dflt htf hs⟩

/-- **The built-in policies of the model are those of the current source**: `Classing::simple`,
    `Classing::movable` (core) and the policy of the benchmark configurations
    (`ClassingConfig::classing`, eval) are regenerated from the source on every run
    (`Gen/Policy.lean`) and equal the model's policy functions — the ones every concrete
    configuration in theorems, examples and the correspondence driver uses. -/
theorem repo_policies_match_source (tf pmin pmax gmin gmax : Nat) :
    Gen.P.simple tf = simplePolicy tf ∧ Gen.P.movable tf = movablePolicy tf ∧
    Gen.P.eval pmin pmax gmin gmax = evalPolicy pmin pmax gmin gmax :=
  ⟨GenTree.simple_eq tf, GenTree.movable_eq tf, GenTree.eval_eq pmin pmax gmin gmax⟩

end LLFree.C13
