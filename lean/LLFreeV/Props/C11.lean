/-
  C11 — A single-slot allocator finds every free base frame without draining.

  Proved here: the decision logic of the synchronisation with the global counter, which is what
  lets a single slot reach frames freed without naming it: `sync_exact` (the reserved tree's
  counter is stolen exactly when it covers what the reservation lacks, in particular when it is
  *exactly* sufficient — the fixed defect F8 demanded strictly more), and the slot/tree counter
  arithmetic of the retry (`sync_then_get`).

  * `single_slot_complete` — **the end-to-end statement**: in every state satisfying the upper
    invariant (every state of every sequential history of a constructed allocator, C02/C06) in
    which only the caller's slot can hold a reservation (one class, one slot), with no offline
    trees and more trees than slots, `get(order 0)` through the slot returns a frame whenever
    *any* frame is free: the reservation's own counter, else the synchronisation with its
    tree's global counter (`sync_exact`, the F8 boundary), else `search_and_reserve` over the
    other trees (C10's completeness of the scan). `Proofs/UpperSingle.lean`: exact results of
    `Locals::get` / `Trees::sync` / `Locals::put`, the complete case analysis of `get_local`
    (`getLocal_cases`), and the counting argument that a failing `get_local` leaves an
    unreserved tree with a positive counter whenever a frame is free.

  * `sync_steal_matches_source` — `Tree::sync_steal` is re-derived from the Rust source on every
    run (`tools/rs2lean.py`, `Gen/Tree.lean`) and proved equal to the model's transition.
-/
import LLFreeV.Model.Upper
import LLFreeV.Proofs.UpperSingle
import LLFreeV.Props.C06
import LLFreeV.Proofs.GenTree
namespace LLFree.C11
open LLFree

/-- **Sync decision.** `Tree::sync_steal(min)` takes the whole global counter of a reserved tree
    iff that counter is at least `min` (the number of frames the reservation lacks). -/
theorem sync_exact (t : Tree) (min : Nat) :
    t.syncSteal min = (if t.reserved = true ∧ t.free ≥ min then some { t with free := 0 } else none) := by
  unfold Tree.syncSteal
  by_cases h1 : t.reserved = true <;> by_cases h2 : t.free ≥ min <;> simp [h1, h2]

/-- exactly sufficient is sufficient (regression for F8: one frame freed into the slot's own
    reserved tree without naming the slot must be found) -/
theorem sync_boundary (t : Tree) (h : t.reserved = true) : (t.syncSteal t.free).isSome = true := by
  simp [sync_exact, h]

/-- **After a successful sync the retry succeeds.** If the slot holds `s` frames of its tree, the
    request needs `n > s` frames and the tree's global counter `g ≥ n - s` is moved into the
    slot, then the slot holds `s + g ≥ n` frames: `LocalTree::get` succeeds and leaves
    `s + g - n`. -/
theorem sync_then_get (tr : Nat) (slot : LTree) (tree : Nat) (n g : Nat) (hp : slot.present = true)
    (ht : slot.row / tr = tree) (hlack : slot.free < n) (hg : g ≥ n - slot.free) :
    ∃ slot', LTree.put tr (slot.free + g) slot tree g = .set slot' ∧
      LTree.get tr slot' (some tree) n = some { slot' with free := slot.free + g - n } := by
  refine ⟨{ slot with free := slot.free + g }, ?_, ?_⟩
  · simp [LTree.put, hp, ht]
  · have : slot.free + g ≥ n := by omega
    simp [LTree.get, hp, ht, this]

/-- Non-vacuity / regression: a reserved tree with exactly one free frame, one frame lacking. -/
example : (Tree.syncSteal ⟨1, true, 0⟩ 1) = some ⟨0, true, 0⟩ := by decide

/-- **C11, end to end.** -/
theorem single_slot_complete (c : Cfg) (ok : CfgOk c) (m : Mem) (inv : UpperInv0 c (fun _ => 0) m) (r : Request) (ho : r.order = 0)
    (hcls : r.cls < 8) (lo : Nat) (hlo : r.loc = some lo) (rng : Nat × Nat) (hrng : c.slotRange r.cls = some rng)
    (hloc : lo < rng.2) (hnt : rng.2 < c.ntrees) (hv : C08.ArgsValid c 0 r)
    (hsingle : ∀ s (l' : LTree), m.slots[s]? = some l' → l'.present = true → s = rng.1 + lo)
    (f : Nat) (hfree : m.allocated c.geom f = false) :
    Runs m (get c none r) (fun res m' => (∃ x, res = .ok x) ∧ UpperInv0 c (fun _ => 0) m' ∧ GetOutcome c m 0 none res m') :=
  single_slot_get_complete ok inv r ho hcls lo hlo rng hrng hloc hnt hv hsingle f hfree

/-- with a single slot in the whole configuration the side condition on the slots is automatic -/
theorem single_of_one_slot (c : Cfg) (m : Mem) (hs : m.slots.size = 1) (s : Nat) (l' : LTree) (h : m.slots[s]? = some l') : s = 0 := by
  have := (Array.getElem?_eq_some_iff.1 h).1
  omega

/-- the premises are satisfiable: the tiny one-class one-slot allocator of C06 -/
example : C06.cTiny.slotRange 0 = some (0, 1) ∧ (1 : Nat) < C06.cTiny.ntrees ∧ C06.mTiny.slots.size = 1 := by decide

/-- **`Tree::sync_steal` of the model is the one of the current source** (`Gen/Tree.lean`, regenerated
    from `core/src/trees.rs` on every run) — including the boundary `free >= min` that F8 was about. -/
theorem sync_steal_matches_source (self : Tree) (min : Nat) :
    GenTree.Sim (GenTree.ofRO (Gen.T.syncSteal self min)) (Upd.ofOption (Tree.syncSteal self min)) :=
  GenTree.syncSteal_eq self min

end LLFree.C11
