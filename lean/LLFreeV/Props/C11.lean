/-
  C11 — A single-slot allocator finds every free base frame without draining.

  Proved here: the decision logic of the synchronisation with the global counter, which is what
  lets a single slot reach frames freed without naming it: `sync_exact` (the reserved tree's
  counter is stolen exactly when it covers what the reservation lacks, in particular when it is
  *exactly* sufficient — the fixed defect F8 demanded strictly more), and the slot/tree counter
  arithmetic of the retry (`sync_then_get`).

  PARTIAL: the end-to-end statement ("`get` returns `Memory` only if no frame is free", for every
  history of a one-class one-slot allocator) needs the upper invariant (slot counter + tree
  counter = free frames of the reserved tree; other trees' counters exact) and the completeness
  of the tree scan; in progress. Until then carried by the single-slot correspondence histories
  (exhaust, free any subset through the slot or with no slot, boundary cases) with the oracle
  "out of memory ⇒ no free frame".
-/
import LLFreeV.Model.Upper
namespace LLFree.C11
open LLFree

/-- **Sync decision.** `Tree::sync_steal(min)` takes the whole global counter of a reserved tree
    iff that counter is at least `min` (the number of frames the reservation lacks). -/
theorem sync_exact (t : Tree) (min : Nat) :
    t.syncSteal min = (if t.reserved = true ∧ t.free ≥ min then some { t with free := 0 } else none) := by
  unfold Tree.syncSteal
  by_cases h1 : t.reserved = true <;> by_cases h2 : t.free ≥ min <;> simp [h1, h2]

/-- exactly sufficient is sufficient (regression for F8: one frame freed into the slot's own
    reserved tree without naming the slot must be found) -/
theorem sync_boundary (t : Tree) (h : t.reserved = true) : (t.syncSteal t.free).isSome = true := by
  simp [sync_exact, h]

/-- **After a successful sync the retry succeeds.** If the slot holds `s` frames of its tree, the
    request needs `n > s` frames and the tree's global counter `g ≥ n - s` is moved into the
    slot, then the slot holds `s + g ≥ n` frames: `LocalTree::get` succeeds and leaves
    `s + g - n`. -/
theorem sync_then_get (tr : Nat) (slot : LTree) (tree : Nat) (n g : Nat) (hp : slot.present = true)
    (ht : slot.row / tr = tree) (hlack : slot.free < n) (hg : g ≥ n - slot.free) :
    ∃ slot', LTree.put tr (slot.free + g) slot tree g = .set slot' ∧
      LTree.get tr slot' (some tree) n = some { slot' with free := slot.free + g - n } := by
  refine ⟨{ slot with free := slot.free + g }, ?_, ?_⟩
  · simp [LTree.put, hp, ht]
  · have : slot.free + g ≥ n := by omega
    simp [LTree.get, hp, ht, this]

/-- Non-vacuity / regression: a reserved tree with exactly one free frame, one frame lacking. -/
example : (Tree.syncSteal ⟨1, true, 0⟩ 1) = some ⟨0, true, 0⟩ := by decide

end LLFree.C11
