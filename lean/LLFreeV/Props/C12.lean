/-
  C12 — Search within one tree finds any aligned free block of the requested order.

  `Lower.get g start order none` is the model of `Lower::get(start_row, order, None)`; `start`
  is the hint row (`start * 64 / TREE_FRAMES` is the tree searched).  `LowerInv` is the
  invariant of the lower metadata (counters = zero bits, marker ⇒ empty bitfield, frames outside
  the managed range marked allocated); it is the *only* assumption on the allocation pattern.

  * `huge_entry_transitions_match_source` — `impl HugeEntry` (the counters and the huge marker of
    the lower allocator) is re-derived from the Rust source on every run (`tools/rs2lean.py`,
    `Gen/Huge.lean`) and proved equal to the model's transitions (`Proofs/GenTree.lean`).
-/
import LLFreeV.Proofs.LowerGet
import LLFreeV.Proofs.GenHuge
namespace LLFree.C12
open LLFree

/-- the tree contains an aligned, entirely free block of the order -/
def TreeHasFree (c : Cfg) (m : Mem) (t order : Nat) : Prop :=
  ∃ f, f / c.geom.treeFrames = t ∧ f % 2 ^ order = 0 ∧ GetAllowed c m f order

/-- **C12 (completeness).** For every geometry (HUGE_ORDER 6..15, TREE_HUGE a power of two), frame
    count, allocation pattern satisfying the invariant, hint row and order up to the tree order:
    the search fails (with `Memory`, changing nothing) only if the tree contains no aligned entirely
    free block of that order; it never panics. -/
theorem lower_get_complete (c : Cfg) (ok : GeomOk16 c.geom) (m : Mem) (inv : LowerInv c m) (start order : Nat)
    (hto : order ≤ c.geom.treeOrder) (ht : start * 64 / c.geom.treeFrames < c.ntrees)
    (hfree : TreeHasFree c m (start * 64 / c.geom.treeFrames) order) :
    ∃ m' f, runSolo (Lower.get c.geom start order none) m = (m', .ok (.ok f)) := by
  obtain ⟨m', r, hrun, hres⟩ := lower_get_refines ok m inv start order hto ht
  cases hres with
  | found _ f _ _ _ _ => exact ⟨m', f, hrun⟩
  | none hno =>
    obtain ⟨f, hft, hal, hallowed⟩ := hfree
    exact absurd hallowed (hno f hft hal)

/-- **C12 (soundness).** A success returns an aligned block of the searched tree that was entirely
    free, inside the managed range, and marks exactly that block: afterwards a frame is allocated
    iff it was allocated before or lies in the block; the invariant is preserved. A failure leaves
    the memory unchanged. -/
theorem lower_get_sound (c : Cfg) (ok : GeomOk16 c.geom) (m : Mem) (inv : LowerInv c m) (start order : Nat)
    (hto : order ≤ c.geom.treeOrder) (ht : start * 64 / c.geom.treeFrames < c.ntrees) :
    ∃ m' r, runSolo (Lower.get c.geom start order none) m = (m', .ok r) ∧
      match r with
      | .ok f =>
        f / c.geom.treeFrames = start * 64 / c.geom.treeFrames ∧ f % 2 ^ order = 0 ∧ f + 2 ^ order ≤ c.frames ∧
        GetAllowed c m f order ∧
        (∀ x, m'.allocated c.geom x = (m.allocated c.geom x || inBlock f order x)) ∧ LowerInv c m'
      | .error e => e = .memory ∧ m' = m ∧ ¬ TreeHasFree c m (start * 64 / c.geom.treeFrames) order := by
  obtain ⟨m', r, hrun, hres⟩ := lower_get_refines ok m inv start order hto ht
  refine ⟨m', r, hrun, ?_⟩
  cases hres with
  | found _ f htree hal hallowed post =>
    refine ⟨htree, hal, ?_, hallowed, post.alloc, post.inv⟩
    apply free_block_in_range inv f (2 ^ order) (Nat.pos_of_ne_zero (by simp))
    intro j hj
    have := hallowed j hj
    unfold Mem.allocated at this
    simp only [Bool.or_eq_false_iff] at this
    exact this.2
  | none hno =>
    refine ⟨rfl, rfl, ?_⟩
    rintro ⟨f, hft, hal, hallowed⟩
    exact hno f hft hal hallowed

/-- the directed allocation of a given frame (`Lower::get(_, order, Some(frame))`) -/
theorem lower_get_at_iff (c : Cfg) (ok : GeomOk16 c.geom) (m : Mem) (inv : LowerInv c m) (start frame order : Nat)
    (hb : BlockOk c frame order) :
    (GetAllowed c m frame order → ∃ m', runSolo (Lower.get c.geom start order (some frame)) m = (m', .ok (.ok frame)) ∧
      GetPost c m m' frame order) ∧
    (¬ GetAllowed c m frame order → runSolo (Lower.get c.geom start order (some frame)) m = (m, .ok (.error .memory))) := by
  have h := lower_getAt_refines ok m inv frame order hb
  constructor
  · intro ha
    obtain ⟨m', hm', post⟩ := h.1 ha
    refine ⟨m', ?_, post⟩
    simp [Lower.get, hm', Except.map]
  · intro hn
    simp [Lower.get, h.2 hn, Except.map]

/-- Non-vacuity: the default geometry satisfies the geometry assumptions. -/
example : GeomOk16 ⟨9, 4⟩ := ⟨⟨by decide, ⟨2, rfl⟩⟩, by decide⟩
example : GeomOk16 ⟨11, 8⟩ := ⟨⟨by decide, ⟨3, rfl⟩⟩, by decide⟩

/-- **The table-entry transitions of the model are those of the current source**: `impl HugeEntry`
    (`new_huge`, `new_with`, `huge`, `free`, `dec`, `inc`) is regenerated from `core/src/lower.rs` on
    every run (`Gen/Huge.lean`) and agrees with the hand-written model for every entry value and
    amount (for `inc`: amounts up to the bitfield length, which is all the callers pass). -/
theorem huge_entry_transitions_match_source (len e n : Nat) (hn : n ≤ len) :
    Gen.H.newHuge = .ok HugeMarker ∧ Gen.H.newWith n = .ok (Huge.newWith n) ∧
    Gen.H.huge e = .ok (Huge.isHuge e) ∧ Gen.H.free e = .ok (Huge.free e) ∧
    GenTree.Sim (GenTree.ofRON (Gen.H.dec e n)) (Upd.ofOption (Huge.dec e n)) ∧
    GenTree.Sim (GenTree.ofRON (Gen.H.inc len e n)) (Huge.inc len e n) :=
  ⟨GenTree.hnewHuge_eq, GenTree.hnewWith_eq n, GenTree.hhuge_eq e, GenTree.hfree_eq e, GenTree.hdec_eq e n, GenTree.hinc_eq len e n hn⟩

end LLFree.C12
