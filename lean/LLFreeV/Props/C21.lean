/-
  C21 — Every call finishes in bounded steps once it runs without interference.

  Proved here:
  * **termination** of every program of the model (every API call is one) when run alone from
    *any* thread state reachable in any interleaving — including "inside a compare-exchange loop
    holding a stale value" — and from any memory contents (`solo_terminates`); no step of the
    semantics consults another thread's state (`Th.step : Th α → Mem → …`), so no call waits for
    another thread: the only wait in the source, `spin_wait`, is a loop bounded by `RETRIES`;
  * an **explicit uniform bound**: `Within n p` says that every path of the program tree `p`
    performs at most `n` atomic accesses (a `try_update`/`update` counts 2); `get_within`,
    `put_within`, `drain_within`, `change_tree_within` (and `stats`, `tree_stats`, `stats_at`, `is_free`
    in `api_within`): every public call lies within an explicit
    number `getB c`, `putB c`, `drainB c`, `changeB c`, … computed from the configuration alone
    (geometry, number of trees, number of slots, retry constant) — for every argument, every
    value any load may return, every branch (all loops of bitfield.rs, lower.rs, trees.rs,
    local.rs, llfree.rs on these paths: row toggles with roll-back, chunk search, row search,
    table-entry search, compare-exchange ranges with undo, bounded spin wait, tree search with
    its candidate buffer, slot and class loops, sync-and-retry);
  * `bound_kept_under_interference`: the bound is kept by every step of the thread whatever the
    other threads wrote in between (a failed compare-exchange inside `try_update` does not lower
    it — interference can delay, never block);
  * `frozen_completion` / `api_frozen_completion`: after ANY schedule of ANY number of threads
    each running a public call, if all threads but one are frozen, that thread finishes within
    the bound of its call — from every intermediate state of every interleaving.

  The bounds are generous (products of loop lengths), not tight; the freeze experiments of the
  trace correspondence measure the actual counts on the real threads (harness `solo_bound`) and
  compare every access with the model.
-/
import LLFreeV.Proofs.Solo
import LLFreeV.Model.Upper
import LLFreeV.Proofs.BoundConc
namespace LLFree.C21
open LLFree

/-- every API call of the model terminates when run alone, from every intermediate state -/
theorem solo_terminates (t : Th String) (m : Mem) : ∃ n, (soloSteps n t m).1.finished = true :=
  LLFree.solo_terminates t m

theorem get_solo_terminates (c : Cfg) (frame : Option Nat) (r : Request) (m : Mem) :
    ∃ n, (soloSteps n (.at (get c frame r)) m).1.finished = true := prog_solo_terminates _ m

theorem put_solo_terminates (c : Cfg) (frame : Nat) (r : Request) (m : Mem) :
    ∃ n, (soloSteps n (.at (put c frame r)) m).1.finished = true := prog_solo_terminates _ m

theorem drain_solo_terminates (c : Cfg) (m : Mem) :
    ∃ n, (soloSteps n (.at (drain c)) m).1.finished = true := prog_solo_terminates _ m

/-- the retry loop of `try_update`/`update` needs at most three accesses when run alone from any
    of its states (load, one possibly failing compare-exchange, one succeeding one) -/
theorem solo_step_bound_upd {α : Type} (k : Kind) (i : Nat) (f : k.Val → Upd k.Val) (cur new : k.Val)
    (c : Except k.Val k.Val → Prog α) (m : Mem) :
    ∃ n, n ≤ 2 ∧ match (soloSteps n (.updCas k i f cur new c) m).1 with
      | .at _ => True
      | .updCas .. => False := by
  cases hg : m.get? k i with
  | none => exact ⟨1, by omega, by simp [soloSteps, Th.step, hg]⟩
  | some o =>
    by_cases he : o = cur
    · exact ⟨1, by omega, by simp [soloSteps, Th.step, hg, he]⟩
    · cases hf : f o with
      | skip => exact ⟨1, by omega, by simp [soloSteps, Th.step, hg, he, Th.afterUpd, hf]⟩
      | panic s => exact ⟨1, by omega, by simp [soloSteps, Th.step, hg, he, Th.afterUpd, hf]⟩
      | set v => exact ⟨2, by omega, by simp [soloSteps, Th.step, hg, he, Th.afterUpd, hf]⟩

/-! ### explicit bounds -/

/-- `get` (with or without target frame) performs at most `getB c` accesses -/
theorem get_within (c : Cfg) (frame : Option Nat) (r : Request) : Within (getB c) (get c frame r) :=
  LLFree.get_within c frame r

/-- `put` performs at most `putB c` accesses (including the bounded spin wait for a concurrent split) -/
theorem put_within (c : Cfg) (frame : Nat) (r : Request) : Within (putB c) (put c frame r) :=
  LLFree.put_within c frame r

/-- `drain` performs at most `drainB c` accesses -/
theorem drain_within (c : Cfg) : Within (drainB c) (drain c) := LLFree.drain_within c

/-- `change_tree` performs at most `changeB c` accesses -/
theorem change_tree_within (c : Cfg) (mid mcls : Option Nat) (mfree : Nat) (ccls : Option Nat) (op : Option Tree.Op) :
    Within (changeB c) (changeTree c mid mcls mfree ccls op) := changeTree_within c mid mcls mfree ccls op

/-- a program within `n` finishes within `n` accesses when it runs alone, whatever the memory holds -/
theorem within_solo {α : Type} {n : Nat} {p : Prog α} (h : Within n p) (m : Mem) :
    ∃ k, k ≤ n ∧ (soloSteps k (.at p) m).1.finished = true := Within.solo h m

/-- interference never raises the bound of a thread inside a call: whatever the memory contains
    when the thread takes its next step, the successor state satisfies the same bound -/
theorem bound_kept_under_interference {α : Type} {n : Nat} {t t' : Th α} {m m' : Mem} {a : Access}
    (h : Th.Within n t) (hs : t.step m = .step t' m' a) : Th.Within n t' := Th.Within.step h hs

/-- **from every state of every interleaving**: threads start programs `p k` within `B k`; after
    any schedule, thread `k` run alone (all others frozen) finishes within `B k` accesses -/
theorem frozen_completion {α : Type} (p : Nat → Prog α) (B : Nat → Nat) (hB : ∀ k, Within (B k) (p k))
    (sched : List Nat) (m : Mem) (k : Nat) :
    ∃ n, n ≤ B k ∧
      (soloSteps n ((concRun sched (m, fun j => Th.at (p j))).2 k) (concRun sched (m, fun j => Th.at (p j))).1).1.finished = true :=
  LLFree.frozen_completion p B hB sched m k

/-- a public call -/
inductive ApiCall where
  | get (frame : Option Nat) (r : Request)
  | put (frame : Nat) (r : Request)
  | drain
  | change (mid mcls : Option Nat) (mfree : Nat) (ccls : Option Nat) (op : Option Tree.Op)
  | stats
  | treeStats
  | statsAt (frame order : Nat)
  | isFree (frame order : Nat)

/-- the call as a program (results dropped) -/
def ApiCall.prog (c : Cfg) : ApiCall → Prog Unit
  | .get frame r => do let _ ← LLFree.get c frame r; pure ()
  | .put frame r => do let _ ← LLFree.put c frame r; pure ()
  | .drain => LLFree.drain c
  | .change mid mcls mfree ccls op => do let _ ← changeTree c mid mcls mfree ccls op; pure ()
  | .stats => do let _ ← LLFree.stats c; pure ()
  | .treeStats => do let _ ← LLFree.treeStats c; pure ()
  | .statsAt frame order => do let _ ← Lower.statsAt c.geom frame order; pure ()
  | .isFree frame order => do let _ ← Lower.isFree c.geom frame order; pure ()


theorem api_within (c : Cfg) (call : ApiCall) : Within (apiB c) (call.prog c) := by
  cases call with
  | get frame r => exact Within.bind _ (LLFree.get_within c frame r) (fun _ => Within.pure _ _) (by unfold apiB; omega)
  | put frame r => exact Within.bind _ (LLFree.put_within c frame r) (fun _ => Within.pure _ _) (by unfold apiB; omega)
  | drain => exact (LLFree.drain_within c).mono (by unfold apiB; omega)
  | change mid mcls mfree ccls op =>
    exact Within.bind _ (changeTree_within c mid mcls mfree ccls op) (fun _ => Within.pure _ _) (by unfold apiB; omega)
  | stats => exact Within.bind _ (stats_within c) (fun _ => Within.pure _ _) (by unfold apiB; omega)
  | treeStats => exact Within.bind _ (treeStats_within c) (fun _ => Within.pure _ _) (by unfold apiB; omega)
  | statsAt frame order =>
    exact Within.bind _ (statsAt_within c.geom frame order) (fun _ => Within.pure _ _) (by unfold apiB queryB; omega)
  | isFree frame order =>
    exact Within.bind _ (isFree_within c.geom frame order) (fun _ => Within.pure _ _) (by unfold apiB queryB; omega)

/-- **C21 for the public interface**: any number of threads each inside a public call, any
    schedule, any memory: freeze all but thread `k` and it completes within `apiB c` accesses. -/
theorem api_frozen_completion (c : Cfg) (calls : Nat → ApiCall) (sched : List Nat) (m : Mem) (k : Nat) :
    ∃ n, n ≤ apiB c ∧
      (soloSteps n ((concRun sched (m, fun j => Th.at ((calls j).prog c))).2 k)
        (concRun sched (m, fun j => Th.at ((calls j).prog c))).1).1.finished = true :=
  LLFree.frozen_completion (fun j => (calls j).prog c) (fun _ => apiB c) (fun j => api_within c (calls j)) sched m k

/-- the bound is a concrete number: the default geometry with 4 trees and 6 slots -/
example : apiB { geom := ⟨9, 4⟩, frames := 8192, classes := [(0, 2), (1, 2), (2, 2)], dflt := 2,
                 policy := fun _ _ _ => .invalid } ≤ 40000 := by decide

end LLFree.C21
