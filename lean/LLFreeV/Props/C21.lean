/-
  C21 — Every call finishes in bounded steps once it runs without interference.

  Proved here: **termination** of every program of the model (every API call is one) when run
  alone from *any* thread state reachable in any interleaving — including "inside a
  compare-exchange loop holding a stale value" — and from any memory contents; no step of the
  semantics consults another thread's state (`Th.step : Th α → Mem → …`), so no call waits for
  another thread: the only wait in the source, `spin_wait`, is a loop bounded by `RETRIES`.

  PARTIAL: the *uniform explicit bound* `B(geometry, trees, slots)` on the number of accesses is
  not yet a theorem (`solo_step_bound` below is stated for the primitive retry loop only); the
  bound is measured by the freeze experiments of the trace correspondence (harness `solo_bound`).
-/
import LLFreeV.Proofs.Solo
import LLFreeV.Model.Upper
namespace LLFree.C21
open LLFree

/-- every API call of the model terminates when run alone, from every intermediate state -/
theorem solo_terminates (t : Th String) (m : Mem) : ∃ n, (soloSteps n t m).1.finished = true :=
  LLFree.solo_terminates t m

theorem get_solo_terminates (c : Cfg) (frame : Option Nat) (r : Request) (m : Mem) :
    ∃ n, (soloSteps n (.at (get c frame r)) m).1.finished = true := prog_solo_terminates _ m

theorem put_solo_terminates (c : Cfg) (frame : Nat) (r : Request) (m : Mem) :
    ∃ n, (soloSteps n (.at (put c frame r)) m).1.finished = true := prog_solo_terminates _ m

theorem drain_solo_terminates (c : Cfg) (m : Mem) :
    ∃ n, (soloSteps n (.at (drain c)) m).1.finished = true := prog_solo_terminates _ m

/-- the retry loop of `try_update`/`update` needs at most three accesses when run alone from any
    of its states (load, one possibly failing compare-exchange, one succeeding one) -/
theorem solo_step_bound_upd {α : Type} (k : Kind) (i : Nat) (f : k.Val → Upd k.Val) (cur new : k.Val)
    (c : Except k.Val k.Val → Prog α) (m : Mem) :
    ∃ n, n ≤ 2 ∧ match (soloSteps n (.updCas k i f cur new c) m).1 with
      | .at _ => True
      | .updCas .. => False := by
  cases hg : m.get? k i with
  | none => exact ⟨1, by omega, by simp [soloSteps, Th.step, hg]⟩
  | some o =>
    by_cases he : o = cur
    · exact ⟨1, by omega, by simp [soloSteps, Th.step, hg, he]⟩
    · cases hf : f o with
      | skip => exact ⟨1, by omega, by simp [soloSteps, Th.step, hg, he, Th.afterUpd, hf]⟩
      | panic s => exact ⟨1, by omega, by simp [soloSteps, Th.step, hg, he, Th.afterUpd, hf]⟩
      | set v => exact ⟨2, by omega, by simp [soloSteps, Th.step, hg, he, Th.afterUpd, hf]⟩

end LLFree.C21
