/-
  C03 — Concurrent calls never panic and frees of held blocks always succeed.

  Proved here:
  * `k1_spin_panics` — **the property does not hold for the code as it is** (known finding K1):
    a kernel-evaluated schedule of the interleaving semantics in which two threads free
    different parts of one whole-allocated huge frame and the loser of the fill race exhausts
    `RETRIES = 4` and panics "Exceeding retries". (Geometry HUGE_ORDER 6, TREE_HUGE 1 keeps the
    evaluation small; the trace co-simulation replays the same schedule on the real code in the
    default geometry.)
  * `seq_no_panic_lower` — sequentially (one thread, any history) no lower-level site panics:
    all roll-back sites (`Failed undo toggle`, `Failed undo search`, `undo failed`, `Undo failed`,
    `Inc failed`, `Failed partial clear`) and the spin are unreachable (from C09);
  * `held_free_succeeds_seq` — sequentially, a free of a block whose frames are all allocated
    (a held block) succeeds (from C02).

  * `conc_bitfield_no_panic` / `conc_free_of_held_succeeds` — **every interleaving of any number
    of threads** at the bitfield level (`toggle`, `set_first_zeros`, all orders): no access panics,
    the roll-backs `Failed undo toggle` / `Failed undo search` cannot fail, frees of held blocks succeed.

  * `conc_lower_no_panic` — **every interleaving of any number of threads, whole lower allocator**
    (`Lower::get`/`get_at`/`put` with the huge-entry counters and markers), for callers that free
    blocks at the order they were allocated with: no call panics (`Undo failed`, `undo failed`,
    `Inc failed`, … are unreachable; `partial_put_huge` — where K1 lives — is never entered) and
    every free of a held block succeeds. K1 needs a free of *part* of a huge allocation, which
    these callers do not issue; `k1_spin_panics` shows that the restriction is necessary.

  * `conc_successful_get_allowed` — the last clause of the property ("every successful
    allocation returns a block the ownership model allows") for the public `LLFree::get`, every
    path, under every interleaving: the block is aligned and none of its frames was held.

  * `conc_public_api_no_panic` — **every interleaving of any number of threads at the public
    interface**: threads run arbitrary lists of valid public calls (`get` of any order, class and
    slot, targeted or not, on every path — local reservation, sync, reserve-or-steal search,
    global steal, steal/demote of another slot —, `put` of held blocks at their allocation order,
    `drain`) from any state satisfying the upper invariant; in every state of every schedule no
    thread has trapped: `Unreserve failed`, `unreserve invalid class`, the counter assertions of
    `Tree::put`/`LocalTree::put`, the bit-field setter bounds, `No locals for class`, `Invalid
    class`, the `unwrap`s and the subtraction in `reserve_or_steal`, the zero divisor of the tree
    search and all lower-level roll-back sites are unreachable (`Proofs/ConcUpper*.lean`: the
    lower protocol tolerates exactly the upper-level messages, the upper protocol exactly the
    lower-level ones, so a trapped thread would contradict one of them). The only way a thread
    of the model can die is an index outside the metadata buffers (C18).

  * `conc_public_put_of_held_succeeds` — **the second clause at the public interface, every
    interleaving: every free of a held block succeeds.** `LLFree::put` can return an error only
    from its argument check once the lower allocator accepts the block (`put_LS`: thread-local,
    against arbitrary interference), and the check cannot reject a held block: by the global
    invariant every block in a thread's hands lies inside the managed range, is aligned to its
    order (for multi-huge orders from the aligned search positions of `Lower::get`) and has an
    order up to the tree order. The strict runner `runUS` stops at the first failing `put`; no
    finished thread reports one (`Proofs/ConcPutOk.lean`).

  * `conc_public_api_no_panic_with_tree_changes` — the same panic freedom when `change_tree`
    calls (class changes and `Offline`, by id or by search) run among the other calls
    (`Proofs/ConcChange.lean`). `Online` cannot be added: K2.

  * `conc_public_put_of_held_succeeds_with_tree_changes` — the same with `change_tree` calls (class
    changes, `Offline`) among the concurrent calls (`Proofs/ConcPutOkChange.lean`).

  * `k2_online_race_panics` — **a second refutation** (known finding K2): a free into an offline
    tree that races with `change_tree(Online)` panics in the counter assertion of `Tree::put`
    (the frames of the free are counted once by the Online fetch and once by the free itself);
    the co-simulation reproduces it on the real threads (scenario kind 6).

  PARTIAL: for partial frees of huge allocations (K1, refuted) and `change_tree` under
  interleavings (K2, refuted for Online) panic-freedom is not a theorem. Explored by the trace co-simulation (preemption-bounded DFS, random schedules, freeze
  experiments), with panic capture and the "free of a held block succeeded" oracle; the event
  trace of every explored schedule is replayed on the Lean interleaving semantics.
-/
import LLFreeV.Model.Conc
import LLFreeV.Props.C09
import LLFreeV.Props.C02
import LLFreeV.Proofs.UpperInit
import LLFreeV.Proofs.OwnThreads
import LLFreeV.Proofs.OwnLowerThreads
import LLFreeV.Proofs.OwnUpperThreads
import LLFreeV.Proofs.ConcUpperThreads
import LLFreeV.Proofs.ConcPutOk
import LLFreeV.Proofs.ConcChange
import LLFreeV.Proofs.ConcPutOkChange
namespace LLFree.C03
open LLFree

/-- geometry with one row per huge frame and one huge frame per tree -/
def gK1 : Geom := ⟨6, 1⟩
/-- one tree of 64 frames allocated as one huge frame: marker entry, empty bitfield -/
def mK1 : Mem := ⟨#[0#64], #[HugeMarker], #[], #[]⟩

/-- **K1 (refutation).** Thread 0 frees frame 0, thread 1 frees frame 1 of the same whole huge
    frame. Thread 0 loads the marker and fills the bitfield (2 accesses) and is then preempted
    before clearing the marker; thread 1 loads the marker, fails to fill the bitfield, loads the
    marker `RETRIES = 4` more times and panics. -/
theorem k1_spin_panics :
    runSched [Lower.put gK1 Gen.retries 0 0, Lower.put gK1 Gen.retries 1 0] mK1 [0, 0, 1, 1, 1, 1, 1, 1, 1]
      = some "Exceeding retries" := by
  decide

/-- the same two frees run one after the other both succeed (the defect needs the interleaving) -/
theorem k1_sequential_ok :
    runSched [Lower.put gK1 Gen.retries 0 0, Lower.put gK1 Gen.retries 1 0] mK1
      [0, 0, 0, 0, 0, 0, 1, 1, 1, 1] = none := by
  decide

/-! ### K2: a free into an offline tree racing with `change_tree(Online)` -/

/-- two trees of 64 frames, one class with one slot -/
def cK2 : Cfg := { geom := ⟨6, 1⟩, frames := 128, classes := [(0, 1)], dflt := 0, policy := simplePolicy 64 }
/-- frame 69 (tree 1) is allocated, tree 1 was taken offline (counter 0, 63 frames hidden) -/
def mK2 : Mem := ⟨#[0#64, 32#64], #[64, 63], #[⟨64, false, 0⟩, ⟨0, false, 0⟩], #[LTree.none]⟩

/-- **K2 (refutation).** Thread 0 frees frame 69: after `Lower::put` (5 accesses: the frame is free
    and counted in the table entry) it is preempted before `Trees::put`. Thread 1 brings tree 1
    online: it reads the lower counters (64, the freed frame included) and stores them as the
    tree counter. Thread 0 resumes and adds its frame a second time: `Tree::put` asserts
    `free <= TREE_FRAMES` and the free of a held block panics. -/
theorem k2_online_race_panics :
    runSched [put cK2 69 ⟨0, 0, none⟩, changeTree cK2 (some 1) none 0 none (some .online)] mK2
      [0, 0, 0, 0, 0, 1, 1, 1, 1, 1, 0, 0] = some "assertion failed: free <= TREE_FRAMES" := by
  decide

/-- one after the other, in either order, both calls return -/
theorem k2_sequential_ok :
    runSched [put cK2 69 ⟨0, 0, none⟩, changeTree cK2 (some 1) none 0 none (some .online)] mK2
      [0, 0, 0, 0, 0, 0, 0, 1, 1, 1, 1, 1, 1] = none ∧
    runSched [put cK2 69 ⟨0, 0, none⟩, changeTree cK2 (some 1) none 0 none (some .online)] mK2
      [1, 1, 1, 1, 1, 1, 0, 0, 0, 0, 0, 0, 0, 0] = none := by
  decide

theorem seq_no_panic_lower (c : Cfg) (ok : GeomOk16 c.geom) (m : Mem) (inv : LowerInv c m) (retries frame order : Nat)
    (hb : BlockOk c frame order) :
    ∃ m' r, runSolo (Lower.put c.geom retries frame order) m = (m', .ok r) :=
  C09.lower_put_total c ok m inv retries frame order hb

theorem held_free_succeeds_seq (c : Cfg) (ok : GeomOk16 c.geom) (m : Mem) (inv : LowerInv c m) (retries frame order : Nat)
    (hb : BlockOk c frame order) (hheld : PutAllowed c m frame order) :
    ∃ m', runSolo (Lower.put c.geom retries frame order) m = (m', .ok (.ok ())) :=
  let ⟨m', h, _⟩ := (lower_put_refines ok m inv retries frame order hb).1 hheld
  ⟨m', h⟩


/-- sequentially, at the public interface: a free of a held block (all frames allocated, whole
    huge frames for huge orders) succeeds, in every reachable state -/
theorem held_free_succeeds_upper (c : Cfg) (ok : CfgOk c) (H : Nat → Nat) (m : Mem) (inv : UpperInv0 c H m) (frame : Nat)
    (r : Request) (hcls : r.cls < 8) (hloc : r.locOk c) (hv : C08.ArgsValid c frame r) (hheld : PutAllowed c m frame r.order) :
    Runs m (put c frame r) (fun res m' => res = .ok () ∧ UpperInv0 c H m') :=
  ((upper_put_spec ok inv frame r hcls hloc hv).1 hheld).mono (fun _ _ h => ⟨h.1, h.2.1⟩)

/-- sequentially no call of any history panics (see C09) -/
theorem seq_history_never_panics (c : Cfg) (ok : CfgOk c) (calls : List Call) (hvalid : ∀ x ∈ calls, x.valid c)
    (H : Nat → Nat) (m : Mem) (inv : UpperInv0 c H m) :
    Runs m (runCalls c calls) (fun _ m' => ∃ H', UpperInv0 c H' m') := calls_safe ok calls hvalid H m inv


/-- **Every interleaving (bitfield level)**: no atomic access of any thread panics — in
    particular the roll-back of a multi-row allocation (`Failed undo toggle`) cannot fail — and
    every free of a held block succeeds (a failing one would be the panic of `runCmds`). -/
theorem conc_bitfield_no_panic (g : Geom) (okg : GeomOk g) (cmds : Nat → List BCmd) (m : Mem) (sched : List Nat) (k : Nat) :
    ∀ s, ((concRun sched (m, fun k => Th.at (runCmds g (cmds k) []))).2 k).step
      (concRun sched (m, fun k => Th.at (runCmds g (cmds k) []))).1 = .dead s → s = oobMsg := by
  intro s hs
  obtain ⟨_, _, h⟩ := bitfield_threads_safe okg cmds m sched
  have := h k
  rw [hs] at this
  exact this

/-- a held block is freed successfully by `toggle` whatever the other threads do (rely: they
    never touch bits they do not own) -/
theorem conc_free_of_held_succeeds (g : Geom) (okg : GeomOk g) (own : Owned) (h i order : Nat) (hoh : order ≤ g.hugeOrder)
    (hal : (i % g.hugeFrames) % 2 ^ order = 0)
    (hown : ∀ f, inBlockF (h * g.hugeFrames + i % g.hugeFrames) (2 ^ order) f = true → own f = true) :
    SafeR (fun _ => True) (FreePost own (h * g.hugeFrames + i % g.hugeFrames) (2 ^ order)) own (Bitfield.toggle g h i order true) :=
  toggle_free_safe _ okg own h i order hoh hal hown (fun _ _ => trivial)

/-- **Every interleaving, whole lower allocator**: no atomic access of any thread panics and
    every `Lower::put` of a held block (freed at its allocation order) returns `Ok` — a failing
    one would be the panic of `runL`. -/
theorem conc_lower_no_panic (c : Cfg) (ok : GeomOk16 c.geom) (m : Mem) (inv : LowerInv c m) (n retries : Nat)
    (cmds : Nat → List LCmd) (sched : List Nat) (hsched : ∀ k ∈ sched, k < n) (k : Nat) (hk : k < n) :
    ∀ s, ((concRun sched (m, fun k => Th.at (runL c.geom retries (cmds k) ⟨[], []⟩))).2 k).step
      (concRun sched (m, fun k => Th.at (runL c.geom retries (cmds k) ⟨[], []⟩))).1 = .dead s → s = oobMsg := by
  intro s hs
  obtain ⟨_, h⟩ := lower_threads_safe ok m inv n retries cmds sched hsched
  have := h.threads k hk
  rw [hs] at this
  exact this

/-- a held small block is freed successfully by `Lower::put` whatever the other threads do -/
theorem conc_lower_put_of_held_succeeds (g : Geom) (ok : GeomOk16 g) (gh : Gh) (retries frame order : Nat) (ho : order < g.hugeOrder)
    (hal : frame % 2 ^ order = 0) (hown : ∀ f, inBlockF frame (2 ^ order) f = true → gh.ownS f = true) :
    SafeL true g (fun r gh' => r = .ok () ∧ gh' = gh.subS frame (2 ^ order)) gh (Lower.put g retries frame order) :=
  putL_small ok gh retries frame order ho hal hown

/-- **A successful public `get` returns a block the ownership model allows, in every
    interleaving**: aligned, and none of its frames (small order) / huge frames (huge order) was
    held by the calling thread — nor by any other, by the disjointness invariant (C01). -/
theorem conc_successful_get_allowed (c : Cfg) (ok : GeomOk16 c.geom) (gh : Gh) (frame : Option Nat) (r : Request) :
    SafeL false c.geom (UGetPost c.geom gh r.order) gh (get c frame r) := get_L c ok gh frame r

/-- **No call of the public interface panics, in any interleaving** (valid parameters, frees at
    the allocation order): a thread of the model can only die by an index outside the buffers. -/
theorem conc_public_api_no_panic (c : Cfg) (ok : CfgOk c) (H : Nat → Nat) (m : Mem) (inv : UpperInv0 c H m)
    (n : Nat) (cmds : Nat → List UCmd) (hvalid : ∀ k, ∀ x ∈ cmds k, x.valid c) (sched : List Nat) (hsched : ∀ k ∈ sched, k < n)
    (k : Nat) (hk : k < n) (s : String)
    (hd : ((concRun sched (m, fun k => Th.at (runU c (cmds k) ⟨[], []⟩))).2 k).step
      (concRun sched (m, fun k => Th.at (runU c (cmds k) ⟨[], []⟩))).1 = .dead s) : s = oobMsg :=
  upper_conc_no_panic ok H m inv n cmds hvalid sched hsched k hk s hd

/-- **Every free of a held block succeeds, in any interleaving, at the public interface** (valid
    parameters, frees at the allocation order): a thread of the strict runner — which ends at the
    first `put` returning an error, with the flag set — never finishes with the flag set and never
    traps. -/
theorem conc_public_put_of_held_succeeds (c : Cfg) (ok : CfgOk c) (H : Nat → Nat) (m : Mem) (inv : UpperInv0 c H m)
    (n : Nat) (cmds : Nat → List UCmd) (hvalid : ∀ k, ∀ x ∈ cmds k, x.validS c) (sched : List Nat) (hsched : ∀ k ∈ sched, k < n)
    (k : Nat) (hk : k < n) :
    match ((concRun sched (m, fun k => Th.at (runUS c (cmds k) ⟨[], []⟩))).2 k).step
        (concRun sched (m, fun k => Th.at (runUS c (cmds k) ⟨[], []⟩))).1 with
    | .done a => a.2 = false
    | .dead s => s = oobMsg
    | .step _ _ _ => True :=
  upper_conc_put_succeeds ok H m inv n cmds hvalid sched hsched k hk

/-- **No call panics when trees are changed concurrently** (class changes, `Offline`; `Online` is
    refuted by K2). -/
theorem conc_public_api_no_panic_with_tree_changes (c : Cfg) (ok : CfgOk c) (H : Nat → Nat) (m : Mem) (inv : UpperInv0 c H m)
    (n : Nat) (cmds : Nat → List CCmd) (hvalid : ∀ k, ∀ x ∈ cmds k, x.valid c) (sched : List Nat) (hsched : ∀ k ∈ sched, k < n)
    (k : Nat) (hk : k < n) (s : String)
    (hd : ((concRun sched (m, fun k => Th.at (runUC c (cmds k) ⟨[], []⟩))).2 k).step
      (concRun sched (m, fun k => Th.at (runUC c (cmds k) ⟨[], []⟩))).1 = .dead s) : s = oobMsg :=
  upper_conc_no_panic_change ok H m inv n cmds hvalid sched hsched k hk s hd

/-- **Every free of a held block succeeds, in any interleaving, also while trees are changed
    concurrently** (class changes, `Offline`; valid parameters, frees at the allocation order): threads
    of the strict runner never finish with the failure flag set and never trap. -/
theorem conc_public_put_of_held_succeeds_with_tree_changes (c : Cfg) (ok : CfgOk c) (H : Nat → Nat) (m : Mem)
    (inv : UpperInv0 c H m) (n : Nat) (cmds : Nat → List CCmd) (hvalid : ∀ k, ∀ x ∈ cmds k, x.validS c)
    (sched : List Nat) (hsched : ∀ k ∈ sched, k < n) (k : Nat) (hk : k < n) :
    match ((concRun sched (m, fun k => Th.at (runUSC c (cmds k) ⟨[], []⟩))).2 k).step
        (concRun sched (m, fun k => Th.at (runUSC c (cmds k) ⟨[], []⟩))).1 with
    | .done a => a.2 = false
    | .dead s => s = oobMsg
    | .step _ _ _ => True :=
  upper_conc_put_succeeds_change ok H m inv n cmds hvalid sched hsched k hk

/-- the flag is not vacuous: a `put` that returns an error ends the strict runner with the flag set -/
theorem put_failure_is_reported (c : Cfg) (b : Blk) (cls : Nat) (loc : Option Nat) (rest : List UCmd) (e : Err) (m m' : Mem)
    (h : runSolo (put c b.i ⟨b.order, cls, loc⟩) m = (m', .ok (.error e))) :
    runSolo (runUS c (.putS 0 cls loc :: rest) ⟨[b], []⟩) m = (m', .ok (⟨[b], []⟩, true)) := by
  unfold runUS
  simp only [List.getElem?_cons_zero, runSolo_bind, h, Outcome.andThen]
  rfl

end LLFree.C03
