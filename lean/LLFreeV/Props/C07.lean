/-
  C07 — Rebuilding from another allocator's metadata is observationally identical.

  In the model an allocator *is* its configuration plus the typed contents of the three
  buffers; `Init::None` decodes the bytes it is given. The theorems: decoding the encoding of
  any in-range memory gives the memory back (so the rebuilt instance is the same state), and
  equal states answer every continuation identically. That the implementation has no state
  besides (configuration, bytes) is what the handoff correspondence measures.
-/
import LLFreeV.Model.Codec
import LLFreeV.Proofs.Run
namespace LLFree.C07
open LLFree

/-- field ranges of a tree entry that fit the 28/1/3-bit layout -/
def TreeOk (t : Tree) : Prop := t.free < 2 ^ 28 ∧ t.cls < 8
/-- field ranges of a slot that fit the 44/19/1-bit layout -/
def LTreeOk (t : LTree) : Prop := t.row < 2 ^ 44 ∧ t.free < 2 ^ 19

theorem tree_unpack_pack (t : Tree) (h : TreeOk t) : Tree.unpack t.pack = t := by
  obtain ⟨free, reserved, cls⟩ := t
  obtain ⟨h1, h2⟩ := h
  simp only at h1 h2
  unfold Tree.unpack Tree.pack
  simp only [Nat.mod_eq_of_lt h1, Nat.mod_eq_of_lt h2]
  cases reserved <;> simp <;> omega

theorem ltree_unpack_pack (t : LTree) (h : LTreeOk t) : LTree.unpack t.pack = t := by
  obtain ⟨row, free, present⟩ := t
  obtain ⟨h1, h2⟩ := h
  simp only at h1 h2
  unfold LTree.unpack LTree.pack
  simp only [Nat.mod_eq_of_lt h1, Nat.mod_eq_of_lt h2]
  cases present
  · have e1 : (row + free * 2 ^ 44 + 0) % 2 ^ 44 = row := by omega
    have e2 : (row + free * 2 ^ 44 + 0) / 2 ^ 44 % 2 ^ 19 = free := by omega
    have e3 : (row + free * 2 ^ 44 + 0) / 2 ^ 63 % 2 = 0 := by omega
    simp only [Bool.false_eq_true, if_false, e1, e2, e3]
    rfl
  · have e1 : (row + free * 2 ^ 44 + 2 ^ 63) % 2 ^ 44 = row := by omega
    have e2 : (row + free * 2 ^ 44 + 2 ^ 63) / 2 ^ 44 % 2 ^ 19 = free := by omega
    have e3 : (row + free * 2 ^ 44 + 2 ^ 63) / 2 ^ 63 % 2 = 1 := by omega
    simp only [if_true, e1, e2, e3]
    rfl

/-- every value the buffers can hold decodes to in-range fields (the packed form is canonical) -/
theorem tree_unpack_ok (v : Nat) : TreeOk (Tree.unpack v) := by
  unfold TreeOk Tree.unpack
  exact ⟨Nat.mod_lt _ (by omega), Nat.mod_lt _ (by omega)⟩

theorem tree_pack_unpack (v : Nat) (hv : v < 2 ^ 32) : (Tree.unpack v).pack = v := by
  unfold Tree.unpack Tree.pack
  simp only [Nat.mod_mod]
  have h1 := Nat.div_add_mod v (2 ^ 28)
  have h2 := Nat.div_add_mod (v / 2 ^ 28) 2
  have h3 : v / 2 ^ 29 = v / 2 ^ 28 / 2 := by rw [Nat.div_div_eq_div_mul]
  have h4 : v / 2 ^ 29 < 8 := by
    apply (Nat.div_lt_iff_lt_mul (Nat.two_pow_pos _)).2; omega
  rw [Nat.mod_eq_of_lt h4, h3]
  rcases Nat.mod_two_eq_zero_or_one (v / 2 ^ 28) with h | h <;> simp [h] <;> omega

/-- the logical words of the three buffers -/
structure Words where
  rows : List Nat
  huge : List Nat
  trees : List Nat
  slots : List Nat
deriving DecidableEq

def encode (m : Mem) : Words :=
  ⟨m.rows.toList.map (·.toNat), m.huge.toList, m.trees.toList.map Tree.pack, m.slots.toList.map LTree.pack⟩

def decode (w : Words) : Mem :=
  ⟨(w.rows.map (BitVec.ofNat 64)).toArray, w.huge.toArray, (w.trees.map Tree.unpack).toArray,
   (w.slots.map LTree.unpack).toArray⟩

/-- **C07.** `Init::None` over a byte copy of a quiescent allocator's metadata yields the same
    state, for every memory whose entries fit their bit fields. -/
theorem init_none_roundtrip (m : Mem) (ht : ∀ t ∈ m.trees.toList, TreeOk t) (hs : ∀ t ∈ m.slots.toList, LTreeOk t) :
    decode (encode m) = m := by
  obtain ⟨rows, huge, trees, slots⟩ := m
  simp only [decode, encode, List.map_map, Mem.mk.injEq]
  refine ⟨?_, by simp, ?_, ?_⟩
  · apply Array.ext'
    simp only [List.toList_toArray]
    have : (rows.toList.map (BitVec.ofNat 64 ∘ fun x => x.toNat)) = rows.toList.map id := by
      apply List.map_congr_left
      intro x _; simp
    rw [this, List.map_id]
  · apply Array.ext'
    simp only [List.toList_toArray]
    have : (trees.toList.map (Tree.unpack ∘ Tree.pack)) = trees.toList.map id := by
      apply List.map_congr_left
      intro x hx; exact tree_unpack_pack x (ht x hx)
    rw [this, List.map_id]
  · apply Array.ext'
    simp only [List.toList_toArray]
    have : (slots.toList.map (LTree.unpack ∘ LTree.pack)) = slots.toList.map id := by
      apply List.map_congr_left
      intro x hx; exact ltree_unpack_pack x (hs x hx)
    rw [this, List.map_id]

/-- Equal states are indistinguishable: every call, hence every call sequence, gives the same
    result, statistics and successor state on the original and on the rebuilt allocator. -/
theorem handoff_bisim {α : Type} (m : Mem) (ht : ∀ t ∈ m.trees.toList, TreeOk t) (hs : ∀ t ∈ m.slots.toList, LTreeOk t)
    (p : Prog α) : runSolo p (decode (encode m)) = runSolo p m := by
  rw [init_none_roundtrip m ht hs]

/-- Non-vacuity: a reserved class-2 tree with 1234 free frames survives the round trip. -/
example : Tree.unpack (Tree.pack ⟨1234, true, 2⟩) = ⟨1234, true, 2⟩ := by decide

end LLFree.C07
