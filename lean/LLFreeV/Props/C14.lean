/-
  C14 — Per-class statistics count every tree frame slot exactly once.

  Proved here:
  * `tree_table_partition` — for every tree array whose counters are at most TREE_FRAMES (true in
    every invariant state; larger counters trap in the source too), the statistics pass over the
    trees does not panic, reads only, and yields per-class pairs with
    Σ_c (free_c + alloc_c) = #trees · TREE_FRAMES and Σ_c free_c = Σ_trees counter = `free_frames`;
  * `tree_stats_free_sum` — **the whole program `LLFree::tree_stats`** (tree pass + both passes
    over the local slots, `Locals::foldSlots` proved to be the left fold over the present slots)
    in every state satisfying the upper invariant: never panics, reads only, returns
    free_frames = (Σ tree counters) + (Σ counters of the present local reservations), and
    **the per-class free counts sum to exactly this fast total** (third sentence of the property);
    the class table keeps its 8 rows.

  * `tree_stats_partition` — **both sums for the whole program**: in every state satisfying the
    upper invariant, after `tree_stats` (tree pass, slot pass, slot correction of F9)
    Σ_c (free_c + alloc_c) = #trees · TREE_FRAMES and Σ_c free_c = the fast total. The correction
    subtracts with saturation; it never saturates because every class's allocated count covers
    the reservations on the trees of that class (`need_le_alloc`: distinct reserved trees —
    `slotInj` —, reservation ≤ TREE_FRAMES − tree counter — exact accounting —, and the slots
    visited class by class are exactly the present slots — the partition of `Proofs/FastTotal`).
-/
import LLFreeV.Proofs.TreeStats
import LLFreeV.Proofs.ClassPartition
import LLFreeV.Proofs.ConcUpperThreads
import LLFreeV.Proofs.ConcChange
namespace LLFree.C14
open LLFree Prog

/-- **C14 (tree array part).** -/
theorem tree_table_partition (c : Cfg) (m : Mem) (hsz : m.trees.size = c.ntrees)
    (hcls : ∀ t ∈ m.trees.toList, t.cls < 8 ∧ t.free ≤ c.tf) :
    ∃ s, runSolo (Trees.stats c) m = (m, .ok s) ∧
      classSum s.classes = c.ntrees * c.tf ∧ classFree s.classes = s.freeFrames :=
  trees_stats_partition c m hsz hcls

theorem class_table_add (s : TreeStats) (cls : Nat) (hc : cls < s.classes.length) (f a : Nat) :
    classSum (s.addClass cls (fun p => (p.1 + f, p.2 + a))).classes = classSum s.classes + (f + a) ∧
    classFree (s.addClass cls (fun p => (p.1 + f, p.2 + a))).classes = classFree s.classes + f :=
  class_sum_addClass s cls hc f a

/-- **The program `tree_stats`**: no panic, read-only, per-class free counts sum to the fast total,
    which is the tree counters plus the counters of the present reservations. -/
theorem tree_stats_free_sum (c : Cfg) (H : Nat → Nat) (ok : CfgOk c) (m : Mem) (inv : UpperInv0 c H m) :
    Runs m (treeStats c) (fun s m' => m = m' ∧ s.classes.length = 8 ∧ classFree s.classes = s.freeFrames ∧
      ∃ s0, runSolo (Trees.stats c) m = (m, .ok s0) ∧ s.freeFrames = s0.freeFrames + slotSum c m) :=
  treeStats_spec c m ok inv

/-- **C14, the whole program.** -/
theorem tree_stats_partition (c : Cfg) (H : Nat → Nat) (ok : CfgOk c) (m : Mem) (inv : UpperInv0 c H m) :
    Runs m (treeStats c) (fun s m' => m = m' ∧ classSum s.classes = c.ntrees * c.tf ∧ classFree s.classes = s.freeFrames) :=
  treeStats_partition c m ok inv

/-- … and at the quiescent end of every interleaving of threads running public calls (get, put
    of held blocks at their order, drain): every tree frame slot is counted exactly once -/
theorem conc_quiescent_partition (c : Cfg) (ok : CfgOk c) (H : Nat → Nat) (m : Mem) (inv : UpperInv0 c H m)
    (n : Nat) (cmds : Nat → List UCmd) (hvalid : ∀ k, ∀ x ∈ cmds k, x.valid c) (sched : List Nat) (hsched : ∀ k ∈ sched, k < n)
    (hdone : ∀ k, k < n → ∃ held, ((concRun sched (m, fun k => Th.at (runU c (cmds k) ⟨[], []⟩))).2 k).step
      (concRun sched (m, fun k => Th.at (runU c (cmds k) ⟨[], []⟩))).1 = .done held) :
    let m' := (concRun sched (m, fun k => Th.at (runU c (cmds k) ⟨[], []⟩))).1
    Runs m' (treeStats c) (fun s m'' => m' = m'' ∧ classSum s.classes = c.ntrees * c.tf ∧ classFree s.classes = s.freeFrames) :=
  treeStats_partition c _ ok (upper_conc_quiescent ok H m inv n cmds hvalid sched hsched hdone)

/-- … and the same when the threads also change trees (class changes, `Offline`): the per-class
    statistics at every quiescent end count every tree frame slot exactly once. -/
theorem conc_quiescent_partition_with_tree_changes (c : Cfg) (ok : CfgOk c) (H : Nat → Nat) (m : Mem) (inv : UpperInv0 c H m)
    (n : Nat) (cmds : Nat → List CCmd) (hvalid : ∀ k, ∀ x ∈ cmds k, x.valid c) (sched : List Nat) (hsched : ∀ k ∈ sched, k < n)
    (hdone : ∀ k, k < n → ∃ held, ((concRun sched (m, fun k => Th.at (runUC c (cmds k) ⟨[], []⟩))).2 k).step
      (concRun sched (m, fun k => Th.at (runUC c (cmds k) ⟨[], []⟩))).1 = .done held) :
    let m' := (concRun sched (m, fun k => Th.at (runUC c (cmds k) ⟨[], []⟩))).1
    Runs m' (treeStats c) (fun s m'' => m' = m'' ∧ classSum s.classes = c.ntrees * c.tf ∧ classFree s.classes = s.freeFrames) := by
  obtain ⟨H', _, hinv⟩ := upper_conc_quiescent_change ok H m inv n cmds hvalid sched hsched hdone
  exact treeStats_partition c _ ok hinv

/-- the fold over the slots that `tree_stats` and `validate` use is the list fold over the
    present slots in class order -/
theorem fold_slots_is_list_fold {σ : Type} (c : Cfg) (m : Mem) (f : σ → Nat → LTree → Prog σ) (g : σ → Nat → LTree → σ)
    (P : Nat → LTree → Prop) (hf : ∀ acc cls t, P cls t → Runs m (f acc cls t) (fun acc' m' => m = m' ∧ acc' = g acc cls t))
    (hrange : ∀ k rng, c.slotRange k = some rng → rng.1 + rng.2 ≤ m.slots.size) (init : σ)
    (hP : ∀ p ∈ slotsOf c m, P p.1 p.2) :
    Runs m (Locals.foldSlots c f init)
      (fun acc' m' => m = m' ∧ acc' = (slotsOf c m).foldl (fun a p => g a p.1 p.2) init) :=
  foldSlots_runs c m f g P hf hrange init hP

end LLFree.C14
