/-
  C09 — No panic or abort for any valid-parameter call sequence or configuration.

  Every trap site of the source (`panic!`, `expect`/`unwrap`, `assert!`, slice indexing, checked
  arithmetic) is an explicit `Prog.panic` / out-of-bounds outcome of the model, so "no panic" is
  the statement that `runSolo` yields `Outcome.ok`.

  Proved here: the lower allocator never panics on a memory satisfying its invariant, for every
  geometry, frame count (including partial last trees and huge frames), order and argument that
  passed `check`: `lower_put_total`, `lower_getAt_total`, `lower_get_total`; `check` itself
  never panics for classes 0..7 (C08.check_spec); the roll-back sites (`Failed undo toggle`,
  `Failed undo search`, `undo failed`, `Undo failed`, `Inc failed`, `Failed partial clear`,
  `Exceeding retries`) are unreachable sequentially.

  PARTIAL: the upper-level sites (`Unreserve failed`, `unreserve invalid class`, counter
  asserts, `No locals for class`, slice indexing by tree/slot) need the upper invariant
  (`UpperInv`), in progress; until then carried by the sequential correspondence with panic
  capture over all configurations (zero frames, zero-slot classes, zeroed policy, every init
  mode, change_tree naming any tree).
-/
import LLFreeV.Proofs.LowerGet
import LLFreeV.Props.C08
namespace LLFree.C09
open LLFree

theorem lower_put_total (c : Cfg) (ok : GeomOk16 c.geom) (m : Mem) (inv : LowerInv c m) (retries frame order : Nat)
    (hb : BlockOk c frame order) :
    ∃ m' r, runSolo (Lower.put c.geom retries frame order) m = (m', .ok r) := by
  have h := lower_put_refines ok m inv retries frame order hb
  by_cases ha : PutAllowed c m frame order
  · obtain ⟨m', hm', _⟩ := h.1 ha; exact ⟨m', _, hm'⟩
  · exact ⟨m, _, h.2 ha⟩

theorem lower_getAt_total (c : Cfg) (ok : GeomOk16 c.geom) (m : Mem) (inv : LowerInv c m) (frame order : Nat)
    (hb : BlockOk c frame order) :
    ∃ m' r, runSolo (Lower.getAt c.geom frame order) m = (m', .ok r) := by
  have h := lower_getAt_refines ok m inv frame order hb
  by_cases ha : GetAllowed c m frame order
  · obtain ⟨m', hm', _⟩ := h.1 ha; exact ⟨m', _, hm'⟩
  · exact ⟨m, _, h.2 ha⟩

theorem lower_get_total (c : Cfg) (ok : GeomOk16 c.geom) (m : Mem) (inv : LowerInv c m) (start order : Nat)
    (hto : order ≤ c.geom.treeOrder) (ht : start * 64 / c.geom.treeFrames < c.ntrees) :
    ∃ m' r, runSolo (Lower.get c.geom start order none) m = (m', .ok r) := by
  obtain ⟨m', r, h, _⟩ := lower_get_refines ok m inv start order hto ht
  exact ⟨m', r, h⟩

/-- the argument check never panics (classes 0..7) and touches no memory -/
theorem check_total (c : Cfg) (m : Mem) (frame : Nat) (r : Request) (hcls : r.cls < 8) :
    ∃ x, runSolo (check c frame r) m = (m, .ok x) := ⟨_, C08.check_spec c m frame r hcls⟩

end LLFree.C09
