/-
  C09 — No panic or abort for any valid-parameter call sequence or configuration.

  Every trap site of the source (`panic!`, `expect`/`unwrap`, `assert!`, slice indexing, checked
  arithmetic) is an explicit `Prog.panic` / out-of-bounds outcome of the model, so "no panic" is
  the statement that `runSolo` yields `Outcome.ok`.

  Proved here: the lower allocator never panics on a memory satisfying its invariant, for every
  geometry, frame count (including partial last trees and huge frames), order and argument that
  passed `check`: `lower_put_total`, `lower_getAt_total`, `lower_get_total`; `check` itself
  never panics for classes 0..7 (C08.check_spec); the roll-back sites (`Failed undo toggle`,
  `Failed undo search`, `undo failed`, `Undo failed`, `Inc failed`, `Failed partial clear`,
  `Exceeding retries`) are unreachable sequentially.

  `history_never_panics` — the upper level: after `Trees::new`, **every sequential history** of
  valid-parameter calls (get of any order / target / slot, put, drain, change_tree naming any
  tree, stats) runs without panic: all upper-level sites (`Unreserve failed`, `unreserve invalid
  class`, counter asserts, `No locals for class`, `Invalid class`, bit-field setter bounds, slice
  indexing by tree/slot, the `unwrap`s after `try_update`) are unreachable, for every
  configuration satisfying `CfgOk` (class ids < 8, ordered policy = all policies of the
  repository incl. zero-slot classes and the zeroed policy, tree size < 2^19).

  `new_then_history_never_panics`: including the construction itself (free-all / allocate-all,
  every frame count incl. 0, arbitrary buffer contents).

  `tree_stats_never_panics`: the statistics program (tree pass and both passes over the slots)
  never panics and reads only, in every invariant state. `Init::Recover`: C05
  (`recover_then_history`).

  `validate_never_panics`: all assertions of `validate()` hold in every invariant state without
  offline trees (fast = exact, every unreserved tree's counter = its free frames, every
  reservation names a reserved tree and reservation + tree counter = free frames of the tree, as
  many reserved trees as reservations).

  `queries_never_panic`: `stats_at(frame, 0)` and `is_free(frame, order)` (every order, aligned
  in-range blocks: the arguments the source asserts) return a value and read only.

  Remaining (carried by the correspondence): configurations outside `CfgOk` (none in the repository).
-/
import LLFreeV.Proofs.EndToEnd
import LLFreeV.Proofs.TreeStats
import LLFreeV.Proofs.Validate
import LLFreeV.Proofs.LowerQuery
namespace LLFree.C09
open LLFree

theorem lower_put_total (c : Cfg) (ok : GeomOk16 c.geom) (m : Mem) (inv : LowerInv c m) (retries frame order : Nat)
    (hb : BlockOk c frame order) :
    ∃ m' r, runSolo (Lower.put c.geom retries frame order) m = (m', .ok r) := by
  have h := lower_put_refines ok m inv retries frame order hb
  by_cases ha : PutAllowed c m frame order
  · obtain ⟨m', hm', _⟩ := h.1 ha; exact ⟨m', _, hm'⟩
  · exact ⟨m, _, h.2 ha⟩

theorem lower_getAt_total (c : Cfg) (ok : GeomOk16 c.geom) (m : Mem) (inv : LowerInv c m) (frame order : Nat)
    (hb : BlockOk c frame order) :
    ∃ m' r, runSolo (Lower.getAt c.geom frame order) m = (m', .ok r) := by
  have h := lower_getAt_refines ok m inv frame order hb
  by_cases ha : GetAllowed c m frame order
  · obtain ⟨m', hm', _⟩ := h.1 ha; exact ⟨m', _, hm'⟩
  · exact ⟨m, _, h.2 ha⟩

theorem lower_get_total (c : Cfg) (ok : GeomOk16 c.geom) (m : Mem) (inv : LowerInv c m) (start order : Nat)
    (hto : order ≤ c.geom.treeOrder) (ht : start * 64 / c.geom.treeFrames < c.ntrees) :
    ∃ m' r, runSolo (Lower.get c.geom start order none) m = (m', .ok r) := by
  obtain ⟨m', r, h, _⟩ := lower_get_refines ok m inv start order hto ht
  exact ⟨m', r, h⟩

/-- the argument check never panics (classes 0..7) and touches no memory -/
theorem check_total (c : Cfg) (m : Mem) (frame : Nat) (r : Request) (hcls : r.cls < 8) :
    ∃ x, runSolo (check c frame r) m = (m, .ok x) := ⟨_, C08.check_spec c m frame r hcls⟩


/-- **No call of any sequential history panics** (upper level): from a lower allocator satisfying
    its invariant with empty slots, `Trees::new` followed by any list of valid-parameter calls
    (allocations of any order with/without target and slot, frees, drains, tree changes naming any
    tree, exact statistics) runs to completion; `Runs` means the outcome is not a panic. -/
theorem history_never_panics (c : Cfg) (ok : CfgOk c) (calls : List Call) (hvalid : ∀ x ∈ calls, x.valid c) (m : Mem)
    (inv : LowerInv c m) (hsz : m.trees.size = c.ntrees) (hss : m.slots.size = c.nslots) (habs : ∀ s, SlotAbsent m s) :
    Runs m (do Trees.init c; runCalls c calls) (fun _ m' => ∃ H', UpperInv0 c H' m') :=
  calls_safe_from_init ok calls hvalid m inv hsz hss habs

/-- in terms of the sequential semantics: the outcome of the whole history is `ok` -/
theorem history_outcome_ok (c : Cfg) (ok : CfgOk c) (calls : List Call) (hvalid : ∀ x ∈ calls, x.valid c) (m : Mem)
    (inv : LowerInv c m) (hsz : m.trees.size = c.ntrees) (hss : m.slots.size = c.nslots) (habs : ∀ s, SlotAbsent m s) :
    ∃ m', runSolo (do Trees.init c; runCalls c calls) m = (m', .ok ()) := by
  obtain ⟨m', _, h, _⟩ := history_never_panics c ok calls hvalid m inv hsz hss habs
  exact ⟨m', h⟩


/-- the same from `LLFree::new` on: free-all / allocate-all construction for every frame count
    (including 0), then any history -/
theorem new_then_history_never_panics (c : Cfg) (ok : CfgOk c) (init : Init) (hinit : init = .freeAll ∨ init = .allocAll)
    (calls : List Call) (hvalid : ∀ x ∈ calls, x.valid c) (m : Mem) (hs : ShapeOk c m) (habs : ∀ s, SlotAbsent m s) :
    ∃ m', runSolo (do initProg c init; runCalls c calls) m = (m', .ok ()) := by
  obtain ⟨m', _, h, _⟩ := LLFree.new_then_history ok init hinit calls hvalid m hs habs
  exact ⟨m', h⟩

/-- `tree_stats()` never panics and reads only, in every state satisfying the upper invariant
    (hence after every call of every sequential history of a constructed allocator) -/
theorem tree_stats_never_panics (c : Cfg) (H : Nat → Nat) (ok : CfgOk c) (m : Mem) (inv : UpperInv0 c H m) :
    Runs m (treeStats c) (fun _ m' => m = m') :=
  (treeStats_spec c m ok inv).mono (fun _ _ h => h.1)

/-- `validate()` never panics — all its assertions hold — in every state satisfying the upper
    invariant in which no tree is offline (with an offline tree its first assertion, fast = exact,
    is *meant* to fail: C04 `fast_total_exact`) -/
theorem validate_never_panics (c : Cfg) (ok : CfgOk c) (m : Mem) (inv : UpperInv0 c (fun _ => 0) m) :
    Runs m (validate c) (fun _ m' => m = m') :=
  validate_spec c m ok inv

/-- the per-frame queries return a value (no panic, nothing written) for in-range frames and the
    blocks `is_free` accepts -/
theorem queries_never_panic (c : Cfg) (ok : GeomOk16 c.geom) (m : Mem) (inv : LowerInv c m) (frame order : Nat)
    (hal : frame % 2 ^ order = 0) (hin : frame + 2 ^ order ≤ c.frames) (hto : order ≤ c.geom.treeOrder) :
    (∃ s, runSolo (Lower.statsAt c.geom frame 0) m = (m, .ok s)) ∧
    (∃ b, runSolo (Lower.isFree c.geom frame order) m = (m, .ok b)) := by
  have hpos : 0 < 2 ^ order := Nat.pos_of_ne_zero (by simp)
  refine ⟨⟨_, statsAt_frame_exact ok m inv frame (by omega)⟩, ?_⟩
  obtain ⟨b, hb, _⟩ := isFree_exact ok m inv frame order hal hin hto
  exact ⟨b, hb⟩

end LLFree.C09
