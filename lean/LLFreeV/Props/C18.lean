/-
  C18 — No out-of-bounds access or undefined behaviour in metadata handling.  (PARTIAL)

  What a model can carry of this property:
  * in the model every access names a typed location (row, table entry, tree entry, slot) by its
    logical index, and an index outside the arrays is the *panic* outcome "index out of bounds"
    (what the slice indexing of the source does). `history_accesses_in_bounds`: for every
    sequential history of valid-parameter calls after `Trees::new`, the outcome is `ok` — so no
    access of `get`/`put`/`drain`/`change_tree`/`stats` on any path leaves the arrays whose
    lengths are the ones `Lower::new`/`Trees::new`/`Locals::new` carve out of the buffers;
  * `row_in_buffer`, `entry_in_buffer`, `tree_in_buffer`, `slot_in_buffer`: every logical index
    inside those arrays lies, with its full width, inside the byte buffer of exactly the size
    `metadata_size` requests (including the cache-line padding of each bitfield and table) —
    the layout used by the harness to read the logical words, which the byte-level
    correspondence (digest after every call) validates against the real code;
  * `sizes_zero`: a configuration without frames / without slots needs empty buffers.

  NOT modelled (named, not claimed): the narrow-atomic punning of bitfield rows
  (`toggle_int`), `non_atomic` table fills, `aligned_buf`, the pointer arithmetic of `overlap`,
  data races and any other undefined behaviour of the Rust abstract machine. The run-time
  side is explored instead: every metadata buffer of every correspondence run is mapped with
  exactly the requested size directly in front of an inaccessible guard page (and behind a
  canary), so an access past the end faults at once and is reported as a C18 violation.
  ASan/Miri exist in the sandbox but are not part of this technique and are not used.

  * `metadata_sizes_match_source` — the three `metadata_size` computations are re-derived from the
    Rust source on every run (`tools/rs2lean.py`, `Gen/Meta.lean`) and equal the model's sizes
    (`Proofs/GenMeta.lean`; the `size_of`/`align_of` values of the five element types are listed
    there and cross-checked by the unit differential `meta`).
-/
import LLFreeV.Props.C09
import LLFreeV.Model.Codec
import LLFreeV.Proofs.GenMeta
namespace LLFree.C18
open LLFree

/-- no access of any sequential history leaves the typed arrays (an out-of-bounds access is
    the panic outcome `oobMsg` of the model) -/
theorem history_accesses_in_bounds (c : Cfg) (ok : CfgOk c) (calls : List Call) (hvalid : ∀ x ∈ calls, x.valid c) (m : Mem)
    (inv : LowerInv c m) (hsz : m.trees.size = c.ntrees) (hss : m.slots.size = c.nslots) (habs : ∀ s, SlotAbsent m s) :
    ∀ m', runSolo (do Trees.init c; runCalls c calls) m ≠ (m', .panic oobMsg) := by
  intro m' h
  obtain ⟨m2, h2⟩ := C09.history_outcome_ok c ok calls hvalid m inv hsz hss habs
  rw [h2] at h
  cases h

theorem le_alignUp (v a : Nat) (ha : 0 < a) : v ≤ alignUp v a := by
  unfold alignUp
  have := Nat.div_add_mod (v + a - 1) a
  have := Nat.mod_lt (v + a - 1) ha
  rw [Nat.mul_comm]
  omega

/-- row `h * rows + r` (8 bytes at offset `h * stride + r * 8`) lies inside the bitfield area -/
theorem row_in_buffer (g : Geom) (frames h r : Nat) (hh : h < (frames + g.hugeFrames - 1) / g.hugeFrames) (hr : r < g.rows) :
    h * alignUp (g.rows * 8) 64 + r * 8 + 8 ≤ ((frames + g.hugeFrames - 1) / g.hugeFrames) * alignUp (g.rows * 8) 64 := by
  have h1 := le_alignUp (g.rows * 8) 64 (by decide)
  generalize alignUp (g.rows * 8) 64 = stride at *
  generalize (frames + g.hugeFrames - 1) / g.hugeFrames = n at *
  have : (h + 1) * stride ≤ n * stride := Nat.mul_le_mul_right _ hh
  rw [Nat.add_mul, Nat.one_mul] at this
  omega

/-- table entry `(t, k)` (2 bytes) lies inside the lower buffer -/
theorem entry_in_buffer (g : Geom) (frames t k : Nat) (ht : t < (frames + g.treeFrames - 1) / g.treeFrames) (hk : k < g.treeHuge) :
    ((frames + g.hugeFrames - 1) / g.hugeFrames) * alignUp (g.rows * 8) 64 + t * alignUp (g.treeHuge * 2) 64 + k * 2 + 2
      ≤ lowerSize g frames := by
  unfold lowerSize
  simp only
  have h1 := le_alignUp (g.treeHuge * 2) 64 (by decide)
  generalize alignUp (g.treeHuge * 2) 64 = stride at *
  generalize (frames + g.treeFrames - 1) / g.treeFrames = n at *
  have : (t + 1) * stride ≤ n * stride := Nat.mul_le_mul_right _ ht
  rw [Nat.add_mul, Nat.one_mul] at this
  omega

/-- tree entry `i` (4 bytes) lies inside the trees buffer -/
theorem tree_in_buffer (g : Geom) (frames i : Nat) (hi : i < (frames + g.treeFrames - 1) / g.treeFrames) :
    i * 4 + 4 ≤ treesSize g frames := by
  unfold treesSize
  have h1 := le_alignUp (((frames + g.treeFrames - 1) / g.treeFrames) * 4) 64 (by decide)
  omega

/-- slot `s` (8 bytes at the start of its cache line) lies inside the local buffer -/
theorem slot_in_buffer (c : Cfg) (s : Nat) (hs : s < c.nslots) : s * 64 + 8 ≤ localsSize c.classes := by
  unfold localsSize
  have : c.nslots = (c.classes.map (·.2)).foldl (· + ·) 0 := rfl
  rw [← this]
  omega

/-- empty configurations need empty buffers -/
theorem sizes_zero (g : Geom) (hg : 0 < g.hugeFrames) (ht : 0 < g.treeFrames) :
    lowerSize g 0 = 0 ∧ treesSize g 0 = 0 ∧ localsSize [] = 0 := by
  have h1 : (0 + g.hugeFrames - 1) / g.hugeFrames = 0 := Nat.div_eq_of_lt (by omega)
  have h2 : (0 + g.treeFrames - 1) / g.treeFrames = 0 := Nat.div_eq_of_lt (by omega)
  refine ⟨?_, ?_, rfl⟩
  · unfold lowerSize; simp only [h1, h2]; omega
  · unfold treesSize alignUp; simp only [h2]

/-- Non-vacuity: the default geometry with 4097 frames: 9 bitfields of 64 bytes, 3 tables of
    64 bytes; the last entry ends exactly at the end of the buffer. -/
example : lowerSize ⟨9, 4⟩ 4097 = 9 * 64 + 3 * 64 ∧ 9 * 64 + 2 * 64 + 3 * 2 + 2 ≤ lowerSize ⟨9, 4⟩ 4097 := by decide

/-- **The buffer sizes of the model are those of the current source**: `Trees::metadata_size`,
    `Lower::metadata_size` (through `Metadata::new`) and `Locals::metadata_size` are regenerated from
    the source on every run (`Gen/Meta.lean`: `div_ceil`, `next_multiple_of`, `size_of_slice` as written)
    and, for the type sizes of `GenTree.tyOf`, equal the sizes the layout theorems are about. -/
theorem metadata_sizes_match_source (g : Geom) (frames : Nat) (classes : List (Nat × Nat)) :
    Gen.M.treesSize (GenTree.tyOf g) g.treeFrames frames = treesSize g frames ∧
    Gen.M.lowerSize (GenTree.tyOf g) g.hugeFrames g.treeFrames frames = lowerSize g frames ∧
    Gen.M.localsSize (GenTree.tyOf g) ((classes.map (·.2)).sum) = localsSize classes :=
  ⟨GenTree.treesSize_eq g frames, GenTree.lowerSize_eq g frames, GenTree.localsSize_eq g classes⟩

end LLFree.C18
