/-
  C10 — After a drain, allocation fails only when nothing suitable is free.

  Proved here (ingredients that hold without any invariant):
  * `search_visits_all` — the alternating scan of `search`/`search_best` over `len = #trees`
    iterations from any start index visits every tree (the iteration indices map onto all tree
    indices);
  * `best_nonempty` — after an insertion the candidate buffer of capacity ≥ 1 is not empty, so a
    usable tree is never forgotten entirely;
  * `steal_succeeds` / `steal_takes` — a tree entry that is unreserved and whose counter
    covers the request is accepted by `Tree::steal` under every policy answer except `Invalid`;

  PARTIAL: the end-to-end statements (`drained_get_complete`, `drained_get_at_iff`) combine these
  with the upper invariant (after a drain every tree counter equals the free frames of its tree,
  offline trees excepted) and C12; the invariant is in progress. Until then carried by the drain
  probes of the correspondence (drain, then a base-order or targeted allocation at every explored
  quiescent state) with the completeness oracle.
-/
import LLFreeV.Proofs.SortedBuffer
import LLFreeV.Model.Upper
namespace LLFree.C10
open LLFree

/-- the natural-number value of the scan index when nothing wraps -/
theorem searchIdx_nat (start n i : Nat) (hs : start < n) (hi : i < n) (h64 : start + n + i < 2 ^ 64) :
    searchIdx start n i = (if i % 2 = 0 then start + n + i / 2 else start + n - (i + 1) / 2) % n := by
  unfold searchIdx
  by_cases he : i % 2 = 0
  · simp only [he, if_true]
    have e : (((start + n : Nat) : Int) + ((i / 2 : Nat) : Int)) = ((start + n + i / 2 : Nat) : Int) := by omega
    rw [e]
    have hmod : ((start + n + i / 2 : Nat) : Int) % (2 ^ 64 : Int) = ((start + n + i / 2 : Nat) : Int) := by
      apply Int.emod_eq_of_lt <;> omega
    rw [hmod, Int.toNat_natCast]
  · simp only [he, if_false]
    have e : (((start + n : Nat) : Int) + -(((i + 1) / 2 : Nat) : Int)) = ((start + n - (i + 1) / 2 : Nat) : Int) := by omega
    rw [e]
    have hmod : ((start + n - (i + 1) / 2 : Nat) : Int) % (2 ^ 64 : Int) = ((start + n - (i + 1) / 2 : Nat) : Int) := by
      apply Int.emod_eq_of_lt <;> omega
    rw [hmod, Int.toNat_natCast]

theorem search_visits_all (start n : Nat) (hs : start < n) (h64 : start + 2 * n < 2 ^ 64) (j : Nat) (hj : j < n) :
    ∃ i, i < n ∧ searchIdx start n i = j := by
  -- forward distance from start to j
  by_cases hfw : start ≤ j
  · -- d = j - start
    by_cases hd : 2 * (j - start) < n
    · refine ⟨2 * (j - start), hd, ?_⟩
      rw [searchIdx_nat start n _ hs hd (by omega)]
      have h1 : 2 * (j - start) % 2 = 0 := by omega
      have h2 : 2 * (j - start) / 2 = j - start := by omega
      simp only [h1, if_true, h2]
      rw [show start + n + (j - start) = j + n by omega, Nat.add_mod_right, Nat.mod_eq_of_lt hj]
    · -- go backwards by b = n - (j - start)
      have hb : 2 * (n - (j - start)) - 1 < n := by omega
      refine ⟨2 * (n - (j - start)) - 1, hb, ?_⟩
      rw [searchIdx_nat start n _ hs hb (by omega)]
      have h1 : ¬ (2 * (n - (j - start)) - 1) % 2 = 0 := by omega
      have h2 : (2 * (n - (j - start)) - 1 + 1) / 2 = n - (j - start) := by omega
      simp only [h1, if_false, h2]
      rw [show start + n - (n - (j - start)) = j by omega, Nat.mod_eq_of_lt hj]
  · -- j < start: backward distance b = start - j, forward distance n - b
    by_cases hd : 2 * (start - j) - 1 < n ∧ 2 * (start - j) ≤ n
    · refine ⟨2 * (start - j) - 1, hd.1, ?_⟩
      rw [searchIdx_nat start n _ hs hd.1 (by omega)]
      have h1 : ¬ (2 * (start - j) - 1) % 2 = 0 := by omega
      have h2 : (2 * (start - j) - 1 + 1) / 2 = start - j := by omega
      simp only [h1, if_false, h2]
      rw [show start + n - (start - j) = j + n by omega, Nat.add_mod_right, Nat.mod_eq_of_lt hj]
    · have hf : 2 * (n - (start - j)) < n := by omega
      refine ⟨2 * (n - (start - j)), hf, ?_⟩
      rw [searchIdx_nat start n _ hs hf (by omega)]
      have h1 : 2 * (n - (start - j)) % 2 = 0 := by omega
      have h2 : 2 * (n - (start - j)) / 2 = n - (start - j) := by omega
      simp only [h1, if_true, h2]
      rw [show start + n + (n - (start - j)) = j + n + n by omega, Nat.add_mod_right, Nat.add_mod_right, Nat.mod_eq_of_lt hj]

/-- after an insertion the candidate buffer (capacity ≥ 1) is not empty -/
theorem best_nonempty {τ : Type} (le : τ → τ → Bool) (n : Nat) (hn : 0 < n) (buf : List τ) (v : τ)
    (hlen : buf.length ≤ n) : SortedBuffer.add le n buf v ≠ [] := by
  unfold SortedBuffer.add
  by_cases h : buf.length < n
  · simp only [h, if_true]
    intro hc
    have := congrArg List.length hc
    simp at this
  · simp only [h, if_false]
    have hne : buf ≠ [] := by
      intro hb; rw [hb] at h; simp at h; omega
    split
    · exact hne
    · intro hc
      have := congrArg List.length hc
      simp at this

/-- an unreserved tree whose counter covers the request is accepted by `Tree::steal` under every
    policy answer except `Invalid` (a policy "that never declares a tree unusable") -/
theorem steal_succeeds (t : Tree) (cls n : Nat) (policy : PolicyFn) (hr : t.reserved = false) (hf : t.free ≥ n)
    (hp : policy cls t.cls n ≠ .invalid) : (t.steal cls n policy).isSome = true := by
  unfold Tree.steal
  simp only [hf, decide_true, hr, Bool.not_false, Bool.and_self, if_true]
  cases hpol : policy cls t.cls n with
  | «match» p => rfl
  | demote => simp [hr]
  | steal => rfl
  | invalid => exact absurd hpol hp

/-- ... and then exactly `n` frames leave the counter -/
theorem steal_takes (t e : Tree) (cls n : Nat) (policy : PolicyFn) (h : t.steal cls n policy = some e) :
    e.free = t.free - n ∧ n ≤ t.free ∧ e.reserved = t.reserved := by
  unfold Tree.steal at h
  split at h
  · rename_i hc
    simp only [Bool.and_eq_true, decide_eq_true_eq, Bool.not_eq_true'] at hc
    split at h
    · injection h with h; subst h; exact ⟨rfl, hc.1, rfl⟩
    · split at h
      · cases h
      · injection h with h; subst h; exact ⟨rfl, hc.1, rfl⟩
    · injection h with h; subst h; exact ⟨rfl, hc.1, rfl⟩
    · cases h
  · cases h

/-- Non-vacuity: with 5 trees and start 3 the scan order is 3, 2, 4, 1, 0. -/
example : (List.range 5).map (searchIdx 3 5) = [3, 2, 4, 1, 0] := by decide

end LLFree.C10
