/-
  C10 — After a drain, allocation fails only when nothing suitable is free.

  Proved here (ingredients that hold without any invariant):
  * `search_visits_all` — the alternating scan of `search`/`search_best` over `len = #trees`
    iterations from any start index visits every tree (the iteration indices map onto all tree
    indices);
  * `best_nonempty` — after an insertion the candidate buffer of capacity ≥ 1 is not empty, so a
    usable tree is never forgotten entirely;
  * `steal_succeeds` / `steal_takes` — a tree entry that is unreserved and whose counter
    covers the request is accepted by `Tree::steal` under every policy answer except `Invalid`;

  * `drain_clears` — after `drain` every slot is empty and the invariant holds;
  * `get_after_drain_complete` — **base order, end to end**: in a drained allocator (every state
    satisfying the upper invariant with empty slots) `get(order 0)` succeeds whenever some
    unreserved tree has a positive counter; `usable_of_free`: that is the case whenever a frame
    outside hidden (offline) trees is free;
  * `get_at_after_drain_complete` / `targeted_exact` — **targeted, both directions**: a targeted
    allocation of a block that is entirely free and lies in a tree that is not hidden returns
    exactly the block; and it succeeds only on an entirely free block (C02), never on frames of
    a hidden tree's counter (the tree counter is 0: `Trees::steal` refuses).
  The "policy that never declares a tree unusable" of the statement is `CfgOk.policy`
  (`OrderedPolicy`: the repository's policies).
-/
import LLFreeV.Proofs.SortedBuffer
import LLFreeV.Proofs.UpperComplete
import LLFreeV.Proofs.UpperTargeted
import LLFreeV.Proofs.ConcUpperThreads
import LLFreeV.Proofs.ConcChange
namespace LLFree.C10
open LLFree

/-- the natural-number value of the scan index when nothing wraps -/
theorem searchIdx_nat (start n i : Nat) (hs : start < n) (hi : i < n) (h64 : start + n + i < 2 ^ 64) :
    searchIdx start n i = (if i % 2 = 0 then start + n + i / 2 else start + n - (i + 1) / 2) % n :=
  LLFree.searchIdx_nat start n i hs hi h64

theorem search_visits_all (start n : Nat) (hs : start < n) (h64 : start + 2 * n < 2 ^ 64) (j : Nat) (hj : j < n) :
    ∃ i, i < n ∧ searchIdx start n i = j := LLFree.search_visits_all start n hs h64 j hj

/-- after an insertion the candidate buffer (capacity ≥ 1) is not empty -/
theorem best_nonempty {τ : Type} (le : τ → τ → Bool) (n : Nat) (hn : 0 < n) (buf : List τ) (v : τ)
    (hlen : buf.length ≤ n) : SortedBuffer.add le n buf v ≠ [] := by
  unfold SortedBuffer.add
  by_cases h : buf.length < n
  · simp only [h, if_true]
    intro hc
    have := congrArg List.length hc
    simp at this
  · simp only [h, if_false]
    have hne : buf ≠ [] := by
      intro hb; rw [hb] at h; simp at h; omega
    split
    · exact hne
    · intro hc
      have := congrArg List.length hc
      simp at this

/-- an unreserved tree whose counter covers the request is accepted by `Tree::steal` under every
    policy answer except `Invalid` (a policy "that never declares a tree unusable") -/
theorem steal_succeeds (t : Tree) (cls n : Nat) (policy : PolicyFn) (hr : t.reserved = false) (hf : t.free ≥ n)
    (hp : policy cls t.cls n ≠ .invalid) : (t.steal cls n policy).isSome = true := by
  unfold Tree.steal
  simp only [hf, decide_true, hr, Bool.not_false, Bool.and_self, if_true]
  cases hpol : policy cls t.cls n with
  | «match» p => rfl
  | demote => simp [hr]
  | steal => rfl
  | invalid => exact absurd hpol hp

/-- ... and then exactly `n` frames leave the counter -/
theorem steal_takes (t e : Tree) (cls n : Nat) (policy : PolicyFn) (h : t.steal cls n policy = some e) :
    e.free = t.free - n ∧ n ≤ t.free ∧ e.reserved = t.reserved := by
  unfold Tree.steal at h
  split at h
  · rename_i hc
    simp only [Bool.and_eq_true, decide_eq_true_eq, Bool.not_eq_true'] at hc
    split at h
    · injection h with h; subst h; exact ⟨rfl, hc.1, rfl⟩
    · split at h
      · cases h
      · injection h with h; subst h; exact ⟨rfl, hc.1, rfl⟩
    · injection h with h; subst h; exact ⟨rfl, hc.1, rfl⟩
    · cases h
  · cases h

/-- **`drain`** never panics, keeps the invariant and the allocation state; afterwards no slot
    holds a reservation and no tree is reserved (sequential, every reachable state). -/
theorem drain_clears (c : Cfg) (ok : CfgOk c) (H : Nat → Nat) (m : Mem) (inv : UpperInv0 c H m) :
    Runs m (drain c) (fun _ m' => UpperInv0 c H m' ∧ SameAlloc m m' ∧ (∀ s, SlotAbsent m' s) ∧
      ∀ (i : Nat) (t : Tree), m'.trees[i]? = some t → t.reserved = false) := drain_spec ok inv

/-- **After a drain a base-order allocation fails only if nothing suitable is free**: in a
    drained state, if some tree is unreserved with a positive counter, `get` succeeds (with a
    block that was free). For a tree that is not hidden (offline) the counter is exactly its
    number of free frames (`UpperInv.counterEq`). -/
theorem get_after_drain_complete (c : Cfg) (ok : CfgOk c) (H : Nat → Nat) (m : Mem) (inv : UpperInv0 c H m)
    (habs : ∀ s, SlotAbsent m s) (r : Request) (ho : r.order = 0) (hcls : r.cls < 8) (hloc : r.locOk c)
    (hv : C08.ArgsValid c 0 r) (j : Nat) (hj : j < c.ntrees) (hu : Usable m j) :
    Runs m (get c none r) (fun res m' => (∃ x, res = .ok x) ∧ UpperInv0 c H m' ∧ GetOutcome c m 0 none res m') :=
  get_base_complete ok inv habs r ho hcls hloc hv j hj hu

/-- the same at the quiescent end of every interleaving of threads running public calls: the
    state satisfies the invariant, so a drain followed by a base-order get succeeds whenever some
    tree is usable -/
theorem conc_quiescent_then_drain_get (c : Cfg) (ok : CfgOk c) (H : Nat → Nat) (m : Mem) (inv : UpperInv0 c H m)
    (n : Nat) (cmds : Nat → List UCmd) (hvalid : ∀ k, ∀ x ∈ cmds k, x.valid c) (sched : List Nat) (hsched : ∀ k ∈ sched, k < n)
    (hdone : ∀ k, k < n → ∃ held, ((concRun sched (m, fun k => Th.at (runU c (cmds k) ⟨[], []⟩))).2 k).step
      (concRun sched (m, fun k => Th.at (runU c (cmds k) ⟨[], []⟩))).1 = .done held) :
    UpperInv0 c H (concRun sched (m, fun k => Th.at (runU c (cmds k) ⟨[], []⟩))).1 ∧
    ∀ m1, UpperInv0 c H m1 → (∀ s, SlotAbsent m1 s) → ∀ (r : Request), r.order = 0 → r.cls < 8 → r.locOk c →
      C08.ArgsValid c 0 r → ∀ j, j < c.ntrees → Usable m1 j →
      Runs m1 (get c none r) (fun res m' => (∃ x, res = .ok x) ∧ UpperInv0 c H m' ∧ GetOutcome c m1 0 none res m') :=
  ⟨upper_conc_quiescent ok H m inv n cmds hvalid sched hsched hdone,
   fun m1 inv1 habs r ho hcls hloc hv j hj hu => get_base_complete ok inv1 habs r ho hcls hloc hv j hj hu⟩

/-- … and the same after an interleaving in which trees were also changed (class changes, `Offline`):
    the quiescent state satisfies the invariant for some hidden frames `H' ≥ H`, and after a drain a
    base-order allocation succeeds whenever a tree is usable. -/
theorem conc_quiescent_then_drain_get_with_tree_changes (c : Cfg) (ok : CfgOk c) (H : Nat → Nat) (m : Mem) (inv : UpperInv0 c H m)
    (n : Nat) (cmds : Nat → List CCmd) (hvalid : ∀ k, ∀ x ∈ cmds k, x.valid c) (sched : List Nat) (hsched : ∀ k ∈ sched, k < n)
    (hdone : ∀ k, k < n → ∃ held, ((concRun sched (m, fun k => Th.at (runUC c (cmds k) ⟨[], []⟩))).2 k).step
      (concRun sched (m, fun k => Th.at (runUC c (cmds k) ⟨[], []⟩))).1 = .done held) :
    ∃ H', (∀ i, H i ≤ H' i) ∧ UpperInv0 c H' (concRun sched (m, fun k => Th.at (runUC c (cmds k) ⟨[], []⟩))).1 ∧
    ∀ m1, UpperInv0 c H' m1 → (∀ s, SlotAbsent m1 s) → ∀ (r : Request), r.order = 0 → r.cls < 8 → r.locOk c →
      C08.ArgsValid c 0 r → ∀ j, j < c.ntrees → Usable m1 j →
      Runs m1 (get c none r) (fun res m' => (∃ x, res = .ok x) ∧ UpperInv0 c H' m' ∧ GetOutcome c m1 0 none res m') := by
  obtain ⟨H', hle, hinv⟩ := upper_conc_quiescent_change ok H m inv n cmds hvalid sched hsched hdone
  exact ⟨H', hle, hinv, fun m1 inv1 habs r ho hcls hloc hv j hj hu => get_base_complete ok inv1 habs r ho hcls hloc hv j hj hu⟩

/-- the counter of a tree outside the hidden set with a free frame is positive when no slot
    caches its frames: the premise `Usable` of the completeness theorem is "a frame outside
    offline trees is free" -/
theorem usable_of_free (c : Cfg) (H : Nat → Nat) (m : Mem) (inv : UpperInv0 c H m) (j : Nat) (t : Tree)
    (ht : m.trees[j]? = some t) (hr : t.reserved = false) (hnh : H j = 0) (hfree : 1 ≤ m.freeInTree c.geom j) : Usable m j := by
  refine ⟨t, ht, hr, ?_⟩
  have h1 := inv.counterEq j t ht hnh
  have h2 := inv.slotFree_unreserved j t ht hr
  omega

/-- a targeted allocation in a drained allocator: see C02 (`get` with a target succeeds only on
    a free block and returns exactly it). -/
theorem targeted_exact (c : Cfg) (ok : CfgOk c) (H : Nat → Nat) (m : Mem) (inv : UpperInv0 c H m) (f : Nat) (r : Request)
    (hcls : r.cls < 8) (hloc : r.locOk c) (hv : C08.ArgsValid c f r) :
    Runs m (get c (some f) r) (fun res m' => UpperInv0 c H m' ∧ GetOutcome c m r.order (some f) res m') :=
  upper_get_spec ok inv (some f) r hcls hloc hv

/-- **Targeted allocation after a drain, completeness.** -/
theorem get_at_after_drain_complete (c : Cfg) (ok : CfgOk c) (H : Nat → Nat) (m : Mem) (inv : UpperInv0 c H m)
    (habs : ∀ s, SlotAbsent m s) (f : Nat) (r : Request) (hcls : r.cls < 8) (hloc : r.locOk c) (hv : C08.ArgsValid c f r)
    (hfree : GetAllowed c m f r.order) (hnh : H (f / c.geom.treeFrames) = 0) :
    Runs m (get c (some f) r) (fun res m' => (UpperInv0 c H m' ∧ GetOutcome c m r.order (some f) res m') ∧ ∃ x, res = .ok x) :=
  get_at_drained_complete ok inv habs f r hcls hloc hv hfree hnh

/-- Non-vacuity: with 5 trees and start 3 the scan order is 3, 2, 4, 1, 0. -/
example : (List.range 5).map (searchIdx 3 5) = [3, 2, 4, 1, 0] := by decide

end LLFree.C10
