/-
  C02 — Sequential calls follow the frame-ownership model exactly.

  The allocation status of every frame is a function of the lower metadata alone
  (`Mem.allocated`, `Mem.whole`); the upper level only decides where to call the lower
  allocator. Proved here, for every geometry (HUGE_ORDER 6..15, TREE_HUGE = 2^k), frame count
  and memory satisfying the lower invariant:

  * `lower_put_refines` — `Lower::put` succeeds **iff** the specification allows the free
    (`PutAllowed`: all frames allocated; for huge orders every covered huge frame whole), then
    frees exactly those frames, splitting a whole huge frame on a partial free (`PutPost`);
    otherwise it returns `Memory` and leaves the *entire* memory unchanged;
  * `lower_getAt_refines` — the targeted allocation succeeds **iff** the block is entirely
    free (`GetAllowed`), allocates exactly it (`GetPost`), otherwise changes nothing;
  * `lower_get_refines` — the search allocates an entirely free aligned block of the tree or
    changes nothing (see also C12);
  * every case preserves the invariant (`PutPost.inv`, `GetPost.inv`) and never panics.

  PARTIAL: the statements are about the lower allocator, which every `LLFree::get/put` call
  reaches after `check` (C08). That the upper-level wrappers (counters in `Trees`/`Locals`)
  neither panic nor mask a lower result for every reachable state is the upper invariant
  (`UpperInv`), in progress — until then carried by the sequential correspondence and its
  ownership oracle.
-/
import LLFreeV.Proofs.LowerGet
namespace LLFree.C02
open LLFree

theorem lower_put_refines (c : Cfg) (ok : GeomOk16 c.geom) (m : Mem) (inv : LowerInv c m) (retries frame order : Nat)
    (hb : BlockOk c frame order) :
    (PutAllowed c m frame order →
      ∃ m', runSolo (Lower.put c.geom retries frame order) m = (m', .ok (.ok ())) ∧ PutPost c m m' frame order) ∧
    (¬ PutAllowed c m frame order → runSolo (Lower.put c.geom retries frame order) m = (m, .ok (.error .memory))) :=
  LLFree.lower_put_refines ok m inv retries frame order hb

theorem lower_getAt_refines (c : Cfg) (ok : GeomOk16 c.geom) (m : Mem) (inv : LowerInv c m) (frame order : Nat)
    (hb : BlockOk c frame order) :
    (GetAllowed c m frame order →
      ∃ m', runSolo (Lower.getAt c.geom frame order) m = (m', .ok (.ok ())) ∧ GetPost c m m' frame order) ∧
    (¬ GetAllowed c m frame order → runSolo (Lower.getAt c.geom frame order) m = (m, .ok (.error .memory))) :=
  LLFree.lower_getAt_refines ok m inv frame order hb

theorem lower_get_refines (c : Cfg) (ok : GeomOk16 c.geom) (m : Mem) (inv : LowerInv c m) (start order : Nat)
    (hto : order ≤ c.geom.treeOrder) (ht : start * 64 / c.geom.treeFrames < c.ntrees) :
    ∃ m' r, runSolo (Lower.get c.geom start order none) m = (m', .ok r) ∧
      GetRes c m (start * 64 / c.geom.treeFrames) order m' r :=
  LLFree.lower_get_refines ok m inv start order hto ht

/-- a successful free makes exactly the block's frames free and nothing else changes -/
theorem put_frees_exactly (c : Cfg) (m m' : Mem) (frame order : Nat) (post : PutPost c m m' frame order) (f : Nat) :
    m'.allocated c.geom f = (m.allocated c.geom f && !inBlock frame order f) := post.alloc f

/-- a successful allocation makes exactly the block's frames allocated and nothing else changes -/
theorem get_allocates_exactly (c : Cfg) (m m' : Mem) (frame order : Nat) (post : GetPost c m m' frame order) (f : Nat) :
    m'.allocated c.geom f = (m.allocated c.geom f || inBlock frame order f) := post.alloc f

/-- Non-vacuity: in the all-free 1-tree allocator of the default geometry (rows zero, counters
    512) the block (0, order 3) may be allocated and may not be freed. -/
example : let c : Cfg := ⟨⟨9, 4⟩, 2048, [(0, 1)], 0, fun _ _ _ => .invalid⟩
    let m : Mem := ⟨Array.replicate 32 0#64, Array.replicate 4 512, #[], #[]⟩
    (∀ i, i < 8 → m.allocated c.geom (0 + i) = false) ∧ m.allocated c.geom 0 = false := by
  decide

end LLFree.C02
